(** * C02 proofs, third part: the number of evaluations (no creeping), invariance under scaling of the objective
    function ("only the ratios of the three function values enter"), and the clamp of Ridder's point on every
    ordered instance of the number interface (rounding included). *)
From Coq Require Import Reals ZArith Lra Lia List Psatz Bool.
From LP Require Import Num NumR OrdLaws C02_Model C02_Proofs C02_Proofs2.
Import ListNotations.
Local Open Scope R_scope.

(** ** The number of evaluations
    Every pass that continues leaves a bracket at most half as wide and not narrower than acc; so from a bracket
    narrower than acc * 2^(n+1) the loop returns (through an exact zero or a bracket narrower than acc, never
    through the iteration limit) after at most n+1 passes, i.e. 2(n+1) evaluations — whatever the function.
    Ridder's iteration cannot creep. *)
Lemma loop_returns_within (f : R -> R) (acc : R) : forall n s m, Inv f s -> width s < acc * 2 ^ (S n) -> (S n <= m)%nat ->
  (length (snd (loop ROps f acc m s)) <= 2 * S n)%nat /\
  exists x h, fst (loop ROps f acc m s) = Ok (x, h) /\ h <> HMaxIter.
Proof.
  induction n as [|n IH]; intros s m HI Hw Hm; (destruct m as [|m]; [lia|]); cbn [loop];
    destruct (step_spec f acc s HI) as (Tr & In3 & In4 & Cases);
    destruct (step ROps f acc s) as [[o|s'] tr] eqn:Est; cbn [fst snd] in *; subst tr.
  - split; [cbn; lia|].
    destruct Cases as [[Eo _]|(_ & s'' & N & [[Eo _]|[Eo _]])]; try discriminate; inversion Eo; subst o; eexists; eexists; (split; [reflexivity|discriminate]).
  - exfalso. destruct Cases as [[Eo _]|(_ & s'' & N & [[Eo _]|[Eo Hacc]])]; try discriminate. inversion Eo; subst s''.
    destruct N as (_ & _ & _ & _ & _ & Hw'). cbn [pow] in Hw. lra.
  - split; [cbn; lia|].
    destruct Cases as [[Eo _]|(_ & s'' & N & [[Eo _]|[Eo _]])]; try discriminate; inversion Eo; subst o; eexists; eexists; (split; [reflexivity|discriminate]).
  - destruct Cases as [[Eo _]|(_ & s'' & N & [[Eo _]|[Eo Hacc]])]; try discriminate. inversion Eo; subst s''.
    destruct N as (HI' & _ & _ & _ & _ & Hw').
    assert (Hw2 : width s' < acc * 2 ^ S n).
    { change (2 ^ S (S n)) with (2 * 2 ^ S n) in Hw. lra. }
    specialize (IH s' m HI' Hw2 ltac:(lia)).
    destruct (loop ROps f acc m s') as [o tr'] eqn:El. cbn [fst snd] in *.
    destruct IH as [IH1 IH2]. split; [|exact IH2].
    cbn [app length]. lia.
Qed.

(** Find_Root as a whole: a bracket narrower than acc * 2^n (1 <= n <= Max_Iterations) costs at most 2 + 2n
    evaluations of the objective function (the two ends, then two per pass), and the answer does not come from the
    iteration limit. *)
Theorem evaluation_count f a b acc n : (1 <= n <= max_iterations)%nat -> Rmax a b - Rmin a b < acc * 2 ^ n ->
  (length (snd (find_root_h ROps f a b acc)) <= 2 + 2 * n)%nat /\
  forall x, fst (find_root_h ROps f a b acc) <> Ok (x, HMaxIter).
Proof.
  intros Hn Hw. rewrite frh_eq. unfold frh_R.
  pose proof (Rmin_Rmax a b) as Hmm. set (lo := Rmin a b) in *. set (hi := Rmax a b) in *.
  destruct (Rleb_spec 0 (f lo * f hi)) as [Hp|Hp].
  - destruct (Reqb_spec (f lo) 0); [|destruct (Reqb_spec (f hi) 0)]; cbn [fst snd length]; (split; [lia|intros x; discriminate]).
  - set (s0 := mkst lo hi (f lo) (f hi) lit0).
    assert (HI : Inv f s0) by (unfold Inv, s0; cbn; repeat split; lra).
    assert (Hne : lo < hi).
    { destruct Hmm as [Hmm|Hmm]; [exact Hmm|]. exfalso. rewrite Hmm in Hp. nra. }
    assert (Wd : width s0 = hi - lo) by (unfold width, s0; cbn; apply Rabs_pos_eq; lra).
    destruct n as [|n]; [lia|].
    pose proof (loop_returns_within f acc n s0 max_iterations HI ltac:(rewrite Wd; exact Hw) ltac:(lia)) as [L1 (x & h & L2 & L3)].
    destruct (loop ROps f acc max_iterations s0) as [o tr]. cbn [fst snd] in *.
    split; [cbn [length]; lia|]. intros y E. rewrite L2 in E. inversion E. congruence.
Qed.

(** non-vacuity: x^2 - 2 ... here the quadratic of [accuracy_nonvacuous] on [0,2] with accuracy 3/2 < 2 * 2^1: four evaluations *)
Example evaluation_count_example : (length (snd (find_root_h ROps fq 0%R 2%R (3 / 2)%R)) <= 2 + 2 * 1)%nat.
Proof.
  apply (evaluation_count fq 0 2 (3 / 2) 1).
  - split; [lia|]. rewrite max_iterations_S. lia.
  - rewrite Rmax_right, Rmin_left by lra. lra.
Qed.

(** ** The clamp of Ridder's point, on every ordered instance
    x4 = std::max(std::min(x1,x2), std::min(std::max(x1,x2), x4)) lies in [min(x1,x2), max(x1,x2)] whatever the
    arithmetic produced (no law of arithmetic is used: rounding included), so the second evaluation of every pass
    is inside the current bracket on IEEE doubles as well (non-NaN abscissae). *)
Section AnyOrdered.
Context {T : Type} (Ops : NumOps T) (OL : OrdLaws Ops).

Lemma lt_asym x y : nltb Ops x y = true -> nltb Ops y x = false.
Proof.
  intros H. destruct (nltb Ops y x) eqn:E; [|reflexivity].
  pose proof (ol_trans Ops OL x y x H E) as C. rewrite (ol_irrefl Ops OL) in C. discriminate.
Qed.

Lemma clamp_inside x1 x2 x :
  let lo := nmin Ops x1 x2 in let hi := nmax Ops x1 x2 in
  let c := nmax Ops lo (nmin Ops hi x) in
  nleb Ops lo c = true /\ nleb Ops c hi = true.
Proof.
  cbv zeta. rewrite !(ol_le Ops OL).
  assert (LH : nltb Ops (nmax Ops x1 x2) (nmin Ops x1 x2) = false).
  { unfold nmin, nmax. destruct (nltb Ops x2 x1) eqn:A.
    - rewrite (lt_asym _ _ A). apply lt_asym. exact A.
    - destruct (nltb Ops x1 x2) eqn:B; [apply lt_asym; exact B|apply (ol_irrefl Ops OL)]. }
  set (lo := nmin Ops x1 x2) in *. set (hi := nmax Ops x1 x2) in *.
  unfold nmax, nmin.
  destruct (nltb Ops x hi) eqn:A.
  - destruct (nltb Ops lo x) eqn:B.
    + rewrite (lt_asym _ _ B), (lt_asym _ _ A). split; reflexivity.
    + rewrite (ol_irrefl Ops OL), LH. split; reflexivity.
  - destruct (nltb Ops lo hi) eqn:B.
    + rewrite (lt_asym _ _ B), (ol_irrefl Ops OL). split; reflexivity.
    + rewrite (ol_irrefl Ops OL), LH. split; reflexivity.
Qed.

(** one pass of the loop body evaluates the objective function at exactly two abscissae, and the second one
    (Ridder's point after the clamp) lies in the closed current bracket *)
Theorem ridder_point_clamped (f : T -> T) (acc : T) (s : st) :
  exists x3 x4, snd (step Ops f acc s) = [x3; x4] /\
                nleb Ops (nmin Ops (sx1 s) (sx2 s)) x4 = true /\ nleb Ops x4 (nmax Ops (sx1 s) (sx2 s)) = true.
Proof.
  unfold step. cbv zeta.
  match goal with |- context [nmax Ops (nmin Ops (sx1 s) (sx2 s)) (nmin Ops (nmax Ops (sx1 s) (sx2 s)) ?r)] => set (xr := r) end.
  pose proof (clamp_inside (sx1 s) (sx2 s) xr) as [C1 C2]. cbv zeta in C1, C2.
  set (x4 := nmax Ops (nmin Ops (sx1 s) (sx2 s)) (nmin Ops (nmax Ops (sx1 s) (sx2 s)) xr)) in *.
  eexists; exists x4.
  repeat match goal with |- context [if ?c then _ else _] => destruct c end; cbn [snd]; (split; [reflexivity|split; assumption]).
Qed.
End AnyOrdered.

Example ridder_point_clamped_example : OrdLaws ROps.
Proof. exact ROps_OrdLaws. Qed.

(** ** Invariance under scaling of the objective function
    "Only the ratios of the three function values enter": multiplying the objective function by any non-zero
    constant (negative ones included) changes neither the answer nor a single evaluation abscissa. *)
Definition sclf (k : R) (f : R -> R) : R -> R := fun x => k * f x.

Lemma sign1_mul k a : sign1 ROps (k * a) = (sign1 ROps k * sign1 ROps a)%Z.
Proof.
  destruct (sign1_cases k) as [[K1 K2]|[[K1 K2]|[K1 K2]]], (sign1_cases a) as [[A1 A2]|[[A1 A2]|[A1 A2]]],
    (sign1_cases (k * a)) as [[B1 B2]|[[B1 B2]|[B1 B2]]]; rewrite K2, A2, B2; try reflexivity; exfalso; subst; nra.
Qed.

Lemma nneb_sign2_char a b :
  nneb ROps (sign2 ROps a b) a = negb (Z.eqb (sign1 ROps a) (sign1 ROps b)) && negb (Reqb a 0).
Proof.
  unfold nneb, sign2. destruct (Z.eqb _ _) eqn:E; cbn.
  - destruct (Reqb_spec a a); [reflexivity|congruence].
  - destruct (Reqb_spec (- (1) * a) a), (Reqb_spec a 0); try reflexivity; exfalso; lra.
Qed.

Lemma Reqb_scaled k a : k <> 0 -> Reqb (k * a) 0 = Reqb a 0.
Proof.
  intros Hk. destruct (Reqb_spec (k * a) 0) as [E|E], (Reqb_spec a 0) as [F|F]; try reflexivity; exfalso.
  - apply Rmult_integral in E. tauto.
  - apply E. rewrite F. ring.
Qed.

Lemma nneb_sign2_scaled k a b : k <> 0 ->
  nneb ROps (sign2 ROps (k * a) (k * b)) (k * a) = nneb ROps (sign2 ROps a b) a.
Proof.
  intros Hk. rewrite !nneb_sign2_char, !sign1_mul, (Reqb_scaled k a Hk). f_equal. f_equal.
  generalize (sign1 ROps a) (sign1 ROps b). intros za zb.
  destruct (sign1_cases k) as [[K1 K2]|[[K1 K2]|[K1 K2]]]; rewrite K2; try (exfalso; lra).
  - destruct (Z.eqb_spec za zb), (Z.eqb_spec (1 * za) (1 * zb)); try reflexivity; lia.
  - destruct (Z.eqb_spec za zb), (Z.eqb_spec (-1 * za) (-1 * zb)); try reflexivity; lia.
Qed.

(** Ridder's step for k f1, k f2, k f3 is the step for f1, f2, f3 *)
Lemma ridder_step_scaled k f1 f2 f3 : k <> 0 -> f1 * f2 < 0 ->
  IZR (sign1 ROps (k * f1 - k * f2)) * (k * f3) / sqrt (k * f3 * (k * f3) - k * f1 * (k * f2)) =
  IZR (sign1 ROps (f1 - f2)) * f3 / sqrt (f3 * f3 - f1 * f2).
Proof.
  intros Hk H. assert (HD : 0 < f3 * f3 - f1 * f2) by nra.
  assert (Hs : 0 < sqrt (f3 * f3 - f1 * f2)) by (apply sqrt_lt_R0; exact HD).
  replace (k * f1 - k * f2) with (k * (f1 - f2)) by ring. rewrite sign1_mul, mult_IZR.
  replace (k * f3 * (k * f3) - k * f1 * (k * f2)) with ((f3 * f3 - f1 * f2) * (k * k)) by ring.
  rewrite sqrt_mult_alt by lra.
  destruct (sign1_cases k) as [[K1 K2]|[[K1 K2]|[K1 K2]]]; rewrite K2; try (exfalso; lra).
  - rewrite sqrt_square by lra. field. split; lra.
  - replace (k * k) with ((- k) * (- k)) by ring. rewrite sqrt_square by lra. field. split; lra.
Qed.

(** two loop states that differ only by the factor k in the stored function values *)
Definition SRel (k : R) (s s' : @st R) : Prop :=
  sx1 s' = sx1 s /\ sx2 s' = sx2 s /\ sres s' = sres s /\ sf1 s' = k * sf1 s /\ sf2 s' = k * sf2 s.

Lemma step_scaled f acc k s s' : k <> 0 -> sf1 s * sf2 s < 0 -> SRel k s s' ->
  snd (step ROps (sclf k f) acc s') = snd (step ROps f acc s) /\
  match fst (step ROps f acc s), fst (step ROps (sclf k f) acc s') with
  | inl o, inl o' => o' = o
  | inr t, inr t' => SRel k t t'
  | _, _ => False
  end.
Proof.
  intros Hk Hs (E1 & E2 & E3 & E4 & E5).
  assert (Hs' : sf1 s' * sf2 s' < 0) by (rewrite E4, E5; assert (0 < k * k) by nra; nra).
  rewrite (step_eq f acc s Hs), (step_eq (sclf k f) acc s' Hs').
  assert (Em : mid s' = mid s) by (unfold mid; rewrite E1, E2; reflexivity).
  assert (Er : ridder (sclf k f) s' = ridder f s).
  { unfold ridder. rewrite Em, E1, E4, E5. unfold sclf.
    pose proof (ridder_step_scaled k (sf1 s) (sf2 s) (f (mid s)) Hk Hs) as R.
    set (A := IZR (sign1 ROps (k * sf1 s - k * sf2 s))) in *. set (B := IZR (sign1 ROps (sf1 s - sf2 s))) in *.
    set (SA := sqrt (k * f (mid s) * (k * f (mid s)) - k * sf1 s * (k * sf2 s))) in *.
    set (SB := sqrt (f (mid s) * f (mid s) - sf1 s * sf2 s)) in *.
    replace (mid s + (mid s - sx1 s) * A * (k * f (mid s)) / SA) with (mid s + (mid s - sx1 s) * (A * (k * f (mid s)) / SA)) by (unfold Rdiv; ring).
    rewrite R. unfold Rdiv; ring. }
  rewrite Em, Er, E1, E2.
  set (x3 := mid s). set (x4 := nmax ROps (nmin ROps (sx1 s) (sx2 s)) (nmin ROps (nmax ROps (sx1 s) (sx2 s)) (ridder f s))).
  unfold step_tail, sclf. rewrite E1, E2, E4, E5.
  rewrite (Reqb_scaled k (f x4) Hk), !(nneb_sign2_scaled k _ _ Hk).
  destruct (Reqb (f x4) 0); [cbn; split; reflexivity|].
  destruct (nneb ROps (sign2 ROps (f x3) (f x4)) (f x3)).
  { cbn [sx1 sx2]. destruct (Rltb (Rabs (x4 - x3)) acc); cbn; (split; [reflexivity|]); [reflexivity|unfold SRel; cbn; tauto]. }
  destruct (nneb ROps (sign2 ROps (sf1 s) (f x4)) (sf1 s)).
  { cbn [sx1 sx2]. destruct (Rltb (Rabs (x4 - sx1 s)) acc); cbn; (split; [reflexivity|]); [reflexivity|unfold SRel; cbn; tauto]. }
  destruct (nneb ROps (sign2 ROps (sf2 s) (f x4)) (sf2 s)).
  { cbn [sx1 sx2]. destruct (Rltb (Rabs (sx2 s - x4)) acc); cbn; (split; [reflexivity|]); [reflexivity|unfold SRel; cbn; tauto]. }
  cbn. split; reflexivity.
Qed.

Lemma loop_scaled f acc k : k <> 0 -> forall n s s', Inv f s -> SRel k s s' ->
  loop ROps (sclf k f) acc n s' = loop ROps f acc n s.
Proof.
  intros Hk. induction n as [|n IH]; intros s s' HI HR.
  - cbn [loop]. destruct HR as (_ & _ & -> & _). reflexivity.
  - cbn [loop].
    pose proof HI as (_ & _ & Hs).
    destruct (step_scaled f acc k s s' Hk Hs HR) as [T1 T2].
    destruct (step_spec f acc s HI) as (_ & _ & _ & Cases).
    destruct (step ROps f acc s) as [[o|t] tr] eqn:Est, (step ROps (sclf k f) acc s') as [[o'|t'] tr'] eqn:Est';
      cbn [fst snd] in *; try contradiction; subst tr'.
    + subst o'. reflexivity.
    + destruct Cases as [[Eo _]|(_ & s'' & N & [[Eo _]|[Eo _]])]; try discriminate. inversion Eo; subst s''.
      destruct N as (HI' & _).
      rewrite (IH t t' HI' T2). reflexivity.
Qed.

Theorem scale_invariant f k a b acc : k <> 0 ->
  find_root_h ROps (sclf k f) a b acc = find_root_h ROps f a b acc.
Proof.
  intros Hk. rewrite !frh_eq. unfold frh_R.
  set (lo := Rmin a b). set (hi := Rmax a b).
  assert (Es : Rleb 0 (sclf k f lo * sclf k f hi) = Rleb 0 (f lo * f hi)).
  { unfold sclf. assert (0 < k * k) by nra.
    destruct (Rleb_spec 0 (k * f lo * (k * f hi))), (Rleb_spec 0 (f lo * f hi)); try reflexivity; exfalso; nra. }
  rewrite Es. unfold sclf at 1 2. rewrite !(Reqb_scaled k _ Hk).
  destruct (Rleb_spec 0 (f lo * f hi)) as [Hp|Hp]; [reflexivity|].
  rewrite (loop_scaled f acc k Hk max_iterations (mkst lo hi (f lo) (f hi) lit0) (mkst lo hi (sclf k f lo) (sclf k f hi) lit0)).
  - reflexivity.
  - unfold Inv; cbn; repeat split; lra.
  - unfold SRel, sclf; cbn [sx1 sx2 sres sf1 sf2]; tauto.
Qed.

(** non-vacuity: -3 (x - 1) on [0,3] is answered like x - 1 (a number, four evaluations) *)
Example scale_invariant_example :
  find_root_h ROps (sclf (-3) (fun x => 1 * x + -1)) 0 3 (1 / 1000) = find_root_h ROps (fun x => 1 * x + -1) 0 3 (1 / 1000)
  /\ exists r, fst (find_root ROps (fun x => 1 * x + -1) 0 3 (1 / 1000)) = Ok r.
Proof.
  split; [apply scale_invariant; lra|].
  pose proof (linear_exact 1 (-1) 0 3 (1 / 1000)) as L. rewrite Rmin_left, Rmax_right in L by lra.
  rewrite L by lra. eexists; reflexivity.
Qed.

(** ** Covariance under a change of the unit of x
    Solving f(x / c) on [c a, c b] to accuracy c acc (c > 0: the same request with x measured in another unit) gives
    c times the answer, through c times every evaluation abscissa. *)
Definition xs (c : R) (f : R -> R) : R -> R := fun x => f (x / c).
Definition xout (c : R) (o : res (R * how)) : res (R * how) := rmap (fun p => (c * fst p, snd p)) o.

Lemma xs_at c f x : c <> 0 -> xs c f (c * x) = f x.
Proof. intros Hc. unfold xs. f_equal. field. exact Hc. Qed.

Lemma Rmin_scale c p q : 0 < c -> Rmin (c * p) (c * q) = c * Rmin p q.
Proof. intros Hc. unfold Rmin. destruct (Rle_dec (c * p) (c * q)), (Rle_dec p q); try reflexivity; exfalso; nra. Qed.
Lemma Rmax_scale c p q : 0 < c -> Rmax (c * p) (c * q) = c * Rmax p q.
Proof. intros Hc. unfold Rmax. destruct (Rle_dec (c * p) (c * q)), (Rle_dec p q); try reflexivity; exfalso; nra. Qed.

Lemma width_test_scaled c u v acc : 0 < c -> Rltb (Rabs (c * u - c * v)) (c * acc) = Rltb (Rabs (u - v)) acc.
Proof.
  intros Hc. replace (c * u - c * v) with (c * (u - v)) by ring. rewrite Rabs_mult, (Rabs_pos_eq c) by lra.
  destruct (Rltb_spec (c * Rabs (u - v)) (c * acc)), (Rltb_spec (Rabs (u - v)) acc); try reflexivity; exfalso; nra.
Qed.

Definition XRel (c : R) (s s' : @st R) : Prop :=
  sx1 s' = c * sx1 s /\ sx2 s' = c * sx2 s /\ sf1 s' = sf1 s /\ sf2 s' = sf2 s.

Lemma step_xscaled f acc c s s' : 0 < c -> sf1 s * sf2 s < 0 -> XRel c s s' ->
  snd (step ROps (xs c f) (c * acc) s') = map (Rmult c) (snd (step ROps f acc s)) /\
  match fst (step ROps f acc s), fst (step ROps (xs c f) (c * acc) s') with
  | inl o, inl o' => o' = xout c o
  | inr t, inr t' => XRel c t t' /\ sres t' = c * sres t
  | _, _ => False
  end.
Proof.
  intros Hc Hs (E1 & E2 & E4 & E5). assert (Hc0 : c <> 0) by lra.
  assert (Hs' : sf1 s' * sf2 s' < 0) by (rewrite E4, E5; exact Hs).
  rewrite (step_eq f acc s Hs), (step_eq (xs c f) (c * acc) s' Hs').
  assert (Em : mid s' = c * mid s) by (unfold mid; rewrite E1, E2; field).
  assert (Er : ridder (xs c f) s' = c * ridder f s).
  { unfold ridder. rewrite Em, E1, E4, E5, (xs_at c f _ Hc0). unfold Rdiv. ring. }
  assert (Ec : nmax ROps (nmin ROps (sx1 s') (sx2 s')) (nmin ROps (nmax ROps (sx1 s') (sx2 s')) (ridder (xs c f) s')) =
               c * nmax ROps (nmin ROps (sx1 s) (sx2 s)) (nmin ROps (nmax ROps (sx1 s) (sx2 s)) (ridder f s))).
  { rewrite !nmin_R, !nmax_R, Er, E1, E2. rewrite (Rmin_scale c _ _ Hc), (Rmax_scale c _ _ Hc).
    rewrite (Rmin_scale c _ _ Hc), (Rmax_scale c _ _ Hc). reflexivity. }
  rewrite Em, Ec.
  set (x3 := mid s). set (x4 := nmax ROps (nmin ROps (sx1 s) (sx2 s)) (nmin ROps (nmax ROps (sx1 s) (sx2 s)) (ridder f s))).
  unfold step_tail. rewrite !(xs_at c f _ Hc0), E1, E2, E4, E5.
  destruct (Reqb (f x4) 0); [cbn; split; reflexivity|].
  destruct (nneb ROps (sign2 ROps (f x3) (f x4)) (f x3)).
  { cbn [sx1 sx2]. rewrite (width_test_scaled c x4 x3 acc Hc).
    destruct (Rltb (Rabs (x4 - x3)) acc); cbn; (split; [reflexivity|]); [reflexivity|unfold XRel; cbn; tauto]. }
  destruct (nneb ROps (sign2 ROps (sf1 s) (f x4)) (sf1 s)).
  { cbn [sx1 sx2]. rewrite (width_test_scaled c x4 (sx1 s) acc Hc).
    destruct (Rltb (Rabs (x4 - sx1 s)) acc); cbn; (split; [reflexivity|]); [reflexivity|unfold XRel; cbn; tauto]. }
  destruct (nneb ROps (sign2 ROps (sf2 s) (f x4)) (sf2 s)).
  { cbn [sx1 sx2]. rewrite (width_test_scaled c (sx2 s) x4 acc Hc).
    destruct (Rltb (Rabs (sx2 s - x4)) acc); cbn; (split; [reflexivity|]); [reflexivity|unfold XRel; cbn; tauto]. }
  cbn. split; reflexivity.
Qed.

Lemma loop_xscaled f acc c : 0 < c -> forall n s s', Inv f s -> XRel c s s' -> (n = 0%nat -> sres s' = c * sres s) ->
  loop ROps (xs c f) (c * acc) n s' = (xout c (fst (loop ROps f acc n s)), map (Rmult c) (snd (loop ROps f acc n s))).
Proof.
  intros Hc. induction n as [|n IH]; intros s s' HI HR H0.
  - cbn [loop fst snd]. rewrite (H0 eq_refl). reflexivity.
  - cbn [loop].
    pose proof HI as (_ & _ & Hs).
    destruct (step_xscaled f acc c s s' Hc Hs HR) as [T1 T2].
    destruct (step_spec f acc s HI) as (_ & _ & _ & Cases).
    destruct (step ROps f acc s) as [[o|t] tr] eqn:Est, (step ROps (xs c f) (c * acc) s') as [[o'|t'] tr'] eqn:Est';
      cbn [fst snd] in *; try contradiction; subst tr'.
    + subst o'. reflexivity.
    + destruct Cases as [[Eo _]|(_ & s'' & N & [[Eo _]|[Eo _]])]; try discriminate. inversion Eo; subst s''.
      destruct N as (HI' & _). destruct T2 as [T2 T3].
      rewrite (IH t t' HI' T2 (fun _ => T3)).
      destruct (loop ROps f acc n t) as [o2 tr2]. cbn [fst snd]. rewrite map_app. reflexivity.
Qed.

Theorem x_scale_covariant f c a b acc : 0 < c ->
  find_root_h ROps (xs c f) (c * a) (c * b) (c * acc) =
  (xout c (fst (find_root_h ROps f a b acc)), map (Rmult c) (snd (find_root_h ROps f a b acc))).
Proof.
  intros Hc. assert (Hc0 : c <> 0) by lra. rewrite !frh_eq. unfold frh_R.
  rewrite (Rmin_scale c a b Hc), (Rmax_scale c a b Hc).
  set (lo := Rmin a b). set (hi := Rmax a b).
  rewrite !(xs_at c f _ Hc0).
  destruct (Rleb_spec 0 (f lo * f hi)) as [Hp|Hp].
  - destruct (Reqb (f lo) 0); [reflexivity|]. destruct (Reqb (f hi) 0); reflexivity.
  - rewrite (loop_xscaled f acc c Hc max_iterations (mkst lo hi (f lo) (f hi) lit0) (mkst (c * lo) (c * hi) (f lo) (f hi) lit0)).
    + destruct (loop ROps f acc max_iterations (mkst lo hi (f lo) (f hi) lit0)) as [o tr]. reflexivity.
    + unfold Inv; cbn [sx1 sx2 sres sf1 sf2]; repeat split; lra.
    + unfold XRel; cbn [sx1 sx2 sres sf1 sf2]; tauto.
    + rewrite max_iterations_S. discriminate.
Qed.

(** non-vacuity: x - 1 on [0,3] with x in units of 1/4 (x/4 - 1 on [0,12], accuracy 4/1000) is answered 4 * 1 *)
Example x_scale_example :
  exists h, fst (find_root_h ROps (xs 4 (fun x => 1 * x + -1)) (4 * 0) (4 * 3) (4 * (1 / 1000))) = Ok (4 * (- -1 / 1), h).
Proof.
  rewrite x_scale_covariant by lra. cbn [fst].
  pose proof (linear_exact 1 (-1) 0 3 (1 / 1000)) as L. rewrite Rmin_left, Rmax_right in L by lra. specialize (L ltac:(lra)).
  unfold find_root in L. destruct (find_root_h ROps (fun x => 1 * x + -1) 0 3 (1 / 1000)) as [o tr]. cbn [fst] in *.
  inversion L as [[L1 L2]]. destruct o as [[x h]| | |]; cbn in L1; try discriminate. inversion L1; subst x.
  exists h. reflexivity.
Qed.
