(** * C04 proofs, part 5: sessions (coq/C04_Life.v) - several live objects, member calls one after the other.
    No arithmetic law is used: everything holds for every number type, in particular for IEEE doubles.
    - a call on object k leaves every other live object as it was and replaces object k by [m_mut] of its
      current value (objects do not share storage; there is no state outside the objects);
    - every call that changes an object re-establishes the class invariant, so along ANY session all live
      objects satisfy it and every theorem about the const members (stated for well-formed operands) applies
      to the object at every point of its life;
    - A += B and A = A + B (A -= B and A = A - B) leave the same object behind, also when B is A itself
      or another live object. *)
From mathcomp Require Import all_ssreflect.
From Coq Require List ZArith.
From LP Require Import Num C04_Model C04_State C04_Life C04_Proofs_Struct C04_Proofs_State.
Set Implicit Arguments. Unset Strict Implicit. Unset Printing Implicit Defensive.
Arguments tab : simpl never.
Arguments tab2 : simpl never.
Arguments upd : simpl never.
Arguments vresize : simpl never.

Lemma getP A (d : A) (l : seq A) i a : get l i = Ok a -> i < size l /\ a = nth d l i.
Proof.
  rewrite /get; elim: l i => [|b l IH] [|i] //=.
  - by move=> [<-].
  - by move=> H; case: (IH i H).
Qed.

Section Life.
Context {T : Type} (Ops : NumOps T).
Local Notation dm := (mkMat 0 0 [::] : mat T).
Local Notation dv := (mkVec 0 [::] : vec T).

(** operands written out in the call are well-formed values *)
Definition marg_ok (a : @marg T) : bool := if a is MLit B then wf_mat B else true.
Definition mmut_ok (o : @mmut T) : bool :=
  match o with
  | MuFrom a | MuAddAssign a | MuSubAssign a | MuPlus a | MuMinus a => marg_ok a
  | _ => true
  end.
Definition varg_ok (a : @varg T) : bool := if a is VLit b then wf_vec b else true.
Definition vmut_ok (o : @vmut T) : bool :=
  match o with
  | VuFrom a | VuAddAssign a | VuSubAssign a | VuPlus a | VuMinus a => varg_ok a
  | _ => true
  end.

Lemma marg_val_wf ms a b : all (@wf_mat T) ms -> marg_ok a -> marg_val ms a = Ok b -> wf_mat b.
Proof.
  move=> Hms; case: a => [B|k] /=; first by move=> HB [<-].
  move=> _ /(getP dm) [Hk ->]; exact: (all_nthP dm Hms).
Qed.
Lemma varg_val_wf vs a b : all (@wf_vec T) vs -> varg_ok a -> varg_val vs a = Ok b -> wf_vec b.
Proof.
  move=> Hvs; case: a => [B|k] /=; first by move=> HB [<-].
  move=> _ /(getP dv) [Hk ->]; exact: (all_nthP dv Hvs).
Qed.

(** ** every call that changes a Matrix re-establishes the class invariant *)
Lemma m_mut_wf ms (A A' : mat T) o :
  all (@wf_mat T) ms -> wf_mat A -> mmut_ok o -> m_mut Ops ms A o = Ok A' -> wf_mat A'.
Proof.
  move=> Hms HA Ho.
  have P e C : mat_of_entries e = Ok C -> wf_mat C := @mat_of_entries_ok_wf T e C.
  case: o Ho => /=.
  - by move=> r c _ [<-]; exact: m_resize_wf.
  - by move=> r c e _ [<-]; rewrite m_assign_spec; exact: wf_mk.
  - by move=> i _; rewrite (delete_row_spec Ops) //; case: ifP => // _ [<-]; exact: wf_mk.
  - by move=> j _; rewrite (delete_column_spec Ops) //; case: ifP => // _ [<-]; exact: wf_mk.
  - by move=> i j x _; exact: m_set_wf.
  - by move=> _ [<-]; rewrite m_copy_spec.
  - by move=> _ [<-]; rewrite !m_assign_from_spec.
  - by move=> _ [<-]; rewrite m_assign_from_spec.
  - move=> a Ha; case E: (marg_val ms a) => [b|||] //= [<-]; rewrite m_assign_from_spec.
    exact: (marg_val_wf Hms Ha E).
  - move=> a Ha; case E: (marg_val ms a) => [b|||] //=; rewrite /m_add_assign.
    by case: ifP => // _ [<-]; exact: wf_mk.
  - move=> a Ha; case E: (marg_val ms a) => [b|||] //=; rewrite /m_sub_assign.
    by case: ifP => // _ [<-]; exact: wf_mk.
  - move=> a Ha; case E: (marg_val ms a) => [b|||] //=; rewrite /m_op_plus /m_plus.
    case: ifP => // _; case E2: (mat_of_entries _) => [R|||] //= [<-]; rewrite m_assign_from_spec; exact: (P _ _ E2).
  - move=> a Ha; case E: (marg_val ms a) => [b|||] //=; rewrite /m_op_minus /m_minus.
    case: ifP => // _; case E2: (mat_of_entries _) => [R|||] //= [<-]; rewrite m_assign_from_spec; exact: (P _ _ E2).
  - move=> _; rewrite /transpose; case E2: (mat_of_entries _) => [R|||] //= [<-]; rewrite m_assign_from_spec; exact: (P _ _ E2).
  - move=> x _; rewrite /m_op_mul_s /m_product_s; case E2: (mat_of_entries _) => [R|||] //= [<-].
    rewrite m_assign_from_spec; exact: (P _ _ E2).
  - move=> x _; rewrite /m_op_div /m_division; case E2: (mat_of_entries _) => [R|||] //= [<-].
    rewrite m_assign_from_spec; exact: (P _ _ E2).
  - by move=> r c _ [<-]; rewrite m_assign_from_spec; exact: wf_mk.
  - by move=> _ [<-].
Qed.

(** ** one step of a session *)
Lemma life_m_spec ms k o ms' : life_m Ops ms k o = Ok ms' ->
  [/\ k < size ms, size ms' = size ms, m_mut Ops ms (nth dm ms k) o = Ok (nth dm ms' k) &
      forall j, j != k -> nth dm ms' j = nth dm ms j].
Proof.
  rewrite /life_m; case E: (get ms k) => [A|||] //=; case: (getP dm E) => Hk ->.
  case E2: (m_mut _ _ _ _) => [A'|||] //= [<-]; split=> //.
  - by rewrite size_upd.
  - by rewrite nth_upd // eqxx.
  - by move=> j /negbTE Hj; rewrite nth_upd // Hj.
Qed.
Lemma life_m_wf ms k o ms' :
  all (@wf_mat T) ms -> mmut_ok o -> life_m Ops ms k o = Ok ms' -> all (@wf_mat T) ms'.
Proof.
  move=> Hms Ho /life_m_spec [Hk Hs Hm Hj]; apply/(all_nthP dm) => j; rewrite Hs => Hjs.
  case: (j =P k) => [->|/eqP Hne]; last by rewrite Hj //; exact: (all_nthP dm Hms).
  by apply: (m_mut_wf Hms _ Ho Hm); exact: (all_nthP dm Hms).
Qed.

(** ** compound assignment and assignment of the sum leave the same object behind *)
Lemma m_mut_compound ms (A : mat T) a : 0 < mrows A ->
  m_mut Ops ms A (MuAddAssign a) = m_mut Ops ms A (MuPlus a) /\
  m_mut Ops ms A (MuSubAssign a) = m_mut Ops ms A (MuMinus a).
Proof.
  move=> HA /=; case: (marg_val ms a) => [b|||] //=.
  case: (sum_spellings_agree Ops b HA) => -> -> -> ->.
  by split; [case: (m_plus _ _ _) | case: (m_minus _ _ _)] => //= R; rewrite m_assign_from_spec.
Qed.

(** ** the same for Vector *)
Lemma v_mut_wf vs (v v' : vec T) o :
  all (@wf_vec T) vs -> wf_vec v -> vmut_ok o -> v_mut Ops vs v o = Ok v' -> wf_vec v'.
Proof.
  move=> Hvs Hv Ho.
  have K l w : Ok (vec_of l) = Ok w -> wf_vec w by move=> [<-]; apply: wf_vec_of.
  have K2 n f w : Ok (mkVec n (tab n f)) = Ok w -> wf_vec w by move=> [<-]; rewrite /wf_vec /= ?natE size_tab.
  case: o Ho => /=.
  - by move=> n _ [<-]; case: (wf_vec_state Ops v n (n0 Ops) 0 (n0 Ops) v).
  - by move=> n e _ [<-]; case: (wf_vec_state Ops v n e 0 (n0 Ops) v) => _ [].
  - by move=> i x _ E; case: (wf_vec_state Ops v 0 x i x v') => _ [_]; apply.
  - by move=> _ [<-]; rewrite v_copy_spec.
  - by move=> _ [<-]; rewrite !v_assign_from_spec.
  - by move=> _ [<-]; rewrite v_assign_from_spec.
  - move=> a Ha; case E: (varg_val vs a) => [b|||] //= [<-]; rewrite v_assign_from_spec.
    exact: (varg_val_wf Hvs Ha E).
  - move=> a Ha; case E: (varg_val vs a) => [b|||] //=; rewrite /vadd_assign; case: ifP => // _; exact: K2.
  - move=> a Ha; case E: (varg_val vs a) => [b|||] //=; rewrite /vsub_assign; case: ifP => // _; exact: K2.
  - move=> a Ha; case E: (varg_val vs a) => [b|||] //=; rewrite /vadd; case: ifP => //= _ [<-].
    by rewrite v_assign_from_spec; exact: wf_vec_of.
  - move=> a Ha; case E: (varg_val vs a) => [b|||] //=; rewrite /vsub; case: ifP => //= _ [<-].
    by rewrite v_assign_from_spec; exact: wf_vec_of.
  - by move=> x _ [<-]; rewrite v_assign_from_spec; exact: wf_vec_of.
  - by move=> x _ [<-]; rewrite v_assign_from_spec; exact: wf_vec_of.
  - by move=> x _ [<-]; rewrite v_assign_from_spec; exact: wf_vec_of.
  - by move=> n _ [<-]; rewrite v_assign_from_spec /v_zero /vfill /wf_vec /= ?natE size_tab.
  - by move=> _ [<-].
  - by move=> _; rewrite /v_normalize; case: (vnorm _ _) => //= nrm; exact: K2.
  - move=> _; rewrite /v_normalized; case: (vnorm _ _) => //= nrm [<-].
    by rewrite v_assign_from_spec; exact: wf_vec_of.
Qed.
Lemma life_v_spec vs k o vs' : life_v Ops vs k o = Ok vs' ->
  [/\ k < size vs, size vs' = size vs, v_mut Ops vs (nth dv vs k) o = Ok (nth dv vs' k) &
      forall j, j != k -> nth dv vs' j = nth dv vs j].
Proof.
  rewrite /life_v; case E: (get vs k) => [A|||] //=; case: (getP dv E) => Hk ->.
  case E2: (v_mut _ _ _ _) => [A'|||] //= [<-]; split=> //.
  - by rewrite size_upd.
  - by rewrite nth_upd // eqxx.
  - by move=> j /negbTE Hj; rewrite nth_upd // Hj.
Qed.
Lemma life_v_wf vs k o vs' :
  all (@wf_vec T) vs -> vmut_ok o -> life_v Ops vs k o = Ok vs' -> all (@wf_vec T) vs'.
Proof.
  move=> Hvs Ho /life_v_spec [Hk Hs Hm Hj]; apply/(all_nthP dv) => j; rewrite Hs => Hjs.
  case: (j =P k) => [->|/eqP Hne]; last by rewrite Hj //; exact: (all_nthP dv Hvs).
  by apply: (v_mut_wf Hvs _ Ho Hm); exact: (all_nthP dv Hvs).
Qed.
Lemma v_mut_compound vs (v : vec T) a :
  v_mut Ops vs v (VuAddAssign a) = v_mut Ops vs v (VuPlus a) /\
  v_mut Ops vs v (VuSubAssign a) = v_mut Ops vs v (VuMinus a).
Proof.
  move=> /=; case: (varg_val vs a) => [b|||] //=.
  case: (vsum_spec Ops v b) => _ _ -> ->.
  by split; [case: (vadd _ _ _) | case: (vsub _ _ _)] => //= R; rewrite v_assign_from_spec.
Qed.
End Life.
