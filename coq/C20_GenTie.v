(** * C20 T-tie (seventh pass): the scalar In_Units and Reduced_Mass regenerated from src/Natural_Units.cpp on every
    run (Gen_C20_Formulas.v, tools/cxx2gallina.py) ARE the hand model of C20_Model.v, in every number type.

    Round (Special_Functions.cpp) is a parameter [round_f] of the generated In_Units; the tie instantiates it with the
    hand model [round_m] (Round itself belongs to property C17).  A change of the quotient, of the branch on [round], of the
    conversion of [digits] to unsigned, or of the Reduced_Mass formula changes the generated term and breaks these lemmas
    before any case is run. *)
From Coq Require Import ZArith Bool.
From LP Require Import Num C20_Model Gen_C20_Formulas.

Lemma rbind_ok_id (A : Type) (r : res A) : rbind r (fun h => Ok h) = r.
Proof. destruct r; reflexivity. Qed.

Lemma generated_In_Units_is_model :
  forall (T : Type) (Ops : NumOps T) (q dim : T) (round : bool) (digits : Z),
    g_In_Units Ops (round_m Ops) q dim round digits = in_units Ops q dim round digits.
Proof.
  intros. unfold g_In_Units, in_units, gu32, u32. destruct round; cbn [negb]; [|reflexivity].
  apply rbind_ok_id.
Qed.

(** ... for ANY Round: the generated function divides, and hands the quotient and the unsigned digits to Round *)
Lemma generated_In_Units_shape :
  forall (T : Type) (Ops : NumOps T) (round_f : T -> Z -> res T) (q dim : T) (round : bool) (digits : Z),
    g_In_Units Ops round_f q dim round digits =
    if round then round_f (ndiv Ops q dim) (digits mod 4294967296)%Z else Ok (ndiv Ops q dim).
Proof.
  intros. unfold g_In_Units, gu32. destruct round; cbn [negb]; [apply rbind_ok_id|reflexivity].
Qed.

Lemma generated_Reduced_Mass_is_model :
  forall (T : Type) (Ops : NumOps T) (round_f : T -> Z -> res T) (m1 m2 : T),
    g_Reduced_Mass Ops round_f m1 m2 = reduced_mass Ops m1 m2.
Proof. reflexivity. Qed.
