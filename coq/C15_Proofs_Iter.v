(** * C15 — what the loop of Find_Eigenvector_Rayleigh can and cannot reach, over the reals
    The inverse iteration starts from the fixed vector b0 = (1, 1/2, .., 1/n) / |..|.  Two facts about the model's loop
    [inverse_iteration] in exact arithmetic, for every number of steps:
    - started at a unit eigenvector of M_inv (eigenvalue mu <> 0) the first step reproduces the start vector, the change is 0 < 1e-15 and
      the loop returns the start vector: when b0 is an eigenvector of M, Eigensystem returns b0 for EVERY eigenvalue (known finding K-C15-5);
    - for a symmetric M_inv every iterate stays orthogonal to an eigenvector v of M_inv that the start vector is orthogonal to: the
      eigenvector v can then only be reached through rounding errors (the input class 'eigenvector orthogonal to the start vector' of
      checks/C15.py; a loop cut after two steps returns a vector that is still far from v). *)
From Coq Require Import Reals List Lra ZArith Lia.
From LP Require Import Num NumR C15_Model C15_Proofs.
Import ListNotations.
Local Open Scope R_scope.

(** ** Dot products with scaled lists *)
Lemma nth_map_mul (g : R -> R) s (l : list R) k : (forall c, g c = c * s) -> nth k (map g l) 0 = nth k l 0 * s.
Proof.
  intros Hg. destruct (Nat.lt_ge_cases k (length l)) as [Hk | Hk].
  - rewrite (nth_map_lt g l k 0 0 Hk). apply Hg.
  - rewrite !nth_overflow by (rewrite ?map_length; exact Hk). ring.
Qed.
Lemma vdot_map_r (v w : list R) (g : R -> R) s : (forall c, g c = c * s) -> length v = length w ->
  vdot ROps v (map g w) = vdot ROps v w * s.
Proof.
  intros Hg L. rewrite (vdot_rsum v (map g w) (length v)) by (rewrite ?map_length; auto).
  rewrite (vdot_rsum v w (length v)) by auto. rewrite <- rsum_scal_r. apply rsum_ext. intros k _.
  rewrite (nth_map_mul g s w k Hg). ring.
Qed.
Lemma vdot_map_l (v w : list R) (g : R -> R) s : (forall c, g c = c * s) -> length v = length w ->
  vdot ROps (map g v) w = vdot ROps v w * s.
Proof.
  intros Hg L. rewrite (vdot_rsum (map g v) w (length v)) by (rewrite ?map_length; auto).
  rewrite (vdot_rsum v w (length v)) by auto. rewrite <- rsum_scal_r. apply rsum_ext. intros k _.
  rewrite (nth_map_mul g s v k Hg). ring.
Qed.
Lemma Rmult_as_scale mu : forall c, Rmult mu c = c * mu.
Proof. intros c. ring. Qed.

(** ** Started at an eigenvector of M_inv, the loop returns the start vector *)
Lemma diff_self (b : list R) : map (fun p : R * R => fst p - snd p) (combine b b) = map (fun _ => 0) b.
Proof. induction b as [| x b IH]; cbn; [reflexivity|]. rewrite IH. f_equal. ring. Qed.
Lemma vdot_zeros (b : list R) : vdot ROps (map (fun _ => 0) b) (map (fun _ => 0) b) = 0.
Proof.
  rewrite (vdot_map_r _ b (fun _ => 0) 0) by (intros; ring || (rewrite map_length; reflexivity)). ring.
Qed.
Lemma map_id_ext (g : R -> R) (b : list R) : (forall c, g c = c) -> map g b = b.
Proof. intros Hg. rewrite (map_ext g (fun c => c) Hg). apply map_id. Qed.

Lemma inverse_iteration_stays_at_eigen_start (minv : list (list R)) (b : list R) (mu : R) (k : nat) :
  vdot ROps b b = 1 -> mu <> 0 -> mvec ROps minv b = map (Rmult mu) b ->
  inverse_iteration ROps (S k) minv b = b.
Proof.
  intros U Hmu HE. cbn [inverse_iteration]. rewrite HE.
  assert (vnorm ROps (map (Rmult mu) b) = Rabs mu) as HN.
  { unfold vnorm. cbn [ROps nsqrt].
    rewrite (vdot_map_r _ b (Rmult mu) mu (Rmult_as_scale mu)) by (rewrite map_length; reflexivity).
    rewrite (vdot_map_l b b (Rmult mu) mu (Rmult_as_scale mu) eq_refl), U.
    replace (1 * mu * mu) with (Rsqr mu) by (unfold Rsqr; ring). apply sqrt_Rsqr_abs. }
  assert (0 < Rabs mu) as HA by (apply Rabs_pos_lt; exact Hmu).
  set (b1 := vnormalize ROps (map (Rmult mu) b)).
  assert (b1 = map (fun c => c * (mu / Rabs mu)) b) as Hb1.
  { unfold b1, vnormalize. rewrite HN, map_map. apply map_ext. intros c. cbn [ROps ndiv]. field. lra. }
  assert (vdot ROps b1 b = mu / Rabs mu) as Hd.
  { rewrite Hb1, (vdot_map_l b b _ (mu / Rabs mu)) by (intros; reflexivity). rewrite U. ring. }
  set (b2 := if nltb ROps (vdot ROps b1 b) (n0 ROps) then map (fun c => nmul ROps c (nneg ROps (n1 ROps))) b1 else b1).
  assert (b2 = b) as Hb2.
  { unfold b2. rewrite Hd. cbn [ROps nltb n0 nmul nneg n1].
    destruct (Rltb_spec (mu / Rabs mu) 0) as [Neg | Pos].
    - assert (mu < 0) as Hm.
      { destruct (Rlt_or_le mu 0) as [H | H]; [exact H | exfalso].
        assert (0 <= mu / Rabs mu) by (apply Rmult_le_pos; [exact H | left; apply Rinv_0_lt_compat; exact HA]). lra. }
      rewrite Hb1, map_map. apply map_id_ext. intros c. rewrite (Rabs_left mu Hm). field. lra.
    - assert (0 < mu) as Hm.
      { destruct (Rlt_or_le 0 mu) as [H | H]; [exact H | exfalso].
        assert (mu < 0) as H' by lra. apply Pos. rewrite (Rabs_left mu H').
        replace (mu / - mu) with (-1) by (field; lra). lra. }
      rewrite Hb1. apply map_id_ext. intros c. rewrite (Rabs_pos_eq mu) by lra. field. lra. }
  clearbody b2. subst b2.
  rewrite diff_self. unfold vnorm. rewrite vdot_zeros. cbn [ROps nsqrt]. rewrite sqrt_0.
  replace (nltb ROps 0 (ndec ROps 1 1000000000000000)) with true; [reflexivity|].
  symmetry. apply Rltb_true. unfold ndec. cbn [ROps ndiv nofZ]. lra.
Qed.

(** the same at the level of Find_Eigenvector_Rayleigh: if the start vector is an eigenvector of the inverse of the shifted matrix,
    the call returns the start vector and its Rayleigh quotient, whichever eigenvalue [ev] was passed *)
Definition rayleigh_shift (m : list (list R)) (ev : R) : R :=
  ev + 1 / 100000000 * (if Rltb 0 (mnorm ROps m) then mnorm ROps m else 1).
Definition shifted (m : list (list R)) (ev : R) : list (list R) :=
  mk (nrows m) (nrows m) (fun i j => ment ROps m i j - rayleigh_shift m ev * delta ROps i j).
Lemma start_vector_unit n : (0 < n)%nat -> vdot ROps (start_vector ROps n) (start_vector ROps n) = 1.
Proof.
  intros Hn. unfold start_vector. apply vnormalize_unit.
  set (w := map _ (seq 0 n)).
  assert (length w = n) as Lw by (unfold w; rewrite map_length, seq_length; reflexivity).
  rewrite (vdot_rsum w w n Lw Lw).
  apply (rsum_pos_term _ n 0%nat); [intros j _; apply Rle_0_sqr | exact Hn |].
  unfold w. rewrite (nth_map_seq _ n 0%nat 0 Hn). cbn [ROps ndiv nadd n1 nofZ Z.of_nat]. lra.
Qed.
Lemma rayleigh_returns_start_vector (m minv : list (list R)) (ev mu : R) :
  (0 < nrows m)%nat -> inverse ROps (shifted m ev) = Ok minv -> mu <> 0 ->
  mvec ROps minv (start_vector ROps (nrows m)) = map (Rmult mu) (start_vector ROps (nrows m)) ->
  find_eigenvector_rayleigh ROps m ev =
  Ok (vdot ROps (start_vector ROps (nrows m)) (mvec ROps m (start_vector ROps (nrows m))), start_vector ROps (nrows m)).
Proof.
  intros Hn HI Hmu HE. unfold find_eigenvector_rayleigh.
  change (inverse ROps (mk (nrows m) (nrows m) _)) with (inverse ROps (shifted m ev)).
  rewrite HI. cbn [rbind].
  rewrite (inverse_iteration_stays_at_eigen_start minv _ mu 99 (start_vector_unit _ Hn) Hmu HE). reflexivity.
Qed.

(** ** For a symmetric M_inv the iterates never leave the orthogonal complement of an eigenvector *)
Lemma nth_mvec (a : list (list R)) (b : list R) n i : wf n a -> length b = n -> (i < n)%nat ->
  nth i (mvec ROps a b) 0 = rsum (fun j => ment ROps a i j * nth j b 0) n.
Proof.
  intros [La Ra] Lb Hi. unfold mvec. rewrite (nth_map_lt _ a i [] 0) by lia.
  rewrite (vdot_rsum (nth i a []) b n (Ra i Hi) Lb). apply rsum_ext. intros j _. reflexivity.
Qed.
Lemma mvec_length (a : list (list R)) (b : list R) : length (mvec ROps a b) = length a.
Proof. unfold mvec. apply map_length. Qed.
Lemma vdot_mvec_sym n (a : list (list R)) (v b : list R) : wf n a -> length v = n -> length b = n ->
  (forall i j, (i < n)%nat -> (j < n)%nat -> ment ROps a i j = ment ROps a j i) ->
  vdot ROps v (mvec ROps a b) = vdot ROps (mvec ROps a v) b.
Proof.
  intros W Lv Lb S.
  rewrite (vdot_rsum v (mvec ROps a b) n Lv) by (rewrite mvec_length; exact (proj1 W)).
  rewrite (vdot_rsum (mvec ROps a v) b n) by (rewrite ?mvec_length; auto; exact (proj1 W)).
  rewrite (rsum_ext _ (fun i => rsum (fun j => nth i v 0 * ment ROps a i j * nth j b 0) n)).
  2:{ intros i Hi. rewrite (nth_mvec a b n i W Lb Hi), <- rsum_scal. apply rsum_ext. intros; ring. }
  rewrite rsum_switch. apply rsum_ext. intros j Hj.
  rewrite (nth_mvec a v n j W Lv Hj), <- rsum_scal_r. apply rsum_ext. intros i Hi. rewrite (S j i Hj Hi). ring.
Qed.

Lemma inverse_iteration_keeps_orthogonality n (minv : list (list R)) (v : list R) (mu : R) :
  wf n minv -> (forall i j, (i < n)%nat -> (j < n)%nat -> ment ROps minv i j = ment ROps minv j i) ->
  length v = n -> mvec ROps minv v = map (Rmult mu) v ->
  forall k b, length b = n -> vdot ROps v b = 0 ->
  length (inverse_iteration ROps k minv b) = n /\ vdot ROps v (inverse_iteration ROps k minv b) = 0.
Proof.
  intros W S Lv HE. induction k as [| k IH]; intros b Lb Hb; [split; assumption|].
  cbn [inverse_iteration].
  set (w := mvec ROps minv b).
  assert (length w = n) as Lw by (unfold w; rewrite mvec_length; exact (proj1 W)).
  assert (vdot ROps v w = 0) as Hw.
  { unfold w. rewrite (vdot_mvec_sym n minv v b W Lv Lb S), HE.
    rewrite (vdot_map_l v b (Rmult mu) mu (Rmult_as_scale mu)) by lia. rewrite Hb. ring. }
  set (b1 := vnormalize ROps w).
  assert (length b1 = n) as L1 by (unfold b1, vnormalize; rewrite map_length; exact Lw).
  assert (vdot ROps v b1 = 0) as H1.
  { unfold b1, vnormalize. rewrite (vdot_map_r v w _ (/ vnorm ROps w)) by (intros; reflexivity || lia). rewrite Hw. ring. }
  set (b2 := if nltb ROps (vdot ROps b1 b) (n0 ROps) then map (fun c => nmul ROps c (nneg ROps (n1 ROps))) b1 else b1).
  assert (length b2 = n /\ vdot ROps v b2 = 0) as [L2 H2].
  { unfold b2. destruct (nltb ROps (vdot ROps b1 b) (n0 ROps)); [| split; assumption].
    split; [rewrite map_length; exact L1|].
    rewrite (vdot_map_r v b1 _ (- 1)) by (intros; reflexivity || lia). rewrite H1. ring. }
  clearbody b2. destruct (nltb ROps _ _); [split; assumption | apply IH; assumption].
Qed.

(** ** Non-vacuity: M_inv = diag(2, 3) (symmetric), start vector e1 (eigenvalue 2), e2 orthogonal to it *)
Example ex_iter_hyp :
  let minv := [[2; 0]; [0; 3]] in
  wf 2 minv /\ (forall i j, (i < 2)%nat -> (j < 2)%nat -> ment ROps minv i j = ment ROps minv j i) /\
  vdot ROps [1; 0] [1; 0] = 1 /\ mvec ROps minv [1; 0] = map (Rmult 2) [1; 0] /\
  mvec ROps minv [0; 1] = map (Rmult 3) [0; 1] /\ vdot ROps [0; 1] [1; 0] = 0.
Proof.
  cbv zeta. repeat split.
  - intros [| [| i]] Hi; cbn; try reflexivity; lia.
  - intros [| [| i]] [| [| j]] Hi Hj; try lia; reflexivity.
  - unfold vdot. cbn. ring.
  - unfold mvec, vdot. cbn. f_equal; [ring | f_equal; ring].
  - unfold mvec, vdot. cbn. f_equal; [ring | f_equal; ring].
  - unfold vdot. cbn. ring.
Qed.
