(** * C06 proofs: the accuracy clause on the series side at EVERY integer shape a = q+1 <= 100 and EVERY 0 < x < a+1, unconditionally and with
    explicit constants: GammaP answers p with  e^-T P / (1 + 2^-52 (a+155)) <= p <= e^T P,  T = a 1e-14,  P the true P(x,a) = (1/q!) RInt_0^x t^q e^-t. *)
From Coq Require Import Reals ZArith List Lia Lra Bool.
From Coquelicot Require Import Coquelicot.
From LP Require Import Num NumR C06_Model C06_Proofs_Gamma C06_Proofs_Ser C06_Proofs_Lanczos C06_Proofs_Region.
Local Open Scope R_scope.

Theorem gammap_integer_shape_accuracy (q : nat) (x : R) : (S q <= 100)%nat -> 0 < x -> x < INR (S q) + 1 ->
  exists p qq, gammap ROps x (INR (S q)) = Ok p /\ gammaq ROps x (INR (S q)) = Ok qq /\ p + qq = 1 /\
    let P := / INR (fact q) * RInt (fun t => t ^ q * exp (- t)) 0 x in
    let T := INR (S q) * (1 / 100000000000000) in
    0 < P /\ P <= 1 /\ 0 < p /\
    exp (- T) * P <= p * (1 + dbl_eps ROps * (INR (S q) + 155)) /\ p <= exp T * P.
Proof.
  intros Hq Hx0 Hx. set (a := INR (S q)) in *.
  assert (Ha : 0 < a) by (apply lt_0_INR; lia).
  assert (Ha100 : a <= 100).
  { assert (E : INR 100 = 100) by (rewrite INR_IZR_INZ; reflexivity). rewrite <- E. apply le_INR. exact Hq. }
  assert (HN : a + 1 <= INR 101).
  { assert (E : INR 101 = 101) by (rewrite INR_IZR_INZ; reflexivity). rewrite E. lra. }
  assert (HF101 : (Z.of_nat 101 + 52 <= 100000)%Z) by lia.
  destruct (gammap_ser_region_total x a Ha Hx0 Hx 101 HN HF101) as (v & k & gln & Ev & Eg & _ & _ & Hpos & _).
  destruct (gser_integer_shape_first q x v Hx0 Ev) as (k' & gln' & Eg' & _ & Hcont & Hrest).
  fold a in Eg', Hcont. rewrite Eg in Eg'. inversion Eg'; subst gln'. clear Eg'.
  assert (Hk' : (k' <= 153)%nat).
  { destruct (le_lt_dec k' (101 + 52)) as [L|L]; [exact L|]. exfalso.
    pose proof (gser_stops x a Ha Hx0 Hx 101 HN) as S0. rewrite gser_iter_closed in S0 by exact Ha. apply S0.
    unfold gser_continue. apply Hcont. exact L. }
  cbv zeta in Hrest. destruct Hrest as (Hv & [Hp0 HpP] & HP1 & _ & Htr). specialize (Htr Hx).
  assert (Hq4 : (q <= 10000)%nat).
  { apply Nat.le_trans with 100%nat; [lia|]. apply Nat.leb_le. vm_compute. reflexivity. }
  destruct (lanczos_factor_integer q Hq4) as (gln'' & Eg'' & _ & HF). fold a in Eg''. rewrite Eg in Eg''. inversion Eg''; subst gln''. clear Eg''.
  unfold lanczos_tol in HF. fold a in HF.
  destruct (gammaq_branches x a Hx0 Ha) as (_ & Hser & _).
  assert (Eq : gammaq ROps x a = Ok (1 - v)). { rewrite (Hser Ha100 Hx), Ev. reflexivity. }
  assert (Ep : gammap ROps x a = Ok v). { rewrite gammap_of_q, Eq. cbn [rmap rbind]. f_equal. cbn [nsub n1 ROps]. ring. }
  exists v, (1 - v). split; [exact Ep|]. split; [exact Eq|]. split; [ring|]. cbv zeta.
  rewrite <- Pint_is_integral.
  set (T := a * (1 / 100000000000000)) in *.
  set (Ptr := exp (- x) * (esum x (S q + k') - esum x q)) in *.
  set (F := INR (fact q) / exp gln) in *. set (P := Pint q x) in *.
  assert (HeT : 0 < exp (- T)) by apply exp_pos. assert (HeT' : 0 < exp T) by apply exp_pos.
  assert (HF0 : 0 < F) by lra.
  assert (HPtr : 0 < Ptr).
  { destruct (Rle_lt_or_eq_dec 0 Ptr Hp0) as [L|E]; [exact L|]. exfalso. rewrite Hv, <- E in Hpos. lra. }
  assert (Heps : 0 < dbl_eps ROps). { rewrite <- half_pow_52. apply pow_lt. lra. }
  assert (HK : INR (S q + k') + 2 <= a + 155).
  { rewrite plus_INR. fold a. assert (INR k' <= INR 153) by (apply le_INR; exact Hk').
    assert (E : INR 153 = 153) by (rewrite INR_IZR_INZ; reflexivity). rewrite E in H. lra. }
  split; [lra|]. split; [exact HP1|]. split; [exact Hpos|]. split.
  - (* exp(-T) P <= exp(-T) Ptr (1+e(a+155)) <= F Ptr (1+..) *)
    assert (A1 : P <= Ptr * (1 + dbl_eps ROps * (a + 155))).
    { assert (Ptr * dbl_eps ROps * (INR (S q + k') + 2) <= Ptr * dbl_eps ROps * (a + 155)).
      { apply Rmult_le_compat_l; [|exact HK]. apply Rmult_le_pos; lra. }
      lra. }
    assert (A0 : 0 < 1 + dbl_eps ROps * (a + 155)).
    { assert (0 < dbl_eps ROps * (a + 155)) by (apply Rmult_lt_0_compat; lra). lra. }
    rewrite Hv.
    apply Rle_trans with (exp (- T) * (Ptr * (1 + dbl_eps ROps * (a + 155)))).
    + apply Rmult_le_compat_l; lra.
    + replace (Ptr * F * (1 + dbl_eps ROps * (a + 155))) with (F * (Ptr * (1 + dbl_eps ROps * (a + 155)))) by ring.
      apply Rmult_le_compat_r; [|lra]. apply Rmult_le_pos; lra.
  - rewrite Hv. apply Rle_trans with (Ptr * exp T).
    + apply Rmult_le_compat_l; lra.
    + rewrite (Rmult_comm (exp T)). apply Rmult_le_compat_r; lra.
Qed.

(** non-vacuity: shape 3 (q = 2) at x = 1 *)
Example integer_shape_hyp_sat : (S 2 <= 100)%nat /\ 0 < 1 /\ 1 < INR (S 2) + 1.
Proof. split; [lia|]. split; [lra|]. assert (E : INR 3 = 3) by (rewrite INR_IZR_INZ; reflexivity). rewrite E. lra. Qed.
