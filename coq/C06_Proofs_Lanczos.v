(** * C06 proofs, part 9: the recurrence Gamma(x+1) = x Gamma(x) for the Lanczos formula on [2^-10, 10001] (method error over the
    reals: 1e-14 relative), and by induction GammaLn(n+1) against ln n! at every integer n <= 10000. *)
From Coq Require Import Reals ZArith List Lia Lra Bool.
From Interval Require Import Tactic.
From LP Require Import Num NumR C06_Model C06_Proofs_Lanczos0 C06_Proofs_Lanczos1 C06_Proofs_Lanczos2 C06_Proofs_Lanczos3.
Local Open Scope R_scope.

Definition lanczos_tol : R := 1 / 100000000000000.

Theorem glv_defect_bound x : 1 / 1024 <= x <= 10001 -> Rabs (glv_defect x) <= lanczos_tol.
Proof.
  intros [H0 H1]. unfold lanczos_tol.
  destruct (Rle_dec x (1 / 16)); [apply glv_defect_1a; lra|].
  destruct (Rle_dec x 1); [apply glv_defect_1b; lra|].
  destruct (Rle_dec x 8); [apply glv_defect_2a; lra|].
  destruct (Rle_dec x 128); [apply glv_defect_2b; lra|].
  destruct (Rle_dec x 2048); [apply glv_defect_3a; lra|].
  apply glv_defect_3b; lra.
Qed.

(** "Gamma(x+1) = x*Gamma(x)": the model's Gamma satisfies it up to a factor e^d, |d| <= 1e-14, for every x in [2^-10, 10001] *)
Theorem gamma_recurrence x : 1 / 1024 <= x <= 10001 ->
  exists l1 l0 d, gammaln ROps (x + 1) = Ok l1 /\ gammaln ROps x = Ok l0 /\ l1 = l0 + ln x + d /\
    gamma ROps (x + 1) = Ok (exp l1) /\ gamma ROps x = Ok (exp l0) /\ exp l1 = x * exp l0 * exp d /\ Rabs d <= lanczos_tol.
Proof.
  intros H. exists (glv (x + 1)), (glv x), (glv_defect x).
  assert (E1 := glv_ok (x + 1) ltac:(lra)). assert (E0 := glv_ok x ltac:(lra)).
  split; [exact E1|]. split; [exact E0|]. split; [unfold glv_defect; ring|].
  unfold gamma, rmap. rewrite E1, E0. cbn [rbind nexp ROps]. split; [reflexivity|]. split; [reflexivity|]. split.
  - replace (glv (x + 1)) with (glv x + ln x + glv_defect x) by (unfold glv_defect; ring).
    rewrite !exp_plus, exp_ln by lra. ring.
  - apply glv_defect_bound. exact H.
Qed.

Lemma glv_one : Rabs (glv 1) <= lanczos_tol.
Proof.
  unfold lanczos_tol, glv, gammaln. cbn [nleb n0 ROps]. destruct (Rleb_spec 1 0); [lra|].
  cbv [lanczos_sum lanczos_cof fold_left fst snd ndec nlit nadd nsub nmul ndiv nln nofZ n1 ROps].
  interval with (i_prec 140).
Qed.

(** GammaLn(n+1) against ln n!, every integer n <= 10000 (induction on n along the recurrence) *)
Theorem gammaln_integer_accuracy n : (n <= 10000)%nat ->
  Rabs (glv (INR (S n)) - ln (INR (fact n))) <= INR (S n) * lanczos_tol.
Proof.
  induction n as [|n IH]; intros Hn.
  - change (INR 1) with 1. change (fact 0) with 1%nat. change (INR 1) with 1. rewrite ln_1, Rminus_0_r, Rmult_1_l. exact glv_one.
  - specialize (IH ltac:(lia)).
    assert (Hr : 1 <= INR (S n) <= 10000).
    { split; [change 1 with (INR 1); apply le_INR; lia|]. replace 10000 with (INR 10000); [apply le_INR; lia|].
      rewrite INR_IZR_INZ. reflexivity. }
    assert (D := glv_defect_bound (INR (S n)) ltac:(lra)).
    rewrite (S_INR (S n)).
    replace (glv (INR (S n) + 1)) with (glv (INR (S n)) + ln (INR (S n)) + glv_defect (INR (S n))) by (unfold glv_defect; ring).
    change (fact (S n)) with (S n * fact n)%nat. rewrite mult_INR, ln_mult by (try lra; apply INR_fact_lt_0).
    replace (glv (INR (S n)) + ln (INR (S n)) + glv_defect (INR (S n)) - (ln (INR (S n)) + ln (INR (fact n))))
      with ((glv (INR (S n)) - ln (INR (fact n))) + glv_defect (INR (S n))) by ring.
    eapply Rle_trans; [apply Rabs_triang|]. lra.
Qed.

(** the factor q!/exp(GammaLn(q+1)) by which GammaPser (and GammaQcf) scale their sums at integer shapes *)
Corollary lanczos_factor_integer q : (q <= 10000)%nat ->
  exists gln, gammaln ROps (INR (S q)) = Ok gln /\ Rabs (gln - ln (INR (fact q))) <= INR (S q) * lanczos_tol /\
    exp (- (INR (S q) * lanczos_tol)) <= INR (fact q) / exp gln <= exp (INR (S q) * lanczos_tol).
Proof.
  intros Hq. exists (glv (INR (S q))). assert (0 < INR (S q)) by (apply lt_0_INR; lia).
  split; [apply glv_ok; assumption|]. pose proof (gammaln_integer_accuracy q Hq) as A. split; [exact A|].
  replace (INR (fact q) / exp (glv (INR (S q)))) with (exp (ln (INR (fact q)) - glv (INR (S q)))).
  - set (T := INR (S q) * lanczos_tol) in *. set (u := ln (INR (fact q)) - glv (INR (S q))).
    assert (A' : - T <= u <= T).
    { unfold u. revert A. unfold Rabs. destruct (Rcase_abs _); lra. }
    assert (M : forall a b, a <= b -> exp a <= exp b).
    { intros a b [Hab| ->]; [left; apply exp_increasing; exact Hab|lra]. }
    split; apply M; lra.
  - unfold Rminus. rewrite exp_plus, exp_Ropp, exp_ln by apply INR_fact_lt_0. reflexivity.
Qed.
