(** * C16 proofs, sixth part: histories of the axis object that keep its direction (induction over the history).
    An axis object that was only asked questions, copied, rescaled by positive factors (v = v * s, v = s * v, v = v / s),
    doubled (v += v) and normalised (Normalize(), v = v.Normalized()) - any number of times, in any order - gives the same rotation matrix
    and the same spherical coordinates as the vector it was constructed from. *)
From Coq Require Import Reals ZArith List Lra Lia Psatz Bool.
From LP Require Import Num NumR C16_Model C16_Proofs C16_Proofs_Hist C16_Proofs_Chain.
Import ListNotations.
Local Open Scope R_scope.

Definition vstep_keeps_direction (s : @vstep R) : Prop :=
  vstep_is_question s = true \/
  match s with
  | VTimes x | VDivide x => 0 < x
  | VNormalize | VNormalizedAssign | VAddSelf => True
  | _ => False
  end.

Lemma vstep_direction a0 a1 a2 k s v' : nonzero3 a0 a1 a2 -> 0 < k -> vstep_keeps_direction s ->
  vstep_apply ROps Rhypot [k * a0; k * a1; k * a2] s = Ok v' -> exists k', 0 < k' /\ v' = [k' * a0; k' * a1; k' * a2].
Proof.
  intros Hnz Hk [Hq | Hd] E.
  - apply (vstep_question_keeps ROps Rhypot _ _ s Hq) in E. subst v'. exists k. split; [exact Hk | reflexivity].
  - destruct s; try contradiction; cbn [vstep_apply] in E.
    + (* v += v *) unfold vadd, vzip in E. cbn in E. injection E as <-. exists (2 * k). split; [lra|]. list_eq; ring.
    + (* v * s *) injection E as <-. exists (k * s). split; [nra|]. unfold vscale_left. cbn. list_eq; ring.
    + (* v / s *) injection E as <-. exists (k / s). split; [apply Rdiv_lt_0_compat; assumption|]. unfold vdivs. cbn. list_eq; field; lra.
    + (* Normalize *) injection E as <-. rewrite vnormalized_nhat.
      pose proof (nonzero3_scale k a0 a1 a2 (Rgt_not_eq _ _ Hk) Hnz) as Hnz'.
      pose proof (len_pos _ _ _ Hnz') as LP. rewrite Rplus_0_l in LP.
      exists (k / sqrt (k * a0 * (k * a0) + k * a1 * (k * a1) + k * a2 * (k * a2))). split; [apply Rdiv_lt_0_compat; assumption|].
      unfold nhat, dot3, cx, cy, cz. cbn. list_eq; field; lra.
    + (* v = v.Normalized() *) injection E as <-. rewrite vnormalized_nhat.
      pose proof (nonzero3_scale k a0 a1 a2 (Rgt_not_eq _ _ Hk) Hnz) as Hnz'.
      pose proof (len_pos _ _ _ Hnz') as LP. rewrite Rplus_0_l in LP.
      exists (k / sqrt (k * a0 * (k * a0) + k * a1 * (k * a1) + k * a2 * (k * a2))). split; [apply Rdiv_lt_0_compat; assumption|].
      unfold nhat, dot3, cx, cy, cz. cbn. list_eq; field; lra.
Qed.

Lemma vhistory_direction a0 a1 a2 h : nonzero3 a0 a1 a2 -> Forall vstep_keeps_direction h -> forall k v', 0 < k ->
  vhistory ROps Rhypot [k * a0; k * a1; k * a2] h = Ok v' -> exists k', 0 < k' /\ v' = [k' * a0; k' * a1; k' * a2].
Proof.
  intros Hnz. induction 1 as [| s h Hs _ IH]; intros k v' Hk; cbn [vhistory].
  - intros [= <-]. exists k. split; [exact Hk | reflexivity].
  - destruct (vstep_apply ROps Rhypot [k * a0; k * a1; k * a2] s) as [v1 | | |] eqn:E; cbn [rbind]; try discriminate.
    destruct (vstep_direction a0 a1 a2 k s v1 Hnz Hk Hs E) as (k1 & Hk1 & ->). apply IH. exact Hk1.
Qed.

(** the object after such a history points along the vector it was constructed from, and every call with it answers as for that vector *)
Lemma history_keeps_direction a0 a1 a2 h v' : nonzero3 a0 a1 a2 -> Forall vstep_keeps_direction h ->
  vhistory ROps Rhypot [a0; a1; a2] h = Ok v' ->
  (exists k, 0 < k /\ v' = [k * a0; k * a1; k * a2]) /\
  (forall alpha, rotation_of_object ROps Rhypot alpha 3 [a0; a1; a2] h = rotation_matrix ROps alpha 3 [a0; a1; a2]) /\
  (forall r theta phi, spherical_of_object ROps Rhypot r theta phi [a0; a1; a2] h = spherical_axis ROps Rhypot r theta phi [a0; a1; a2]).
Proof.
  intros Hnz Hh E.
  assert ([a0; a1; a2] = [1 * a0; 1 * a1; 1 * a2]) as E1 by (list_eq; ring).
  assert (exists k, 0 < k /\ v' = [k * a0; k * a1; k * a2]) as (k & Hk & ->).
  { rewrite E1 in E. exact (vhistory_direction a0 a1 a2 h Hnz Hh 1 v' Rlt_0_1 E). }
  split; [exists k; split; [exact Hk | reflexivity]|]. split.
  - intros alpha. unfold rotation_of_object. rewrite E. cbn [rbind]. apply rot3_axis_scale; assumption.
  - intros r theta phi. unfold spherical_of_object. rewrite E. cbn [rbind]. apply spherical_axis_scale; assumption.
Qed.

(** non-vacuity: asked for its norm, scaled, normalised, doubled, divided, used in an earlier call, copied *)
Example ex_direction_history :
  nonzero3 3 0 4 /\
  Forall vstep_keeps_direction [VQNorm; VTimes 2; VNormalize; VAddSelf; VDivide 4; VCallRotation 1 3; VCopy] /\
  exists v', vhistory ROps Rhypot [3; 0; 4] [VQNorm; VTimes 2; VNormalize; VAddSelf; VDivide 4; VCallRotation 1 3; VCopy] = Ok v'.
Proof.
  split; [left; lra|]. split.
  - repeat (apply Forall_cons; [unfold vstep_keeps_direction; cbn; first [left; reflexivity | right; lra | right; exact I] |]). apply Forall_nil.
  - eexists. cbn. reflexivity.
Qed.
