(** * C12 proofs, part C: the guards of the (values, rule) overload look at shapes only; the weighted sum is a
    linear functional of the function values *)
From Coq Require Import Reals ZArith List Bool Lia Lra Arith.
From LP Require Import Num NumR C12_Model C12_Proofs.
Import ListNotations.

Section Generic.
Context {T : Type} (Ops : NumOps T).

Lemma forallb_len2_shape (rw : list (list T)) :
  forallb (fun r => Nat.eqb (length r) 2) rw = forallb (fun k => Nat.eqb k 2) (map (@length T) rw).
Proof. induction rw as [|r rw IH]; simpl; auto. now rewrite IH. Qed.

(** the outcome class (rejected / answered) of the value overload is a function of the number of values and of the
    lengths of the rows alone *)
Definition values_rejected (k : nat) (shape : list nat) : bool :=
  negb (Nat.eqb k (length shape)) || negb (forallb (fun j => Nat.eqb j 2) shape).

Lemma values_exit_iff (vals : list T) (rw : list (list T)) :
  gl_integrate_values Ops vals rw = Exit <-> values_rejected (length vals) (map (@length T) rw) = true.
Proof.
  unfold gl_integrate_values, values_rejected. rewrite map_length, <- forallb_len2_shape.
  destruct (Nat.eqb (length vals) (length rw)); simpl.
  - destruct (forallb (fun r => Nat.eqb (length r) 2) rw); simpl; split; intros H; try reflexivity; discriminate.
  - split; reflexivity.
Qed.

(** no function value, whatever it is (the abstract number type has no law: NaN, infinities, anything), moves a request
    across the guards: two requests with the same number of values and the same row lengths are both rejected or both
    answered *)
Theorem guard_shape_only (vals vals' : list T) (rw rw' : list (list T)) :
  length vals = length vals' -> map (@length T) rw = map (@length T) rw' ->
  (gl_integrate_values Ops vals rw = Exit <-> gl_integrate_values Ops vals' rw' = Exit) /\
  (gl_integrate_values Ops vals rw <> Exit -> exists v, gl_integrate_values Ops vals rw = Ok v).
Proof.
  intros Hl Hs. split.
  - rewrite !values_exit_iff, Hl, Hs. reflexivity.
  - unfold gl_integrate_values.
    destruct (negb (Nat.eqb (length vals) (length rw))); [intros H; now elim H|].
    destruct (negb (forallb (fun r => Nat.eqb (length r) 2) rw)); [intros H; now elim H|].
    eauto.
Qed.

(** in particular a mismatch of the two lengths is rejected for every content of the values *)
Corollary mismatch_rejected_any_values (vals : list T) (rw : list (list T)) (g : T -> T) :
  length vals <> length rw -> gl_integrate_values Ops (map g vals) rw = Exit.
Proof.
  intros H. apply values_exit_iff. unfold values_rejected. rewrite !map_length.
  apply Nat.eqb_neq in H. now rewrite H.
Qed.
End Generic.

(** ** the weighted sum over the reals is linear in the function values *)
Local Open Scope R_scope.

Definition vstep (acc : R) (vr : R * list R) : R := acc + fst vr * nth0 ROps (snd vr) 1.

Lemma values_R (vals : list R) (rw : list (list R)) :
  length vals = length rw -> two_col rw = true ->
  gl_integrate_values ROps vals rw = Ok (fold_left vstep (combine vals rw) 0).
Proof.
  intros Hl Hc. unfold gl_integrate_values. apply Nat.eqb_eq in Hl. rewrite Hl.
  unfold two_col in Hc. rewrite Hc. cbn [negb]. f_equal.
  replace (zero ROps) with 0 by (unfold zero; cbn; field). reflexivity.
Qed.

Lemma vfold_linear (al be : R) (rw : list (list R)) : forall (us vs : list R) (a1 a2 : R),
  length us = length rw -> length vs = length rw ->
  fold_left vstep (combine (map (fun uv => al * fst uv + be * snd uv) (combine us vs)) rw) (al * a1 + be * a2) =
  al * fold_left vstep (combine us rw) a1 + be * fold_left vstep (combine vs rw) a2.
Proof.
  induction rw as [|r rw IH]; intros us vs a1 a2 Hu Hv.
  - destruct us; [|discriminate]. destruct vs; [|discriminate]. reflexivity.
  - destruct us as [|u us]; [discriminate|]. destruct vs as [|v vs]; [discriminate|].
    simpl in Hu, Hv. injection Hu as Hu. injection Hv as Hv.
    cbn [combine map fold_left fst snd].
    rewrite <- (IH us vs (vstep a1 (u, r)) (vstep a2 (v, r)) Hu Hv).
    f_equal. unfold vstep. cbn [fst snd]. ring.
Qed.

(** Integrate_Gauss_Legendre(values, rule) is a linear functional of the values on every well-formed table of every
    length (induction over the table) *)
Theorem values_linear (al be : R) (us vs : list R) (rw : list (list R)) :
  length us = length rw -> length vs = length rw -> two_col rw = true ->
  exists Iu Iv, gl_integrate_values ROps us rw = Ok Iu /\ gl_integrate_values ROps vs rw = Ok Iv /\
    gl_integrate_values ROps (map (fun uv => al * fst uv + be * snd uv) (combine us vs)) rw = Ok (al * Iu + be * Iv).
Proof.
  intros Hu Hv Hc.
  exists (fold_left vstep (combine us rw) 0), (fold_left vstep (combine vs rw) 0).
  split; [now apply values_R|]. split; [now apply values_R|].
  rewrite values_R; auto.
  - f_equal. replace 0 with (al * 0 + be * 0) at 1 by ring. now apply vfold_linear.
  - rewrite map_length, combine_length, Hu, Hv. now rewrite Nat.min_id.
Qed.

(** non-vacuity: a three-row table, two value vectors *)
Example ex_values_linear :
  let rw := [[-1; 1]; [0; 2]; [1; 1]] in
  length [1; 2; 3] = length rw /\ length [4; 5; 6] = length rw /\ two_col rw = true /\
  gl_integrate_values ROps [1; 2; 3] rw = Ok (0 + 1 * 1 + 2 * 2 + 3 * 1).
Proof. cbn. repeat split. f_equal. field. Qed.

(** non-vacuity for the guard: a NaN-free abstract instance is not needed; two values against three rows *)
Example ex_guard_shape : values_rejected 2 [2; 2; 2]%nat = true /\ values_rejected 3 [2; 2; 2]%nat = false /\
  values_rejected 3 [2; 3; 2]%nat = true.
Proof. repeat split. Qed.
