(** * C04 proofs: objects RETURNED by the library.
    [made C]: C is a matrix that some finite composition of the modelled members / free functions hands out, starting from
    tables accepted by the constructor - a derivation tree of any depth and width.  Every such object satisfies the class
    invariant, so the members that read the storage wholesale (Return_Row = Vector(components[row]), Sub_Matrix =
    Matrix(components) minus a row and a column) see exactly Columns() entries per row. *)
From mathcomp Require Import all_ssreflect.
From Coq Require List ZArith.
From LP Require Import Num C04_Model C04_Proofs_Struct C04_Proofs_Laws.
Set Implicit Arguments. Unset Strict Implicit. Unset Printing Implicit Defensive.

Section Made.
Context {T : Type} (Ops : NumOps T).

Inductive made : mat T -> Prop :=
| made_ctor (e : seq (seq T)) C : mat_of_entries e = Ok C -> made C
| made_by (A B : mat T) (s : T) (k l : nat) (u v : vec T) r C :
    made A -> made B -> List.In r (matrix_results Ops A B s k l u v) -> r = Ok C -> made C.

Lemma made_wf C : made C -> wf_mat C.
Proof.
  elim=> [e C0 H|A B s k l u v r C0 _ HA _ HB Hin Hr].
  - exact: (mat_of_entries_ok_wf H).
  - exact: (wf_preserved HA HB Hin Hr).
Qed.

(** Return_Row of an object that satisfies the invariant has Columns() entries *)
Lemma return_row_size (C : mat T) i w : wf_mat C -> return_row C i = Ok w ->
  vdim w = mcols C /\ wf_vec w /\ vcomps w = nth [::] (mcomps C) i.
Proof.
  rewrite /wf_mat /return_row ?natE forallbE => /andP [/eqP Hr /(all_nthP [::]) Ha].
  case: leqP => // Hi [<-] /=; rewrite /wf_vec /= nthE ?natE eqxx; split=> //.
  by move: (Ha i); rewrite Hr ?natE => /(_ Hi) /eqP.
Qed.

Lemma made_return_row C i w : made C -> return_row C i = Ok w ->
  vdim w = mcols C /\ wf_vec w /\ vcomps w = nth [::] (mcomps C) i.
Proof. by move=> /made_wf; apply: return_row_size. Qed.

(** Sub_Matrix of a returned object: one row and one column less, whatever produced the object *)
Lemma made_sub_matrix C k l S : made C -> 0 < mrows C -> sub_matrix C k l = Ok S ->
  [/\ made S, mrows S = (mrows C).-1 & mcols S = (mcols C).-1].
Proof.
  move=> HC Hr E; split.
  - apply: (@made_by C C (n0 Ops) k l (vec_of [::]) (vec_of [::]) (sub_matrix C k l) S HC HC _ E).
    by rewrite /matrix_results /=; do 14 right; left.
  - by move: E; rewrite (sub_matrix_spec Ops k l (made_wf HC) Hr); case: ifP => // _; case: ifP => // _ [<-].
  - by move: E; rewrite (sub_matrix_spec Ops k l (made_wf HC) Hr); case: ifP => // _; case: ifP => // _ [<-].
Qed.
End Made.

(** non-vacuity: the minor (0,1) of the product of the 2x3 and 3x2 example tables, transposed, is a returned object of depth 3;
    its row 0 has one entry *)
Example made_instance :
  exists P S C w, [/\ m_product NOps exA exB = Ok P, sub_matrix P 0 1 = Ok S, transpose NOps S = Ok C & made NOps C /\ return_row C 0 = Ok w /\ vdim w = 1].
Proof.
  have HA : made NOps exA by apply: (@made_ctor _ NOps (mcomps exA)); vm_compute.
  have HB : made NOps exB by apply: (@made_ctor _ NOps (mcomps exB)); vm_compute.
  eexists; eexists; eexists; eexists; split; [by vm_compute | by vm_compute | by vm_compute |].
  split; last by vm_compute.
  have HP : made NOps (mkMat 2 2 [:: [:: 36; 42]; [:: 48; 57]]%N).
    apply: (@made_by _ NOps exA exB 0%N 0 0 (vec_of [::]) (vec_of [::]) (m_product NOps exA exB) _ HA HB); last by vm_compute.
    by rewrite /matrix_results /=; do 6 right; left.
  have HS : made NOps (mkMat 1 1 [:: [:: 48]]%N).
    apply: (@made_by _ NOps _ _ 0%N 0 1 (vec_of [::]) (vec_of [::]) (sub_matrix (mkMat 2 2 [:: [:: 36; 42]; [:: 48; 57]]%N) 0 1) _ HP HP); last by vm_compute.
    by rewrite /matrix_results /=; do 14 right; left.
  apply: (@made_by _ NOps _ _ 0%N 0 0 (vec_of [::]) (vec_of [::]) (transpose NOps (mkMat 1 1 [:: [:: 48]]%N)) _ HS HS); last by vm_compute.
  by rewrite /matrix_results /=; do 13 right; left.
Qed.
