(** * C10 proofs: the search state of an Interpolation object never changes an answer.
    Over any strictly ordered number type ([OrdLaws]; no arithmetic law) and a strictly increasing table, Locate(x) on
    an object in any admissible search state returns exactly the index of the stateless Locate of C10_Model.v: Hunt()
    (both directions, every stride, the range cut, the final bisection) followed by the step onto a tabulated abscissa
    is the same function as Bisection(x, 0, N-1) followed by that step. *)
From Coq Require Import ZArith List Bool Lia.
From LP Require Import Num OrdLaws C10_Model C10_Model2 C10_Proofs C10_Proofs_Num C10_Proofs_Hunt.
Import ListNotations.
Local Open Scope Z_scope.

Section HuntSame.
Context {T : Type} (Ops : NumOps T) (L : OrdLaws Ops).
Local Notation xv := (xv Ops).

Lemma asym a b : nltb Ops a b = true -> nltb Ops b a = false.
Proof.
  intros H. destruct (nltb Ops b a) eqn:E; [|reflexivity].
  pose proof (ol_trans _ L _ _ _ H E) as F. rewrite (ol_irrefl _ L) in F. discriminate.
Qed.

Lemma increasing_lt xs i j : increasing Ops xs -> 0 <= i -> i < j -> j < zlen xs -> nltb Ops (xv xs i) (xv xs j) = true.
Proof.
  intros Hinc Hi Hij Hj. replace j with (i + 1 + Z.of_nat (Z.to_nat (j - i - 1))) in * by lia.
  induction (Z.to_nat (j - i - 1)) as [|n IH].
  - replace (i + 1 + Z.of_nat 0) with (i + 1) by lia. specialize (Hinc (i + 1)). replace (i + 1 - 1) with i in Hinc by lia. apply Hinc. lia.
  - eapply (ol_trans _ L); [apply IH; lia|].
    specialize (Hinc (i + 1 + Z.of_nat (S n))). replace (i + 1 + Z.of_nat (S n) - 1) with (i + 1 + Z.of_nat n) in Hinc by lia. apply Hinc. lia.
Qed.

(** x_values[j] <= x <= x_values[j+1] *)
Definition weak xs x j : Prop :=
  0 <= j <= zlen xs - 2 /\ nltb Ops x (xv xs j) = false /\ nltb Ops (xv xs (j + 1)) x = false.
(** x_values[j] <= x < x_values[j+1], or the last interval with x <= x_values[N-1] *)
Definition bracket xs x j : Prop :=
  0 <= j <= zlen xs - 2 /\ nltb Ops x (xv xs j) = false /\
  (nltb Ops x (xv xs (j + 1)) = true \/ (j = zlen xs - 2 /\ nltb Ops (xv xs (zlen xs - 1)) x = false)).

Lemma bracket_unique xs x j k : increasing Ops xs -> bracket xs x j -> bracket xs x k -> j = k.
Proof.
  assert (H : forall j k, increasing Ops xs -> bracket xs x j -> bracket xs x k -> j < k -> False).
  { clear j k. intros j k Hinc (Hj & _ & [Hr|(Hr & _)]) (Hk & Hl & _) Hlt; [|lia].
    destruct (Z.eq_dec (j + 1) k) as [<-|Hne]; [congruence|].
    pose proof (increasing_lt xs (j + 1) k Hinc ltac:(lia) ltac:(lia) ltac:(lia)) as M.
    pose proof (ol_trans _ L _ _ _ Hr M). congruence. }
  intros Hinc Hj Hk. destruct (Z.lt_trichotomy j k) as [A|[A|A]]; [exfalso; eauto|exact A|exfalso; eauto].
Qed.

(** Bisection keeps x_values[jl] <= x <= x_values[jr] *)
Lemma bisection_weak fuel xs x jl jr :
  0 <= jl -> jl < jr -> jr <= zlen xs - 1 -> jr - jl <= Z.of_nat fuel + 1 ->
  nltb Ops x (xv xs jl) = false -> nltb Ops (xv xs jr) x = false ->
  exists j, bisection Ops fuel xs x jl jr = Ok j /\ weak xs x j.
Proof.
  revert jl jr; induction fuel as [|f IH]; intros jl jr H0 H1 H2 H3 Wl Wr.
  - cbn [bisection]. destruct (Z.gtb_spec (jr - jl) 1); [lia|]. exists jl; split; [reflexivity|].
    replace jr with (jl + 1) in Wr by lia. repeat split; try lia; assumption.
  - cbn [bisection]. destruct (Z.gtb_spec (jr - jl) 1) as [G|G].
    2:{ exists jl; split; [reflexivity|]. replace jr with (jl + 1) in Wr by lia. repeat split; try lia; assumption. }
    rewrite Z.shiftr_div_pow2 by lia. change (2 ^ 1) with 2.
    assert (jl < (jr + jl) / 2 < jr) by (pose proof (Z.div_mod (jr + jl) 2 ltac:(lia)); pose proof (Z.mod_pos_bound (jr + jl) 2 ltac:(lia)); lia).
    rewrite (getZ_xv Ops) by lia. cbn [rbind]. unfold ngeb. rewrite (ol_le _ L).
    destruct (nltb Ops x (xv xs ((jr + jl) / 2))) eqn:E; cbn [negb].
    + apply IH; try lia; try assumption. apply asym, E.
    + apply IH; try lia; assumption.
Qed.

Lemma hunt_up_weak fuel xs x jd ju dj :
  zlen xs < 2147483648 -> nltb Ops (xv xs (zlen xs - 1)) x = false ->
  0 <= jd < ju -> ju <= zlen xs - 1 -> 1 <= dj <= ju -> zlen xs - 1 - ju < Z.of_nat fuel ->
  nltb Ops x (xv xs jd) = false ->
  exists jd' ju', hunt_up Ops fuel xs x (zlen xs) jd ju dj = Ok (jd', ju') /\ 0 <= jd' < ju' /\ ju' <= zlen xs - 1 /\
                  nltb Ops x (xv xs jd') = false /\ nltb Ops (xv xs ju') x = false.
Proof.
  intros HN Hdom. revert jd ju dj. induction fuel as [|f IH]; intros jd ju dj Hj Hu Hd Hf Wl.
  - cbn [hunt_up]. rewrite (getZ_xv Ops) by lia. cbn [rbind]. destruct (ngtb Ops x (xv xs ju)) eqn:E.
    + unfold ngtb in E. replace ju with (zlen xs - 1) in E by lia. congruence.
    + exists jd, ju. split; [reflexivity|]. repeat split; try lia; assumption.
  - cbn [hunt_up]. rewrite (getZ_xv Ops) by lia. cbn [rbind]. destruct (ngtb Ops x (xv xs ju)) eqn:E.
    + assert (ju < zlen xs - 1).
      { destruct (Z.eq_dec ju (zlen xs - 1)) as [->|]; [unfold ngtb in E; congruence|lia]. }
      unfold ngtb in E.
      rewrite (i32_small ju), (u32_id (ju + dj)), (u32_id (zlen xs - 1)) by lia.
      destruct (Z.gtb_spec (ju + dj) (zlen xs - 1)).
      * exists ju, (zlen xs - 1). split; [reflexivity|]. repeat split; try lia; [apply asym, E|exact Hdom].
      * rewrite (i32_small (dj + dj)) by lia. apply IH; try lia. apply asym, E.
    + exists jd, ju. split; [reflexivity|]. repeat split; try lia; assumption.
Qed.

Lemma hunt_down_weak fuel xs x jd ju dj :
  zlen xs < 2147483648 -> nltb Ops x (xv xs 0) = false ->
  0 <= jd < ju -> ju <= zlen xs - 1 -> 1 <= dj -> jd + dj <= zlen xs - 1 -> jd < Z.of_nat fuel ->
  nltb Ops (xv xs ju) x = false ->
  exists jd' ju', hunt_down Ops fuel xs x jd ju dj = Ok (jd', ju') /\ 0 <= jd' < ju' /\ ju' <= zlen xs - 1 /\
                  nltb Ops x (xv xs jd') = false /\ nltb Ops (xv xs ju') x = false.
Proof.
  intros HN Hdom. revert jd ju dj. induction fuel as [|f IH]; intros jd ju dj Hj Hu Hd Hs Hf Wr.
  - lia.
  - cbn [hunt_down]. rewrite (getZ_xv Ops) by lia. cbn [rbind]. destruct (nltb Ops x (xv xs jd)) eqn:E.
    + assert (0 < jd).
      { destruct (Z.eq_dec jd 0) as [->|]; [congruence|lia]. }
      rewrite (u32_id jd), (i32_small (jd - dj)) by lia.
      destruct (Z.ltb_spec (jd - dj) 0).
      * exists 0, jd. split; [reflexivity|]. repeat split; try lia; [exact Hdom|apply asym, E].
      * rewrite (i32_small (dj + dj)) by lia. apply IH; try lia. apply asym, E.
    + exists jd, ju. split; [reflexivity|]. repeat split; try lia; assumption.
Qed.

Lemma hunt_weak xs jl x :
  2 <= zlen xs < 2147483648 -> increasing Ops xs -> 0 <= jl <= zlen xs - 2 ->
  nltb Ops x (xv xs 0) = false -> nltb Ops (xv xs (zlen xs - 1)) x = false ->
  exists j, hunt Ops xs jl x = Ok j /\ weak xs x j.
Proof.
  intros HN Hinc Hjl H0 H1. unfold hunt. rewrite !(getZ_xv Ops) by lia. cbn [rbind].
  assert (Hbis : forall jd ju, 0 <= jd < ju -> ju <= zlen xs - 1 -> nltb Ops x (xv xs jd) = false -> nltb Ops (xv xs ju) x = false ->
     exists j, (if u32 (ju - jd) >? 1 then rbind (bisection Ops (Z.to_nat (zlen xs)) xs x jd (i32 ju)) (fun j => Ok (u32 (i32 j))) else Ok (u32 jd)) = Ok j
               /\ weak xs x j).
  { intros jd ju Hj Hu Wl Wr. rewrite (u32_id (ju - jd)), (i32_small ju), (u32_id jd) by lia.
    destruct (Z.gtb_spec (ju - jd) 1).
    - destruct (bisection_weak (Z.to_nat (zlen xs)) xs x jd ju) as (j & E & Hw); try lia; try assumption.
      rewrite E. cbn [rbind]. destruct Hw as (Hr & Hw). rewrite (i32_small j), (u32_id j) by lia. exists j. split; [reflexivity|split; assumption].
    - exists jd. split; [reflexivity|]. replace ju with (jd + 1) in Wr by lia. repeat split; try lia; assumption. }
  destruct (ngtb Ops x (xv xs jl)) eqn:Eu.
  - rewrite (i32_small jl), (u32_id (jl + 1)) by lia. unfold ngtb in Eu.
    pose proof (asym _ _ Eu) as Eu'.
    destruct (hunt_up_weak (Z.to_nat (zlen xs)) xs x jl (jl + 1) 1) as (jd & ju & E & Hj & Hu & Wl & Wr); try lia; try assumption.
    rewrite E. cbn [rbind]. apply Hbis; assumption.
  - destruct (nltb Ops x (xv xs jl)) eqn:Ed.
    + assert (0 < jl) by (destruct (Z.eq_dec jl 0) as [->|]; [congruence|lia]).
      rewrite (u32_id (jl - 1)), (i32_small (jl - 1)) by lia.
      pose proof (asym _ _ Ed) as Ed'.
      destruct (hunt_down_weak (Z.to_nat (zlen xs)) xs x (jl - 1) jl 1) as (jd & ju & E & Hj & Hu & Wl & Wr); try lia; try assumption.
      rewrite E. cbn [rbind]. apply Hbis; assumption.
    + cbn [rbind]. exists jl. split; [reflexivity|]. repeat split; try lia; [exact Ed|].
      unfold ngtb in Eu. destruct (nltb Ops (xv xs (jl + 1)) x) eqn:F; [|reflexivity].
      pose proof (increasing_lt xs jl (jl + 1) Hinc ltac:(lia) ltac:(lia) ltac:(lia)) as M.
      pose proof (ol_trans _ L _ _ _ M F). congruence.
Qed.

(** `if(j < N - 2 && x == x_values[j + 1]) j++` turns x_values[j] <= x <= x_values[j+1] into the unique bracket *)
Lemma adjust_bracket xs x j0 : 2 <= zlen xs -> increasing Ops xs -> weak xs x j0 ->
  exists j, (if j0 <? zlen xs - 2 then rbind (getZ xs (j0 + 1)) (fun xn => if neqb Ops x xn then Ok (j0 + 1) else Ok j0) else Ok j0) = Ok j
            /\ bracket xs x j.
Proof.
  intros HN Hinc (Hr & Wl & Wr). destruct (Z.ltb_spec j0 (zlen xs - 2)).
  - rewrite (getZ_xv Ops) by lia. cbn [rbind]. destruct (neqb Ops x (xv xs (j0 + 1))) eqn:E.
    + exists (j0 + 1). split; [reflexivity|]. split; [lia|]. split.
      * apply (ol_eq _ L) in E. tauto.
      * left. rewrite (ol_eq_lt_l _ L _ _ _ E). replace (j0 + 1 + 1) with (j0 + 2) by lia.
        apply increasing_lt; try lia; assumption.
    + exists j0. split; [reflexivity|]. split; [lia|]. split; [exact Wl|]. left.
      destruct (ol_total _ L x (xv xs (j0 + 1))) as [A|[A|A]]; [exact A|congruence|congruence].
  - exists j0. split; [reflexivity|]. split; [lia|]. split; [exact Wl|]. right. split; [lia|].
    replace (zlen xs - 1) with (j0 + 1) by lia. exact Wr.
Qed.

(** Locate(x) in any admissible search state = the stateless Locate, plus the new state *)
Lemma locate_st_same_index xs st x : 2 <= zlen xs < 2147483648 -> increasing Ops xs -> state_ok xs st ->
  locate_st Ops xs st x =
  match locate Ops xs x with
  | Ok j => Ok (j, {| jLast := j; corr := u32 (j - jLast st) <? 10 |})
  | Exit => Exit | OOB => OOB | Fuel => Fuel
  end.
Proof.
  intros HN Hinc Hst. unfold state_ok in Hst. unfold locate_st, locate. set (N := zlen xs) in *.
  destruct (nisnan Ops x); [reflexivity|].
  rewrite !(u32_id (N - 1)), !(u32_id (N - 2)) by lia.
  rewrite !(getZ_xv Ops) by (fold N; lia). cbn [rbind].
  destruct (nltb Ops x (xv xs 0) || nltb Ops (xv xs (N - 1)) x) eqn:Eo.
  - destruct (nltb Ops (nabs Ops (nsub Ops x (xv xs 0))) _); [reflexivity|].
    destruct (nltb Ops (nabs Ops (nsub Ops x (xv xs (N - 1)))) _); reflexivity.
  - apply orb_false_iff in Eo. destruct Eo as [E0 E1].
    assert (Hs : exists j0, (if corr st then hunt Ops xs (jLast st) x else bisection Ops (Z.to_nat N) xs x 0 (N - 1)) = Ok j0 /\ weak xs x j0).
    { destruct (corr st).
      - apply hunt_weak; fold N; try lia; assumption.
      - apply bisection_weak; fold N; try lia; assumption. }
    destruct Hs as (j0 & Ej & Wj). rewrite Ej. cbn [rbind].
    destruct (bisection_weak (Z.to_nat N) xs x 0 (N - 1)) as (k0 & Ek & Wk); try (fold N; lia); try assumption.
    rewrite Ek. cbn [rbind].
    destruct (adjust_bracket xs x j0 ltac:(fold N; lia) Hinc Wj) as (j & Aj & Bj).
    destruct (adjust_bracket xs x k0 ltac:(fold N; lia) Hinc Wk) as (k & Ak & Bk).
    fold N in Aj, Ak. rewrite Aj, Ak. cbn [rbind].
    rewrite (bracket_unique xs x j k Hinc Bj Bk). reflexivity.
Qed.

(** so a whole sequence of Locate requests returns, request by request, the indices of the stateless Locate *)
Lemma locate_trace_indices xs reqs : 2 <= zlen xs < 2147483648 -> increasing Ops xs -> forall st l, state_ok xs st ->
  locate_trace_from Ops xs st reqs = Ok l ->
  map (fun t => Ok (fst t)) l = map (locate Ops xs) reqs.
Proof.
  intros HN Hinc. induction reqs as [|x r IH]; intros st l Hst.
  - cbn. intros [= <-]. reflexivity.
  - cbn [locate_trace_from]. rewrite (locate_st_same_index xs st x HN Hinc Hst).
    destruct (locate_cases Ops xs x ltac:(lia)) as [(E & _)|(j & E & Hj & _)]; rewrite E; cbn [rbind]; [discriminate|].
    cbn [snd fst]. destruct (locate_trace_from Ops xs _ r) as [l'| | |] eqn:E2; cbn [rbind]; try discriminate.
    intros [= <-]. cbn [map fst]. rewrite E. f_equal. eapply IH; [|exact E2]. unfold state_ok; cbn; lia.
Qed.
End HuntSame.
