(** C19 — property theorems only.  Each is closed by [exact] of a lemma proved in C19_Proofs*.v. *)
From Coq Require Import ZArith List Reals Sorting.Permutation Sorting.Sorted.
From LP Require Import Num NumR OrdLaws C19_Model C19_Proofs C19_Proofs_Lists C19_Proofs_Stats C19_Proofs_Overloads C19_Proofs_Session C19_Proofs_Weighted C19_Proofs_Histories C19_Proofs_Partition C19_Proofs_Float C19_Proofs_Cross C19_Proofs_Grow7 Gen_C19_Formulas C19_GenTie.
Import ListNotations.

(** ** Workload_Distribution(workers,tasks): workers+1 non-decreasing indices from 0 to tasks whose
    consecutive differences differ by at most one (tasks/workers or one more, the larger ones on the last
    tasks mod workers workers) — for every workers >= 1 and every tasks; zero workers exit with a diagnostic. *)
Theorem C19_workload (w t : nat) : (1 <= w)%nat ->
  (exists l, workload w t = Ok l /\
  length l = S w /\ nth 0 l 0 = 0 /\ nth w l 0 = Z.of_nat t /\
  (forall k, (k <= w)%nat ->
     nth k l 0 = Z.of_nat k * (Z.of_nat t / Z.of_nat w) + Z.max 0 (Z.of_nat k - (Z.of_nat w - Z.of_nat t mod Z.of_nat w))) /\
  forall k, (k < w)%nat ->
    let d := nth (S k) l 0 - nth k l 0 in
    (d = Z.of_nat t / Z.of_nat w \/ d = Z.of_nat t / Z.of_nat w + 1) /\ 0 <= d)%Z.
Proof. exact (workload_spec w t). Qed.
Print Assumptions C19_workload.

Theorem C19_workload_zero_workers (t : nat) : workload 0 t = Exit.
Proof. exact (workload_zero t). Qed.
Print Assumptions C19_workload_zero_workers.

(** the indices are a partition of the tasks: every task 0 <= j < tasks lies in the half-open block [l[k], l[k+1]) of exactly
    one worker k *)
Theorem C19_workload_partition (w t : nat) : (1 <= w)%nat ->
  exists l, workload w t = Ok l /\
  forall j, (0 <= j < Z.of_nat t)%Z ->
    (exists k, (k < w)%nat /\ (nth k l 0 <= j < nth (S k) l 0)%Z) /\
    (forall k k', (k < w)%nat -> (k' < w)%nat ->
       (nth k l 0 <= j < nth (S k) l 0)%Z -> (nth k' l 0 <= j < nth (S k') l 0)%Z -> k = k').
Proof. exact (workload_partition w t). Qed.
Print Assumptions C19_workload_partition.

(** ** Range(min,max,step): ascending [min, min+step, ...) below max with exactly ceil((max-min)/step) elements,
    descending when min > max, empty when min = max; the model's fuel suffices ([Some]).  For step <= 0 the
    ascending loop of the C++ code does not terminate when min < max ([None]; outside the quantifier). *)
Theorem C19_range_spec (min max step : Z) :
  ((0 < step -> min < max ->
     let n := Z.to_nat ((max - min + step - 1) / step) in
     range min max step = Some (map (fun k => min + Z.of_nat k * step) (seq 0 n)) /\
     (1 <= n)%nat /\
     (forall k, (k < n)%nat -> min + Z.of_nat k * step < max) /\
     max <= min + Z.of_nat n * step) /\
  (0 < step -> max < min ->
     let n := Z.to_nat ((min - max + step - 1) / step) in
     range min max step = Some (map (fun k => min - Z.of_nat k * step) (seq 0 n)) /\
     (1 <= n)%nat /\
     (forall k, (k < n)%nat -> max < min - Z.of_nat k * step) /\
     min - Z.of_nat n * step <= max) /\
  (min = max -> range min max step = Some []) /\
  (step <= 0 -> max <= min -> range min max step = Some []) /\
  (step <= 0 -> min < max -> range min max step = None))%Z.
Proof. exact (range_spec min max step). Qed.
Print Assumptions C19_range_spec.

(** the other two ways of calling Range: Range(min,max) uses the default step 1; Range(max) is the range from 0 to
    max, i.e. 0, 1, ..., max-1 for max > 0, 0, -1, ..., max+1 for max < 0 (descending when min > max), empty for 0 *)
Theorem C19_range_two_args (min max : Z) :
  ((min < max -> range2 min max = Some (map (fun k => min + Z.of_nat k) (seq 0 (Z.to_nat (max - min))))) /\
   (max < min -> range2 min max = Some (map (fun k => min - Z.of_nat k) (seq 0 (Z.to_nat (min - max))))) /\
   (min = max -> range2 min max = Some []))%Z.
Proof. exact (range2_spec min max). Qed.
Print Assumptions C19_range_two_args.

Theorem C19_range_one_arg (max : Z) :
  (range1 max = range2 0 max /\
   (0 < max -> range1 max = Some (map Z.of_nat (seq 0 (Z.to_nat max)))) /\
   (max < 0 -> range1 max = Some (map (fun k => - Z.of_nat k) (seq 0 (Z.to_nat (- max))))) /\
   (max = 0 -> range1 max = Some []))%Z.
Proof. exact (range1_spec max). Qed.
Print Assumptions C19_range_one_arg.

(** ** List templates against the standard list functions *)
Theorem C19_lists_equal {A : Type} (eqb : A -> A -> bool) :
  (forall a b, eqb a b = true <-> a = b) ->
  forall v1 v2 : list A, lists_equal eqb v1 v2 = true <-> v1 = v2.
Proof. exact (lists_equal_spec eqb). Qed.
Print Assumptions C19_lists_equal.

(* the overload for lists of lists *)
Theorem C19_lists_equal_nested {A : Type} (eqb : A -> A -> bool) :
  (forall a b, eqb a b = true <-> a = b) ->
  forall v1 v2 : list (list A), lists_equal2 eqb v1 v2 = true <-> v1 = v2.
Proof. exact (lists_equal2_spec eqb). Qed.
Print Assumptions C19_lists_equal_nested.

Theorem C19_flatten_concat {A : Type} (v : list (list A)) : flatten_list v = concat v.
Proof. exact (flatten_concat v). Qed.
Print Assumptions C19_flatten_concat.

Theorem C19_list_contains {A : Type} (eqb : A -> A -> bool) (l : list A) (x : A) :
  list_contains eqb l x = existsb (fun a => eqb a x) l.
Proof. exact (list_contains_existsb eqb l x). Qed.
Print Assumptions C19_list_contains.

Theorem C19_list_contains_In {A : Type} (eqb : A -> A -> bool) :
  (forall a b, eqb a b = true <-> a = b) ->
  forall (l : list A) (x : A), list_contains eqb l x = true <-> In x l.
Proof. exact (list_contains_In eqb). Qed.
Print Assumptions C19_list_contains_In.

(** Find_Indices: exactly the positions holding x, in increasing order *)
Theorem C19_find_indices {A : Type} (eqb : A -> A -> bool) (d : A) (l : list A) (x : A) :
  find_indices eqb l x
  = map Z.of_nat (filter (fun i => eqb (nth i l d) x) (seq 0 (length l))).
Proof. exact (find_indices_spec eqb d l x). Qed.
Print Assumptions C19_find_indices.

Theorem C19_find_indices_In {A : Type} (eqb : A -> A -> bool) :
  (forall a b, eqb a b = true <-> a = b) ->
  forall (d : A) (l : list A) (x : A) (i : Z),
    In i (find_indices eqb l x)
    <-> ((0 <= i < Z.of_nat (length l))%Z /\ nth (Z.to_nat i) l d = x).
Proof. exact (find_indices_In eqb). Qed.
Print Assumptions C19_find_indices_In.

Theorem C19_find_indices_sorted {A : Type} (eqb : A -> A -> bool) (l : list A) (x : A) :
  StronglySorted Z.lt (find_indices eqb l x).
Proof. exact (find_indices_sorted eqb l x). Qed.
Print Assumptions C19_find_indices_sorted.

Theorem C19_combine_app {A : Type} (v1 v2 : list A) : combine_lists v1 v2 = v1 ++ v2.
Proof. exact (combine_app v1 v2). Qed.
Print Assumptions C19_combine_app.

(** Sub_List(v,i1,i2): entries i1..i2 for 0 <= i1 <= i2 < n; a negative i1 acts as 0 and i2 >= n as n-1;
    empty for an empty list, i1 >= n or i2 < i1 *)
Theorem C19_sub_list {A : Type} (d : A) (v : list A) (i1 i2 : Z) :
  let n := Z.of_nat (length v) in
  ((0 <= i1 <= i2)%Z -> (i2 < n)%Z ->
     sub_list v i1 i2 = firstn (Z.to_nat (i2 - i1 + 1)) (skipn (Z.to_nat i1) v) /\
     length (sub_list v i1 i2) = Z.to_nat (i2 - i1 + 1) /\
     forall k, (k < Z.to_nat (i2 - i1 + 1))%nat ->
       nth k (sub_list v i1 i2) d = nth (Z.to_nat i1 + k) v d) /\
  ((Z.max 0 i1 <= i2)%Z -> (Z.max 0 i1 < n)%Z ->
     sub_list v i1 i2 = sub_list v (Z.max 0 i1) (Z.min i2 (n - 1)) /\
     (0 <= Z.max 0 i1 <= Z.min i2 (n - 1))%Z /\ (Z.min i2 (n - 1) < n)%Z) /\
  ((n = 0 \/ Z.max 0 i1 >= n \/ i2 < Z.max 0 i1)%Z -> sub_list v i1 i2 = []).
Proof. exact (sub_list_spec d v i1 i2). Qed.
Print Assumptions C19_sub_list.

(** Transpose_Lists: rectangular non-empty input -> entry (j,i) = entry (i,j), shape swapped; ragged -> exit;
    the empty list of lists -> the empty list *)
Theorem C19_transpose {A : Type} (d : A) (lists : list (list A)) :
  (forall l0 rest, lists = l0 :: rest ->
     let m := length l0 in
     Forall (fun l => length l = m) lists ->
     exists t, transpose_lists d lists = Ok t /\ length t = m /\
       (forall j, (j < m)%nat -> length (nth j t []) = length lists) /\
       forall i j, (i < length lists)%nat -> (j < m)%nat ->
         nth i (nth j t []) d = nth j (nth i lists []) d) /\
  (forall l0 rest, lists = l0 :: rest ->
     (exists l, In l rest /\ length l <> length l0) -> transpose_lists d lists = Exit) /\
  (lists = [] -> transpose_lists d lists = Ok []).
Proof. exact (transpose_spec d lists). Qed.
Print Assumptions C19_transpose.

Theorem C19_transpose_exit_iff {A : Type} (d : A) (lists : list (list A)) :
  transpose_lists d lists = Exit
  <-> exists l0 rest, lists = l0 :: rest /\ exists l, In l rest /\ length l <> length l0.
Proof. exact (transpose_exit_iff d lists). Qed.
Print Assumptions C19_transpose_exit_iff.

(* the two-list overload Transpose_Lists(v1,v2): the list of pairs, or exit when the lengths differ *)
Theorem C19_transpose_two_lists {A : Type} (d : A) (v1 v2 : list A) :
  (length v1 = length v2 ->
     exists t, transpose_lists2 d v1 v2 = Ok t /\ length t = length v1 /\
       forall j, (j < length v1)%nat -> nth j t [] = [nth j v1 d; nth j v2 d]) /\
  (length v1 <> length v2 -> transpose_lists2 d v1 v2 = Exit).
Proof. exact (transpose2_spec d v1 v2). Qed.
Print Assumptions C19_transpose_two_lists.

(** the list templates against each other: Sub_List undoes Combine_Lists; with its inclusive upper index it cuts a list into
    adjacent pieces (0..k and k+1..n-1) that Combine_Lists puts together again; List_Contains is the non-emptiness of
    Find_Indices, whose length is the number of occurrences; Flatten_List of two rows is Combine_Lists; Transpose_Lists twice
    is the identity on rectangular tables with at least one row and one column *)
Theorem C19_sub_list_combine {A : Type} (v1 v2 : list A) :
  sub_list (combine_lists v1 v2) 0 (Z.of_nat (length v1) - 1) = v1 /\
  sub_list (combine_lists v1 v2) (Z.of_nat (length v1)) (Z.of_nat (length v1 + length v2) - 1) = v2.
Proof. exact (conj (sub_list_combine_left v1 v2) (sub_list_combine_right v1 v2)). Qed.
Print Assumptions C19_sub_list_combine.

Theorem C19_sub_list_split {A : Type} (v : list A) (k : Z) : (0 <= k < Z.of_nat (length v))%Z ->
  combine_lists (sub_list v 0 k) (sub_list v (k + 1) (Z.of_nat (length v) - 1)) = v.
Proof. exact (sub_list_split v k). Qed.
Print Assumptions C19_sub_list_split.

Theorem C19_contains_iff_indices {A : Type} (eqb : A -> A -> bool) (l : list A) (x : A) :
  list_contains eqb l x = negb (Nat.eqb (length (find_indices eqb l x)) 0) /\
  length (find_indices eqb l x) = length (filter (fun a => eqb a x) l).
Proof. exact (conj (list_contains_iff_indices eqb l x) (find_indices_count eqb l x)). Qed.
Print Assumptions C19_contains_iff_indices.

Theorem C19_flatten_pair_is_combine {A : Type} (v1 v2 : list A) : flatten_list [v1; v2] = combine_lists v1 v2.
Proof. exact (flatten_pair_is_combine v1 v2). Qed.
Print Assumptions C19_flatten_pair_is_combine.

Theorem C19_transpose_involution {A : Type} (d : A) (lists : list (list A)) (l0 : list A) (rest : list (list A)) :
  lists = l0 :: rest -> l0 <> [] -> Forall (fun l => length l = length l0) lists ->
  exists t, transpose_lists d lists = Ok t /\ transpose_lists d t = Ok lists.
Proof. exact (transpose_involution d lists l0 rest). Qed.
Print Assumptions C19_transpose_involution.

(** ** Locate_Closest_Location: for a sorted non-empty list the returned index is in range and its element
    is nearest to the target (ties, targets below the first and above the last element included);
    empty and unsorted lists exit. *)
Theorem C19_is_sorted (l : list R) :
  is_sorted ROps l = true
  <-> forall i j, (i <= j < length l)%nat -> (nth i l 0 <= nth j l 0)%R.
Proof. exact (is_sorted_spec l). Qed.
Print Assumptions C19_is_sorted.

Theorem C19_closest_location (l : list R) (t : R) :
  l <> [] -> is_sorted ROps l = true ->
  exists i, closest_location ROps l t = Ok i /\
    (0 <= i < Z.of_nat (length l))%Z /\
    forall j, (j < length l)%nat -> (Rabs (nth (Z.to_nat i) l 0 - t) <= Rabs (nth j l 0 - t))%R.
Proof. exact (closest_location_spec l t). Qed.
Print Assumptions C19_closest_location.

Theorem C19_closest_location_exit {T : Type} (Ops : NumOps T) (l : list T) (t : T) :
  closest_location Ops l t = Exit <-> l = [] \/ is_sorted Ops l = false.
Proof. exact (closest_location_exit_iff Ops l t). Qed.
Print Assumptions C19_closest_location_exit.

Theorem C19_unsorted (l : list R) :
  is_sorted ROps l = false <-> exists k, (S k < length l)%nat /\ (nth (S k) l 0 < nth k l 0)%R.
Proof. exact (is_sorted_false_spec l). Qed.
Print Assumptions C19_unsorted.

(** the same search over any number type whose comparison is a strict total order (no law of arithmetic:
    holds verbatim for non-NaN doubles): the returned index is adjacent to the partition point of the target *)
Theorem C19_closest_location_ord {T : Type} (Ops : NumOps T) : OrdLaws Ops -> forall (l : list T) (t : T),
  l <> [] -> is_sorted Ops l = true ->
  exists i, closest_location Ops l t = Ok i /\
    (0 <= i < Z.of_nat (length l))%Z /\
    (forall k, (k < Z.to_nat i)%nat -> nltb Ops t (nth k l (n0 Ops)) = false) /\
    (forall k, (Z.to_nat i < k < length l)%nat -> nltb Ops t (nth k l (n0 Ops)) = true).
Proof. exact (closest_location_bracket_ord Ops). Qed.
Print Assumptions C19_closest_location_ord.

Local Open Scope R_scope.
(** ** Linear_Space / Log_Space *)
Theorem C19_linear_space (mn mx : R) (steps : nat) :
  (2 <= steps)%nat -> mn <> mx ->
  let l := linear_space ROps mn mx steps in
  let h := (mx - mn) / (INR steps - 1) in
  length l = steps /\
  nth 0 l 0 = mn /\
  nth (steps - 1) l 0 = mx /\
  (forall k, (k < steps)%nat -> nth k l 0 = mn + INR k * h) /\
  (forall k, (S k < steps)%nat -> nth (S k) l 0 - nth k l 0 = h) /\
  (mn < mx -> forall i j, (i < j < steps)%nat -> nth i l 0 < nth j l 0) /\
  (mx < mn -> forall i j, (i < j < steps)%nat -> nth j l 0 < nth i l 0).
Proof. exact (linear_space_spec mn mx steps). Qed.
Print Assumptions C19_linear_space.

Theorem C19_linear_space_degenerate (mn mx : R) (steps : nat) :
  (steps < 2)%nat \/ mn = mx -> linear_space ROps mn mx steps = [mn].
Proof. exact (linear_space_degenerate mn mx steps). Qed.
Print Assumptions C19_linear_space_degenerate.

Theorem C19_log_space (mn mx : R) (steps : nat) :
  0 < mn -> 0 < mx -> mn <> mx -> (2 <= steps)%nat ->
  let l := log_space ROps mn mx steps in
  let h := (ln mx - ln mn) / (INR steps - 1) in
  length l = steps /\
  nth 0 l 0 = mn /\
  nth (steps - 1) l 0 = mx /\
  (forall k, (k < steps)%nat -> 0 < nth k l 0) /\
  (forall k, (k < steps)%nat -> nth k l 0 = exp (ln mn + INR k * h)) /\
  (forall k, (k < steps)%nat -> ln (nth k l 0) = ln mn + INR k * h) /\
  (forall k, (S k < steps)%nat -> ln (nth (S k) l 0) - ln (nth k l 0) = h) /\
  (forall k, (S k < steps)%nat -> nth (S k) l 0 / nth k l 0 = exp h) /\
  (mn < mx -> forall i j, (i < j < steps)%nat -> nth i l 0 < nth j l 0) /\
  (mx < mn -> forall i j, (i < j < steps)%nat -> nth j l 0 < nth i l 0).
Proof. exact (log_space_spec mn mx steps). Qed.
Print Assumptions C19_log_space.

Theorem C19_log_space_degenerate (mn mx : R) (steps : nat) :
  (steps < 2)%nat \/ mn = mx -> log_space ROps mn mx steps = [mn].
Proof. exact (log_space_degenerate mn mx steps). Qed.
Print Assumptions C19_log_space_degenerate.

(** ** Summary statistics under translation, scaling and permutation *)

(* one theorem per law (each conjunct is one statistic); the median scaling is stated for every real factor (the property asks
   for a > 0) *)
Theorem C19_translation_laws (c : R) (l : list R) :
  (l <> [] -> arithmetic_mean ROps (map (fun x => x + c) l) = arithmetic_mean ROps l + c) /\
  variance ROps (map (fun x => x + c) l) = variance ROps l /\
  standard_deviation ROps (map (fun x => x + c) l) = standard_deviation ROps l /\
  (l <> [] -> median ROps (map (fun x => x + c) l) = median ROps l + c).
Proof. exact (conj (mean_translate c l) (conj (variance_translate c l) (conj (stddev_translate c l) (median_translate c l)))). Qed.
Print Assumptions C19_translation_laws.

Theorem C19_scaling_laws (a : R) (l : list R) :
  arithmetic_mean ROps (map (fun x => a * x) l) = a * arithmetic_mean ROps l /\
  variance ROps (map (fun x => a * x) l) = a * a * variance ROps l /\
  standard_deviation ROps (map (fun x => a * x) l) = Rabs a * standard_deviation ROps l /\
  median ROps (map (fun x => a * x) l) = a * median ROps l.
Proof. exact (conj (mean_scale a l) (conj (variance_scale a l) (conj (stddev_scale a l) (median_scale_all a l)))). Qed.
Print Assumptions C19_scaling_laws.

(** the sort the median relies on (specification of std::nth_element's visible effect): sorted, a permutation
    of the input, and a function of the multiset only *)
Theorem C19_sort_list_sorted (l : list R) : StronglySorted Rle (sort_list ROps l).
Proof. exact (sort_list_strongly_sorted l). Qed.
Print Assumptions C19_sort_list_sorted.

Theorem C19_sort_list_perm (l : list R) : Permutation (sort_list ROps l) l.
Proof. exact (sort_list_perm l). Qed.
Print Assumptions C19_sort_list_perm.

Theorem C19_sort_list_perm_invariant (l l' : list R) :
  Permutation l l' -> sort_list ROps l = sort_list ROps l'.
Proof. exact (sort_list_perm_invariant l l'). Qed.
Print Assumptions C19_sort_list_perm_invariant.

Theorem C19_permutation_laws (l l' : list R) : Permutation l l' ->
  arithmetic_mean ROps l = arithmetic_mean ROps l' /\ variance ROps l = variance ROps l' /\
  standard_deviation ROps l = standard_deviation ROps l' /\ median ROps l = median ROps l'.
Proof. exact (fun H => conj (mean_perm l l' H) (conj (variance_perm l l' H) (conj (stddev_perm l l' H) (median_perm l l' H)))). Qed.
Print Assumptions C19_permutation_laws.

(** Median reorders the caller's vector (std::nth_element): a second call on the same vector gives the same value,
    the vector stays a permutation of the data, and so every later statistic of it is unchanged *)
Theorem C19_median_twice (l : list R) :
  let '(m1, m2, l2) := median_twice ROps l in
  m1 = median ROps l /\ m2 = median ROps l /\ Permutation l2 l.
Proof. exact (median_twice_spec l). Qed.
Print Assumptions C19_median_twice.

Theorem C19_stats_after_reordering (l l' : list R) : Permutation l' l ->
  median ROps l' = median ROps l /\ arithmetic_mean ROps l' = arithmetic_mean ROps l /\
  variance ROps l' = variance ROps l /\ standard_deviation ROps l' = standard_deviation ROps l.
Proof. exact (stats_after_reordering l l'). Qed.
Print Assumptions C19_stats_after_reordering.

(** "reduce to each other": the median of two data is their arithmetic mean *)
Theorem C19_median_pair_is_mean (a b : R) : median ROps [a; b] = arithmetic_mean ROps [a; b].
Proof. exact (median_pair_is_mean a b). Qed.
Print Assumptions C19_median_pair_is_mean.

(** ** Weighted_Average with equal weights w > 0: (arithmetic mean, s / sqrt N) *)
Theorem C19_weighted_equal_weights (w : R) (d : list (R * R)) :
  0 < w -> (2 <= length d)%nat -> (forall p, In p d -> snd p = w) ->
  weighted_average ROps d =
  (arithmetic_mean ROps (map fst d), standard_deviation ROps (map fst d) / sqrt (INR (length d))).
Proof. exact (weighted_equal_weights w d). Qed.
Print Assumptions C19_weighted_equal_weights.

(* data points constructed from a value only (default weight 1) *)
Theorem C19_weighted_default_weights (l : list R) :
  weighted_average_default ROps l =
  (arithmetic_mean ROps l, standard_deviation ROps l / sqrt (INR (length l))).
Proof. exact (weighted_default_weights l). Qed.
Print Assumptions C19_weighted_default_weights.

(** ** Weighted_Average with arbitrary (unequal) weights.  Cochran's formula as the library writes it (three sums around
    Average * wAverage) is the closed form  avg = sum w v / sum w,  SE^2 = N/(N-1)/W/W * sum (w (v - avg))^2  — for every data
    set (over R, x / 0 = 0; the formula is meaningful for W <> 0, N >= 2) *)
Theorem C19_weighted_closed_form (d : list (R * R)) :
  weighted_average ROps d =
  (Rsum (map (fun p => snd p * fst p) d) / Rsum (map snd d),
   sqrt (INR (length d) / (INR (length d) - 1) / Rsum (map snd d) / Rsum (map snd d)
         * Rsum (map (fun p => (snd p * (fst p - Rsum (map (fun p => snd p * fst p) d) / Rsum (map snd d)))
                             * (snd p * (fst p - Rsum (map (fun p => snd p * fst p) d) / Rsum (map snd d)))) d))).
Proof. exact (weighted_average_closed_form d). Qed.
Print Assumptions C19_weighted_closed_form.

(* for at least two data points the radicand is non-negative: the standard error is a genuine square root *)
Theorem C19_weighted_se_sqr (d : list (R * R)) : (2 <= length d)%nat ->
  0 <= cochranR d /\ snd (weighted_average ROps d) * snd (weighted_average ROps d) = cochranR d.
Proof. exact (fun H => conj (cochran_nonneg d H) (weighted_se_sqr d H)). Qed.
Print Assumptions C19_weighted_se_sqr.

(** permutation law, every data set and every weights *)
Theorem C19_weighted_perm (d d' : list (R * R)) :
  Permutation d d' -> weighted_average ROps d = weighted_average ROps d'.
Proof. exact (weighted_average_perm d d'). Qed.
Print Assumptions C19_weighted_perm.

(* the rotation the correspondence check applies (op wlaws) *)
Theorem C19_weighted_rotate (k : nat) (d : list (R * R)) :
  weighted_average ROps (rotate_data k d) = weighted_average ROps d.
Proof. exact (weighted_average_rotate k d). Qed.
Print Assumptions C19_weighted_rotate.

(** scaling laws: values times any real p -> (p * average, |p| * standard error); weights times any q <> 0 -> unchanged *)
Theorem C19_weighted_scale_values (p : R) (d : list (R * R)) :
  weighted_average ROps (scale_values ROps p d)
  = (p * fst (weighted_average ROps d), Rabs p * snd (weighted_average ROps d)).
Proof. exact (weighted_average_scale_values p d). Qed.
Print Assumptions C19_weighted_scale_values.

Theorem C19_weighted_scale_weights (q : R) (d : list (R * R)) : q <> 0 ->
  weighted_average ROps (scale_weights ROps q d) = weighted_average ROps d.
Proof. exact (weighted_average_scale_weights q d). Qed.
Print Assumptions C19_weighted_scale_weights.

(** translation law: values + c -> (average + c, the same standard error), for weights of non-zero sum *)
Theorem C19_weighted_translate (c : R) (d : list (R * R)) : Rsum (map snd d) <> 0 ->
  weighted_average ROps (shift_values ROps c d)
  = (fst (weighted_average ROps d) + c, snd (weighted_average ROps d)).
Proof. exact (weighted_average_shift_values c d). Qed.
Print Assumptions C19_weighted_translate.

(** positive weights: the weighted average lies between the smallest and the largest value *)
Theorem C19_weighted_between (lo hi : R) (d : list (R * R)) :
  d <> [] -> (forall p, In p d -> 0 < snd p /\ lo <= fst p <= hi) ->
  lo <= fst (weighted_average ROps d) <= hi.
Proof. exact (weighted_average_between lo hi d). Qed.
Print Assumptions C19_weighted_between.

(** ** Mean and median stay within the range of the data; the median of an odd number of data is the middle order statistic;
    Standard_Deviation is the genuine square root of a non-negative Variance for at least two data *)
Theorem C19_mean_between (lo hi : R) (l : list R) :
  l <> [] -> (forall x, In x l -> lo <= x <= hi) -> lo <= arithmetic_mean ROps l <= hi.
Proof. exact (mean_between lo hi l). Qed.
Print Assumptions C19_mean_between.

Theorem C19_median_between (lo hi : R) (l : list R) :
  l <> [] -> (forall x, In x l -> lo <= x <= hi) -> lo <= median ROps l <= hi.
Proof. exact (median_between lo hi l). Qed.
Print Assumptions C19_median_between.

Theorem C19_median_odd_is_datum (l : list R) : Nat.even (length l) = false ->
  In (median ROps l) l /\ median ROps l = nth (length l / 2) (sort_list ROps l) 0.
Proof. exact (median_odd_is_datum l). Qed.
Print Assumptions C19_median_odd_is_datum.

Theorem C19_stddev_sqr (l : list R) : (2 <= length l)%nat ->
  0 <= variance ROps l /\ standard_deviation ROps l * standard_deviation ROps l = variance ROps l.
Proof. exact (fun H => conj (variance_nonneg l H) (stddev_sqr l H)). Qed.
Print Assumptions C19_stddev_sqr.

(** ** Either orientation of the grids: the descending grid is the ascending one read backwards *)
Theorem C19_linear_space_reverse (mn mx : R) (steps : nat) : (2 <= steps)%nat ->
  linear_space ROps mx mn steps = rev (linear_space ROps mn mx steps).
Proof. exact (linear_space_reverse mn mx steps). Qed.
Print Assumptions C19_linear_space_reverse.

Theorem C19_log_space_reverse (mn mx : R) (steps : nat) : (2 <= steps)%nat ->
  log_space ROps mx mn steps = rev (log_space ROps mn mx steps).
Proof. exact (log_space_reverse mn mx steps). Qed.
Print Assumptions C19_log_space_reverse.

(** ** Object histories: one vector handed to any sequence of Arithmetic_Mean / Variance / Standard_Deviation / Median calls
    (Median reorders it).  Every call of every history answers as the same call on the original data, the vector stays a
    permutation of the data (the data themselves while no Median was called), and a call answers the same after any two
    histories — by induction over the history, for histories of any length *)
Theorem C19_stat_history (l : list R) (ops : list stat_op) :
  Permutation (fst (stat_history ROps l ops)) l /\
  snd (stat_history ROps l ops) = map (fun o => stat_answer ROps o l) ops.
Proof. exact (stat_history_spec l ops). Qed.
Print Assumptions C19_stat_history.

Theorem C19_stat_history_state (l : list R) (ops : list stat_op) :
  fst (stat_history ROps l ops) = if existsb (fun o => match o with OpMedian => true | _ => false end) ops
                                  then sort_list ROps l else l.
Proof. exact (stat_history_state l ops). Qed.
Print Assumptions C19_stat_history_state.

Theorem C19_stat_history_independent (l : list R) (h h' : list stat_op) (o : stat_op) :
  last (snd (stat_history ROps l (h ++ [o]))) 0 = last (snd (stat_history ROps l (h' ++ [o]))) 0.
Proof. exact (stat_history_independent l h h' o). Qed.
Print Assumptions C19_stat_history_independent.

(** ** Sessions: the helpers are functions of their arguments alone.  "meet their specs" for every call of a process, not
    only the first one in a pristine process: whatever ambient state (errno, floating-point exception flags, stream
    state) the process is in, whatever earlier requests or unrelated events [h] left behind ([leaves] is arbitrary),
    the k-th answer of a session is the answer of the same request alone in any other state [a0] *)
Theorem C19_session_answers_are_fresh_answers {Amb Req Out : Type} (answer : Req -> Out) (leaves : Req -> Amb -> Amb)
  (a a0 : Amb) (rs : list Req) (k : nat) (r : Req) :
  nth_error rs k = Some r ->
  nth_error (session answer leaves a rs) k = nth_error (session answer leaves a0 (r :: nil)) 0.
Proof. exact (session_answer_fresh answer leaves a a0 rs k r). Qed.
Print Assumptions C19_session_answers_are_fresh_answers.

Theorem C19_session_history_independent {Amb Req Out : Type} (answer : Req -> Out) (leaves leaves' : Req -> Amb -> Amb)
  (a a' : Amb) (h h' : list Req) (r : Req) :
  last (session answer leaves a (h ++ r :: nil)) (answer r) = last (session answer leaves' a' (h' ++ r :: nil)) (answer r).
Proof. exact (session_history_independent answer leaves leaves' a a' h h' r). Qed.
Print Assumptions C19_session_history_independent.

(* the same request repeated in one session (first call after an event, second call) gets the same answer *)
Theorem C19_session_repeat {Amb Req Out : Type} (answer : Req -> Out) (leaves : Req -> Amb -> Amb)
  (a : Amb) (rs : list Req) (i j : nat) (r : Req) :
  nth_error rs i = Some r -> nth_error rs j = Some r ->
  nth_error (session answer leaves a rs) i = nth_error (session answer leaves a rs) j.
Proof. exact (session_repeat answer leaves a rs i j r). Qed.
Print Assumptions C19_session_repeat.

(** ** Facts about the floating-point instance itself.  The following theorems use no law of order or arithmetic of the number
    type: they hold for every [NumOps T], hence verbatim for IEEE doubles with NaN, infinities and rounding.
    "return the requested number of points": *)
Theorem C19_grid_count_any_number_type {T : Type} (Ops : NumOps T) (mn mx : T) (steps : nat) :
  length (linear_space Ops mn mx steps) = (if orb (Nat.ltb steps 2) (neqb Ops mn mx) then 1 else steps)%nat /\
  length (log_space Ops mn mx steps) = (if orb (Nat.ltb steps 2) (neqb Ops mn mx) then 1 else steps)%nat.
Proof. exact (conj (linear_space_length_any Ops mn mx steps) (log_space_length_any Ops mn mx steps)). Qed.
Print Assumptions C19_grid_count_any_number_type.

(* the reordering Median leaves is a permutation of the data (also after a second call); the median of an odd number of data is
   one of the data *)
Theorem C19_median_any_number_type {T : Type} (Ops : NumOps T) (l : list T) :
  Permutation (sort_list Ops l) l /\ Permutation (snd (median_twice Ops l)) l /\
  (Nat.even (length l) = false -> In (median Ops l) l).
Proof. exact (conj (sort_list_perm_any Ops l) (conj (median_twice_perm_any Ops l) (median_odd_In_any Ops l))). Qed.
Print Assumptions C19_median_any_number_type.

(* object histories of any length: the vector stays a permutation of the data and every call is answered *)
Theorem C19_stat_history_any_number_type {T : Type} (Ops : NumOps T) (l : list T) (ops : list stat_op) :
  Permutation (fst (stat_history Ops l ops)) l /\ length (snd (stat_history Ops l ops)) = length ops.
Proof. exact (stat_history_any Ops l ops). Qed.
Print Assumptions C19_stat_history_any_number_type.

(** from the laws of a strict total order alone (doubles without NaN, rounding included): the reordered vector is sorted - all
    pairs, not only adjacent ones - so Locate_Closest_Location accepts the vector a Median call leaves behind *)
Theorem C19_sort_list_sorted_ord {T : Type} (Ops : NumOps T) : OrdLaws Ops -> forall l : list T,
  is_sorted Ops (sort_list Ops l) = true /\
  forall i j, (i <= j < length l)%nat ->
    nltb Ops (nth j (sort_list Ops l) (n0 Ops)) (nth i (sort_list Ops l) (n0 Ops)) = false.
Proof. exact (fun OL l => conj (sort_list_sorted_ord Ops OL l) (sort_list_nth_ord Ops OL l)). Qed.
Print Assumptions C19_sort_list_sorted_ord.

Theorem C19_closest_after_median_ord {T : Type} (Ops : NumOps T) : OrdLaws Ops -> forall (l : list T) (t : T), l <> [] ->
  exists i, closest_location Ops (snd (median_state Ops l)) t = Ok i /\ (0 <= i < Z.of_nat (length l))%Z.
Proof. exact (closest_after_median_ord Ops). Qed.
Print Assumptions C19_closest_after_median_ord.

(** ** The helpers against each other ("reduce to each other"), over R, for grids and data sets of any size.
    Arithmetic_Mean and Median of a Linear_Space grid are the mid-point, either orientation; then: *)
Theorem C19_stats_of_grids_and_combined_lists :
  (forall (mn mx : R) (steps : nat), (2 <= steps)%nat ->
     arithmetic_mean ROps (linear_space ROps mn mx steps) = (mn + mx) / 2 /\
     median ROps (linear_space ROps mn mx steps) = (mn + mx) / 2) /\
  (* Arithmetic_Mean of Combine_Lists: the size-weighted mean of the means (every pair of lists, x / 0 = 0) *)
  (forall l1 l2 : list R,
     arithmetic_mean ROps (combine_lists l1 l2)
     = (INR (length l1) * arithmetic_mean ROps l1 + INR (length l2) * arithmetic_mean ROps l2)
       / (INR (length l1) + INR (length l2))) /\
  (* Variance in Koenig-Huygens form (sum of squares minus N mean^2, over N - 1); zero exactly for constant data *)
  (forall l : list R,
     variance ROps l
     = (Rsum (map (fun x => x * x) l) - INR (length l) * (arithmetic_mean ROps l * arithmetic_mean ROps l))
       / (INR (length l) - 1)) /\
  (forall l : list R, (2 <= length l)%nat ->
     (variance ROps l = 0 <-> forall x, In x l -> x = arithmetic_mean ROps l)).
Proof.
  exact (conj (fun mn mx steps H => conj (mean_linear_space mn mx steps H) (median_linear_space mn mx steps H))
        (conj mean_combine (conj variance_koenig variance_zero_iff))).
Qed.
Print Assumptions C19_stats_of_grids_and_combined_lists.

(* Locate_Closest_Location finds a member exactly; on a strictly increasing list the k-th element is found at k; in particular
   a point of an ascending Linear_Space / Log_Space grid is found at its index, while a descending grid is rejected (exit) *)
Theorem C19_closest_location_lookup :
  (forall (l : list R) (t : R), is_sorted ROps l = true -> In t l ->
     exists i, closest_location ROps l t = Ok i /\ (0 <= i < Z.of_nat (length l))%Z /\ nth (Z.to_nat i) l 0 = t) /\
  (forall (l : list R) (k : nat),
     (forall i j, (i < j < length l)%nat -> nth i l 0 < nth j l 0) -> (k < length l)%nat ->
     closest_location ROps l (nth k l 0) = Ok (Z.of_nat k)) /\
  (forall (mn mx : R) (steps k : nat), (2 <= steps)%nat -> mn < mx -> (k < steps)%nat ->
     closest_location ROps (linear_space ROps mn mx steps) (nth k (linear_space ROps mn mx steps) 0) = Ok (Z.of_nat k)) /\
  (forall (mn mx : R) (steps k : nat), (2 <= steps)%nat -> 0 < mn -> mn < mx -> (k < steps)%nat ->
     closest_location ROps (log_space ROps mn mx steps) (nth k (log_space ROps mn mx steps) 0) = Ok (Z.of_nat k)) /\
  (forall (mn mx : R) (steps : nat) (t : R), (2 <= steps)%nat -> mx < mn ->
     closest_location ROps (linear_space ROps mn mx steps) t = Exit).
Proof.
  exact (conj closest_location_member (conj closest_location_strict (conj closest_on_linear_space
        (conj closest_on_log_space descending_grid_rejected)))).
Qed.
Print Assumptions C19_closest_location_lookup.

(** "monotone" for the rounded grid: for every number type whose integer conversion, multiplication by a finite factor of known
    sign and addition to a finite number are monotone on finite operands ([MonoLaws]; IEEE round-to-nearest doubles are such a
    type - a fact about IEEE arithmetic, not proved here - and so are the reals), a non-degenerate Linear_Space grid with finite
    min and finite computed step never goes backwards: non-decreasing when the computed step is >= 0, non-increasing when it is
    <= 0.  (Strict monotonicity is a theorem only over R, C19_linear_space: in doubles neighbouring points can coincide when
    the step is below the spacing of the doubles at min.) *)
Theorem C19_linear_space_monotone_rounded {T : Type} (Ops : NumOps T) (fin : T -> Prop) : MonoLaws Ops fin ->
  forall (mn mx : T) (steps : nat) (d : T),
  let step := ndiv Ops (nsub Ops mx mn) (nsub Ops (nofZ Ops (Z.of_nat steps)) (n1 Ops)) in
  let l := linear_space Ops mn mx steps in
  orb (Nat.ltb steps 2) (neqb Ops mn mx) = false -> fin mn -> fin step ->
  (nleb Ops (n0 Ops) step = true ->
     forall i j, (i <= j < steps)%nat -> nleb Ops (nth i l d) (nth j l d) = true) /\
  (nleb Ops step (n0 Ops) = true ->
     forall i j, (i <= j < steps)%nat -> nleb Ops (nth j l d) (nth i l d) = true).
Proof. exact (linear_space_monotone_rounded Ops fin). Qed.
Print Assumptions C19_linear_space_monotone_rounded.

(** ** Seventh pass *)

(** Workload_Distribution computes in `int` (the model in Z): every value the index list holds in any state of the remainder
    loop - after n = 0 .. tasks mod workers iterations, n = 0 being the state the first loop leaves, n = tasks mod workers the
    returned list - lies in [0, tasks]; the quotient lies in [0, tasks], the remainder in [0, workers) and every increment
    `remainder - i` in [1, workers - 1].  Hence for tasks <= INT_MAX no `int` operation of the C++ code overflows and the
    model's integers are the program's integers. *)
Theorem C19_workload_machine_integers (w t : nat) : (1 <= w)%nat ->
  let q := (Z.of_nat t / Z.of_nat w)%Z in
  let r := (Z.of_nat t mod Z.of_nat w)%Z in
  (forall n k, (Z.of_nat n <= r)%Z -> (k <= w)%nat ->
     (0 <= nth k (wl_rem (wl_base q 0 w) w r 0 n) 0%Z <= Z.of_nat t)%Z) /\
  workload_list w t = wl_rem (wl_base q 0 w) w r 0 (Z.to_nat r) /\
  (0 <= q <= Z.of_nat t)%Z /\ (0 <= r < Z.of_nat w)%Z /\ (forall i, (0 <= i < r)%Z -> (1 <= r - i <= Z.of_nat w - 1)%Z).
Proof.
  intros Hw q r. split; [intros n k; exact (workload_every_state_in_range w t n k Hw)|].
  split; [exact (workload_list_is_last_state w t)|exact (workload_scalars_in_range w t Hw)].
Qed.
Print Assumptions C19_workload_machine_integers.
Example C19_workload_machine_integers_nonvacuous : nth 3 (wl_rem (wl_base (10 / 3) 0 3) 3 (10 mod 3) 0 1) 0%Z = 10%Z.
Proof. exact workload_range_nonvacuous. Qed.

(** DataPoint (Statistics.cpp section 4; the element type of Weighted_Average's argument): the constructors store their arguments
    (default value 0, default weight 1); operator>, operator<, operator== look at the values only - in every number type, doubles
    with NaN included *)
Theorem C19_datapoint_any_number_type {T : Type} (Ops : NumOps T) :
  (forall v w : T, datapoint v w = (v, w) /\ datapoint1 Ops v = (v, n1 Ops) /\ datapoint0 Ops = (n0 Ops, n1 Ops)) /\
  (forall a b : T * T, dp_gt Ops a b = dp_lt Ops b a) /\
  (forall v1 w1 v2 w2 w1' w2' : T,
     dp_lt Ops (datapoint v1 w1) (datapoint v2 w2) = dp_lt Ops (datapoint v1 w1') (datapoint v2 w2') /\
     dp_gt Ops (datapoint v1 w1) (datapoint v2 w2) = dp_gt Ops (datapoint v1 w1') (datapoint v2 w2') /\
     dp_eq Ops (datapoint v1 w1) (datapoint v2 w2) = dp_eq Ops (datapoint v1 w1') (datapoint v2 w2')).
Proof. exact (conj (datapoint_fields Ops) (conj (dp_gt_is_flipped_lt Ops) (dp_compare_ignores_weights Ops))). Qed.
Print Assumptions C19_datapoint_any_number_type.

(** from the laws of a strict total order alone (doubles without NaN): operator< on data points is irreflexive and transitive,
    operator== is exactly incomparability under it and is compatible with it, and exactly one of <, ==, > holds - what
    std::sort / std::nth_element on a vector of data points need *)
Theorem C19_datapoint_order_ord {T : Type} (Ops : NumOps T) : OrdLaws Ops ->
  (forall a, dp_lt Ops a a = false) /\
  (forall a b c, dp_lt Ops a b = true -> dp_lt Ops b c = true -> dp_lt Ops a c = true) /\
  (forall a b, dp_eq Ops a b = true <-> (dp_lt Ops a b = false /\ dp_gt Ops a b = false)) /\
  (forall a a' b, dp_eq Ops a a' = true -> dp_lt Ops a b = dp_lt Ops a' b /\ dp_lt Ops b a = dp_lt Ops b a') /\
  (forall a b,
     (dp_lt Ops a b = true /\ dp_eq Ops a b = false /\ dp_gt Ops a b = false) \/
     (dp_lt Ops a b = false /\ dp_eq Ops a b = true /\ dp_gt Ops a b = false) \/
     (dp_lt Ops a b = false /\ dp_eq Ops a b = false /\ dp_gt Ops a b = true)).
Proof.
  intros OL. exact (conj (dp_lt_irrefl Ops OL) (conj (dp_lt_trans Ops OL) (conj (dp_eq_iff_incomparable Ops OL)
        (conj (dp_eq_compatible Ops OL) (dp_trichotomy Ops OL))))).
Qed.
Print Assumptions C19_datapoint_order_ord.
Example C19_datapoint_order_nonvacuous : OrdLaws ROps /\
  dp_eq ROps (datapoint 1%R 2%R) (datapoint 1%R 3%R) = true /\ datapoint 1%R 2%R <> datapoint 1%R 3%R.
Proof. exact (conj ROps_OrdLaws dp_eq_not_structural). Qed.

(** ** T-tie: the terms regenerated from the C++ source on every run (Gen_C19_Formulas.v, from clang's AST of src/Statistics.cpp
    and src/Utilities.cpp by tools/cxx2gallina_C19.py) are the hand model.  The generated terms follow the source statement by
    statement (one fold over a tuple of accumulators per loop, push_back loops, `unsigned` as Z, literals as [nlit]); the
    hand model has one fold per sum.  [LitLaws]: the literals 0.0, 1.0, 2.0 are the integers 0, 1, 2 of the number type
    (true in R, C19_generated_literal_laws_hold_in_R; in doubles by exact representability). *)
Theorem C19_generated_DataPoint_operators_is_model {T : Type} (Ops : NumOps T) (a b : T * T) :
  g_DataPoint_lt Ops a b = dp_lt Ops a b /\ g_DataPoint_gt Ops a b = dp_gt Ops a b /\ g_DataPoint_eq Ops a b = dp_eq Ops a b.
Proof. exact (conj (tie_DataPoint_lt Ops a b) (conj (tie_DataPoint_gt Ops a b) (tie_DataPoint_eq Ops a b))). Qed.
Print Assumptions C19_generated_DataPoint_operators_is_model.

Theorem C19_generated_Arithmetic_Mean_is_model {T : Type} (Ops : NumOps T) : LitLaws Ops ->
  forall l, g_Arithmetic_Mean Ops l = arithmetic_mean Ops l.
Proof. exact (tie_Arithmetic_Mean Ops). Qed.
Print Assumptions C19_generated_Arithmetic_Mean_is_model.

Theorem C19_generated_Variance_is_model {T : Type} (Ops : NumOps T) : LitLaws Ops ->
  forall l, g_Variance Ops l = variance Ops l.
Proof. exact (tie_Variance Ops). Qed.
Print Assumptions C19_generated_Variance_is_model.

Theorem C19_generated_Standard_Deviation_is_model {T : Type} (Ops : NumOps T) : LitLaws Ops ->
  forall l, g_Standard_Deviation Ops l = standard_deviation Ops l.
Proof. exact (tie_Standard_Deviation Ops). Qed.
Print Assumptions C19_generated_Standard_Deviation_is_model.

(* the source updates (sum, wsum) in one loop and (sum1, sum2, sum3) in a second one and returns the vector {Average, sqrt(SE)} *)
Theorem C19_generated_Weighted_Average_is_model {T : Type} (Ops : NumOps T) : LitLaws Ops ->
  forall d, g_Weighted_Average Ops d = [fst (weighted_average Ops d); snd (weighted_average Ops d)].
Proof. exact (tie_Weighted_Average Ops). Qed.
Print Assumptions C19_generated_Weighted_Average_is_model.

Theorem C19_generated_Linear_Space_is_model {T : Type} (Ops : NumOps T) : LitLaws Ops ->
  forall mn mx (steps : nat), g_Linear_Space Ops mn mx (Z.of_nat steps) = linear_space Ops mn mx steps.
Proof. exact (tie_Linear_Space Ops). Qed.
Print Assumptions C19_generated_Linear_Space_is_model.

Theorem C19_generated_Log_Space_is_model {T : Type} (Ops : NumOps T) : LitLaws Ops ->
  forall mn mx (steps : nat), g_Log_Space Ops mn mx (Z.of_nat steps) = log_space Ops mn mx steps.
Proof. exact (tie_Log_Space Ops). Qed.
Print Assumptions C19_generated_Log_Space_is_model.

Example C19_generated_literal_laws_hold_in_R : LitLaws ROps.
Proof. exact ROps_LitLaws. Qed.
