(** C19 — property theorems only.  Each is closed by [exact] of a lemma proved in C19_Proofs.v. *)
From Coq Require Import ZArith List.
From LP Require Import Num C19_Model C19_Proofs.
Local Open Scope Z_scope.

(** Workload_Distribution(workers,tasks): workers+1 non-decreasing indices from 0 to tasks whose
    consecutive differences differ by at most one — for every workers >= 1 and every tasks. *)
Theorem C19_workload (w t : nat) : (1 <= w)%nat ->
  let l := workload w t in
  length l = S w /\ nth 0 l 0 = 0 /\ nth w l 0 = Z.of_nat t /\
  forall k, (k < w)%nat ->
    let d := nth (S k) l 0 - nth k l 0 in
    (d = Z.of_nat t / Z.of_nat w \/ d = Z.of_nat t / Z.of_nat w + 1) /\ 0 <= d.
Proof. exact (workload_spec w t). Qed.
Print Assumptions C19_workload.
