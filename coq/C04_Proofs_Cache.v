(** * C04 proofs: no state besides the value.  The model's objects are exactly (dimension, components) / (rows, columns,
    components): there is no cache.  After ANY session, every live object IS the fresh object built from its current entries
    (Vector(components) / Matrix(components)), so every observer - any function of the object - answers on an object with a past
    what it answers on a fresh object of equal value.  (An implementation that caches an observer's answer inside the object and
    invalidates it incompletely breaks the correspondence with this model; the `observer-cache` sessions of checks/C04.py aim there.) *)
From mathcomp Require Import all_ssreflect.
From Coq Require PeanoNat.
From LP Require Import Num C04_Model C04_State C04_Life C04_Proofs_Struct C04_Proofs_Hist.
Set Implicit Arguments. Unset Strict Implicit. Unset Printing Implicit Defensive.

Section Cache.
Context {T : Type} (Ops : NumOps T).

Lemma fresh_vec (v : vec T) : wf_vec v -> vec_of (vcomps v) = v.
Proof. by case: v => d c; rewrite /wf_vec /vec_of /= => /PeanoNat.Nat.eqb_eq ->. Qed.

Lemma session_objects_fresh (steps : seq (@lstep T)) (st st' : @lstate T) :
  lstate_wf st -> all (@lstep_ok T) steps -> life_run Ops st steps = Ok st' ->
  (forall j, j < size st'.2 -> vec_of (vcomps (nth (mkVec 0 [::]) st'.2 j)) = nth (mkVec 0 [::]) st'.2 j) /\
  (forall j, j < size st'.1 -> 0 < mrows (nth (mkMat 0 0 [::]) st'.1 j) ->
     mat_of_entries (mcomps (nth (mkMat 0 0 [::]) st'.1 j)) = Ok (nth (mkMat 0 0 [::]) st'.1 j)).
Proof.
  move=> H1 H2 H3; case: (@life_run_invariant T Ops steps st st' H1 H2 H3) => /andP [Hm Hv] _ _.
  move/(all_nthP (mkMat 0 0 [::])): Hm => Hm; move/(all_nthP (mkVec 0 [::])): Hv => Hv.
  split=> [j Hj|j Hj Hr].
  - by apply: fresh_vec; exact: Hv.
  - by apply: mat_of_entries_wf => //; exact: Hm.
Qed.

(** hence every observer: same answer as on the fresh object *)
Lemma session_observers_fresh B (obs : vec T -> B) (steps : seq (@lstep T)) (st st' : @lstate T) j :
  lstate_wf st -> all (@lstep_ok T) steps -> life_run Ops st steps = Ok st' -> j < size st'.2 ->
  obs (nth (mkVec 0 [::]) st'.2 j) = obs (vec_of (vcomps (nth (mkVec 0 [::]) st'.2 j))).
Proof. by move=> H1 H2 H3 Hj; rewrite (proj1 (session_objects_fresh H1 H2 H3) j Hj). Qed.
End Cache.
