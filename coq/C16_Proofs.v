(** * C16 proofs: rotations and spherical coordinates over the reals. *)
From Coq Require Import Reals ZArith List Lra Lia Psatz Nsatz Bool.
From Coquelicot Require Import Coquelicot.
From LP Require Import Num NumR C16_Model.
Import ListNotations.
Local Open Scope R_scope.

(** ** Vocabulary of the statements (mathematical, independent of the model) *)
Definition cx (v : list R) := List.nth 0 v 0.
Definition cy (v : list R) := List.nth 1 v 0.
Definition cz (v : list R) := List.nth 2 v 0.
Definition dot3 (a b : list R) : R := cx a * cx b + cy a * cy b + cz a * cz b.
Definition cross3 (a b : list R) : list R :=
  [cy a * cz b - cz a * cy b; cz a * cx b - cx a * cz b; cx a * cy b - cy a * cx b].
Definition vscal (s : R) (v : list R) : list R := map (Rmult s) v.
Definition vplus (a b : list R) : list R := map (fun p => fst p + snd p) (combine a b).
(** the unit vector along a 3-vector *)
Definition nhat (a : list R) : list R := map (fun x => x / sqrt (dot3 a a)) a.
Definition nonzero3 (a0 a1 a2 : R) : Prop := a0 <> 0 \/ a1 <> 0 \/ a2 <> 0.
(** transpose of a matrix given as a list of rows (as many columns as the first row) *)
Definition mtr (m : list (list R)) : list (list R) :=
  map (fun j => map (fun row => List.nth j row 0) m) (seq 0 (match m with [] => 0%nat | r :: _ => length r end)).
Definition I2 : list (list R) := [[1; 0]; [0; 1]].
Definition I3 : list (list R) := [[1; 0; 0]; [0; 1; 0]; [0; 0; 1]].
Definition ent (m : list (list R)) (i j : nat) : R := List.nth j (List.nth i m []) 0.
Definition det2 (m : list (list R)) : R := ent m 0 0 * ent m 1 1 - ent m 0 1 * ent m 1 0.
Definition det3 (m : list (list R)) : R :=
  ent m 0 0 * (ent m 1 1 * ent m 2 2 - ent m 1 2 * ent m 2 1)
  - ent m 0 1 * (ent m 1 0 * ent m 2 2 - ent m 1 2 * ent m 2 0)
  + ent m 0 2 * (ent m 1 0 * ent m 2 1 - ent m 1 1 * ent m 2 0).
(** (e1, e2, e3) is a right-handed orthonormal frame *)
Definition right_handed_frame (e1 e2 e3 : list R) : Prop :=
  length e1 = 3%nat /\ length e2 = 3%nat /\ length e3 = 3%nat /\
  dot3 e1 e1 = 1 /\ dot3 e2 e2 = 1 /\ dot3 e3 e3 = 1 /\
  dot3 e1 e2 = 0 /\ dot3 e1 e3 = 0 /\ dot3 e2 e3 = 0 /\ cross3 e1 e2 = e3.

(** list equality entry by entry (f_equal would also split the sums) *)
Ltac list_eq := repeat match goal with
  | |- cons _ _ = cons _ _ => apply (f_equal2 cons)
  | |- @nil _ = @nil _ => reflexivity
  | |- Ok _ = Ok _ => apply f_equal
  end.

(** ** Normalisation of a non-zero axis *)
Lemma nonzero3_pos a0 a1 a2 : nonzero3 a0 a1 a2 -> 0 < a0 * a0 + a1 * a1 + a2 * a2.
Proof. intros [H | [H | H]]; nra. Qed.

Section Unit.
Variables a0 a1 a2 : R.
Hypothesis Hnz : nonzero3 a0 a1 a2.
Let L := sqrt (0 + a0 * a0 + a1 * a1 + a2 * a2).
Lemma len_pos : 0 < L.
Proof. unfold L. apply sqrt_lt_R0. pose proof (nonzero3_pos _ _ _ Hnz). lra. Qed.
Lemma len_sq : L * L = a0 * a0 + a1 * a1 + a2 * a2.
Proof. unfold L. rewrite sqrt_sqrt. ring. pose proof (nonzero3_pos _ _ _ Hnz). lra. Qed.
Lemma unit_normalised : a0 / L * (a0 / L) + a1 / L * (a1 / L) + a2 / L * (a2 / L) = 1.
Proof. pose proof len_pos. pose proof len_sq as E. field_simplify_eq; [| lra]. nra. Qed.
End Unit.

Lemma vnormalized_nhat a0 a1 a2 : vnormalized ROps [a0; a1; a2] = nhat [a0; a1; a2].
Proof. unfold vnormalized, vnorm, nhat, dot3, cx, cy, cz. cbn. rewrite Rplus_0_l. reflexivity. Qed.

Lemma nhat_unit a0 a1 a2 : nonzero3 a0 a1 a2 -> dot3 (nhat [a0; a1; a2]) (nhat [a0; a1; a2]) = 1.
Proof.
  intros H. pose proof (unit_normalised a0 a1 a2 H) as U. unfold nhat, dot3, cx, cy, cz in *. cbn in *.
  rewrite Rplus_0_l in U. exact U.
Qed.

(** ** Rodrigues' matrix: polynomial identities modulo c^2+s^2 = 1 and n.n = 1 (nsatz) *)
Definition rodrigues (c s n1 n2 n3 : R) : list (list R) :=
  [[c + n1 * n1 * (1 - c); n1 * n2 * (1 - c) - n3 * s; n1 * n3 * (1 - c) + n2 * s];
   [n1 * n2 * (1 - c) + n3 * s; c + n2 * n2 * (1 - c); n2 * n3 * (1 - c) - n1 * s];
   [n1 * n3 * (1 - c) - n2 * s; n2 * n3 * (1 - c) + n1 * s; c + n3 * n3 * (1 - c)]].

Lemma rotation3_eq alpha a0 a1 a2 :
  rotation_matrix ROps alpha 3 [a0; a1; a2] =
  let n := nhat [a0; a1; a2] in Ok (rodrigues (cos alpha) (sin alpha) (cx n) (cy n) (cz n)).
Proof. unfold nhat, dot3, cx, cy, cz, rodrigues. cbn. rewrite !Rplus_0_l. reflexivity. Qed.

Section Rot.
Variables c s n1 n2 n3 : R.
Hypothesis cs : c * c + s * s = 1.
Hypothesis nn : n1 * n1 + n2 * n2 + n3 * n3 = 1.
Let Rm := rodrigues c s n1 n2 n3.

Lemma rod_orth_l : mmul ROps (mtr Rm) Rm = I3.
Proof. unfold Rm, rodrigues, mtr, mmul, mcol, vdot, nth0, I3. cbn. list_eq; nsatz. Qed.
Lemma rod_orth_r : mmul ROps Rm (mtr Rm) = I3.
Proof. unfold Rm, rodrigues, mtr, mmul, mcol, vdot, nth0, I3. cbn. list_eq; nsatz. Qed.
Lemma rod_det : det3 Rm = 1.
Proof. unfold Rm, rodrigues, det3, ent. cbn. nsatz. Qed.
Lemma rod_axis : mvec ROps Rm [n1; n2; n3] = [n1; n2; n3].
Proof. unfold Rm, rodrigues, mvec, vdot. cbn. list_eq; nsatz. Qed.
(** Rodrigues' formula for every v *)
Lemma rod_apply v0 v1 v2 :
  let v := [v0; v1; v2] in let n := [n1; n2; n3] in
  mvec ROps Rm v = vplus (vplus (vscal c v) (vscal s (cross3 n v))) (vscal ((1 - c) * dot3 n v) n).
Proof. unfold Rm, rodrigues, mvec, vdot, vplus, vscal, cross3, dot3, cx, cy, cz. cbn. list_eq; ring. Qed.
Lemma rod_perp v0 v1 v2 :
  let v := [v0; v1; v2] in let n := [n1; n2; n3] in
  dot3 n v = 0 -> mvec ROps Rm v = vplus (vscal c v) (vscal s (cross3 n v)).
Proof.
  intros v n H. unfold v, n. rewrite rod_apply. fold v n. rewrite H.
  unfold v, n, vplus, vscal, cross3, cx, cy, cz. cbn. list_eq; ring.
Qed.
End Rot.

Lemma rod_compose c s c' s' n1 n2 n3 :
  n1 * n1 + n2 * n2 + n3 * n3 = 1 ->
  mmul ROps (rodrigues c s n1 n2 n3) (rodrigues c' s' n1 n2 n3) = rodrigues (c * c' - s * s') (s * c' + c * s') n1 n2 n3.
Proof. intros nn. unfold rodrigues, mmul, mcol, vdot, nth0. cbn. list_eq; nsatz. Qed.

Lemma cs1 a : cos a * cos a + sin a * sin a = 1.
Proof. pose proof (sin2_cos2 a) as H. unfold Rsqr in H. lra. Qed.

(** ** 2-D rotation *)
Lemma rot2_eq alpha axis :
  rotation_matrix ROps alpha 2 axis = Ok [[cos alpha; - sin alpha]; [sin alpha; cos alpha]].
Proof. reflexivity. Qed.

Lemma rot2_spec alpha axis :
  exists Rm, rotation_matrix ROps alpha 2 axis = Ok Rm /\
    Rm = [[cos alpha; - sin alpha]; [sin alpha; cos alpha]] /\
    mmul ROps (mtr Rm) Rm = I2 /\ mmul ROps Rm (mtr Rm) = I2 /\ det2 Rm = 1.
Proof.
  eexists. split; [apply rot2_eq|]. split; [reflexivity|]. pose proof (cs1 alpha).
  unfold mtr, mmul, mcol, vdot, nth0, I2, det2, ent. cbn. repeat split; list_eq; nra.
Qed.

Lemma rot2_compose alpha beta ax1 ax2 ax3 Ra Rb Rab :
  rotation_matrix ROps alpha 2 ax1 = Ok Ra -> rotation_matrix ROps beta 2 ax2 = Ok Rb ->
  rotation_matrix ROps (alpha + beta) 2 ax3 = Ok Rab -> mmul ROps Ra Rb = Rab.
Proof.
  rewrite !rot2_eq. intros [= <-] [= <-] [= <-]. unfold mmul, mcol, vdot, nth0. cbn.
  rewrite cos_plus, sin_plus. list_eq; ring.
Qed.

(** a 2-D rotation turns the vector (v0, v1) counter-clockwise by alpha *)
Lemma rot2_apply alpha axis Rm v0 v1 :
  rotation_matrix ROps alpha 2 axis = Ok Rm ->
  mvec ROps Rm [v0; v1] = [cos alpha * v0 - sin alpha * v1; sin alpha * v0 + cos alpha * v1].
Proof. rewrite rot2_eq. intros [= <-]. unfold mvec, vdot. cbn. list_eq; ring. Qed.

(** ** 3-D rotation, for every non-zero axis of any length *)
Section Rot3.
Variables alpha a0 a1 a2 : R.
Hypothesis Hnz : nonzero3 a0 a1 a2.
Let axis := [a0; a1; a2].
Let n := nhat axis.

Lemma n_list : n = [cx n; cy n; cz n].
Proof. reflexivity. Qed.
Lemma n_unit : cx n * cx n + cy n * cy n + cz n * cz n = 1.
Proof. exact (nhat_unit a0 a1 a2 Hnz). Qed.

Lemma rot3_returns : exists Rm, rotation_matrix ROps alpha 3 axis = Ok Rm.
Proof. eexists. apply rotation3_eq. Qed.

Lemma rot3_orthogonal Rm : rotation_matrix ROps alpha 3 axis = Ok Rm ->
  mmul ROps (mtr Rm) Rm = I3 /\ mmul ROps Rm (mtr Rm) = I3.
Proof.
  unfold axis. rewrite rotation3_eq. intros [= <-]. split.
  - apply rod_orth_l; [apply cs1 | apply n_unit].
  - apply rod_orth_r; [apply cs1 | apply n_unit].
Qed.
Lemma rot3_det Rm : rotation_matrix ROps alpha 3 axis = Ok Rm -> det3 Rm = 1.
Proof. unfold axis. rewrite rotation3_eq. intros [= <-]. apply rod_det; [apply cs1 | apply n_unit]. Qed.
Lemma rot3_axis_fixed Rm : rotation_matrix ROps alpha 3 axis = Ok Rm -> mvec ROps Rm n = n.
Proof.
  unfold axis. rewrite rotation3_eq. intros [= <-].
  change (mvec ROps (rodrigues (cos alpha) (sin alpha) (cx n) (cy n) (cz n)) [cx n; cy n; cz n] = [cx n; cy n; cz n]).
  apply rod_axis; [apply cs1 | apply n_unit].
Qed.
(** the axis itself (any length) is fixed as well *)
Lemma rot3_axis_itself_fixed Rm : rotation_matrix ROps alpha 3 axis = Ok Rm -> mvec ROps Rm axis = axis.
Proof.
  intros H. pose proof (rot3_axis_fixed Rm H) as F. revert F.
  unfold axis in H. rewrite rotation3_eq in H. injection H as <-.
  pose proof (len_pos a0 a1 a2 Hnz) as LP.
  unfold n, axis, nhat, dot3, cx, cy, cz, rodrigues, mvec, vdot. cbn. rewrite !Rplus_0_l in *.
  set (L := sqrt (a0 * a0 + a1 * a1 + a2 * a2)) in *.
  assert (forall x y z w, x * (a0 / L) + y * (a1 / L) + z * (a2 / L) = w / L -> x * a0 + y * a1 + z * a2 = w) as G.
  { intros x y z w H. replace (x * a0 + y * a1 + z * a2) with (L * (x * (a0 / L) + y * (a1 / L) + z * (a2 / L))) by (field; lra).
    rewrite H. field; lra. }
  intros [= E0 E1 E2]. list_eq; apply G; assumption.
Qed.
Lemma rot3_rodrigues Rm v0 v1 v2 : rotation_matrix ROps alpha 3 axis = Ok Rm ->
  let v := [v0; v1; v2] in
  mvec ROps Rm v = vplus (vplus (vscal (cos alpha) v) (vscal (sin alpha) (cross3 n v))) (vscal ((1 - cos alpha) * dot3 n v) n).
Proof. unfold axis. rewrite rotation3_eq. intros [= <-]. rewrite n_list. apply rod_apply. Qed.
Lemma dot_axis_n v : dot3 axis v = 0 -> dot3 n v = 0.
Proof.
  pose proof (len_pos a0 a1 a2 Hnz) as LP. rewrite Rplus_0_l in LP.
  unfold n, axis, nhat, dot3, cx, cy, cz. cbn. set (L := sqrt _) in *. intros H.
  replace (a0 / L * List.nth 0 v 0 + a1 / L * List.nth 1 v 0 + a2 / L * List.nth 2 v 0)
    with ((a0 * List.nth 0 v 0 + a1 * List.nth 1 v 0 + a2 * List.nth 2 v 0) / L) by (field; lra).
  rewrite H. unfold Rdiv. ring.
Qed.
Lemma rot3_perpendicular Rm v0 v1 v2 : rotation_matrix ROps alpha 3 axis = Ok Rm ->
  let v := [v0; v1; v2] in dot3 axis v = 0 ->
  mvec ROps Rm v = vplus (vscal (cos alpha) v) (vscal (sin alpha) (cross3 n v)).
Proof.
  intros H v Hp. apply dot_axis_n in Hp. unfold axis in H. rewrite rotation3_eq in H. injection H as <-.
  rewrite n_list. rewrite n_list in Hp. apply rod_perp. exact Hp.
Qed.
End Rot3.

Lemma rot3_compose alpha beta a0 a1 a2 Ra Rb Rab : nonzero3 a0 a1 a2 ->
  rotation_matrix ROps alpha 3 [a0; a1; a2] = Ok Ra -> rotation_matrix ROps beta 3 [a0; a1; a2] = Ok Rb ->
  rotation_matrix ROps (alpha + beta) 3 [a0; a1; a2] = Ok Rab -> mmul ROps Ra Rb = Rab.
Proof.
  intros Hnz. rewrite !rotation3_eq. intros [= <-] [= <-] [= <-]. cbv zeta.
  rewrite rod_compose by (apply (nhat_unit a0 a1 a2 Hnz)). rewrite cos_plus, sin_plus. reflexivity.
Qed.

(** ** Spherical coordinates *)
Lemma spherical_plain r theta phi :
  spherical ROps r theta phi = [r * sin theta * cos phi; r * sin theta * sin phi; r * cos theta].
Proof. reflexivity. Qed.

(** the frame used by the general branch, as a function of the unit vector ev and aux = sqrt(ev0^2+ev1^2) *)
Definition frame1 (ev : list R) : list R :=
  let aux := sqrt (cx ev * cx ev + cy ev * cy ev) in [cx ev * cz ev / aux; cy ev * cz ev / aux; - aux].
Definition frame2 (ev : list R) : list R :=
  let aux := sqrt (cx ev * cx ev + cy ev * cy ev) in [- cy ev / aux; cx ev / aux; 0].
(** r (s cos(phi) e1 + s sin(phi) e2 + c ev) *)
Definition in_frame (r s c phi : R) (e1 e2 ev : list R) : list R :=
  vplus (vplus (vscal (r * s * cos phi) e1) (vscal (r * s * sin phi) e2)) (vscal (r * c) ev).

(** std::hypot, by its specification *)
Definition Rhypot (x y : R) : R := sqrt (x * x + y * y).

Lemma spherical_axis_eq r t p a0 a1 a2 :
  let ev := nhat [a0; a1; a2] in
  let aux := sqrt (cx ev * cx ev + cy ev * cy ev) in
  spherical_axis ROps Rhypot r t p [a0; a1; a2] =
  if Reqb (sqrt (dot3 [a0; a1; a2] [a0; a1; a2])) 0 || (Reqb aux 0 && Rltb 0 (cz ev)) then Ok (spherical ROps r t p)
  else if Reqb aux 0 then Ok (spherical_antiparallel ROps r t p)
  else Ok (spherical_general ROps r t p (cx ev) (cy ev) (cz ev) aux).
Proof. unfold nhat, dot3, cx, cy, cz, Rhypot. cbn. rewrite !Rplus_0_l. reflexivity. Qed.

Section Frame.
Variables e0 e1 e2 A : R.
Hypothesis unit : e0 * e0 + e1 * e1 + e2 * e2 = 1.
Hypothesis HA : A * A = e0 * e0 + e1 * e1.
Hypothesis HA0 : A <> 0.
Lemma frame_general :
  right_handed_frame [e0 * e2 / A; e1 * e2 / A; - A] [- e1 / A; e0 / A; 0] [e0; e1; e2].
Proof.
  unfold right_handed_frame, dot3, cross3, cx, cy, cz. cbn.
  assert (exists iA, A * iA = 1) as [iA HiA] by (exists (/ A); field; exact HA0).
  assert (forall x, x / A = x * iA) as D.
  { intro x. unfold Rdiv. f_equal. apply (Rmult_eq_reg_l A); [| exact HA0]. rewrite HiA. field. exact HA0. }
  rewrite !D. repeat split; try reflexivity; try nsatz.
  list_eq; nsatz.
Qed.
End Frame.

Lemma general_in_frame r t p e0 e1 e2 A : A <> 0 ->
  spherical_general ROps r t p e0 e1 e2 A =
  in_frame r (sin t) (cos t) p [e0 * e2 / A; e1 * e2 / A; - A] [- e1 / A; e0 / A; 0] [e0; e1; e2].
Proof.
  intros NZ. unfold spherical_general, vscale_left, in_frame, vplus, vscal. cbn. list_eq; field; exact NZ.
Qed.

(** The guard theorem: every non-zero axis reaches exactly one branch, and that branch's formula is well defined
    (ev = +z, ev = -z, or aux <> 0). *)
Lemma spherical_axis_guard r t p a0 a1 a2 : nonzero3 a0 a1 a2 ->
  let ev := nhat [a0; a1; a2] in
  let aux := sqrt (cx ev * cx ev + cy ev * cy ev) in
  (ev = [0; 0; 1] /\ spherical_axis ROps Rhypot r t p [a0; a1; a2] = Ok (spherical ROps r t p)) \/
  (ev = [0; 0; -1] /\ spherical_axis ROps Rhypot r t p [a0; a1; a2] = Ok (spherical_antiparallel ROps r t p)) \/
  (aux <> 0 /\ aux * aux = cx ev * cx ev + cy ev * cy ev /\
   spherical_axis ROps Rhypot r t p [a0; a1; a2] = Ok (spherical_general ROps r t p (cx ev) (cy ev) (cz ev) aux)).
Proof.
  intros Hnz ev aux. rewrite spherical_axis_eq. fold ev aux.
  pose proof (len_pos a0 a1 a2 Hnz) as LP. rewrite Rplus_0_l in LP.
  assert (Reqb (sqrt (dot3 [a0; a1; a2] [a0; a1; a2])) 0 = false) as ->.
  { apply Reqb_false. unfold dot3, cx, cy, cz. cbn. lra. }
  pose proof (nhat_unit a0 a1 a2 Hnz) as U. fold ev in U. unfold dot3 in U.
  assert (ev = [cx ev; cy ev; cz ev]) as Eev by reflexivity.
  cbn [orb]. destruct (Reqb_spec aux 0) as [Z | NZ].
  - assert (cx ev * cx ev + cy ev * cy ev = 0) as S0.
    { apply sqrt_eq_0; [nra | exact Z]. }
    assert (cx ev = 0) as Z0 by nra. assert (cy ev = 0) as Z1 by nra.
    cbn [andb]. destruct (Rltb_spec 0 (cz ev)) as [P | NP].
    + left. split; [| reflexivity]. rewrite Eev, Z0, Z1. list_eq; nra.
    + right. left. split; [| reflexivity]. rewrite Eev, Z0, Z1. list_eq; nra.
  - right. right. cbn [andb]. split; [exact NZ|]. split; [| reflexivity].
    unfold aux. rewrite sqrt_sqrt; [reflexivity | nra].
Qed.

(** The frame theorem: in a right-handed orthonormal frame (e1, e2, ev) that depends on the axis only, the result is
    r (sin(theta) cos(phi) e1 + sin(theta) sin(phi) e2 + cos(theta) ev), for all r, theta, phi. *)
Lemma spherical_axis_frame a0 a1 a2 : nonzero3 a0 a1 a2 ->
  let ev := nhat [a0; a1; a2] in
  exists e1 e2, right_handed_frame e1 e2 ev /\
    forall r t p, exists u, spherical_axis ROps Rhypot r t p [a0; a1; a2] = Ok u /\
      u = in_frame r (sin t) (cos t) p e1 e2 ev.
Proof.
  intros Hnz ev.
  pose proof (nhat_unit a0 a1 a2 Hnz) as U. fold ev in U. unfold dot3 in U.
  assert (ev = [cx ev; cy ev; cz ev]) as Eev by reflexivity.
  assert (sqrt (0 * 0 + 0 * 0) = 0) as S00 by (replace (0 * 0 + 0 * 0) with 0 by ring; apply sqrt_0).
  destruct (spherical_axis_guard 0 0 0 a0 a1 a2 Hnz) as [[E _] | [[E _] | [NZ [SQ _]]]]; fold ev in E || fold ev in NZ, SQ.
  - exists [1; 0; 0], [0; 1; 0]. split.
    { rewrite E. unfold right_handed_frame, dot3, cross3, cx, cy, cz. cbn. repeat split; try ring. list_eq; ring. }
    intros r t p. destruct (spherical_axis_guard r t p a0 a1 a2 Hnz) as [[_ H] | [[E' _] | [NZ' _]]].
    + exists (spherical ROps r t p). split; [exact H|].
      rewrite E. unfold spherical, spherical_antiparallel, in_frame, vplus, vscal. cbn. list_eq; ring.
    + exfalso. fold ev in E'. rewrite E in E'. injection E' as E'. lra.
    + exfalso. fold ev in NZ'. rewrite E in NZ'. unfold cx, cy in NZ'. cbn in NZ'. apply NZ'. exact S00.
  - exists [1; 0; 0], [0; -1; 0]. split.
    { rewrite E. unfold right_handed_frame, dot3, cross3, cx, cy, cz. cbn. repeat split; try ring. list_eq; ring. }
    intros r t p. destruct (spherical_axis_guard r t p a0 a1 a2 Hnz) as [[E' _] | [[_ H] | [NZ' _]]].
    + exfalso. fold ev in E'. rewrite E in E'. injection E' as E'. lra.
    + exists (spherical_antiparallel ROps r t p). split; [exact H|].
      rewrite E. unfold spherical, spherical_antiparallel, in_frame, vplus, vscal. cbn. list_eq; ring.
    + exfalso. fold ev in NZ'. rewrite E in NZ'. unfold cx, cy in NZ'. cbn in NZ'. apply NZ'. exact S00.
  - exists (frame1 ev), (frame2 ev). split.
    { unfold frame1, frame2. rewrite Eev at 3. apply frame_general; [exact U | exact SQ | exact NZ]. }
    intros r t p. destruct (spherical_axis_guard r t p a0 a1 a2 Hnz) as [[E' _] | [[E' _] | [_ [_ H]]]].
    + exfalso. fold ev in E'. apply NZ. rewrite E'. unfold cx, cy. cbn. exact S00.
    + exfalso. fold ev in E'. apply NZ. rewrite E'. unfold cx, cy. cbn. exact S00.
    + fold ev in H. eexists. split; [exact H|].
      exact (general_in_frame r t p (cx ev) (cy ev) (cz ev) _ NZ).
Qed.

(** ** Consequences of the frame form: norm, polar angle, handedness *)
Section InFrame.
Variables x1 y1 z1 x2 y2 z2 x3 y3 z3 : R.
Let e1 := [x1; y1; z1].
Let e2 := [x2; y2; z2].
Let e3 := [x3; y3; z3].
Hypothesis F : right_handed_frame e1 e2 e3.
Variables r s c cp sp : R.
Hypothesis Hp : cp * cp + sp * sp = 1.
(** u and its derivative with respect to phi, with cos(phi), sin(phi) abstracted *)
Let u := vplus (vplus (vscal (r * s * cp) e1) (vscal (r * s * sp) e2)) (vscal (r * c) e3).
Let du := vplus (vscal (r * s * - sp) e1) (vscal (r * s * cp) e2).

Lemma frame_facts :
  x1 * x1 + y1 * y1 + z1 * z1 = 1 /\ x2 * x2 + y2 * y2 + z2 * z2 = 1 /\ x3 * x3 + y3 * y3 + z3 * z3 = 1 /\
  x1 * x2 + y1 * y2 + z1 * z2 = 0 /\ x1 * x3 + y1 * y3 + z1 * z3 = 0 /\ x2 * x3 + y2 * y3 + z2 * z3 = 0 /\
  y1 * z2 - z1 * y2 = x3 /\ z1 * x2 - x1 * z2 = y3 /\ x1 * y2 - y1 * x2 = z3.
Proof.
  destruct F as (_ & _ & _ & A1 & A2 & A3 & B1 & B2 & B3 & C).
  unfold e1, e2, e3, dot3, cross3, cx, cy, cz in *. cbn in *. injection C as C1 C2 C3. repeat split; assumption.
Qed.
Lemma in_frame_norm : dot3 u u = r * r * (s * s + c * c).
Proof.
  destruct frame_facts as (A1 & A2 & A3 & B1 & B2 & B3 & _).
  unfold u, e1, e2, e3, dot3, vplus, vscal, cx, cy, cz. cbn. nsatz.
Qed.
Lemma in_frame_polar : dot3 u e3 = r * c.
Proof.
  destruct frame_facts as (A1 & A2 & A3 & B1 & B2 & B3 & _).
  unfold u, e1, e2, e3, dot3, vplus, vscal, cx, cy, cz. cbn. nsatz.
Qed.
Lemma in_frame_right_handed : dot3 (cross3 e3 u) du = r * r * (s * s).
Proof.
  destruct frame_facts as (A1 & A2 & A3 & B1 & B2 & B3 & C1 & C2 & C3).
  unfold u, du, e1, e2, e3, dot3, cross3, vplus, vscal, cx, cy, cz. cbn. subst x3 y3 z3. nsatz.
Qed.
End InFrame.

Lemma list3 (l : list R) : length l = 3%nat -> exists x y z, l = [x; y; z].
Proof. destruct l as [| x [| y [| z [| w l]]]]; cbn; intros H; try discriminate. exists x, y, z. reflexivity. Qed.

Lemma vdot_dot3 a b c a' b' c' : vdot ROps [a; b; c] [a'; b'; c'] = dot3 [a; b; c] [a'; b'; c'].
Proof. unfold vdot, dot3, cx, cy, cz. cbn. ring. Qed.

Section SphericalAxis.
Variables a0 a1 a2 : R.
Hypothesis Hnz : nonzero3 a0 a1 a2.
Let axis := [a0; a1; a2].
Let ev := nhat axis.

(** the result always exists (the call returns) *)
Lemma spherical_axis_returns r t p : exists u, spherical_axis ROps Rhypot r t p axis = Ok u /\ length u = 3%nat.
Proof.
  destruct (spherical_axis_guard r t p a0 a1 a2 Hnz) as [[_ H] | [[_ H] | [_ [_ H]]]]; eexists; (split; [exact H | reflexivity]).
Qed.

Lemma spherical_axis_norm r t p u : spherical_axis ROps Rhypot r t p axis = Ok u ->
  dot3 u u = r * r /\ (0 <= r -> vnorm ROps u = r).
Proof.
  intros H. destruct (spherical_axis_frame a0 a1 a2 Hnz) as (e1 & e2 & F & HU).
  destruct (HU r t p) as (u' & H' & E). unfold axis in H. rewrite H in H'. injection H' as <-. subst u. clear H.
  pose proof F as (L1 & L2 & L3 & _).
  destruct (list3 _ L1) as (x1 & y1 & z1 & E1), (list3 _ L2) as (x2 & y2 & z2 & E2), (list3 _ L3) as (x3 & y3 & z3 & E3).
  rewrite E1, E2, E3 in *. unfold in_frame.
  pose proof (in_frame_norm _ _ _ _ _ _ _ _ _ F r (sin t) (cos t) (cos p) (sin p) (cs1 p)) as N.
  assert (dot3 (vplus (vplus (vscal (r * sin t * cos p) [x1; y1; z1]) (vscal (r * sin t * sin p) [x2; y2; z2])) (vscal (r * cos t) [x3; y3; z3]))
               (vplus (vplus (vscal (r * sin t * cos p) [x1; y1; z1]) (vscal (r * sin t * sin p) [x2; y2; z2])) (vscal (r * cos t) [x3; y3; z3])) = r * r) as N'.
  { rewrite N. pose proof (cs1 t). nra. }
  split; [exact N'|]. intros Hr. unfold vnorm.
  unfold vplus, vscal in *. cbn [map combine fst snd] in *.
  rewrite vdot_dot3, N'. replace (r * r) with (Rsqr r) by reflexivity. apply sqrt_Rsqr; exact Hr.
Qed.

(** polar angle: the component along the normalised axis is r cos(theta) *)
Lemma spherical_axis_polar r t p u : spherical_axis ROps Rhypot r t p axis = Ok u -> dot3 u ev = r * cos t.
Proof.
  intros H. destruct (spherical_axis_frame a0 a1 a2 Hnz) as (e1 & e2 & F & HU).
  destruct (HU r t p) as (u' & H' & E). unfold axis in H. rewrite H in H'. injection H' as <-. subst u. clear H.
  pose proof F as (L1 & L2 & L3 & _).
  destruct (list3 _ L1) as (x1 & y1 & z1 & E1), (list3 _ L2) as (x2 & y2 & z2 & E2), (list3 _ L3) as (x3 & y3 & z3 & E3).
  unfold ev, axis. rewrite E1, E2, E3 in *. unfold in_frame.
  exact (in_frame_polar _ _ _ _ _ _ _ _ _ F r (sin t) (cos t) (cos p) (sin p) (cs1 p)).
Qed.

(** handedness: component i of the result as a function of phi *)
Definition sph_comp (r t : R) (i : nat) (p : R) : R :=
  match spherical_axis ROps Rhypot r t p axis with Ok u => List.nth i u 0 | _ => 0 end.

Lemma spherical_axis_right_handed r t p u : spherical_axis ROps Rhypot r t p axis = Ok u ->
  exists d0 d1 d2, is_derive (sph_comp r t 0) p d0 /\ is_derive (sph_comp r t 1) p d1 /\ is_derive (sph_comp r t 2) p d2 /\
    dot3 (cross3 ev u) [d0; d1; d2] = r * r * (sin t * sin t).
Proof.
  intros H. destruct (spherical_axis_frame a0 a1 a2 Hnz) as (e1 & e2 & F & HU).
  pose proof F as (L1 & L2 & L3 & _).
  destruct (list3 _ L1) as (x1 & y1 & z1 & E1), (list3 _ L2) as (x2 & y2 & z2 & E2), (list3 _ L3) as (x3 & y3 & z3 & E3).
  unfold ev, axis in *. rewrite E1, E2, E3 in *.
  assert (forall i q, sph_comp r t i q =
            List.nth i (in_frame r (sin t) (cos t) q [x1; y1; z1] [x2; y2; z2] [x3; y3; z3]) 0) as SC.
  { intros i q. unfold sph_comp, axis. destruct (HU r t q) as (u' & -> & ->). reflexivity. }
  destruct (HU r t p) as (u' & H' & E). rewrite H in H'. injection H' as <-. subst u. clear H.
  set (s := sin t). set (c := cos t).
  exists (r * s * - sin p * x1 + r * s * cos p * x2), (r * s * - sin p * y1 + r * s * cos p * y2),
         (r * s * - sin p * z1 + r * s * cos p * z2).
  split; [| split; [| split]].
  - apply (is_derive_ext (fun q => r * s * cos q * x1 + r * s * sin q * x2 + r * c * x3)).
    { intro q. rewrite SC. reflexivity. } auto_derive; [exact I | ring].
  - apply (is_derive_ext (fun q => r * s * cos q * y1 + r * s * sin q * y2 + r * c * y3)).
    { intro q. rewrite SC. reflexivity. } auto_derive; [exact I | ring].
  - apply (is_derive_ext (fun q => r * s * cos q * z1 + r * s * sin q * z2 + r * c * z3)).
    { intro q. rewrite SC. reflexivity. } auto_derive; [exact I | ring].
  - exact (in_frame_right_handed _ _ _ _ _ _ _ _ _ F r s c (cos p) (sin p) (cs1 p)).
Qed.
End SphericalAxis.

(** ** Non-vacuity: concrete inputs satisfying the hypotheses, one per branch *)
Example ex_nonzero : nonzero3 1 2 2.
Proof. left. lra. Qed.
Example ex_perpendicular : nonzero3 0 0 1 /\ dot3 [0; 0; 1] [1; 0; 0] = 0.
Proof. split; [right; right; lra | unfold dot3, cx, cy, cz; cbn; ring]. Qed.
Lemma sqrt_sq_pos x : 0 <= x -> sqrt (x * x) = x.
Proof. intros. apply sqrt_square; assumption. Qed.
Example ex_branch_plain : nonzero3 0 0 2 /\ nhat [0; 0; 2] = [0; 0; 1].
Proof.
  split; [right; right; lra|]. unfold nhat, dot3, cx, cy, cz. cbn.
  replace (0 * 0 + 0 * 0 + 2 * 2) with (2 * 2) by ring. rewrite sqrt_sq_pos by lra. list_eq; field.
Qed.
Example ex_branch_antiparallel : nonzero3 0 0 (-3) /\ nhat [0; 0; -3] = [0; 0; -1].
Proof.
  split; [right; right; lra|]. unfold nhat, dot3, cx, cy, cz. cbn.
  replace (0 * 0 + 0 * 0 + -3 * -3) with (3 * 3) by ring. rewrite sqrt_sq_pos by lra. list_eq; field.
Qed.
Example ex_branch_general : nonzero3 3 0 4 /\ Rhypot (cx (nhat [3; 0; 4])) (cy (nhat [3; 0; 4])) <> 0.
Proof.
  split; [left; lra|]. unfold Rhypot, nhat, dot3, cx, cy, cz. cbn.
  replace (3 * 3 + 0 * 0 + 4 * 4) with (5 * 5) by ring. rewrite sqrt_sq_pos by lra.
  replace (3 / 5 * (3 / 5) + 0 / 5 * (0 / 5)) with (3 / 5 * (3 / 5)) by field. rewrite sqrt_sq_pos by lra. lra.
Qed.
