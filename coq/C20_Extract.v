From Coq Require Import Extraction ExtrOcamlBasic ZArith List.
From LP Require Import Num C20_Model C20_Model2 Gen_C20_Units.
Extraction Language OCaml.
Extraction "C20_m.ml" round_m in_units in_units_list in_units_vector in_units_table in_units_matrix
  in_units_table_dims reduced_mass export_list export_table import_list import_table count_lines
  roundtrip_list roundtrip_table roundtrip_function_list roundtrip_function_range io_step io_run
  lit_me evalN fold_const startup_const defs Z.of_nat Z.to_nat.
