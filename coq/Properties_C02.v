(** C02 — property theorems only.  Each is closed by [exact] of a lemma proved in C02_Proofs.v.
    [find_root Ops f a b acc] is the model of Find_Root(func,xLeft,xRight,xAccuracy) (coq/C02_Model.v): it returns
    the outcome ([Ok x] = the number returned, [Exit] = std::exit after a diagnostic) and the list of abscissae at
    which func was called, in call order.  [find_root_h] additionally tags how a number was reached.
    [ROps] is the real-number instance; f is an ARBITRARY function R -> R unless continuity is stated. *)
From Coq Require Import Reals ZArith List Bool.
From LP Require Import Num NumR OrdLaws C02_Model C02_Proofs C02_Proofs2 C02_Proofs3 C02_Proofs4 C02_Proofs5 C02_Proofs6
  Gen_C02_Formulas C02_GenTie.
Import ListNotations.
Local Open Scope R_scope.

(** "whichever order the ends are given in": result and evaluation trace are the same. *)
Theorem C02_order_irrelevant (f : R -> R) (a b acc : R) : find_root ROps f a b acc = find_root ROps f b a acc.
Proof. exact (order_irrelevant f a b acc). Qed.
Print Assumptions C02_order_irrelevant.

(** The loop invariant (state x1,x2,f1,f2,result of Numerics.cpp).
    [Inv f s]: f1 = f x1, f2 = f x2, f1*f2 < 0.  [mid s] = (x1+x2)/2, [ridder f s] = Ridder's point x4.
    (x4 is clamped into [min(x1,x2),max(x1,x2)] by the code; in exact arithmetic the clamp is the identity, which
    is part of what this theorem establishes: the point evaluated is [ridder f s] itself.)
    [blo s], [bhi s] = min / max of {x1,x2}; [width s] = |x2-x1|.
    [Next f s s']: Inv f s', result' = x4, x4 is an end of the new bracket, blo s <= blo s', bhi s' <= bhi s,
    width s' <= width s / 2.
    One pass of the loop body from a state satisfying the invariant: evaluates f exactly at the midpoint and at
    Ridder's point, both inside the closed current bracket; then either f(x4) = 0 and x4 is returned, or the
    bracket is replaced by one satisfying [Next] and x4 is returned iff the new width is < acc.  No other
    outcome: in particular the "does not reach the root" exit cannot happen. *)
Theorem C02_bracket_invariant (f : R -> R) (acc : R) (s : st) : Inv f s ->
  snd (step ROps f acc s) = [mid s; ridder f s] /\
  blo s <= mid s <= bhi s /\ blo s <= ridder f s <= bhi s /\
  ( (fst (step ROps f acc s) = inl (Ok (ridder f s, HF4Zero)) /\ f (ridder f s) = 0)
    \/ f (ridder f s) <> 0 /\ exists s', Next f s s' /\
         ( (fst (step ROps f acc s) = inl (Ok (ridder f s, HBracket)) /\ width s' < acc)
           \/ (fst (step ROps f acc s) = inr s' /\ acc <= width s') ) ).
Proof. exact (step_spec f acc s). Qed.
Print Assumptions C02_bracket_invariant.

(** ... and the loop is entered with the invariant whenever the end values have opposite signs. *)
Theorem C02_initial_bracket (f : R -> R) (lo hi r0 : R) : f lo * f hi < 0 -> Inv f (mkst lo hi (f lo) (f hi) r0).
Proof. exact (initial_inv f lo hi r0). Qed.
Print Assumptions C02_initial_bracket.

(** "it never evaluates the function outside the bracket": every abscissa of the trace, whatever the outcome. *)
Theorem C02_evaluations_inside (f : R -> R) (a b acc : R) :
  List.Forall (fun x => Rmin a b <= x <= Rmax a b) (snd (find_root ROps f a b acc)).
Proof. exact (evaluations_inside f a b acc). Qed.
Print Assumptions C02_evaluations_inside.

(** "For every function whose values at the two bracket ends have opposite signs, Find_Root returns a point
    inside the bracket" (a number, never an exit). *)
Theorem C02_sign_change_returns (f : R -> R) (a b acc : R) : f (Rmin a b) * f (Rmax a b) < 0 ->
  exists r, fst (find_root ROps f a b acc) = Ok r /\ Rmin a b <= r <= Rmax a b.
Proof. exact (sign_change_returns f a b acc). Qed.
Print Assumptions C02_sign_change_returns.

(** ACCURACY, full strength, for an arbitrary f: every number returned is an exact zero of f, or an end of a
    sub-bracket [x1,x2] of the given bracket with f x1 * f x2 < 0 whose width is < acc — or, only when the
    iteration limit ([max_iterations] = Z.to_nat 2200, the literal Max_Iterations) was hit, <= 2^-2200 of the
    original width (which no bracket of doubles can reach without having met x2 - x1 < acc first, for acc > 0). *)
Theorem C02_accuracy (f : R -> R) (a b acc r : R) : fst (find_root ROps f a b acc) = Ok r ->
  f r = 0 \/
  exists x1 x2, Rmin a b <= x1 /\ x1 < x2 /\ x2 <= Rmax a b /\ f x1 * f x2 < 0 /\ (r = x1 \/ r = x2) /\
                (x2 - x1 < acc \/ x2 - x1 <= (Rmax a b - Rmin a b) / 2 ^ max_iterations).
Proof. exact (accuracy f a b acc r). Qed.
Print Assumptions C02_accuracy.

(** The same with the way the number was reached made explicit ([post], C02_Proofs.v): HEndZero = a bracket end
    that is a zero; HF4Zero = f(x4) == 0; HBracket = bracket narrower than acc; HMaxIter = all iterations done,
    bracket <= 2^-max_iterations of the original ("max_iter_width"); Exit only when the end values have equal strict signs. *)
Theorem C02_outcomes (f : R -> R) (a b acc : R) :
  List.Forall (fun x => Rmin a b <= x <= Rmax a b) (snd (find_root_h ROps f a b acc)) /\
  post f a b acc (fst (find_root_h ROps f a b acc)).
Proof. exact (find_root_h_spec f a b acc). Qed.
Print Assumptions C02_outcomes.

(** "max_iter_width", for every iteration budget n: from a state satisfying the invariant with bracket inside
    [lo,hi] and width <= W, the loop with fuel n evaluates only inside [lo,hi] and returns an exact zero, or an end
    of a sign-change bracket narrower than acc, or (fuel exhausted) an end of a sign-change bracket of width
    <= W / 2^n — every iteration at least halves the bracket.  ([loop_post] in C02_Proofs.v.) *)
Theorem C02_loop_halves (f : R -> R) (acc lo hi : R) (n : nat) (s : st) (W : R) :
  Inv f s -> lo <= blo s -> bhi s <= hi -> width s <= W ->
  (n = 0%nat -> sres s = sx1 s \/ sres s = sx2 s) ->
  List.Forall (fun x => lo <= x <= hi) (snd (loop ROps f acc n s)) /\
  loop_post f acc lo hi W n (fst (loop ROps f acc n s)).
Proof. exact (loop_spec f acc lo hi n s W). Qed.
Print Assumptions C02_loop_halves.

(** "returns a point such that the function changes sign (or vanishes) within the requested accuracy of that
    point", for continuous f, by the intermediate value theorem: a zero z of f in the bracket with z = r, or
    |z - r| < acc, or (iteration-limit return) |z - r| <= 2^-2200 * (original width). *)
Theorem C02_accuracy_continuous (f : R -> R) (a b acc r : R) : continuity f ->
  fst (find_root ROps f a b acc) = Ok r ->
  exists z, Rmin a b <= z <= Rmax a b /\ f z = 0 /\
            (z = r \/ Rabs (z - r) < acc \/ Rabs (z - r) <= (Rmax a b - Rmin a b) / 2 ^ max_iterations).
Proof. exact (accuracy_continuous f a b acc r). Qed.
Print Assumptions C02_accuracy_continuous.

(** "A bracket end that is itself a zero is returned as is" (after evaluating only the two ends). *)
Theorem C02_end_zero_returned (f : R -> R) (a b acc : R) :
  (f (Rmin a b) = 0 -> find_root ROps f a b acc = (Ok (Rmin a b), [Rmin a b; Rmax a b])) /\
  (f (Rmin a b) <> 0 -> f (Rmax a b) = 0 -> find_root ROps f a b acc = (Ok (Rmax a b), [Rmin a b; Rmax a b])).
Proof. exact (end_zero_returned f a b acc). Qed.
Print Assumptions C02_end_zero_returned.

(** "a bracket without a sign change ... terminates the process with a diagnostic instead of returning a number" *)
Theorem C02_no_sign_change_exits (f : R -> R) (a b acc : R) : 0 < f (Rmin a b) * f (Rmax a b) ->
  find_root ROps f a b acc = (Exit, [Rmin a b; Rmax a b]).
Proof. exact (no_sign_change_exits f a b acc). Qed.
Print Assumptions C02_no_sign_change_exits.

(** "... or with NaN ends": on EVERY instance of the number interface (so also on IEEE doubles, where
    [nisnan] is std::isnan), with xl, xr the ends after the initial swap. *)
Theorem C02_nan_end_exits {T : Type} (Ops : NumOps T) (f : T -> T) (a b acc : T) :
  let xl := if ngtb Ops a b then b else a in
  let xr := if ngtb Ops a b then a else b in
  nisnan Ops (f xl) = true \/ nisnan Ops (f xr) = true ->
  find_root Ops f a b acc = (Exit, [xl; xr]).
Proof. exact (nan_end_exits Ops f a b acc). Qed.
Print Assumptions C02_nan_end_exits.

(** "linear functions are solved exactly": for f(x) = m x + q with a sign change over the bracket the first
    Ridder point is the root -q/m, f vanishes there and it is returned after four evaluations, for every acc. *)
Theorem C02_linear_exact (m q a b acc : R) : (m * Rmin a b + q) * (m * Rmax a b + q) < 0 ->
  find_root ROps (fun x => m * x + q) a b acc =
  (Ok (- q / m), [Rmin a b; Rmax a b; (Rmin a b + Rmax a b) / 2; - q / m]).
Proof. exact (linear_exact m q a b acc). Qed.
Print Assumptions C02_linear_exact.

(** The iteration limit (const int Max_Iterations = 2200) is never the reason for returning a wrong number:
    Find_Root returns through it (the path that prints "Iterations exceed the maximum") only when the bracket is
    at least acc * 2^2200 wide ... *)
Theorem C02_iteration_cap_needs_wide (f : R -> R) (a b acc x : R) :
  fst (find_root_h ROps f a b acc) = Ok (x, HMaxIter) -> acc * 2 ^ max_iterations <= Rmax a b - Rmin a b.
Proof. exact (max_iter_needs_wide f a b acc x). Qed.
Print Assumptions C02_iteration_cap_needs_wide.

(** ... hence never for a bracket and an accuracy that doubles can express (width at most 2^1025, accuracy at
    least the smallest positive double 2^-1074): the answer then always comes from an exact zero or from a
    sign-change bracket narrower than acc (C02_outcomes), however many decades the bracket spans. *)
Theorem C02_iteration_cap_unreached (f : R -> R) (a b acc : R) :
  Rmax a b - Rmin a b <= 2 ^ 1025 -> / 2 ^ 1074 <= acc ->
  forall x, fst (find_root_h ROps f a b acc) <> Ok (x, HMaxIter).
Proof. exact (iteration_cap_unreached_doubles f a b acc). Qed.
Print Assumptions C02_iteration_cap_unreached.

(** "A bracket end that is itself a zero is returned as is", on EVERY instance of the number interface — on IEEE
    doubles in particular when the value at the other end is infinite (x^3 - 8 on [2, 1e200]): with neither end
    value NaN, an end with Sign(f(end)) == 0 and f(end) == 0 (on doubles: f(end) = +-0) is returned after the two
    end evaluations, the left one first. *)
Theorem C02_end_zero_any_instance {T : Type} (Ops : NumOps T) (f : T -> T) (a b acc : T) :
  let xl := if ngtb Ops a b then b else a in
  let xr := if ngtb Ops a b then a else b in
  nisnan Ops (f xl) = false -> nisnan Ops (f xr) = false ->
  (sign1 Ops (f xl) = 0%Z -> neqb Ops (f xl) (nofZ Ops 0) = true ->
     find_root Ops f a b acc = (Ok xl, [xl; xr])) /\
  (sign1 Ops (f xr) = 0%Z -> neqb Ops (f xl) (nofZ Ops 0) = false -> neqb Ops (f xr) (nofZ Ops 0) = true ->
     find_root Ops f a b acc = (Ok xr, [xl; xr])).
Proof. exact (end_zero_any_instance Ops f a b acc). Qed.
Print Assumptions C02_end_zero_any_instance.

(** Histories (several requests served by one process, [find_root_seq]): Find_Root keeps nothing between calls,
    so the k-th request is answered exactly as if it were the only one ([serve] = find_root_h on that request),
    provided every earlier request returned a number (an exit ends the process and the history). *)
Theorem C02_history_independent {T : Type} (Ops : NumOps T) (reqs : list ((T -> T) * T * T * T)) (k : nat) q :
  (forall j p, (j < k)%nat -> nth_error reqs j = Some p -> exists v, fst (serve Ops p) = Ok v) ->
  nth_error reqs k = Some q ->
  nth_error (find_root_seq Ops reqs) k = Some (serve Ops q).
Proof. exact (seq_history_independent Ops reqs k q). Qed.
Print Assumptions C02_history_independent.

(** "... a bracket ... with NaN ends terminates the process ... instead of returning a number" takes precedence over
    "a bracket end that is itself a zero is returned as is": when the function is NaN at one end and an exact zero
    (+0 or -0) at the other, in either position, the process is terminated after the two end evaluations — on every
    instance of the number interface (IEEE doubles included) — and the history the request belongs to ends with it. *)
Theorem C02_nan_end_beats_zero_end {T : Type} (Ops : NumOps T) (f : T -> T) (a b acc : T) :
  let xl := if ngtb Ops a b then b else a in
  let xr := if ngtb Ops a b then a else b in
  (neqb Ops (f xl) (nofZ Ops 0) = true /\ nisnan Ops (f xr) = true) \/
  (nisnan Ops (f xl) = true /\ neqb Ops (f xr) (nofZ Ops 0) = true) ->
  find_root Ops f a b acc = (Exit, [xl; xr]) /\
  forall rest, find_root_seq Ops ((f, a, b, acc) :: rest) = [(Exit, [xl; xr])].
Proof. exact (nan_end_beats_zero_end Ops f a b acc). Qed.
Print Assumptions C02_nan_end_beats_zero_end.

(** The cost of a request — Ridder's iteration cannot creep (the property's "why": the stopping test of an earlier
    version compared successive iterates, "which says nothing about the distance to the root when the iteration
    creeps").  For EVERY function and every n from 1 to Max_Iterations: a bracket narrower than acc * 2^n is
    answered after at most 2 + 2n evaluations of the objective function (the two ends, two per pass, every pass
    at least halving the bracket), and not through the iteration limit. *)
Theorem C02_evaluation_count (f : R -> R) (a b acc : R) (n : nat) :
  (1 <= n <= max_iterations)%nat -> Rmax a b - Rmin a b < acc * 2 ^ n ->
  (length (snd (find_root_h ROps f a b acc)) <= 2 + 2 * n)%nat /\
  forall x, fst (find_root_h ROps f a b acc) <> Ok (x, HMaxIter).
Proof. exact (evaluation_count f a b acc n). Qed.
Print Assumptions C02_evaluation_count.

(** "it never evaluates the function outside the bracket", for the Ridder point of every pass on EVERY ordered
    instance of the number interface (IEEE doubles without NaN abscissae included; no law of arithmetic is used,
    so whatever rounding did to x4): a pass evaluates the function at exactly two abscissae, and the second one
    lies in [min(x1,x2), max(x1,x2)] of the current loop state. *)
Theorem C02_ridder_point_clamped_any_instance {T : Type} (Ops : NumOps T) (OL : OrdLaws Ops) (f : T -> T) (acc : T) (s : st) :
  exists x3 x4, snd (step Ops f acc s) = [x3; x4] /\
                nleb Ops (nmin Ops (sx1 s) (sx2 s)) x4 = true /\ nleb Ops x4 (nmax Ops (sx1 s) (sx2 s)) = true.
Proof. exact (ridder_point_clamped Ops OL f acc s). Qed.
Print Assumptions C02_ridder_point_clamped_any_instance.

(** "Only the ratios of the three function values enter" (Numerics.cpp): multiplying the objective function by any
    non-zero constant k, negative ones included ([sclf k f] = fun x => k * f x), changes neither the outcome (number,
    way it was reached, exit) nor one evaluation abscissa. *)
Theorem C02_scale_invariant (f : R -> R) (k a b acc : R) : k <> 0 ->
  find_root_h ROps (sclf k f) a b acc = find_root_h ROps f a b acc.
Proof. exact (scale_invariant f k a b acc). Qed.
Print Assumptions C02_scale_invariant.

(** The unit of x is immaterial: the request with x measured in another unit ([xs c f] = fun x => f (x / c), ends
    c a and c b, accuracy c acc, c > 0) is answered by c times the answer through c times every evaluation abscissa
    ([xout c] multiplies the returned number by c and keeps the way it was reached; exits stay exits). *)
Theorem C02_x_scale_covariant (f : R -> R) (c a b acc : R) : 0 < c ->
  find_root_h ROps (xs c f) (c * a) (c * b) (c * acc) =
  (xout c (fst (find_root_h ROps f a b acc)), map (Rmult c) (snd (find_root_h ROps f a b acc))).
Proof. exact (x_scale_covariant f c a b acc). Qed.
Print Assumptions C02_x_scale_covariant.

(** "linear functions are solved exactly", at EVERY accuracy and on EVERY instance of the number interface (IEEE doubles
    included; no law of arithmetic is used): a request whose end values are no NaNs and have opposite signs is never
    answered from the bracket ends alone, however large the accuracy (the width of the bracket and beyond included, where
    every point of the bracket would satisfy the accuracy clause).  The first pass always runs: the evaluation trace begins
    xl, xr, the midpoint [mid_any] = 0.5 xl + 0.5 xr and Ridder's point [ridder_any] of the original bracket (after the
    NaN fallback and the clamp), and when nothing else is evaluated the answer IS that Ridder point (or the process is
    terminated) - never the midpoint or an end as such.  Over the reals Ridder's point of a linear function is its root
    (C02_linear_exact). *)
Theorem C02_first_pass_always_runs {T : Type} (Ops : NumOps T) (f : T -> T) (a b acc : T) :
  let xl := if ngtb Ops a b then b else a in
  let xr := if ngtb Ops a b then a else b in
  nisnan Ops (f xl) = false -> nisnan Ops (f xr) = false ->
  (sign1 Ops (f xl) * sign1 Ops (f xr) <? 0)%Z = true ->
  let x3 := mid_any Ops xl xr in
  let x4 := ridder_any Ops f xl xr (f xl) (f xr) in
  exists o tr', find_root_h Ops f a b acc = (o, xl :: xr :: x3 :: x4 :: tr') /\
                (tr' = [] -> o = Exit \/ exists h, o = Ok (x4, h) /\ (h = HF4Zero \/ h = HBracket)).
Proof. exact (first_pass_always_runs Ops f a b acc). Qed.
Print Assumptions C02_first_pass_always_runs.

(** One pass of the loop on every instance: exactly two evaluations, at [mid_any] and [ridder_any] of the current
    bracket; a number returned by the pass is that Ridder point, and so is the variable [result] of a pass that goes on. *)
Theorem C02_pass_shape_any_instance {T : Type} (Ops : NumOps T) (f : T -> T) (acc : T) (s : st) :
  let x3 := mid_any Ops (sx1 s) (sx2 s) in
  let x4 := ridder_any Ops f (sx1 s) (sx2 s) (sf1 s) (sf2 s) in
  snd (step Ops f acc s) = [x3; x4] /\
  match fst (step Ops f acc s) with
  | inl (Ok (x, h)) => x = x4 /\ (h = HF4Zero \/ h = HBracket)
  | inl Exit => True
  | inl _ => False
  | inr s' => sres s' = x4
  end.
Proof. exact (step_shape Ops f acc s). Qed.
Print Assumptions C02_pass_shape_any_instance.

(** TERMINATION AND SHAPE OF EVERY RUN, on EVERY instance of the number interface (no law of arithmetic or order is
    used: IEEE doubles with rounding, infinities and NaN abscissae or values included), by induction over the
    iteration budget.  The evaluation trace is xl, xr (the ends after the swap) followed by tr, and exactly one of:
    tr is empty (exit, or an end returned as a zero); tr has 2k entries, 1 <= k <= Max_Iterations (k passes), and the
    run ends with an exit or returns the abscissa of the LAST evaluation (tagged HF4Zero or HBracket); tr has
    2 Max_Iterations + 1 entries and the number returned (tagged HMaxIter) is the abscissa of the last TWO evaluations
    (Ridder's point of the last pass, evaluated once more for the warning).  The outcomes OOB and Fuel never occur. *)
Theorem C02_trace_shape_any_instance {T : Type} (Ops : NumOps T) (f : T -> T) (a b acc : T) :
  let r := find_root_h Ops f a b acc in
  let xl := if ngtb Ops a b then b else a in
  let xr := if ngtb Ops a b then a else b in
  exists tr, snd r = xl :: xr :: tr /\
  ( (tr = [] /\ (fst r = Exit \/ fst r = Ok (xl, HEndZero) \/ fst r = Ok (xr, HEndZero)))
    \/ (exists k, (1 <= k <= max_iterations)%nat /\ length tr = (2 * k)%nat /\
          (fst r = Exit \/ exists x h tr0, fst r = Ok (x, h) /\ (h = HF4Zero \/ h = HBracket) /\ tr = tr0 ++ [x]))
    \/ (length tr = (2 * max_iterations + 1)%nat /\ exists x tr0, fst r = Ok (x, HMaxIter) /\ tr = tr0 ++ [x; x]) ).
Proof. exact (trace_shape Ops f a b acc). Qed.
Print Assumptions C02_trace_shape_any_instance.

(** ... hence, on every instance: Find_Root terminates after at least 2 and at most 2 Max_Iterations + 3 evaluations of
    the objective function, with a number or an exit, and a number returned is one of the abscissae at which the
    function was evaluated ("returns a point inside the bracket" reduces to "never evaluates outside the bracket"). *)
Theorem C02_evaluation_budget_any_instance {T : Type} (Ops : NumOps T) (f : T -> T) (a b acc : T) :
  (2 <= length (snd (find_root_h Ops f a b acc)) <= 2 * max_iterations + 3)%nat /\
  (fst (find_root_h Ops f a b acc) = Exit \/ exists x h, fst (find_root_h Ops f a b acc) = Ok (x, h)) /\
  (forall x h, fst (find_root_h Ops f a b acc) = Ok (x, h) -> In x (snd (find_root_h Ops f a b acc))).
Proof. exact (evaluation_budget Ops f a b acc). Qed.
Print Assumptions C02_evaluation_budget_any_instance.
(** hypotheses satisfiable / the middle alternative is inhabited: [first_pass_example] (C02_Proofs4.v), a run with k = 1. *)

(** "it never evaluates the function outside the bracket" and "returns a point inside the bracket", for ALL passes,
    on every ORDERED instance of the number interface (order laws only: rounding of everything Ridder's formula
    computes is arbitrary), under ONE premise about arithmetic, [mid_between]: the code's midpoint 0.5 x + 0.5 y lies
    in [min(x,y), max(x,y)] for all x, y.  [ins lo hi x] = lo <= x <= hi in the instance's order.
    _partial: for IEEE doubles the premise is not proved here (it is a fact about two halvings and one correctly
    rounded addition; the correspondence check and the predicate `location` test it on every run), and NaN
    abscissae are outside the order laws.  Over the reals the premise holds ([C02_midpoint_between_reals]). *)
Theorem C02_evaluations_inside_ordered_partial {T : Type} (Ops : NumOps T) (OL : OrdLaws Ops) (f : T -> T) (a b acc : T) :
  mid_between Ops ->
  let xl := if ngtb Ops a b then b else a in
  let xr := if ngtb Ops a b then a else b in
  Forall (ins Ops xl xr) (snd (find_root_h Ops f a b acc)) /\
  forall x h, fst (find_root_h Ops f a b acc) = Ok (x, h) -> ins Ops xl xr x.
Proof. exact (fun Hm => evaluations_inside_ordered Ops OL Hm f a b acc). Qed.
Print Assumptions C02_evaluations_inside_ordered_partial.

Theorem C02_midpoint_between_reals : OrdLaws ROps /\ mid_between ROps.
Proof. exact (conj ROps_OrdLaws mid_between_R). Qed.
Print Assumptions C02_midpoint_between_reals.

(** Strictly monotone objective functions (the power laws x^p - c, CDFs, atan, tanh of the property's quantifier),
    continuity NOT assumed: EVERY zero z of f, wherever it is, is the returned number or lies within the requested
    accuracy of it (resp. within 2^-2200 of the original width after an iteration-limit return): the answer is
    within the accuracy of THE root, not merely of some sign change. *)
Theorem C02_monotone_every_root_close (f : R -> R) (a b acc r : R) :
  (forall x y, x < y -> f x < f y) \/ (forall x y, x < y -> f y < f x) ->
  fst (find_root ROps f a b acc) = Ok r ->
  forall z, f z = 0 ->
    z = r \/ Rabs (z - r) < acc \/ Rabs (z - r) <= (Rmax a b - Rmin a b) / 2 ^ max_iterations.
Proof. exact (monotone_every_root_close f a b acc r). Qed.
Print Assumptions C02_monotone_every_root_close.
(** hypotheses satisfiable: [monotone_example] (x^3 - 2 on [0,2] is strictly increasing and a number is returned). *)

(** Histories, the converse of C02_history_independent without any premise: EVERY entry of the list of answers of a
    history is the answer to the request at the same position served on its own, every earlier request returned a
    number, and there are never more answers than requests (induction over the history). *)
Theorem C02_history_entries {T : Type} (Ops : NumOps T) (reqs : list ((T -> T) * T * T * T)) :
  (length (find_root_seq Ops reqs) <= length reqs)%nat /\
  forall k o, nth_error (find_root_seq Ops reqs) k = Some o ->
    exists q, nth_error reqs k = Some q /\ o = serve Ops q /\
              forall j p, (j < k)%nat -> nth_error reqs j = Some p -> exists v, fst (serve Ops p) = Ok v.
Proof. exact (conj (seq_length Ops reqs) (seq_entries_are_serves Ops reqs)). Qed.
Print Assumptions C02_history_entries.

(** THE STOPPING TEST AND THE ACCURACY CLAUSE ON EVERY INSTANCE of the number interface (no law of arithmetic or order:
    IEEE doubles, rounding included), by induction over the iteration budget.  A number returned through the in-loop
    test f4 == 0 is a point where the computed function value == 0.  A number returned because the bracket became
    narrower than xAccuracy is one of two abscissae u, v at which the objective function was evaluated during this very
    call, whose values pass the code's own sign test in one orientation ([opp p q] = Sign(p,q) != p and not q == 0; for
    non-NaN doubles: both non-zero and of different sign), and whose distance AS THE INSTANCE COMPUTES IT, fabs(v - u),
    is < xAccuracy: "the function changes sign within the requested accuracy of that point", up to the one rounding of v - u. *)
Theorem C02_stopping_test_any_instance {T : Type} (Ops : NumOps T) (f : T -> T) (a b acc x : T) :
  (fst (find_root_h Ops f a b acc) = Ok (x, HF4Zero) -> neqb Ops (f x) (n0 Ops) = true) /\
  (fst (find_root_h Ops f a b acc) = Ok (x, HBracket) ->
     exists u v, (x = u \/ x = v) /\ nltb Ops (nabs Ops (nsub Ops v u)) acc = true /\
                 (opp Ops (f u) (f v) \/ opp Ops (f v) (f u)) /\
                 In u (snd (find_root_h Ops f a b acc)) /\ In v (snd (find_root_h Ops f a b acc))).
Proof. exact (stopping_test Ops f a b acc x). Qed.
Print Assumptions C02_stopping_test_any_instance.

(** ... which over the reals, where [opp p q] is p * q < 0 ([opp_R]), is the accuracy clause again, now with the two
    ends identified as evaluated abscissae of the call. *)
Theorem C02_stopping_test_reals (f : R -> R) (a b acc x : R) :
  fst (find_root_h ROps f a b acc) = Ok (x, HBracket) ->
  exists u v, (x = u \/ x = v) /\ Rabs (v - u) < acc /\ f u * f v < 0 /\
              In u (snd (find_root_h ROps f a b acc)) /\ In v (snd (find_root_h ROps f a b acc)).
Proof. exact (stopping_test_R f a b acc x). Qed.
Print Assumptions C02_stopping_test_reals.
(** hypotheses satisfiable: [stopping_test_example] (3x - 1 on [0,2], accuracy 3: answered by one of the two in-loop returns). *)

(** "whichever order the ends are given in", on every ORDERED instance (order laws only; doubles without NaN ends):
    ends that the order tells apart, or identical ends, give the same outcome, tag and evaluation trace in both orders.
    _partial: ends that compare equal without being identical (+0 and -0 on doubles) are not covered - the code does
    not swap them and calls the function on them in the order given. *)
Theorem C02_order_irrelevant_ordered_partial {T : Type} (Ops : NumOps T) (OL : OrdLaws Ops) (f : T -> T) (a b acc : T) :
  nltb Ops a b = true \/ nltb Ops b a = true \/ a = b ->
  find_root_h Ops f a b acc = find_root_h Ops f b a acc.
Proof. exact (order_irrelevant_ordered Ops OL f a b acc). Qed.
Print Assumptions C02_order_irrelevant_ordered_partial.

(** Histories over the reals: EVERY answer of EVERY history of requests served by one process is correct for the
    request at its position - all its evaluations inside that request's bracket, and its outcome as in C02_outcomes
    ([post]: zero end / exact zero / end of a sign-change bracket narrower than acc / 2^-2200 of the width; exit only
    for equal strict signs) - whatever the earlier requests were.  (Induction over the history.) *)
Theorem C02_history_all_answers_correct (reqs : list ((R -> R) * R * R * R)) (k : nat) o :
  nth_error (find_root_seq ROps reqs) k = Some o ->
  exists f a b acc, nth_error reqs k = Some (f, a, b, acc) /\
    List.Forall (fun x => Rmin a b <= x <= Rmax a b) (snd o) /\ post f a b acc (fst o).
Proof. exact (seq_all_answers_correct reqs k o). Qed.
Print Assumptions C02_history_all_answers_correct.
(** hypotheses satisfiable: [seq_all_answers_example] (a history of two requests has a second answer). *)

(** "all accuracies": SHARPENING THE ACCURACY ONLY CONTINUES THE SAME RUN, on EVERY instance of the number interface (no law
    of arithmetic or order: IEEE doubles with rounding included), by induction over the iteration budget.  If every width
    that passes the stopping test fabs(x2 - x1) < acc' also passes it with acc (acc' is at most acc as the test sees it), then
    the request with acc' is answered exactly as with acc (same outcome, same way reached, same evaluations), or the run with
    acc returned through the width test and the run with acc' makes the very same evaluations in the same order and then at
    least one more: the answer at a coarser accuracy is an intermediate iterate of the answer at a sharper one, never the
    result of a different iteration. *)
Theorem C02_sharper_accuracy_continues {T : Type} (Ops : NumOps T) (f : T -> T) (a b acc acc' : T) :
  (forall w, nltb Ops w acc' = true -> nltb Ops w acc = true) ->
  find_root_h Ops f a b acc' = find_root_h Ops f a b acc \/
  (exists x tr2, fst (find_root_h Ops f a b acc) = Ok (x, HBracket) /\ tr2 <> [] /\
     snd (find_root_h Ops f a b acc') = snd (find_root_h Ops f a b acc) ++ tr2).
Proof. exact (fun H => sharper_accuracy_continues Ops f acc acc' H a b). Qed.
Print Assumptions C02_sharper_accuracy_continues.

(** ... on every ORDERED instance (doubles without NaN accuracies) the premise is acc' <= acc. *)
Theorem C02_sharper_accuracy_continues_ordered {T : Type} (Ops : NumOps T) (OL : OrdLaws Ops) (f : T -> T) (a b acc acc' : T) :
  nleb Ops acc' acc = true ->
  find_root_h Ops f a b acc' = find_root_h Ops f a b acc \/
  (exists x tr2, fst (find_root_h Ops f a b acc) = Ok (x, HBracket) /\ tr2 <> [] /\
     snd (find_root_h Ops f a b acc') = snd (find_root_h Ops f a b acc) ++ tr2).
Proof. exact (sharper_accuracy_continues_ordered Ops OL f a b acc acc'). Qed.
Print Assumptions C02_sharper_accuracy_continues_ordered.
(** hypotheses satisfiable: [sharper_accuracy_example] (the reals are an ordered instance and 1 <= 3). *)

(** The origin of x is immaterial: the request moved by c ([xt c f] = fun x => f (x - c), ends a + c and b + c, the same
    accuracy) is answered by the answer + c through every evaluation abscissa + c ([tout c] adds c to the returned number
    and keeps the way it was reached; exits stay exits).  With C02_x_scale_covariant: Find_Root commutes with every
    increasing affine change of the variable. *)
Theorem C02_x_shift_covariant (f : R -> R) (c a b acc : R) :
  find_root_h ROps (xt c f) (a + c) (b + c) acc =
  (tout c (fst (find_root_h ROps f a b acc)), map (fun x => x + c) (snd (find_root_h ROps f a b acc))).
Proof. exact (x_shift_covariant f c a b acc). Qed.
Print Assumptions C02_x_shift_covariant.
(** use: [x_shift_example] (x - 1 on [0,3] moved by 10 is answered 11). *)

(** T-TIE: Sign(double) and Sign(double,double) of src/Special_Functions.cpp, translated from clang's AST on every run
    (Gen_C02_Formulas.v: [g_Sign], [g_Sign2]), are the terms [sign1] / [sign2] with which the model of Find_Root is written
    (end test, Ridder's formula, the three re-bracketing tests), on every instance of the number interface in which the source
    literals 0.0 and 1.0 are the constants 0 and 1 ([Lit01]; the reals: C02_literals_reals). *)
Theorem C02_generated_Sign_is_model {T : Type} (Ops : NumOps T) : Lit01 Ops -> forall x, g_Sign Ops x = sign1 Ops x.
Proof. exact (gen_Sign_is_model Ops). Qed.
Print Assumptions C02_generated_Sign_is_model.

Theorem C02_generated_Sign2_is_model {T : Type} (Ops : NumOps T) : Lit01 Ops -> forall x y, g_Sign2 Ops x y = sign2 Ops x y.
Proof. exact (gen_Sign2_is_model Ops). Qed.
Print Assumptions C02_generated_Sign2_is_model.

Theorem C02_literals_reals : Lit01 ROps.
Proof. exact ROps_Lit01. Qed.
Print Assumptions C02_literals_reals.
