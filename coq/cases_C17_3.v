From Coq Require Import Reals Lra.
From Coquelicot Require Import Coquelicot.
From Interval Require Import Tactic.
From LP Require Import NumR C17_Defs.
Open Scope R_scope.
Lemma s3_3 : Rabs (dawson_def (IZR (7205759403792795) * powerRZ 2 (-55)) - (IZR (1754160916702893) * powerRZ 2 (-53))) <= 2 / 10000000.
Proof. unfold dawson_def. integral with (i_prec 60). Qed.
Lemma s3_13 : Rabs (dawson_def (IZR (-7103792452504547) * powerRZ 2 (-48)) - (IZR (-2857400046688561) * powerRZ 2 (-57))) <= 2 / 10000000.
Proof. unfold dawson_def. integral with (i_prec 60). Qed.
Lemma s3_23 : Rabs (dawson_def (IZR (-243067594984589) * powerRZ 2 (-50)) - (IZR (-7540927727485501) * powerRZ 2 (-55))) <= 2 / 10000000.
Proof. unfold dawson_def. integral with (i_prec 60). Qed.
Lemma s3_33 : Rabs (dawson_def (IZR (-7571490537352271) * powerRZ 2 (-48)) - (IZR (-5361285357462465) * powerRZ 2 (-58))) <= 2 / 10000000.
Proof. unfold dawson_def. integral with (i_prec 60). Qed.
Lemma s3_43 : Rabs ((IZR (1858214045801163) * powerRZ 2 (-50)) - erfi_def (IZR (1) * powerRZ 2 (0))) <= 1 / 1000000 * Rabs (erfi_def (IZR (1) * powerRZ 2 (0))).
Proof. apply rel_error_from_enclosure; [lra|interval|]. unfold erfi_def. split; integral with (i_prec 80). Qed.
Lemma s3_53 : Rerf ((IZR (2619691847995615) * powerRZ 2 (-50)) - 1 / 10000) < (IZR (8998192055486251) * powerRZ 2 (-53)) < Rerf ((IZR (2619691847995615) * powerRZ 2 (-50)) + 1 / 10000).
Proof. unfold Rerf. split; integral with (i_prec 80). Qed.
