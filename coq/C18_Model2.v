(** * C18 model, part 2 (seventh pass): code that the first model left to the harness.

    1. The acceptance statistic of Sample_Metropolis / Sample_Metropolis_2D
       (`average_acceptance_probability += acceptance_probability` in every iteration, `/= i_max` after the loop, the
       efficiency warning `< 1e-3 || > 1.0 - 1e-2` on std::cerr): [sample_metropolis_w], [sample_metropolis_2d_w]
       return the samples, the average and the warning flag.
    2. The generator itself.  std::mt19937 (libstdc++ mersenne_twister_engine<uint_fast32_t, 32, 624, 397, 31,
       0x9908b0df, 11, 0xffffffff, 7, 0x9d2c5680, 15, 0xefc60000, 18, 1812433253>: seed(), _M_gen_rand(), operator())
       on Z, and std::generate_canonical<double, 53> (two 32-bit outputs -> one canonical uniform, bits/random.tcc),
       which is what std::uniform_real_distribution calls in Sample_Uniform: [mt_seed], [mt_next], [canon],
       [mt_stream].  With them the stream of canonical uniforms of the first model is a function of the
       generator state, and a history of sampler calls is run from a seed: [run_from]. *)
From Coq Require Import ZArith List Bool Lia.
From LP Require Import Num C18_Model.
Import ListNotations.
Local Open Scope Z_scope.

(** ** std::mt19937 *)
Definition mt_n : Z := 624.
Definition mt_m : Z := 397.
Definition nthZ (l : list Z) (k : Z) : Z := nth (Z.to_nat k) l 0.
Fixpoint upd (l : list Z) (k : nat) (v : Z) : list Z :=
  match l with
  | [] => []
  | a :: r => match k with O => v :: r | S k' => a :: upd r k' v end
  end.
Definition updZ (l : list Z) (k : Z) (v : Z) : list Z := upd l (Z.to_nat k) v.

(** seed(value): _M_x[0] = value mod 2^32; _M_x[i] = (f * (x ^ (x >> 30)) + i) mod 2^32, x = _M_x[i-1]; _M_p = 624 *)
Fixpoint seed_loop (fuel : nat) (i : Z) (prev : Z) : list Z :=
  match fuel with
  | O => []
  | S f =>
      let x := Z.lxor prev (Z.shiftr prev 30) in
      let x := (x * 1812433253 + i mod mt_n) mod 4294967296 in
      x :: seed_loop f (i + 1) x
  end.
Definition mt_state : Type := (list Z * Z)%type.
Definition mt_seed (value : Z) : mt_state :=
  let x0 := value mod 4294967296 in
  (x0 :: seed_loop 623 1 x0, mt_n).

(** _M_gen_rand(): __y = (_M_x[k] & upper) | (_M_x[k+1] & lower); _M_x[k] = _M_x[k+m] ^ (__y >> 1) ^ ((__y & 1) ? a : 0).
    The three loops of the source (k < n-m with index k+m, k < n-1 with index k+(m-n), the last word with
    _M_x[n-1], _M_x[0], _M_x[m-1]) are the one loop below with the indices taken mod n; the words are updated in
    place, in this order. *)
Definition mt_y (a b : Z) : Z := Z.lor (Z.land a 2147483648) (Z.land b 2147483647).
Definition mt_mix (xm y : Z) : Z := Z.lxor (Z.lxor xm (Z.shiftr y 1)) (if Z.odd y then 2567483615 else 0).
Fixpoint twist_loop (fuel : nat) (k : Z) (x : list Z) : list Z :=
  match fuel with
  | O => x
  | S f =>
      let y := mt_y (nthZ x k) (nthZ x ((k + 1) mod mt_n)) in
      twist_loop f (k + 1) (updZ x k (mt_mix (nthZ x ((k + mt_m) mod mt_n)) y))
  end.
Definition mt_twist (x : list Z) : list Z := twist_loop 624 0 x.

(** operator(): tempering of _M_x[_M_p++] *)
Definition mt_temper (z : Z) : Z :=
  let z := Z.lxor z (Z.land (Z.shiftr z 11) 4294967295) in
  let z := Z.lxor z (Z.land (Z.shiftl z 7) 2636928640) in
  let z := Z.lxor z (Z.land (Z.shiftl z 15) 4022730752) in
  Z.lxor z (Z.shiftr z 18).
Definition mt_next (g : mt_state) : Z * mt_state :=
  let (x, p) := g in
  let (x, p) := if p >=? mt_n then (mt_twist x, 0) else (x, p) in
  (mt_temper (nthZ x p), (x, p + 1)).
(** discard(z) by z calls *)
Fixpoint mt_discard (n : nat) (g : mt_state) : mt_state :=
  match n with O => g | S k => mt_discard k (snd (mt_next g)) end.

Section Model2.
Context {T : Type} (Ops : NumOps T).
Local Notation c0 := (n0 Ops).
Local Notation c1 := (n1 Ops).

(** ** std::generate_canonical<double, 53>(mt19937): __m = 2 rounds, __r = 2^32.
       __sum = 0; __tmp = 1;  twice { __sum += double(urng() - min) * __tmp; __tmp *= __r; }
       __ret = __sum / __tmp;  if (__ret >= 1) __ret = nextafter(1, 0) *)
Definition canon (r1 r2 : Z) : T :=
  let r := nofZ Ops 4294967296 in
  let sum := nadd Ops c0 (nmul Ops (nofZ Ops r1) c1) in
  let tmp := nmul Ops c1 r in
  let sum := nadd Ops sum (nmul Ops (nofZ Ops r2) tmp) in
  let tmp := nmul Ops tmp r in
  let ret := ndiv Ops sum tmp in
  if ngeb Ops ret c1 then nlit Ops 9007199254740991 9007199254740992 9007199254740991 (-53) else ret.
Definition mt_canon (g : mt_state) : T * mt_state :=
  let (r1, g1) := mt_next g in
  let (r2, g2) := mt_next g1 in
  (canon r1 r2, g2).
(** the next n canonical uniforms of the generator: the stream the samplers of C18_Model read *)
Fixpoint mt_stream (n : nat) (g : mt_state) : list T :=
  match n with
  | O => []
  | S k => let (u, g') := mt_canon g in u :: mt_stream k g'
  end.
(** a history of sampler calls made on the generator [g]; [n] bounds the number of canonical draws (fewer available
    draws than the calls need: Fuel).  Result: the answers, the number of canonical draws made, the generator left behind. *)
Definition run_from (g : mt_state) (n : nat) (cs : list (@call T)) : res (list (@answer T) * Z * mt_state) :=
  let us := mt_stream n g in
  match run_calls Ops cs us with
  | Ok (a, rest) =>
      let k := (length us - length rest)%nat in
      Ok (a, Z.of_nat k, mt_discard (2 * k) g)
  | Exit => Exit | OOB => OOB | Fuel => Fuel
  end.

(** ** Sample_Metropolis with the acceptance statistic *)
Fixpoint metro_loop_w (PDF : T -> T) (sigma : T) (dom : option (T * T)) (burn thin imax : Z)
    (us : list T) (i : Z) (x : T) (acc : list T) (avg : T) : res (list T * T * list T) :=
  if i <? imax then
    match us with
    | u1 :: u2 :: r =>
        match gauss_of Ops u1 x sigma with
        | Ok cand =>
            let a := accept1 Ops PDF dom x cand in
            let avg' := nadd Ops avg a in                 (* average_acceptance_probability += acceptance_probability *)
            let x' := if nltb Ops (unif Ops u2 c0 c1) a then cand else x in
            let acc' := if metro_keep burn thin i then x' :: acc else acc in
            metro_loop_w PDF sigma dom burn thin imax r (i + 1) x' acc' avg'
        | Exit => Exit | OOB => OOB | Fuel => Fuel
        end
    | _ => Fuel
    end
  else Ok (rev acc, avg, us).
(** average_acceptance_probability /= i_max;  warning iff  < 1e-3 || > 1.0 - 1e-2  (i_max = 0: 0.0/0 = NaN, no warning) *)
Definition metro_average (sum : T) (imax : Z) : T := ndiv Ops sum (nofZ Ops imax).
Definition metro_warns (av : T) : bool :=
  nltb Ops av (ndec Ops 1 1000) || ngtb Ops av (nsub Ops c1 (ndec Ops 1 100)).
Definition finish_w {X : Type} (imax : Z) (x : res (X * T * list T)) : res (X * (T * bool) * list T) :=
  match x with
  | Ok (l, s, r) => let av := metro_average s imax in Ok (l, (av, metro_warns av), r)
  | Exit => Exit | OOB => OOB | Fuel => Fuel
  end.
Definition sample_metropolis_w (PDF : T -> T) (sigma : T) (sample thin burn : Z) (domain : list T) (us : list T)
  : res (list T * (T * bool) * list T) :=
  let imax := metro_imax burn thin sample in
  let run (dom : option (T * T)) :=
    match us with
    | [] => Fuel
    | u :: r =>
        match dom with
        | Some (lo, hi) => metro_loop_w PDF sigma dom burn thin imax r 0 (unif Ops u lo hi) [] c0
        | None => rbind (gauss_of Ops u c0 sigma) (fun x0 => metro_loop_w PDF sigma dom burn thin imax r 0 x0 [] c0)
        end
    end in
  match domain with
  | [] => finish_w imax (run None)
  | [lo; hi] => finish_w imax (run (Some (lo, hi)))
  | _ => Exit
  end.

Fixpoint metro2_loop_w (PDF : T -> T -> T) (s1 s2 : T) (dom : option (T * T * T * T)) (burn thin imax : Z)
    (us : list T) (i : Z) (x : T * T) (acc : list (T * T)) (avg : T) : res (list (T * T) * T * list T) :=
  if i <? imax then
    match us with
    | u1 :: u2 :: u3 :: r =>
        match gauss_of Ops u1 (fst x) s1 with
        | Ok ca =>
            match gauss_of Ops u2 (snd x) s2 with
            | Ok cb =>
                let cand := (ca, cb) in
                let a := accept2 Ops PDF dom x cand in
                let avg' := nadd Ops avg a in
                let x' := if nltb Ops (unif Ops u3 c0 c1) a then cand else x in
                let acc' := if metro_keep burn thin i then x' :: acc else acc in
                metro2_loop_w PDF s1 s2 dom burn thin imax r (i + 1) x' acc' avg'
            | Exit => Exit | OOB => OOB | Fuel => Fuel
            end
        | Exit => Exit | OOB => OOB | Fuel => Fuel
        end
    | _ => Fuel
    end
  else Ok (rev acc, avg, us).
Definition sample_metropolis_2d_w (PDF : T -> T -> T) (s1 s2 : T) (sample thin burn : Z) (domain : list T) (us : list T)
  : res (list (T * T) * (T * bool) * list T) :=
  let imax := metro_imax burn thin sample in
  match domain with
  | [] =>
      match us with
      | u1 :: u2 :: r =>
          finish_w imax (rbind (gauss_of Ops u1 c0 s1) (fun a => rbind (gauss_of Ops u2 c0 s2) (fun b =>
            metro2_loop_w PDF s1 s2 None burn thin imax r 0 (a, b) [] c0)))
      | _ => Fuel
      end
  | [x0; x1; y0; y1] =>
      match us with
      | u1 :: u2 :: r =>
          finish_w imax (metro2_loop_w PDF s1 s2 (Some (x0, x1, y0, y1)) burn thin imax r 0 (unif Ops u1 x0 x1, unif Ops u2 y0 y1) [] c0)
      | _ => Fuel
      end
  | _ => Exit
  end.
End Model2.
