(** * C13 model, part 2: two of the four external quadratures Integrate dispatches to, line by line
    (boost 1.83 headers as installed: boost/math/quadrature/gauss.hpp, trapezoidal.hpp; they are templates, compiled into
    libphysica's Integration.cpp):  "Gauss-Legendre" -> gauss<double, 30>::integrate(func, a, b),
    "Trapezoidal" -> trapezoidal(func, a, b) with its defaults tol = root_epsilon<double>() = 2^-26, max_refinements = 12.
    In C13_Model.v these are values of the Section variable [I]; [with_modelled_backends I0] below fills the two in and
    leaves gauss_kronrod<double,31> and tanh_sinh<double> to [I0].  No proofs here. *)
From Coq Require Import ZArith List Bool.
From LP Require Import Num C13_Model.
Import ListNotations.
Local Open Scope Z_scope.
Local Open Scope res_scope.

Section Model2.
Context {T : Type} (Ops : NumOps T).
Declare Scope num2_scope.
Local Notation "x + y" := (nadd Ops x y) : num2_scope.
Local Notation "x - y" := (nsub Ops x y) : num2_scope.
Local Notation "x * y" := (nmul Ops x y) : num2_scope.
Delimit Scope num2_scope with num.
Local Notation "'#' k" := (nofZ Ops k) (at level 1, format "'#' k").

Definition half : T := ndec Ops 1 2.          (* boost::math::constants::half<double>() *)

(** ** gauss<double, 30>: gauss_detail<T, 30, 1> (the table for 53-bit reals): 15 abscissae and weights, literals of the header *)
Definition gauss30_table : list (T * T) :=
  [(nlit Ops 257359212776588479 5000000000000000000 7417874270470452 (-57), nlit Ops 2571316322338971 25000000000000000 7411314707927977 (-56));
   (nlit Ops 153869913608583547 1000000000000000000 5543747884729178 (-55), nlit Ops 20352477949681101 200000000000000000 7332752968820003 (-56));
   (nlit Ops 127318463083944923 500000000000000000 4587131063217909 (-54), nlit Ops 995934205867952671 10000000000000000000 7176462269491908 (-56));
   (nlit Ops 352704725530878113 1000000000000000000 6353763481890703 (-54), nlit Ops 240921842936610649 2500000000000000000 6944099341278290 (-56));
   (nlit Ops 447033769538089177 1000000000000000000 8053044471655066 (-54), nlit Ops 921225222377861287 10000000000000000000 6638127309160381 (-56));
   (nlit Ops 536624148142019899 1000000000000000000 4833480627220821 (-53), nlit Ops 434498936005414899 5000000000000000000 6261789588117963 (-56));
   (nlit Ops 620526182989242861 1000000000000000000 5589202972967981 (-53), nlit Ops 403779476147101077 5000000000000000000 5819075514611003 (-56));
   (nlit Ops 697850494793315797 1000000000000000000 6285678456622987 (-53), nlit Ops 737559747377052063 10000000000000000000 5314678085521230 (-56));
   (nlit Ops 153555486420965239 200000000000000000 6915524314261543 (-53), nlit Ops 659742298821804951 10000000000000000000 4753944273815096 (-56));
   (nlit Ops 829565762382768397 1000000000000000000 7472064116692714 (-53), nlit Ops 114986312435238133 2000000000000000000 8285637021376734 (-57));
   (nlit Ops 441280267896026341 500000000000000000 7949398600249988 (-53), nlit Ops 484026728305940529 10000000000000000000 6975560298355181 (-57));
   (nlit Ops 463100023714637163 500000000000000000 8342468376946031 (-53), nlit Ops 12124747678008453 312500000000000000 5591552934363152 (-57));
   (nlit Ops 120002733121038439 125000000000000000 8647108226677597 (-53), nlit Ops 287847078833233693 10000000000000000000 8296627180627437 (-58));
   (nlit Ops 98366812327974721 100000000000000000 8860094786917809 (-53), nlit Ops 184664683110909591 10000000000000000000 5322597107499412 (-58));
   (nlit Ops 49844674203732477 50000000000000000 8979218246813334 (-53), nlit Ops 398409624808330281 50000000000000000000 4593350240838695 (-59))].

(** gauss<Real, N>::integrate(f, pL1) for even N:
<<
	unsigned non_zero_start = 1;  K result = Real(0);
	if (N & 1) { result = f(Real(0)) * base::weights()[0]; } else { result = 0; non_zero_start = 0; }
	for (unsigned i = non_zero_start; i < base::abscissa().size(); ++i)
	{	K fp = f(base::abscissa()[i]);  K fm = f(-base::abscissa()[i]);
		result += (fp + fm) * base::weights()[i];
		L1 += (abs(fp) + abs(fm)) * base::weights()[i]; }       // L1 is returned through pL1 only (nullptr here)
	return result;
>> *)
Fixpoint gauss_m1_1 (u : T -> res T) (tab : list (T * T)) (result : T) : res T :=
  match tab with
  | [] => Ok result
  | (x, w) :: rest =>
      let* fp := u x in
      let* fm := u (nneg Ops x) in
      gauss_m1_1 u rest (result + (fp + fm) * w)%num
  end.

(** gauss<Real, N>::integrate(f, a, b, pL1), finite limits (the branch for finite a and b):
<<
	if (a == b) return K(0);
	if (b < a)  return -integrate(f, b, a, pL1);
	Real avg = (a + b)*constants::half<Real>();  Real scale = (b - a)*constants::half<Real>();
	auto u = [&](Real z)->K { return f(avg + scale*z); };
	K Q = scale*integrate(u, pL1);
	return Q;
>> *)
Definition gauss30_core (f : T -> res T) (a b : T) : res T :=
  let avg := ((a + b) * half)%num in
  let scale := ((b - a) * half)%num in
  let u := fun z => f (avg + scale * z)%num in
  let* q := gauss_m1_1 u gauss30_table (n0 Ops) in
  Ok (scale * q)%num.

Definition boost_gauss30 (f : T -> res T) (a b : T) : res T :=
  if neqb Ops a b then Ok (n0 Ops)
  else if nltb Ops b a then let* r := gauss30_core f b a in Ok (nneg Ops r)
  else gauss30_core f a b.

(** ** trapezoidal(f, a, b, tol = root_epsilon<double>(), max_refinements = 12):
<<
	if (a == b) return static_cast<K>(0);
	if (a > b)  return -trapezoidal(f, b, a, tol, max_refinements, error_estimate, L1, pol);
	K ya = f(a);  K yb = f(b);
	Real h = (b - a)*half<Real>();
	K I0 = (ya + yb)*h;  Real IL0 = (abs(ya) + abs(yb))*h;
	K yh = f(a + h);
	K I1;  I1 = I0*half<Real>() + yh*h;  Real IL1 = IL0*half<Real>() + abs(yh)*h;
	std::size_t k = 2;
	Real error = abs(I0 - I1);
	while (k < 5 || (k < max_refinements && error > tol*IL1) )
	{	I0 = I1;  IL0 = IL1;
		I1 = I0*half<Real>();  IL1 = IL0*half<Real>();
		std::size_t p = static_cast<std::size_t>(1u) << k;
		h *= half<Real>();
		K sum = 0;  Real absum = 0;
		for(std::size_t j = 1; j < p; j += 2) { K y = f(a + j*h);  sum += y;  absum += abs(y); }
		I1 += sum*h;  IL1 += absum*h;
		++k;
		error = abs(I0 - I1);
	}
	return static_cast<K>(I1);
>> *)
Definition trap_tol : T := ndec Ops 1 67108864.      (* root_epsilon<double>() = 0.1490116119384765625e-7 = 2^-26 *)
Definition trap_max_refinements : Z := 12.

Fixpoint trap_sum (cnt : nat) (j : Z) (f : T -> res T) (a h sum absum : T) : res (T * T) :=
  match cnt with
  | O => Ok (sum, absum)
  | S c =>
      let* y := f (a + #j * h)%num in
      trap_sum c (j + 2) f a h (sum + y)%num (absum + nabs Ops y)%num
  end.

(** one activation of the while loop per unit of fuel; the loop ends at k = max_refinements at the latest (fuel 12 is never exhausted) *)
Fixpoint trap_loop (fuel : nat) (k : Z) (f : T -> res T) (a h I0 I1 IL1 error : T) : res T :=
  if (k <? 5) || ((k <? trap_max_refinements) && ngtb Ops error (trap_tol * IL1)%num) then
    match fuel with
    | O => Fuel
    | S fu =>
        let I0 := I1 in
        let IL0 := IL1 in
        let I1 := (I0 * half)%num in
        let IL1 := (IL0 * half)%num in
        let p := 2 ^ k in
        let h := (h * half)%num in
        let* sa := trap_sum (Z.to_nat (p / 2)) 1 f a h (n0 Ops) (n0 Ops) in
        let '(sum, absum) := sa in
        let I1 := (I1 + sum * h)%num in
        let IL1 := (IL1 + absum * h)%num in
        trap_loop fu (k + 1) f a h I0 I1 IL1 (nabs Ops (I0 - I1)%num)
    end
  else Ok I1.

Definition trap_core (f : T -> res T) (a b : T) : res T :=
  let* ya := f a in
  let* yb := f b in
  let h := ((b - a) * half)%num in
  let I0 := ((ya + yb) * h)%num in
  let IL0 := ((nabs Ops ya + nabs Ops yb) * h)%num in
  let* yh := f (a + h)%num in
  let I1 := (I0 * half + yh * h)%num in
  let IL1 := (IL0 * half + nabs Ops yh * h)%num in
  trap_loop 12 2 f a h I0 I1 IL1 (nabs Ops (I0 - I1)%num).

Definition boost_trapezoidal (f : T -> res T) (a b : T) : res T :=
  if neqb Ops a b then Ok (n0 Ops)
  else if ngtb Ops a b then let* r := trap_core f b a in Ok (nneg Ops r)
  else trap_core f a b.

(** the back ends of Integrate with these two filled in *)
Definition with_modelled_backends (I0 : backend -> (T -> res T) -> T -> T -> res T) : backend -> (T -> res T) -> T -> T -> res T :=
  fun B => match B with
           | B_trapezoidal => boost_trapezoidal
           | B_gauss30 => boost_gauss30
           | _ => I0 B
           end.

End Model2.
