From Coq Require Import Extraction ExtrOcamlBasic ZArith List.
From LP Require Import Num C07_Model.
Extraction Language OCaml.
Extraction "C07_m.ml" pdf_uniform cdf_uniform pdf_gauss cdf_gauss quantile_gauss pdf_gauss_2d
  pmf_binomial cdf_binomial pmf_poisson cdf_poisson inv_cdf_poisson pdf_chi_square cdf_chi_square
  pdf_chi_bar_square cdf_chi_bar_square pdf_exponential cdf_exponential pdf_maxwell_boltzmann
  cdf_maxwell_boltzmann log_likelihood_poisson likelihood_poisson log_likelihood_poisson_binned
  likelihood_poisson_binned lik_answer lik_session gaussian_kernel perform_kde inv_erf_fn quantile_gauss_lib Z.of_nat Z.to_nat.
