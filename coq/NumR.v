(** * NumR: the real-number instance of [NumOps], on which the theorems are stated. *)
From Coq Require Import Reals ZArith Lra Lia.
From Coquelicot Require Import Coquelicot.
From LP Require Import Num.
Local Open Scope R_scope.

(** erf is *defined* by its integral; nothing about it is assumed. *)
Definition Rerf (x : R) : R := 2 / sqrt PI * RInt (fun t => exp (- (t * t))) 0 x.

Definition Rltb (x y : R) : bool := if Rlt_dec x y then true else false.
Definition Rleb (x y : R) : bool := if Rle_dec x y then true else false.
Definition Reqb (x y : R) : bool := if Req_EM_T x y then true else false.

Definition ROps : NumOps R := {|
  n0 := 0; n1 := 1;
  nadd := Rplus; nsub := Rminus; nmul := Rmult; ndiv := Rdiv;
  nneg := Ropp; nabs := Rabs; nsqrt := sqrt;
  nltb := Rltb; nleb := Rleb; neqb := Reqb;
  nofZ := IZR;
  nisnan := fun _ => false;
  nexp := exp; nln := ln; nlog10 := fun x => ln x / ln 10; nsin := sin; ncos := cos; nacos := acos;
  nfloor := fun x => IZR (Int_part x); nerf := Rerf;
  npow := Rpower;
  npowi := powerRZ;
  nlit := fun num den _ _ => IZR num / IZR den;
  ntrunc := fun x => if Rle_dec 0 x then Int_part x else (- Int_part (- x))%Z
|}.

Lemma Rltb_true x y : Rltb x y = true <-> x < y.
Proof. unfold Rltb; destruct (Rlt_dec x y); split; intros; try easy. Qed.
Lemma Rltb_false x y : Rltb x y = false <-> y <= x.
Proof. unfold Rltb; destruct (Rlt_dec x y); split; intros; try easy; lra. Qed.
Lemma Rleb_true x y : Rleb x y = true <-> x <= y.
Proof. unfold Rleb; destruct (Rle_dec x y); split; intros; try easy. Qed.
Lemma Rleb_false x y : Rleb x y = false <-> y < x.
Proof. unfold Rleb; destruct (Rle_dec x y); split; intros; try easy; lra. Qed.
Lemma Reqb_true x y : Reqb x y = true <-> x = y.
Proof. unfold Reqb; destruct (Req_EM_T x y); split; intros; try easy. Qed.
Lemma Reqb_false x y : Reqb x y = false <-> x <> y.
Proof. unfold Reqb; destruct (Req_EM_T x y); split; intros; try easy. Qed.

Lemma Rltb_spec x y : Bool.reflect (x < y) (Rltb x y).
Proof. unfold Rltb; destruct (Rlt_dec x y); constructor; assumption. Qed.
Lemma Rleb_spec x y : Bool.reflect (x <= y) (Rleb x y).
Proof. unfold Rleb; destruct (Rle_dec x y); constructor; assumption. Qed.
Lemma Reqb_spec x y : Bool.reflect (x = y) (Reqb x y).
Proof. unfold Reqb; destruct (Req_EM_T x y); constructor; assumption. Qed.

(** [npow] on the reals is [Rpower] (exp (y ln x)), which coincides with C's pow for positive bases;
    the models call it with integer exponents 2, 3, 4 on possibly negative bases only through
    [npow_nat]-style helpers defined next to each model (pow(x,2.0) = x*x exactly in R). *)
