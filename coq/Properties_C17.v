(** C17 — property theorems only.  Each is closed by [exact] of a lemma proved in C17_Proofs*.v.
    The functions g_* (Sign, Sign(x,y), StepFunction, Relative_Difference, Floats_Equal, VSH_Y_Component,
    VSH_Psi_Component) are translated from src/Special_Functions.cpp on every run (Gen_C17_Formulas.v, T-tie);
    round / dawson / erfi / inv_erf / vector_spherical_harmonics_* are the hand-written models of C17_Model.v
    (C-tie).  Not theorems (see checks/C17.py LEVEL_TEXT): Dawson's 2e-7 and Erfi's 1e-6 accuracy for all x
    (S3 certified samples + S4), conjugation symmetry of boost's Y_lm (S4). *)
From Coq Require Import Reals ZArith List Bool Lra Lia.
From Coquelicot Require Import Coquelicot.
From LP Require Import Num NumR OrdLaws Gen_C17_Formulas C17_Model C17_Defs C17_Proofs C17_Proofs_Round C17_Proofs_InvErf C17_Proofs_VSH C17_Proofs_Hist C17_Proofs_Series C17_Proofs_Conj C17_Proofs_Throw Gen_C17_More C17_GenTie C17_Proofs_Gen.
Import ListNotations.
Local Open Scope R_scope.

(** ** "Sign, StepFunction, Relative_Difference and Floats_Equal are consistent" *)

(** Sign(arg) is 1, 0 or -1 according to arg > 0.0, arg == 0.0, arg < 0.0 — over any strict total order
    (no arithmetic law: holds verbatim for doubles other than NaN). *)
Theorem C17_sign_cases {T} (Ops : NumOps T) (L : OrdLaws Ops) (x : T) :
  let zero := nlit Ops 0 1 0 0 in
  (g_Sign Ops x = 1%Z /\ nltb Ops zero x = true) \/
  (g_Sign Ops x = 0%Z /\ neqb Ops x zero = true) \/
  (g_Sign Ops x = (-1)%Z /\ nltb Ops x zero = true).
Proof. exact (gen_sign_cases Ops L x). Qed.
Print Assumptions C17_sign_cases.

(** Sign(x,y) returns x when Sign(x) = Sign(y) and -1.0 * x otherwise (any order); over R, for non-zero
    arguments, that is |x| with the sign of y. *)
Theorem C17_sign2_spec {T} (Ops : NumOps T) (L : OrdLaws Ops) (x y : T) :
  let zero := nlit Ops 0 1 0 0 in
  ((nltb Ops zero x = true /\ nltb Ops zero y = true) \/ (nltb Ops x zero = true /\ nltb Ops y zero = true) \/
   (neqb Ops x zero = true /\ neqb Ops y zero = true) -> g_Sign2 Ops x y = x) /\
  ((nltb Ops zero x = true /\ nltb Ops y zero = true) \/ (nltb Ops x zero = true /\ nltb Ops zero y = true) ->
   g_Sign2 Ops x y = nmul Ops (nneg Ops (nlit Ops 1 1 1 0)) x).
Proof. exact (conj (gen_sign2_same Ops L x y) (gen_sign2_opposite Ops L x y)). Qed.
Print Assumptions C17_sign2_spec.

Theorem C17_sign2_real (x y : R) : x <> 0 -> y <> 0 ->
  g_Sign2 ROps x y = if Rlt_dec 0 y then Rabs x else - Rabs x.
Proof. exact (sign2_R x y). Qed.
Print Assumptions C17_sign2_real.

(** StepFunction(x) = 1.0 for 0 <= x and 0.0 for x < 0 (any order). *)
Theorem C17_step_spec {T} (Ops : NumOps T) (L : OrdLaws Ops) (x : T) :
  (nleb Ops (nofZ Ops 0) x = true /\ g_StepFunction Ops x = nlit Ops 1 1 1 0) \/
  (nltb Ops x (nofZ Ops 0) = true /\ g_StepFunction Ops x = nlit Ops 0 1 0 0).
Proof. exact (gen_step_spec Ops L x). Qed.
Print Assumptions C17_step_spec.

(** "Floats_Equal is symmetric": over R ... *)
Theorem C17_floats_equal_symmetric (a b tol : R) : g_Floats_Equal ROps a b tol = g_Floats_Equal ROps b a tol.
Proof. exact (floats_equal_sym a b tol). Qed.
Print Assumptions C17_floats_equal_symmetric.

(** ... and for doubles with rounding: over any strict total order, using only that a - b and b - a have the
    same absolute value and that equal absolute values are identical (both exact facts of IEEE arithmetic). *)
Theorem C17_floats_equal_symmetric_order {T} (Ops : NumOps T) (L : OrdLaws Ops) (a b tol : T) :
  (forall u v, nabs Ops (nsub Ops u v) = nabs Ops (nsub Ops v u)) ->
  (forall u v, neqb Ops (nabs Ops u) (nabs Ops v) = true -> nabs Ops u = nabs Ops v) ->
  g_Floats_Equal Ops a b tol = g_Floats_Equal Ops b a tol.
Proof. exact (gen_floats_equal_sym_order Ops L a b tol). Qed.
Print Assumptions C17_floats_equal_symmetric_order.

(** "Floats_Equal is reflexive": Relative_Difference(a,a) = 0 for every a, also a = 0 (the (0,0) case used to be
    0/0), hence Floats_Equal(a,a,tol) for every positive tolerance. *)
Theorem C17_floats_equal_reflexive (a tol : R) : 0 < tol ->
  g_Relative_Difference ROps a a = 0 /\ g_Floats_Equal ROps a a tol = true.
Proof. exact (fun H => conj (reldiff_refl a) (floats_equal_refl a tol H)). Qed.
Print Assumptions C17_floats_equal_reflexive.

(** Floats_Equal(a,b,tol) <-> |a - b| < tol * max(|a|,|b|), or a = b = 0. *)
Theorem C17_floats_equal_consistent (a b tol : R) : 0 < tol ->
  g_Floats_Equal ROps a b tol = true <-> (Rabs (a - b) < tol * Rmax (Rabs a) (Rabs b) \/ (a = 0 /\ b = 0)).
Proof. exact (floats_equal_iff a b tol). Qed.
Print Assumptions C17_floats_equal_consistent.

(** ** "Round(x,d) is odd, idempotent, monotone and within half a unit of the d-th significant digit of x" *)

(** round_spec: for x <> 0 and d = 1..7, with k the decade of |x| (10^k <= |x| < 10^(k+1)) and q = 10^(k-d+1)
    one unit of the d-th significant digit, Round returns sign(x) * floor(|x|/q + 1/2) * q — the multiple of q
    nearest to x, halves away from zero — which is within q/2 of x. *)
Theorem C17_round_spec (x : R) (d : Z) : x <> 0 -> (1 <= d <= 7)%Z ->
  let k := decade_of x in let q := powerRZ 10 (k - d + 1) in
  powerRZ 10 k <= Rabs x < powerRZ 10 (k + 1) /\
  exists r, round ROps x d = Ok r /\
    r = (if Rlt_dec 0 x then 1 else -1) * IZR (Int_part (Rabs x / q + / 2)) * q /\
    Rabs (r - x) <= q / 2.
Proof. exact (round_spec x d). Qed.
Print Assumptions C17_round_spec.

(** odd: for every x and every digits (the call with -x exits exactly when the call with x does) *)
Theorem C17_round_odd (x : R) (d : Z) : round ROps (- x) d = rmap Ropp (round ROps x d).
Proof. exact (round_odd x d). Qed.
Print Assumptions C17_round_odd.

Theorem C17_round_idempotent (x : R) (d : Z) (r : R) : (1 <= d <= 7)%Z ->
  round ROps x d = Ok r -> round ROps r d = Ok r.
Proof. exact (round_idempotent x d r). Qed.
Print Assumptions C17_round_idempotent.

Theorem C17_round_monotone (x y : R) (d : Z) (rx ry : R) : (1 <= d <= 7)%Z -> x <= y ->
  round ROps x d = Ok rx -> round ROps y d = Ok ry -> rx <= ry.
Proof. exact (round_monotone x y d rx ry). Qed.
Print Assumptions C17_round_monotone.

(** Round(0,d) = 0 for d <= 7; more than 7 digits terminates the process (for every argument, 0 included) *)
Theorem C17_round_zero_and_guard (x : R) (d : Z) :
  ((d <= 7)%Z -> round ROps 0 d = Ok 0) /\ ((7 < d)%Z -> round ROps x d = Exit).
Proof. exact (conj (round_zero d) (round_exit x d)). Qed.
Print Assumptions C17_round_zero_and_guard.

(** the Vector and Matrix overloads round element by element and keep the shape (any number type) *)
Theorem C17_round_containers {T} (Ops : NumOps T) (l l' : list T) (m m' : list (list T)) (d : Z) :
  (round_list Ops l d = Ok l' ->
     length l' = length l /\ forall i, (i < length l)%nat -> round Ops (nth i l (n0 Ops)) d = Ok (nth i l' (n0 Ops))) /\
  (round_table Ops m d = Ok m' ->
     length m' = length m /\ forall i, (i < length m)%nat -> round_list Ops (nth i m nil) d = Ok (nth i m' nil)).
Proof. exact (conj (round_list_spec Ops l l' d) (round_table_spec Ops m m' d)). Qed.
Print Assumptions C17_round_containers.

(** ** "Dawson_Integral is odd" (both branches: series for |x| < 0.2, sampling-theorem sum otherwise) *)
Theorem C17_dawson_odd (x : R) : dawson ROps (- x) = - dawson ROps x.
Proof. exact (dawson_odd x). Qed.
Print Assumptions C17_dawson_odd.

(** ** Erfi(x) = 2/sqrt(pi) exp(x^2) Dawson_Integral(x); it is odd; and it equals
    erfi(x) = 2/sqrt(pi) int_0^x exp(t^2) dt up to exactly the relative error d of Dawson_Integral(x) against
    Dawson's integral dawson_def x = int_0^x exp(t^2 - x^2) dt. *)
Theorem C17_erfi_def (x d : R) :
  erfi ROps PI x = 2 / sqrt PI * exp (x * x) * dawson ROps x /\
  erfi ROps PI (- x) = - erfi ROps PI x /\
  (dawson ROps x = dawson_def x * (1 + d) -> erfi ROps PI x = erfi_def x * (1 + d)).
Proof. exact (conj (erfi_model x) (conj (erfi_odd x) (erfi_error_of_dawson_error x d))). Qed.
Print Assumptions C17_erfi_def.

(** ** "Inv_Erf satisfies |Inv_Erf(p) - erfinv(p)| <= 1e-4 on (-1,1)"
    [FR] is the root finder (Find_Root in the library); its bracket guarantee — C02's accuracy theorem at the
    call Inv_Erf makes, with K the iteration cap of Find_Root (2200 now, 50 before) — is the hypothesis; erf is NumR.Rerf, defined by its integral, whose strict monotonicity
    is proved (C17_erf_increasing).  z with erf z = p is erfinv p. *)
Theorem C17_inv_erf_accuracy (FR : (R -> R) -> R -> R -> R -> res R) (K : nat) : (50 <= K)%nat ->
  (forall p r, FR (fun x => Rerf x - p) (- (10)) 10 (1 / 10000) = Ok r ->
     Rerf r - p = 0 \/
     exists x1 x2, - (10) <= x1 /\ x1 < x2 /\ x2 <= 10 /\ (Rerf x1 - p) * (Rerf x2 - p) < 0 /\ (r = x1 \/ r = x2) /\
       (x2 - x1 < 1 / 10000 \/ x2 - x1 <= (10 - - (10)) / 2 ^ K)) ->
  forall p r z, -1 < p < 1 -> 1 / 10000000000000000 <= Rabs (p - 1) -> 1 / 10000000000000000 <= Rabs (p + 1) ->
    inv_erf ROps FR p = Ok r -> Rerf z = p -> Rabs (r - z) <= 1 / 10000.
Proof. exact (fun HK => inv_erf_accuracy FR K (cap_ge_50_ok K HK)). Qed.
Print Assumptions C17_inv_erf_accuracy.

Theorem C17_erf_increasing (x y : R) : x < y -> Rerf x < Rerf y.
Proof. exact (Rerf_increasing x y). Qed.
Print Assumptions C17_erf_increasing.

(** what a certified sample (S3: erf(y - a) < p < erf(y + a), proved by Coq-Interval for the library's double
    y = Inv_Erf(p)) means: y is within a of erfinv p *)
Theorem C17_inv_erf_sample_criterion (y p z a : R) : Rerf (y - a) < p < Rerf (y + a) -> Rerf z = p -> Rabs (y - z) < a.
Proof. exact (erf_enclosure_accuracy y p z a). Qed.
Print Assumptions C17_inv_erf_sample_criterion.

(** the guards of Inv_Erf: p = 1 returns 10, p = -1 returns -10 (every double in (-1,1) is more than 1e-16 away from
    both: the neighbours of -+1 are -+(1 - 2^-53)), any other |p| >= 1 terminates the process *)
Theorem C17_inv_erf_guards (FR : (R -> R) -> R -> R -> R -> res R) (p : R) :
  inv_erf ROps FR 1 = Ok 10 /\ inv_erf ROps FR (- (1)) = Ok (- (10)) /\
  (1 <= Rabs p -> 1 / 10000000000000000 <= Rabs (p - 1) -> 1 / 10000000000000000 <= Rabs (p + 1) -> inv_erf ROps FR p = Exit).
Proof. exact (conj (inv_erf_one FR) (conj (inv_erf_minus_one FR) (inv_erf_guard FR p))). Qed.
Print Assumptions C17_inv_erf_guards.

(** ** Vector spherical harmonics — for ALL degrees l >= 0 and orders |m| <= l, from the tables as they are in the source now *)

(** every coefficient of VSH_Psi_Component is -l (for l_hat = l+1) or l+1 (for l_hat = l-1) times the coefficient
    of VSH_Y_Component: every component, l >= 0, m, l_hat, m_hat *)
Theorem C17_vsh_psi_table_relation (component l m l_hat m_hat : Z) : (0 <= l)%Z ->
  g_VSH_Psi_Component ROps component l m l_hat m_hat =
  rmap (cscale (if (l_hat =? l + 1)%Z then - IZR l else IZR (l + 1))) (g_VSH_Y_Component ROps component l m l_hat m_hat).
Proof. exact (psi_table_relation component l m l_hat m_hat). Qed.
Print Assumptions C17_vsh_psi_table_relation.

(** "the vector harmonic Y equals the radial unit vector times Y_lm": if the scalar harmonics [Y] (boost's in the
    library) satisfy the three classical recurrences at the direction (theta, phi), the summation loops — which
    skip the terms with |m_hat| > l_hat — return rhat * Y_lm component-wise. *)
Theorem C17_vsh_y_is_rhat_times_Y (Y : Z -> Z -> C) (theta phi : R) :
  (forall l m, (0 <= l)%Z -> (Z.abs m <= l)%Z ->
     (RtoC (cos theta) * Y l m =
      RtoC (cup (l - m + 1) (l + m + 1) l) * Y (l + 1)%Z m + RtoC (cdn (l - m) (l + m) l) * Y (l - 1)%Z m)%C) ->
  (forall l m, (0 <= l)%Z -> (Z.abs m <= l)%Z ->
     (RtoC (sin theta) * (cos phi, sin phi) * Y l m =
      - RtoC (cup (l + m + 1) (l + m + 2) l) * Y (l + 1)%Z (m + 1)%Z + RtoC (cdn (l - m - 1) (l - m) l) * Y (l - 1)%Z (m + 1)%Z)%C) ->
  (forall l m, (0 <= l)%Z -> (Z.abs m <= l)%Z ->
     (RtoC (sin theta) * (cos phi, (- sin phi)%R) * Y l m =
      RtoC (cup (l - m + 1) (l - m + 2) l) * Y (l + 1)%Z (m - 1)%Z - RtoC (cdn (l + m - 1) (l + m) l) * Y (l - 1)%Z (m - 1)%Z)%C) ->
  forall l m, (0 <= l)%Z -> (Z.abs m <= l)%Z ->
  vector_spherical_harmonics_Y ROps Y l m =
  Ok [(RtoC (sin theta * cos phi) * Y l m)%C; (RtoC (sin theta * sin phi) * Y l m)%C; (RtoC (cos theta) * Y l m)%C].
Proof. exact (vsh_y_is_rhat_times_Y Y theta phi). Qed.
Print Assumptions C17_vsh_y_is_rhat_times_Y.

(** "Psi is tangential and equals r times the gradient of Y_lm": with [G i l m] the i-th Cartesian component of
    r grad Y_lm and [n i] of rhat at the direction in question, under the classical identity
    r grad Y_lm = (l+1) [rhat Y_lm]_(l-1) - l [rhat Y_lm]_(l+1)  (the two halves of the Y summation) and the
    tangentiality of the gradient (premises), the Psi summation returns r grad Y_lm and rhat . Psi = 0.
    The content proved from the code is the table relation above, carried through the summation loops. *)
Theorem C17_psi_is_r_grad_Y (Y : Z -> Z -> R * R) (G : Z -> Z -> Z -> R * R) (n : Z -> R) :
  (forall i l m d u, (0 <= l)%Z -> (Z.abs m <= l)%Z -> (i = 0 \/ i = 1 \/ i = 2)%Z ->
     half Y (g_VSH_Y_Component ROps) i l m (l - 1) (Ok (0, 0)) = Ok d ->
     half Y (g_VSH_Y_Component ROps) i l m (l + 1) (Ok (0, 0)) = Ok u ->
     G i l m = axpy (axpy (0, 0) (IZR (l + 1)) d) (- IZR l) u) ->
  (forall l m, (0 <= l)%Z -> (Z.abs m <= l)%Z ->
     axpy (axpy (axpy (0, 0) (n 0%Z) (G 0%Z l m)) (n 1%Z) (G 1%Z l m)) (n 2%Z) (G 2%Z l m) = (0, 0)) ->
  forall l m, (0 <= l)%Z -> (Z.abs m <= l)%Z ->
  vector_spherical_harmonics_Psi ROps Y l m = Ok [G 0%Z l m; G 1%Z l m; G 2%Z l m] /\
  (forall p0 p1 p2, vector_spherical_harmonics_Psi ROps Y l m = Ok [p0; p1; p2] ->
     axpy (axpy (axpy (0, 0) (n 0%Z) p0) (n 1%Z) p1) (n 2%Z) p2 = (0, 0)).
Proof.
  exact (fun H1 H2 l m Hl Hm => conj (psi_is_r_grad_Y Y G H1 l m Hl Hm)
           (fun p0 p1 p2 => psi_tangential Y G n H1 H2 l m p0 p1 p2 Hl Hm)).
Qed.
Print Assumptions C17_psi_is_r_grad_Y.

(** the Psi summation is (l+1) * (lower half of the Y summation) - l * (upper half), unconditionally *)
Theorem C17_psi_sum_relation (Y : Z -> Z -> R * R) (i l m : Z) (d u : R * R) : (0 <= l)%Z ->
  half Y (g_VSH_Y_Component ROps) i l m (l - 1) (Ok (0, 0)) = Ok d ->
  half Y (g_VSH_Y_Component ROps) i l m (l + 1) (Ok (0, 0)) = Ok u ->
  vsh_sum ROps (g_VSH_Psi_Component ROps) Y i l m = Ok (axpy (axpy (0, 0) (IZR (l + 1)) d) (- IZR l) u).
Proof. exact (psi_sum_relation Y i l m d u). Qed.
Print Assumptions C17_psi_sum_relation.

(** ** "Dawson_Integral is ... accurate to 2e-7 absolutely": the small-argument branch, for EVERY real |x| < 0.2
    (the branch the source takes there).  The truncated series P satisfies P' + 2 x P = 1 - (16/105) x^8, hence
    P(x) - D(x) = -exp(-x^2) int_0^x exp(t^2) (16/105) t^8 dt and |P(x) - D(x)| <= (16/945) |x|^9 <= 8.7e-9.
    D = dawson_def is Dawson's integral int_0^x exp(t^2 - x^2) dt.  (The large-argument branch stays S3/S4.) *)
Theorem C17_dawson_series_accuracy (x : R) : Rabs x < 1 / 5 ->
  Rabs (dawson ROps x - dawson_def x) <= 16 / 945 * Rabs x ^ 9 /\
  Rabs (dawson ROps x - dawson_def x) <= 2 / 10000000.
Proof. exact (fun H => conj (dawson_series_error x H) (dawson_series_accuracy x H)). Qed.
Print Assumptions C17_dawson_series_accuracy.
Example C17_dawson_series_accuracy_nonvacuous : Rabs (1 / 10) < 1 / 5.
Proof. rewrite Rabs_pos_eq; lra. Qed.

(** "Erfi [is accurate] to 1e-6 relatively": for EVERY real |x| < 0.2 (there Erfi goes through the series branch of Dawson_Integral);
    erfi_def x = 2/sqrt(pi) int_0^x exp(t^2) dt.  (|x| >= 0.2 stays S3/S4.) *)
Theorem C17_erfi_series_accuracy (x : R) : Rabs x < 1 / 5 ->
  Rabs (erfi ROps PI x - erfi_def x) <= 1 / 1000000 * Rabs (erfi_def x).
Proof. exact (erfi_series_accuracy x). Qed.
Print Assumptions C17_erfi_series_accuracy.

(** ** the static table of Dawson_Integral ("static c[NMAX] ... rebuilt on every call") as explicit state, any number type
    (doubles included): after ANY history of Dawson_Integral calls, started from ANY table of NMAX = 6 entries, every answer is the
    pure function's; the table keeps its size. *)
Theorem C17_dawson_history_independent {T} (Ops : NumOps T) (c xs : list T) : length c = 6%nat ->
  snd (dawson_run Ops c xs) = map (dawson Ops) xs /\ length (fst (dawson_run Ops c xs)) = 6%nat.
Proof. exact (dawson_history_independent Ops c xs). Qed.
Print Assumptions C17_dawson_history_independent.
Example C17_dawson_history_nonvacuous : length (daw_table0 ROps) = 6%nat /\ dawson_run ROps (daw_table0 ROps) [1; 1 / 10] <> (daw_table0 ROps, []).
Proof. split; [reflexivity|]. unfold dawson_run. cbn [fold_left]. intros H. apply (f_equal (fun p => length (snd p))) in H. cbn in H. discriminate H. Qed.

(** the same for mixed histories of Dawson_Integral (false) and Erfi (true) requests — Erfi goes through Dawson_Integral *)
Theorem C17_special_history_independent {T} (Ops : NumOps T) (pi : T) (c : list T) (qs : list (bool * T)) : length c = 6%nat ->
  snd (special_run Ops pi c qs) = map (fun q : bool * T => if fst q then erfi Ops pi (snd q) else dawson Ops (snd q)) qs /\
  length (fst (special_run Ops pi c qs)) = 6%nat.
Proof. exact (special_history_independent Ops pi c qs). Qed.
Print Assumptions C17_special_history_independent.

(** one call from any table: the value, and what the table is afterwards (unchanged by the series branch, the six exponentials otherwise) *)
Theorem C17_dawson_call_from_any_table {T} (Ops : NumOps T) (c : list T) (x : T) : length c = 6%nat ->
  snd (dawson_st Ops c x) = dawson Ops x /\
  fst (dawson_st Ops c x) = if nltb Ops (nabs Ops x) (ndec Ops 1 5) then c else map (daw_c Ops) [0; 1; 2; 3; 4; 5]%Z.
Proof. exact (fun H => conj (dawson_st_value Ops c x H) (dawson_st_table Ops c x H)). Qed.
Print Assumptions C17_dawson_call_from_any_table.

(** ** "Round (3 overloads)": the Vector and Matrix overloads, any number type: they return [l'] exactly when every entry is
    the scalar Round of the corresponding entry (same shape) *)
Theorem C17_round_containers_iff {T} (Ops : NumOps T) (l l' : list T) (m m' : list (list T)) (d : Z) :
  (round_list Ops l d = Ok l' <-> Forall2 (fun x r => round Ops x d = Ok r) l l') /\
  (round_table Ops m d = Ok m' <-> Forall2 (Forall2 (fun x r => round Ops x d = Ok r)) m m').
Proof. exact (conj (round_list_iff Ops l l' d) (round_table_iff Ops m m' d)). Qed.
Print Assumptions C17_round_containers_iff.

(** they never terminate the process for digits <= 7, and for digits > 7 exactly when there is an entry to round *)
Theorem C17_round_containers_exit {T} (Ops : NumOps T) (l : list T) (m : list (list T)) (d : Z) :
  ((d <= 7)%Z -> (exists l', round_list Ops l d = Ok l') /\ (exists m', round_table Ops m d = Ok m')) /\
  ((7 < d)%Z ->
     round_list Ops l d = (if match l with [] => true | _ => false end then Ok [] else Exit) /\
     round_table Ops m d = (if forallb (fun row => match row with [] => true | _ => false end) m then Ok (map (fun _ => []) m) else Exit)).
Proof.
  exact (conj (fun H => conj (round_list_total Ops l d H) (round_table_total Ops m d H))
              (fun H => conj (round_list_exit Ops l d H) (round_table_exit Ops m d H))).
Qed.
Print Assumptions C17_round_containers_exit.

(** odd, idempotent, within half a unit (zeros stay zeros), for vectors and matrices of any shape; monotone entry by entry *)
Theorem C17_round_containers_odd (l l' : list R) (m m' : list (list R)) (d : Z) :
  (round_list ROps l d = Ok l' -> round_list ROps (map Ropp l) d = Ok (map Ropp l')) /\
  (round_table ROps m d = Ok m' -> round_table ROps (map (map Ropp) m) d = Ok (map (map Ropp) m')).
Proof. exact (conj (round_list_odd l l' d) (round_table_odd m m' d)). Qed.
Print Assumptions C17_round_containers_odd.

Theorem C17_round_containers_idempotent (l l' : list R) (m m' : list (list R)) (d : Z) : (1 <= d <= 7)%Z ->
  (round_list ROps l d = Ok l' -> round_list ROps l' d = Ok l') /\
  (round_table ROps m d = Ok m' -> round_table ROps m' d = Ok m').
Proof. exact (fun H => conj (round_list_idempotent l l' d H) (round_table_idempotent m m' d H)). Qed.
Print Assumptions C17_round_containers_idempotent.

Theorem C17_round_containers_half_unit (l l' : list R) (m m' : list (list R)) (d : Z) : (1 <= d <= 7)%Z ->
  (round_list ROps l d = Ok l' -> Forall2 (within_half_unit d) l l') /\
  (round_table ROps m d = Ok m' -> Forall2 (Forall2 (within_half_unit d)) m m').
Proof. exact (fun H => conj (round_list_half_unit l l' d H) (round_table_half_unit m m' d H)). Qed.
Print Assumptions C17_round_containers_half_unit.

Theorem C17_round_vector_monotone (l1 l2 r1 r2 : list R) (d : Z) : (1 <= d <= 7)%Z -> Forall2 Rle l1 l2 ->
  round_list ROps l1 d = Ok r1 -> round_list ROps l2 d = Ok r2 -> Forall2 Rle r1 r2.
Proof. exact (round_list_monotone l1 l2 r1 r2 d). Qed.
Print Assumptions C17_round_vector_monotone.
Example C17_round_containers_nonvacuous :
  (exists l', round_list ROps [1; - (5 / 2); 0] 3 = Ok l') /\ (exists m', round_table ROps [[1; 2]; [- (3)]] 3 = Ok m') /\ Forall2 Rle [1; 2] [1; 3].
Proof.
  split; [apply round_list_total; lia|]. split; [apply round_table_total; lia|].
  repeat constructor; lra.
Qed.

(** ** "Round(x,d) is ... within half a unit of the d-th significant digit of x" for a call made at ANY point of a process: a history of Round
    requests (scalar = table of one entry, Vector = table of one row, Matrix), any number type (doubles with NaN / infinite / zero entries included),
    any digits: the answer to each request is the answer of the pure function to that request alone, whatever was requested before or after;
    and a history whose requests all have digits <= 7 never exits *)
Theorem C17_round_history_independent {T} (Ops : NumOps T) (pre post : list (Z * list (list T))) (q : Z * list (list T)) (outs : list (list (list T))) :
  round_run Ops (pre ++ q :: post) = Ok outs ->
  length outs = length (pre ++ q :: post) /\ round_table Ops (snd q) (fst q) = Ok (nth (length pre) outs []).
Proof. exact (round_history_independent Ops pre post q outs). Qed.
Print Assumptions C17_round_history_independent.

Theorem C17_round_history_total {T} (Ops : NumOps T) (qs : list (Z * list (list T))) :
  List.Forall (fun q => (fst q <= 7)%Z) qs -> exists outs, round_run Ops qs = Ok outs.
Proof. exact (round_run_total Ops qs). Qed.
Print Assumptions C17_round_history_total.
Example C17_round_history_nonvacuous : exists outs, round_run ROps [(2%Z, [[PI]]); (5%Z, [[0; -1]]); (5%Z, [[PI]; [2]])] = Ok outs.
Proof. apply round_run_total. repeat constructor; cbn; lia. Qed.

(** ** Relative_Difference over R: symmetric, in [0, 2], and zero exactly for equal arguments *)
Theorem C17_relative_difference_spec (a b : R) :
  g_Relative_Difference ROps a b = g_Relative_Difference ROps b a /\
  0 <= g_Relative_Difference ROps a b <= 2 /\
  (g_Relative_Difference ROps a b = 0 <-> a = b).
Proof. exact (conj (reldiff_sym a b) (conj (conj (reldiff_nonneg a b) (reldiff_le_2 a b)) (reldiff_zero_iff a b))). Qed.
Print Assumptions C17_relative_difference_spec.

(** ** "Y_{l,-m} equals (-1)^m times the conjugate of Y_{l,m}" carried from the scalar harmonics to BOTH vector harmonics, for all
    l >= 0 and |m| <= l: if the scalar harmonics [Y] (boost's in the library) have the symmetry at the direction in question, the
    summation loops over the translated coefficient tables return Vector_Y_{l,-m} = (-1)^m conj(Vector_Y_{l,m}) and
    Vector_Psi_{l,-m} = (-1)^m conj(Vector_Psi_{l,m}), component by component.  [mirror m z] = (-1)^m conj z. *)
Theorem C17_vsh_conjugation (Y : Z -> Z -> R * R) :
  (forall lh mh, Y lh (- mh)%Z = cscale (if Z.even mh then 1 else -1) (fst (Y lh mh), - snd (Y lh mh))) ->
  forall l m, (0 <= l)%Z -> (Z.abs m <= l)%Z ->
  let M := fun z : R * R => cscale (if Z.even m then 1 else -1) (fst z, - snd z) in
  vector_spherical_harmonics_Y ROps Y l (- m) = rmap (map M) (vector_spherical_harmonics_Y ROps Y l m) /\
  vector_spherical_harmonics_Psi ROps Y l (- m) = rmap (map M) (vector_spherical_harmonics_Psi ROps Y l m).
Proof. exact (vsh_conjugation Y). Qed.
Print Assumptions C17_vsh_conjugation.
(** the premise is satisfiable by a non-zero family: Y_{l,0} = 1, all other orders 0 *)
Example C17_vsh_conjugation_nonvacuous : let Y := fun (_ mh : Z) => if (mh =? 0)%Z then (1, 0) else (0, 0) in
  (forall lh mh, Y lh (- mh)%Z = cscale (if Z.even mh then 1 else -1) (fst (Y lh mh), - snd (Y lh mh))) /\ Y 3%Z 0%Z <> (0, 0).
Proof.
  cbn zeta. split.
  - intros _ mh. destruct (Z.eqb_spec mh 0) as [->|N].
    + cbn. unfold cscale. cbn. f_equal; ring.
    + replace (- mh =? 0)%Z with false by (symmetry; apply Z.eqb_neq; lia). unfold cscale. cbn. destruct (Z.even mh); f_equal; ring.
  - cbn. intros H. injection H as H. lra.
Qed.

(** ** the vector-harmonic clauses for a call made at ANY point of a process in which the scalar-harmonic back end may abandon evaluations by
    throwing (boost reports an overflow that way at very high orders, far beyond l <= 12; the caller may catch and go on).  [Y lh mh = None] = the
    evaluation of Y_{lh,mh} throws; [Ok None] = the call is abandoned by the exception.  Any number type (doubles included), any coefficient table,
    any degree and order:
    (1) if the neighbour evaluations the loops make (l_hat = l -+ 1, m_hat = m - 1 .. m + 1, |m_hat| <= l_hat) all answer, the call returns exactly
        what the exception-free model [vsh_vector] returns for those values - so the theorems above (Y = rhat Y_lm, Psi = r grad Y_lm, tangential,
        conjugation) hold for it;
    (2) if one of them throws (and the table entries exist), the whole call is abandoned: no partial vector is returned;
    (3) in a history of requests - Vector_Spherical_Harmonics_Y (0), _Psi (1), Spherical_Harmonics (other), answered and abandoned ones mixed -
        the outcome of every request is the outcome of that request alone, whatever was requested (and abandoned) before or after it. *)
Theorem C17_vsh_call_refines_when_back_end_answers {T} (Ops : NumOps T) comp (Y : Z -> Z -> option (T * T)) (Yt : Z -> Z -> T * T) (l m : Z) :
  (forall lh mh, needed l m lh mh -> Y lh mh = Some (Yt lh mh)) ->
  vsh_vector_x Ops comp Y l m = rsome (vsh_vector Ops comp Yt l m).
Proof. exact (vector_x_refines Ops comp Y Yt l m). Qed.
Print Assumptions C17_vsh_call_refines_when_back_end_answers.

Theorem C17_vsh_call_abandoned_when_back_end_throws {T} (Ops : NumOps T) comp (Y : Z -> Z -> option (T * T)) (l m lh mh : Z) :
  (forall i lh mh, exists c, comp i l m lh mh = Ok c) ->
  needed l m lh mh -> Y lh mh = None -> vsh_vector_x Ops comp Y l m = Ok None.
Proof. exact (vector_x_throws Ops comp Y l m lh mh). Qed.
Print Assumptions C17_vsh_call_abandoned_when_back_end_throws.

Theorem C17_vsh_history_independent_with_throws {T} (Ops : NumOps T) (pre post : list (Z * Z * Z * (Z -> Z -> option (T * T)))) q
    (outs : list (option (list (T * T)))) :
  vsh_run_x Ops (pre ++ q :: post) = Ok outs ->
  length outs = length (pre ++ q :: post) /\ vsh_call_x Ops q = Ok (nth (length pre) outs None).
Proof. exact (run_x_independent Ops pre post q outs). Qed.
Print Assumptions C17_vsh_history_independent_with_throws.
(** non-vacuity: a needed neighbour; an abandoned call over R; a history in which an abandoned request is followed by an answered one *)
Example C17_vsh_throws_nonvacuous :
  needed 1700 1605 1699 1606 /\
  (vsh_vector_x ROps (fun _ _ _ _ _ => Ok (1, 0)) (fun _ mh => if (mh =? 2)%Z then None else Some (1, 0)) 2 1 = Ok None).
Proof.
  split; [unfold needed; lia|].
  apply (vector_x_throws ROps _ _ 2 1 3 2)%Z; [intros; eexists; reflexivity|unfold needed; lia|reflexivity].
Qed.
Example C17_vsh_history_with_throw_nonvacuous :
  let q1 : Z * Z * Z * (Z -> Z -> option (R * R)) := (2%Z, 1700%Z, 1606%Z, fun _ _ => None) in
  let q2 : Z * Z * Z * (Z -> Z -> option (R * R)) := (2%Z, 1%Z, 1%Z, fun _ _ => Some (1, 0)) in
  vsh_run_x ROps (q1 :: q2 :: nil) = Ok (None :: Some ((1, 0) :: nil) :: nil).
Proof. reflexivity. Qed.

(** ** T-tie, second part (seventh pass): Round, Dawson_Integral, Erfi and Inv_Erf themselves are regenerated from src/Special_Functions.cpp
    on every run ([Gen_C17_More.v], written by tools/cxx2gallina_C17.py from clang's AST before this file is rebuilt) and ARE the hand model
    the theorems above are about.  For every arithmetic satisfying the literal laws ([LitLaws]: a literal is the quotient num/den it spells,
    an integer literal is the integer, 0 and 1 are the ring constants) and whatever the library functions they call return (parameters):
    the two Sign overloads are [sign1] / [sign2]; the generated Round (N *= sign, the three reassignments of prefactor, digits - 1 in unsigned
    arithmetic) is [round]; the generated Dawson_Integral - its [static std::vector<double> c(NMAX)] as explicit state (table at entry ->
    table at exit, value), both counted loops unrolled with the bound NMAX = 6 read from the source - is the stateful model [dawson_st]
    (whose loops are Fixpoints with fuel 6), for every table; the generated Erfi over the generated Dawson_Integral is [erfi_st] / [erfi];
    the generated Inv_Erf (guards, the lambda x -> erf(x) - p, the bracket -10, 10 and the accuracy 1e-4 handed to Find_Root) is [inv_erf].
    The reals satisfy the laws (first conjunct: non-vacuity).  A changed formula, comparison, guard, literal, loop bound, increment, table
    index or operand order in one of these C++ functions breaks this theorem before any case is run. *)
Theorem C17_generated_round_dawson_erfi_inv_erf_are_model :
  LitLaws ROps /\
  forall (T : Type) (Ops : NumOps T), LitLaws Ops ->
  forall (pi_c : T) (sign_f : T -> Z) (sign2_f : T -> T -> T) (dawson_f : T -> T) (FR : (T -> T) -> T -> T -> T -> res T),
  (forall x, g_Sign Ops x = sign1 Ops x) /\
  (forall x y, g_Sign2 Ops x y = sign2 Ops x y) /\
  (forall N digits, g_Round Ops pi_c (g_Sign Ops) sign2_f dawson_f FR N digits = round Ops N digits) /\
  (forall c x, g_Dawson_Integral Ops pi_c sign_f (g_Sign2 Ops) dawson_f FR c x = dawson_st Ops c x) /\
  (forall x, g_Erfi Ops pi_c sign_f sign2_f (dawson Ops) FR x = erfi Ops pi_c x) /\
  (forall c x, (let cy := g_Dawson_Integral Ops pi_c sign_f (g_Sign2 Ops) dawson_f FR c x in
                (fst cy, g_Erfi Ops pi_c sign_f sign2_f (fun _ => snd cy) FR x)) = erfi_st Ops pi_c c x) /\
  (forall p, g_Inv_Erf Ops pi_c sign_f sign2_f dawson_f FR p = inv_erf Ops FR p).
Proof. exact generated_more_are_model. Qed.
Print Assumptions C17_generated_round_dawson_erfi_inv_erf_are_model.

(** "Round(x,d) is odd, idempotent, monotone and within half a unit of the d-th significant digit of x", stated directly about the term generated
    from the C++ of Round (no hand model in the statement; the callees it does not use are arbitrary): for every real x <> 0 and d = 1..7 the result
    is the multiple of q = 10^(k-d+1) nearest to x (halves away from zero), within q/2; odd for every x and digits; idempotent; monotone; 0 -> 0
    for digits <= 7 and digits > 7 terminates the process. *)
Theorem C17_generated_round_clauses (pi_c : R) (s2f : R -> R -> R) (df : R -> R) (FR : (R -> R) -> R -> R -> R -> res R) :
  let Round := fun x d => g_Round ROps pi_c (g_Sign ROps) s2f df FR x d in
  (forall x d, x <> 0 -> (1 <= d <= 7)%Z ->
     let k := decade_of x in let q := powerRZ 10 (k - d + 1) in
     powerRZ 10 k <= Rabs x < powerRZ 10 (k + 1) /\
     exists r, Round x d = Ok r /\
       r = (if Rlt_dec 0 x then 1 else -1) * IZR (Int_part (Rabs x / q + / 2)) * q /\ Rabs (r - x) <= q / 2) /\
  (forall x d, Round (- x) d = rmap Ropp (Round x d)) /\
  (forall x d r, (1 <= d <= 7)%Z -> Round x d = Ok r -> Round r d = Ok r) /\
  (forall x y d rx ry, (1 <= d <= 7)%Z -> x <= y -> Round x d = Ok rx -> Round y d = Ok ry -> rx <= ry) /\
  (forall x d, ((d <= 7)%Z -> Round 0 d = Ok 0) /\ ((7 < d)%Z -> Round x d = Exit)).
Proof. exact (gen_round_clauses pi_c s2f df FR). Qed.
Print Assumptions C17_generated_round_clauses.

(** "Dawson_Integral is odd and accurate to 2e-7 absolutely" (series branch), stated directly about the term generated from the C++ of
    Dawson_Integral with its static table as state: called with ANY table of six entries (whatever earlier calls left there) the value is odd in x,
    a repeat of the call from the table it left returns the same value, the table keeps six entries, and for every real |x| < 0.2 the value is
    within (16/945)|x|^9 <= 2e-7 of Dawson's integral. *)
Theorem C17_generated_dawson_clauses (pi_c : R) (sf : R -> Z) (df : R -> R) (FR : (R -> R) -> R -> R -> R -> res R) (c : list R) (x : R) :
  let D := fun c x => g_Dawson_Integral ROps pi_c sf (g_Sign2 ROps) df FR c x in
  length c = 6%nat ->
  snd (D c (- x)) = - snd (D c x) /\
  length (fst (D c x)) = 6%nat /\
  snd (D (fst (D c x)) x) = snd (D c x) /\
  (Rabs x < 1 / 5 -> Rabs (snd (D c x) - dawson_def x) <= 16 / 945 * Rabs x ^ 9 /\ Rabs (snd (D c x) - dawson_def x) <= 2 / 10000000).
Proof. exact (gen_dawson_clauses pi_c sf df FR c x). Qed.
Print Assumptions C17_generated_dawson_clauses.
Example C17_generated_dawson_nonvacuous : length (daw_table0 ROps) = 6%nat /\ Rabs (1 / 10) < 1 / 5.
Proof. exact gen_dawson_nonvacuous. Qed.

(** Inv_Erf's guards, about the term generated from the C++ of Inv_Erf: p = 1 -> 10, p = -1 -> -10, any other |p| >= 1 terminates the process,
    whatever Find_Root is. *)
Theorem C17_generated_inv_erf_guards (pi_c : R) (sf : R -> Z) (s2f : R -> R -> R) (df : R -> R) (FR : (R -> R) -> R -> R -> R -> res R) (p : R) :
  let I := g_Inv_Erf ROps pi_c sf s2f df FR in
  I 1 = Ok 10 /\ I (- (1)) = Ok (- (10)) /\
  (1 <= Rabs p -> 1 / 10000000000000000 <= Rabs (p - 1) -> 1 / 10000000000000000 <= Rabs (p + 1) -> I p = Exit).
Proof. exact (gen_inv_erf_guards pi_c sf s2f df FR p). Qed.
Print Assumptions C17_generated_inv_erf_guards.
