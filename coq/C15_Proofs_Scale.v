(** * C15 — the Householder construction is scale-free over the reals
    Householder_Matrix(c M) = Householder_Matrix(M) for every c > 0: alpha, the vector x - alpha e1 and its length all scale
    by c, and c cancels in u = (x - alpha e1) / |x - alpha e1|.  This is why the check evaluates the clauses of the property on
    M / 2^e (checks/C15.py) and why a failure that depends on the overall scale of the matrix can only come from the range
    of the doubles (squares that overflow / underflow) or from a tolerance that is absolute where it must be relative. *)
From Coq Require Import Reals List Lra ZArith Lia.
From LP Require Import Num NumR C15_Model C15_Proofs.
Import ListNotations.
Local Open Scope R_scope.

Definition mscale (c : R) (m : list (list R)) : list (list R) := map (map (Rmult c)) m.

Lemma nth_scale c (l : list R) k : nth k (map (Rmult c) l) 0 = c * nth k l 0.
Proof. rewrite <- (Rmult_0_r c) at 1. apply map_nth. Qed.

Lemma mcol_mscale c m : mcol ROps (mscale c m) 0 = map (Rmult c) (mcol ROps m 0).
Proof.
  unfold mcol, mscale. rewrite !map_map. apply map_ext. intros row. unfold nth0. cbn [ROps n0]. apply nth_scale.
Qed.

Lemma sign1_scale c a : 0 < c -> sign1 ROps (c * a) = sign1 ROps a.
Proof.
  intros Hc. unfold sign1, ngtb. cbn [ROps n0 nltb neqb].
  destruct (Rltb_spec 0 (c * a)) as [P | P]; destruct (Rltb_spec 0 a) as [Q | Q]; try reflexivity; try nra.
  destruct (Reqb_spec (c * a) 0) as [Z | Z]; destruct (Reqb_spec a 0) as [Z' | Z']; try reflexivity; nra.
Qed.

Lemma sign2_scale c a b : 0 < c -> sign2 ROps (c * a) (c * b) = c * sign2 ROps a b.
Proof.
  intros Hc. unfold sign2. rewrite !sign1_scale by exact Hc.
  destruct (Z.eqb _ _); cbn [ROps nmul nneg n1]; ring.
Qed.

Lemma vdot_scale c (x : list R) : vdot ROps (map (Rmult c) x) (map (Rmult c) x) = c * c * vdot ROps x x.
Proof.
  rewrite (vdot_rsum (map (Rmult c) x) (map (Rmult c) x) (length x)) by (rewrite map_length; reflexivity).
  rewrite (vdot_rsum x x (length x)) by reflexivity. rewrite <- rsum_scal. apply rsum_ext. intros k _.
  rewrite !nth_scale. ring.
Qed.

Lemma vnorm_scale c (x : list R) : 0 < c -> vnorm ROps (map (Rmult c) x) = c * vnorm ROps x.
Proof.
  intros Hc. unfold vnorm. cbn [ROps nsqrt]. rewrite vdot_scale.
  rewrite sqrt_mult_alt by nra. rewrite sqrt_square by lra. reflexivity.
Qed.

Lemma alpha_scale c (x : list R) : 0 < c ->
  householder_alpha ROps (map (Rmult c) x) = c * householder_alpha ROps x.
Proof.
  intros Hc. unfold householder_alpha. rewrite vnorm_scale by exact Hc. unfold nth0. cbn [ROps n0 nneg].
  rewrite nth_scale. replace (- (c * nth 0 x 0)) with (c * - nth 0 x 0) by ring. apply sign2_scale. exact Hc.
Qed.

Lemma householder_scale_free (m : list (list R)) (c : R) : 0 < c ->
  (exists k, (k < length (mcol ROps m 0))%nat /\ nth k (mcol ROps m 0) 0 <> 0) ->
  forall i j, (i < length (mcol ROps m 0))%nat -> (j < length (mcol ROps m 0))%nat ->
  ment ROps (householder ROps (mscale c m)) i j = ment ROps (householder ROps m) i j.
Proof.
  intros Hc Hx i j Hi Hj.
  assert (length (mcol ROps (mscale c m) 0) = length (mcol ROps m 0)) as L by (rewrite mcol_mscale, map_length; reflexivity).
  rewrite (hm_entry (mscale c m) i j) by (rewrite L; assumption). rewrite (hm_entry m i j) by assumption.
  rewrite L, mcol_mscale. set (x := mcol ROps m 0) in *. rewrite alpha_scale by exact Hc.
  set (al := householder_alpha ROps x). pose proof (hm_N2_pos m Hx) as NP. fold x in NP. fold al in NP.
  set (N2 := rsum (fun k => (nth k x 0 - dlt k 0 * al) * (nth k x 0 - dlt k 0 * al)) (length x)) in *.
  assert (rsum (fun k => (nth k (map (Rmult c) x) 0 - dlt k 0 * (c * al)) * (nth k (map (Rmult c) x) 0 - dlt k 0 * (c * al))) (length x)
          = c * c * N2) as E.
  { unfold N2. rewrite <- rsum_scal. apply rsum_ext. intros k _. rewrite nth_scale. ring. }
  rewrite E. rewrite sqrt_mult_alt by nra. rewrite sqrt_square by lra. rewrite !nth_scale.
  assert (0 < sqrt N2) as SP by (apply sqrt_lt_R0; exact NP).
  field. split; lra.
Qed.

(** non-vacuity: a 2 x 2 matrix with non-zero first column, scaled by 2^-600 = (/2)^600 (far outside the range where the double computation works) *)
Example householder_scale_free_example :
  forall i j, (i < 2)%nat -> (j < 2)%nat ->
  ment ROps (householder ROps (mscale ((/ 2) ^ 600) [[2; 1]; [1; 3]])) i j = ment ROps (householder ROps [[2; 1]; [1; 3]]) i j.
Proof.
  intros i j Hi Hj. apply householder_scale_free.
  - apply pow_lt. lra.
  - exists 0%nat. cbn. split; [lia | lra].
  - exact Hi.
  - exact Hj.
Qed.
