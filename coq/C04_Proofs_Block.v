(** * C04 proofs, part 3: the block-matrix constructor Matrix(std::vector<std::vector<Matrix>>).
    No arithmetic law is used.  For every valid grid (non-empty, rectangular, all blocks of a grid row
    with the same number of rows, all blocks of a grid column with the same number of columns - which is
    what the code's neighbour-by-neighbour test decides) the result has entry
       (row offset of grid row R + i, column offset of grid column C + j) = block_RC [i][j],
    every other grid exits. *)
From mathcomp Require Import all_ssreflect.
From Coq Require List ZArith.
From LP Require Import Num C04_Model C04_Proofs_Struct.
Set Implicit Arguments. Unset Strict Implicit. Unset Printing Implicit Defensive.
Arguments tab : simpl never.
Arguments tab2 : simpl never.

(** offsets = prefix sums *)
Definition off (d : seq nat) (R : nat) : nat := sumn (take R d).
Lemma sum_natE l : sum_nat l = sumn l.
Proof.
  rewrite /sum_nat foldE; have H : forall a, foldl Nat.add a l = a + sumn l.
    by elim: l => [|x l IH] a /=; rewrite ?addn0 // IH plusE addnA.
  by rewrite H.
Qed.
Lemma off_S d R : R < size d -> off d R.+1 = off d R + nth 0 d R.
Proof. by move=> H; rewrite /off (take_nth 0) // sumn_rcons. Qed.
Lemma off_mono d a b : a <= b -> off d a <= off d b.
Proof. by move=> /subnKC <-; rewrite /off takeD sumn_cat leq_addr. Qed.
Lemma off_size d : off d (size d) = sumn d.
Proof. by rewrite /off take_size. Qed.
Lemma off_in d R x : R < size d -> x < nth 0 d R -> off d R + x < sumn d.
Proof.
  move=> HR Hx; rewrite -off_size; apply: leq_trans (off_mono d HR).
  by rewrite off_S // ltn_add2l.
Qed.
Lemma off_disjoint d R R' x : R < size d -> R' < size d ->
  off d R <= x < off d R + nth 0 d R -> off d R' <= x < off d R' + nth 0 d R' -> R = R'.
Proof.
  have W : forall R R', R < size d -> R < R' -> off d R <= x < off d R + nth 0 d R -> off d R' <= x -> False.
    move=> {R R'} R R' HR HRR' /andP [_ H1] H2.
    have := leq_trans (off_mono d HRR') H2; rewrite off_S // => H3.
    by move: (leq_trans H1 H3); rewrite ltnn.
  move=> HR HR' H1 H2; case: (ltngtP R R') => // H.
  - by case: (W _ _ HR H H1); case/andP: H2.
  - by case: (W _ _ HR' H H2); case/andP: H1.
Qed.

(** loops of the form  if cov k then acc = val k *)
Lemma foldl_none A (cov : nat -> bool) (val : nat -> A) a n :
  (forall k, k < n -> cov k = false) -> foldl (fun acc k => if cov k then val k else acc) a (iota 0 n) = a.
Proof.
  elim: n => [|n IH] H //; rewrite -addn1 iotaD foldl_cat /= add0n IH; last by move=> k Hk; apply: H; apply: ltnW.
  by rewrite H.
Qed.
Lemma foldl_one A (cov : nat -> bool) (val : nat -> A) a n k0 :
  k0 < n -> cov k0 -> (forall k, k < n -> cov k -> k = k0) ->
  foldl (fun acc k => if cov k then val k else acc) a (iota 0 n) = val k0.
Proof.
  elim: n => [|n IH] // Hk0 Hc Hu; rewrite -addn1 iotaD foldl_cat /= add0n.
  move: Hk0; rewrite ltnS leq_eqVlt => /orP [/eqP E|Hlt]; first by rewrite -E Hc.
  have -> : cov n = false.
    by apply/negP => Hn; move: (Hu n (ltnSn n) Hn) Hlt => ->; rewrite ltnn.
  by apply: IH => // k Hk; apply: Hu; apply: ltnW.
Qed.
Lemma mapE A B (f : A -> B) l : List.map f l = map f l.
Proof. by []. Qed.
Lemma flat_mapE A B (f : A -> seq B) l : List.flat_map f l = flatten (map f l).
Proof. by elim: l => //= a l ->. Qed.
Lemma foldl_flatten A B (f : A -> B -> A) a ss : foldl f a (flatten ss) = foldl (foldl f) a ss.
Proof. by elim: ss a => //= s ss IH a; rewrite foldl_cat IH. Qed.
Lemma foldl_map A B C (f : A -> B -> A) (h : C -> B) a l : foldl f a (map h l) = foldl (fun a x => f a (h x)) a l.
Proof. by elim: l a => //= x l IH a; rewrite IH. Qed.

Section Block.
Context {T : Type} (Ops : NumOps T).
Local Notation ment := (ment Ops).
Local Notation zero := (n0 Ops).
Variable g : seq (seq (mat T)).
Local Notation GR := (size g).
Local Notation GC := (size (nth [::] g 0)).
Local Notation B R C := (blk g R C).

(** the meaning of a valid grid *)
Definition grid_ok : Prop :=
  [/\ 0 < GR, 0 < GC, forall R, R < GR -> size (nth [::] g R) = GC,
      forall R C, R < GR -> C < GC -> mrows (B R C) = mrows (B R 0) &
      forall R C, R < GR -> C < GC -> mcols (B R C) = mcols (B 0 C)].

Lemma block_validP : reflect grid_ok (block_valid g).
Proof.
  rewrite /block_valid !forallbE !seqE ?natE !nthE -!lt0n.
  apply: (iffP idP).
  - move=> /andP [/andP [/andP [H1 H2] /(all_nthP [::]) H3] /all_iota H4].
    have H3' R : R < GR -> size (nth [::] g R) = GC by move=> HR; have := H3 R HR; rewrite ?natE => /eqP.
    have H4' R C : R < GR -> C < GC ->
        ((R == 0) || (mcols (B R C) == mcols (B R.-1 C))) && ((C == 0) || (mrows (B R C) == mrows (B R C.-1))).
      move=> HR HC; have := H4 R; rewrite add0n HR => /(_ isT); rewrite forallbE seqE nthE lengthE H3' // => /all_iota /(_ C).
      by rewrite add0n HC ?natE !subn1 => /(_ isT).
    split=> //.
    + move=> R C HR; elim: C => [|C IH] // HC.
      by have /andP [_ /= /eqP ->] := H4' R C.+1 HR HC; apply: IH; apply: ltnW.
    + move=> R C HR HC; elim: R HR => [|R IH] // HR.
      by have /andP [/= /eqP -> _] := H4' R.+1 C HR HC; apply: IH; apply: ltnW.
  - move=> [H1 H2 H3 H4 H5]; rewrite H1 H2 /=; apply/andP; split.
    + by apply/(all_nthP [::]) => R HR; rewrite ?natE H3.
    + apply/all_iota => R; rewrite add0n => /andP [_ HR]; rewrite forallbE seqE nthE lengthE H3 //.
      apply/all_iota => C; rewrite add0n => /andP [_ HC]; rewrite ?natE !subn1.
      apply/andP; split.
      * case: R HR => [|R] //= HR; by rewrite H5 // [in X in _ == X]H5 // ltnW.
      * case: C HC => [|C] //= HC; by rewrite H4 // [in X in _ == X]H4 // ltnW.
Qed.

Lemma size_block_rows : size (block_rows g) = GR.
Proof. by rewrite /block_rows size_map seqE size_iota. Qed.
Lemma size_block_cols : size (block_cols g) = GC.
Proof. by rewrite /block_cols size_map seqE nthE size_iota. Qed.
Lemma nth_block_rows R : R < GR -> nth 0 (block_rows g) R = mrows (B R 0).
Proof. by move=> HR; rewrite /block_rows seqE (nth_map 0) ?size_iota // nth_iota. Qed.
Lemma nth_block_cols C : C < GC -> nth 0 (block_cols g) C = mcols (B 0 C).
Proof. by move=> HC; rewrite /block_cols seqE nthE (nth_map 0) ?size_iota // nth_iota. Qed.

Definition ioff R := off (block_rows g) R.
Definition joff C := off (block_cols g) C.

(** an invalid grid exits *)
Theorem mat_block_invalid : ~ grid_ok -> mat_block Ops g = Exit.
Proof. by move=> /block_validP H; rewrite /mat_block (negbTE H). Qed.

(** a valid grid yields the matrix with every block at its offsets *)
Theorem mat_block_valid : grid_ok ->
  exists2 M, mat_block Ops g = Ok M &
    [/\ wf_mat M, mrows M = sumn (block_rows g), mcols M = sumn (block_cols g) &
        forall R C i j, R < GR -> C < GC -> i < mrows (B R C) -> j < mcols (B R C) ->
          ment M (ioff R + i) (joff C + j) = ment (B R C) i j].
Proof.
  move=> Hok; have /block_validP Hv := Hok; have [H1 H2 H3 H4 H5] := Hok.
  rewrite /mat_block Hv /=; eexists; first by [].
  rewrite !sum_natE; split=> //; first exact: wf_mk.
  move=> R0 C0 i j HR0 HC0 Hi Hj.
  have HI : ioff R0 + i < sumn (block_rows g).
    by apply: off_in; rewrite ?size_block_rows // nth_block_rows // -(H4 R0 C0).
  have HJ : joff C0 + j < sumn (block_cols g).
    by apply: off_in; rewrite ?size_block_cols // nth_block_cols // -(H5 R0 C0).
  rewrite ment_mk // /block_entry /block_placed foldE flat_mapE foldl_flatten !seqE foldl_map.
  set v := ment (B R0 C0) i j.
  pose cov R C := (ioff R <= ioff R0 + i) && (ioff R0 + i < ioff R + mrows (B R C)) &&
                  (joff C <= joff C0 + j) && (joff C0 + j < joff C + mcols (B R C)).
  have Hcov R C : R < GR -> C < GC -> cov R C -> R = R0 /\ C = C0.
    move=> HR HC /andP [/andP [/andP [a1 a2] a3] a4]; split.
    - apply: (@off_disjoint (block_rows g) R R0 (ioff R0 + i)); rewrite ?size_block_rows //.
        by rewrite nth_block_rows // -(H4 R C) // -/(ioff R) a1 a2.
      by rewrite nth_block_rows // -(H4 R0 C0) // -/(ioff R0) leq_addr ltn_add2l.
    - apply: (@off_disjoint (block_cols g) C C0 (joff C0 + j)); rewrite ?size_block_cols //.
        by rewrite nth_block_cols // -(H5 R C) // -/(joff C) a3 a4.
      by rewrite nth_block_cols // -(H5 R0 C0) // -/(joff C0) leq_addr ltn_add2l.
  have Hcov0 : cov R0 C0 by rewrite /cov !leq_addr !ltn_add2l Hi Hj.
  rewrite (@foldl_iota_ext _ _ (fun acc R => if R == R0 then v else acc)); last first.
    move=> acc R /andP [_]; rewrite add0n => HR.
    rewrite mapE seqE nthE lengthE H3 // foldl_map.
    rewrite (@foldl_iota_ext _ _ (fun acc C => if cov R C then ment (B R C) (ioff R0 + i - ioff R) (joff C0 + j - joff C) else acc)); last first.
      by move=> a C _; rewrite /= ?natE !sum_natE !firstnE.
    case: (altP (R =P R0)) => [->|HRR].
    - rewrite (@foldl_one _ _ _ _ _ C0) // ?addKn //.
      by move=> C HC Hc; have [] := Hcov R0 C HR0 HC Hc.
    - apply: foldl_none => C HC; apply/negP => Hc; have [E _] := Hcov R C HR HC Hc.
      by rewrite E eqxx in HRR.
  by rewrite (@foldl_one _ (fun R => R == R0) (fun _ => v) _ _ R0) // => R _ /eqP.
Qed.
End Block.

(** the block constructor on a single block: Matrix({{A}}) is A itself, whatever its entries are (every entry is
    copied; none is skipped, rounded or tested).  For a well-formed A of any shape, 0 x 0 included. *)
Section BlockSingle.
Context {T : Type} (Ops : NumOps T).
Theorem mat_block_single (A : mat T) : wf_mat A -> mat_block Ops [:: [:: A]] = Ok A.
Proof.
  move=> HA.
  have Hok : grid_ok [:: [:: A]].
    split=> //.
    - by case=> [|R].
    - by case=> [|R] // [|C].
    - by case=> [|R] // [|C].
  have [M -> [HM Hr Hc He]] := mat_block_valid Ops Hok.
  congr Ok; apply: (mat_ext (Ops := Ops)) => //.
  - by rewrite Hr /= addn0.
  - by rewrite Hc /= addn0.
  - move=> i j; rewrite Hr Hc /= !addn0 => Hi Hj.
    by have := He 0 0 i j isT isT Hi Hj; rewrite /ioff /joff /off /= !add0n.
Qed.
End BlockSingle.
