(** C12 — property theorems only.  Each is closed by [exact] of a lemma proved in C12_Proofs.v.

    Setting.  [gl_rule n a b] (the model of Compute_Gauss_Legendre_Roots_and_Weights) is
    [rows_of (gl_assemble n a b zs)] where [zs] are the m = (n+1)/2 pairs (z_i, pp_i) delivered by the
    Newton stage ([C12_rule_factor]).  The theorems below hold for EVERY n >= 1, EVERY interval and EVERY
    list [zs] of m real pairs, i.e. whatever the Newton stage delivers; [node n a b zs i] and
    [weight n a b zs i] are the entries of row i of the assembled table.

    NOT theorems (decided on the implementation by exhaustive enumeration over n, see checks/C12.py):
    that the Newton iteration converges, for every n, to the m distinct non-negative roots of P_n
    (i.e. that its results satisfy [roots_ok] and [pp_ok]), and that the rule on [-1,1] is exact to degree
    2n-1 (the classical Gauss theorem applied to the computed numbers).
    [C12_valid_rule_of_roots] reduces "strictly increasing, strictly inside, weights of the sign of b-a, on
    every interval" to [roots_ok]/[pp_ok], two statements about the Newton results alone (no interval);
    [C12_affine_exactness] and [C12_moment_checker_sound] reduce "exact on every polynomial of degree <= 2n-1
    on every interval" to the 2n moments on [-1,1]; [C12_legendre_loop], [C12_pp_is_derivative] and
    [C12_newton_stage] establish what the Newton stage computes: genuine Newton steps on the Legendre polynomial
    of Bonnet's recurrence, stopped at a step of at most 1e-14. *)
From Coq Require Import Reals ZArith List.
From Coquelicot Require Import Coquelicot.
From LP Require Import Num NumR C12_Model C12_Proofs C12_Proofs_B C12_Proofs_C C12_Proofs_D Gen_C12_Formulas C12_GenTie.
Import ListNotations.
Local Open Scope R_scope.

(** the computed rule is the mirrored assembly of exactly m = (n+1)/2 Newton results (any number type) *)
Theorem C12_rule_factor {T} (Ops : NumOps T) n a b rw : gl_rule Ops n a b = Ok rw ->
  exists zs, gl_roots Ops n = Ok zs /\ length zs = gl_m n /\ rw = rows_of (gl_assemble Ops n a b zs).
Proof. exact (gl_rule_factor Ops n a b rw). Qed.
Print Assumptions C12_rule_factor.

(** "the computed nodes ... are symmetric about its midpoint; the weights are ... symmetric":
    n rows; node_i + node_(n-1-i) = a+b away from the middle row; weight_i = weight_(n-1-i) for all i;
    for odd n the middle row is written twice and ends as xmid + hw*z_mid, which is symmetric
    iff (b-a)*z_mid = 0. *)
Theorem C12_nodes_weights_symmetric n a b zs : (1 <= n)%nat -> length zs = gl_m n ->
  length (gl_assemble ROps n a b zs) = n /\
  (forall i, (i < n)%nat -> i <> (n - 1 - i)%nat -> node n a b zs i + node n a b zs (n - 1 - i) = a + b) /\
  (forall i, (i < n)%nat -> weight n a b zs i = weight n a b zs (n - 1 - i)) /\
  (Nat.odd n = true ->
     let mid := ((n - 1) / 2)%nat in
     mid = (n - 1 - mid)%nat /\
     node n a b zs mid = (a + b) / 2 + (b - a) / 2 * zval zs mid /\
     (node n a b zs mid + node n a b zs (n - 1 - mid) = a + b <-> (b - a) * zval zs mid = 0)).
Proof. exact (nodes_weights_symmetric n a b zs). Qed.
Print Assumptions C12_nodes_weights_symmetric.

(** "for reversed limits the rule is the mirror image with all weights negated": every node is reflected
    about the midpoint and every weight negated; away from the middle row, row i of the reversed rule is
    row n-1-i of the forward rule with the weight negated. *)
Theorem C12_reversed_is_mirror n a b zs : (1 <= n)%nat -> length zs = gl_m n ->
  forall i, (i < n)%nat ->
    node n b a zs i = (a + b) - node n a b zs i /\
    weight n b a zs i = - weight n a b zs i /\
    (i <> (n - 1 - i)%nat -> node n b a zs i = node n a b zs (n - 1 - i) /\ weight n b a zs i = - weight n a b zs (n - 1 - i)).
Proof. exact (reversed_is_mirror n a b zs). Qed.
Print Assumptions C12_reversed_is_mirror.

(** "... so orientation is respected": the reversed rule applied to f is minus the forward rule applied to
    the reflected integrand *)
Theorem C12_reversed_rule_sum f n a b zs : (1 <= n)%nat -> length zs = gl_m n ->
  rule_sum f (gl_assemble ROps n b a zs) = - rule_sum (fun x => f (a + b - x)) (gl_assemble ROps n a b zs).
Proof. exact (reversed_rule_sum f n a b zs). Qed.
Print Assumptions C12_reversed_rule_sum.

(** the rule on [a,b] is the affine image of the rule on [-1,1], weights scaled by (b-a)/2 *)
Theorem C12_affine_transport n a b zs : (1 <= n)%nat -> length zs = gl_m n ->
  forall i, (i < n)%nat ->
    node n a b zs i = (a + b) / 2 + (b - a) / 2 * node n (-1) 1 zs i /\
    weight n a b zs i = (b - a) / 2 * weight n (-1) 1 zs i.
Proof. exact (affine_transport n a b zs). Qed.
Print Assumptions C12_affine_transport.

(** "the weights ... sum to b-a": transfers from the reference interval to every interval *)
Theorem C12_sum_weights_transport n a b zs : (1 <= n)%nat -> length zs = gl_m n ->
  rule_sum (fun _ => 1) (gl_assemble ROps n (-1) 1 zs) = 2 ->
  rule_sum (fun _ => 1) (gl_assemble ROps n a b zs) = b - a.
Proof. exact (sum_weights_transport n a b zs). Qed.
Print Assumptions C12_sum_weights_transport.

(** "the rule integrates every polynomial of degree at most 2n-1 exactly ... on every interval": exactness up
    to any degree d transfers from [-1,1] to every interval, reversed ones included (RInt is oriented);
    [poly_eval c] is the polynomial with coefficient list c, [rule_sum] the sum the code accumulates *)
Theorem C12_affine_exactness n zs d : (1 <= n)%nat -> length zs = gl_m n ->
  (forall c, (length c <= S d)%nat ->
     rule_sum (poly_eval c) (gl_assemble ROps n (-1) 1 zs) = RInt (poly_eval c) (-1) 1) ->
  forall a b c, (length c <= S d)%nat ->
     rule_sum (poly_eval c) (gl_assemble ROps n a b zs) = RInt (poly_eval c) a b.
Proof. exact (affine_exactness n zs d). Qed.
Print Assumptions C12_affine_exactness.

(** soundness of the moment checker run by the check on the produced doubles: if the k-th moment of a
    table is within delta_k of (b^(k+1) - a^(k+1))/(k+1) for every k < K, then every polynomial with at
    most K coefficients (degree < K; K = 2n for a Gauss rule) is integrated within sum_k |c_k| delta_k *)
Theorem C12_moment_checker_sound (t : list (R * R)) (a b : R) (delta : nat -> R) (K : nat) :
  (forall k, (k < K)%nat -> Rabs (rule_moment t k - moment a b k) <= delta k) ->
  forall c, (length c <= K)%nat ->
    Rabs (rule_sum (poly_eval c) t - RInt (poly_eval c) a b) <= cbound delta c 0.
Proof. exact (moment_checker_sound t a b delta K). Qed.
Print Assumptions C12_moment_checker_sound.

(** "The three Integrate_Gauss_Legendre overloads give the same value for the same rule" (any number type,
    so for doubles verbatim): chained as in the source, and on every computed rule all three return the
    same weighted sum [wsum] and reach no guard *)
Theorem C12_overloads_agree {T} (Ops : NumOps T) (f : T -> T) (a b : T) (n : nat) :
  gl_integrate Ops f a b n = rbind (gl_rule Ops n a b) (fun rw => gl_integrate_fun Ops f rw) /\
  (forall rw, two_col rw = true ->
     gl_integrate_fun Ops f rw = gl_integrate_values Ops (map (fun r => f (nth0 Ops r 0)) rw) rw /\
     gl_integrate_fun Ops f rw = Ok (wsum Ops f rw)) /\
  (forall rw, gl_rule Ops n a b = Ok rw ->
     gl_integrate Ops f a b n = Ok (wsum Ops f rw) /\
     gl_integrate_fun Ops f rw = Ok (wsum Ops f rw) /\
     gl_integrate_values Ops (map (fun r => f (nth0 Ops r 0)) rw) rw = Ok (wsum Ops f rw)).
Proof. exact (overloads_agree Ops f a b n). Qed.
Print Assumptions C12_overloads_agree.

(** "mismatched value and rule lengths are rejected" (and rows that are not {root, weight}); every other
    request returns *)
Theorem C12_size_mismatch_exits {T} (Ops : NumOps T) (vals : list T) (rw : list (list T)) :
  (length vals <> length rw -> gl_integrate_values Ops vals rw = Exit) /\
  (two_col rw = false -> gl_integrate_values Ops vals rw = Exit) /\
  (length vals = length rw -> two_col rw = true -> exists v, gl_integrate_values Ops vals rw = Ok v).
Proof. exact (size_mismatch_exits Ops vals rw). Qed.
Print Assumptions C12_size_mismatch_exits.

(** Re-entrant use (the integrand itself calls the library, as Integrate_2D/3D do; [T -> res T] integrands end
    the call at their first non-returning evaluation).  An integrand that always returns gives the plain
    (func, rule) overload, and a nest of depth one is the interval overload. *)
Theorem C12_reentrant_pure {T} (Ops : NumOps T) (f : T -> T) :
  (forall rw, gl_integrate_funM Ops (fun x => Ok (f x)) rw = gl_integrate_fun Ops f rw) /\
  (forall n a b, gl_nest Ops [((KInt, n), (a, b))] (fun xs => Ok (f (nth0 Ops xs 0))) [] = gl_integrate Ops f a b n).
Proof. exact (conj (funM_pure Ops f) (nest_depth_one Ops f)). Qed.
Print Assumptions C12_reentrant_pure.

(** "The three Integrate_Gauss_Legendre overloads give the same value for the same rule" at every nesting depth:
    two nested integrations whose levels have pairwise the same order and limits return the same outcome whichever
    overload each level uses ((func,a,b,n), (func,rule), (values,rule), default order), for every innermost
    integrand, including one that terminates the process *)
Theorem C12_nest_overloads_agree {T} (Ops : NumOps T) (core : list T -> res T) levs levs' :
  Forall2 lev_same levs levs' -> forall xs, gl_nest Ops levs core xs = gl_nest Ops levs' core xs.
Proof. exact (nest_overloads_agree Ops core levs levs'). Qed.
Print Assumptions C12_nest_overloads_agree.

(** "mismatched value and rule lengths are rejected" wherever the call is made: a guard reached by the innermost
    integrand (e.g. [gl_integrate_values vals rw] with [length vals <> length rw], C12_size_mismatch_exits)
    terminates the whole nested integration, however deep and through whichever overloads *)
Theorem C12_nest_exit_propagates {T} (Ops : NumOps T) (core : list T -> res T) levs :
  (forall xs, core xs = Exit) ->
  List.Forall (fun l : @gl_lev T => exists rw, gl_rule Ops (gl_order (fst (fst l)) (snd (fst l))) (fst (snd l)) (snd (snd l)) = Ok rw /\ rw <> []) levs ->
  forall xs, gl_nest Ops levs core xs = Exit.
Proof. exact (nest_exit_propagates Ops core levs). Qed.
Print Assumptions C12_nest_exit_propagates.

(** ** Validity on every interval from the Newton results *)

(** "the computed nodes are strictly increasing, lie strictly inside the interval ...; the weights are positive ...
    (for reversed limits the rule is the mirror image with all weights negated)": for EVERY n >= 1 and EVERY interval,
    both orientations, provided the Newton results are strictly decreasing in (-1,1) with a last one that is positive
    (even n) or above the negatives of the others (odd n), and the derivatives pp do not vanish ([roots_ok], [pp_ok]:
    statements about the Newton stage alone) *)
Theorem C12_valid_rule_of_roots n zs : (1 <= n)%nat -> length zs = gl_m n -> roots_ok n zs -> pp_ok n zs ->
  forall a b,
  (a < b ->
     (forall i j, (i < j)%nat -> (j < n)%nat -> node n a b zs i < node n a b zs j) /\
     (forall i, (i < n)%nat -> a < node n a b zs i < b) /\
     (forall i, (i < n)%nat -> 0 < weight n a b zs i)) /\
  (b < a ->
     (forall i j, (i < j)%nat -> (j < n)%nat -> node n a b zs j < node n a b zs i) /\
     (forall i, (i < n)%nat -> b < node n a b zs i < a) /\
     (forall i, (i < n)%nat -> weight n a b zs i < 0)).
Proof. exact (valid_rule_of_roots n zs). Qed.
Print Assumptions C12_valid_rule_of_roots.

(** the hypotheses are satisfiable: by the exact results of n = 1 (that the Newton stage over the reals delivers exactly these,
    [gl_roots ROps 1 = Ok [(0, 1)]], is ex_roots_1 in C12_Examples_R.v) and by a three-point table *)
Example C12_valid_rule_hyp_1 : roots_ok 1 [(0, 1)] /\ pp_ok 1 [(0, 1)].
Proof. exact ex_roots_ok_1. Qed.
Example C12_valid_rule_hyp_3 : roots_ok 3 [(3/4, 1); (0, 2)] /\ pp_ok 3 [(3/4, 1); (0, 2)].
Proof. exact ex_roots_ok_3. Qed.

(** ** What the Newton stage computes *)

(** "Newton iteration on Legendre recurrence": the inner for loop computes (P_n(z), P_(n-1)(z)) of Bonnet's recurrence
    P_0 = 1, P_1 = z, (k+2) P_(k+2) = (2k+3) z P_(k+1) - (k+1) P_k, for every n and z *)
Theorem C12_legendre_loop n z :
  legendre ROps n 0%Z z (one ROps) (zero ROps) = (Leg n z, snd (LegP n z)) /\
  (forall k, snd (LegP (S k) z) = Leg k z) /\
  Leg 0 z = 1 /\ Leg 1 z = z /\
  (forall k, (INR k + 2) * Leg (S (S k)) z = (2 * INR k + 3) * z * Leg (S k) z - (INR k + 1) * Leg k z).
Proof.
  exact (conj (eq_trans (legendre_is_Leg n z) (surjective_pairing _))
        (conj (fun k => LegP_snd k z) (conj (Leg_0 z) (conj (Leg_1 z) (fun k => Leg_bonnet k z))))).
Qed.
Print Assumptions C12_legendre_loop.

(** the source's pp = n (z p1 - p2)/(z^2 - 1) is the derivative of P_n at z (z^2 <> 1), for every n: the update
    z - p1/pp is a Newton step on P_n *)
Theorem C12_pp_is_derivative n z :
  is_derive (Leg n) z (dLeg n z) /\
  (z * z <> 1 -> INR n * (z * Leg n z - snd (LegP n z)) / (z * z - 1) = dLeg n z) /\
  (z * z <> 1 -> forall f,
     newton ROps (S f) n (INR n) z =
     if Rleb (Rabs (newton_next n z - z)) eps14 then Ok (newton_next n z, dLeg n z)
     else newton ROps f n (INR n) (newton_next n z)).
Proof. exact (conj (is_derive_Leg n z) (conj (pp_is_derivative n z) (fun H f => newton_step_R f n z H))). Qed.
Print Assumptions C12_pp_is_derivative.

(** "Newton iteration ... from the Chebyshev-like guess, tolerance 1e-14": every pair (z_i, pp_i) the Newton stage
    delivers, for every n and i, is (N(z1), P_n'(z1)) for an iterate z1 = N^k(guess_i), N(z) = z - P_n(z)/P_n'(z), with
    |N(z1) - z1| <= 1e-14 (so |P_n(z1)| <= 1e-14 |P_n'(z1)|) and every earlier step larger than 1e-14
    (premise: no iterate is exactly +-1, where the source divides by zero) *)
Theorem C12_newton_stage n zs : gl_roots ROps n = Ok zs ->
  (forall i k, (i < gl_m n)%nat -> (k < newton_fuel)%nat -> newton_iter n k (guess n i) * newton_iter n k (guess n i) <> 1) ->
  forall i, (i < gl_m n)%nat ->
  exists k, (k < newton_fuel)%nat /\
    let z1 := newton_iter n k (guess n i) in
    nth i zs (0, 0) = (newton_next n z1, dLeg n z1) /\ Rabs (newton_next n z1 - z1) <= eps14 /\
    (forall j, (j < k)%nat -> eps14 < Rabs (newton_next n (newton_iter n j (guess n i)) - newton_iter n j (guess n i))).
Proof. exact (roots_are_newton_steps n zs). Qed.
Print Assumptions C12_newton_stage.

Theorem C12_newton_residual n z1 : dLeg n z1 <> 0 -> Rabs (newton_next n z1 - z1) <= eps14 ->
  Rabs (Leg n z1) <= eps14 * Rabs (dLeg n z1).
Proof. exact (newton_residual n z1). Qed.
Print Assumptions C12_newton_residual.

(** non-vacuity: from the starting point 0 the loop for n = 1 returns (0, 1) at once and no iterate is +-1; from the actual guess
    cos(M_PI/2) (M_PI the decimal of math.h, so the guess is not 0) it returns after one step: ex_newton_1, ex_newton_stage_hyp_1 in
    C12_Examples_R.v (they need Interval, which is kept out of this file's dependencies) *)
Example C12_newton_hyp_1 : newton ROps newton_fuel 1 (INR 1) 0 = Ok (newton_next 1 0, dLeg 1 0) /\ newton_next 1 0 = 0 /\ dLeg 1 0 = 1 /\
  (forall k, (k < newton_fuel)%nat -> newton_iter 1 k 0 * newton_iter 1 k 0 <> 1).
Proof. exact ex_newton_from_0. Qed.

(** ** Integrands that throw, handlers inside enclosing integrands
    ([res (option T)] evaluations: [Ok None] = an exception propagates; a level may carry a handler with a substitute value) *)

(** without exceptions the model with handlers is the exception-free model: handlers are never used *)
Theorem C12_throwing_refines {T} (Ops : NumOps T) (core : list T -> res T) levs xs :
  gl_nestX Ops levs (fun ys => xlift (core ys)) xs = xlift (gl_nest Ops (map fst levs) core xs).
Proof. exact (nestX_pure Ops core levs xs). Qed.
Print Assumptions C12_throwing_refines.

(** "The three Integrate_Gauss_Legendre overloads give the same value for the same rule" also when evaluations throw
    and handlers intervene, at every depth *)
Theorem C12_nestX_overloads_agree {T} (Ops : NumOps T) (core : list T -> res (option T)) levs levs' :
  Forall2 (levX_same) levs levs' -> forall xs, gl_nestX Ops levs core xs = gl_nestX Ops levs' core xs.
Proof. exact (nestX_overloads_agree Ops core levs levs'). Qed.
Print Assumptions C12_nestX_overloads_agree.

(** a call under a handler never lets an exception out, and is unchanged when none arrives *)
Theorem C12_handler {T} (Ops : NumOps T) k n a b fb (f : T -> res (option T)) :
  ~ (gl_levelX Ops k n a b (Some fb) f = Ok None) /\
  (gl_levelX Ops k n a b None f = Ok None -> gl_levelX Ops k n a b (Some fb) f = Ok (Some fb)) /\
  (~ (gl_levelX Ops k n a b None f = Ok None) -> gl_levelX Ops k n a b (Some fb) f = gl_levelX Ops k n a b None f).
Proof. exact (levelX_handled Ops k n a b fb f). Qed.
Print Assumptions C12_handler.

(** a failed and handled inner integration counts as its substitute value and leaves nothing behind: the nest equals the
    nest of the levels above the handler applied to the constant substitute *)
Theorem C12_handled_failure {T} (Ops : NumOps T) (core : list T -> res (option T)) outer l fb inner :
  (forall xs, core xs = Ok None) -> lev_ok Ops l ->
  List.Forall (fun l : @gl_levX T => lev_ok Ops (fst l) /\ snd l = None) inner ->
  forall xs, gl_nestX Ops (outer ++ (l, Some fb) :: inner) core xs = gl_nestX Ops outer (fun _ => Ok (Some fb)) xs.
Proof. exact (nestX_handled_failure Ops core outer l fb inner). Qed.
Print Assumptions C12_handled_failure.

(** the hypotheses are satisfiable: two descriptions of the same levels through different overloads; that [lev_ok] holds over the
    reals for n = 1 on every interval is ex_handled_failure_hyp in C12_Examples_R.v *)
Example C12_nestX_hyp (a b : R) :
  Forall2 levX_same [(((KInt, 1%nat), (a, b)), Some 0); (((KDef, 7%nat), (b, a)), None)] [(((KVal, 1%nat), (a, b)), Some 0); (((KFun, 30%nat), (b, a)), None)].
Proof. repeat constructor. Qed.

(** "mismatched value and rule lengths are rejected", whatever the values are.  The number type is abstract (no law is assumed of
    it), so the statement covers doubles with NaN, infinities and signed zeros verbatim: whether the (values, rule) overload rejects
    a request is a function of the number of values and of the lengths of the rows alone ([values_rejected]); two requests of the
    same shape are both rejected or both answered, and a request that is not rejected returns a value. *)
Theorem C12_guard_shape_only {T} (Ops : NumOps T) (vals vals' : list T) (rw rw' : list (list T)) :
  length vals = length vals' -> map (@length T) rw = map (@length T) rw' ->
  (gl_integrate_values Ops vals rw = Exit <-> gl_integrate_values Ops vals' rw' = Exit) /\
  (gl_integrate_values Ops vals rw <> Exit -> exists v, gl_integrate_values Ops vals rw = Ok v).
Proof. exact (guard_shape_only Ops vals vals' rw rw'). Qed.
Print Assumptions C12_guard_shape_only.

Theorem C12_exit_iff_shape {T} (Ops : NumOps T) (vals : list T) (rw : list (list T)) :
  gl_integrate_values Ops vals rw = Exit <-> values_rejected (length vals) (map (@length T) rw) = true.
Proof. exact (values_exit_iff Ops vals rw). Qed.
Print Assumptions C12_exit_iff_shape.

(** the hypotheses are satisfiable and the decision is not constant: 2 values on 3 rows rejected, 3 on 3 answered, a ragged row rejected *)
Example C12_guard_shape_hyp : values_rejected 2 [2; 2; 2]%nat = true /\ values_rejected 3 [2; 2; 2]%nat = false /\
  values_rejected 3 [2; 3; 2]%nat = true.
Proof. exact ex_guard_shape. Qed.

(** the (values, rule) overload is a linear functional of the function values on every well-formed table of every length (over the
    reals; induction over the table): the step from "exact on the monomials" to "exact on every polynomial of degree <= 2n-1" *)
Theorem C12_values_linear (al be : R) (us vs : list R) (rw : list (list R)) :
  length us = length rw -> length vs = length rw -> two_col rw = true ->
  exists Iu Iv, gl_integrate_values ROps us rw = Ok Iu /\ gl_integrate_values ROps vs rw = Ok Iv /\
    gl_integrate_values ROps (map (fun uv => al * fst uv + be * snd uv) (combine us vs)) rw = Ok (al * Iu + be * Iv).
Proof. exact (values_linear al be us vs rw). Qed.
Print Assumptions C12_values_linear.

Example C12_values_linear_hyp :
  let rw := [[-1; 1]; [0; 2]; [1; 1]] in
  length [1; 2; 3] = length rw /\ length [4; 5; 6] = length rw /\ two_col rw = true /\
  gl_integrate_values ROps [1; 2; 3] rw = Ok (0 + 1 * 1 + 2 * 2 + 3 * 1).
Proof. exact ex_values_linear. Qed.

(** ** Seventh pass: the mirrored assignment for doubles as they are; why mirroring is right; exactness on the odd part *)

(** "mirrored node/weight assignment" for EVERY number type (no law is assumed of it, so for doubles verbatim, NaN and inf included):
    the table has n two-entry rows; the weights of rows i and n-1-i are the same object for every i; below the middle, row i is
    (xm - hw*z_i, w_i) and row n-1-i is (xm + hw*z_i, w_i) with w_i = 2 hw/((1 - z_i z_i) pp_i pp_i) ([row_lo], [row_hi]: the source's
    expressions in the source's operation order); for odd n the middle row, written twice, ends as the "+" row of the last pair *)
Theorem C12_mirror_every_number_type {T} (Ops : NumOps T) n a b zs : (1 <= n)%nat -> length zs = gl_m n ->
  length (gl_assemble Ops n a b zs) = n /\
  two_col (rows_of (gl_assemble Ops n a b zs)) = true /\
  (forall i d, (i < n)%nat ->
     snd (nth i (gl_assemble Ops n a b zs) d) = snd (nth (n - 1 - i) (gl_assemble Ops n a b zs) d)) /\
  (forall i d dz, (i < n - gl_m n)%nat ->
     nth i (gl_assemble Ops n a b zs) d = row_lo Ops (gl_mid Ops a b) (gl_hw Ops a b) (nth i zs dz) /\
     nth (n - 1 - i) (gl_assemble Ops n a b zs) d = row_hi Ops (gl_mid Ops a b) (gl_hw Ops a b) (nth i zs dz)) /\
  (forall d dz, Nat.odd n = true ->
     nth (gl_m n - 1) (gl_assemble Ops n a b zs) d = row_hi Ops (gl_mid Ops a b) (gl_hw Ops a b) (nth (gl_m n - 1) zs dz)).
Proof. exact (assemble_mirror_generic Ops n a b zs). Qed.
Print Assumptions C12_mirror_every_number_type.

(** why only m = (n+1)/2 Newton iterations are run and the other half is assigned by mirroring: the polynomial of the source's
    recurrence satisfies P_n(-z) = (-1)^n P_n(z), P_n'(-z) = -(-1)^n P_n'(z), for every n and z; hence the negative of a root is a root,
    the weight expression 2/((1-z^2) pp^2) has the same value at the mirrored root, and Newton's map commutes with the reflection
    (the iteration started from the mirrored guess would deliver exactly the mirrored results) *)
Theorem C12_legendre_parity n z :
  Leg n (- z) = (-1) ^ n * Leg n z /\
  dLeg n (- z) = - (-1) ^ n * dLeg n z /\
  (Leg n z = 0 -> Leg n (- z) = 0) /\
  wref (- z, dLeg n (- z)) = wref (z, dLeg n z) /\
  (dLeg n z <> 0 -> newton_next n (- z) = - newton_next n z).
Proof. exact (legendre_parity n z). Qed.
Print Assumptions C12_legendre_parity.

(** "lie strictly inside the interval": the end points of [-1,1] are never roots of the polynomial the Newton stage works on
    (P_n(1) = 1, P_n(-1) = (-1)^n, every n), so an exact root never maps to a or b *)
Theorem C12_legendre_endpoints n : Leg n 1 = 1 /\ Leg n (-1) = (-1) ^ n /\ Leg n 1 <> 0 /\ Leg n (-1) <> 0.
Proof. exact (legendre_endpoints n). Qed.
Print Assumptions C12_legendre_endpoints.

(** "the mirror assignment for odd n (the middle node is written twice)": the root the middle pass of an odd order looks for is
    exactly 0 (P_n(0) = 0 for every odd n), i.e. the value for which C12_nodes_weights_symmetric gives full symmetry *)
Theorem C12_odd_middle_root n : Nat.odd n = true -> Leg n 0 = 0.
Proof. exact (legendre_odd_root_0 n). Qed.
Print Assumptions C12_odd_middle_root.

(** "the rule integrates every polynomial of degree at most 2n-1 exactly", the odd half as a theorem for EVERY order n, EVERY interval
    (either orientation) and WHATEVER the Newton stage delivers (for odd n: provided the middle node is the midpoint): every integrable
    function that is odd about the midpoint -- every odd centred monomial (x - mid)^(2k+1) of every degree -- is integrated exactly;
    and the rule sees only the even part of its integrand.  What remains for correspondence/S4 are the even centred moments. *)
Theorem C12_odd_part_exact f n a b zs : (1 <= n)%nat -> length zs = gl_m n ->
  (Nat.odd n = true -> (b - a) * zval zs ((n - 1) / 2) = 0) ->
  (forall x, f (a + b - x) = - f x) ->
  rule_sum f (gl_assemble ROps n a b zs) = 0 /\
  (ex_RInt f a b -> rule_sum f (gl_assemble ROps n a b zs) = RInt f a b).
Proof.
  exact (fun Hn Hl Hm Hf => conj (odd_part_exact f n a b zs Hn Hl Hm Hf) (fun Hex => odd_part_exact_RInt f n a b zs Hn Hl Hm Hex Hf)).
Qed.
Print Assumptions C12_odd_part_exact.

Theorem C12_even_part_only f n a b zs : (1 <= n)%nat -> length zs = gl_m n ->
  (Nat.odd n = true -> (b - a) * zval zs ((n - 1) / 2) = 0) ->
  rule_sum f (gl_assemble ROps n a b zs) = rule_sum (fun x => (f x + f (a + b - x)) / 2) (gl_assemble ROps n a b zs).
Proof. exact (even_part_only f n a b zs). Qed.
Print Assumptions C12_even_part_only.

(** the hypotheses are satisfiable: the three-point table of C12_valid_rule_hyp_3 (middle root exactly 0) on [1,5] and f(x) = x - 3 *)
Example C12_odd_part_hyp : (1 <= 3)%nat /\ length [(3/4, 1); (0, 2)] = gl_m 3 /\
  (Nat.odd 3 = true -> (5 - 1) * zval [(3/4, 1); (0, 2)] ((3 - 1) / 2) = 0) /\ (forall x, (fun t => t - 3) (1 + 5 - x) = - (fun t => t - 3) x).
Proof. exact ex_odd_part. Qed.

(** ** T-tie: the formula sites of Compute_Gauss_Legendre_Roots_and_Weights regenerated from clang's AST on every run
    (Gen_C12_Formulas.v) are the terms of the hand model, for every number type; the statement skeleton around them is compared by
    the generator (tools/cxx2gallina_C12.py) *)
Theorem C12_generated_eps_mid_hw_is_model {T} (Ops : NumOps T) (xmin xmax : T) :
  g_gl_eps Ops = gl_eps Ops /\ g_gl_mid Ops xmin xmax = gl_mid Ops xmin xmax /\ g_gl_hw Ops xmin xmax = gl_hw Ops xmin xmax.
Proof. exact (conj (gen_eps Ops) (conj (gen_mid Ops xmin xmax) (gen_hw Ops xmin xmax))). Qed.
Print Assumptions C12_generated_eps_mid_hw_is_model.

Theorem C12_generated_guess_is_model {T} (Ops : NumOps T) (n i : Z) : g_gl_guess Ops (m_pi Ops) n i = gl_guess Ops (nofZ Ops n) i.
Proof. exact (gen_guess Ops n i). Qed.
Print Assumptions C12_generated_guess_is_model.

Theorem C12_generated_legendre_step_is_model {T} (Ops : NumOps T) c j z p1 p2 :
  legendre Ops (S c) j z p1 p2 =
  legendre Ops c (j + 1)%Z z (g_gl_leg_step Ops j z (g_gl_p2 Ops p1) (g_gl_p3 Ops p2)) (g_gl_p2 Ops p1).
Proof. exact (gen_legendre_step Ops c j z p1 p2). Qed.
Print Assumptions C12_generated_legendre_step_is_model.

Theorem C12_generated_newton_step_is_model {T} (Ops : NumOps T) f n (nz : Z) z :
  newton Ops (S f) n (nofZ Ops nz) z =
  let '(p1, p2) := legendre Ops n 0%Z z (g_gl_p1_init Ops) (g_gl_p2_init Ops) in
  let pp := g_gl_pp Ops nz z p1 p2 in
  let z1 := g_gl_z1 Ops z in
  let z' := g_gl_newton_z Ops z1 p1 pp in
  if g_gl_stop Ops z' z1 (g_gl_eps Ops) then Ok (z', pp) else newton Ops f n (nofZ Ops nz) z'.
Proof. exact (gen_newton_step Ops f n nz z). Qed.
Print Assumptions C12_generated_newton_step_is_model.

Theorem C12_generated_store_is_model {T} (Ops : NumOps T) n xm hw tab i zp :
  gl_store Ops n xm hw tab i zp =
  let z := fst zp in let pp := snd zp in
  let k := (n - i - 1)%nat in
  let t1 := upd tab i (fun r => (g_gl_node_lo Ops xm hw z, snd r)) in
  let t2 := upd t1 k (fun r => (g_gl_node_hi Ops xm hw z, snd r)) in
  let t3 := upd t2 i (fun r => (fst r, g_gl_weight Ops hw z pp)) in
  upd t3 k (fun r => (fst r, snd (nth i t3 (zero Ops, zero Ops)))).
Proof. exact (gen_store Ops n xm hw tab i zp). Qed.
Print Assumptions C12_generated_store_is_model.

(** the integer expressions (unsigned arithmetic of the source) are the nat expressions of the model for every order below 2^32 - 1 *)
Theorem C12_generated_indices_is_model {T} (Ops : NumOps T) n :
  ((Z.of_nat n + 1 < 4294967296)%Z -> g_gl_m Ops (Z.of_nat n) = Z.of_nat (gl_m n)) /\
  (forall i, (i < n)%nat -> (Z.of_nat n < 4294967296)%Z -> g_gl_mirror_index (Z.of_nat n) (Z.of_nat i) = Z.of_nat (n - i - 1)).
Proof. exact (conj (gen_m Ops n) (fun i => gen_mirror_index n i)). Qed.
Print Assumptions C12_generated_indices_is_model.
