(** * C18 proofs, part 5: histories of sampler calls on one generator (the interleavings of the quantifier).
    Arbitrary number type: control flow only, valid verbatim for IEEE doubles.
    [run_calls] (C18_Model.v) makes the calls of a history one after the other, each on the stream its predecessor
    left behind.  The theorems say that a history is nothing more than that: every answer in it is the answer of the
    call alone on the generator state it found, whatever was called before ("equal generator states give identical
    outputs and leave equal states behind" over histories), the stream consumed is the sum of what the calls consume,
    and the per-call theorems (count of a Metropolis call, ...) hold at every position of every history. *)
From Coq Require Import ZArith List Bool Lia Arith.
From LP Require Import Num C18_Model C18_Proofs.
Import ListNotations.
Local Open Scope Z_scope.

Section Hist.
Context {T : Type} (Ops : NumOps T).
Local Notation call := (@call T).
Local Notation answer := (@answer T).

Lemma run_calls_cons c cs us outs r :
  run_calls Ops (c :: cs) us = Ok (outs, r) <->
  exists a r1 l, run_call Ops c us = Ok (a, r1) /\ run_calls Ops cs r1 = Ok (l, r) /\ outs = a :: l.
Proof.
  cbn [run_calls]. split.
  - destruct (run_call Ops c us) as [[a r1]| | |] eqn:E1; try (intros E; discriminate E).
    destruct (run_calls Ops cs r1) as [[l r']| | |] eqn:E2; try (intros E; discriminate E).
    intros E; inversion E; subst. exists a, r1, l. auto.
  - intros (a & r1 & l & -> & -> & ->). reflexivity.
Qed.

(** a history h1 followed by a history h2 is h2 run on the state h1 left behind *)
Theorem run_calls_app h1 : forall h2 us outs r,
  run_calls Ops (h1 ++ h2) us = Ok (outs, r) <->
  exists o1 r1 o2, run_calls Ops h1 us = Ok (o1, r1) /\ run_calls Ops h2 r1 = Ok (o2, r) /\ outs = o1 ++ o2.
Proof.
  induction h1 as [|c h1 IH]; intros h2 us outs r.
  - cbn [app run_calls]. split.
    + intros H. exists [], us, outs. auto.
    + intros (o1 & r1 & o2 & E & H & ->). inversion E; subst. exact H.
  - rewrite <- app_comm_cons. rewrite run_calls_cons. split.
    + intros (a & r1 & l & Ec & Hl & ->). apply IH in Hl. destruct Hl as (o1 & r2 & o2 & H1 & H2 & ->).
      exists (a :: o1), r2, o2. split; [|split; [exact H2|reflexivity]].
      apply run_calls_cons. exists a, r1, o1. auto.
    + intros (o1 & r1 & o2 & H1 & H2 & ->). apply run_calls_cons in H1. destruct H1 as (a & r0 & l & Ec & Hl & ->).
      exists a, r0, (l ++ o2). split; [exact Ec|split; [|reflexivity]].
      apply IH. exists l, r1, o2. auto.
Qed.

(** EVERY answer of a history is the answer of that call alone on the generator state it found *)
Theorem history_every_call h1 c h2 us outs r :
  run_calls Ops (h1 ++ c :: h2) us = Ok (outs, r) ->
  exists o1 r1 a r2 o2, run_calls Ops h1 us = Ok (o1, r1) /\ run_call Ops c r1 = Ok (a, r2) /\
    run_calls Ops h2 r2 = Ok (o2, r) /\ outs = o1 ++ a :: o2 /\ length o1 = length h1.
Proof.
  intros H. apply run_calls_app in H. destruct H as (o1 & r1 & o & H1 & H2 & ->).
  apply run_calls_cons in H2. destruct H2 as (a & r2 & l & Ec & Hl & ->).
  exists o1, r1, a, r2, l. repeat split; auto.
  clear - H1. revert us o1 r1 H1. induction h1 as [|c1 h1 IH]; intros us o1 r1 H1.
  - cbn in H1. inversion H1; reflexivity.
  - apply run_calls_cons in H1. destruct H1 as (a & r0 & l & _ & Hl & ->). cbn. f_equal. eapply IH; eauto.
Qed.

(** the last call of a history *)
Theorem history_independence h c us outs r :
  run_calls Ops (h ++ [c]) us = Ok (outs, r) ->
  exists oh rh a, run_calls Ops h us = Ok (oh, rh) /\ run_call Ops c rh = Ok (a, r) /\ outs = oh ++ [a].
Proof.
  intros H. apply history_every_call in H. destruct H as (o1 & r1 & a & r2 & o2 & H1 & Hc & H2 & -> & _).
  cbn in H2. inversion H2; subst. exists o1, r1, a. auto.
Qed.

(** two DIFFERENT histories (other calls, other arguments, other initial generator states) that leave the generator in the
    same state are followed by the same answer and the same state, for every call *)
Theorem history_same_state_same_answer h1 h2 us1 us2 o1 o2 s c a r :
  run_calls Ops h1 us1 = Ok (o1, s) -> run_calls Ops h2 us2 = Ok (o2, s) -> run_call Ops c s = Ok (a, r) ->
  run_calls Ops (h1 ++ [c]) us1 = Ok (o1 ++ [a], r) /\ run_calls Ops (h2 ++ [c]) us2 = Ok (o2 ++ [a], r).
Proof.
  intros H1 H2 Hc. split; apply run_calls_app.
  - exists o1, s, [a]. repeat split; auto. cbn. rewrite Hc. reflexivity.
  - exists o2, s, [a]. repeat split; auto. cbn. rewrite Hc. reflexivity.
Qed.

(** ** what one call consumes, as a function of its arguments and its answer *)
Definition call_cost (c : call) (a : answer) (n : Z) : Prop :=
  match c, a with
  | CUniform _ _, AReal _ => n = 1
  | CGauss _ _, AReal _ => n = 1
  | CInvT _ _ _, AReal _ => n = 1
  | CPoisson _, ACount k => 0 <= k /\ n = k + 1
  | CPoissonV lams, ACounts ks => length ks = length lams /\ Forall (fun k => 0 <= k) ks /\ n = fold_right (fun k s => k + 1 + s) 0 ks
  | CRej _ _ _ _, AReal _ => exists trials, 1 <= trials < 10000 /\ n = 2 * trials
  | CRej2 _ _ _ _ _ _, APoint _ => exists trials, 1 <= trials < 10000 /\ n = 3 * trials
  | CMetro _ _ sample thin burn _, AReals l => n = metro_consumed burn thin sample /\ Z.of_nat (length l) = metro_kept burn thin sample
  | CMetro2 _ _ _ sample thin burn _, APoints l => n = metro2_consumed burn thin sample /\ Z.of_nat (length l) = metro_kept burn thin sample
  | _, _ => False
  end.

Lemma ans_inv {A} (f : A -> answer) x a r : ans f x = Ok (a, r) -> exists v, x = Ok (v, r) /\ a = f v.
Proof. destruct x as [[v r']| | |]; cbn; try (intros E; discriminate E). intros E; inversion E; subst. eauto. Qed.

Theorem run_call_cost c us a r : run_call Ops c us = Ok (a, r) -> exists n, call_cost c a n /\ consumes us r n.
Proof.
  destruct c; cbn [run_call]; intros H; apply ans_inv in H; destruct H as (v & H & ->); cbn [call_cost].
  - apply sample_uniform_inv in H. destruct H as (u & -> & _). exists 1. split; [reflexivity|]. exists [u]. auto.
  - apply sample_gauss_inv in H. destruct H as (u & -> & _). exists 1. split; [reflexivity|]. exists [u]. auto.
  - apply sample_poisson_consumes in H. destruct H as [Hk Hc]. exists (v + 1). auto.
  - apply sample_poisson_list_consumes in H. destruct H as (Hl & Hf & Hc). eexists. split; [split; [exact Hl|split; [exact Hf|reflexivity]]|exact Hc].
  - apply inverse_transform_inv in H. destruct H as (u & -> & _). exists 1. split; [reflexivity|]. exists [u]. auto.
  - apply rejection_sampling_spec in H. destruct H as (pre & u1 & u2 & _ & _ & _ & _ & _ & _ & Ht & Hc).
    eexists. split; [|exact Hc]. eexists. split; [exact Ht|reflexivity].
  - apply rejection_sampling_2d_spec in H. destruct H as (pre & u1 & u2 & u3 & _ & _ & _ & _ & Ht & Hc).
    eexists. split; [|exact Hc]. eexists. split; [exact Ht|reflexivity].
  - apply sample_metropolis_spec in H. destruct H as (_ & Hc & Hl). eexists. split; [split; [reflexivity|exact Hl]|exact Hc].
  - apply sample_metropolis_2d_spec in H. destruct H as (_ & Hc & Hl). eexists. split; [split; [reflexivity|exact Hl]|exact Hc].
Qed.

Inductive costs : list call -> list answer -> Z -> Prop :=
| costs_nil : costs [] [] 0
| costs_cons c a n cs l m : call_cost c a n -> costs cs l m -> costs (c :: cs) (a :: l) (n + m).

(** the stream a history consumes is the sum of what its calls consume, call by call: nothing is drawn between
    the calls, nothing is put back *)
Theorem history_consumption cs : forall us outs r,
  run_calls Ops cs us = Ok (outs, r) -> exists n, costs cs outs n /\ consumes us r n.
Proof.
  induction cs as [|c cs IH]; intros us outs r H.
  - cbn in H. inversion H; subst. exists 0. split; [constructor|]. exists []. auto.
  - apply run_calls_cons in H. destruct H as (a & r1 & l & Hc & Hl & ->).
    apply run_call_cost in Hc. destruct Hc as (n & Hn & Hcn). apply IH in Hl. destruct Hl as (m & Hm & Hcm).
    exists (n + m). split; [constructor; assumption|]. eapply consumes_trans; eauto.
Qed.

Lemma costs_length cs outs n : costs cs outs n -> length outs = length cs.
Proof. induction 1; cbn; auto. Qed.

(** a history of calls with a fixed cost (uniform, Gauss, inverse transform, Metropolis) consumes a number of uniforms
    that is known before the first call is made *)
Definition fixed_cost (c : call) : option Z :=
  match c with
  | CUniform _ _ | CGauss _ _ | CInvT _ _ _ => Some 1
  | CMetro _ _ sample thin burn _ => Some (metro_consumed burn thin sample)
  | CMetro2 _ _ _ sample thin burn _ => Some (metro2_consumed burn thin sample)
  | _ => None
  end.
Fixpoint fixed_costs (cs : list call) : option Z :=
  match cs with
  | [] => Some 0
  | c :: rest => match fixed_cost c, fixed_costs rest with Some n, Some m => Some (n + m) | _, _ => None end
  end.
Lemma call_cost_fixed c a n k : call_cost c a n -> fixed_cost c = Some k -> n = k.
Proof.
  intros H E. destruct c; cbn [fixed_cost] in E; try discriminate E; inversion E; subst; destruct a; cbn in H; try tauto; destruct H; auto.
Qed.
Theorem history_consumption_fixed cs : forall us outs r n,
  fixed_costs cs = Some n -> run_calls Ops cs us = Ok (outs, r) -> consumes us r n.
Proof.
  intros us outs r n Hf H. apply history_consumption in H. destruct H as (m & Hm & Hc).
  replace n with m; [exact Hc|]. clear Hc. revert n Hf. induction Hm; intros k Hf.
  - cbn in Hf. inversion Hf; reflexivity.
  - cbn in Hf. destruct (fixed_cost c) as [n1|] eqn:E1; try discriminate. destruct (fixed_costs cs) as [m1|] eqn:E2; try discriminate.
    inversion Hf; subst. erewrite (call_cost_fixed c a n n1), (IHHm m1); eauto.
Qed.

(** the sample count of a Metropolis call holds at EVERY position of EVERY history *)
Theorem history_metropolis_count cs : forall j us outs r PDF sigma sample thin burn domain,
  nth_error cs j = Some (CMetro PDF sigma sample thin burn domain) ->
  1 <= thin -> 0 <= burn -> 0 <= sample -> burn + thin * sample < 4294967296 ->
  run_calls Ops cs us = Ok (outs, r) ->
  exists l, nth_error outs j = Some (AReals l) /\ Z.of_nat (length l) = sample.
Proof.
  induction cs as [|c cs IH]; intros j us outs r PDF sigma sample thin burn domain Hn Ht Hb Hs Hw H.
  - destruct j; discriminate.
  - apply run_calls_cons in H. destruct H as (a & r1 & l & Hc & Hl & ->). destruct j as [|j].
    + cbn in Hn. inversion Hn; subst. cbn [run_call] in Hc. apply ans_inv in Hc. destruct Hc as (v & Hv & ->).
      exists v. split; [reflexivity|]. exact (metropolis_count Ops PDF sigma sample thin burn domain us v r1 Ht Hb Hs Hw Hv).
    + cbn in Hn |- *. eapply IH; eauto.
Qed.

Theorem history_metropolis_2d_count cs : forall j us outs r PDF s1 s2 sample thin burn domain,
  nth_error cs j = Some (CMetro2 PDF s1 s2 sample thin burn domain) ->
  1 <= thin -> 0 <= burn -> 0 <= sample -> burn + thin * sample < 4294967296 ->
  run_calls Ops cs us = Ok (outs, r) ->
  exists l, nth_error outs j = Some (APoints l) /\ Z.of_nat (length l) = sample.
Proof.
  induction cs as [|c cs IH]; intros j us outs r PDF s1 s2 sample thin burn domain Hn Ht Hb Hs Hw H.
  - destruct j; discriminate.
  - apply run_calls_cons in H. destruct H as (a & r1 & l & Hc & Hl & ->). destruct j as [|j].
    + cbn in Hn. inversion Hn; subst. cbn [run_call] in Hc. apply ans_inv in Hc. destruct Hc as (v & Hv & ->).
      exists v. split; [reflexivity|]. exact (metropolis_2d_count Ops PDF s1 s2 sample thin burn domain us v r1 Ht Hb Hs Hw Hv).
    + cbn in Hn |- *. eapply IH; eauto.
Qed.

(** the vector overload of Sample_Poisson IS the history of single calls, one per expectation value, in order *)
Theorem poisson_vector_is_history lams : forall us ks r,
  sample_poisson_list Ops lams us = Ok (ks, r) <-> run_calls Ops (map (@CPoisson T) lams) us = Ok (map (@ACount T) ks, r).
Proof.
  induction lams as [|lam lams IH]; intros us ks r.
  - cbn. split; intros E; inversion E; subst.
    + reflexivity.
    + destruct ks; [reflexivity|discriminate].
  - cbn [map sample_poisson_list]. rewrite run_calls_cons. cbn [run_call]. split.
    + destruct (sample_poisson Ops lam us) as [[k r1]| | |] eqn:E1; try (intros E; discriminate E).
      destruct (sample_poisson_list Ops lams r1) as [[ks1 r2]| | |] eqn:E2; try (intros E; discriminate E).
      intros E; inversion E; subst. exists (ACount k), r1, (map (@ACount T) ks1). cbn. split; [reflexivity|]. split; [|reflexivity].
      apply IH. exact E2.
    + intros (a & r1 & l & Ha & Hl & El). apply ans_inv in Ha. destruct Ha as (k & Hk & ->). rewrite Hk.
      destruct ks as [|k0 ks]; [discriminate|]. cbn in El. inversion El; subst. apply IH in Hl. rewrite Hl. reflexivity.
Qed.
End Hist.

(** non-vacuity: a history of three different samplers on one stream of five uniforms (number type Z, "arithmetic" irrelevant) *)
