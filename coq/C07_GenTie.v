(** * C07 T-tie: the definitions regenerated from src/Statistics.cpp on every run (Gen_C07_Formulas.v,
    tools/cxx2gallina.py) are the hand model of C07_Model.v.

    The generated terms spell every literal as [nlit Ops num den m e] (exact value num/den, double m*2^e) and every
    integer constant as [nofZ Ops k]; the hand model writes [n0], [n1], [nofZ Ops 2], [ndec Ops 1 2].  The two agree in
    every arithmetic that satisfies the literal laws [LitLaws] (a literal is the quotient of its numerator and
    denominator, 0 and 1 are the ring constants).  The laws hold in the reals ([ROps_LitLaws]: this is the instance all
    analytic theorems of C07 are about); in the double instance they hold because an IEEE division of two exactly
    representable integers is the correctly rounded quotient, which is what the compiler makes of the literal — that
    instance exists only in OCaml, where the correspondence run compares the hand model with the library.
    A change of a formula, a comparison, a guard, a literal or an operand order in one of these C++ functions changes
    the generated term and breaks the corresponding lemma below before any case is run. *)
From Coq Require Import ZArith Bool Reals Lra.
From LP Require Import Num NumR C07_Model Gen_C07_Formulas.
Local Open Scope Z_scope.

Section Tie.
Context {T : Type} (Ops : NumOps T).

Record LitLaws : Prop := {
  lit_is_quotient : forall num den m e, nlit Ops num den m e = ndec Ops num den;
  lit_integer : forall k m e, nlit Ops k 1 m e = nofZ Ops k;
  ofZ_0 : nofZ Ops 0 = n0 Ops;
  ofZ_1 : nofZ Ops 1 = n1 Ops }.

Hypothesis LL : LitLaws.
Variable pi_c : T.
Variables (gammaQ gammaP inv_gammaQ : T -> T -> res T) (gammaLn inv_erf : T -> res T) (binom : Z -> Z -> res T).

Lemma rbind_ok_id (A : Type) (r : res A) : rbind r (fun h => Ok h) = r.
Proof. destruct r; reflexivity. Qed.

Lemma lit0 m e : nlit Ops 0 1 m e = n0 Ops.
Proof. rewrite (lit_integer LL). apply (ofZ_0 LL). Qed.
Lemma lit1 m e : nlit Ops 1 1 m e = n1 Ops.
Proof. rewrite (lit_integer LL). apply (ofZ_1 LL). Qed.
Lemma lit2 m e : nlit Ops 2 1 m e = nofZ Ops 2.
Proof. apply (lit_integer LL). Qed.

Ltac norm := rewrite ?lit0, ?lit1, ?lit2, ?(ofZ_0 LL), ?rbind_ok_id, ?(lit_is_quotient LL).

Lemma tie_PDF_Uniform x a b :
  g_PDF_Uniform Ops pi_c gammaQ gammaP inv_gammaQ gammaLn inv_erf binom x a b = pdf_uniform Ops x a b.
Proof. unfold g_PDF_Uniform, pdf_uniform, ngtb. norm. reflexivity. Qed.

Lemma tie_CDF_Uniform x a b :
  g_CDF_Uniform Ops pi_c gammaQ gammaP inv_gammaQ gammaLn inv_erf binom x a b = cdf_uniform Ops x a b.
Proof. unfold g_CDF_Uniform, cdf_uniform, ngtb. norm. reflexivity. Qed.

Lemma tie_PDF_Gauss x mu sigma :
  g_PDF_Gauss Ops pi_c gammaQ gammaP inv_gammaQ gammaLn inv_erf binom x mu sigma = pdf_gauss Ops pi_c x mu sigma.
Proof. unfold g_PDF_Gauss, pdf_gauss. norm. reflexivity. Qed.

Lemma tie_CDF_Gauss x mu sigma :
  g_CDF_Gauss Ops pi_c gammaQ gammaP inv_gammaQ gammaLn inv_erf binom x mu sigma = cdf_gauss Ops x mu sigma.
Proof. unfold g_CDF_Gauss, cdf_gauss. norm. reflexivity. Qed.

Lemma tie_Quantile_Gauss p mu sigma :
  g_Quantile_Gauss Ops pi_c gammaQ gammaP inv_gammaQ gammaLn inv_erf binom p mu sigma = quantile_gauss Ops inv_erf p mu sigma.
Proof. unfold g_Quantile_Gauss, quantile_gauss. norm. reflexivity. Qed.

Lemma tie_PMF_Binomial trials p x :
  g_PMF_Binomial Ops pi_c gammaQ gammaP inv_gammaQ gammaLn inv_erf binom trials p x = pmf_binomial Ops binom trials p x.
Proof. unfold g_PMF_Binomial, pmf_binomial, ngtb, gu32, u32. norm. reflexivity. Qed.

Lemma tie_CDF_Poisson mu n : 0 <= n ->
  g_CDF_Poisson Ops pi_c gammaQ gammaP inv_gammaQ gammaLn inv_erf binom mu n = cdf_poisson Ops gammaQ mu n.
Proof.
  intros Hn. unfold g_CDF_Poisson, cdf_poisson, ngeb, gu32, u32. norm.
  replace (n <? 0) with false by (symmetry; apply Z.ltb_ge; exact Hn). rewrite orb_false_r.
  destruct (nltb Ops mu (n0 Ops)); [reflexivity|].
  destruct (gammaQ mu (nofZ Ops ((n + 1) mod 4294967296))) as [gq| | |]; cbn; try reflexivity.
  destruct (nleb Ops (n0 Ops) gq); reflexivity.
Qed.

Lemma tie_Inv_CDF_Poisson n c :
  g_Inv_CDF_Poisson Ops pi_c gammaQ gammaP inv_gammaQ gammaLn inv_erf binom n c = inv_cdf_poisson Ops inv_gammaQ n c.
Proof. unfold g_Inv_CDF_Poisson, inv_cdf_poisson, ngtb, gu32, u32. norm. reflexivity. Qed.

Lemma tie_PDF_Chi_Square x dof :
  g_PDF_Chi_Square Ops pi_c gammaQ gammaP inv_gammaQ gammaLn inv_erf binom x dof = pdf_chi_square Ops gammaLn x dof.
Proof. unfold g_PDF_Chi_Square, pdf_chi_square, lit_1em6. norm. reflexivity. Qed.

Lemma tie_CDF_Chi_Square x dof :
  g_CDF_Chi_Square Ops pi_c gammaQ gammaP inv_gammaQ gammaLn inv_erf binom x dof = cdf_chi_square Ops gammaP x dof.
Proof. unfold g_CDF_Chi_Square, cdf_chi_square, lit_1em6. norm. reflexivity. Qed.

Lemma tie_PDF_Exponential x mean :
  g_PDF_Exponential Ops pi_c gammaQ gammaP inv_gammaQ gammaLn inv_erf binom x mean = pdf_exponential Ops x mean.
Proof. unfold g_PDF_Exponential, pdf_exponential. norm. reflexivity. Qed.

Lemma tie_CDF_Exponential x mean :
  g_CDF_Exponential Ops pi_c gammaQ gammaP inv_gammaQ gammaLn inv_erf binom x mean = cdf_exponential Ops x mean.
Proof. unfold g_CDF_Exponential, cdf_exponential. norm. reflexivity. Qed.

Lemma tie_PDF_Maxwell_Boltzmann x a :
  g_PDF_Maxwell_Boltzmann Ops pi_c gammaQ gammaP inv_gammaQ gammaLn inv_erf binom x a = pdf_maxwell_boltzmann Ops pi_c x a.
Proof. unfold g_PDF_Maxwell_Boltzmann, pdf_maxwell_boltzmann. norm. reflexivity. Qed.

Lemma tie_CDF_Maxwell_Boltzmann x a :
  g_CDF_Maxwell_Boltzmann Ops pi_c gammaQ gammaP inv_gammaQ gammaLn inv_erf binom x a = cdf_maxwell_boltzmann Ops pi_c x a.
Proof. unfold g_CDF_Maxwell_Boltzmann, cdf_maxwell_boltzmann. norm. reflexivity. Qed.

End Tie.

(** The literal laws hold in the reals: non-vacuity of [LitLaws], and the instance the analytic theorems use. *)
Lemma ROps_LitLaws : LitLaws ROps.
Proof.
  split; cbn; intros; try reflexivity.
  unfold Rdiv. rewrite Rinv_1. ring.
Qed.
