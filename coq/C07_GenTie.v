(** * C07 T-tie: the definitions regenerated from src/Statistics.cpp on every run (Gen_C07_Formulas.v,
    tools/cxx2gallina.py) are the hand model of C07_Model.v.

    The generated terms spell every literal as [nlit Ops num den m e] (exact value num/den, double m*2^e) and every
    integer constant as [nofZ Ops k]; the hand model writes [n0], [n1], [nofZ Ops 2], [ndec Ops 1 2].  The two agree in
    every arithmetic that satisfies the literal laws [LitLaws] (a literal is the quotient of its numerator and
    denominator, 0 and 1 are the ring constants).  The laws hold in the reals ([ROps_LitLaws]: this is the instance all
    analytic theorems of C07 are about); in the double instance they hold because an IEEE division of two exactly
    representable integers is the correctly rounded quotient, which is what the compiler makes of the literal — that
    instance exists only in OCaml, where the correspondence run compares the hand model with the library.
    A change of a formula, a comparison, a guard, a literal or an operand order in one of these C++ functions changes
    the generated term and breaks the corresponding lemma below before any case is run. *)
From Coq Require Import ZArith Bool Reals Lra List Lia.
Import ListNotations.
From LP Require Import Num NumR C07_Model Gen_C07_Formulas.
Local Open Scope Z_scope.

Section Tie.
Context {T : Type} (Ops : NumOps T).

Record LitLaws : Prop := {
  lit_is_quotient : forall num den m e, nlit Ops num den m e = ndec Ops num den;
  lit_integer : forall k m e, nlit Ops k 1 m e = nofZ Ops k;
  ofZ_0 : nofZ Ops 0 = n0 Ops;
  ofZ_1 : nofZ Ops 1 = n1 Ops }.

Hypothesis LL : LitLaws.
Variable pi_c : T.
Variables (gammaQ gammaP inv_gammaQ : T -> T -> res T) (gammaLn inv_erf : T -> res T) (binom : Z -> Z -> res T).

Lemma rbind_ok_id (A : Type) (r : res A) : rbind r (fun h => Ok h) = r.
Proof. destruct r; reflexivity. Qed.

Lemma lit0 m e : nlit Ops 0 1 m e = n0 Ops.
Proof. rewrite (lit_integer LL). apply (ofZ_0 LL). Qed.
Lemma lit1 m e : nlit Ops 1 1 m e = n1 Ops.
Proof. rewrite (lit_integer LL). apply (ofZ_1 LL). Qed.
Lemma lit2 m e : nlit Ops 2 1 m e = nofZ Ops 2.
Proof. apply (lit_integer LL). Qed.

Ltac norm := rewrite ?lit0, ?lit1, ?lit2, ?(ofZ_0 LL), ?rbind_ok_id, ?(lit_is_quotient LL).

Lemma tie_PDF_Uniform x a b :
  g_PDF_Uniform Ops pi_c gammaQ gammaP inv_gammaQ gammaLn inv_erf binom x a b = pdf_uniform Ops x a b.
Proof. unfold g_PDF_Uniform, pdf_uniform, ngtb. norm. reflexivity. Qed.

Lemma tie_CDF_Uniform x a b :
  g_CDF_Uniform Ops pi_c gammaQ gammaP inv_gammaQ gammaLn inv_erf binom x a b = cdf_uniform Ops x a b.
Proof. unfold g_CDF_Uniform, cdf_uniform, ngtb. norm. reflexivity. Qed.

Lemma tie_PDF_Gauss x mu sigma :
  g_PDF_Gauss Ops pi_c gammaQ gammaP inv_gammaQ gammaLn inv_erf binom x mu sigma = pdf_gauss Ops pi_c x mu sigma.
Proof. unfold g_PDF_Gauss, pdf_gauss. norm. reflexivity. Qed.

Lemma tie_CDF_Gauss x mu sigma :
  g_CDF_Gauss Ops pi_c gammaQ gammaP inv_gammaQ gammaLn inv_erf binom x mu sigma = cdf_gauss Ops x mu sigma.
Proof. unfold g_CDF_Gauss, cdf_gauss. norm. reflexivity. Qed.

Lemma tie_Quantile_Gauss p mu sigma :
  g_Quantile_Gauss Ops pi_c gammaQ gammaP inv_gammaQ gammaLn inv_erf binom p mu sigma = quantile_gauss Ops inv_erf p mu sigma.
Proof. unfold g_Quantile_Gauss, quantile_gauss. norm. reflexivity. Qed.

Lemma tie_PMF_Binomial trials p x :
  g_PMF_Binomial Ops pi_c gammaQ gammaP inv_gammaQ gammaLn inv_erf binom trials p x = pmf_binomial Ops binom trials p x.
Proof. unfold g_PMF_Binomial, pmf_binomial, ngtb, gu32, u32. norm. reflexivity. Qed.

Lemma tie_CDF_Poisson mu n : 0 <= n ->
  g_CDF_Poisson Ops pi_c gammaQ gammaP inv_gammaQ gammaLn inv_erf binom mu n = cdf_poisson Ops gammaQ mu n.
Proof.
  intros Hn. unfold g_CDF_Poisson, cdf_poisson, ngeb, gu32, u32. norm.
  replace (n <? 0) with false by (symmetry; apply Z.ltb_ge; exact Hn). rewrite orb_false_r.
  destruct (nltb Ops mu (n0 Ops)); [reflexivity|].
  destruct (gammaQ mu (nofZ Ops ((n + 1) mod 4294967296))) as [gq| | |]; cbn; try reflexivity.
  destruct (nleb Ops (n0 Ops) gq); reflexivity.
Qed.

Lemma tie_Inv_CDF_Poisson n c :
  g_Inv_CDF_Poisson Ops pi_c gammaQ gammaP inv_gammaQ gammaLn inv_erf binom n c = inv_cdf_poisson Ops inv_gammaQ n c.
Proof. unfold g_Inv_CDF_Poisson, inv_cdf_poisson, ngtb, gu32, u32. norm. reflexivity. Qed.

Lemma tie_PDF_Chi_Square x dof :
  g_PDF_Chi_Square Ops pi_c gammaQ gammaP inv_gammaQ gammaLn inv_erf binom x dof = pdf_chi_square Ops gammaLn x dof.
Proof. unfold g_PDF_Chi_Square, pdf_chi_square, lit_1em6. norm. reflexivity. Qed.

Lemma tie_CDF_Chi_Square x dof :
  g_CDF_Chi_Square Ops pi_c gammaQ gammaP inv_gammaQ gammaLn inv_erf binom x dof = cdf_chi_square Ops gammaP x dof.
Proof. unfold g_CDF_Chi_Square, cdf_chi_square, lit_1em6. norm. reflexivity. Qed.

Lemma tie_PDF_Exponential x mean :
  g_PDF_Exponential Ops pi_c gammaQ gammaP inv_gammaQ gammaLn inv_erf binom x mean = pdf_exponential Ops x mean.
Proof. unfold g_PDF_Exponential, pdf_exponential. norm. reflexivity. Qed.

Lemma tie_CDF_Exponential x mean :
  g_CDF_Exponential Ops pi_c gammaQ gammaP inv_gammaQ gammaLn inv_erf binom x mean = cdf_exponential Ops x mean.
Proof. unfold g_CDF_Exponential, cdf_exponential. norm. reflexivity. Qed.

Lemma tie_PDF_Maxwell_Boltzmann x a :
  g_PDF_Maxwell_Boltzmann Ops pi_c gammaQ gammaP inv_gammaQ gammaLn inv_erf binom x a = pdf_maxwell_boltzmann Ops pi_c x a.
Proof. unfold g_PDF_Maxwell_Boltzmann, pdf_maxwell_boltzmann. norm. reflexivity. Qed.

Lemma tie_CDF_Maxwell_Boltzmann x a :
  g_CDF_Maxwell_Boltzmann Ops pi_c gammaQ gammaP inv_gammaQ gammaLn inv_erf binom x a = cdf_maxwell_boltzmann Ops pi_c x a.
Proof. unfold g_CDF_Maxwell_Boltzmann, cdf_maxwell_boltzmann. norm. reflexivity. Qed.

(** ** Functions with counted loops, std::vector and std::pair parameters (tools/cxx2gallina_C07.py).
    The translator turns  for(unsigned i = A; i <= B; i++) acc OP= e;  into the fixed fold combinators [g_for] / [g_forp]
    (nat fuel = trip count); the lemmas below prove, by induction on the trip count / the vector, that each generated
    fold is the hand model's Fixpoint, for every number of iterations. *)
Lemma tie_PDF_Gauss_2D x y mean sigma :
  g_PDF_Gauss_2D Ops pi_c gammaQ gammaP inv_gammaQ gammaLn inv_erf binom x y mean sigma
  = pdf_gauss_2d Ops pi_c x y (fst mean) (snd mean) (fst sigma) (snd sigma).
Proof. unfold g_PDF_Gauss_2D, pdf_gauss_2d. norm. reflexivity. Qed.

Lemma for_cdf_binomial trials p : forall n i acc,
  g_for (fun v_i v_cdf => rbind (g_PMF_Binomial Ops pi_c gammaQ gammaP inv_gammaQ gammaLn inv_erf binom trials p v_i)
                                (fun h => Ok (nadd Ops v_cdf h))) i n acc
  = cdf_binomial_loop Ops binom trials p i n acc.
Proof.
  induction n as [|n IH]; intros i acc; cbn [g_for cdf_binomial_loop]; [reflexivity|].
  rewrite tie_PMF_Binomial. destruct (pmf_binomial Ops binom trials p i); cbn [rbind]; try reflexivity. apply IH.
Qed.

Lemma tie_CDF_Binomial trials p x :
  g_CDF_Binomial Ops pi_c gammaQ gammaP inv_gammaQ gammaLn inv_erf binom trials p x = cdf_binomial Ops binom trials p x.
Proof.
  unfold g_CDF_Binomial, cdf_binomial, ngtb. norm. cbv zeta. rewrite for_cdf_binomial, Z.sub_0_r. reflexivity.
Qed.

Lemma for_sub_logs : forall n i acc,
  g_for (fun v_i v_sum => Ok (nsub Ops v_sum (nln Ops (nofZ Ops v_i)))) i n acc = Ok (sub_logs Ops i n acc).
Proof. induction n as [|n IH]; intros; cbn [g_for sub_logs rbind]; [reflexivity|apply IH]. Qed.

Lemma tie_PMF_Poisson mu k : 0 <= k ->
  g_PMF_Poisson Ops pi_c gammaQ gammaP inv_gammaQ gammaLn inv_erf binom mu k = pmf_poisson Ops mu k.
Proof.
  intros Hk. unfold g_PMF_Poisson, pmf_poisson. norm.
  replace (k <? 0) with false by (symmetry; apply Z.ltb_ge; exact Hk). rewrite orb_false_r, Z.gtb_ltb.
  cbv zeta. rewrite for_sub_logs. cbn [rbind]. replace (k + 1 - 2) with (k - 1) by lia. reflexivity.
Qed.

Lemma for_add_logs : forall n j acc,
  g_forp (fun v_j a => nadd Ops a (nln Ops (nofZ Ops v_j))) j n acc = add_logs Ops j n acc.
Proof. induction n as [|n IH]; intros; cbn [g_forp add_logs]; [reflexivity|apply IH]. Qed.

Lemma tie_Log_Likelihood_Poisson s n b :
  g_Log_Likelihood_Poisson Ops pi_c gammaQ gammaP inv_gammaQ gammaLn inv_erf binom s n b = log_likelihood_poisson Ops s n b.
Proof.
  unfold g_Log_Likelihood_Poisson, log_likelihood_poisson. norm. cbv zeta. rewrite for_add_logs.
  replace (n + 1 - 1) with n by lia. reflexivity.
Qed.

Lemma tie_Likelihood_Poisson s n b :
  g_Likelihood_Poisson Ops pi_c gammaQ gammaP inv_gammaQ gammaLn inv_erf binom s n b = likelihood_poisson Ops s n b.
Proof. unfold g_Likelihood_Poisson, likelihood_poisson. rewrite tie_Log_Likelihood_Poisson. reflexivity. Qed.

(* the index-based mixture loop over weights[dof] is the hand model's structural recursion over the weight list *)
Lemma mix_ext (f g : T -> T -> res T) (E : forall a b, f a b = g a b) x : forall ws dof acc,
  mix_loop Ops f x ws dof acc = mix_loop Ops g x ws dof acc.
Proof.
  induction ws as [|w r IH]; intros; cbn [mix_loop]; [reflexivity|]. rewrite E.
  destruct (g x (nofZ Ops dof)); cbn [rbind]; try reflexivity. apply IH.
Qed.

Lemma for_mix (g : T -> T -> res T) x : forall ws pre dof acc, dof = Z.of_nat (length pre) ->
  g_for (fun v_dof v_a => rbind (g x (nofZ Ops v_dof))
           (fun h => Ok (nadd Ops v_a (nmul Ops (nth (Z.to_nat v_dof) (pre ++ ws) (n0 Ops)) h)))) dof (length ws) acc
  = mix_loop Ops g x ws dof acc.
Proof.
  induction ws as [|w r IH]; intros pre dof acc Hd; cbn [g_for mix_loop length]; [reflexivity|].
  replace (nth (Z.to_nat dof) (pre ++ w :: r) (n0 Ops)) with w
    by (subst dof; rewrite Nat2Z.id, app_nth2, Nat.sub_diag by lia; reflexivity).
  destruct (g x (nofZ Ops dof)); cbn [rbind]; try reflexivity.
  replace (pre ++ w :: r) with ((pre ++ [w]) ++ r) by (rewrite <- app_assoc; reflexivity).
  apply IH. rewrite app_length; cbn [length]; lia.
Qed.

Lemma tie_PDF_Chi_Bar_Square x ws :
  g_PDF_Chi_Bar_Square Ops pi_c gammaQ gammaP inv_gammaQ gammaLn inv_erf binom x ws = pdf_chi_bar_square Ops gammaLn x ws.
Proof.
  unfold g_PDF_Chi_Bar_Square, pdf_chi_bar_square. norm. destruct (nleb Ops x (n0 Ops)); [reflexivity|]. cbv zeta.
  destruct ws as [|w0 r]; [reflexivity|].
  replace (Z.to_nat (Z.of_nat (length (w0 :: r)) - 1)) with (length r) by (cbn [length]; lia).
  cbn [tl].
  transitivity (mix_loop Ops (g_PDF_Chi_Square Ops pi_c gammaQ gammaP inv_gammaQ gammaLn inv_erf binom) x r 1 (n0 Ops)).
  - exact (for_mix _ x r [w0] 1 (n0 Ops) eq_refl).
  - apply mix_ext. intros; apply tie_PDF_Chi_Square.
Qed.

Lemma tie_CDF_Chi_Bar_Square x ws :
  g_CDF_Chi_Bar_Square Ops pi_c gammaQ gammaP inv_gammaQ gammaLn inv_erf binom x ws = cdf_chi_bar_square Ops gammaP x ws.
Proof.
  unfold g_CDF_Chi_Bar_Square, cdf_chi_bar_square, ngtb. norm. destruct (nltb Ops x (n0 Ops)); [reflexivity|]. cbv zeta.
  rewrite Z.sub_0_r, Nat2Z.id.
  assert (E : forall acc, g_for (fun v_dof v_a => rbind (g_CDF_Chi_Square Ops pi_c gammaQ gammaP inv_gammaQ gammaLn inv_erf binom x (nofZ Ops v_dof))
           (fun h => Ok (nadd Ops v_a (nmul Ops (nth (Z.to_nat v_dof) ws (n0 Ops)) h)))) 0 (length ws) acc
          = mix_loop Ops (cdf_chi_square Ops gammaP) x ws 0 acc).
  { intros acc. transitivity (mix_loop Ops (g_CDF_Chi_Square Ops pi_c gammaQ gammaP inv_gammaQ gammaLn inv_erf binom) x ws 0 acc).
    - exact (for_mix _ x ws [] 0 acc eq_refl).
    - apply mix_ext. intros; apply tie_CDF_Chi_Square. }
  rewrite E. destruct (mix_loop Ops (cdf_chi_square Ops gammaP) x ws 0 (n0 Ops)) as [v| | |]; cbn [rbind]; try reflexivity.
  destruct (nltb Ops (n1 Ops) v); reflexivity.
Qed.

(* the index-based loop over the three histograms is the hand model's fold over the zipped bins *)
Lemma ofnat_eqb a b : Z.eqb (Z.of_nat a) (Z.of_nat b) = Nat.eqb a b.
Proof. destruct (Nat.eqb_spec a b) as [->|H]; [apply Z.eqb_refl|apply Z.eqb_neq; lia]. Qed.

Lemma for_binned : forall ps os bs pp po pb i acc,
  length os = length ps -> length bs = length ps ->
  i = Z.of_nat (length pp) -> length po = length pp -> length pb = length pp ->
  g_for (fun v_i a => Ok (nadd Ops a (g_Log_Likelihood_Poisson Ops pi_c gammaQ gammaP inv_gammaQ gammaLn inv_erf binom
            (nth (Z.to_nat v_i) (pp ++ ps) (n0 Ops)) (nth (Z.to_nat v_i) (po ++ os) 0) (nth (Z.to_nat v_i) (pb ++ bs) (n0 Ops)))))
        i (length ps) acc
  = Ok (fold_left (fun acc t => nadd Ops acc (log_likelihood_poisson Ops (fst (fst t)) (snd (fst t)) (snd t)))
                  (combine (combine ps os) bs) acc).
Proof.
  induction ps as [|p ps IH]; intros os bs pp po pb i acc Ho Hb Hi Hpo Hpb; [reflexivity|].
  destruct os as [|o os]; [discriminate|]. destruct bs as [|b bs]; [discriminate|].
  cbn [g_for length combine fold_left rbind fst snd].
  replace (nth (Z.to_nat i) (pp ++ p :: ps) (n0 Ops)) with p
    by (subst i; rewrite Nat2Z.id, app_nth2, Nat.sub_diag by lia; reflexivity).
  replace (nth (Z.to_nat i) (po ++ o :: os) 0) with o
    by (subst i; rewrite Nat2Z.id, <- Hpo, app_nth2, Nat.sub_diag by lia; reflexivity).
  replace (nth (Z.to_nat i) (pb ++ b :: bs) (n0 Ops)) with b
    by (subst i; rewrite Nat2Z.id, <- Hpb, app_nth2, Nat.sub_diag by lia; reflexivity).
  rewrite tie_Log_Likelihood_Poisson.
  replace (pp ++ p :: ps) with ((pp ++ [p]) ++ ps) by (rewrite <- app_assoc; reflexivity).
  replace (po ++ o :: os) with ((po ++ [o]) ++ os) by (rewrite <- app_assoc; reflexivity).
  replace (pb ++ b :: bs) with ((pb ++ [b]) ++ bs) by (rewrite <- app_assoc; reflexivity).
  cbn [length] in Ho, Hb.
  apply IH; rewrite ?app_length; cbn [length]; lia.
Qed.

Lemma tie_Log_Likelihood_Poisson_Binned ps os bs :
  g_Log_Likelihood_Poisson_Binned Ops pi_c gammaQ gammaP inv_gammaQ gammaLn inv_erf binom ps os bs
  = log_likelihood_poisson_binned Ops ps os bs.
Proof.
  unfold g_Log_Likelihood_Poisson_Binned, log_likelihood_poisson_binned. norm. cbv zeta.
  rewrite Nat2Z.id, Z.sub_0_r, Nat2Z.id, !ofnat_eqb.
  set (bg := match bs with [] => repeat (n0 Ops) (length ps) | _ :: _ => bs end).
  replace (if Nat.eqb (length bs) 0 then repeat (n0 Ops) (length ps) else bs) with bg by (destruct bs; reflexivity).
  destruct (Nat.eqb (length os) (length ps)) eqn:E1; [|reflexivity].
  destruct (Nat.eqb (length bg) (length ps)) eqn:E2; [|reflexivity].
  cbn [negb orb]. apply Nat.eqb_eq in E1. apply Nat.eqb_eq in E2.
  exact (for_binned ps os bg [] [] [] 0 (n0 Ops) E1 E2 eq_refl eq_refl eq_refl).
Qed.

Lemma tie_Likelihood_Poisson_Binned ps os bs :
  g_Likelihood_Poisson_Binned Ops pi_c gammaQ gammaP inv_gammaQ gammaLn inv_erf binom ps os bs
  = likelihood_poisson_binned Ops ps os bs.
Proof. unfold g_Likelihood_Poisson_Binned, likelihood_poisson_binned. rewrite tie_Log_Likelihood_Poisson_Binned. reflexivity. Qed.

End Tie.

(** The literal laws hold in the reals: non-vacuity of [LitLaws], and the instance the analytic theorems use. *)
Lemma ROps_LitLaws : LitLaws ROps.
Proof.
  split; cbn; intros; try reflexivity.
  unfold Rdiv. rewrite Rinv_1. ring.
Qed.
