(** * C10 model, part 2: Interpolation::Locate WITH its search state (Numerics.cpp:82-199).

    C10_Model.v models Locate(x) by its uncorrelated branch (Bisection(x, 0, N-1)).  Here the object carries the two
    private members that Locate reads and writes, `unsigned int jLast` and `bool correlated_calls`, and Hunt(x) is
    written out line by line with the integer types of the source (`int dj, jd; unsigned int ju`; conversions
    explicit: [u32], [i32]).  [locate_st] is Locate(x) as it is executed on an object that has served other requests;
    [locate_trace] is a sequence of Locate requests on one object and returns, per request, the index returned and
    the values of jLast and correlated_calls after it.  The harness reads these two private members (through an
    explicit template instantiation, without changing the library) so the run compares all three with the library. *)
From Coq Require Import ZArith List Bool.
From LP Require Import Num C10_Model.
Import ListNotations.
Local Open Scope Z_scope.
Local Open Scope res_scope.

Record lstate : Type := { jLast : Z; corr : bool }.
(** the member initialisers of the constructors: jLast(0), correlated_calls(false) *)
Definition lstate0 : lstate := {| jLast := 0; corr := false |}.

Section Hunt.
Context {T : Type} (Ops : NumOps T).
Declare Scope num2_scope.
Delimit Scope num2_scope with num.
Local Notation "x - y" := (nsub Ops x y) : num2_scope.
Local Notation "x * y" := (nmul Ops x y) : num2_scope.

(** while(x > x_values[ju]) { jd = ju; ju += dj; if(ju > N - 1) { ju = N - 1; break; } else dj += dj; }
    fuel: ju grows in every round and is cut at N - 1, so N rounds are never reached *)
Fixpoint hunt_up (fuel : nat) (xs : list T) (x : T) (N jd ju dj : Z) : res (Z * Z) :=
  let* xu := getZ xs ju in
  if ngtb Ops x xu then
    match fuel with
    | O => Fuel
    | S f =>
        let jd' := i32 ju in
        let ju' := u32 (ju + dj) in
        if ju' >? u32 (N - 1) then Ok (jd', u32 (N - 1))
        else hunt_up f xs x N jd' ju' (i32 (dj + dj))
    end
  else Ok (jd, ju).

(** while(x < x_values[jd]) { ju = jd; jd -= dj; if(jd < 0) { jd = 0; break; } else dj += dj; }
    (x_values[jd] with a negative int jd is an access outside the vector: [getZ] answers OOB) *)
Fixpoint hunt_down (fuel : nat) (xs : list T) (x : T) (jd ju dj : Z) : res (Z * Z) :=
  let* xd := getZ xs jd in
  if nltb Ops x xd then
    match fuel with
    | O => Fuel
    | S f =>
        let ju' := u32 jd in
        let jd' := i32 (jd - dj) in
        if jd' <? 0 then Ok (0, ju')
        else hunt_down f xs x jd' ju' (i32 (dj + dj))
    end
  else Ok (jd, ju).

(** Hunt(x) on an object whose last index is jl *)
Definition hunt (xs : list T) (jl : Z) (x : T) : res Z :=
  let N := zlen xs in
  let dj := 1 in
  let* xl := getZ xs jl in
  let* b :=
    (if ngtb Ops x xl then
       let jd := i32 jl in
       let ju := u32 (jd + dj) in
       let* r := hunt_up (Z.to_nat N) xs x N jd ju dj in Ok (Some r)
     else
       let* xl2 := getZ xs jl in
       if nltb Ops x xl2 then
         let ju := jl in
         let jd := i32 (u32 (ju - dj)) in
         let* r := hunt_down (Z.to_nat N) xs x jd ju dj in Ok (Some r)
       else Ok None) in
  match b with
  | None => Ok jl                                   (* return jLast; *)
  | Some (jd, ju) =>
      if u32 (ju - jd) >? 1 then
        let* j := bisection Ops (Z.to_nat N) xs x jd (i32 ju) in Ok (u32 (i32 j))
      else Ok (u32 jd)
  end.

(** Locate(x): C10_Model.locate with `j = correlated_calls ? Hunt(x) : Bisection(x, 0, N - 1)` and the update
    `correlated_calls = (fabs(j - jLast) < 10); jLast = j;` - j and jLast are unsigned, so j - jLast wraps around
    for j < jLast and only a step of 0 .. 9 intervals UPWARDS counts as correlated *)
Definition locate_st (xs : list T) (st : lstate) (x : T) : res (Z * lstate) :=
  let N := zlen xs in
  if nisnan Ops x then Exit else
  let* d0 := getZ xs 0 in
  let* d1 := getZ xs (u32 (N - 1)) in
  let* j :=
    (if nltb Ops x d0 || nltb Ops d1 x then
       let* x1 := getZ xs 1 in
       let* x0 := getZ xs 0 in
       let* xa := getZ xs (u32 (N - 1)) in
       let* xb := getZ xs (u32 (N - 2)) in
       let tol_left := (ndec Ops 1 100 * (x1 - x0))%num in
       let tol_right := (ndec Ops 1 100 * (xa - xb))%num in
       if nltb Ops (nabs Ops (x - d0)%num) tol_left then Ok 0
       else if nltb Ops (nabs Ops (x - d1)%num) tol_right then Ok (u32 (N - 2))
       else Exit
     else
       let* j := (if corr st then hunt xs (jLast st) x else bisection Ops (Z.to_nat N) xs x 0 (N - 1)) in
       if j <? u32 (N - 2) then
         let* xn := getZ xs (j + 1) in
         if neqb Ops x xn then Ok (j + 1) else Ok j
       else Ok j) in
  Ok (j, {| jLast := j; corr := u32 (j - jLast st) <? 10 |}).

(** a sequence of Locate requests on one object: (index, jLast, correlated_calls) after each *)
Fixpoint locate_trace_from (xs : list T) (st : lstate) (reqs : list T) : res (list (Z * (Z * bool))) :=
  match reqs with
  | [] => Ok []
  | x :: r =>
      let* js := locate_st xs st x in
      let* l := locate_trace_from xs (snd js) r in
      Ok ((fst js, (jLast (snd js), corr (snd js))) :: l)
  end.
Definition locate_trace (xs : list T) (reqs : list T) : res (list (Z * (Z * bool))) :=
  locate_trace_from xs lstate0 reqs.
End Hunt.
