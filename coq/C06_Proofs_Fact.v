(** * C06 proofs, part 1: the factorial memo table (any call history) and Binomial_Coefficient. *)
From Coq Require Import Reals ZArith List Lia Lra Bool Arith.
From LP Require Import Num NumR C06_Model.
Import ListNotations.

(** ** The state machine, for any number type in which the table's products are those of a map [F]
    with F 0 = 1 and F k * (k+1) = F (k+1)  (R with F = INR o fact, Z with F = Z.of_nat o fact). *)
Section FactGeneric.
Context {T : Type} (Ops : NumOps T) (F : nat -> T).
Hypothesis F0 : n1 Ops = F 0%nat.
Hypothesis FS : forall k, nmul Ops (F k) (nofZ Ops (Z.of_nat (S k))) = F (S k).

(** the invariant of FactorialList: non-empty and entry k is k! *)
Definition tbl_inv (tbl : list T) : Prop :=
  (1 <= length tbl)%nat /\ forall k, (k < length tbl)%nat -> nth k tbl (n0 Ops) = F k.

Lemma last_is_nth {A} (l : list A) d : last l d = nth (length l - 1) l d.
Proof.
  induction l as [|a l IH]; [reflexivity|].
  destruct l as [|b l]; [reflexivity|].
  change (last (a :: b :: l) d) with (last (b :: l) d). rewrite IH. cbn [length].
  replace (S (S (length l)) - 1)%nat with (S (S (length l) - 1))%nat by lia. reflexivity.
Qed.

Lemma tbl_inv_init : tbl_inv (fact_init Ops).
Proof. split; cbn; [lia|]. intros k Hk. assert (k = 0%nat) by lia. subst. cbn. exact F0. Qed.

Lemma fact_push_inv tbl : tbl_inv tbl ->
  tbl_inv (fact_push Ops tbl) /\ length (fact_push Ops tbl) = S (length tbl).
Proof.
  intros [Hl Hn]. unfold fact_push. split; [split|]; rewrite ?app_length; cbn [length]; try lia.
  intros k Hk. destruct (Nat.lt_ge_cases k (length tbl)) as [H|H].
  - rewrite app_nth1 by exact H. apply Hn, H.
  - assert (k = length tbl) by lia. subst k. rewrite app_nth2 by lia. rewrite Nat.sub_diag. cbn [nth].
    rewrite last_is_nth, Hn by lia.
    destruct (length tbl) as [|m] eqn:E; [lia|].
    replace (S m - 1)%nat with m by lia. apply FS.
Qed.

Lemma fact_grow_inv k : forall tbl, tbl_inv tbl ->
  tbl_inv (fact_grow Ops k tbl) /\ length (fact_grow Ops k tbl) = (length tbl + k)%nat /\
  exists ext, fact_grow Ops k tbl = tbl ++ ext.
Proof.
  induction k as [|k IH]; intros tbl Hi; cbn [fact_grow].
  - repeat split; try apply Hi; try lia. exists []. now rewrite app_nil_r.
  - destruct (fact_push_inv tbl Hi) as [Hi' Hl']. destruct (IH _ Hi') as (A & B & (ext & C)).
    repeat split; try apply A. + lia.
    + rewrite C. unfold fact_push. rewrite <- app_assoc. eexists. reflexivity.
Qed.

(** one call with an argument in range: returns n!, keeps the invariant, only appends to the table,
    and the table afterwards has max(size, n+1) entries *)
Lemma factorial_step_ok tbl n : tbl_inv tbl -> (0 <= n <= 170)%Z ->
  snd (factorial_step Ops tbl n) = Ok (F (Z.to_nat n)) /\
  tbl_inv (fst (factorial_step Ops tbl n)) /\
  (exists ext, fst (factorial_step Ops tbl n) = tbl ++ ext) /\
  length (fst (factorial_step Ops tbl n)) = Nat.max (length tbl) (Z.to_nat n + 1).
Proof.
  intros Hi Hn. unfold factorial_step.
  replace ((n <? 0)%Z || (n >? 170)%Z) with false
    by (symmetry; rewrite Z.gtb_ltb; apply orb_false_iff; split; apply Z.ltb_ge; lia).
  destruct (n <? Z.of_nat (length tbl))%Z eqn:E; cbn [fst snd].
  - apply Z.ltb_lt in E. repeat split; try apply Hi.
    + f_equal. apply Hi. lia.
    + exists []. now rewrite app_nil_r.
    + lia.
  - apply Z.ltb_ge in E.
    destruct (fact_grow_inv (Z.to_nat n + 1 - length tbl) tbl Hi) as (A & B & C).
    repeat split; try apply A; try exact C; try lia.
    f_equal. rewrite last_is_nth. destruct A as [A1 A2]. rewrite A2 by lia. f_equal. lia.
Qed.

(** an argument above 170 (or a negative int converted to unsigned) exits and leaves the table alone *)
Lemma factorial_step_exit tbl n : (n < 0 \/ 170 < n)%Z -> factorial_step Ops tbl n = (tbl, Exit).
Proof.
  intros Hn. unfold factorial_step.
  replace ((n <? 0)%Z || (n >? 170)%Z) with true; [reflexivity|].
  symmetry; rewrite Z.gtb_ltb; apply orb_true_iff. destruct Hn; [left | right]; apply Z.ltb_lt; lia.
Qed.

(** what a call must answer *)
Definition fact_answer (n : Z) (o : res T) : Prop :=
  if ((0 <=? n) && (n <=? 170))%Z then o = Ok (F (Z.to_nat n)) else o = Exit.

(** every history of calls: each call answers n! (or exits above 170) whatever was asked before,
    the invariant survives and the table is only ever extended *)
Lemma factorial_run_spec ns : forall tbl, tbl_inv tbl ->
  Forall2 fact_answer ns (snd (factorial_run Ops tbl ns)) /\
  tbl_inv (fst (factorial_run Ops tbl ns)) /\
  exists ext, fst (factorial_run Ops tbl ns) = tbl ++ ext.
Proof.
  induction ns as [|n ns IH]; intros tbl Hi; cbn [factorial_run].
  - cbn. repeat split; try apply Hi. constructor. exists []. now rewrite app_nil_r.
  - destruct (factorial_step Ops tbl n) as [t1 o] eqn:E1.
    destruct (factorial_run Ops t1 ns) as [t2 os] eqn:E2. cbn [fst snd].
    assert (H1 : fact_answer n o /\ tbl_inv t1 /\ exists e, t1 = tbl ++ e).
    { unfold fact_answer. destruct ((0 <=? n) && (n <=? 170))%Z eqn:Eb.
      - apply andb_true_iff in Eb. destruct Eb as [Ea Eb]. apply Z.leb_le in Ea, Eb.
        destruct (factorial_step_ok tbl n Hi (conj Ea Eb)) as (A & B & C & _). rewrite E1 in *. cbn in *. auto.
      - rewrite factorial_step_exit in E1.
        + inversion E1; subst. repeat split; try apply Hi. exists []. now rewrite app_nil_r.
        + apply andb_false_iff in Eb. destruct Eb as [Eb|Eb]; apply Z.leb_gt in Eb; lia. }
    destruct H1 as (A & B & (e1 & C)). specialize (IH t1 B). rewrite E2 in IH. cbn in IH.
    destruct IH as (D & G & (e2 & H)). repeat split; try apply G.
    + constructor; assumption.
    + subst. rewrite <- app_assoc. eexists; reflexivity.
Qed.
End FactGeneric.

(** ** Instance 1: the reals *)
Lemma FR0 : n1 ROps = INR (fact 0). Proof. reflexivity. Qed.
Lemma FRS k : nmul ROps (INR (fact k)) (nofZ ROps (Z.of_nat (S k))) = INR (fact (S k)).
Proof.
  cbn [nmul nofZ ROps]. rewrite <- INR_IZR_INZ. change (fact (S k)) with (S k * fact k)%nat.
  rewrite mult_INR. ring.
Qed.
Definition Ffact (k : nat) : R := INR (fact k).
Definition tbl_inv_R := tbl_inv ROps Ffact.

(** ** Instance 2: the integers (exact arithmetic; only n0 n1 nmul nofZ are used by the factorial model) *)
Definition ZOps : NumOps Z := {|
  n0 := 0%Z; n1 := 1%Z; nadd := Z.add; nsub := Z.sub; nmul := Z.mul; ndiv := Z.div;
  nneg := Z.opp; nabs := Z.abs; nsqrt := Z.sqrt; nltb := Z.ltb; nleb := Z.leb; neqb := Z.eqb;
  nofZ := fun z => z; nisnan := fun _ => false;
  nexp := fun z => z; nln := fun z => z; nlog10 := fun z => z; nsin := fun z => z; ncos := fun z => z;
  nacos := fun z => z; nfloor := fun z => z; nerf := fun z => z; npow := fun z _ => z;
  npowi := fun z _ => z; nlit := fun n _ _ _ => n; ntrunc := fun z => z |}.
Definition FfactZ (k : nat) : Z := Z.of_nat (fact k).
Lemma FZ0 : n1 ZOps = FfactZ 0. Proof. reflexivity. Qed.
Lemma FZS k : nmul ZOps (FfactZ k) (nofZ ZOps (Z.of_nat (S k))) = FfactZ (S k).
Proof. unfold FfactZ. cbn [nmul nofZ ZOps]. change (fact (S k)) with (S k * fact k)%nat. lia. Qed.

(** ** Property-level statements *)
Theorem factorial_any_history_R (ns : list Z) :
  let '(tbl, os) := factorial_run ROps (fact_init ROps) ns in
  Forall2 (fact_answer Ffact) ns os /\
  (1 <= length tbl)%nat /\ (forall k, (k < length tbl)%nat -> nth k tbl 0%R = INR (fact k)).
Proof.
  destruct (factorial_run ROps (fact_init ROps) ns) as [tbl os] eqn:E.
  destruct (factorial_run_spec ROps Ffact FRS ns _ (tbl_inv_init ROps Ffact FR0)) as (A & B & _).
  rewrite E in *. cbn [fst snd] in *. split; [exact A|exact B].
Qed.

Theorem factorial_any_history_Z (ns : list Z) :
  let '(tbl, os) := factorial_run ZOps (fact_init ZOps) ns in
  Forall2 (fact_answer FfactZ) ns os /\
  (1 <= length tbl)%nat /\ (forall k, (k < length tbl)%nat -> nth k tbl 0%Z = Z.of_nat (fact k)).
Proof.
  destruct (factorial_run ZOps (fact_init ZOps) ns) as [tbl os] eqn:E.
  destruct (factorial_run_spec ZOps FfactZ FZS ns _ (tbl_inv_init ZOps FfactZ FZ0)) as (A & B & _).
  rewrite E in *. cbn [fst snd] in *. split; [exact A|exact B].
Qed.

(** from any reachable table, not only the initial one; the table is only appended to and its size is
    max(size, n+1) <= 171 *)
Theorem factorial_step_any_table (tbl : list R) (n : Z) : tbl_inv_R tbl ->
  (0 <= n <= 170 ->
     snd (factorial_step ROps tbl n) = Ok (INR (fact (Z.to_nat n))) /\
     tbl_inv_R (fst (factorial_step ROps tbl n)) /\
     (exists ext, fst (factorial_step ROps tbl n) = tbl ++ ext) /\
     length (fst (factorial_step ROps tbl n)) = Nat.max (length tbl) (Z.to_nat n + 1))%Z /\
  (n < 0 \/ 170 < n -> factorial_step ROps tbl n = (tbl, Exit))%Z.
Proof.
  intros Hi. split; intros H.
  - exact (factorial_step_ok ROps Ffact FRS tbl n Hi H).
  - exact (factorial_step_exit ROps tbl n H).
Qed.

(** n! = n (n-1)!  on the model's answers, from any reachable tables *)
Theorem factorial_recurrence (t1 t2 : list R) (n : Z) : tbl_inv_R t1 -> tbl_inv_R t2 -> (1 <= n <= 170)%Z ->
  exists f g, snd (factorial_step ROps t1 n) = Ok f /\ snd (factorial_step ROps t2 (n - 1)) = Ok g /\
              f = (IZR n * g)%R.
Proof.
  intros H1 H2 Hn.
  destruct (factorial_step_ok ROps Ffact FRS t1 n H1) as (A & _); [lia|].
  destruct (factorial_step_ok ROps Ffact FRS t2 (n - 1) H2) as (B & _); [lia|].
  exists (Ffact (Z.to_nat n)), (Ffact (Z.to_nat (n - 1))). split; [exact A|]. split; [exact B|].
  unfold Ffact. replace (Z.to_nat n) with (S (Z.to_nat (n - 1))) by lia.
  change (fact (S (Z.to_nat (n - 1)))) with (S (Z.to_nat (n - 1)) * fact (Z.to_nat (n - 1)))%nat.
  rewrite mult_INR. f_equal. rewrite INR_IZR_INZ. f_equal. lia.
Qed.

Example factorial_history_example :
  snd (factorial_run ZOps (fact_init ZOps) [5; 3; 171; 10; 0]%Z) = [Ok 120; Ok 6; Exit; Ok 3628800; Ok 1]%Z.
Proof. vm_compute. reflexivity. Qed.

(** ** Binomial coefficients *)
Fixpoint binom (n k : nat) : nat :=
  match n, k with
  | _, O => 1
  | O, S _ => 0
  | S n', S k' => binom n' k' + binom n' k
  end.

Lemma binom_0_r n : binom n 0 = 1%nat. Proof. destruct n; reflexivity. Qed.
Lemma binom_gt n : forall k, (n < k)%nat -> binom n k = 0%nat.
Proof. induction n; intros [|k] H; cbn; try lia. rewrite !IHn by lia. reflexivity. Qed.
Lemma binom_pascal n k : binom (S n) (S k) = (binom n k + binom n (S k))%nat. Proof. reflexivity. Qed.

Lemma binom_fact n : forall k, (k <= n)%nat -> (binom n k * (fact k * fact (n - k)) = fact n)%nat.
Proof.
  induction n as [|n IH]; intros k Hk.
  - assert (k = 0)%nat by lia. subst. reflexivity.
  - destruct k as [|k].
    + rewrite binom_0_r, Nat.sub_0_r. cbn [fact]. lia.
    + rewrite binom_pascal. replace (S n - S k)%nat with (n - k)%nat by lia.
      assert (H1 := IH k ltac:(lia)).
      destruct (Nat.eq_dec k n) as [->|Hne].
      * rewrite (binom_gt n (S n)) by lia. rewrite Nat.sub_diag in *. rewrite Nat.add_0_r.
        change (fact (S n)) with (S n * fact n)%nat. nia.
      * assert (H2 := IH (S k) ltac:(lia)).
        replace (n - k)%nat with (S (n - S k)) in * by lia.
        change (fact (S (n - S k))) with (S (n - S k) * fact (n - S k))%nat in *.
        change (fact (S n)) with (S n * fact n)%nat.
        change (fact (S k)) with (S k * fact k)%nat in *.
        assert (E : (S n = S k + S (n - S k))%nat) by lia.
        rewrite E at 1. clear E. nia.
Qed.

Lemma binom_sym n k : (k <= n)%nat -> binom n k = binom n (n - k).
Proof.
  intros H. assert (A := binom_fact n k H). assert (B := binom_fact n (n - k) ltac:(lia)).
  replace (n - (n - k))%nat with k in B by lia.
  assert (P : (0 < fact k * fact (n - k))%nat) by (apply Nat.mul_pos_pos; apply lt_O_fact).
  rewrite (Nat.mul_comm (fact (n - k))) in B. rewrite <- B in A.
  apply Nat.mul_cancel_r in A; lia.
Qed.

Lemma INR_fact_neq k : INR (fact k) <> 0%R. Proof. apply INR_fact_neq_0. Qed.

Lemma binom_R n k : (k <= n)%nat ->
  (INR (fact n) / INR (fact k) / INR (fact (n - k)) = INR (binom n k))%R.
Proof.
  intros H. rewrite <- (binom_fact n k H). rewrite !mult_INR. field.
  split; apply INR_fact_neq.
Qed.

Lemma Int_part_half_IZR z : Int_part (1 / 2 + IZR z) = z.
Proof.
  destruct (base_Int_part (1 / 2 + IZR z)) as [A B]. set (m := Int_part (1 / 2 + IZR z)) in *.
  assert (H1 : (m - z < 1)%Z) by (apply lt_IZR; rewrite minus_IZR; lra).
  assert (H2 : (-1 < m - z)%Z) by (apply lt_IZR; rewrite minus_IZR; lra).
  lia.
Qed.

(** Binomial_Coefficient from any reachable table: exact for 0 <= k <= n <= 170 *)
Lemma binomial_step_exact tbl n k : tbl_inv_R tbl -> (0 <= k <= n)%Z -> (n <= 170)%Z ->
  snd (binomial_step ROps tbl n k) = Ok (INR (binom (Z.to_nat n) (Z.to_nat k))) /\
  tbl_inv_R (fst (binomial_step ROps tbl n k)) /\ exists ext, fst (binomial_step ROps tbl n k) = tbl ++ ext.
Proof.
  intros Hi Hk Hn. unfold binomial_step.
  replace ((k <? 0)%Z || (n <? 0)%Z) with false
    by (symmetry; apply orb_false_iff; split; apply Z.ltb_ge; lia).
  replace (n <? k)%Z with false by (symmetry; apply Z.ltb_ge; lia).
  replace (n >? 170)%Z with false by (symmetry; rewrite Z.gtb_ltb; apply Z.ltb_ge; lia).
  destruct (factorial_step_ok ROps Ffact FRS tbl n Hi ltac:(lia)) as (A1 & B1 & (e1 & C1) & _).
  destruct (factorial_step ROps tbl n) as [t1 f1]. cbn [fst snd] in *.
  destruct (factorial_step_ok ROps Ffact FRS t1 k B1 ltac:(lia)) as (A2 & B2 & (e2 & C2) & _).
  destruct (factorial_step ROps t1 k) as [t2 f2]. cbn [fst snd] in *.
  destruct (factorial_step_ok ROps Ffact FRS t2 (n - k) B2 ltac:(lia)) as (A3 & B3 & (e3 & C3) & _).
  destruct (factorial_step ROps t2 (n - k)) as [t3 f3]. cbn [fst snd] in *.
  subst f1 f2 f3. cbn [rbind]. repeat split; try apply B3.
  - f_equal. unfold Ffact, ndec. cbn [nfloor nadd ndiv nofZ ROps].
    replace (Z.to_nat (n - k)) with (Z.to_nat n - Z.to_nat k)%nat by lia.
    rewrite binom_R by lia. rewrite INR_IZR_INZ, Int_part_half_IZR. reflexivity.
  - subst. rewrite <- !app_assoc. eexists; reflexivity.
Qed.

Lemma binomial_exact n k : (0 <= k <= n)%Z -> (n <= 170)%Z ->
  binomial ROps n k = Ok (INR (binom (Z.to_nat n) (Z.to_nat k))).
Proof. intros. unfold binomial. apply binomial_step_exact; auto. apply (tbl_inv_init ROps Ffact FR0). Qed.

Lemma binomial_exact_full n k : (0 <= k <= n)%Z -> (n <= 170)%Z ->
  binomial ROps n k = Ok (INR (binom (Z.to_nat n) (Z.to_nat k))) /\
  (INR (binom (Z.to_nat n) (Z.to_nat k))
   = INR (fact (Z.to_nat n)) / INR (fact (Z.to_nat k)) / INR (fact (Z.to_nat n - Z.to_nat k)))%R.
Proof. intros H1 H2. split; [exact (binomial_exact n k H1 H2)|]. symmetry. apply binom_R. lia. Qed.

Lemma binomial_lt tbl n k : (0 <= n < k)%Z -> binomial_step ROps tbl n k = (tbl, Ok 0%R).
Proof.
  intros H. unfold binomial_step.
  replace ((k <? 0)%Z || (n <? 0)%Z) with false
    by (symmetry; apply orb_false_iff; split; apply Z.ltb_ge; lia).
  replace (n <? k)%Z with true by (symmetry; apply Z.ltb_lt; lia). reflexivity.
Qed.

Lemma binomial_negative tbl n k : (k < 0 \/ n < 0)%Z -> binomial_step ROps tbl n k = (tbl, Exit).
Proof.
  intros H. unfold binomial_step.
  replace ((k <? 0)%Z || (n <? 0)%Z) with true; [reflexivity|].
  symmetry; apply orb_true_iff. destruct H; [left|right]; apply Z.ltb_lt; lia.
Qed.

(** the value does not depend on the table the call finds *)
Lemma binomial_history_free tbl n k : tbl_inv_R tbl -> (n <= 170)%Z ->
  snd (binomial_step ROps tbl n k) = binomial ROps n k.
Proof.
  intros Hi Hn. unfold binomial.
  destruct (Z.lt_ge_cases k 0) as [H|H]; [rewrite !binomial_negative by lia; reflexivity|].
  destruct (Z.lt_ge_cases n 0) as [H0|H0]; [rewrite !binomial_negative by lia; reflexivity|].
  destruct (Z.lt_ge_cases n k) as [H1|H1]; [rewrite !binomial_lt by lia; reflexivity|].
  destruct (binomial_step_exact tbl n k Hi ltac:(lia) Hn) as (A & _). rewrite A.
  destruct (binomial_step_exact _ n k (tbl_inv_init ROps Ffact FR0) ltac:(lia) Hn) as (B & _). now rewrite B.
Qed.

Lemma binomial_pascal n k : (1 <= k <= n)%Z -> (n <= 170)%Z ->
  exists b b1 b2, binomial ROps n k = Ok b /\ binomial ROps (n - 1) (k - 1) = Ok b1 /\
                  binomial ROps (n - 1) k = Ok b2 /\ (b = b1 + b2)%R.
Proof.
  intros Hk Hn. exists (INR (binom (Z.to_nat n) (Z.to_nat k))), (INR (binom (Z.to_nat (n - 1)) (Z.to_nat (k - 1)))),
    (INR (binom (Z.to_nat (n - 1)) (Z.to_nat k))).
  split; [apply binomial_exact; lia|]. split; [apply binomial_exact; lia|]. split.
  - destruct (Z.eq_dec k n) as [->|Hne].
    + unfold binomial. rewrite binomial_lt by lia. cbn [snd]. rewrite binom_gt by lia. reflexivity.
    + apply binomial_exact; lia.
  - replace (Z.to_nat n) with (S (Z.to_nat (n - 1))) by lia.
    replace (Z.to_nat k) with (S (Z.to_nat (k - 1))) at 1 by lia.
    rewrite binom_pascal, plus_INR. repeat f_equal. lia.
Qed.

Lemma binomial_symmetry n k : (0 <= k <= n)%Z -> (n <= 170)%Z -> binomial ROps n k = binomial ROps n (n - k).
Proof.
  intros Hk Hn. rewrite !binomial_exact by lia. do 2 f_equal.
  replace (Z.to_nat (n - k)) with (Z.to_nat n - Z.to_nat k)%nat by lia. apply binom_sym. lia.
Qed.

Example binomial_example : binomial ROps 5 2 = Ok 10%R.
Proof. rewrite binomial_exact by lia. f_equal. rewrite INR_IZR_INZ. reflexivity. Qed.
