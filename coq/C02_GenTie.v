(** * C02 T-tie: Sign(double) and Sign(double,double) of src/Special_Functions.cpp, regenerated from the source on
    every run of the check (Gen_C02_Formulas.v, tools/cxx2gallina.py), are the terms [sign1] / [sign2] (coq/Num.v)
    that the model of Find_Root (C02_Model.v: the end test Sign(fLeft)*Sign(fRight) >= 0, Sign(g1-g2) in Ridder's
    formula, the three re-bracketing tests Sign(f,f4) != f) is written with.

    The generated terms spell the source literals 0.0 and -1.0 as [nlit Ops 0 1 0 0] and [nneg (nlit Ops 1 1 1 0)];
    Num.v writes [n0 Ops] and [nneg (n1 Ops)].  The two agree in every instance in which these two literals are the
    constants 0 and 1 ([Lit01]; proved for the reals, [ROps_Lit01]; in the double instance, which exists only in OCaml,
    nlit _ _ m e is m*2^e, i.e. 0.0 and 1.0, and the correspondence run compares [sign1]/[sign2] with the library's Sign
    directly, ops sgn / sgn2).  A change of a comparison, a branch, a returned constant or the operand order in one of the
    two C++ functions changes the generated term and breaks a lemma below before any case is run. *)
From Coq Require Import ZArith Bool Reals Lra.
From LP Require Import Num NumR C02_Model Gen_C02_Formulas.
Local Open Scope Z_scope.

Definition Lit01 {T : Type} (Ops : NumOps T) : Prop :=
  nlit Ops 0 1 0 0 = n0 Ops /\ nlit Ops 1 1 1 0 = n1 Ops.

Lemma gen_Sign_is_model {T : Type} (Ops : NumOps T) : Lit01 Ops -> forall x, g_Sign Ops x = sign1 Ops x.
Proof. intros [L0 _] x. unfold g_Sign, sign1, ngtb. rewrite L0. reflexivity. Qed.

Lemma gen_Sign2_is_model {T : Type} (Ops : NumOps T) : Lit01 Ops -> forall x y, g_Sign2 Ops x y = sign2 Ops x y.
Proof.
  intros L x y. unfold g_Sign2, sign2. rewrite !(gen_Sign_is_model Ops L). destruct L as [_ L1]. rewrite L1. reflexivity.
Qed.

Lemma ROps_Lit01 : Lit01 ROps.
Proof. split; cbn; lra. Qed.

(** the generated functions over the reals: the mathematical sign, and "x with the sign class of y or -x" *)
Lemma gen_Sign_R (x : R) : g_Sign ROps x = (if Rltb 0 x then 1 else if Reqb x 0 then 0 else -1).
Proof. rewrite (gen_Sign_is_model ROps ROps_Lit01). reflexivity. Qed.
