(** * C04 proofs: forward rounding-error bounds for the accumulations of the model.
    The SAME NumOps-polymorphic model terms (coq/C04_Model.v: [vdot], [dotk] / [m_product], [m_product_v], [v_mul_m],
    [m_norm2], [m_add_assign] / [m_sub_assign], [vadd] / [vsub]) are instantiated at a real-valued arithmetic whose
    addition, subtraction and multiplication are arbitrary functions [fadd fsub fmul] that satisfy the standard model of
    floating-point arithmetic with unit roundoff [u]  (fl(x op y) = (x op y)(1+d), |d| <= u)  - Section hypotheses, not
    axioms; IEEE double arithmetic without underflow / overflow satisfies them with u = 2^-53.
    Classical forward bound, by induction over the length of the accumulation, every n:
        | fl(sum_i x_i y_i) - sum_i x_i y_i |  <=  ((1+u)^n - 1) * sum_i |x_i| |y_i|
    when adding to the initial 0.0 of the accumulator is exact (IEEE: 0 + y = y; hypothesis [fadd_0_l]), and with n+1
    in place of n without that hypothesis. *)
From Coq Require Import Reals List Lia Lra Arith ZArith Psatz.
From LP Require Import Num NumR C04_Model.
Import ListNotations.
Local Open Scope R_scope.

Definition lsum {A} (f : A -> R) (l : list A) : R := fold_right (fun i s => f i + s) 0 l.

Lemma lsum_nonneg {A} (f : A -> R) l : (forall i, 0 <= f i) -> 0 <= lsum f l.
Proof. intros H. induction l; simpl; [lra|]. specialize (H a). lra. Qed.
Lemma lsum_ext {A} (f g : A -> R) l : (forall i, In i l -> f i = g i) -> lsum f l = lsum g l.
Proof.
  induction l; simpl; intros H; [reflexivity|].
  rewrite (H a (or_introl eq_refl)), IHl by (intros; apply H; right; assumption). reflexivity.
Qed.
Lemma lsum_app {A} (f : A -> R) l1 l2 : lsum f (l1 ++ l2) = lsum f l1 + lsum f l2.
Proof. induction l1; simpl; [lra|]. rewrite IHl1. lra. Qed.

(** the table of f over 0 <= i < n *)
Lemma nth_tab {A} (d : A) n (f : nat -> A) i : (i < n)%nat -> nth i (tab n f) d = f i.
Proof.
  intros H. unfold tab. rewrite (nth_indep _ d (f 0%nat)) by (rewrite map_length, seq_length; lia).
  rewrite map_nth, seq_nth by lia. reflexivity.
Qed.

Lemma fold_left_map' {A B C} (f : A -> B -> A) (h : C -> B) l a :
  fold_left f (map h l) a = fold_left (fun a x => f a (h x)) l a.
Proof. revert a. induction l; intros; simpl; [reflexivity|apply IHl]. Qed.
(** for(i) for(j) acc = g acc i j   is one accumulation over the pairs (i,j) in row-major order *)
Lemma nested_fold {B} (g : B -> nat -> nat -> B) (rows cols : list nat) : forall acc,
  fold_left (fun acc i => fold_left (fun acc j => g acc i j) cols acc) rows acc
  = fold_left (fun acc p => g acc (fst p) (snd p)) (list_prod rows cols) acc.
Proof.
  induction rows as [|i r IH]; intros acc; simpl; [reflexivity|].
  rewrite fold_left_app, fold_left_map'. simpl. apply IH.
Qed.

(** the operations of [ROps] with other +, -, * *)
Definition FOpsOf (fadd fsub fmul : R -> R -> R) : NumOps R := {|
  n0 := 0; n1 := 1; nadd := fadd; nsub := fsub; nmul := fmul; ndiv := Rdiv;
  nneg := Ropp; nabs := Rabs; nsqrt := sqrt; nltb := Rltb; nleb := Rleb; neqb := Reqb; nofZ := IZR;
  nisnan := nisnan ROps; nexp := exp; nln := ln; nlog10 := nlog10 ROps; nsin := sin; ncos := cos; nacos := acos;
  nfloor := nfloor ROps; nerf := nerf ROps; npow := Rpower; npowi := powerRZ; nlit := nlit ROps; ntrunc := ntrunc ROps |}.

Section Rounding.
Variables (fadd fsub fmul : R -> R -> R) (u : R).
Hypothesis u_nonneg : 0 <= u.
Hypothesis fadd_model : forall x y, exists d, Rabs d <= u /\ fadd x y = (x + y) * (1 + d).
Hypothesis fsub_model : forall x y, exists d, Rabs d <= u /\ fsub x y = (x - y) * (1 + d).
Hypothesis fmul_model : forall x y, exists d, Rabs d <= u /\ fmul x y = (x * y) * (1 + d).

Notation FOps := (FOpsOf fadd fsub fmul).

Lemma abs_1d d : Rabs d <= u -> Rabs (1 + d) <= 1 + u.
Proof. intros H. eapply Rle_trans; [apply Rabs_triang|]. rewrite Rabs_R1. lra. Qed.

Lemma abs_dd d1 d2 : Rabs d1 <= u -> Rabs d2 <= u -> Rabs (d1 + d2 + d1 * d2) <= 2 * u + u * u.
Proof.
  intros H1 H2. eapply Rle_trans; [apply Rabs_triang|]. eapply Rle_trans; [apply Rplus_le_compat_r, Rabs_triang|].
  rewrite Rabs_mult. pose proof (Rabs_pos d1). pose proof (Rabs_pos d2).
  assert (Rabs d1 * Rabs d2 <= u * u) by (apply Rmult_le_compat; assumption). lra.
Qed.

Lemma pow1u_ge1 n : 1 <= (1 + u) ^ n.
Proof. apply pow_R1_Rle. lra. Qed.

(** ** The accumulation  acc = acc + x_i * y_i  over any list of indices, from any initial value *)
Section Fold.
Context {A : Type} (x y : A -> R).
Let step := fun (a : R) (i : A) => fadd a (fmul (x i) (y i)).
Let exact := fun i => x i * y i.
Let mag := fun i => Rabs (x i) * Rabs (y i).

Lemma mag_nonneg i : 0 <= mag i.
Proof. unfold mag. apply Rmult_le_pos; apply Rabs_pos. Qed.

Lemma fold_bound (l : list A) : forall acc,
  Rabs (fold_left step l acc - (acc + lsum exact l))
  <= ((1 + u) ^ length l - 1) * Rabs acc + ((1 + u) ^ S (length l) - 1) * lsum mag l.
Proof.
  induction l as [|i r IH]; intros acc.
  - simpl. replace (acc - (acc + 0)) with 0 by ring. rewrite Rabs_R0. lra.
  - cbn [fold_left length lsum fold_right].
    destruct (fmul_model (x i) (y i)) as [d1 [Hd1 E1]].
    destruct (fadd_model acc (fmul (x i) (y i))) as [d2 [Hd2 E2]].
    set (acc1 := step acc i). specialize (IH acc1).
    fold (lsum exact r). fold (lsum mag r).
    set (F := fold_left step r acc1) in *. set (S0 := lsum exact r) in *.
    assert (HT : 0 <= lsum mag r) by (apply lsum_nonneg, mag_nonneg).
    set (Tr := lsum mag r) in *.
    pose proof (pow1u_ge1 (length r)) as HP. set (P := (1 + u) ^ length r) in *.
    change ((1 + u) ^ S (length r)) with ((1 + u) * P) in *.
    change ((1 + u) ^ S (S (length r))) with ((1 + u) * ((1 + u) * P)).
    assert (Eacc : acc1 = (acc + exact i * (1 + d1)) * (1 + d2)).
    { unfold acc1, step. rewrite E2, E1. reflexivity. }
    assert (Hmag : Rabs (exact i) = mag i) by (unfold exact, mag; apply Rabs_mult).
    (* B1 *)
    assert (B1 : Rabs acc1 <= (Rabs acc + mag i * (1 + u)) * (1 + u)).
    { rewrite Eacc, Rabs_mult. apply Rmult_le_compat; try apply Rabs_pos; [|apply abs_1d; assumption].
      eapply Rle_trans; [apply Rabs_triang|]. apply Rplus_le_compat_l.
      rewrite Rabs_mult, Hmag. apply Rmult_le_compat_l; [apply mag_nonneg|apply abs_1d; assumption]. }
    (* B2 *)
    assert (B2 : Rabs (acc1 - acc - exact i) <= u * Rabs acc + (2 * u + u * u) * mag i).
    { replace (acc1 - acc - exact i) with (acc * d2 + exact i * (d1 + d2 + d1 * d2)) by (rewrite Eacc; ring).
      eapply Rle_trans; [apply Rabs_triang|]. rewrite !Rabs_mult, Hmag.
      pose proof (abs_dd d1 d2 Hd1 Hd2). pose proof (Rabs_pos acc). pose proof (mag_nonneg i).
      assert (Rabs acc * Rabs d2 <= Rabs acc * u) by (apply Rmult_le_compat_l; assumption).
      assert (mag i * Rabs (d1 + d2 + d1 * d2) <= mag i * (2 * u + u * u)) by (apply Rmult_le_compat_l; assumption).
      lra. }
    assert (L : Rabs (F - (acc + (exact i + S0))) <= Rabs (F - (acc1 + S0)) + Rabs (acc1 - acc - exact i)).
    { replace (F - (acc + (exact i + S0))) with ((F - (acc1 + S0)) + (acc1 - acc - exact i)) by ring. apply Rabs_triang. }
    pose proof (Rabs_pos acc) as Ha. pose proof (mag_nonneg i) as Hb.
    set (a := Rabs acc) in *. set (b := mag i) in *. set (c := Rabs acc1) in *.
    assert (H1 : (P - 1) * c <= (P - 1) * ((a + b * (1 + u)) * (1 + u))) by (apply Rmult_le_compat_l; lra).
    assert (H2 : ((1 + u) * P - 1) * Tr <= ((1 + u) * ((1 + u) * P) - 1) * Tr).
    { apply Rmult_le_compat_r; [assumption|]. nra. }
    eapply Rle_trans; [exact L|]. eapply Rle_trans; [apply Rplus_le_compat; [exact IH|exact B2]|].
    eapply Rle_trans; [apply Rplus_le_compat_r, Rplus_le_compat; [exact H1|exact H2]|].
    apply Req_le. ring.
Qed.

(** from the accumulator 0, no assumption about adding to zero: n+1 roundings at most *)
Lemma fold0_bound_general (l : list A) :
  Rabs (fold_left step l 0 - lsum exact l) <= ((1 + u) ^ S (length l) - 1) * lsum mag l.
Proof.
  pose proof (fold_bound l 0) as H. rewrite Rabs_R0, Rmult_0_r, !Rplus_0_l in H. exact H.
Qed.

(** adding to the initial zero is exact (IEEE): the classical  (1+u)^n - 1 *)
Hypothesis fadd_0_l : forall z, fadd 0 z = z.

Lemma fold0_bound (l : list A) :
  Rabs (fold_left step l 0 - lsum exact l) <= ((1 + u) ^ length l - 1) * lsum mag l.
Proof.
  destruct l as [|i r].
  - simpl. replace (0 - 0) with 0 by ring. rewrite Rabs_R0. lra.
  - cbn [fold_left length lsum fold_right]. fold (lsum exact r). fold (lsum mag r).
    unfold step at 2. rewrite fadd_0_l.
    destruct (fmul_model (x i) (y i)) as [d1 [Hd1 E1]].
    pose proof (fold_bound r (fmul (x i) (y i))) as H. fold step in H.
    set (F := fold_left step r (fmul (x i) (y i))) in *. set (S0 := lsum exact r) in *.
    assert (HT : 0 <= lsum mag r) by (apply lsum_nonneg, mag_nonneg). set (Tr := lsum mag r) in *.
    pose proof (pow1u_ge1 (length r)) as HP. set (P := (1 + u) ^ length r) in *.
    change ((1 + u) ^ S (length r)) with ((1 + u) * P) in *.
    assert (Hmag : Rabs (exact i) = mag i) by (unfold exact, mag; apply Rabs_mult).
    pose proof (mag_nonneg i) as Hb.
    assert (B1 : Rabs (fmul (x i) (y i)) <= mag i * (1 + u)).
    { rewrite E1, Rabs_mult. fold (exact i). rewrite Hmag. apply Rmult_le_compat_l; [assumption|apply abs_1d; assumption]. }
    assert (B2 : Rabs (fmul (x i) (y i) - exact i) <= mag i * u).
    { replace (fmul (x i) (y i) - exact i) with (exact i * d1) by (rewrite E1; unfold exact; ring).
      rewrite Rabs_mult, Hmag. apply Rmult_le_compat_l; assumption. }
    assert (L : Rabs (F - (exact i + S0)) <= Rabs (F - (fmul (x i) (y i) + S0)) + Rabs (fmul (x i) (y i) - exact i)).
    { replace (F - (exact i + S0)) with ((F - (fmul (x i) (y i) + S0)) + (fmul (x i) (y i) - exact i)) by ring. apply Rabs_triang. }
    set (b := mag i) in *. set (c := Rabs (fmul (x i) (y i))) in *.
    assert (H1 : (P - 1) * c <= (P - 1) * (b * (1 + u))) by (apply Rmult_le_compat_l; lra).
    eapply Rle_trans; [exact L|]. eapply Rle_trans; [apply Rplus_le_compat; [exact H|exact B2]|].
    eapply Rle_trans; [apply Rplus_le_compat_r, Rplus_le_compat_r; exact H1|].
    apply Req_le. ring.
Qed.
End Fold.

Hypothesis fadd_0_l : forall z, fadd 0 z = z.

(** ** Vector::Dot / operator*(Vector) *)
Lemma dot_rounding_bound (p q : vec R) : vdim p = vdim q ->
  exists d, vdot FOps p q = Ok d /\
    Rabs (d - lsum (fun i => vent FOps p i * vent FOps q i) (seq 0 (vdim p)))
    <= ((1 + u) ^ vdim p - 1) * lsum (fun i => Rabs (vent FOps p i) * Rabs (vent FOps q i)) (seq 0 (vdim p)).
Proof.
  intros E. unfold vdot. rewrite E, Nat.eqb_refl. simpl negb. cbv iota. eexists. split; [reflexivity|].
  rewrite <- E.
  pose proof (fold0_bound (vent FOps p) (vent FOps q) fadd_0_l (seq 0 (vdim p))) as H.
  rewrite seq_length in H. exact H.
Qed.

(** ** one entry of Matrix::Product(const Matrix&) / operator*(Matrix) *)
Lemma dotk_rounding_bound (A B : mat R) i j :
  Rabs (dotk FOps A B i j - lsum (fun k => ment FOps A i k * ment FOps B k j) (seq 0 (mcols A)))
  <= ((1 + u) ^ mcols A - 1) * lsum (fun k => Rabs (ment FOps A i k) * Rabs (ment FOps B k j)) (seq 0 (mcols A)).
Proof.
  pose proof (fold0_bound (fun k => ment FOps A i k) (fun k => ment FOps B k j) fadd_0_l (seq 0 (mcols A))) as H.
  rewrite seq_length in H. exact H.
Qed.

Lemma ment_mk_mat r c (f : nat -> nat -> R) i j : (i < r)%nat -> (j < c)%nat -> ment FOps (mk_mat r c f) i j = f i j.
Proof. intros Hi Hj. unfold ment, mk_mat, tab2. cbn [mcomps]. rewrite (nth_tab [] r _ i Hi). apply nth_tab. exact Hj. Qed.

Lemma product_entry_rounding_bound (A B : mat R) i j : mcols A = mrows B -> (i < mrows A)%nat -> (j < mcols B)%nat ->
  exists C, m_product FOps A B = Ok C /\ mrows C = mrows A /\ mcols C = mcols B /\
    Rabs (ment FOps C i j - lsum (fun k => ment FOps A i k * ment FOps B k j) (seq 0 (mcols A)))
    <= ((1 + u) ^ mcols A - 1) * lsum (fun k => Rabs (ment FOps A i k) * Rabs (ment FOps B k j)) (seq 0 (mcols A)).
Proof.
  intros E Hi Hj. unfold m_product. rewrite E, Nat.eqb_refl. simpl negb. cbv iota. eexists. split; [reflexivity|].
  split; [reflexivity|]. split; [reflexivity|]. rewrite ment_mk_mat by assumption. rewrite <- E. apply dotk_rounding_bound.
Qed.

(** one component of Matrix::Product(const Vector&) / operator*(Vector) and of operator*(Vector, Matrix) *)
Lemma matvec_entry_rounding_bound (A : mat R) (v : vec R) i : vdim v = mcols A -> (i < mrows A)%nat ->
  exists w, m_product_v FOps A v = Ok w /\ vdim w = mrows A /\
    Rabs (vent FOps w i - lsum (fun j => ment FOps A i j * vent FOps v j) (seq 0 (mcols A)))
    <= ((1 + u) ^ mcols A - 1) * lsum (fun j => Rabs (ment FOps A i j) * Rabs (vent FOps v j)) (seq 0 (mcols A)).
Proof.
  intros E Hi. unfold m_product_v. rewrite E, Nat.eqb_refl. simpl negb. cbv iota. eexists. split; [reflexivity|].
  split; [unfold vec_of, tab; cbn [vdim]; rewrite map_length, seq_length; reflexivity|].
  unfold vent at 1, vec_of. cbn [vcomps]. rewrite (nth_tab _ (mrows A) _ i Hi).
  pose proof (fold0_bound (fun j => ment FOps A i j) (fun j => vent FOps v j) fadd_0_l (seq 0 (mcols A))) as H.
  rewrite seq_length in H. exact H.
Qed.

Lemma vecmat_entry_rounding_bound (v : vec R) (A : mat R) i : vdim v = mrows A -> (i < mcols A)%nat ->
  exists w, v_mul_m FOps v A = Ok w /\ vdim w = mcols A /\
    Rabs (vent FOps w i - lsum (fun j => vent FOps v j * ment FOps A j i) (seq 0 (mrows A)))
    <= ((1 + u) ^ mrows A - 1) * lsum (fun j => Rabs (vent FOps v j) * Rabs (ment FOps A j i)) (seq 0 (mrows A)).
Proof.
  intros E Hi. unfold v_mul_m. rewrite E, Nat.eqb_refl. simpl negb. cbv iota. eexists. split; [reflexivity|].
  split; [unfold vec_of, tab; cbn [vdim]; rewrite map_length, seq_length; reflexivity|].
  unfold vent at 1, vec_of. cbn [vcomps]. rewrite (nth_tab _ (mcols A) _ i Hi).
  pose proof (fold0_bound (fun j => vent FOps v j) (fun j => ment FOps A j i) fadd_0_l (seq 0 (mrows A))) as H.
  rewrite seq_length in H. exact H.
Qed.

(** ** Matrix::Norm(): the accumulator of squares (one accumulator over i, then j) *)
Lemma norm2_rounding_bound (A : mat R) :
  let idx := list_prod (seq 0 (mrows A)) (seq 0 (mcols A)) in
  Rabs (m_norm2 FOps A - lsum (fun p => ment FOps A (fst p) (snd p) * ment FOps A (fst p) (snd p)) idx)
  <= ((1 + u) ^ (mrows A * mcols A) - 1) * lsum (fun p => Rabs (ment FOps A (fst p) (snd p)) * Rabs (ment FOps A (fst p) (snd p))) idx.
Proof.
  intros idx. unfold m_norm2.
  rewrite (nested_fold (fun acc i j => nadd FOps acc (nmul FOps (ment FOps A i j) (ment FOps A i j)))).
  pose proof (fold0_bound (fun p : nat * nat => ment FOps A (fst p) (snd p)) (fun p => ment FOps A (fst p) (snd p)) fadd_0_l idx) as H.
  unfold idx in H at 3. rewrite prod_length, !seq_length in H. exact H.
Qed.

(** ** entries of += / -= (and, by C04_sum_spellings_agree, of Plus / Minus / operator+ / operator-) and of Vector + / - *)
Lemma sum_entry_rounding_bound (A B : mat R) i j : mrows A = mrows B -> mcols A = mcols B -> (i < mrows A)%nat -> (j < mcols A)%nat ->
  (exists C, m_add_assign FOps A B = Ok C /\
     Rabs (ment FOps C i j - (ment FOps A i j + ment FOps B i j)) <= u * Rabs (ment FOps A i j + ment FOps B i j)) /\
  (exists C, m_sub_assign FOps A B = Ok C /\
     Rabs (ment FOps C i j - (ment FOps A i j - ment FOps B i j)) <= u * Rabs (ment FOps A i j - ment FOps B i j)).
Proof.
  intros Er Ec Hi Hj. unfold m_add_assign, m_sub_assign, shape_differs. rewrite Er, Ec, !Nat.eqb_refl. simpl orb. cbv iota.
  split; eexists; (split; [reflexivity|]); rewrite <- Er, <- Ec, ment_mk_mat by assumption; cbn [nadd nsub FOpsOf].
  - destruct (fadd_model (ment FOps A i j) (ment FOps B i j)) as [d [Hd Ed]]. rewrite Ed.
    replace ((ment FOps A i j + ment FOps B i j) * (1 + d) - (ment FOps A i j + ment FOps B i j))
      with (d * (ment FOps A i j + ment FOps B i j)) by ring.
    rewrite Rabs_mult. apply Rmult_le_compat_r; [apply Rabs_pos|assumption].
  - destruct (fsub_model (ment FOps A i j) (ment FOps B i j)) as [d [Hd Ed]]. rewrite Ed.
    replace ((ment FOps A i j - ment FOps B i j) * (1 + d) - (ment FOps A i j - ment FOps B i j))
      with (d * (ment FOps A i j - ment FOps B i j)) by ring.
    rewrite Rabs_mult. apply Rmult_le_compat_r; [apply Rabs_pos|assumption].
Qed.
End Rounding.

(** ** Corollary: an exact arithmetic (u = 0) gives the exact sums *)
Lemma exact_model_add x y : exists d, Rabs d <= 0 /\ x + y = (x + y) * (1 + d).
Proof. exists 0. rewrite Rabs_R0. split; [lra|ring]. Qed.
Lemma exact_model_sub x y : exists d, Rabs d <= 0 /\ x - y = (x - y) * (1 + d).
Proof. exists 0. rewrite Rabs_R0. split; [lra|ring]. Qed.
Lemma exact_model_mul x y : exists d, Rabs d <= 0 /\ x * y = (x * y) * (1 + d).
Proof. exists 0. rewrite Rabs_R0. split; [lra|ring]. Qed.

Lemma dot_exact (p q : vec R) : vdim p = vdim q ->
  vdot (FOpsOf Rplus Rminus Rmult) p q = Ok (lsum (fun i => vent ROps p i * vent ROps q i) (seq 0 (vdim p))).
Proof.
  intros E.
  destruct (dot_rounding_bound Rplus Rminus Rmult 0 (Rle_refl 0) exact_model_add exact_model_mul Rplus_0_l p q E)
    as [d [Hd Hb]].
  rewrite Hd. f_equal. rewrite Rplus_0_r, pow1, Rminus_eq_0, Rmult_0_l in Hb.
  pose proof (Rabs_pos (d - lsum (fun i => vent (FOpsOf Rplus Rminus Rmult) p i * vent (FOpsOf Rplus Rminus Rmult) q i) (seq 0 (vdim p)))) as Hp.
  assert (Hz : Rabs (d - lsum (fun i => vent (FOpsOf Rplus Rminus Rmult) p i * vent (FOpsOf Rplus Rminus Rmult) q i) (seq 0 (vdim p))) = 0) by lra.
  destruct (Req_dec (d - lsum (fun i => vent (FOpsOf Rplus Rminus Rmult) p i * vent (FOpsOf Rplus Rminus Rmult) q i) (seq 0 (vdim p))) 0) as [Z|NZ].
  - unfold vent in *. cbn [n0 FOpsOf ROps] in *. lra.
  - apply Rabs_no_R0 in NZ. contradiction.
Qed.

(** ** Non-vacuity of the hypotheses *)
(** the exact arithmetic satisfies them with u = 0 (lemmas exact_model_* above, Rplus_0_l);
    a rounding arithmetic with u > 0: every non-trivial sum / product is inflated by (1 + u/2), adding to 0 is exact *)
Section Inflating.
Variable u : R.
Hypothesis u_pos : 0 < u.
Definition infl_add (x y : R) : R := if Req_EM_T x 0 then y else (x + y) * (1 + u / 2).
Definition infl_sub (x y : R) : R := (x - y) * (1 + u / 2).
Definition infl_mul (x y : R) : R := (x * y) * (1 + u / 2).
Lemma infl_d : Rabs (u / 2) <= u.
Proof. rewrite Rabs_pos_eq; lra. Qed.
Lemma infl_add_model x y : exists d, Rabs d <= u /\ infl_add x y = (x + y) * (1 + d).
Proof.
  unfold infl_add. destruct (Req_EM_T x 0) as [->|_].
  - exists 0. rewrite Rabs_R0. split; [lra|ring].
  - exists (u / 2). split; [apply infl_d|reflexivity].
Qed.
Lemma infl_sub_model x y : exists d, Rabs d <= u /\ infl_sub x y = (x - y) * (1 + d).
Proof. exists (u / 2). split; [apply infl_d|reflexivity]. Qed.
Lemma infl_mul_model x y : exists d, Rabs d <= u /\ infl_mul x y = (x * y) * (1 + d).
Proof. exists (u / 2). split; [apply infl_d|reflexivity]. Qed.
Lemma infl_add_0_l z : infl_add 0 z = z.
Proof. unfold infl_add. destruct (Req_EM_T 0 0); [reflexivity|contradiction]. Qed.
End Inflating.

Example rounding_hypotheses_satisfiable :
  (* exact arithmetic, u = 0 *)
  ((forall x y, exists d, Rabs d <= 0 /\ x + y = (x + y) * (1 + d)) /\
   (forall x y, exists d, Rabs d <= 0 /\ x - y = (x - y) * (1 + d)) /\
   (forall x y, exists d, Rabs d <= 0 /\ x * y = (x * y) * (1 + d)) /\ (forall z, 0 + z = z)) /\
  (* a rounding arithmetic, u = 1/4 > 0, whose dot product of (1,1).(1,1) is not the exact one and is inside the bound *)
  ((forall x y, exists d, Rabs d <= /4 /\ infl_add (/4) x y = (x + y) * (1 + d)) /\
   (forall x y, exists d, Rabs d <= /4 /\ infl_sub (/4) x y = (x - y) * (1 + d)) /\
   (forall x y, exists d, Rabs d <= /4 /\ infl_mul (/4) x y = (x * y) * (1 + d)) /\ (forall z, infl_add (/4) 0 z = z) /\
   vdot (FOpsOf (infl_add (/4)) (infl_sub (/4)) (infl_mul (/4))) (mkVec 2 [1; 1]) (mkVec 2 [1; 1]) <> Ok 2).
Proof.
  split.
  - exact (conj exact_model_add (conj exact_model_sub (conj exact_model_mul Rplus_0_l))).
  - assert (P : 0 < /4) by lra.
    refine (conj (infl_add_model _ P) (conj (infl_sub_model _ P) (conj (infl_mul_model _ P) (conj (infl_add_0_l _) _)))).
    unfold vdot. simpl. unfold vent. simpl. rewrite infl_add_0_l. unfold infl_add, infl_mul.
    destruct (Req_EM_T (1 * 1 * (1 + / 4 / 2)) 0) as [Z|_]; [lra|].
    intros H. injection H. lra.
Qed.
