(** * C05 proofs: Determinant() / Invertible() in a call history after a row exchange  std::swap(M[i], M[j])  and after
    an entry write  M[i][j] = v  (exact arithmetic, any field; the history before is arbitrary). *)
From mathcomp Require Import all_ssreflect all_fingroup all_algebra.
From Coq Require List ZArith.
From LP Require Import Num C04_Model C05_Model C04_Proofs_Struct C04_Proofs_Laws C05_Proofs C05_Proofs_Seq.
Set Implicit Arguments. Unset Strict Implicit. Unset Printing Implicit Defensive.
Arguments tab : simpl never.
Arguments tab2 : simpl never.
Import GRing.Theory.
Local Open Scope ring_scope.

Section Field.
Variable F : fieldType.
Variables (absF sqrtF : F -> F) (ltF leF : F -> F -> bool).
Local Notation FOps := (FOps absF sqrtF ltF leF).
Local Notation ment := (ment FOps).
Local Notation mx := (@mx_of F (fun x y => x / y) absF sqrtF ltF leF).

(** changing one entry changes the determinant by (new - old) * cofactor *)
Lemma det_entry_update n (A A' : 'M[F]_n) (i j : 'I_n) :
  (forall a b, (a != i) || (b != j) -> A' a b = A a b) ->
  \det A' = \det A + (A' i j - A i j) * cofactor A i j.
Proof.
  move=> H; rewrite (expand_det_row A' i) (expand_det_row A i).
  have C k : cofactor A' i k = cofactor A i k.
    rewrite /cofactor; congr (_ * \det _); apply/matrixP => a b; rewrite !mxE H //.
    by rewrite eq_sym neq_lift.
  rewrite (bigD1 j) //= [in RHS](bigD1 j) //= C.
  have -> : \sum_(k < n | k != j) A' i k * cofactor A' i k = \sum_(k < n | k != j) A i k * cofactor A i k.
    by apply: eq_bigr => k Hk; rewrite C H // Hk orbT.
  by rewrite mulrBl [RHS]addrC addrA subrK.
Qed.

Theorem seq_det_after_swap n (h : list (@sop F)) (M0 A : mat F) (outs : list (@sout F)) (i j : 'I_n.+1) :
  srun FOps h M0 = Ok (A, outs) -> wf_mat A -> mrows A = n.+1 -> mcols A = n.+1 -> i != j ->
  exists A', [/\ wf_mat A', mx n.+1 n.+1 A' = row_perm (tperm i j) (mx n.+1 n.+1 A) &
     srun FOps (h ++ [:: @USwap F i j; @QDet F; @QInvertible F]) M0 =
     Ok (A', (outs ++ [:: @ONone F; ODet (- \det (mx n.+1 n.+1 A)); @OFlag F (\det (mx n.+1 n.+1 A) != 0)])%list)].
Proof.
  move=> Hh HA Ar Ac Hij.
  pose A' := mk_mat n.+1 n.+1 (fun a b => ment A (if (a == i :> nat) then j : nat else if (a == j :> nat) then i : nat else a) b).
  have E : mx n.+1 n.+1 A' = row_perm (tperm i j) (mx n.+1 n.+1 A).
    apply/matrixP => a b; rewrite !mxE ment_mk //; congr (ment A _ _).
    by rewrite permE /= -!val_eqE /=; case: eqP => //; case: eqP.
  have D : \det (row_perm (tperm i j) (mx n.+1 n.+1 A)) = - \det (mx n.+1 n.+1 A).
    by rewrite row_permE det_mulmx det_perm odd_tperm Hij expr1 mulN1r.
  exists A'; split=> //; first by rewrite wf_mk.
  have := @det_after_step F absF sqrtF ltF leF n h (@USwap F i j) M0 A' outs _ _ (wf_mk _ _ _) erefl erefl E.
  rewrite D oppr_eq0; apply.
  rewrite srun_snoc Hh /= /sstep /= Ar !lebE (leqNgt n.+1 i) (leqNgt n.+1 j) !ltn_ord /= Ac; congr (Ok (_, _)); apply: mk_mat_ext => a b Ha Hb; rewrite !eqbE.
Qed.

Theorem seq_det_after_set n (h : list (@sop F)) (M0 A : mat F) (outs : list (@sout F)) (i j : 'I_n.+1) (v : F) :
  srun FOps h M0 = Ok (A, outs) -> wf_mat A -> mrows A = n.+1 -> mcols A = n.+1 ->
  let d' := \det (mx n.+1 n.+1 A) + (v - ment A i j) * cofactor (mx n.+1 n.+1 A) i j in
  exists A', [/\ wf_mat A', (forall a b : 'I_n.+1, ment A' a b = if (a == i) && (b == j) then v else ment A a b) &
     srun FOps (h ++ [:: @USet F i j v; @QDet F; @QInvertible F]) M0 =
     Ok (A', (outs ++ [:: @ONone F; ODet d'; @OFlag F (d' != 0)])%list)].
Proof.
  move=> Hh HA Ar Ac d'.
  pose A' := mk_mat n.+1 n.+1 (fun a b => if (a == i :> nat) && (b == j :> nat) then v else ment A a b).
  have HE (a b : 'I_n.+1) : ment A' a b = if (a == i) && (b == j) then v else ment A a b by rewrite ment_mk.
  have D : \det (mx n.+1 n.+1 A') = d'.
    rewrite (@det_entry_update _ (mx n.+1 n.+1 A) _ i j) /d' ?mxE ?HE ?eqxx //.
    by move=> a b; rewrite -negb_and !mxE HE => /negbTE ->.
  exists A'; split=> //; first by rewrite wf_mk.
  have := @det_after_step F absF sqrtF ltF leF n h (@USet F i j v) M0 A' outs _ _ (wf_mk _ _ _) erefl erefl erefl.
  rewrite D; apply.
  rewrite srun_snoc Hh /= /sstep /= Ar Ac !lebE (leqNgt n.+1 i) (leqNgt n.+1 j) !ltn_ord /=; congr (Ok (_, _)); apply: mk_mat_ext => a b Ha Hb; rewrite !eqbE.
Qed.
End Field.
