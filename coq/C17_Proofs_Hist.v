(** C17 — histories and containers: (1) Dawson_Integral's static table as explicit state: every call, after ANY history and from ANY
    table, returns what the pure model returns (any number type); (2) the Vector / Matrix overloads of Round: exact characterisation
    as element-wise Round and the lifted clauses (odd, idempotent, monotone, half unit, when they exit); (3) Relative_Difference. *)
From Coq Require Import Reals ZArith Lra Lia Bool List Psatz.
From Coquelicot Require Import Rcomplements.
From LP Require Import Num NumR OrdLaws Gen_C17_Formulas C17_Model C17_Proofs C17_Proofs_Round.
Import ListNotations.
Local Open Scope R_scope.

(** ** 1. the static table of Dawson_Integral *)
Section Table.
Context {T : Type} (Ops : NumOps T).

Definition daw_table : list T := map (daw_c Ops) [0; 1; 2; 3; 4; 5]%Z.

Lemma daw_fill_all (c : list T) : length c = 6%nat -> daw_fill Ops 6 0 c = daw_table.
Proof.
  destruct c as [|a0 [|a1 [|a2 [|a3 [|a4 [|a5 [|a6 c]]]]]]]; intros H; try discriminate H.
  reflexivity.
Qed.

Lemma daw_loop_table d1 d2 e1 e2 s : daw_loop_st Ops daw_table 6 0 d1 d2 e1 e2 s = daw_loop Ops 6 0 d1 d2 e1 e2 s.
Proof. reflexivity. Qed.

Lemma upd_length (l : list T) i v : length (upd l i v) = length l.
Proof. revert i; induction l as [|h t IH]; intros [|i]; cbn; auto. Qed.

Lemma daw_fill_length n i (c : list T) : length (daw_fill Ops n i c) = length c.
Proof. revert i c; induction n as [|n IH]; intros i c; cbn; [reflexivity|]. rewrite IH. apply upd_length. Qed.

(** one call: whatever the table holds (left by earlier calls or never written), the value is the pure model's,
    and the table keeps its size; after a large-argument call it is the table of exponentials *)
Lemma dawson_st_value (c : list T) x : length c = 6%nat -> snd (dawson_st Ops c x) = dawson Ops x.
Proof.
  intros H. unfold dawson_st, dawson. destruct (nltb Ops (nabs Ops x) (ndec Ops 1 5)); [reflexivity|].
  cbn [snd]. rewrite (daw_fill_all c H), daw_loop_table. reflexivity.
Qed.

Lemma dawson_st_length (c : list T) x : length (fst (dawson_st Ops c x)) = length c.
Proof.
  unfold dawson_st. destruct (nltb Ops (nabs Ops x) (ndec Ops 1 5)); cbn [fst]; [reflexivity|apply daw_fill_length].
Qed.

Lemma dawson_st_table (c : list T) x : length c = 6%nat ->
  fst (dawson_st Ops c x) = if nltb Ops (nabs Ops x) (ndec Ops 1 5) then c else daw_table.
Proof.
  intros H. unfold dawson_st. destruct (nltb Ops (nabs Ops x) (ndec Ops 1 5)); cbn [fst]; [reflexivity|apply daw_fill_all, H].
Qed.

(** any history: the answers are the pure model's, call by call *)
Lemma dawson_run_gen (xs : list T) : forall (c acc : list T), length c = 6%nat ->
  let r := fold_left (fun st x => let cy := dawson_st Ops (fst st) x in (fst cy, snd st ++ [snd cy])) xs (c, acc) in
  snd r = acc ++ map (dawson Ops) xs /\ length (fst r) = 6%nat.
Proof.
  induction xs as [|x xs IH]; intros c acc H; cbn.
  - rewrite app_nil_r. auto.
  - specialize (IH (fst (dawson_st Ops c x)) (acc ++ [snd (dawson_st Ops c x)])).
    rewrite dawson_st_length in IH. specialize (IH H). cbn in IH. destruct IH as [A B].
    split; [|exact B]. rewrite A, dawson_st_value by exact H. rewrite <- app_assoc. reflexivity.
Qed.

Theorem dawson_history_independent (c xs : list T) : length c = 6%nat ->
  snd (dawson_run Ops c xs) = map (dawson Ops) xs /\ length (fst (dawson_run Ops c xs)) = 6%nat.
Proof. intros H. unfold dawson_run. destruct (dawson_run_gen xs c [] H) as [A B]. split; [exact A|exact B]. Qed.

(** in particular the answer to a request does not depend on what was asked before it *)
Corollary dawson_after_any_history (c xs ys : list T) x : length c = 6%nat ->
  snd (dawson_st Ops (fst (dawson_run Ops c xs)) x) = snd (dawson_st Ops (fst (dawson_run Ops c ys)) x).
Proof.
  intros H. rewrite !dawson_st_value; [reflexivity| |]; apply dawson_history_independent, H.
Qed.

(** mixed histories of Dawson_Integral and Erfi requests (Erfi goes through Dawson_Integral and therefore through the table) *)
Lemma erfi_st_value (pi : T) (c : list T) x : length c = 6%nat -> snd (erfi_st Ops pi c x) = erfi Ops pi x.
Proof. intros H. unfold erfi_st, erfi. cbn [snd]. rewrite dawson_st_value by exact H. reflexivity. Qed.

Lemma special_st_value (pi : T) (c : list T) q : length c = 6%nat ->
  snd (special_st Ops pi c q) = (if fst q then erfi Ops pi (snd q) else dawson Ops (snd q)) /\ length (fst (special_st Ops pi c q)) = 6%nat.
Proof.
  intros H. unfold special_st. destruct (fst q).
  - split; [apply erfi_st_value, H|]. unfold erfi_st. cbn [fst]. rewrite dawson_st_length. exact H.
  - split; [apply dawson_st_value, H|]. rewrite dawson_st_length. exact H.
Qed.

Lemma special_run_gen (pi : T) (qs : list (bool * T)%type) : forall (c acc : list T), length c = 6%nat ->
  let r := fold_left (fun st q => let cy := special_st Ops pi (fst st) q in (fst cy, snd st ++ [snd cy])) qs (c, acc) in
  snd r = acc ++ map (fun q : (bool * T)%type => if fst q then erfi Ops pi (snd q) else dawson Ops (snd q)) qs /\ length (fst r) = 6%nat.
Proof.
  induction qs as [|q qs IH]; intros c acc H; cbn.
  - rewrite app_nil_r. auto.
  - destruct (special_st_value pi c q H) as [V Ln].
    specialize (IH (fst (special_st Ops pi c q)) (acc ++ [snd (special_st Ops pi c q)]) Ln). cbn in IH. destruct IH as [A B].
    split; [|exact B]. rewrite A, V. rewrite <- app_assoc. reflexivity.
Qed.

Theorem special_history_independent (pi : T) (c : list T) (qs : list (bool * T)%type) : length c = 6%nat ->
  snd (special_run Ops pi c qs) = map (fun q : (bool * T)%type => if fst q then erfi Ops pi (snd q) else dawson Ops (snd q)) qs /\ length (fst (special_run Ops pi c qs)) = 6%nat.
Proof. intros H. unfold special_run. destruct (special_run_gen pi qs c [] H) as [A B]. split; [exact A|exact B]. Qed.

(** ** 2. Round on containers: exact characterisation (any number type) *)
Lemma round_list_iff (l l' : list T) d :
  round_list Ops l d = Ok l' <-> Forall2 (fun x r => round Ops x d = Ok r) l l'.
Proof.
  revert l'. induction l as [|x t IH]; intros l'; cbn.
  - split; intros H; [injection H as <-; constructor|inversion H; reflexivity].
  - split.
    + intros H. destruct (round Ops x d) as [r| | |] eqn:E; cbn in H; try discriminate.
      destruct (round_list Ops t d) as [rt| | |] eqn:E2; cbn in H; try discriminate.
      injection H as <-. constructor; [exact E|apply IH; reflexivity].
    + intros H. inversion H as [|x0 r l0 rt Hr Ht]; subst. rewrite Hr. cbn. apply IH in Ht. rewrite Ht. reflexivity.
Qed.

Lemma round_table_iff (m m' : list (list T)) d :
  round_table Ops m d = Ok m' <-> Forall2 (fun row row' => Forall2 (fun x r => round Ops x d = Ok r) row row') m m'.
Proof.
  revert m'. induction m as [|x t IH]; intros m'; cbn.
  - split; intros H; [injection H as <-; constructor|inversion H; reflexivity].
  - split.
    + intros H. destruct (round_list Ops x d) as [r| | |] eqn:E; cbn in H; try discriminate.
      destruct (round_table Ops t d) as [rt| | |] eqn:E2; cbn in H; try discriminate.
      injection H as <-. constructor; [apply round_list_iff; exact E|apply IH; reflexivity].
    + intros H. inversion H as [|x0 r l0 rt Hr Ht]; subst. apply round_list_iff in Hr. rewrite Hr. cbn. apply IH in Ht. rewrite Ht. reflexivity.
Qed.

(** when the overloads terminate the process: never for digits <= 7; for digits > 7 exactly when there is an element to round
    (an empty Vector / a Matrix without entries is returned unchanged: Round(double) is never called) *)
Lemma round_ok_of_le7 x d : (d <= 7)%Z -> exists r, round Ops x d = Ok r.
Proof.
  intros H. unfold round. rewrite (gtb7_false d H).
  destruct (neqb Ops x (nofZ Ops 0)); eexists; reflexivity.
Qed.

Lemma round_exit_gen x d : (7 < d)%Z -> round Ops x d = Exit.
Proof. intros H. unfold round. rewrite (gtb7_true d H). reflexivity. Qed.

Lemma round_list_total (l : list T) d : (d <= 7)%Z -> exists l', round_list Ops l d = Ok l'.
Proof.
  intros H. induction l as [|x t [rt IH]]; cbn; [eexists; reflexivity|].
  destruct (round_ok_of_le7 x d H) as [r ->]. rewrite IH. cbn. eexists; reflexivity.
Qed.

Lemma round_table_total (m : list (list T)) d : (d <= 7)%Z -> exists m', round_table Ops m d = Ok m'.
Proof.
  intros H. induction m as [|x t [rt IH]]; cbn; [eexists; reflexivity|].
  destruct (round_list_total x d H) as [r ->]. rewrite IH. cbn. eexists; reflexivity.
Qed.

Lemma round_list_exit (l : list T) d : (7 < d)%Z -> round_list Ops l d = if match l with [] => true | _ => false end then Ok [] else Exit.
Proof. intros H. destruct l as [|x t]; cbn; [reflexivity|]. rewrite round_exit_gen by exact H. reflexivity. Qed.

Lemma round_table_exit (m : list (list T)) d : (7 < d)%Z ->
  round_table Ops m d = if forallb (fun row => match row with [] => true | _ => false end) m then Ok (map (fun _ => []) m) else Exit.
Proof.
  intros H. induction m as [|x t IH]; cbn; [reflexivity|].
  rewrite round_list_exit by exact H. destruct x as [|a x]; cbn; [|reflexivity].
  rewrite IH. destruct (forallb _ t); reflexivity.
Qed.
(** ** 3. histories of Round requests in one process (scalar, Vector and Matrix requests are tables): every answer is the answer its own request
    gets from the pure function, whatever was requested before or after it (NaN, infinite, zero entries and other digits included: the statements are
    over any number type), and a history never exits when every request has digits <= 7 *)
Lemma round_run_iff (qs : list (Z * list (list T))) outs :
  round_run Ops qs = Ok outs <-> Forall2 (fun q a => round_table Ops (snd q) (fst q) = Ok a) qs outs.
Proof.
  revert outs. induction qs as [|q t IH]; intros outs; cbn.
  - split; intros H; [injection H as <-; constructor|inversion H; reflexivity].
  - split.
    + intros H. destruct (round_table Ops (snd q) (fst q)) as [a| | |] eqn:E; cbn in H; try discriminate.
      destruct (round_run Ops t) as [b| | |] eqn:E2; cbn in H; try discriminate.
      injection H as <-. constructor; [exact E|apply IH; reflexivity].
    + intros H. inversion H as [|q0 a l0 b Hq Ht]; subst. rewrite Hq. cbn. apply IH in Ht. rewrite Ht. reflexivity.
Qed.

Lemma round_run_total (qs : list (Z * list (list T))) : Forall (fun q => (fst q <= 7)%Z) qs -> exists outs, round_run Ops qs = Ok outs.
Proof.
  induction 1 as [|q t Hq _ [b IH]]; cbn; [eexists; reflexivity|].
  destruct (round_table_total (snd q) (fst q) Hq) as [a ->]. rewrite IH. cbn. eexists; reflexivity.
Qed.

Lemma Forall2_len {A B} (P : A -> B -> Prop) l l' : Forall2 P l l' -> length l = length l'.
Proof. induction 1; cbn; congruence. Qed.

Theorem round_history_independent (pre post : list (Z * list (list T))) q outs :
  round_run Ops (pre ++ q :: post) = Ok outs ->
  length outs = length (pre ++ q :: post) /\ round_table Ops (snd q) (fst q) = Ok (nth (length pre) outs []).
Proof.
  intros H. apply round_run_iff in H. split; [symmetry; exact (Forall2_len _ _ _ H)|].
  apply Forall2_app_inv_l in H. destruct H as (o1 & o2 & H1 & H2 & ->).
  inversion H2 as [|q0 a l0 b Hq Ht]; subst.
  rewrite (Forall2_len _ _ _ H1). rewrite app_nth2 by apply Nat.le_refl. rewrite Nat.sub_diag. exact Hq.
Qed.
End Table.

(** ** the clauses of Round lifted to the containers (over R) *)
Lemma Forall2_map_l {A B C} (P : B -> C -> Prop) (f : A -> B) l l' : Forall2 P (map f l) l' <-> Forall2 (fun a c => P (f a) c) l l'.
Proof.
  revert l'; induction l as [|a l IH]; intros l'; cbn; split; intros H; inversion H; subst; constructor; auto; apply IH; auto.
Qed.

Lemma Forall2_map_r {A B C} (P : A -> C -> Prop) (f : B -> C) l l' : Forall2 P l (map f l') <-> Forall2 (fun a b => P a (f b)) l l'.
Proof.
  revert l'; induction l as [|a l IH]; intros [|b l']; cbn; split; intros H; inversion H; subst; constructor; auto; apply IH; auto.
Qed.

Lemma round_opp_ok x d r : round ROps x d = Ok r -> round ROps (- x) d = Ok (- r).
Proof. intros H. rewrite round_odd, H. reflexivity. Qed.

(** odd: Round(-v) = -Round(v), entry by entry *)
Theorem round_list_odd (l l' : list R) d : round_list ROps l d = Ok l' -> round_list ROps (map Ropp l) d = Ok (map Ropp l').
Proof.
  rewrite !round_list_iff. intros H. apply Forall2_map_l, Forall2_map_r.
  induction H; constructor; auto using round_opp_ok.
Qed.

Theorem round_table_odd (m m' : list (list R)) d :
  round_table ROps m d = Ok m' -> round_table ROps (map (map Ropp) m) d = Ok (map (map Ropp) m').
Proof.
  rewrite !round_table_iff. intros H. apply Forall2_map_l, Forall2_map_r.
  induction H as [|row row' t t' Hr Ht IH]; constructor; auto.
  apply round_list_iff, round_list_odd, round_list_iff, Hr.
Qed.

(** idempotent *)
Theorem round_list_idempotent (l l' : list R) d : (1 <= d <= 7)%Z -> round_list ROps l d = Ok l' -> round_list ROps l' d = Ok l'.
Proof.
  intros Hd. rewrite !round_list_iff. intros H. induction H; constructor; eauto using round_idempotent.
Qed.

Theorem round_table_idempotent (m m' : list (list R)) d : (1 <= d <= 7)%Z -> round_table ROps m d = Ok m' -> round_table ROps m' d = Ok m'.
Proof.
  intros Hd. rewrite !round_table_iff. intros H. induction H as [|row row' t t' Hr Ht IH]; constructor; auto.
  apply round_list_iff. apply round_list_iff in Hr. eauto using round_list_idempotent.
Qed.

(** monotone, entry by entry *)
Theorem round_list_monotone (l1 l2 r1 r2 : list R) d : (1 <= d <= 7)%Z -> Forall2 Rle l1 l2 ->
  round_list ROps l1 d = Ok r1 -> round_list ROps l2 d = Ok r2 -> Forall2 Rle r1 r2.
Proof.
  intros Hd H. rewrite !round_list_iff. revert r1 r2. induction H as [|x y t1 t2 Hxy Ht IH]; intros r1 r2 H1 H2.
  - inversion H1; inversion H2; constructor.
  - inversion H1; inversion H2; subst. constructor; eauto using round_monotone.
Qed.

(** within half a unit of the d-th significant digit, entry by entry (zeros stay zeros) *)
Definition within_half_unit (d : Z) (x r : R) : Prop :=
  (x = 0 /\ r = 0) \/ (x <> 0 /\ Rabs (r - x) <= powerRZ 10 (decade_of x - d + 1) / 2).

Lemma round_within_half_unit x d r : (1 <= d <= 7)%Z -> round ROps x d = Ok r -> within_half_unit d x r.
Proof.
  intros Hd H. destruct (Req_dec x 0) as [->|Hx].
  - left. split; [reflexivity|]. rewrite round_zero in H by lia. congruence.
  - right. split; [exact Hx|]. destruct (round_spec x d Hx Hd) as [_ [r' [E [_ B]]]]. rewrite E in H. injection H as <-. exact B.
Qed.

Theorem round_list_half_unit (l l' : list R) d : (1 <= d <= 7)%Z -> round_list ROps l d = Ok l' -> Forall2 (within_half_unit d) l l'.
Proof. intros Hd. rewrite round_list_iff. intros H. induction H; constructor; eauto using round_within_half_unit. Qed.

Theorem round_table_half_unit (m m' : list (list R)) d : (1 <= d <= 7)%Z -> round_table ROps m d = Ok m' ->
  Forall2 (Forall2 (within_half_unit d)) m m'.
Proof.
  intros Hd. rewrite round_table_iff. intros H. induction H as [|row row' t t' Hr Ht IH]; constructor; auto.
  apply round_list_iff in Hr. eauto using round_list_half_unit.
Qed.

(** ** 3. Relative_Difference over R: in [0, 2], zero exactly for equal arguments *)
Lemma reldiff_le_2 a b : g_Relative_Difference ROps a b <= 2.
Proof.
  rewrite reldiff_R. destruct (Req_EM_T _ 0) as [|N]; [lra|].
  assert (P: 0 < Rmax (Rabs a) (Rabs b)).
  { pose proof (Rabs_pos a). pose proof (Rmax_l (Rabs a) (Rabs b)). lra. }
  apply Rle_div_l; [exact P|].
  pose proof (Rmax_l (Rabs a) (Rabs b)). pose proof (Rmax_r (Rabs a) (Rabs b)).
  pose proof (Rabs_triang a (- b)). rewrite Rabs_Ropp in *. unfold Rminus. lra.
Qed.

Lemma reldiff_zero_iff a b : g_Relative_Difference ROps a b = 0 <-> a = b.
Proof.
  split.
  - rewrite reldiff_R. destruct (Req_EM_T _ 0) as [E|N]; intros H.
    + pose proof (Rmax_l (Rabs a) (Rabs b)). pose proof (Rmax_r (Rabs a) (Rabs b)).
      pose proof (Rabs_pos a). pose proof (Rabs_pos b).
      assert (Rabs a = 0) by lra. assert (Rabs b = 0) by lra.
      destruct (Req_dec a 0) as [->|Ha]; [|apply Rabs_no_R0 in Ha; lra].
      destruct (Req_dec b 0) as [->|Hb]; [reflexivity|apply Rabs_no_R0 in Hb; lra].
    + assert (Rabs (a - b) = 0).
      { unfold Rdiv in H. apply Rmult_integral in H. destruct H as [H|H]; [exact H|]. exfalso. revert H. apply Rinv_neq_0_compat, N. }
      destruct (Req_dec (a - b) 0) as [E|E]; [lra|apply Rabs_no_R0 in E; lra].
  - intros ->. apply reldiff_refl.
Qed.
