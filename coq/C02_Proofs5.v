(** * C02 proofs, fifth part.
    (1) The shape of every evaluation trace on EVERY instance of the number interface (no law of arithmetic or of
        order is used, so IEEE doubles, rounding, infinities and NaNs included), by induction over the iteration
        budget: Find_Root terminates after 2 evaluations (ends only), or 2 + 2k (k passes, 1 <= k <= Max_Iterations),
        or 2 + 2 Max_Iterations + 1 (iteration limit); outcomes OOB / Fuel never occur; a number returned from the
        loop is the abscissa of the LAST evaluation of the objective function.
    (2) Histories, unconditional converse of [seq_history_independent]: every entry of the served history is the
        answer to the request at the same position served on its own, and all earlier requests returned numbers.
    (3) Strictly monotone objective functions (power laws x^p - c, CDFs, atan, ...: no continuity needed): EVERY
        zero of f is within the accuracy of the returned number.
    (4) On every ORDERED instance, with the one premise that the midpoint 0.5 x1 + 0.5 x2 lies between x1 and x2:
        every evaluation of every pass lies inside the original bracket (induction over the budget). *)
From Coq Require Import Reals ZArith Lra Lia List Bool.
From LP Require Import Num NumR OrdLaws C02_Model C02_Proofs C02_Proofs2 C02_Proofs3 C02_Proofs4.
Import ListNotations.

Section Shape.
Context {T : Type} (Ops : NumOps T).

(** what a run of the loop with budget n looks like *)
Definition loop_shape (n : nat) (s : @st T) (r : res (T * how) * list T) : Prop :=
  (exists k, (1 <= k <= n)%nat /\ length (snd r) = (2 * k)%nat /\
     (fst r = Exit \/ exists x h tr0, fst r = Ok (x, h) /\ (h = HF4Zero \/ h = HBracket) /\ snd r = tr0 ++ [x]))
  \/ (length (snd r) = (2 * n + 1)%nat /\ exists x tr0, fst r = Ok (x, HMaxIter) /\ snd r = tr0 ++ [x] /\
        (n = 0%nat -> x = sres s)).

Lemma loop_shape_all (f : T -> T) (acc : T) : forall n s, loop_shape n s (loop Ops f acc n s).
Proof.
  induction n as [|n IH]; intros s.
  - right. cbn. split; [reflexivity|]. exists (sres s), []. repeat split; reflexivity.
  - cbn [loop].
    pose proof (step_shape Ops f acc s) as [Tr Sh]. cbv zeta in Tr, Sh.
    destruct (step Ops f acc s) as [[o|s'] tr]; cbn [fst snd] in *; subst tr.
    + left. exists 1%nat. split; [lia|]. split; [reflexivity|].
      destruct o as [[x h]| | |]; try contradiction.
      * destruct Sh as [-> Hh]. right. eexists _, h, [_]. cbn. repeat split; auto.
      * left; reflexivity.
    + specialize (IH s'). unfold loop_shape in IH |- *.
      destruct (loop Ops f acc n s') as [o2 tr2]. cbn [fst snd] in *.
      destruct IH as [(k & Hk & L & O)|(L & x & tr0 & O & E & _)].
      * left. exists (S k). split; [lia|]. split; [cbn [fst snd length app]; lia|].
        destruct O as [O|(x & h & tr0 & O & Hh & E)]; [left; exact O|].
        right. cbn [fst snd app]. match goal with |- context [?u :: ?v :: tr2] => exists x, h, (u :: v :: tr0) end.
        repeat split; auto. rewrite E. reflexivity.
      * right. split; [cbn [fst snd length app]; lia|].
        cbn [fst snd app]. match goal with |- context [?u :: ?v :: tr2] => exists x, (u :: v :: tr0) end.
        repeat split; auto; [rewrite E; reflexivity|discriminate].
Qed.

(** the last pass of an iteration-limit run: its Ridder point is [result], evaluated once more after the loop *)
Lemma maxiter_last_twice (f : T -> T) (acc : T) : forall n s x tr0, (1 <= n)%nat ->
  fst (loop Ops f acc n s) = Ok (x, HMaxIter) -> snd (loop Ops f acc n s) = tr0 ++ [x] -> exists tr1, tr0 = tr1 ++ [x].
Proof.
  induction n as [|n IHn]; intros s x tr0 Hn O E; [lia|].
  cbn [loop] in O, E.
  pose proof (step_shape Ops f acc s) as [Tr S2]. cbv zeta in Tr, S2.
  destruct (step Ops f acc s) as [[o|s'] tr]; cbn [fst snd] in *.
  - subst o. destruct S2 as [_ [C|C]]; discriminate.
  - destruct n as [|n].
    + cbn [loop fst snd] in O, E. inversion O; subst x.
      apply app_inj_tail in E. destruct E as [E _]. subst tr0 tr. rewrite S2.
      eexists [_]. reflexivity.
    + pose proof (loop_shape_all f acc (S n) s') as Sh. unfold loop_shape in Sh.
      specialize (IHn s' x).
      destruct (loop Ops f acc (S n) s') as [o2 tr2]. cbn [fst snd] in *.
      destruct Sh as [(k & _ & _ & [C|(x' & h & t & C & [Hh|Hh] & _)])|(_ & x' & t & C & Et & _)];
        try (rewrite C in O; subst; discriminate).
      rewrite C in O. inversion O; subst x'. subst tr2.
      rewrite app_assoc in E. apply app_inj_tail in E. destruct E as [E _]. subst tr0.
      destruct (IHn t ltac:(lia) C eq_refl) as [tr1 ->].
      exists (tr ++ tr1). rewrite app_assoc. reflexivity.
Qed.

(** Find_Root as a whole *)
Theorem trace_shape (f : T -> T) (a b acc : T) :
  let r := find_root_h Ops f a b acc in
  let xl := if ngtb Ops a b then b else a in
  let xr := if ngtb Ops a b then a else b in
  exists tr, snd r = xl :: xr :: tr /\
  ( (tr = [] /\ (fst r = Exit \/ fst r = Ok (xl, HEndZero) \/ fst r = Ok (xr, HEndZero)))
    \/ (exists k, (1 <= k <= max_iterations)%nat /\ length tr = (2 * k)%nat /\
          (fst r = Exit \/ exists x h tr0, fst r = Ok (x, h) /\ (h = HF4Zero \/ h = HBracket) /\ tr = tr0 ++ [x]))
    \/ (length tr = (2 * max_iterations + 1)%nat /\ exists x tr0, fst r = Ok (x, HMaxIter) /\ tr = tr0 ++ [x; x]) ).
Proof.
  cbv zeta. unfold find_root_h.
  set (xl := if ngtb Ops a b then b else a). set (xr := if ngtb Ops a b then a else b).
  destruct (nisnan Ops (f xl) || nisnan Ops (f xr)).
  { exists []. split; [reflexivity|]. left. split; [reflexivity|]. left; reflexivity. }
  destruct (sign1 Ops (f xl) * sign1 Ops (f xr) >=? 0)%Z.
  { destruct (neqb Ops (f xl) (nofZ Ops 0)).
    { exists []. split; [reflexivity|]. left. split; [reflexivity|]. right; left; reflexivity. }
    destruct (neqb Ops (f xr) (nofZ Ops 0)).
    { exists []. split; [reflexivity|]. left. split; [reflexivity|]. right; right; reflexivity. }
    exists []. split; [reflexivity|]. left. split; [reflexivity|]. left; reflexivity. }
  set (s0 := mkst xl xr (f xl) (f xr) _).
  pose proof (loop_shape_all f acc max_iterations s0) as Sh. unfold loop_shape in Sh.
  pose proof (maxiter_last_twice f acc) as Last.
  pose proof (Last max_iterations s0) as Last0.
  destruct (loop Ops f acc max_iterations s0) as [o tr]. cbn [fst snd] in *.
  exists tr. split; [reflexivity|]. right.
  destruct Sh as [(k & Hk & L & O)|(L & x & tr0 & O & E & _)].
  - left. exists k. auto.
  - right. split; [exact L|].
    destruct (Last0 x tr0 ltac:(rewrite max_iterations_S; lia) O E) as [tr1 ->].
    exists x, tr1. split; [exact O|]. rewrite E, <- app_assoc. reflexivity.
Qed.

(** corollary: termination with a budget of evaluations, on every instance; never OOB / Fuel *)
Theorem evaluation_budget (f : T -> T) (a b acc : T) :
  (2 <= length (snd (find_root_h Ops f a b acc)) <= 2 * max_iterations + 3)%nat /\
  (fst (find_root_h Ops f a b acc) = Exit \/ exists x h, fst (find_root_h Ops f a b acc) = Ok (x, h)) /\
  (forall x h, fst (find_root_h Ops f a b acc) = Ok (x, h) -> In x (snd (find_root_h Ops f a b acc))).
Proof.
  pose proof (trace_shape f a b acc) as H. cbv zeta in H.
  destruct H as (tr & E & H). rewrite E.
  destruct H as [[-> O]|[(k & Hk & L & O)|(L & x & tr0 & O & Et)]].
  - split; [cbn; lia|]. split.
    + destruct O as [O|[O|O]]; [left; exact O|right; eauto|right; eauto].
    + intros x h Ox. destruct O as [O|[O|O]]; rewrite O in Ox; inversion Ox; subst; cbn; auto.
  - split; [cbn [length]; lia|]. split.
    + destruct O as [O|(x & h & tr0 & O & _)]; [left; exact O|right; eauto].
    + intros x h Ox. destruct O as [O|(x' & h' & tr0 & O & _ & Et)]; rewrite O in Ox; inversion Ox; subst.
      right; right. apply in_or_app. right. left. reflexivity.
  - split; [cbn [length]; lia|]. split; [right; eauto|].
    intros x' h Ox. rewrite O in Ox. inversion Ox; subst.
    right; right. apply in_or_app. right. left. reflexivity.
Qed.

(** ** Histories: every entry of the answer list is the answer to the request at the same position, served on its own *)
Theorem seq_entries_are_serves : forall (reqs : list ((T -> T) * T * T * T)) (k : nat) o,
  nth_error (find_root_seq Ops reqs) k = Some o ->
  exists q, nth_error reqs k = Some q /\ o = serve Ops q /\
            forall j p, (j < k)%nat -> nth_error reqs j = Some p -> exists v, fst (serve Ops p) = Ok v.
Proof.
  induction reqs as [|p rest IH]; intros k o Hk.
  - destruct k; discriminate.
  - destruct p as [[[f a] b] acc]. cbn [find_root_seq] in Hk.
    destruct k as [|k].
    + exists (f, a, b, acc). split; [reflexivity|]. split.
      * cbn [serve]. destruct (fst (find_root_h Ops f a b acc)); cbn in Hk; inversion Hk; reflexivity.
      * intros j p Hj. lia.
    + destruct (fst (find_root_h Ops f a b acc)) as [v| | |] eqn:E; cbn in Hk;
        try (destruct k; discriminate).
      destruct (IH k o Hk) as (q & Q1 & Q2 & Q3).
      exists q. split; [exact Q1|]. split; [exact Q2|].
      intros [|j] p Hj Hp.
      * cbn in Hp. inversion Hp; subst p. cbn [serve]. exists v. exact E.
      * cbn in Hp. apply (Q3 j p); [lia|exact Hp].
Qed.

Theorem seq_length (reqs : list ((T -> T) * T * T * T)) :
  (length (find_root_seq Ops reqs) <= length reqs)%nat.
Proof.
  induction reqs as [|[[[f a] b] acc] rest IH]; [cbn; lia|].
  cbn [find_root_seq]. destruct (fst (find_root_h Ops f a b acc)); cbn [length]; lia.
Qed.
End Shape.

(** ** Strictly monotone objective functions: every zero is within the accuracy of the answer *)
Local Open Scope R_scope.

Theorem monotone_every_root_close (f : R -> R) (a b acc r : R) :
  (forall x y, x < y -> f x < f y) \/ (forall x y, x < y -> f y < f x) ->
  fst (find_root ROps f a b acc) = Ok r ->
  forall z, f z = 0 ->
    z = r \/ Rabs (z - r) < acc \/ Rabs (z - r) <= (Rmax a b - Rmin a b) / 2 ^ max_iterations.
Proof.
  intros Hm Hr z Hz.
  assert (Inj : forall u v, f u = f v -> u = v).
  { intros u v E. destruct (Rtotal_order u v) as [L|[L|L]]; [|exact L|];
      destruct Hm as [M|M]; pose proof (M _ _ L); lra. }
  destruct (accuracy f a b acc r Hr) as [Z|(x1 & x2 & B1 & B2 & B3 & B4 & B5 & Hw)].
  - left. apply Inj. lra.
  - assert (Hin : x1 < z < x2).
    { destruct Hm as [M|M].
      - pose proof (M _ _ B2) as M12.
        assert (f x1 < 0 < f x2) as [N1 N2] by nra.
        split.
        + destruct (Rlt_le_dec x1 z) as [L|L]; [exact L|].
          destruct L as [L|L]; [pose proof (M _ _ L); lra|subst; lra].
        + destruct (Rlt_le_dec z x2) as [L|L]; [exact L|].
          destruct L as [L|L]; [pose proof (M _ _ L); lra|subst; lra].
      - pose proof (M _ _ B2) as M12.
        assert (f x2 < 0 < f x1) as [N1 N2] by nra.
        split.
        + destruct (Rlt_le_dec x1 z) as [L|L]; [exact L|].
          destruct L as [L|L]; [pose proof (M _ _ L); lra|subst; lra].
        + destruct (Rlt_le_dec z x2) as [L|L]; [exact L|].
          destruct L as [L|L]; [pose proof (M _ _ L); lra|subst; lra]. }
    right.
    assert (Rabs (z - r) < x2 - x1).
    { apply Rabs_def1; destruct B5; subst; lra. }
    destruct Hw; [left|right]; lra.
Qed.

(** non-vacuity: x^3 - 2 is strictly increasing, and [0,2] has a sign change, so a number is returned *)
Example monotone_example :
  (forall x y, x < y -> x * x * x - 2 < y * y * y - 2) /\
  exists r, fst (find_root ROps (fun x => x * x * x - 2) 0 2 (1 / 10)) = Ok r.
Proof.
  split.
  - intros x y L.
    assert (0 < (y - x) * ((x + y / 2) * (x + y / 2) + 3 / 4 * (y * y))).
    { apply Rmult_lt_0_compat; [lra|].
      destruct (Req_dec y 0) as [->|N].
      - assert (x <> 0) by lra. nra.
      - assert (0 < y * y) by nra. nra. }
    nra.
  - destruct (sign_change_returns (fun x => x * x * x - 2) 0 2 (1 / 10)) as (r & E & _).
    + rewrite Rmin_left, Rmax_right by lra. lra.
    + exists r. exact E.
Qed.

(** ** Every evaluation of every pass inside the original bracket, on every ORDERED instance
    Only the order laws and ONE premise about arithmetic are used: the midpoint 0.5 x1 + 0.5 x2 of the code lies
    between its arguments ([mid_between]; true over the reals, [mid_between_R]; on IEEE doubles it is a statement
    about two exact halvings and one rounded, hence monotone, addition, which is tested, not proved).  Everything
    else the arithmetic produces - Ridder's point before the clamp, rounding, overflow - is arbitrary. *)
Section OrderedTrace.
Context {T : Type} (Ops : NumOps T) (OL : OrdLaws Ops).

Definition ins (lo hi x : T) : Prop := nleb Ops lo x = true /\ nleb Ops x hi = true.
Definition mid_between : Prop :=
  forall x y, ins (nmin Ops x y) (nmax Ops x y) (mid_any Ops x y).

Lemma le_refl x : nleb Ops x x = true.
Proof. rewrite (ol_le Ops OL), (ol_irrefl Ops OL). reflexivity. Qed.

Lemma le_trans x y z : nleb Ops x y = true -> nleb Ops y z = true -> nleb Ops x z = true.
Proof.
  rewrite !(ol_le Ops OL). intros A B.
  destruct (nltb Ops z x) eqn:C; [|reflexivity]. exfalso.
  destruct (ol_total Ops OL y z) as [H|[H|H]].
  - rewrite (ol_trans Ops OL y z x H C) in A. discriminate.
  - rewrite (ol_eq_lt_l Ops OL y z x H), C in A. discriminate.
  - rewrite H in B. discriminate.
Qed.

Lemma ins_hull lo hi x1 x2 x : ins lo hi x1 -> ins lo hi x2 -> ins (nmin Ops x1 x2) (nmax Ops x1 x2) x -> ins lo hi x.
Proof.
  intros [A1 A2] [B1 B2] [C1 C2]. split.
  - apply (le_trans _ (nmin Ops x1 x2)); [|exact C1]. unfold nmin. destruct (nltb Ops x2 x1); assumption.
  - apply (le_trans _ (nmax Ops x1 x2)); [exact C2|]. unfold nmax. destruct (nltb Ops x1 x2); assumption.
Qed.

(** the ends of the next bracket are among x1, x2, the midpoint and Ridder's point (no law used) *)
Lemma step_next_ends (f : T -> T) (acc : T) (s s' : st) : fst (step Ops f acc s) = inr s' ->
  let x3 := mid_any Ops (sx1 s) (sx2 s) in
  let x4 := ridder_any Ops f (sx1 s) (sx2 s) (sf1 s) (sf2 s) in
  (sx1 s' = x3 \/ sx1 s' = sx1 s \/ sx1 s' = x4) /\ (sx2 s' = x4 \/ sx2 s' = sx2 s) /\ sres s' = x4.
Proof.
  cbv zeta. unfold step, ridder_any, mid_any. cbv zeta.
  repeat match goal with |- context [if ?c then _ else _] => destruct c end; cbn [fst];
    intros E; inversion E; subst s'; cbn [sx1 sx2 sres]; auto 6.
Qed.

Lemma loop_inside_ordered (Hm : mid_between) (f : T -> T) (acc lo hi : T) : forall n s,
  ins lo hi (sx1 s) -> ins lo hi (sx2 s) -> (n = 0%nat -> ins lo hi (sres s)) ->
  Forall (ins lo hi) (snd (loop Ops f acc n s)).
Proof.
  induction n as [|n IH]; intros s I1 I2 I0.
  - cbn. constructor; [apply I0; reflexivity|constructor].
  - cbn [loop].
    pose proof (step_shape Ops f acc s) as [Tr _]. cbv zeta in Tr.
    pose proof (step_next_ends f acc s) as NE. cbv zeta in NE.
    assert (J3 : ins lo hi (mid_any Ops (sx1 s) (sx2 s))).
    { apply (ins_hull lo hi (sx1 s) (sx2 s)); auto. }
    assert (J4 : ins lo hi (ridder_any Ops f (sx1 s) (sx2 s) (sf1 s) (sf2 s))).
    { apply (ins_hull lo hi (sx1 s) (sx2 s)); auto. unfold ridder_any. cbv zeta.
      exact (clamp_inside Ops OL (sx1 s) (sx2 s) _). }
    destruct (step Ops f acc s) as [[o|s'] tr]; cbn [fst snd] in *; subst tr.
    + constructor; [exact J3|]. constructor; [exact J4|]. constructor.
    + destruct (NE s' eq_refl) as (E1 & E2 & E3).
      assert (K : Forall (ins lo hi) (snd (loop Ops f acc n s'))).
      { apply IH.
        - destruct E1 as [-> |[-> | ->]]; assumption.
        - destruct E2 as [-> | ->]; assumption.
        - intros _. rewrite E3. exact J4. }
      destruct (loop Ops f acc n s') as [o2 tr2]. cbn [snd] in *.
      constructor; [exact J3|]. constructor; [exact J4|]. exact K.
Qed.

Theorem evaluations_inside_ordered (Hm : mid_between) (f : T -> T) (a b acc : T) :
  let xl := if ngtb Ops a b then b else a in
  let xr := if ngtb Ops a b then a else b in
  Forall (ins xl xr) (snd (find_root_h Ops f a b acc)) /\
  forall x h, fst (find_root_h Ops f a b acc) = Ok (x, h) -> ins xl xr x.
Proof.
  cbv zeta.
  set (xl := if ngtb Ops a b then b else a). set (xr := if ngtb Ops a b then a else b).
  assert (Lr : nleb Ops xl xr = true).
  { unfold xl, xr, ngtb. rewrite (ol_le Ops OL). destruct (nltb Ops b a) eqn:E.
    - rewrite (lt_asym Ops OL _ _ E). reflexivity.
    - rewrite E. reflexivity. }
  assert (Il : ins xl xr xl) by (split; [apply le_refl|exact Lr]).
  assert (Ir : ins xl xr xr) by (split; [exact Lr|apply le_refl]).
  assert (F : Forall (ins xl xr) (snd (find_root_h Ops f a b acc))).
  { unfold find_root_h. fold xl xr.
    repeat match goal with |- context [if ?c then _ else _] => destruct c end;
      try (cbn [snd]; constructor; [exact Il|constructor; [exact Ir|constructor]]).
    set (s0 := mkst xl xr (f xl) (f xr) _).
    pose proof (loop_inside_ordered Hm f acc xl xr max_iterations s0 Il Ir
                  ltac:(rewrite max_iterations_S; discriminate)) as K.
    destruct (loop Ops f acc max_iterations s0) as [o tr]. cbn [snd] in *.
    constructor; [exact Il|]. constructor; [exact Ir|]. exact K. }
  split; [exact F|].
  intros x h Ox. pose proof (evaluation_budget Ops f a b acc) as (_ & _ & In_).
  rewrite Forall_forall in F. apply F. apply (In_ x h Ox).
Qed.
End OrderedTrace.

(** the premise holds over the reals (non-vacuity; [ROps_OrdLaws] gives the order laws) *)
Lemma mid_between_R : mid_between ROps.
Proof.
  intros x y. unfold ins, mid_any, nmin, nmax, ndec. cbn [nadd nmul ndiv nofZ nleb nltb ROps].
  destruct (Rltb_spec y x), (Rltb_spec x y); split; apply Rleb_true; cbn; lra.
Qed.

Example evaluations_inside_ordered_example :
  Forall (ins ROps 0 2) (snd (find_root_h ROps (fun x => x * x * x - 2) 2 0 (1 / 10))).
Proof.
  pose proof (evaluations_inside_ordered ROps ROps_OrdLaws mid_between_R (fun x => x * x * x - 2) 2 0 (1 / 10)) as [H _].
  cbv zeta in H.
  assert (G : ngtb ROps 2 0 = true) by (unfold ngtb; cbn; apply Rltb_true; lra).
  rewrite G in H. exact H.
Qed.

(** ** The stopping test and the accuracy clause on EVERY instance of the number interface
    A number returned because the bracket became narrower than the accuracy (HBracket) is an end of a pair (u, v) of
    abscissae at which the objective function WAS evaluated during this call, whose function values pass the code's
    own sign-change test in one of its two orientations ([opp p q] = Sign(p,q) != p and not q == 0: for non-NaN doubles, p != 0,
    q != 0 and Sign(p) != Sign(q)), and whose distance as the instance computes it, fabs(v - u), is < xAccuracy.  A number returned
    by the other in-loop exit (HF4Zero) is a point where the computed function value == 0.  No law of arithmetic or of
    order is used: this is the accuracy clause for IEEE doubles up to the single rounding of v - u. *)
Section StopAny.
Context {T : Type} (Ops : NumOps T).

Definition opp (p q : T) : Prop := nneb Ops (sign2 Ops p q) p = true /\ neqb Ops q (n0 Ops) = false.
Definition stop (acc : T) (s : @st T) : bool := nltb Ops (nabs Ops (nsub Ops (sx2 s) (sx1 s))) acc.
Definition Good (f : T -> T) (s : @st T) : Prop :=
  sf1 s = f (sx1 s) /\ sf2 s = f (sx2 s) /\ (opp (sf1 s) (sf2 s) \/ opp (sf2 s) (sf1 s)) /\
  (sres s = sx1 s \/ sres s = sx2 s).
Definition Ends (f : T -> T) (s s' : @st T) : Prop :=
  let x3 := mid_any Ops (sx1 s) (sx2 s) in
  let x4 := ridder_any Ops f (sx1 s) (sx2 s) (sf1 s) (sf2 s) in
  (sx1 s' = x3 \/ sx1 s' = sx1 s \/ sx1 s' = x4) /\ (sx2 s' = x4 \/ sx2 s' = sx2 s).

Lemma step_stop (f : T -> T) (acc : T) (s : st) : sf1 s = f (sx1 s) -> sf2 s = f (sx2 s) ->
  match fst (step Ops f acc s) with
  | inl (Ok (x, HF4Zero)) => neqb Ops (f x) (n0 Ops) = true
  | inl (Ok (x, HBracket)) => exists s', Good f s' /\ stop acc s' = true /\ x = sres s' /\ Ends f s s'
  | inl (Ok _) => False
  | inl Exit => True
  | inl _ => False
  | inr s' => Good f s' /\ stop acc s' = false /\ Ends f s s'
  end.
Proof.
  intros F1 F2. unfold Ends, stop. cbv zeta. unfold step, ridder_any, mid_any. cbv zeta.
  repeat match goal with |- context [if ?c then _ else _] => destruct c eqn:? end; cbn [fst]; try exact I;
    try assumption;
    try (match goal with H : nltb Ops (nabs Ops (nsub Ops (sx2 ?s') (sx1 ?s'))) acc = true |- _ => exists s' end);
    unfold Good, opp; cbn [sx1 sx2 sf1 sf2 sres]; repeat split; auto 6.
Qed.

Lemma loop_stop (f : T -> T) (acc : T) : forall n s, sf1 s = f (sx1 s) -> sf2 s = f (sx2 s) ->
  forall x h, fst (loop Ops f acc n s) = Ok (x, h) ->
    (h = HF4Zero -> neqb Ops (f x) (n0 Ops) = true) /\
    (h = HBracket -> exists u v, (x = u \/ x = v) /\ nltb Ops (nabs Ops (nsub Ops v u)) acc = true /\
                       (opp (f u) (f v) \/ opp (f v) (f u)) /\
                       In u (sx1 s :: sx2 s :: snd (loop Ops f acc n s)) /\
                       In v (sx1 s :: sx2 s :: snd (loop Ops f acc n s))).
Proof.
  induction n as [|n IH]; intros s F1 F2 x h O.
  - cbn in O. inversion O; subst. split; discriminate.
  - cbn [loop] in O |- *.
    pose proof (step_stop f acc s F1 F2) as St.
    pose proof (step_shape Ops f acc s) as [Tr _]. cbv zeta in Tr.
    destruct (step Ops f acc s) as [[o|s'] tr]; cbn [fst snd] in *; subst tr.
    + subst o. destruct h; try contradiction.
      * split; [intros _; exact St|discriminate].
      * split; [discriminate|intros _].
        destruct St as (s' & (G1 & G2 & G3 & G4) & Sp & -> & (E1 & E2)). cbv zeta in E1, E2.
        exists (sx1 s'), (sx2 s'). split; [exact G4|]. split; [exact Sp|].
        rewrite <- G1, <- G2. split; [exact G3|].
        split.
        -- destruct E1 as [-> |[-> | ->]]; cbn; auto.
        -- destruct E2 as [-> | ->]; cbn; auto.
    + destruct St as ((G1 & G2 & _ & _) & _ & (E1 & E2)). cbv zeta in E1, E2.
      specialize (IH s' G1 G2 x h).
      destruct (loop Ops f acc n s') as [o2 tr2]. cbn [fst snd] in *.
      destruct (IH O) as [I1 I2]. split; [exact I1|].
      intros Hh. destruct (I2 Hh) as (u & v & A & B & C & Du & Dv).
      exists u, v. split; [exact A|]. split; [exact B|]. split; [exact C|].
      assert (W : forall w, In w (sx1 s' :: sx2 s' :: tr2) ->
                  In w (sx1 s :: sx2 s :: [mid_any Ops (sx1 s) (sx2 s); ridder_any Ops f (sx1 s) (sx2 s) (sf1 s) (sf2 s)] ++ tr2)).
      { intros w [<-|[<-|Hw]].
        - destruct E1 as [-> |[-> | ->]]; cbn; auto.
        - destruct E2 as [-> | ->]; cbn; auto.
        - cbn. auto. }
      split; apply W; assumption.
Qed.

Theorem stopping_test (f : T -> T) (a b acc x : T) :
  (fst (find_root_h Ops f a b acc) = Ok (x, HF4Zero) -> neqb Ops (f x) (n0 Ops) = true) /\
  (fst (find_root_h Ops f a b acc) = Ok (x, HBracket) ->
     exists u v, (x = u \/ x = v) /\ nltb Ops (nabs Ops (nsub Ops v u)) acc = true /\
                 (opp (f u) (f v) \/ opp (f v) (f u)) /\
                 In u (snd (find_root_h Ops f a b acc)) /\ In v (snd (find_root_h Ops f a b acc))).
Proof.
  unfold find_root_h.
  set (xl := if ngtb Ops a b then b else a). set (xr := if ngtb Ops a b then a else b).
  destruct (nisnan Ops (f xl) || nisnan Ops (f xr)); [split; discriminate|].
  destruct (sign1 Ops (f xl) * sign1 Ops (f xr) >=? 0)%Z.
  { repeat match goal with |- context [if ?c then _ else _] => destruct c end; split; discriminate. }
  set (s0 := mkst xl xr (f xl) (f xr) _).
  pose proof (loop_stop f acc max_iterations s0 eq_refl eq_refl x) as L.
  destruct (loop Ops f acc max_iterations s0) as [o tr]. cbn [fst snd sx1 sx2 s0] in *.
  split; intros O; destruct (L _ O) as [L1 L2]; auto.
Qed.
End StopAny.

(** over the reals the code's sign-change test is the strict sign change of the product *)
Lemma opp_R p q : opp ROps p q <-> p * q < 0.
Proof.
  unfold opp. rewrite nneb_sign2_char, andb_true_iff, !negb_true_iff. cbn [neqb n0 ROps]. split.
  - intros [[A B] C]. apply Z.eqb_neq in A. apply Reqb_false in B. apply Reqb_false in C.
    destruct (sign1_cases p) as [[P1 P2]|[[P1 P2]|[P1 P2]]], (sign1_cases q) as [[Q1 Q2]|[[Q1 Q2]|[Q1 Q2]]];
      try congruence; try lra; nra.
  - intros H. split; [split|].
    + apply Z.eqb_neq.
      destruct (sign1_cases p) as [[P1 P2]|[[P1 P2]|[P1 P2]]], (sign1_cases q) as [[Q1 Q2]|[[Q1 Q2]|[Q1 Q2]]];
        rewrite P2, Q2; try discriminate; exfalso; nra.
    + apply Reqb_false. nra.
    + apply Reqb_false. nra.
Qed.

(** the accuracy clause over the reals, recovered from [stopping_test]: a number returned through the width test is an
    end of a pair of evaluated abscissae with f u * f v < 0 and |v - u| < acc *)
Corollary stopping_test_R (f : R -> R) (a b acc x : R) :
  fst (find_root_h ROps f a b acc) = Ok (x, HBracket) ->
  exists u v, (x = u \/ x = v) /\ Rabs (v - u) < acc /\ f u * f v < 0 /\
              In u (snd (find_root_h ROps f a b acc)) /\ In v (snd (find_root_h ROps f a b acc)).
Proof.
  intros O. destruct (stopping_test ROps f a b acc x) as [_ S2].
  destruct (S2 O) as (u & v & A & B & C & Du & Dv).
  exists u, v. split; [exact A|]. split; [cbn in B; apply Rltb_true in B; exact B|].
  split; [|split; assumption].
  destruct C as [C|C]; apply opp_R in C; lra.
Qed.

(** non-vacuity: 3x - 1 on [0,2] with accuracy 3 (wider than the bracket) is answered after the first pass, through
    f(x4) == 0 or through the width test *)
Example stopping_test_example :
  exists x h, fst (find_root_h ROps (fun x => 3 * x + -1) 0 2 3) = Ok (x, h) /\ (h = HF4Zero \/ h = HBracket).
Proof.
  set (f := fun x : R => 3 * x + -1).
  destruct (evaluation_count f 0 2 3 1) as [Len _].
  { rewrite max_iterations_S. lia. }
  { rewrite Rmin_left, Rmax_right by lra. lra. }
  destruct (sign_change_returns f 0 2 3) as (r & E & _).
  { rewrite Rmin_left, Rmax_right by lra. unfold f. lra. }
  rewrite find_root_fst in E.
  pose proof (first_pass_always_runs ROps f 0 2 3) as H. cbv zeta in H.
  assert (G : ngtb ROps 0 2 = false).
  { unfold ngtb. cbn. destruct (Rltb_spec 2 0); [lra|reflexivity]. }
  rewrite G in H.
  assert (S1 : sign1 ROps (f 0) = (-1)%Z).
  { destruct (sign1_cases (f 0)) as [[A _]|[[A _]|[_ A]]]; [unfold f in A; lra|unfold f in A; lra|exact A]. }
  assert (S2 : sign1 ROps (f 2) = 1%Z).
  { destruct (sign1_cases (f 2)) as [[_ A]|[[A _]|[A _]]]; [exact A|unfold f in A; lra|unfold f in A; lra]. }
  destruct (H eq_refl eq_refl) as (o & tr' & Eh & Ho).
  { rewrite S1, S2. reflexivity. }
  rewrite Eh in Len, E. cbn [fst snd length] in Len, E.
  assert (tr' = []) by (destruct tr'; [reflexivity|cbn in Len; lia]).
  destruct (Ho H0) as [->|(h & -> & Hh)]; [discriminate|].
  rewrite Eh. cbn [fst]. eauto.
Qed.

(** ** "whichever order the ends are given in", on every ORDERED instance: for ends that the instance's order tells
    apart (or that are identical) the two orders give the same outcome and the same evaluations.  (Ends that compare
    equal without being identical - +0 and -0 on doubles - are not covered: the ends are then not swapped, and the
    function is called on them in the order given.) *)
Theorem order_irrelevant_ordered {T : Type} (Ops : NumOps T) (OL : OrdLaws Ops) (f : T -> T) (a b acc : T) :
  nltb Ops a b = true \/ nltb Ops b a = true \/ a = b ->
  find_root_h Ops f a b acc = find_root_h Ops f b a acc.
Proof.
  intros [H|[H|H]].
  - unfold find_root_h, ngtb. rewrite H, (lt_asym Ops OL _ _ H). reflexivity.
  - unfold find_root_h, ngtb. rewrite H, (lt_asym Ops OL _ _ H). reflexivity.
  - subst. reflexivity.
Qed.

Example order_irrelevant_ordered_example :
  find_root_h ROps (fun x => 3 * x + -1) 0 2 3 = find_root_h ROps (fun x => 3 * x + -1) 2 0 3.
Proof. apply (order_irrelevant_ordered ROps ROps_OrdLaws). left. cbn. apply Rltb_true. lra. Qed.

(** ** Histories over the reals: EVERY answer of EVERY history is correct for its own request (induction over the
    history via [seq_entries_are_serves], then [find_root_h_spec]) *)
Theorem seq_all_answers_correct (reqs : list ((R -> R) * R * R * R)) (k : nat) o :
  nth_error (find_root_seq ROps reqs) k = Some o ->
  exists f a b acc, nth_error reqs k = Some (f, a, b, acc) /\
    List.Forall (fun x => Rmin a b <= x <= Rmax a b) (snd o) /\ post f a b acc (fst o).
Proof.
  intros H. destruct (seq_entries_are_serves ROps reqs k o H) as ([[[f a] b] acc] & Q1 & -> & _).
  exists f, a, b, acc. split; [exact Q1|]. cbn [serve]. exact (find_root_h_spec f a b acc).
Qed.

Example seq_all_answers_example :
  exists o, nth_error (find_root_seq ROps [((fun x => 3 * x + -1), 0, 2, 3); ((fun x => 3 * x + -1), 2, 0, 3)]) 1 = Some o.
Proof.
  destruct stopping_test_example as (x & h & E & _).
  eexists. apply seq_history_independent; [|reflexivity].
  intros [|j] p Hj Hp; [|lia]. cbn in Hp. inversion Hp; subst p. cbn [serve]. eauto.
Qed.
