(** * C08 proofs, part 4: the remaining "scale with the prefactor" clauses (Integrate, Global_Minimum/Maximum in 1-D and 2-D),
    windows and their sub-windows, the error branches, and Integrate on EVERY pair of limits the library accepts
    (the 1 % extrapolation zone included). *)
From Coq Require Import Reals ZArith List Bool Lia Lra Psatz.
From Coquelicot Require Import Coquelicot.
From LP Require Import Num NumR OrdLaws C01_Model C01_Proofs C01_Proofs_Global C08_Model C08_Proofs.
Import ListNotations.
Local Open Scope R_scope.

(** ** 1. Scaling with the prefactor *)
Section S.
Variables xs ys : list R.
Hypothesis HV : valid_table xs ys.
Notation N := (length xs).
Notation X i := (nth i xs 0).
Notation dom x := (X 0 <= x <= X (N - 1)).
Let Hlen : length xs = length ys := proj1 HV.
Let HN : (3 <= N)%nat := proj1 (proj2 HV).
Let Hinc : increasing xs := proj2 (proj2 HV).

Lemma knot_in_dom i : (i < N)%nat -> dom (X i).
Proof. intros Hi. split; apply increasing_le; auto; lia. Qed.

(** Integrate under the prefactor c is c times Integrate under the prefactor 1 *)
Theorem integrate_scales c a b : dom a -> dom b ->
  integral_value c xs ys a b = c * integral_value 1 xs ys a b.
Proof.
  intros Ha Hb.
  destruct (integral_value_spec xs ys HV c a b Ha Hb) as (_ & Rc).
  destruct (integral_value_spec xs ys HV 1 a b Ha Hb) as (_ & R1).
  pose proof (@is_RInt_scal R_NormedModule (pcurve 1 xs ys) a b c _ R1) as R1c.
  apply (RInt_uniq (pcurve c xs ys) a b); [exact Rc|].
  apply (is_RInt_ext (fun x => scal c (pcurve 1 xs ys x))); [|exact R1c].
  intros x _. unfold pcurve. cbn. unfold mult. cbn. ring.
Qed.

(** Global_Minimum / Global_Maximum under the prefactor c against those under the prefactor 1 *)
Theorem global_extrema_scale c :
  exists mn mx mn1 mx1,
    global_minimum ROps (ptab c xs ys) = Ok mn /\ global_maximum ROps (ptab c xs ys) = Ok mx /\
    global_minimum ROps (tab xs ys) = Ok mn1 /\ global_maximum ROps (tab xs ys) = Ok mx1 /\
    (0 <= c -> mn = c * mn1 /\ mx = c * mx1) /\ (c <= 0 -> mn = c * mx1 /\ mx = c * mn1).
Proof.
  destruct (global_minimum_spec xs ys HV c) as (mn & Emn & Bmn & (pn & Hpn & Apn)).
  destruct (global_maximum_spec xs ys HV c) as (mx & Emx & Bmx & (px & Hpx & Apx)).
  destruct (global_minimum_spec xs ys HV 1) as (mn1 & Emn1 & Bmn1 & (pn1 & Hpn1 & Apn1)).
  destruct (global_maximum_spec xs ys HV 1) as (mx1 & Emx1 & Bmx1 & (px1 & Hpx1 & Apx1)).
  exists mn, mx, mn1, mx1. repeat split; auto.
  all: pose proof (knot_in_dom pn Hpn) as Dn; pose proof (knot_in_dom px Hpx) as Dx;
       pose proof (knot_in_dom pn1 Hpn1) as Dn1; pose proof (knot_in_dom px1 Hpx1) as Dx1.
  all: unfold pcurve in *.
  all: pose proof (Bmn _ Dn1); pose proof (Bmn _ Dx1); pose proof (Bmx _ Dn1); pose proof (Bmx _ Dx1);
       pose proof (Bmn1 _ Dn); pose proof (Bmn1 _ Dx); pose proof (Bmx1 _ Dn); pose proof (Bmx1 _ Dx).
  all: apply Rle_antisym; nra.
Qed.

(** ** 2. Windows and sub-windows: the extrema over [x1,x2] enclose those over every [u1,u2] inside it, and the global
    extrema enclose them all *)
Theorem local_extrema_nested c x1 x2 u1 u2 : dom x1 -> dom x2 -> x1 <= u1 -> u1 <= u2 -> u2 <= x2 ->
  exists gmn mn mn' mx' mx gmx,
    global_minimum ROps (ptab c xs ys) = Ok gmn /\ global_maximum ROps (ptab c xs ys) = Ok gmx /\
    local_minimum ROps (ptab c xs ys) x1 x2 = Ok mn /\ local_maximum ROps (ptab c xs ys) x1 x2 = Ok mx /\
    local_minimum ROps (ptab c xs ys) u1 u2 = Ok mn' /\ local_maximum ROps (ptab c xs ys) u1 u2 = Ok mx' /\
    gmn <= mn /\ mn <= mn' /\ mn' <= mx' /\ mx' <= mx /\ mx <= gmx.
Proof.
  intros D1 D2 H1 Hu H2.
  assert (Du1 : dom u1) by lra. assert (Du2 : dom u2) by lra.
  destruct (global_minimum_spec xs ys HV c) as (gmn & Egmn & Bgmn & _).
  destruct (global_maximum_spec xs ys HV c) as (gmx & Egmx & Bgmx & _).
  destruct (local_minimum_spec xs ys HV c x1 x2 D1 D2 ltac:(lra)) as (mn & Emn & Bmn & (pn & Hpn & Apn)).
  destruct (local_maximum_spec xs ys HV c x1 x2 D1 D2 ltac:(lra)) as (mx & Emx & Bmx & (px & Hpx & Apx)).
  destruct (local_minimum_spec xs ys HV c u1 u2 Du1 Du2 Hu) as (mn' & Emn' & Bmn' & (pn' & Hpn' & Apn')).
  destruct (local_maximum_spec xs ys HV c u1 u2 Du1 Du2 Hu) as (mx' & Emx' & Bmx' & (px' & Hpx' & Apx')).
  exists gmn, mn, mn', mx', mx, gmx. repeat split; auto.
  - rewrite Apn. apply Bgmn. lra.
  - rewrite Apn'. apply Bmn. lra.
  - rewrite Apn'. apply Bmx'. exact Hpn'.
  - rewrite Apx'. apply Bmx. lra.
  - rewrite Apx. apply Bgmx. lra.
Qed.
End S.

(** 2-D: Global_Minimum / Global_Maximum under the prefactor c against those under the prefactor 1 *)
Theorem global_extrema2_scale xs ys f c : valid_grid xs ys f ->
  exists mn mx mn1 mx1,
    global_minimum2 ROps (pgrid c xs ys f) = Ok mn /\ global_maximum2 ROps (pgrid c xs ys f) = Ok mx /\
    global_minimum2 ROps (pgrid 1 xs ys f) = Ok mn1 /\ global_maximum2 ROps (pgrid 1 xs ys f) = Ok mx1 /\
    (0 <= c -> mn = c * mn1 /\ mx = c * mx1) /\ (c <= 0 -> mn = c * mx1 /\ mx = c * mn1).
Proof.
  intros HG.
  destruct (grid_range xs ys f HG c) as (fmin & fmax & Emn & Emx & (i1 & j1 & Hi1 & Hj1 & V1) & (i2 & j2 & Hi2 & Hj2 & V2) & HB).
  destruct (grid_range xs ys f HG 1) as (gmin & gmax & Emn1 & Emx1 & (k1 & l1 & Hk1 & Hl1 & W1) & (k2 & l2 & Hk2 & Hl2 & W2) & HB1).
  assert (E1 : fmin = gmin).
  { apply Rle_antisym; [rewrite W1; apply HB; assumption|rewrite V1; apply HB1; assumption]. }
  assert (E2 : fmax = gmax).
  { apply Rle_antisym; [rewrite V2; apply HB1; assumption|rewrite W2; apply HB; assumption]. }
  rewrite <- E1, <- E2 in Emn1, Emx1.
  assert (Hmm : fmin <= fmax) by (rewrite V1; apply HB; assumption).
  do 4 eexists. split; [exact Emn|]. split; [exact Emx|]. split; [exact Emn1|]. split; [exact Emx1|].
  rewrite !Rmult_1_l. rewrite (Rmin_left fmin fmax), (Rmax_right fmin fmax) by exact Hmm.
  split; intros Hc.
  - rewrite Rmin_left, Rmax_right by nra. split; reflexivity.
  - rewrite Rmin_right, Rmax_left by nra. split; reflexivity.
Qed.

(** ** 3. The error branches *)
(** Local_Minimum / Local_Maximum: Check_For_Error(x_2 < x_1): every object, every number type *)
Theorem local_extremum_reversed {T : Type} (Ops : NumOps T) pick (o : itab) x1 x2 :
  nltb Ops x2 x1 = true -> local_extremum Ops pick o x1 x2 = Exit.
Proof. intros H. unfold local_extremum. now rewrite H. Qed.

(** ** 4. Integrate on every pair of limits the library accepts.
    Locate accepts exactly the points of (x_0 - tolL, x_{N-1} + tolR) (C01: locate_total; tolL / tolR = 1 % of the first / last
    interval); outside the table Interpolate continues the first / last cubic and Integrate uses its antiderivative, so Integrate
    remains the integral of the curve Interpolate returns. *)
Section Z.
Variables xs ys : list R.
Hypothesis HV : valid_table xs ys.
Variable c : R.
Notation N := (length xs).
Notation X i := (nth i xs 0).
Notation Y i := (nth i ys 0).
Notation o := (ptab c xs ys).
Notation F := (pcurve c xs ys).
Notation dom x := (X 0 <= x <= X (N - 1)).
Notation acc x := (X 0 - tolL xs < x < X (N - 1) + tolR xs).
Let Hlen : length xs = length ys := proj1 HV.
Let HN : (3 <= N)%nat := proj1 (proj2 HV).
Let Hinc : increasing xs := proj2 (proj2 HV).

(* what Locate guarantees about an accepted point *)
Definition zl (j : nat) (x : R) : Prop :=
  (S j < N)%nat /\ (x < X 0 -> j = 0%nat) /\ (X (N - 1) < x -> j = (N - 2)%nat) /\ (dom x -> located xs j x).

Lemma zlocate x : acc x -> exists j, locate ROps o x = Ok j /\ zl j x.
Proof.
  intros Hx. destruct (locate_total xs ys HV x) as [A _]. destruct (A Hx) as (j & E & Hj & J0 & J1 & _).
  exists j. split; [exact E|]. split; [exact Hj|]. split; [exact J0|]. split; [exact J1|].
  intros Hd. destruct (locate_located xs ys HV c x Hd) as (j' & E' & L').
  change (locate ROps o x) with (locate ROps (tab xs ys) x) in E'. rewrite E in E'. injection E' as <-. exact L'.
Qed.

Lemma locate_rejects x : ~ acc x -> locate ROps o x = Exit.
Proof. intros Hx. destruct (locate_total xs ys HV x) as [_ B]. exact (B Hx). Qed.

(** Interpolate on the accepted range returns the curve *)
Lemma interpolate_ptab_zone x : acc x -> interpolate ROps o x = Ok (F x).
Proof.
  intros Hx. destruct (zlocate x Hx) as (j & E & Hj & _).
  unfold pcurve, curve. change (locate ROps o x) with (locate ROps (tab xs ys) x) in E.
  rewrite (interpolate_located xs ys Hlen x j E Hj).
  unfold interpolate. rewrite (locate_ptab xs ys c), E. cbn [rbind]. rewrite segment_ptab, segment_ok by assumption.
  cbn [rbind]. reflexivity.
Qed.

Lemma X_first_le j : (j < N)%nat -> X 0 <= X j. Proof. intros. apply increasing_le; auto; lia. Qed.
Lemma X_le_last j : (j < N)%nat -> X j <= X (N - 1). Proof. intros. apply increasing_le; auto; lia. Qed.

(* the curve is the cubic of segment j on [u,v] when [u,v] lies in the segment, or reaches from the first / last segment into the zone *)
Lemma F_seg_zone j u v x : (S j < N)%nat ->
  (X j <= u \/ (j = 0%nat /\ X 0 - tolL xs < u)) ->
  (v <= X (S j) \/ (j = (N - 2)%nat /\ v < X (N - 1) + tolR xs)) ->
  u <= x <= v -> F x = c * SEGf xs ys j x.
Proof.
  intros Hj Hu Hv Hx.
  pose proof (Hinc j Hj) as Hjj.
  destruct (Rlt_le_dec x (X j)) as [Hlo|Hlo].
  - destruct Hu as [Hu|[-> Hu]]; [lra|]. unfold pcurve. rewrite (curve_left_end xs ys HV x) by lra. reflexivity.
  - destruct (Rlt_le_dec (X (S j)) x) as [Hhi|Hhi].
    + destruct Hv as [Hv|[-> Hv]]; [lra|]. replace (S (N - 2)) with (N - 1)%nat in * by lia.
      unfold pcurve. rewrite (curve_right_end xs ys HV x) by lra. reflexivity.
    + apply (F_on_segment xs ys HV c j x Hj). lra.
Qed.

Lemma piece_zone j u v : (S j < N)%nat ->
  (X j <= u \/ (j = 0%nat /\ X 0 - tolL xs < u)) ->
  (v <= X (S j) \/ (j = (N - 2)%nat /\ v < X (N - 1) + tolR xs)) -> u <= v ->
  is_RInt F u v (c * anti (CA xs ys j) (CB xs ys j) (DYf xs ys j) (Y j) (X j) v
                 - c * anti (CA xs ys j) (CB xs ys j) (DYf xs ys j) (Y j) (X j) u).
Proof.
  intros Hj Hu Hv Huv.
  apply (is_RInt_ext (fun x => c * SEGf xs ys j x)); [|apply seg_int].
  intros x. rewrite Rmin_left, Rmax_right by lra. intros Hx. symmetry. apply (F_seg_zone j u v x); auto; lra.
Qed.

Section Loop.
Variables x1 x2 : R.
Variables i1 i2 : nat.
Hypothesis A1 : zl i1 x1.
Hypothesis A2 : zl i2 x2.
Hypothesis R1 : X 0 - tolL xs < x1.
Hypothesis R2 : x2 < X (N - 1) + tolR xs.
Hypothesis Hx : x1 <= x2.

Lemma zorder : (i1 <= i2)%nat.
Proof.
  destruct A1 as (Hj1 & J10 & J11 & J1d). destruct A2 as (Hj2 & J20 & J21 & J2d).
  destruct (Rlt_le_dec x1 (X 0)) as [H0|H0]; [rewrite (J10 H0); lia|].
  destruct (Rlt_le_dec (X (N - 1)) x2) as [HN1|HN1]; [rewrite (J21 HN1); lia|].
  apply (located_order xs ys HV i1 x1 i2 x2); [apply J1d|apply J2d|exact Hx]; lra.
Qed.

(* the lower end of the piece i of the loop *)
Lemma low_ok i : (i1 + i <= i2)%nat ->
  let L := if Nat.eqb i 0 then x1 else X (i1 + i) in
  X (i1 + i) <= L \/ ((i1 + i)%nat = 0%nat /\ X 0 - tolL xs < L).
Proof.
  intros Hi L. destruct A1 as (Hj1 & J10 & J11 & J1d). destruct A2 as (Hj2 & _).
  unfold L. destruct (Nat.eqb_spec i 0) as [->|Hne]; [|left; lra].
  rewrite Nat.add_0_r.
  destruct (Rlt_le_dec x1 (X 0)) as [H0|H0]; [right; split; [exact (J10 H0)|exact R1]|].
  destruct (Rlt_le_dec (X (N - 1)) x1) as [HN1|HN1].
  - left. pose proof (X_le_last i1 ltac:(lia)). lra.
  - left. pose proof (located_le xs _ _ (J1d (conj H0 HN1))). lra.
Qed.

Lemma x1_le_next : (i1 < i2)%nat -> x1 <= X (S i1).
Proof.
  intros Hlt. destruct A1 as (Hj1 & J10 & J11 & J1d). destruct A2 as (Hj2 & _).
  destruct (Rlt_le_dec x1 (X 0)) as [H0|H0]; [pose proof (X_first_le (S i1) ltac:(lia)); lra|].
  destruct (Rlt_le_dec (X (N - 1)) x1) as [HN1|HN1]; [rewrite (J11 HN1) in Hlt; lia|].
  pose proof (located_le xs _ _ (J1d (conj H0 HN1))). lra.
Qed.

Lemma up_ok : x2 <= X (S i2) \/ (i2 = (N - 2)%nat /\ x2 < X (N - 1) + tolR xs).
Proof.
  destruct A2 as (Hj2 & J20 & J21 & J2d).
  destruct (Rlt_le_dec (X (N - 1)) x2) as [HN1|HN1]; [right; split; [exact (J21 HN1)|exact R2]|].
  destruct (Rlt_le_dec x2 (X 0)) as [H0|H0]; [left; pose proof (X_first_le (S i2) ltac:(lia)); lra|].
  left. pose proof (located_le xs _ _ (J2d (conj H0 HN1))). lra.
Qed.

Lemma Xi2_le_x2 : (i2 <> 0)%nat -> X i2 <= x2.
Proof.
  intros Hne. destruct A2 as (Hj2 & J20 & J21 & J2d).
  destruct (Rlt_le_dec x2 (X 0)) as [H0|H0]; [specialize (J20 H0); lia|].
  destruct (Rlt_le_dec (X (N - 1)) x2) as [HN1|HN1]; [pose proof (X_le_last i2 ltac:(lia)); lra|].
  pose proof (located_le xs _ _ (J2d (conj H0 HN1))). lra.
Qed.

Lemma integrate_loop_zone : forall cnt i acc, (i1 + i + cnt = i2)%nat ->
  let L := if Nat.eqb i 0 then x1 else X (i1 + i) in
  exists I, integrate_loop ROps o x1 x2 i1 i2 (S cnt) i acc = Ok (acc + I) /\ is_RInt F L x2 I.
Proof.
  pose proof zorder as O12.
  assert (Hj1 : (S i1 < N)%nat) by (destruct A1; assumption).
  assert (Hj2 : (S i2 < N)%nat) by (destruct A2; assumption).
  induction cnt as [|cnt IH]; intros i acc Hcnt L.
  - (* last piece *)
    assert (Ej : (i1 + i = i2)%nat) by lia.
    rewrite integrate_loop_S. rewrite segment_ptab, segment_ok by (auto; lia). cbn [rbind fst].
    assert (Ei : Nat.eqb i (i2 - i1) = true) by (apply Nat.eqb_eq; lia). rewrite Ei. cbn [rbind].
    rewrite !stemfunc_R. change (ipre o) with c.
    assert (HL : (if Nat.eqb i 0 then x1 else X (i1 + i)) = L) by reflexivity. rewrite HL.
    eexists. split; [reflexivity|].
    pose proof (low_ok i ltac:(lia)) as LO. cbv zeta in LO. rewrite HL in LO.
    assert (BL : L <= x2).
    { unfold L. destruct (Nat.eqb_spec i 0) as [->|Hi]; [exact Hx|]. rewrite Ej. apply Xi2_le_x2. lia. }
    cbn [nsub ROps]. rewrite Ej in *. apply piece_zone; auto. exact up_ok.
  - (* a full piece up to the next abscissa, then the rest *)
    set (j := (i1 + i)%nat). assert (Hj : (S j < N)%nat) by (unfold j; lia).
    rewrite integrate_loop_S. fold j. rewrite segment_ptab, segment_ok by auto. cbn [rbind fst].
    assert (Ei : Nat.eqb i (i2 - i1) = false) by (apply Nat.eqb_neq; lia). rewrite Ei.
    change (ixs o) with xs. rewrite (get_nth xs (S j) 0) by lia. cbn [rbind].
    rewrite !stemfunc_R. change (ipre o) with c.
    assert (HL : (if Nat.eqb i 0 then x1 else X j) = L) by reflexivity. rewrite HL.
    match goal with |- context [integrate_loop ROps _ x1 x2 i1 i2 (S cnt) (S i) ?a] =>
      destruct (IH (S i) a) as (I' & E' & R'); [lia|] end.
    rewrite E'. cbn [Nat.eqb] in R'. replace (i1 + S i)%nat with (S j) in R' by (unfold j; lia).
    eexists. split; [cbn [nadd nsub ROps]; rewrite Rplus_assoc; reflexivity|].
    pose proof (low_ok i ltac:(lia)) as LO. cbv zeta in LO. fold j in LO. rewrite HL in LO.
    assert (BL : L <= X (S j)).
    { unfold L. destruct (Nat.eqb_spec i 0) as [->|Hi].
      - unfold j. rewrite Nat.add_0_r. apply x1_le_next. lia.
      - fold j. left. apply Hinc. lia. }
    apply (is_RInt_Chasles F L (X (S j)) x2); [|exact R'].
    apply piece_zone; auto. left. lra.
Qed.
End Loop.

(** Integrate(x1,x2) for EVERY pair of accepted limits (either order, in the table or in the 1 % zone beyond its ends):
    the Riemann integral of the curve Interpolate returns *)
Theorem integrate_accepted x1 x2 : acc x1 -> acc x2 ->
  exists I, integrate ROps o x1 x2 = Ok I /\ is_RInt F x1 x2 I.
Proof.
  assert (Main : forall a b, acc a -> acc b -> a <= b ->
    exists i1 i2 I, locate ROps o a = Ok i1 /\ locate ROps o b = Ok i2 /\
      integrate_loop ROps o a b i1 i2 (S i2 - i1) 0 0 = Ok (0 + I) /\ is_RInt F a b I).
  { intros a b Ha Hb Hab. destruct (zlocate a Ha) as (i1 & E1 & L1). destruct (zlocate b Hb) as (i2 & E2 & L2).
    pose proof (zorder a b i1 i2 L1 L2 Hab) as Hle.
    destruct (integrate_loop_zone a b i1 i2 L1 L2 (proj1 Ha) (proj2 Hb) Hab (i2 - i1) 0 0 ltac:(lia)) as (I & E & R).
    exists i1, i2, I. replace (S i2 - i1)%nat with (S (i2 - i1)) by lia. repeat split; assumption. }
  intros Hx1 Hx2. unfold integrate, ngtb. cbn [nltb ROps].
  destruct (Rltb_spec x2 x1) as [Hswap|Hord].
  - destruct (Main x2 x1 Hx2 Hx1 ltac:(lra)) as (i1 & i2 & I & E1 & E2 & E & R).
    rewrite E1, E2. cbn [rbind]. change (n0 ROps) with 0. rewrite E. cbn [rbind nmul nofZ ROps].
    eexists. split; [reflexivity|]. replace (-1 * (0 + I)) with (opp I) by (cbn; ring).
    apply (@is_RInt_swap R_NormedModule F x1 x2 I). exact R.
  - destruct (Main x1 x2 Hx1 Hx2 ltac:(lra)) as (i1 & i2 & I & E1 & E2 & E & R).
    rewrite E1, E2. cbn [rbind]. change (n0 ROps) with 0. rewrite E. cbn [rbind nmul nofZ ROps].
    eexists. split; [reflexivity|]. replace (1 * (0 + I)) with I by ring. exact R.
Qed.

(** ... and the process is terminated when either limit is not accepted *)
Theorem integrate_rejected x1 x2 : ~ acc x1 \/ ~ acc x2 -> integrate ROps o x1 x2 = Exit.
Proof.
  intros H. unfold integrate, ngtb. cbn [nltb ROps].
  assert (K : forall a b (k : nat -> nat -> res R), ~ acc a \/ ~ acc b ->
     rbind (locate ROps o a) (fun i1 => rbind (locate ROps o b) (fun i2 => k i1 i2)) = Exit).
  { intros a b k [Ha|Hb].
    - now rewrite (locate_rejects a Ha).
    - rewrite (locate_rejects b Hb).
      destruct (locate_total xs ys HV a) as [P Q].
      destruct (Rlt_dec (X 0 - tolL xs) a) as [G1|G1]; [destruct (Rlt_dec a (X (N - 1) + tolR xs)) as [G2|G2]|].
      + destruct (P (conj G1 G2)) as (j & E & _). change (locate ROps o a) with (locate ROps (tab xs ys) a). now rewrite E.
      + change (locate ROps o a) with (locate ROps (tab xs ys) a). rewrite Q by lra. reflexivity.
      + change (locate ROps o a) with (locate ROps (tab xs ys) a). rewrite Q by lra. reflexivity. }
  destruct (Rltb_spec x2 x1); apply K; tauto.
Qed.

(** Local_Minimum / Local_Maximum: a limit that is not accepted terminates the process as well (the evaluation at the limit does) *)
Lemma interpolate_rejects x : ~ acc x -> interpolate ROps o x = Exit.
Proof. intros Hx. unfold interpolate. now rewrite (locate_rejects x Hx). Qed.
Theorem local_extremum_rejected pick x1 x2 : ~ acc x1 \/ ~ acc x2 -> local_extremum ROps pick o x1 x2 = Exit.
Proof.
  intros H. unfold local_extremum. destruct (nltb ROps x2 x1); [reflexivity|].
  destruct (Rlt_dec (X 0 - tolL xs) x1) as [G1|G1]; [destruct (Rlt_dec x1 (X (N - 1) + tolR xs)) as [G2|G2]|].
  - rewrite (interpolate_ptab_zone x1 (conj G1 G2)). cbn [rbind].
    rewrite interpolate_rejects; [reflexivity|]. destruct H as [H|H]; [exfalso; apply H; split; assumption|exact H].
  - rewrite interpolate_rejects by lra. reflexivity.
  - rewrite interpolate_rejects by lra. reflexivity.
Qed.

Lemma integral_value_zone a b : acc a -> acc b ->
  integrate ROps o a b = Ok (integral_value c xs ys a b) /\ is_RInt F a b (integral_value c xs ys a b).
Proof.
  intros Ha Hb. destruct (integrate_accepted a b Ha Hb) as (I & E & R).
  unfold integral_value. rewrite E. split; [reflexivity|exact R].
Qed.

Theorem integrate_additive_zone a b d : acc a -> acc b -> acc d ->
  integral_value c xs ys a b + integral_value c xs ys b d = integral_value c xs ys a d.
Proof.
  intros Ha Hb Hd.
  destruct (integral_value_zone a b Ha Hb) as (_ & R1). destruct (integral_value_zone b d Hb Hd) as (_ & R2).
  destruct (integral_value_zone a d Ha Hd) as (_ & R3).
  pose proof (@is_RInt_Chasles R_NormedModule F a b d _ _ R1 R2) as R12.
  exact (RInt_uniq F a d _ _ R12 R3).
Qed.

Theorem integrate_antisymmetric_zone a b : acc a -> acc b ->
  integral_value c xs ys b a = - integral_value c xs ys a b.
Proof.
  intros Ha Hb.
  destruct (integral_value_zone a b Ha Hb) as (_ & R1). destruct (integral_value_zone b a Hb Ha) as (_ & R2).
  pose proof (@is_RInt_swap R_NormedModule F b a _ R1) as R1'.
  exact (RInt_uniq F b a _ _ R2 R1').
Qed.

(** the derivative with respect to the upper limit is Interpolate at EVERY accepted upper limit (the two end abscissae and the
    zone included) *)
Theorem integrate_derivative_upper_zone a x : acc a -> acc x ->
  is_derive (fun t => integral_value c xs ys a t) x (F x).
Proof.
  intros Ha Hx. apply (is_derive_RInt F (fun t => integral_value c xs ys a t) a x).
  - apply (locally_interval _ x (X 0 - tolL xs) (X (N - 1) + tolR xs)); cbn; try lra.
    intros t Ht1 Ht2. apply integral_value_zone; auto.
  - apply continuity_pt_filterlim.
    destruct (curve_differentiable_everywhere xs ys HV x Hx) as (d & _ & D).
    apply (continuity_pt_scal (curve xs ys) c x).
    apply derivable_continuous_pt. exists d. now apply is_derive_Reals.
Qed.
End Z.

(** ** 4b. Local_Minimum / Local_Maximum in ANY number type whose comparisons form a total order (IEEE doubles without NaN,
    rounding included): the result is, exactly, the least / greatest of the candidates the code looks at -- the two end values
    and prefactor * f_k for EVERY tabulated abscissa k = i_1 .. i_2+1 inside the limits.  No arithmetic law is used: the
    extrema are selections. *)
Section O.
Context {T : Type} (Ops : NumOps T) (OL : OrdLaws Ops).

(* the generic selection: [below a b] = "a is at least as extreme as b" *)
Variable pick : T -> T -> T.
Variable below : T -> T -> Prop.
Hypothesis below_refl : forall a, below a a.
Hypothesis below_trans : forall a b d, below a b -> below b d -> below a d.
Hypothesis pick_l : forall a b, below (pick a b) a.
Hypothesis pick_r : forall a b, below (pick a b) b.
Hypothesis pick_or : forall a b, pick a b = a \/ pick a b = b.

Definition inside (o : itab) (x1 x2 : T) (k : nat) (v : T) : Prop :=
  exists xk yk, get (ixs o) k = Ok xk /\ get (iys o) k = Ok yk /\
    nleb Ops x1 xk = true /\ nleb Ops xk x2 = true /\ v = nmul Ops (ipre o) yk.

Lemma knot_scan_select (o : itab) x1 x2 : forall cnt i m r, knot_scan Ops pick o x1 x2 cnt i m = Ok r ->
  below r m /\
  (forall k v, (i <= k < i + cnt)%nat -> inside o x1 x2 k v -> below r v) /\
  (r = m \/ exists k, (i <= k < i + cnt)%nat /\ inside o x1 x2 k r).
Proof.
  induction cnt as [|cnt IH]; intros i m r H.
  - cbn in H. injection H as <-. split; [apply below_refl|]. split; [intros k v Hk; lia|now left].
  - cbn [knot_scan] in H. destruct (get (ixs o) i) as [xi| | |] eqn:Ex; cbn [rbind] in H; try discriminate.
    unfold ngeb in H.
    destruct (nleb Ops x1 xi && nleb Ops xi x2) eqn:Ein.
    + apply andb_prop in Ein. destruct Ein as [Ea Eb].
      destruct (get (iys o) i) as [yi| | |] eqn:Ey; cbn [rbind] in H; try discriminate.
      destruct (IH (S i) _ r H) as (A & B & C).
      split; [eapply below_trans; [exact A|apply pick_l]|]. split.
      * intros k v Hk Hv. destruct (Nat.eq_dec k i) as [->|Hne]; [|apply (B k v); [lia|exact Hv]].
        destruct Hv as (xk & yk & Gx & Gy & _ & _ & ->). rewrite Ex in Gx. rewrite Ey in Gy.
        injection Gx as <-. injection Gy as <-. eapply below_trans; [exact A|apply pick_r].
      * destruct C as [C|(k & Hk & Hv)]; [|right; exists k; split; [lia|exact Hv]].
        destruct (pick_or m (nmul Ops (ipre o) yi)) as [P|P]; rewrite P in C; [now left|].
        right. exists i. split; [lia|]. exists xi, yi. repeat split; assumption.
    + destruct (IH (S i) m r H) as (A & B & C).
      split; [exact A|]. split.
      * intros k v Hk Hv. destruct (Nat.eq_dec k i) as [->|Hne]; [|apply (B k v); [lia|exact Hv]].
        exfalso. destruct Hv as (xk & yk & Gx & _ & Ga & Gb & _). rewrite Ex in Gx. injection Gx as <-.
        rewrite Ga, Gb in Ein. discriminate.
      * destruct C as [C|(k & Hk & Hv)]; [now left|right; exists k; split; [lia|exact Hv]].
Qed.

Theorem local_extremum_select (o : itab) x1 x2 r : local_extremum Ops pick o x1 x2 = Ok r ->
  exists fl fr i1 i2,
    interpolate Ops o x1 = Ok fl /\ interpolate Ops o x2 = Ok fr /\ locate Ops o x1 = Ok i1 /\ locate Ops o x2 = Ok i2 /\
    below r fl /\ below r fr /\
    (forall k v, (i1 <= k <= S i2)%nat -> inside o x1 x2 k v -> below r v) /\
    (r = fl \/ r = fr \/ exists k, (i1 <= k <= S i2)%nat /\ inside o x1 x2 k r).
Proof.
  unfold local_extremum. destruct (nltb Ops x2 x1); [discriminate|].
  destruct (interpolate Ops o x1) as [fl| | |]; cbn [rbind]; try discriminate.
  destruct (interpolate Ops o x2) as [fr| | |]; cbn [rbind]; try discriminate.
  destruct (locate Ops o x1) as [i1| | |]; cbn [rbind]; try discriminate.
  destruct (locate Ops o x2) as [i2| | |]; cbn [rbind]; try discriminate.
  intros H. destruct (knot_scan_select o x1 x2 _ _ _ r H) as (A & B & C).
  exists fl, fr, i1, i2. repeat split; auto.
  - eapply below_trans; [exact A|apply pick_l].
  - eapply below_trans; [exact A|apply pick_r].
  - intros k v Hk Hv. destruct (le_lt_dec i1 (S i2)); [apply (B k v); [lia|exact Hv]|lia].
  - destruct C as [C|(k & Hk & Hv)].
    + destruct (pick_or fl fr) as [P|P]; rewrite P in C; auto.
    + right. right. exists k. split; [lia|exact Hv].
Qed.
End O.

Section O2.
Context {T : Type} (Ops : NumOps T) (OL : OrdLaws Ops).
Definition nle (a b : T) : Prop := nltb Ops b a = false.      (* a <= b *)
Lemma nle_refl a : nle a a. Proof. apply (ol_irrefl Ops OL). Qed.
Lemma nle_trans a b d : nle a b -> nle b d -> nle a d.
Proof.
  unfold nle. intros H1 H2. destruct (nltb Ops d a) eqn:E; [|reflexivity]. exfalso.
  destruct (ol_total Ops OL a b) as [L|[L|L]].
  - rewrite (ol_trans Ops OL d a b E L) in H2. discriminate.
  - rewrite <- (ol_eq_lt_r Ops OL a b d L) in H2. congruence.
  - congruence.
Qed.
Lemma nmin_l a b : nle (nmin Ops a b) a.
Proof.
  unfold nle, nmin. destruct (nltb Ops b a) eqn:E; [|apply (ol_irrefl Ops OL)].
  destruct (nltb Ops a b) eqn:E2; [|reflexivity]. pose proof (ol_trans Ops OL a b a E2 E) as K.
  rewrite (ol_irrefl Ops OL) in K. discriminate.
Qed.
Lemma nmin_r a b : nle (nmin Ops a b) b.
Proof. unfold nle, nmin. destruct (nltb Ops b a) eqn:E; [apply (ol_irrefl Ops OL)|exact E]. Qed.
Lemma nmin_or a b : nmin Ops a b = a \/ nmin Ops a b = b.
Proof. unfold nmin. destruct (nltb Ops b a); auto. Qed.
Lemma nmax_l a b : nle a (nmax Ops a b).
Proof.
  unfold nle, nmax. destruct (nltb Ops a b) eqn:E; [|apply (ol_irrefl Ops OL)].
  destruct (nltb Ops b a) eqn:E2; [|reflexivity]. pose proof (ol_trans Ops OL a b a E E2) as K.
  rewrite (ol_irrefl Ops OL) in K. discriminate.
Qed.
Lemma nmax_r a b : nle b (nmax Ops a b).
Proof. unfold nle, nmax. destruct (nltb Ops a b) eqn:E; [apply (ol_irrefl Ops OL)|exact E]. Qed.
Lemma nmax_or a b : nmax Ops a b = a \/ nmax Ops a b = b.
Proof. unfold nmax. destruct (nltb Ops a b); auto. Qed.

(** Local_Minimum: r <= every candidate, and r is one of them *)
Theorem local_minimum_select (o : itab) x1 x2 r : local_minimum Ops o x1 x2 = Ok r ->
  exists fl fr i1 i2,
    interpolate Ops o x1 = Ok fl /\ interpolate Ops o x2 = Ok fr /\ locate Ops o x1 = Ok i1 /\ locate Ops o x2 = Ok i2 /\
    nle r fl /\ nle r fr /\
    (forall k v, (i1 <= k <= S i2)%nat -> inside Ops o x1 x2 k v -> nle r v) /\
    (r = fl \/ r = fr \/ exists k, (i1 <= k <= S i2)%nat /\ inside Ops o x1 x2 k r).
Proof.
  apply (local_extremum_select Ops (nmin Ops) nle nle_refl nle_trans nmin_l nmin_r nmin_or).
Qed.
(** Local_Maximum: every candidate <= r, and r is one of them *)
Theorem local_maximum_select (o : itab) x1 x2 r : local_maximum Ops o x1 x2 = Ok r ->
  exists fl fr i1 i2,
    interpolate Ops o x1 = Ok fl /\ interpolate Ops o x2 = Ok fr /\ locate Ops o x1 = Ok i1 /\ locate Ops o x2 = Ok i2 /\
    nle fl r /\ nle fr r /\
    (forall k v, (i1 <= k <= S i2)%nat -> inside Ops o x1 x2 k v -> nle v r) /\
    (r = fl \/ r = fr \/ exists k, (i1 <= k <= S i2)%nat /\ inside Ops o x1 x2 k r).
Proof.
  apply (local_extremum_select Ops (nmax Ops) (fun a b => nle b a) nle_refl (fun a b d H1 H2 => nle_trans d b a H2 H1) nmax_l nmax_r nmax_or).
Qed.
End O2.

(** ** 4c. The statements as they appear in Properties_C08.v (conjunctions of the above) *)
Section Packed.
Variables xs ys : list R.
Hypothesis HV : valid_table xs ys.
Notation N := (length xs).
Notation X i := (nth i xs 0).
Notation dom x := (X 0 <= x <= X (N - 1)).
Notation acc x := (X 0 - tolL xs < x < X (N - 1) + tolR xs).

Theorem prefactor_scaling_1d c :
  (forall a b, dom a -> dom b -> integral_value c xs ys a b = c * integral_value 1 xs ys a b) /\
  (exists mn mx mn1 mx1,
    global_minimum ROps (ptab c xs ys) = Ok mn /\ global_maximum ROps (ptab c xs ys) = Ok mx /\
    global_minimum ROps (tab xs ys) = Ok mn1 /\ global_maximum ROps (tab xs ys) = Ok mx1 /\
    (0 <= c -> mn = c * mn1 /\ mx = c * mx1) /\ (c <= 0 -> mn = c * mx1 /\ mx = c * mn1)).
Proof. split; [exact (integrate_scales xs ys HV c)|exact (global_extrema_scale xs ys HV c)]. Qed.

Theorem accepted_limits c :
  (forall x, acc x -> interpolate ROps (ptab c xs ys) x = Ok (pcurve c xs ys x)) /\
  (forall x1 x2, acc x1 -> acc x2 -> exists I, integrate ROps (ptab c xs ys) x1 x2 = Ok I /\ is_RInt (pcurve c xs ys) x1 x2 I).
Proof. split; [exact (interpolate_ptab_zone xs ys HV c)|exact (integrate_accepted xs ys HV c)]. Qed.

Theorem integrate_laws_accepted_limits c :
  (forall a b d, acc a -> acc b -> acc d -> integral_value c xs ys a b + integral_value c xs ys b d = integral_value c xs ys a d) /\
  (forall a b, acc a -> acc b -> integral_value c xs ys b a = - integral_value c xs ys a b) /\
  (forall a x, acc a -> acc x -> is_derive (fun t => integral_value c xs ys a t) x (pcurve c xs ys x)).
Proof.
  split; [exact (integrate_additive_zone xs ys HV c)|].
  split; [exact (integrate_antisymmetric_zone xs ys HV c)|exact (integrate_derivative_upper_zone xs ys HV c)].
Qed.

Theorem rejected_limits c x1 x2 : ~ acc x1 \/ ~ acc x2 ->
  integrate ROps (ptab c xs ys) x1 x2 = Exit /\ forall pick, local_extremum ROps pick (ptab c xs ys) x1 x2 = Exit.
Proof. intros H. split; [exact (integrate_rejected xs ys HV c x1 x2 H)|intros pick; exact (local_extremum_rejected xs ys HV c pick x1 x2 H)]. Qed.
End Packed.

(** ** 5. Non-vacuity: the table of C08_example has accepted limits in both zones, nested windows, and a reversed pair *)
Example C08_more_example :
  let xs := [0; 1; 3; 4] in let ys := [0; 2; 1; 1] in
  valid_table xs ys /\
  (nth 0 xs 0 - tolL xs < -1/200 < nth (length xs - 1) xs 0 + tolR xs) /\
  (nth 0 xs 0 - tolL xs < 4 + 1/200 < nth (length xs - 1) xs 0 + tolR xs) /\
  ~ (nth 0 xs 0 - tolL xs < -1/50 < nth (length xs - 1) xs 0 + tolR xs) /\
  (nth 0 xs 0 <= 1/2 <= nth (length xs - 1) xs 0) /\ (nth 0 xs 0 <= 7/2 <= nth (length xs - 1) xs 0) /\
  1/2 <= 1 /\ 1 <= 2 /\ 2 <= 7/2 /\ nltb ROps (1/2) (7/2) = true.
Proof.
  cbv zeta. split; [exact valid_table_example|]. unfold tolL, tolR. cbn [length Nat.sub nth].
  repeat split; try lra. cbn. destruct (Rltb_spec (1/2) (7/2)); [reflexivity|lra].
Qed.

(** the hypothesis of the selection theorems is satisfiable: a query on a real table under a negative prefactor returns a value *)
Example C08_select_example :
  OrdLaws ROps /\ exists r, local_minimum ROps (ptab (-6) [0; 1; 3; 4] [0; 2; 1; 1]) (1/2) (7/2) = Ok r.
Proof.
  split; [exact ROps_OrdLaws|].
  destruct (local_minimum_spec [0; 1; 3; 4] [0; 2; 1; 1] valid_table_example (-6) (1/2) (7/2)) as (r & E & _);
    [cbn [length Nat.sub nth]; lra..|]. now exists r.
Qed.
