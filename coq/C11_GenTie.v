(** * C11 T-tie: Sign(double) and Sign(double,double) of src/Special_Functions.cpp, regenerated from the source on every run
    of the check (Gen_C11_Formulas.v, tools/cxx2gallina.py), are the terms [sign1] / [sign2] (coq/Num.v) with which the model
    of the 1-D minimisers is written: Bracket's denominator 2.0*Sign(max(|q-r|,TINY), q-r) ([bracket_u]) and Brent's minimal
    steps Sign(tol1, xm-x), Sign(tol1, d) ([brent_trial]).  They are the only callees of Bracket / Brent::Minimize besides
    std::fabs / std::max and the objective, and the only straight-line functions in C11's anchors (everything else is a loop).

    The generated terms spell the source literals 0.0 and -1.0 as [nlit Ops 0 1 0 0] and [nneg (nlit Ops 1 1 1 0)]; Num.v writes
    [n0 Ops] and [nneg (n1 Ops)].  They agree in every instance in which these two literals are the constants 0 and 1 ([Lit01];
    proved for the reals; in the double instance nlit _ _ m e is m*2^e, i.e. 0.0 and 1.0).  A change of a comparison, a branch,
    a returned constant or the operand order in one of the two C++ functions changes the generated term and breaks a lemma
    below before any case is run. *)
From Coq Require Import ZArith Bool Reals Lra.
From LP Require Import Num NumR C11_Model Gen_C11_Formulas.
Local Open Scope Z_scope.

Definition Lit01 {T : Type} (Ops : NumOps T) : Prop :=
  nlit Ops 0 1 0 0 = n0 Ops /\ nlit Ops 1 1 1 0 = n1 Ops.

Lemma gen_Sign_is_model {T : Type} (Ops : NumOps T) : Lit01 Ops -> forall x, g_Sign Ops x = sign1 Ops x.
Proof. intros [L0 _] x. unfold g_Sign, sign1, ngtb. rewrite L0. reflexivity. Qed.

Lemma gen_Sign2_is_model {T : Type} (Ops : NumOps T) : Lit01 Ops -> forall x y, g_Sign2 Ops x y = sign2 Ops x y.
Proof.
  intros L x y. unfold g_Sign2, sign2. rewrite !(gen_Sign_is_model Ops L). destruct L as [_ L1]. rewrite L1. reflexivity.
Qed.

Lemma ROps_Lit01 : Lit01 ROps.
Proof. split; cbn; lra. Qed.

(** the two use sites in the model, written with the generated function *)
Lemma bracket_u_with_generated_Sign {T : Type} (Ops : NumOps T) : Lit01 Ops -> forall ax bx cx fa fb fc,
  bracket_u Ops (mkBrk ax bx cx fa fb fc) =
  let r := nmul Ops (nsub Ops bx ax) (nsub Ops fb fc) in
  let q := nmul Ops (nsub Ops bx cx) (nsub Ops fb fa) in
  nsub Ops bx (ndiv Ops (nsub Ops (nmul Ops (nsub Ops bx cx) q) (nmul Ops (nsub Ops bx ax) r))
                        (nmul Ops (two Ops) (g_Sign2 Ops (nmax Ops (nabs Ops (nsub Ops q r)) (tiny20 Ops)) (nsub Ops q r)))).
Proof. intros L ax bx cx fa fb fc. cbv zeta. rewrite (gen_Sign2_is_model Ops L). reflexivity. Qed.
