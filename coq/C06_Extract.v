From Coq Require Import Extraction ExtrOcamlBasic ZArith List.
From LP Require Import Num C06_Model C06_Model2.
Extraction Language OCaml.
Extraction "C06_m.ml" fact_init factorial_step factorial_run binomial_step binomial gammaln gamma
  find_epsilon asr integrate panel_loop gammaq_int gammap_ser gammaq_cf gammaq gammap
  upper_incomplete_gamma lower_incomplete_gamma inv_gammap inv_gammaq asr_w integrate_w panel_loop_w gammaq_int_w call_step call_fresh call_run Z.of_nat Z.to_nat.
