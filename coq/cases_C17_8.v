From Coq Require Import Reals Lra.
From Coquelicot Require Import Coquelicot.
From Interval Require Import Tactic.
From LP Require Import NumR C17_Defs.
Open Scope R_scope.
Lemma s3_8 : Rabs (dawson_def (IZR (8322652111380677) * powerRZ 2 (-53)) - (IZR (4873292636698655) * powerRZ 2 (-53))) <= 2 / 10000000.
Proof. unfold dawson_def. integral with (i_prec 60). Qed.
Lemma s3_18 : Rabs (dawson_def (IZR (8759801624757915) * powerRZ 2 (-55)) - (IZR (8422609851790111) * powerRZ 2 (-55))) <= 2 / 10000000.
Proof. unfold dawson_def. integral with (i_prec 60). Qed.
Lemma s3_28 : Rabs (dawson_def (IZR (1801439665680927) * powerRZ 2 (-53)) - (IZR (7016644457042675) * powerRZ 2 (-55))) <= 2 / 10000000.
Proof. unfold dawson_def. integral with (i_prec 60). Qed.
Lemma s3_38 : Rabs (dawson_def (IZR (-2355493834233647) * powerRZ 2 (-50)) - (IZR (-2552141901757319) * powerRZ 2 (-53))) <= 2 / 10000000.
Proof. unfold dawson_def. integral with (i_prec 60). Qed.
Lemma s3_48 : Rabs ((IZR (6337145128941327) * powerRZ 2 (482)) - erfi_def (IZR (2721789227651461) * powerRZ 2 (-47))) <= 1 / 1000000 * Rabs (erfi_def (IZR (2721789227651461) * powerRZ 2 (-47))).
Proof. apply rel_error_from_enclosure; [lra|interval|]. unfold erfi_def. split; integral with (i_prec 80). Qed.
Lemma s3_58 : Rerf ((IZR (7297236868143975) * powerRZ 2 (-54)) - 1 / 10000) < (IZR (975626348290921) * powerRZ 2 (-51)) < Rerf ((IZR (7297236868143975) * powerRZ 2 (-54)) + 1 / 10000).
Proof. unfold Rerf. split; integral with (i_prec 80). Qed.
