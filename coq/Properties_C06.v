(** C06 — gamma-function family: property theorems only.  Each is closed by [exact] of a lemma proved in
    C06_Proofs_Fact.v / C06_Proofs_Gamma.v / C06_Proofs_QInt.v.  The model (C06_Model.v) is the term that is
    extracted and run against src/Special_Functions.cpp on every check.

    NOT theorems (see checks/C06.py, LEVEL_TEXT): accuracy of GammaLn (Lanczos), of the truncated series /
    continued fraction / quadrature against the true Gamma, P, Q for all (x,a); monotonicity in x; the range
    [0,1] for a <= 100 in floating point; convergence of the Halley iteration of Inv_GammaP; Binomial_Coefficient for
    n > 170.  They are covered by kernel-certified samples (S3) and implementation-side predicates (S4). *)
From Coq Require Import Reals ZArith List Bool.
From Coquelicot Require Import Coquelicot.
From LP Require Import Num NumR C06_Model C06_Proofs_Fact C06_Proofs_Gamma C06_Proofs_QInt C06_Proofs_Seq C06_Proofs_Examples.
(* C06_Proofs_Examples.v: concrete inputs satisfying the hypotheses of the implications below (non-vacuity) *)
Import ListNotations.
Local Open Scope bool_scope.
Local Open Scope R_scope.

(** "all n<=170 for Factorial in every call order (the memo table grows on demand)": for EVERY history of calls, starting
    from FactorialList = {1.0}, each call with 0 <= n <= 170 answers n!, each other call exits, and the table afterwards
    is non-empty with entry k equal to k!.  Over the reals ... *)
Theorem C06_factorial_any_history (ns : list Z) :
  let '(tbl, os) := factorial_run ROps (fact_init ROps) ns in
  Forall2 (fun n o => if ((0 <=? n) && (n <=? 170))%Z then o = Ok (INR (fact (Z.to_nat n))) else o = Exit) ns os /\
  (1 <= length tbl)%nat /\ (forall k, (k < length tbl)%nat -> nth k tbl 0 = INR (fact k)).
Proof. exact (factorial_any_history_R ns). Qed.
Print Assumptions C06_factorial_any_history.

(** ... and exactly over the integers (the same model term instantiated with Z arithmetic). *)
Theorem C06_factorial_any_history_exact (ns : list Z) :
  let '(tbl, os) := factorial_run ZOps (fact_init ZOps) ns in
  Forall2 (fun n o => if ((0 <=? n) && (n <=? 170))%Z then o = Ok (Z.of_nat (fact (Z.to_nat n))) else o = Exit) ns os /\
  (1 <= length tbl)%nat /\ (forall k, (k < length tbl)%nat -> nth k tbl 0%Z = Z.of_nat (fact k)).
Proof. exact (factorial_any_history_Z ns). Qed.
Print Assumptions C06_factorial_any_history_exact.

(** One call from ANY table satisfying the invariant: answers n!, keeps the invariant, only appends to the table (it never
    shrinks) up to max(size, n+1) entries; an argument above 170 exits and leaves the table untouched. *)
Theorem C06_factorial_any_table (tbl : list R) (n : Z) : tbl_inv_R tbl ->
  (0 <= n <= 170 ->
     snd (factorial_step ROps tbl n) = Ok (INR (fact (Z.to_nat n))) /\
     tbl_inv_R (fst (factorial_step ROps tbl n)) /\
     (exists ext, fst (factorial_step ROps tbl n) = tbl ++ ext) /\
     length (fst (factorial_step ROps tbl n)) = Nat.max (length tbl) (Z.to_nat n + 1))%Z /\
  (n < 0 \/ 170 < n -> factorial_step ROps tbl n = (tbl, Exit))%Z.
Proof. exact (factorial_step_any_table tbl n). Qed.
Print Assumptions C06_factorial_any_table.

(** "n! = n*(n-1)!" on the answers, whatever tables the two calls find. *)
Theorem C06_factorial_recurrence (t1 t2 : list R) (n : Z) : tbl_inv_R t1 -> tbl_inv_R t2 -> (1 <= n <= 170)%Z ->
  exists f g, snd (factorial_step ROps t1 n) = Ok f /\ snd (factorial_step ROps t2 (n - 1)) = Ok g /\ f = IZR n * g.
Proof. exact (factorial_recurrence t1 t2 n). Qed.
Print Assumptions C06_factorial_recurrence.

(** Binomial_Coefficient(n,k) for 0 <= k <= n <= 170 is exactly C(n,k) = n!/(k!(n-k)!) (floor(1/2 + integer) = integer). *)
Theorem C06_binomial_exact (n k : Z) : (0 <= k <= n)%Z -> (n <= 170)%Z ->
  binomial ROps n k = Ok (INR (binom (Z.to_nat n) (Z.to_nat k))) /\
  INR (binom (Z.to_nat n) (Z.to_nat k)) = INR (fact (Z.to_nat n)) / INR (fact (Z.to_nat k)) / INR (fact (Z.to_nat n - Z.to_nat k)).
Proof. exact (binomial_exact_full n k). Qed.
Print Assumptions C06_binomial_exact.

(** ... from whatever state an earlier history left the factorial table in. *)
Theorem C06_binomial_history_free (tbl : list R) (n k : Z) : tbl_inv_R tbl -> (n <= 170)%Z ->
  snd (binomial_step ROps tbl n k) = binomial ROps n k.
Proof. exact (binomial_history_free tbl n k). Qed.
Print Assumptions C06_binomial_history_free.

(** Pascal's rule *)
Theorem C06_binomial_pascal (n k : Z) : (1 <= k <= n)%Z -> (n <= 170)%Z ->
  exists b b1 b2, binomial ROps n k = Ok b /\ binomial ROps (n - 1) (k - 1) = Ok b1 /\
                  binomial ROps (n - 1) k = Ok b2 /\ b = b1 + b2.
Proof. exact (binomial_pascal n k). Qed.
Print Assumptions C06_binomial_pascal.

(** symmetry *)
Theorem C06_binomial_symmetry (n k : Z) : (0 <= k <= n)%Z -> (n <= 170)%Z ->
  binomial ROps n k = binomial ROps n (n - k).
Proof. exact (binomial_symmetry n k). Qed.
Print Assumptions C06_binomial_symmetry.

(** n < k gives 0, a negative argument exits *)
Theorem C06_binomial_guards (tbl : list R) (n k : Z) :
  ((0 <= n < k)%Z -> binomial_step ROps tbl n k = (tbl, Ok 0)) /\
  ((k < 0 \/ n < 0)%Z -> binomial_step ROps tbl n k = (tbl, Exit)).
Proof. exact (conj (binomial_lt tbl n k) (binomial_negative tbl n k)). Qed.
Print Assumptions C06_binomial_guards.

(** Quantifier "over inputs AND histories": in every history of calls to the family in one process (GammaLn, Gamma, GammaP/Q, Upper/Lower,
    Inv_GammaP/Q, Factorial, Binomial_Coefficient with any arguments, started from FactorialList = {1.0}) each call gets exactly the answer
    a fresh process gives to the same call (call_run pairs the two answers; this is the term the "seq" cases run against the C++). *)
Theorem C06_call_history_independent (cs : list call) :
  List.Forall (fun hf => fst hf = snd hf) (snd (call_run ROps (fact_init ROps) cs)) /\
  length (snd (call_run ROps (fact_init ROps) cs)) = length cs.
Proof. exact (call_history_independent cs). Qed.
Print Assumptions C06_call_history_independent.

(** ... in particular the same call made twice, with any calls before and in between, is answered identically. *)
Theorem C06_call_repeatable (c : call) (before between : list call) :
  let t1 := fst (call_run ROps (fact_init ROps) before) in
  let '(t2, o1) := call_step ROps t1 c in
  let t3 := fst (call_run ROps t2 between) in
  snd (call_step ROps t3 c) = o1.
Proof. exact (call_repeatable c before between). Qed.
Print Assumptions C06_call_repeatable.

(** ... and a call answered through a short path leaves nothing behind: every call except Factorial and the Factorial branch of
    Binomial_Coefficient (0 <= k <= n <= 170) leaves the process state exactly as it found it - Binomial_Coefficient(n,k) with k > n
    (answered 0), with n > 170 or with a negative argument included, and the inverses whatever path they take. *)
Theorem C06_call_leaves_no_trace (tbl : list R) (c : call) :
  match c with
  | CFact _ => True
  | CBinom n k => (k < 0 \/ n < 0 \/ n < k \/ 170 < n)%Z -> fst (call_step ROps tbl c) = tbl
  | _ => fst (call_step ROps tbl c) = tbl
  end.
Proof. exact (call_leaves_no_trace tbl c). Qed.
Print Assumptions C06_call_leaves_no_trace.

(** Inv_GammaP's Halley loop answers 0 at once when the iterate at its test is <= 0 (the initial guess (p/t)^(1/a) underflows to 0
    for small a and small p: the solution is below the smallest double). *)
Theorem C06_inverse_underflow_returns_zero (p a gln a1 lna1 afac x : R) (n : nat) : x <= 0 ->
  halley ROps p a gln a1 lna1 afac (S n) x = Ok 0.
Proof. exact (halley_nonpos_returns_zero p a gln a1 lna1 afac x n). Qed.
Print Assumptions C06_inverse_underflow_returns_zero.

(** "P and Q ... sum to one" *)
Theorem C06_p_plus_q (x a p q : R) : gammap ROps x a = Ok p -> gammaq ROps x a = Ok q -> p + q = 1.
Proof. exact (p_plus_q x a p q). Qed.
Print Assumptions C06_p_plus_q.

(** "Upper plus Lower incomplete gamma equals Gamma" *)
Theorem C06_upper_plus_lower (x s u l : R) :
  upper_incomplete_gamma ROps x s = Ok u -> lower_incomplete_gamma ROps x s = Ok l ->
  exists g, gamma ROps s = Ok g /\ u + l = g.
Proof. exact (upper_plus_lower x s u l). Qed.
Print Assumptions C06_upper_plus_lower.

(** Q(0,a) = 1, P(0,a) = 0; x < 0 or a <= 0 exits *)
Theorem C06_gammaq_at_zero (a : R) : 0 < a -> gammaq ROps 0 a = Ok 1 /\ gammap ROps 0 a = Ok 0.
Proof. exact (fun H => conj (gammaq_at_zero a H) (gammap_at_zero a H)). Qed.
Print Assumptions C06_gammaq_at_zero.

Theorem C06_gammaq_guard (x a : R) : x < 0 \/ a <= 0 -> gammaq ROps x a = Exit.
Proof. exact (gammaq_guard x a). Qed.
Print Assumptions C06_gammaq_guard.

(** "the algorithm switch-overs at x=a+1 and a=100": which method answers where *)
Theorem C06_gammaq_branches (x a : R) : 0 < x -> 0 < a ->
  (100 < a -> gammaq ROps x a = gammaq_int ROps x a) /\
  (a <= 100 -> x < a + 1 -> gammaq ROps x a = rmap (fun p => 1 - p) (gammap_ser ROps x a)) /\
  (a <= 100 -> a + 1 <= x -> gammaq ROps x a = gammaq_cf ROps x a).
Proof. exact (gammaq_branches x a). Qed.
Print Assumptions C06_gammaq_branches.

(** "P and Q lie in [0,1]" on the quadrature branch (a > 100): whatever the quadrature returns, the result is a probability. *)
Theorem C06_gammaq_int_range (x a q : R) : gammaq_int ROps x a = Ok q -> 0 <= q <= 1.
Proof. exact (gammaq_int_range x a q). Qed.
Print Assumptions C06_gammaq_int_range.

(** GammaPser: the value returned is (sum_{j<=k} x^j/(a(a+1)...(a+j))) exp(-x + a ln x - GammaLn a) where k is the first index
    with |term_k| <= |sum_k| 2^-52. *)
Theorem C06_gser_partial_sums (x a v : R) : 0 < a -> gammap_ser ROps x a = Ok v ->
  exists k gln, gammaln ROps a = Ok gln /\ (Z.of_nat k <= 100000)%Z /\
    v = sum_f_R0 (fun j => x ^ j / rising a j) k * exp (- x + a * ln x - gln) /\
    Rabs (x ^ k / rising a k) <= Rabs (sum_f_R0 (fun j => x ^ j / rising a j) k) * dbl_eps ROps /\
    forall j, (j < k)%nat -> Rabs (sum_f_R0 (fun j => x ^ j / rising a j) j) * dbl_eps ROps < Rabs (x ^ j / rising a j).
Proof. exact (gser_partial_sums x a v). Qed.
Print Assumptions C06_gser_partial_sums.

(** lentz_is_convergent (DESIGN section 6): with b_i = x+2i+1-a, a_i = -i(i-a) and the two solutions A, Bt of
    U_i = b_i U_{i-1} + a_i U_{i-2} started from (A_{-1},A_0) = (1,b_0) and (Bt_{-1},Bt_0) = (FPMIN,1), the loop state of GammaQcf
    after n iterations is i = n+1, b = b_n, d = A_{n-1}/A_n, c = Bt_n/Bt_{n-1}, h = Bt_n/A_n, as long as no clamp triggers. *)
Theorem C06_lentz_is_convergent (x a : R) : x + 1 - a <> 0 -> forall n,
  (forall k, (k < n)%nat -> lentz_noclamp a (lentz_run x a k)) ->
  let s := lentz_run x a n in
  lz_i s = (Z.of_nat n + 1)%Z /\ lz_b s = cf_b x a n /\ cf_A x a n <> 0 /\ cf_Bt x a n <> 0 /\
  lz_d s = cf_Am x a n / cf_A x a n /\ lz_c s = cf_Bt x a n / cf_Btm x a n /\ lz_h s = cf_Bt x a n / cf_A x a n.
Proof. exact (lentz_is_convergent x a). Qed.
Print Assumptions C06_lentz_is_convergent.

(** Bt is the true numerator sequence (started from (0,1)) plus FPMIN = 2^-970 times the solution started from (1,0). *)
Theorem C06_lentz_seed (x a : R) (n : nat) :
  cf_Bt x a n = cf_B x a n + dbl_fpmin ROps * fst (cf_rec x a 0 1 n).
Proof. exact (cf_Bt_seed x a n). Qed.
Print Assumptions C06_lentz_seed.

(** GammaQcf returns exp(-x + a ln x - GammaLn a) h_n at the first n >= 1 with |del_n - 1| <= 2^-52, and h_n = Bt_n/A_n
    when no clamp triggered. *)
Theorem C06_gammaq_cf_spec (x a v : R) : gammaq_cf ROps x a = Ok v ->
  exists n gln, gammaln ROps a = Ok gln /\ (1 <= Z.of_nat n <= 100000)%Z /\
    v = exp (- x + a * ln x - gln) * lz_h (lentz_run x a n) /\
    Rabs (lz_del (lentz_run x a n) - 1) <= dbl_eps ROps /\
    (x + 1 - a <> 0 -> (forall k, (k < n)%nat -> lentz_noclamp a (lentz_run x a k)) ->
       v = exp (- x + a * ln x - gln) * (cf_Bt x a n / cf_A x a n)).
Proof. exact (gammaq_cf_spec x a v). Qed.
Print Assumptions C06_gammaq_cf_spec.

(** Reference identity of the certified samples: for integer a = n+1 the closed form e^-x sum_{k<=n} x^k/k! IS
    Q(x,n+1) = 1 - (1/Gamma(n+1)) RInt_0^x t^n e^-t dt with Gamma(n+1) = n!. *)
Theorem C06_q_integer_closed_form (n : nat) (x : R) :
  exp (- x) * sum_f_R0 (fun k => x ^ k / INR (fact k)) n
  = 1 - / INR (fact n) * RInt (fun t => t ^ n * exp (- t)) 0 x.
Proof. exact (q_integer_closed_form n x). Qed.
Print Assumptions C06_q_integer_closed_form.
