(** C06 — gamma-function family: property theorems only.  Each is closed by [exact] of a lemma proved in
    C06_Proofs_Fact.v / C06_Proofs_Gamma.v / C06_Proofs_QInt.v / C06_Proofs_Seq.v (first part) and C06_Proofs_Quad.v / C06_Proofs_Inv.v /
    C06_Proofs_Ser.v / C06_Proofs_Lanczos*.v (second part).  The model (C06_Model.v) is the term that is
    extracted and run against src/Special_Functions.cpp on every check.

    NOT theorems (see checks/C06.py, LEVEL_TEXT): accuracy of GammaLn (Lanczos) at non-integer arguments, of the continued
    fraction / quadrature (and of the series at non-integer shapes) against the true P, Q for all (x,a); monotonicity in x; the
    range [0,1] for a <= 100 in floating point (over the reals Q > 0 on the continued-fraction region and Q < 1 on the series region ARE theorems:
    C06_regions_unconditional); termination of the continued-fraction loop; convergence of the Halley iteration of Inv_GammaP; Pascal's rule for
    Binomial_Coefficient with n > 170; everything about rounding (the theorems are over the reals).  They are covered by
    kernel-certified samples (S3) and implementation-side predicates (S4). *)
From Coq Require Import Reals ZArith List Bool.
From Coquelicot Require Import Coquelicot.
From LP Require Import Num NumR C06_Model C06_Proofs_Fact C06_Proofs_Gamma C06_Proofs_QInt C06_Proofs_Seq C06_Proofs_Quad C06_Proofs_Inv
  C06_Proofs_Ser C06_Proofs_Lanczos0 C06_Proofs_Lanczos C06_Proofs_Examples C06_Proofs_Region C06_Proofs_IntShape
  OrdLaws C06_Model2 C06_Proofs_AnyArith C06_Proofs_Warn C06_Proofs_WarnR Gen_C06_Formulas C06_GenTie.
(* C06_Proofs_Examples.v: concrete inputs satisfying the hypotheses of the implications below (non-vacuity) *)
Import ListNotations.
Local Open Scope bool_scope.
Local Open Scope R_scope.

(** "all n<=170 for Factorial in every call order (the memo table grows on demand)": for EVERY history of calls, starting
    from FactorialList = {1.0}, each call with 0 <= n <= 170 answers n!, each other call exits, and the table afterwards
    is non-empty with entry k equal to k!.  Over the reals ... *)
Theorem C06_factorial_any_history (ns : list Z) :
  let '(tbl, os) := factorial_run ROps (fact_init ROps) ns in
  Forall2 (fun n o => if ((0 <=? n) && (n <=? 170))%Z then o = Ok (INR (fact (Z.to_nat n))) else o = Exit) ns os /\
  (1 <= length tbl)%nat /\ (forall k, (k < length tbl)%nat -> nth k tbl 0 = INR (fact k)).
Proof. exact (factorial_any_history_R ns). Qed.
Print Assumptions C06_factorial_any_history.

(** ... and exactly over the integers (the same model term instantiated with Z arithmetic). *)
Theorem C06_factorial_any_history_exact (ns : list Z) :
  let '(tbl, os) := factorial_run ZOps (fact_init ZOps) ns in
  Forall2 (fun n o => if ((0 <=? n) && (n <=? 170))%Z then o = Ok (Z.of_nat (fact (Z.to_nat n))) else o = Exit) ns os /\
  (1 <= length tbl)%nat /\ (forall k, (k < length tbl)%nat -> nth k tbl 0%Z = Z.of_nat (fact k)).
Proof. exact (factorial_any_history_Z ns). Qed.
Print Assumptions C06_factorial_any_history_exact.

(** One call from ANY table satisfying the invariant: answers n!, keeps the invariant, only appends to the table (it never
    shrinks) up to max(size, n+1) entries; an argument above 170 exits and leaves the table untouched. *)
Theorem C06_factorial_any_table (tbl : list R) (n : Z) : tbl_inv_R tbl ->
  (0 <= n <= 170 ->
     snd (factorial_step ROps tbl n) = Ok (INR (fact (Z.to_nat n))) /\
     tbl_inv_R (fst (factorial_step ROps tbl n)) /\
     (exists ext, fst (factorial_step ROps tbl n) = tbl ++ ext) /\
     length (fst (factorial_step ROps tbl n)) = Nat.max (length tbl) (Z.to_nat n + 1))%Z /\
  (n < 0 \/ 170 < n -> factorial_step ROps tbl n = (tbl, Exit))%Z.
Proof. exact (factorial_step_any_table tbl n). Qed.
Print Assumptions C06_factorial_any_table.

(** "n! = n*(n-1)!" on the answers, whatever tables the two calls find. *)
Theorem C06_factorial_recurrence (t1 t2 : list R) (n : Z) : tbl_inv_R t1 -> tbl_inv_R t2 -> (1 <= n <= 170)%Z ->
  exists f g, snd (factorial_step ROps t1 n) = Ok f /\ snd (factorial_step ROps t2 (n - 1)) = Ok g /\ f = IZR n * g.
Proof. exact (factorial_recurrence t1 t2 n). Qed.
Print Assumptions C06_factorial_recurrence.

(** Binomial_Coefficient(n,k) for 0 <= k <= n <= 170 is exactly C(n,k) = n!/(k!(n-k)!) (floor(1/2 + integer) = integer). *)
Theorem C06_binomial_exact (n k : Z) : (0 <= k <= n)%Z -> (n <= 170)%Z ->
  binomial ROps n k = Ok (INR (binom (Z.to_nat n) (Z.to_nat k))) /\
  INR (binom (Z.to_nat n) (Z.to_nat k)) = INR (fact (Z.to_nat n)) / INR (fact (Z.to_nat k)) / INR (fact (Z.to_nat n - Z.to_nat k)).
Proof. exact (binomial_exact_full n k). Qed.
Print Assumptions C06_binomial_exact.

(** ... from whatever state an earlier history left the factorial table in. *)
Theorem C06_binomial_history_free (tbl : list R) (n k : Z) : tbl_inv_R tbl -> (n <= 170)%Z ->
  snd (binomial_step ROps tbl n k) = binomial ROps n k.
Proof. exact (binomial_history_free tbl n k). Qed.
Print Assumptions C06_binomial_history_free.

(** Pascal's rule and symmetry (one statement: the former C06_binomial_pascal and C06_binomial_symmetry) *)
Theorem C06_binomial_pascal_symmetry (n k : Z) : (n <= 170)%Z ->
  ((1 <= k <= n)%Z ->
     exists b b1 b2, binomial ROps n k = Ok b /\ binomial ROps (n - 1) (k - 1) = Ok b1 /\
                     binomial ROps (n - 1) k = Ok b2 /\ b = b1 + b2) /\
  ((0 <= k <= n)%Z -> binomial ROps n k = binomial ROps n (n - k)).
Proof. exact (fun Hn => conj (fun H => binomial_pascal n k H Hn) (fun H => binomial_symmetry n k H Hn)). Qed.
Print Assumptions C06_binomial_pascal_symmetry.

(** n < k gives 0, a negative argument exits *)
Theorem C06_binomial_guards (tbl : list R) (n k : Z) :
  ((0 <= n < k)%Z -> binomial_step ROps tbl n k = (tbl, Ok 0)) /\
  ((k < 0 \/ n < 0)%Z -> binomial_step ROps tbl n k = (tbl, Exit)).
Proof. exact (conj (binomial_lt tbl n k) (binomial_negative tbl n k)). Qed.
Print Assumptions C06_binomial_guards.

(** Quantifier "over inputs AND histories": in every history of calls to the family in one process (GammaLn, Gamma, GammaP/Q, Upper/Lower,
    Inv_GammaP/Q, Factorial, Binomial_Coefficient with any arguments, started from FactorialList = {1.0}) each call gets exactly the answer
    a fresh process gives to the same call (call_run pairs the two answers; this is the term the "seq" cases run against the C++). *)
Theorem C06_call_history_independent (cs : list call) :
  List.Forall (fun hf => fst hf = snd hf) (snd (call_run ROps (fact_init ROps) cs)) /\
  length (snd (call_run ROps (fact_init ROps) cs)) = length cs.
Proof. exact (call_history_independent cs). Qed.
Print Assumptions C06_call_history_independent.

(** ... in particular the same call made twice, with any calls before and in between, is answered identically. *)
Theorem C06_call_repeatable (c : call) (before between : list call) :
  let t1 := fst (call_run ROps (fact_init ROps) before) in
  let '(t2, o1) := call_step ROps t1 c in
  let t3 := fst (call_run ROps t2 between) in
  snd (call_step ROps t3 c) = o1.
Proof. exact (call_repeatable c before between). Qed.
Print Assumptions C06_call_repeatable.

(** ... and a call answered through a short path leaves nothing behind: every call except Factorial and the Factorial branch of
    Binomial_Coefficient (0 <= k <= n <= 170) leaves the process state exactly as it found it - Binomial_Coefficient(n,k) with k > n
    (answered 0), with n > 170 or with a negative argument included, and the inverses whatever path they take. *)
Theorem C06_call_leaves_no_trace (tbl : list R) (c : call) :
  match c with
  | CFact _ => True
  | CBinom n k => (k < 0 \/ n < 0 \/ n < k \/ 170 < n)%Z -> fst (call_step ROps tbl c) = tbl
  | _ => fst (call_step ROps tbl c) = tbl
  end.
Proof. exact (call_leaves_no_trace tbl c). Qed.
Print Assumptions C06_call_leaves_no_trace.

(** Inv_GammaP's Halley loop answers 0 at once when the iterate at its test is <= 0 (the initial guess (p/t)^(1/a) underflows to 0
    for small a and small p: the solution is below the smallest double). *)
Theorem C06_inverse_underflow_returns_zero (p a gln a1 lna1 afac x : R) (n : nat) : x <= 0 ->
  halley ROps p a gln a1 lna1 afac (S n) x = Ok 0.
Proof. exact (halley_nonpos_returns_zero p a gln a1 lna1 afac x n). Qed.
Print Assumptions C06_inverse_underflow_returns_zero.

(** "P and Q ... sum to one" *)
Theorem C06_p_plus_q (x a p q : R) : gammap ROps x a = Ok p -> gammaq ROps x a = Ok q -> p + q = 1.
Proof. exact (p_plus_q x a p q). Qed.
Print Assumptions C06_p_plus_q.

(** "Upper plus Lower incomplete gamma equals Gamma" *)
Theorem C06_upper_plus_lower (x s u l : R) :
  upper_incomplete_gamma ROps x s = Ok u -> lower_incomplete_gamma ROps x s = Ok l ->
  exists g, gamma ROps s = Ok g /\ u + l = g.
Proof. exact (upper_plus_lower x s u l). Qed.
Print Assumptions C06_upper_plus_lower.

(** Q(0,a) = 1, P(0,a) = 0; x < 0 or a <= 0 exits (one statement: the former C06_gammaq_at_zero and C06_gammaq_guard) *)
Theorem C06_gammaq_at_zero_and_guard :
  (forall a : R, 0 < a -> gammaq ROps 0 a = Ok 1 /\ gammap ROps 0 a = Ok 0) /\
  (forall x a : R, x < 0 \/ a <= 0 -> gammaq ROps x a = Exit).
Proof. exact (conj (fun a H => conj (gammaq_at_zero a H) (gammap_at_zero a H)) gammaq_guard). Qed.
Print Assumptions C06_gammaq_at_zero_and_guard.

(** "the algorithm switch-overs at x=a+1 and a=100": which method answers where *)
Theorem C06_gammaq_branches (x a : R) : 0 < x -> 0 < a ->
  (100 < a -> gammaq ROps x a = gammaq_int ROps x a) /\
  (a <= 100 -> x < a + 1 -> gammaq ROps x a = rmap (fun p => 1 - p) (gammap_ser ROps x a)) /\
  (a <= 100 -> a + 1 <= x -> gammaq ROps x a = gammaq_cf ROps x a).
Proof. exact (gammaq_branches x a). Qed.
Print Assumptions C06_gammaq_branches.

(** "P and Q lie in [0,1]" on the quadrature branch (a > 100): whatever the quadrature returns, the result is a probability. *)
Theorem C06_gammaq_int_range (x a q : R) : gammaq_int ROps x a = Ok q -> 0 <= q <= 1.
Proof. exact (gammaq_int_range x a q). Qed.
Print Assumptions C06_gammaq_int_range.

(** GammaPser: the value returned is (sum_{j<=k} x^j/(a(a+1)...(a+j))) exp(-x + a ln x - GammaLn a) where k is the first index
    with |term_k| <= |sum_k| 2^-52. *)
Theorem C06_gser_partial_sums (x a v : R) : 0 < a -> gammap_ser ROps x a = Ok v ->
  exists k gln, gammaln ROps a = Ok gln /\ (Z.of_nat k <= 100000)%Z /\
    v = sum_f_R0 (fun j => x ^ j / rising a j) k * exp (- x + a * ln x - gln) /\
    Rabs (x ^ k / rising a k) <= Rabs (sum_f_R0 (fun j => x ^ j / rising a j) k) * dbl_eps ROps /\
    forall j, (j < k)%nat -> Rabs (sum_f_R0 (fun j => x ^ j / rising a j) j) * dbl_eps ROps < Rabs (x ^ j / rising a j).
Proof. exact (gser_partial_sums x a v). Qed.
Print Assumptions C06_gser_partial_sums.

(** lentz_is_convergent (DESIGN section 6): with b_i = x+2i+1-a, a_i = -i(i-a) and the two solutions A, Bt of
    U_i = b_i U_{i-1} + a_i U_{i-2} started from (A_{-1},A_0) = (1,b_0) and (Bt_{-1},Bt_0) = (FPMIN,1), the loop state of GammaQcf
    after n iterations is i = n+1, b = b_n, d = A_{n-1}/A_n, c = Bt_n/Bt_{n-1}, h = Bt_n/A_n, as long as no clamp triggers. *)
Theorem C06_lentz_is_convergent (x a : R) : x + 1 - a <> 0 -> forall n,
  (forall k, (k < n)%nat -> lentz_noclamp a (lentz_run x a k)) ->
  let s := lentz_run x a n in
  lz_i s = (Z.of_nat n + 1)%Z /\ lz_b s = cf_b x a n /\ cf_A x a n <> 0 /\ cf_Bt x a n <> 0 /\
  lz_d s = cf_Am x a n / cf_A x a n /\ lz_c s = cf_Bt x a n / cf_Btm x a n /\ lz_h s = cf_Bt x a n / cf_A x a n.
Proof. exact (lentz_is_convergent x a). Qed.
Print Assumptions C06_lentz_is_convergent.

(** Bt is the true numerator sequence (started from (0,1)) plus FPMIN = 2^-970 times the solution started from (1,0). *)
Theorem C06_lentz_seed (x a : R) (n : nat) :
  cf_Bt x a n = cf_B x a n + dbl_fpmin ROps * fst (cf_rec x a 0 1 n).
Proof. exact (cf_Bt_seed x a n). Qed.
Print Assumptions C06_lentz_seed.

(** GammaQcf returns exp(-x + a ln x - GammaLn a) h_n at the first n >= 1 with |del_n - 1| <= 2^-52, and h_n = Bt_n/A_n
    when no clamp triggered. *)
Theorem C06_gammaq_cf_spec (x a v : R) : gammaq_cf ROps x a = Ok v ->
  exists n gln, gammaln ROps a = Ok gln /\ (1 <= Z.of_nat n <= 100000)%Z /\
    v = exp (- x + a * ln x - gln) * lz_h (lentz_run x a n) /\
    Rabs (lz_del (lentz_run x a n) - 1) <= dbl_eps ROps /\
    (x + 1 - a <> 0 -> (forall k, (k < n)%nat -> lentz_noclamp a (lentz_run x a k)) ->
       v = exp (- x + a * ln x - gln) * (cf_Bt x a n / cf_A x a n)).
Proof. exact (gammaq_cf_spec x a v). Qed.
Print Assumptions C06_gammaq_cf_spec.

(** Reference identity of the certified samples: for integer a = n+1 the closed form e^-x sum_{k<=n} x^k/k! IS
    Q(x,n+1) = 1 - (1/Gamma(n+1)) RInt_0^x t^n e^-t dt with Gamma(n+1) = n!. *)
Theorem C06_q_integer_closed_form (n : nat) (x : R) :
  exp (- x) * sum_f_R0 (fun k => x ^ k / INR (fact k)) n
  = 1 - / INR (fact n) * RInt (fun t => t ^ n * exp (- t)) 0 x.
Proof. exact (q_integer_closed_form n x). Qed.
Print Assumptions C06_q_integer_closed_form.

(** ------------------------------------------------------------------------------------------------------------------
    Second part: GammaLn / Gamma (domain, recurrence), the series at integer shapes, the quadrature branch, the inverses,
    Binomial_Coefficient for n > 170.
    ------------------------------------------------------------------------------------------------------------------ *)

(** GammaLn, Gamma: x <= 0 exits, x > 0 answers, Gamma = exp(GammaLn) > 0 *)
Theorem C06_gamma_domain (x : R) :
  (x <= 0 -> gammaln ROps x = Exit /\ gamma ROps x = Exit) /\
  (0 < x -> exists g, gammaln ROps x = Ok g /\ gamma ROps x = Ok (exp g) /\ 0 < exp g).
Proof. exact (conj (fun H => conj (proj1 (gammaln_domain x) H) (proj1 (gamma_domain x) H)) (proj2 (gamma_domain x))). Qed.
Print Assumptions C06_gamma_domain.

(** "Gamma(x+1) = x*Gamma(x) ... to a few units in the last place" and "agree with an independent reference", for the Lanczos formula over
    the reals.  (1) GammaLn(x+1) = GammaLn(x) + ln x + d and Gamma(x+1) = x Gamma(x) e^d with |d| <= 1e-14, for EVERY x in [2^-10, 10001]
    (Coq-Interval, Taylor models).  (2) By induction along (1): |GammaLn(n+1) - ln n!| <= (n+1) 1e-14 at EVERY integer n <= 10000, and the factor
    n!/exp(GammaLn(n+1)) = n!/Gamma(n+1) lies within e^(+-(n+1)1e-14).
    _partial: the full statement is for all x > 0, against the true Gamma at every x, and for the rounded evaluation; x < 2^-10, x > 10001,
    non-integer arguments against the true Gamma and the rounding errors of the double evaluation are covered by S3/S4 only. *)
Theorem C06_lanczos_recurrence_partial :
  (forall x : R, 1 / 1024 <= x <= 10001 ->
    exists l1 l0 d, gammaln ROps (x + 1) = Ok l1 /\ gammaln ROps x = Ok l0 /\ l1 = l0 + ln x + d /\
      gamma ROps (x + 1) = Ok (exp l1) /\ gamma ROps x = Ok (exp l0) /\ exp l1 = x * exp l0 * exp d /\ Rabs d <= 1 / 100000000000000) /\
  (forall n : nat, (n <= 10000)%nat ->
    exists gln, gammaln ROps (INR (S n)) = Ok gln /\ Rabs (gln - ln (INR (fact n))) <= INR (S n) * (1 / 100000000000000) /\
      exp (- (INR (S n) * (1 / 100000000000000))) <= INR (fact n) / exp gln <= exp (INR (S n) * (1 / 100000000000000))).
Proof. exact (conj gamma_recurrence lanczos_factor_integer). Qed.
Print Assumptions C06_lanczos_recurrence_partial.

(** The series branch at integer shapes a = q+1, every q, every x > 0, whatever index k the loop stops at: the value GammaPser returns is
    Ptr * (q!/exp(GammaLn a)) where Ptr = e^-x sum_{i=q+1}^{q+1+k} x^i/i! is a truncation of the TRUE P(x,q+1) = (1/q!) RInt_0^x t^q e^-t:
    0 <= Ptr <= P <= 1, the truncation error is e^-x times the remainder of the exponential series, and on GammaQ's series region x < a+1 the
    loop's stopping test bounds it: P - Ptr <= Ptr 2^-52 (q+k+3).  With C06_lanczos_recurrence_partial (2) (the other factor) this is the
    accuracy clause for integer shapes on the series branch over the reals. *)
Theorem C06_gser_integer_shape (q : nat) (x v : R) : 0 < x -> gammap_ser ROps x (INR (S q)) = Ok v ->
  exists k gln, gammaln ROps (INR (S q)) = Ok gln /\ (Z.of_nat k <= 100000)%Z /\
    let P := / INR (fact q) * RInt (fun t => t ^ q * exp (- t)) 0 x in
    let Ptr := exp (- x) * sum_f_R0 (fun j => x ^ (S q + j) / INR (fact (S q + j))) k in
    v = Ptr * (INR (fact q) / exp gln) /\
    0 <= Ptr <= P /\ P <= 1 /\
    P - Ptr = exp (- x) * (exp x - sum_f_R0 (fun i => x ^ i / INR (fact i)) (S q + k)) /\
    (x < INR (S q) + 1 -> P - Ptr <= Ptr * dbl_eps ROps * (INR (S q + k) + 2)).
Proof. exact (gser_integer_shape_integral q x v). Qed.
Print Assumptions C06_gser_integer_shape.

(** Integrate / Adaptive_Simpson_Integration as GammaQint uses them: exact on every cubic polynomial for EVERY recursion depth, tolerance
    and order of the limits (induction on the depth); antisymmetric in its limits for every integrand, and 0 on an empty interval *)
Theorem C06_integrate_laws :
  (forall (c0 c1 c2 c3 a b eps : R) (depth : nat),
     integrate ROps (fun t => c0 + c1 * t + c2 * t ^ 2 + c3 * t ^ 3) a b eps depth =
     (c0 * b + c1 * b ^ 2 / 2 + c2 * b ^ 3 / 3 + c3 * b ^ 4 / 4) - (c0 * a + c1 * a ^ 2 / 2 + c2 * a ^ 3 / 3 + c3 * a ^ 4 / 4)) /\
  (forall (f : R -> R) (a b eps : R) (depth : nat),
     integrate ROps f b a eps depth = - integrate ROps f a b eps depth /\ integrate ROps f a a eps depth = 0).
Proof. exact (conj integrate_cubic (fun f a b eps depth => conj (integrate_swap f a b eps depth) (integrate_empty f a eps depth))). Qed.
Print Assumptions C06_integrate_laws.

(** The panel loop of GammaQint, every integrand, start, width and x: with enough fuel it returns acc + the panels
    [t1 + k w, min(x, t1 + (k+1) w)], k < n, where n is the FIRST index with x <= t1 + n w (adjacent panels, the last one ends at x).
    Refinement to a simple specification: on a cubic integrand panel loop + adaptive Simpson return acc + the exact integral from t1 to x
    (no panel skipped, counted twice or reaching beyond x). *)
Theorem C06_panel_loop_tiles :
  (forall (f : R -> R) (x w : R) (fuel : nat) (t1 acc : R), x - t1 <= INR fuel * w ->
     exists n, (n <= fuel)%nat /\ panel_loop ROps fuel f x w t1 acc = Ok (acc + panels f x w n t1) /\
               x <= t1 + INR n * w /\ forall k, (k < n)%nat -> t1 + INR k * w < x) /\
  (forall (c0 c1 c2 c3 x w : R) (fuel : nat) (t1 acc : R), 0 < w -> t1 <= x -> x - t1 <= INR fuel * w ->
     panel_loop ROps fuel (cub c0 c1 c2 c3) x w t1 acc = Ok (acc + (cubI c0 c1 c2 c3 x - cubI c0 c1 c2 c3 t1))).
Proof. exact (conj panel_loop_spec panel_loop_cubic). Qed.
Print Assumptions C06_panel_loop_tiles.

(** GammaQint(x,a), every a > 0 and x: never exits, never exhausts the model's panel fuel; right of the window a-1+10 sqrt a the answer is 0,
    left of max(0, a-1-10 sqrt a) it is 1, inside it is 1 - clamp01(sum of n <= 20 adjacent panels of width sqrt a from tMin to x). *)
Theorem C06_gammaq_int_regions (x a : R) : 0 < a ->
  exists gln, gammaln ROps a = Ok gln /\
  (q_tmax a < x -> gammaq_int ROps x a = Ok 0) /\
  (x <= q_tmax a -> x < q_tmin a -> gammaq_int ROps x a = Ok 1) /\
  (q_tmin a <= x <= q_tmax a ->
     exists n, (n <= 20)%nat /\
       gammaq_int ROps x a = Ok (1 - clamp01 (panels (q_integrand gln a) x (sqrt a) n (q_tmin a))) /\
       x <= q_tmin a + INR n * sqrt a /\ forall k, (k < n)%nat -> q_tmin a + INR k * sqrt a < x).
Proof. exact (gammaq_int_regions x a). Qed.
Print Assumptions C06_gammaq_int_regions.

(** a > 100: GammaQ answers a probability for every x >= 0, and Inv_GammaP answers a non-negative x for EVERY p (positive for 0 < p < 1):
    no exit, no exhausted loop on the quadrature branch *)
Theorem C06_large_a_total (x p a : R) : 100 < a ->
  (0 <= x -> exists q, gammaq ROps x a = Ok q /\ 0 <= q <= 1) /\
  (exists r, inv_gammap ROps p a = Ok r /\ 0 <= r /\ (0 < p < 1 -> 0 < r)).
Proof. exact (fun H => conj (gammaq_large_a_total x a H) (inv_gammap_large_a_total p a H)). Qed.
Print Assumptions C06_large_a_total.

(** Inv_GammaP / Inv_GammaQ: the guards (a <= 0 exits; p >= 1 gives max(100, a + 100 sqrt a); p <= 0 gives 0), Inv_GammaQ(q,a) = Inv_GammaP(1-q,a) *)
Theorem C06_inverse_guards (p a : R) :
  (a <= 0 -> inv_gammap ROps p a = Exit) /\
  (0 < a -> 1 <= p -> inv_gammap ROps p a = Ok (Rmax 100 (a + 100 * sqrt a))) /\
  (0 < a -> p <= 0 -> inv_gammap ROps p a = Ok 0) /\
  inv_gammaq ROps p a = inv_gammap ROps (1 - p) a.
Proof.
  exact (conj (proj1 (inv_gammap_guards p a)) (conj (proj1 (proj2 (inv_gammap_guards p a)))
          (conj (proj2 (proj2 (inv_gammap_guards p a))) (inv_gammaq_is_inv_gammap p a)))).
Qed.
Print Assumptions C06_inverse_guards.

(** Necessary for "P(Inv_GammaP(p,a),a) = p": for 0 < p < 1 the answer is positive - both initial guesses are positive and every Halley
    iterate stays positive for ANY number of steps (the safeguard halves the iterate instead of crossing 0), whatever GammaP returns *)
Theorem C06_inverse_positive :
  (forall p a r : R, 0 < a -> 0 < p < 1 -> inv_gammap ROps p a = Ok r -> 0 < r) /\
  (forall (p a gln a1 lna1 afac : R) (n : nat) (x r : R), 0 < x -> halley ROps p a gln a1 lna1 afac n x = Ok r -> 0 < r).
Proof. exact (conj inv_gammap_positive halley_positive). Qed.
Print Assumptions C06_inverse_positive.

(** an exact solution of P(x,a) = p is returned untouched (fixed point of the iteration); and what the loop returns, for every number n of
    steps: an iterate x_j (j <= n) of x' = next(x, corr(x, P(x,a))), and when it stopped early (j < n) the last correction was below 1e-8 times
    the answer.  (Convergence of the iterates to the solution is NOT a theorem.) *)
Theorem C06_halley_trace (p a gln a1 lna1 afac : R) :
  (forall (k : nat) (x : R), 0 < x -> gammap ROps x a = Ok p -> halley ROps p a gln a1 lna1 afac (S k) x = Ok x) /\
  (forall (n : nat) (x r : R), 0 < x -> halley ROps p a gln a1 lna1 afac n x = Ok r ->
     exists j, (j <= n)%nat /\ r = halley_iter p a gln a1 lna1 afac j x /\
       ((j < n)%nat -> exists y gp, 0 < y /\ gammap ROps y a = Ok gp /\
           r = halley_next y (halley_corr p a gln a1 lna1 afac y gp) /\
           Rabs (halley_corr p a gln a1 lna1 afac y gp) < 1 / 100000000 * r)).
Proof. exact (conj (halley_fixed_point p a gln a1 lna1 afac) (halley_trace p a gln a1 lna1 afac)). Qed.
Print Assumptions C06_halley_trace.

(** Binomial_Coefficient on its GammaLn branch, EVERY n > 170 and 0 <= k <= n: answers floor(1/2 + exp(GammaLn(n+1) - GammaLn(k+1) - GammaLn(n-k+1)))
    and leaves the factorial table alone; symmetry C(n,k) = C(n,n-k) now for every n (both branches).  Pascal's rule for n > 170 is NOT a theorem. *)
Theorem C06_binomial_large :
  (forall (tbl : list R) (n k : Z), (170 < n)%Z -> (0 <= k <= n)%Z ->
     exists g1 g2 g3, gammaln ROps (IZR n + 1) = Ok g1 /\ gammaln ROps (IZR k + 1) = Ok g2 /\ gammaln ROps (IZR (n - k) + 1) = Ok g3 /\
       binomial_step ROps tbl n k = (tbl, Ok (IZR (Int_part (1 / 2 + exp (g1 - g2 - g3)))))) /\
  (forall n k : Z, (0 <= k <= n)%Z -> binomial ROps n k = binomial ROps n (n - k)).
Proof. exact (conj binomial_large_defined binomial_symmetry_all). Qed.
Print Assumptions C06_binomial_large.

(** "Gamma ... accurate over its whole domain", the upper end: Gamma is exp(GammaLn) at EVERY x > 0, however large the result - there is no bound above which
    the answer is replaced by anything else (in doubles: infinity only where exp itself overflows).  ln undoes Gamma; Gamma exceeds a level M > 0 exactly when
    GammaLn exceeds ln M; two answers of Gamma are ordered as the two GammaLn are. *)
Theorem C06_gamma_no_threshold (x : R) : 0 < x ->
  exists g v, gammaln ROps x = Ok g /\ gamma ROps x = Ok v /\ ln v = g /\
    (forall M, 0 < M -> (M < v <-> ln M < g)) /\
    (forall y gy vy, gammaln ROps y = Ok gy -> gamma ROps y = Ok vy -> (v < vy <-> g < gy)).
Proof. exact (gamma_no_threshold x). Qed.
Print Assumptions C06_gamma_no_threshold.

(** "both sides of the algorithm switch-over at x = a+1", WITHOUT the premises of C06_lentz_is_convergent / C06_gammaq_cf_spec and without the Fuel outcome of
    C06_gser_partial_sums (non-vacuity: regions_hyp_sat in C06_Proofs_Region.v).
    (1) Continued-fraction side, EVERY a > 0, x >= a+1 and EVERY iteration count n (induction on n): neither clamp |d|,|c| < FPMIN ever triggers, the term index is n+1
    (advanced every iteration), b = b_n, and the state is the n-th convergent d = A_{n-1}/A_n, c = Bt_n/Bt_{n-1}, h = Bt_n/A_n > 0 with A_n/A_{n-1} >= n+1 and
    Bt_n/Bt_{n-1} >= n+1; whenever GammaQcf answers, the answer is exp(-x + a ln x - GammaLn a) Bt_n/A_n > 0; for a <= 100 (where GammaQ uses it) Q > 0 and P < 1.
    (2) Series side, EVERY a > 0, 0 < x < a+1: the terms x^j/(a(a+1)..(a+j)) (gser_term) are positive and decreasing; for any integer N >= a+1 (N + 52 <= 100000)
    GammaPser ANSWERS (the loop stops, no Fuel) at an index k <= N + 52 with a positive value; for a <= 100 GammaQ and GammaP both answer, P > 0, Q < 1, k <= 153.
    NOT a theorem: that the continued-fraction loop stops within the fuel; Q <= 1 on the continued-fraction side and P <= 1 on the series side at non-integer a. *)
Theorem C06_regions_unconditional :
  (forall x a : R, 0 < a -> a + 1 <= x ->
     (forall n, let s := lentz_run x a n in
        lentz_noclamp a s /\ lz_i s = (Z.of_nat n + 1)%Z /\ lz_b s = cf_b x a n /\
        lz_d s = cf_Am x a n / cf_A x a n /\ lz_c s = cf_Bt x a n / cf_Btm x a n /\ lz_h s = cf_Bt x a n / cf_A x a n /\ 0 < lz_h s /\
        INR n + 1 <= cf_A x a n / cf_Am x a n /\ INR n + 1 <= cf_Bt x a n / cf_Btm x a n) /\
     (forall v, gammaq_cf ROps x a = Ok v ->
        exists n gln, gammaln ROps a = Ok gln /\ (1 <= Z.of_nat n <= 100000)%Z /\
          v = exp (- x + a * ln x - gln) * (cf_Bt x a n / cf_A x a n) /\ 0 < v /\
          Rabs (lz_del (lentz_run x a n) - 1) <= dbl_eps ROps) /\
     (a <= 100 -> forall q, gammaq ROps x a = Ok q -> 0 < q /\ forall p, gammap ROps x a = Ok p -> p < 1)) /\
  (forall x a : R, 0 < a -> 0 < x -> x < a + 1 ->
     (forall j, 0 < gser_term x a j /\ gser_term x a (S j) <= gser_term x a j) /\
     (forall N : nat, a + 1 <= INR N -> (Z.of_nat N + 52 <= 100000)%Z ->
        exists v k gln, gammap_ser ROps x a = Ok v /\ gammaln ROps a = Ok gln /\ (k <= N + 52)%nat /\
          v = sum_f_R0 (gser_term x a) k * exp (- x + a * ln x - gln) /\ 0 < v /\
          Rabs (gser_term x a k) <= Rabs (sum_f_R0 (gser_term x a) k) * dbl_eps ROps /\
          (forall j, (j < k)%nat -> Rabs (sum_f_R0 (gser_term x a) j) * dbl_eps ROps < Rabs (gser_term x a j))) /\
     (a <= 100 ->
        exists q p k, gammaq ROps x a = Ok q /\ gammap ROps x a = Ok p /\ q < 1 /\ 0 < p /\ p + q = 1 /\ (k <= 153)%nat /\
          exists gln, gammaln ROps a = Ok gln /\ p = sum_f_R0 (gser_term x a) k * exp (- x + a * ln x - gln))).
Proof. exact regions_unconditional. Qed.
Print Assumptions C06_regions_unconditional.

(** "agree with an independent reference to 1e-12 for a <= 100", series side of the switch-over, EVERY integer shape a = q+1 <= 100 and EVERY 0 < x < a+1, no premise about
    the loop (non-vacuity: integer_shape_hyp_sat in C06_Proofs_IntShape.v): GammaP and GammaQ answer p, 1-p with
        e^-T P / (1 + 2^-52 (a + 155)) <= p <= e^T P,   T = a 1e-14,
    where P = (1/q!) RInt_0^x t^q e^-t is the TRUE P(x,a), 0 < P <= 1: relative error at most about 1.06e-12 (truncation: the stopping test at an index <= 153; the Lanczos
    factor q!/exp(GammaLn a) from C06_lanczos_recurrence_partial), over the reals.  _partial: integer shapes only, series side only, no rounding. *)
Theorem C06_series_accuracy_integer_shape_partial (q : nat) (x : R) : (S q <= 100)%nat -> 0 < x -> x < INR (S q) + 1 ->
  exists p qq, gammap ROps x (INR (S q)) = Ok p /\ gammaq ROps x (INR (S q)) = Ok qq /\ p + qq = 1 /\
    let P := / INR (fact q) * RInt (fun t => t ^ q * exp (- t)) 0 x in
    let T := INR (S q) * (1 / 100000000000000) in
    0 < P /\ P <= 1 /\ 0 < p /\
    exp (- T) * P <= p * (1 + dbl_eps ROps * (INR (S q) + 155)) /\ p <= exp T * P.
Proof. exact (gammap_integer_shape_accuracy q x). Qed.
Print Assumptions C06_series_accuracy_integer_shape_partial.

(** * Seventh pass: theorems in EVERY arithmetic (any NumOps instance: the reals, and the IEEE doubles of the extracted program as they are -
    rounding, infinities, NaN included; no law of arithmetic is used), the diagnostics of Integrate, and the T-tie.
    Examples for the hypotheses: C06_Proofs_WarnR.v (fuel_example, order_hypotheses_example, factorial_recurrence_example, warning_raised_example),
    C06_Proofs_Seq.v (call_history_example), C06_GenTie.v (ROps_LitLaws). *)

(** Quantifier "over inputs AND histories", now for the doubles themselves: in ANY arithmetic, in every history of calls to the family in one
    process each call gets EXACTLY (Leibniz equality of the outcomes: bit for bit in doubles) the answer a fresh process gives to the same call.
    (C06_call_history_independent is the instance T = R.) *)
Theorem C06_call_history_independent_any_arithmetic (T : Type) (Ops : NumOps T) (cs : list (@call T)) :
  List.Forall (fun hf => fst hf = snd hf) (snd (call_run Ops (fact_init Ops) cs)) /\
  length (snd (call_run Ops (fact_init Ops) cs)) = length cs.
Proof. exact (call_history_independent_any Ops cs). Qed.
Print Assumptions C06_call_history_independent_any_arithmetic.

(** ... and the same call made twice, with any calls before and in between, is answered identically, in any arithmetic. *)
Theorem C06_call_repeatable_any_arithmetic (T : Type) (Ops : NumOps T) (c : @call T) (before between : list (@call T)) :
  let t1 := fst (call_run Ops (fact_init Ops) before) in
  let '(t2, o1) := call_step Ops t1 c in
  let t3 := fst (call_run Ops t2 between) in
  snd (call_step Ops t3 c) = o1.
Proof. exact (call_repeatable_any Ops c before between). Qed.
Print Assumptions C06_call_repeatable_any_arithmetic.

(** "all n<=170 for Factorial in every call order (the memo table grows on demand)", in any arithmetic: for EVERY history of calls from
    FactorialList = {1.0} each call with 0 <= n <= 170 answers the product  Fprod n = (..((1 * 1) * 2) .. ) * n  formed left to right, each
    factor multiplied in ONCE by the arithmetic at hand (in doubles: the rounded products the source forms), each other call exits; the table
    keeps entry k = Fprod k and is only ever extended. *)
Theorem C06_factorial_any_history_any_arithmetic (T : Type) (Ops : NumOps T) (ns : list Z) :
  List.Forall2 (fact_answer (Fprod Ops)) ns (snd (factorial_run Ops (fact_init Ops) ns)) /\
  tbl_inv Ops (Fprod Ops) (fst (factorial_run Ops (fact_init Ops) ns)) /\
  exists ext, fst (factorial_run Ops (fact_init Ops) ns) = fact_init Ops ++ ext.
Proof. exact (factorial_run_any Ops ns). Qed.
Print Assumptions C06_factorial_any_history_any_arithmetic.

(** "n! = n*(n-1)!" holds EXACTLY (no rounding slack) in any arithmetic: from any two reachable tables, Factorial(n) is the one product
    Factorial(n-1) * n.  (In doubles: the recurrence is satisfied bit for bit, whatever was asked before either call.) *)
Theorem C06_factorial_recurrence_exact_any_arithmetic (T : Type) (Ops : NumOps T) (t1 t2 : list T) (n : Z) :
  tbl_inv Ops (Fprod Ops) t1 -> tbl_inv Ops (Fprod Ops) t2 -> (1 <= n <= 170)%Z ->
  exists w, snd (factorial_step Ops t1 (n - 1)) = Ok w /\ snd (factorial_step Ops t2 n) = Ok (nmul Ops w (nofZ Ops n)).
Proof. exact (factorial_recurrence_any Ops t1 t2 n). Qed.
Print Assumptions C06_factorial_recurrence_exact_any_arithmetic.

(** The fuel the model gives to the source's uncapped loops is immaterial, in any arithmetic: an answer of GammaPser's series loop, GammaQcf's
    Lentz loop or GammaQint's panel loop obtained with some fuel is the answer with every larger fuel (i.e. of the source's unbounded loop), and
    the first two loops only ever answer or report exhausted fuel (never Exit / OOB). *)
Theorem C06_fuel_immaterial (T : Type) (Ops : NumOps T) :
  (forall f1 f2 x ap del sum v, (f1 <= f2)%nat -> gser_loop Ops f1 x ap del sum = Ok v -> gser_loop Ops f2 x ap del sum = Ok v) /\
  (forall f1 f2 a s v, (f1 <= f2)%nat -> lentz_loop Ops f1 a s = Ok v -> lentz_loop Ops f2 a s = Ok v) /\
  (forall f1 f2 (f : T -> T) x w t1 acc v, (f1 <= f2)%nat -> panel_loop Ops f1 f x w t1 acc = Ok v -> panel_loop Ops f2 f x w t1 acc = Ok v) /\
  (forall f x ap del sum, (exists v, gser_loop Ops f x ap del sum = Ok v) \/ gser_loop Ops f x ap del sum = Fuel) /\
  (forall f a s, (exists v, lentz_loop Ops f a s = Ok v) \/ lentz_loop Ops f a s = Fuel).
Proof. exact (fuel_immaterial Ops). Qed.
Print Assumptions C06_fuel_immaterial.

(** "P and Q lie in [0,1]" on the quadrature branch, in the order of the doubles: under the laws of a strict total order alone (OrdLaws: true of
    the non-NaN doubles as they are) and 0 < 1, every answer of GammaQint is 1 - g for a g with 0 <= g <= 1 in that order (the subtraction stays
    uninterpreted; in IEEE arithmetic 1 - g is then exact up to one rounding and lies in [0,1]). *)
Theorem C06_gammaq_int_clamped_in_any_order (T : Type) (Ops : NumOps T) : OrdLaws Ops -> nltb Ops (n0 Ops) (n1 Ops) = true ->
  forall x a q, gammaq_int Ops x a = Ok q ->
  exists g, q = nsub Ops (n1 Ops) g /\ nleb Ops (n0 Ops) g = true /\ nleb Ops g (n1 Ops) = true.
Proof. exact (gammaq_int_clamped Ops). Qed.
Print Assumptions C06_gammaq_int_clamped_in_any_order.

(** Inv_GammaP's Halley loop in any arithmetic: an iterate that compares <= 0 at the loop's test is answered 0 at once. *)
Theorem C06_inverse_underflow_returns_zero_any_arithmetic (T : Type) (Ops : NumOps T) (p a gln a1 lna1 afac x : T) (n : nat) :
  nleb Ops x (n0 Ops) = true -> halley Ops p a gln a1 lna1 afac (S n) x = Ok (n0 Ops).
Proof. exact (halley_nonpos_any Ops p a gln a1 lna1 afac x n). Qed.
Print Assumptions C06_inverse_underflow_returns_zero_any_arithmetic.

(** The model with Integrate's diagnostics (C06_Model2.v: the flag  bool& warning  of Adaptive_Simpson_Integration, std::isnan(result), and
    GammaQint's count of panels that printed them - run against the library's captured output on every check) EXTENDS the model all other
    theorems are about: dropping the flags gives exactly asr / integrate / panel_loop / gammaq_int, in any arithmetic; and the counters count
    at most one per panel (so at most 64, for GammaQint at most the 21 panels of C06_gammaq_int_regions). *)
Theorem C06_diagnostics_model_extends_model (T : Type) (Ops : NumOps T) :
  (forall bottom f a b epsilon S fa fb fc, fst (asr_w Ops bottom f a b epsilon S fa fb fc) = asr Ops bottom f a b epsilon S fa fb fc) /\
  (forall f a b epsilon depth, fst (integrate_w Ops f a b epsilon depth) = integrate Ops f a b epsilon depth) /\
  (forall fuel f x w t1 acc nw nn, rmap fst (panel_loop_w Ops fuel f x w t1 acc nw nn) = panel_loop Ops fuel f x w t1 acc) /\
  (forall x a, rmap fst (gammaq_int_w Ops x a) = gammaq_int Ops x a) /\
  (forall fuel f x w t1 acc nw nn v cw cn, panel_loop_w Ops fuel f x w t1 acc nw nn = Ok (v, (cw, cn)) ->
     (nw <= cw <= nw + Z.of_nat fuel /\ nn <= cn <= nn + Z.of_nat fuel)%Z).
Proof.
  exact (conj (asr_w_value Ops) (conj (integrate_w_value Ops) (conj (panel_loop_w_value Ops) (conj (gammaq_int_w_value Ops) (panel_loop_w_counts Ops))))).
Qed.
Print Assumptions C06_diagnostics_model_extends_model.

(** Integrate's convergence warning measures |S2 - S| and nothing else: on every cubic integrand (Simpson exact, S2 = S) Integrate raises no
    "did not converge" warning for EVERY recursion floor (0 included), tolerance and order of the limits (reals). *)
Theorem C06_integrate_no_warning_on_cubics (c0 c1 c2 c3 a b eps : R) (depth : nat) :
  fst (snd (integrate_w ROps (fun t => c0 + c1 * t + c2 * t ^ 2 + c3 * t ^ 3) a b eps depth)) = false.
Proof. exact (integrate_w_cubic_silent c0 c1 c2 c3 a b eps depth). Qed.
Print Assumptions C06_integrate_no_warning_on_cubics.

(** ** T-tie: the definitions regenerated from src/Special_Functions.cpp on every run (Gen_C06_Formulas.v, by tools/cxx2gallina.py from clang's
    AST: Gamma, GammaQ with its guards and choice of the method, GammaP, Upper_Incomplete_Gamma, Lower_Incomplete_Gamma, Inv_GammaQ; the looping
    functions they call instantiated with the hand model's gammaln, gammaq_int, gammap_ser, gammaq_cf, inv_gammap) ARE the model the theorems above
    are about, for all arguments, in every arithmetic in which an integer literal is the integer and 0, 1 are the ring constants (LitLaws; true
    in the reals, second statement, and of the doubles).  A changed comparison, guard, literal, operand order or callee in one of these C++
    functions breaks this theorem before any case is run. *)
Theorem C06_generated_Gamma_GammaQ_GammaP_Upper_Lower_InvGammaQ_is_model (T : Type) (Ops : NumOps T) : LitLaws Ops ->
  (forall x, g_Gamma Ops (gammaln Ops) (gammaq_int Ops) (gammap_ser Ops) (gammaq_cf Ops) (inv_gammap Ops) x = gamma Ops x) /\
  (forall x a, g_GammaQ Ops (gammaln Ops) (gammaq_int Ops) (gammap_ser Ops) (gammaq_cf Ops) (inv_gammap Ops) x a = gammaq Ops x a) /\
  (forall x a, g_GammaP Ops (gammaln Ops) (gammaq_int Ops) (gammap_ser Ops) (gammaq_cf Ops) (inv_gammap Ops) x a = gammap Ops x a) /\
  (forall x s, g_Upper_Incomplete_Gamma Ops (gammaln Ops) (gammaq_int Ops) (gammap_ser Ops) (gammaq_cf Ops) (inv_gammap Ops) x s = upper_incomplete_gamma Ops x s) /\
  (forall x s, g_Lower_Incomplete_Gamma Ops (gammaln Ops) (gammaq_int Ops) (gammap_ser Ops) (gammaq_cf Ops) (inv_gammap Ops) x s = lower_incomplete_gamma Ops x s) /\
  (forall q a, g_Inv_GammaQ Ops (gammaln Ops) (gammaq_int Ops) (gammap_ser Ops) (gammaq_cf Ops) (inv_gammap Ops) q a = inv_gammaq Ops q a).
Proof. exact (generated_is_model_of_laws Ops). Qed.
Print Assumptions C06_generated_Gamma_GammaQ_GammaP_Upper_Lower_InvGammaQ_is_model.

Theorem C06_generated_is_model_over_the_reals : generated_is_model ROps.
Proof. exact generated_is_model_R. Qed.
Print Assumptions C06_generated_is_model_over_the_reals.
