(** * C19 proofs: the remaining entry points (overloads, default arguments, a vector that is reused after a call)

    Range(max), Range(min,max) [default step], Lists_Equal on lists of lists, Transpose_Lists(v1,v2),
    Median called again on the vector it has just reordered, Weighted_Average of data points built with the
    default weight. *)
From Coq Require Import ZArith List Bool Lia Arith Reals Lra Sorting.Permutation.
From LP Require Import Num NumR C19_Model C19_Proofs_Lists C19_Proofs_Stats.
Import ListNotations.

(** ** Range(max) and Range(min, max) *)
Section RangeOverloads.
Local Open Scope Z_scope.

Lemma div1_id (d : Z) : (d + 1 - 1) / 1 = d.
Proof. rewrite Z.div_1_r. ring. Qed.

(** Range(min,max): min, min+1, ..., max-1 when min < max; min, min-1, ..., max+1 when min > max; empty when equal *)
Theorem range2_spec (min max : Z) :
  (min < max -> range2 min max = Some (map (fun k => min + Z.of_nat k) (seq 0 (Z.to_nat (max - min))))) /\
  (max < min -> range2 min max = Some (map (fun k => min - Z.of_nat k) (seq 0 (Z.to_nat (min - max))))) /\
  (min = max -> range2 min max = Some []).
Proof.
  unfold range2. repeat split.
  - intros H. destruct (range_up_spec min max 1 ltac:(lia) H) as [E _]. rewrite E.
    rewrite div1_id. f_equal. apply map_ext. intros k. ring.
  - intros H. destruct (range_down_spec min max 1 ltac:(lia) H) as [E _]. rewrite E.
    rewrite div1_id. f_equal. apply map_ext. intros k. ring.
  - intros H. apply range_empty_spec. now left.
Qed.

Theorem range2_length (min max : Z) :
  exists l, range2 min max = Some l /\ length l = Z.to_nat (Z.abs (max - min)).
Proof.
  destruct (range2_spec min max) as (Hu & Hd & He).
  destruct (Z.lt_trichotomy min max) as [H|[H|H]].
  - eexists; split; [exact (Hu H)|]. rewrite map_length, seq_length. f_equal. lia.
  - eexists; split; [exact (He H)|]. subst. simpl. rewrite Z.sub_diag. reflexivity.
  - eexists; split; [exact (Hd H)|]. rewrite map_length, seq_length. f_equal. lia.
Qed.

(** Range(max) is the range from 0 to max: 0, 1, ..., max-1 for max > 0; 0, -1, ..., max+1 for max < 0; empty for 0 *)
Theorem range1_spec (max : Z) :
  range1 max = range2 0 max /\
  (0 < max -> range1 max = Some (map Z.of_nat (seq 0 (Z.to_nat max)))) /\
  (max < 0 -> range1 max = Some (map (fun k => - Z.of_nat k) (seq 0 (Z.to_nat (- max))))) /\
  (max = 0 -> range1 max = Some []).
Proof.
  split; [reflexivity|]. change (range1 max) with (range2 0 max).
  destruct (range2_spec 0 max) as (Hu & Hd & He). repeat split.
  - intros H. rewrite (Hu H). rewrite Z.sub_0_r. f_equal.
  - intros H. rewrite (Hd H). rewrite Z.sub_0_l. f_equal.
  - intros H. apply He. now symmetry.
Qed.

Example range1_examples :
  range1 3 = Some [0; 1; 2] /\ range1 (-3) = Some [0; -1; -2] /\ range1 0 = Some [] /\
  range2 2 5 = Some [2; 3; 4] /\ range2 5 2 = Some [5; 4; 3].
Proof. repeat split; reflexivity. Qed.
End RangeOverloads.

(** ** Lists_Equal on lists of lists *)
Theorem lists_equal2_spec {A : Type} (eqb : A -> A -> bool) :
  (forall a b, eqb a b = true <-> a = b) ->
  forall v1 v2 : list (list A), lists_equal2 eqb v1 v2 = true <-> v1 = v2.
Proof.
  intros H. unfold lists_equal2. apply lists_equal_spec. apply lists_equal_spec. exact H.
Qed.

Example lists_equal2_example :
  lists_equal2 Z.eqb [[1; 2]; []; [3]]%Z [[1; 2]; []; [3]]%Z = true /\
  lists_equal2 Z.eqb [[1; 2]; [3]]%Z [[1]; [2; 3]]%Z = false.
Proof. split; reflexivity. Qed.

(** ** Transpose_Lists(v1, v2): equal lengths -> the list of pairs (as two-element lists); else exit *)
Theorem transpose2_spec {A : Type} (d : A) (v1 v2 : list A) :
  (length v1 = length v2 ->
     exists t, transpose_lists2 d v1 v2 = Ok t /\ length t = length v1 /\
       forall j, (j < length v1)%nat -> nth j t [] = [nth j v1 d; nth j v2 d]) /\
  (length v1 <> length v2 -> transpose_lists2 d v1 v2 = Exit).
Proof.
  unfold transpose_lists2, transpose_lists. split.
  - intros H. simpl forallb. rewrite <- H, Nat.eqb_refl. simpl.
    eexists. split; [reflexivity|]. split; [now rewrite map_length, seq_length|].
    intros j Hj. rewrite (nth_indep _ [] (column d [v1; v2] 0%nat)) by (now rewrite map_length, seq_length).
    rewrite map_nth, seq_nth by assumption. reflexivity.
  - intros H. simpl forallb. destruct (Nat.eqb_spec (length v2) (length v1)) as [E|E]; [congruence|reflexivity].
Qed.

Example transpose2_example :
  transpose_lists2 0%Z [1; 2; 3]%Z [4; 5; 6]%Z = Ok [[1; 4]; [2; 5]; [3; 6]]%Z /\
  transpose_lists2 0%Z [1; 2]%Z [4]%Z = Exit.
Proof. split; reflexivity. Qed.

(** ** Median on the vector it has just reordered: same value, and the vector is still a permutation of the data *)
Local Open Scope R_scope.
Theorem median_twice_spec (l : list R) :
  let '(m1, m2, l2) := median_twice ROps l in
  m1 = median ROps l /\ m2 = median ROps l /\ Permutation l2 l.
Proof.
  unfold median_twice, median_state. repeat split.
  - apply median_perm. apply sort_list_perm.
  - etransitivity; apply sort_list_perm.
Qed.

(** whatever permutation std::nth_element leaves behind, every later statistic of the vector is unchanged *)
Theorem stats_after_reordering (l l' : list R) : Permutation l' l ->
  median ROps l' = median ROps l /\ arithmetic_mean ROps l' = arithmetic_mean ROps l /\
  variance ROps l' = variance ROps l /\ standard_deviation ROps l' = standard_deviation ROps l.
Proof.
  intros H. repeat split; [apply median_perm | apply mean_perm | apply variance_perm | apply stddev_perm]; exact H.
Qed.

(** the two-element reduction: Median({a,b}) = Arithmetic_Mean({a,b}) *)
Theorem median_pair_is_mean (a b : R) : median ROps [a; b] = arithmetic_mean ROps [a; b].
Proof.
  rewrite mean_R. unfold median, sort_list. simpl fold_right. simpl length.
  change (insert_sorted ROps b []) with [b].
  unfold insert_sorted. change (nltb ROps a b) with (Rltb a b).
  destruct (Rltb a b); cbn; field.
Qed.

(** ** Weighted_Average of data points with the default weight 1: (mean, s / sqrt N) *)
Theorem weighted_default_weights (l : list R) :
  weighted_average_default ROps l =
  (arithmetic_mean ROps l, standard_deviation ROps l / sqrt (INR (length l))).
Proof.
  unfold weighted_average_default.
  rewrite (weighted_equal_weights_gen 1).
  - rewrite map_map, map_length. simpl. now rewrite map_id.
  - cbn. lra.
  - intros p Hp. apply in_map_iff in Hp. destruct Hp as (v & <- & _). reflexivity.
Qed.
