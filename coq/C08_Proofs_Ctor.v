(** * C08 proofs: the objects made by the default constructors are the [tab] / [grid] objects of a valid table,
    so that every theorem of C08_Proofs.v applies to them *)
From Coq Require Import Reals ZArith List Bool Lia Lra.
From LP Require Import Num NumR C01_Model C01_Proofs C08_Model.
Import ListNotations.
Local Open Scope R_scope.

Lemma scale_m1 (l : list R) : scale ROps (nneg ROps (n1 ROps)) l = l.
Proof. unfold scale, ngtb. cbn [nltb nneg n0 n1 ROps]. destruct (Rltb_spec 0 (Ropp 1)); [lra|reflexivity]. Qed.
Lemma scale2_m1 (f : list (list R)) : scale2 ROps (nneg ROps (n1 ROps)) f = f.
Proof. unfold scale2, ngtb. cbn [nltb nneg n0 n1 ROps]. destruct (Rltb_spec 0 (Ropp 1)); [lra|reflexivity]. Qed.

Lemma default_xs_increasing : increasing [-1; 0; 1].
Proof. intros i Hi. cbn in Hi. destruct i as [|[|i]]; cbn; try lra; lia. Qed.

Lemma default_table_valid : valid_table [-1; 0; 1] [0; 0; 0].
Proof. repeat split; cbn; try lia. exact default_xs_increasing. Qed.

Lemma default_grid_valid : valid_grid [-1; 0; 1] [-1; 0; 1] [[0; 0; 0]; [0; 0; 0]; [0; 0; 0]].
Proof.
  repeat split; cbn; try lia; try exact default_xs_increasing.
  intros i Hi. destruct i as [|[|[|i]]]; cbn; lia.
Qed.

Theorem construct_default_ok :
  construct_default ROps = Ok (tab [-1; 0; 1] [0; 0; 0]) /\ valid_table [-1; 0; 1] [0; 0; 0].
Proof.
  split; [|exact default_table_valid].
  unfold construct_default, default_xs. cbn [repeat nofZ ROps].
  destruct (construct_ok [-1; 0; 1] [0; 0; 0] (nneg ROps (n1 ROps)) (nneg ROps (n1 ROps)) default_table_valid) as [H _].
  rewrite !scale_m1 in H. exact H.
Qed.

Theorem construct2_default_ok :
  construct2_default ROps = Ok (grid [-1; 0; 1] [-1; 0; 1] [[0; 0; 0]; [0; 0; 0]; [0; 0; 0]])
  /\ valid_grid [-1; 0; 1] [-1; 0; 1] [[0; 0; 0]; [0; 0; 0]; [0; 0; 0]].
Proof.
  split; [|exact default_grid_valid].
  unfold construct2_default, default_xs. cbn [repeat nofZ ROps].
  destruct (construct2_ok [-1; 0; 1] [-1; 0; 1] [[0; 0; 0]; [0; 0; 0]; [0; 0; 0]]
              (nneg ROps (n1 ROps)) (nneg ROps (n1 ROps)) (nneg ROps (n1 ROps)) default_grid_valid) as [H _].
  rewrite !scale_m1, scale2_m1 in H. exact H.
Qed.
