(** * C07 proofs: |erf x| < 1 for every real x, for the erf DEFINED in NumR.v by its integral.
    Route (no improper or double integral): with
      I(x) = int_0^x exp(-t^2) dt,   J(x) = int_0^1 exp(-x^2 (1+t^2)) / (1+t^2) dt
    the function I(x)^2 + J(x) has derivative 0 (differentiation under the integral sign on [0,1] and the
    substitution u = x t), and its value at 0 is int_0^1 dt/(1+t^2) = atan 1 = PI/4.  Hence
      I(x)^2 = PI/4 - J(x) < PI/4   because J(x) > 0,
    i.e. |erf x| = 2/sqrt(PI) |I(x)| < 1. *)
From Coq Require Import Reals Lra Psatz.
From Coquelicot Require Import Coquelicot.
From LP Require Import Num NumR C07_Model C07_Proofs_Cont.
Local Open Scope R_scope.

Definition gaussI (x : R) : R := RInt (fun t => exp (- (t * t))) 0 x.
Definition Jf (x t : R) : R := exp (- (x * x * (1 + t * t))) / (1 + t * t).
Definition gaussJ (x : R) : R := RInt (fun t => Jf x t) 0 1.
(* partial derivative of Jf in x *)
Definition dJf (x t : R) : R := - (2 * x * exp (- (x * x * (1 + t * t)))).

Lemma one_plus_sq_pos t : 0 < 1 + t * t.
Proof. nra. Qed.

Lemma gaussI_ex a b : ex_RInt (fun t => exp (- (t * t))) a b.
Proof. apply (ex_RInt_continuous gauss0). intros z _. apply gauss0_cont. Qed.

Lemma gaussI_derive x : is_derive gaussI x (exp (- (x * x))).
Proof.
  unfold gaussI. auto_derive.
  - split; [|split; [|exact I]].
    + apply gaussI_ex.
    + apply filter_forall. intros y. apply continuity_pt_filterlim. apply gauss0_cont.
  - ring.
Qed.

Lemma Rerf_gaussI x : Rerf x = 2 / sqrt PI * gaussI x.
Proof. reflexivity. Qed.

(** ** the parametric integral J *)
Lemma Jf_derive x t : is_derive (fun z => Jf z t) x (dJf x t).
Proof.
  unfold Jf, dJf. pose proof (one_plus_sq_pos t). auto_derive; [lra|]. field. lra.
Qed.

Lemma Jf_cont x t : continuous (Jf x) t.
Proof.
  apply (ex_derive_continuous (Jf x)). unfold Jf. pose proof (one_plus_sq_pos t).
  auto_derive. repeat split; auto; lra.
Qed.

Lemma dJf_cont x t : continuous (dJf x) t.
Proof. apply (ex_derive_continuous (dJf x)). unfold dJf. auto_derive. auto. Qed.

Lemma Jf_pos x t : 0 < Jf x t.
Proof. unfold Jf. apply Rdiv_lt_0_compat; [apply exp_pos|apply one_plus_sq_pos]. Qed.

Lemma dJf_cont2 x t : continuity_2d_pt dJf x t.
Proof.
  unfold dJf.
  apply continuity_2d_pt_opp.
  apply continuity_2d_pt_mult.
  - apply continuity_2d_pt_mult; [apply continuity_2d_pt_const|apply continuity_2d_pt_id1].
  - apply (continuity_1d_2d_pt_comp exp (fun u v => - (u * u * (1 + v * v)))).
    + apply derivable_continuous_pt, derivable_pt_exp.
    + apply continuity_2d_pt_opp.
      apply continuity_2d_pt_mult.
      * apply continuity_2d_pt_mult; apply continuity_2d_pt_id1.
      * apply continuity_2d_pt_plus; [apply continuity_2d_pt_const|].
        apply continuity_2d_pt_mult; apply continuity_2d_pt_id2.
Qed.

Lemma gaussJ_derive x : is_derive gaussJ x (RInt (fun t => dJf x t) 0 1).
Proof.
  unfold gaussJ.
  apply (is_derive_ext (fun x => RInt (fun t => Jf x t) 0 1)); [reflexivity|].
  replace (RInt (fun t => dJf x t) 0 1) with (RInt (fun t => Derive (fun u => Jf u t) x) 0 1).
  2:{ apply RInt_ext. intros t _. apply is_derive_unique, Jf_derive. }
  apply (is_derive_RInt_param Jf 0 1 x).
  - apply filter_forall. intros y t _. eexists. apply Jf_derive.
  - intros t _.
    apply (continuity_2d_pt_ext dJf).
    + intros u v. symmetry. apply is_derive_unique, Jf_derive.
    + apply dJf_cont2.
  - apply filter_forall. intros y. apply (ex_RInt_continuous (Jf y)). intros z _. apply Jf_cont.
Qed.

(** ** substitution u = x t:  I(x) = int_0^1 x exp(-(x t)^2) dt *)
Lemma gaussI_subst x : is_RInt (fun t => x * exp (- (x * t * (x * t)))) 0 1 (gaussI x).
Proof.
  apply (is_RInt_ext (fun y => scal x ((fun t => exp (- (t * t))) (x * y + 0)))).
  { intros t _. unfold scal; cbn; unfold mult; cbn. rewrite Rplus_0_r. reflexivity. }
  apply (is_RInt_comp_lin (fun t => exp (- (t * t))) x 0 0 1).
  replace (x * 0 + 0) with 0 by ring. replace (x * 1 + 0) with x by ring.
  apply (@RInt_correct R_CompleteNormedModule). apply gaussI_ex.
Qed.

Lemma dJ_value x : RInt (fun t => dJf x t) 0 1 = - (2 * exp (- (x * x)) * gaussI x).
Proof.
  apply is_RInt_unique.
  apply (is_RInt_ext (fun t => scal (- (2 * exp (- (x * x)))) (x * exp (- (x * t * (x * t)))))).
  { intros t _. unfold scal, dJf; cbn; unfold mult; cbn.
    replace (- (x * x * (1 + t * t))) with (- (x * x) + - (x * t * (x * t))) by ring.
    rewrite exp_plus. ring. }
  replace (- (2 * exp (- (x * x)) * gaussI x)) with (scal (- (2 * exp (- (x * x)))) (gaussI x))
    by (unfold scal; cbn; unfold mult; cbn; ring).
  apply (@is_RInt_scal R_NormedModule). apply gaussI_subst.
Qed.

(** ** I^2 + J is constant *)
Definition gaussG (x : R) : R := gaussI x * gaussI x + gaussJ x.

Lemma gaussG_derive x : is_derive gaussG x 0.
Proof.
  unfold gaussG.
  replace 0 with (plus (plus (mult (exp (- (x * x))) (gaussI x)) (mult (gaussI x) (exp (- (x * x)))))
                       (RInt (fun t => dJf x t) 0 1)).
  2:{ rewrite dJ_value. unfold plus, mult; cbn. ring. }
  apply (is_derive_plus (fun x => gaussI x * gaussI x) gaussJ).
  - apply (is_derive_mult gaussI gaussI); try apply gaussI_derive.
    intros; apply Rmult_comm.
  - apply gaussJ_derive.
Qed.

Lemma atan_is_RInt : is_RInt (fun t => / (1 + t ^ 2)) 0 1 (PI / 4).
Proof.
  replace (PI / 4) with (minus (atan 1) (atan 0)) by (rewrite atan_1, atan_0; unfold minus, plus, opp; cbn; lra).
  apply (is_RInt_derive atan (fun t => / (1 + t ^ 2))).
  - intros t _. pose proof (is_derive_atan t) as H. rewrite Rsqr_pow2 in H. exact H.
  - intros t _. apply (ex_derive_continuous (fun t => / (1 + t ^ 2))).
    pose proof (one_plus_sq_pos t). auto_derive. nra.
Qed.

Lemma gaussJ_0 : gaussJ 0 = PI / 4.
Proof.
  unfold gaussJ. apply is_RInt_unique.
  apply (is_RInt_ext (fun t => / (1 + t ^ 2))); [|apply atan_is_RInt].
  intros t _. unfold Jf. replace (- (0 * 0 * (1 + t * t))) with 0 by ring. rewrite exp_0.
  pose proof (one_plus_sq_pos t).
  change (/ (1 + t ^ 2) = 1 / (1 + t * t) :> R). field. lra.
Qed.

Lemma gaussG_const x : gaussG x = PI / 4.
Proof.
  destruct (MVT_gen gaussG 0 x (fun _ => 0)) as [c [_ E]].
  - intros; apply gaussG_derive.
  - intros y _. apply continuity_pt_filterlim. apply (ex_derive_continuous gaussG). eexists; apply gaussG_derive.
  - assert (G0 : gaussG 0 = PI / 4).
    { unfold gaussG. rewrite gaussJ_0. unfold gaussI. rewrite RInt_point. unfold zero; cbn. ring. }
    lra.
Qed.

(** the Gaussian-square identity on a finite range *)
Theorem gauss_square_identity x : (RInt (fun t => exp (- (t * t))) 0 x)² = PI / 4 - gaussJ x.
Proof. pose proof (gaussG_const x) as H. unfold gaussG, gaussI in H. unfold Rsqr. lra. Qed.

Lemma gaussJ_pos x : 0 < gaussJ x.
Proof.
  unfold gaussJ. apply RInt_gt_0; [lra| |].
  - intros; apply Jf_pos.
  - intros; apply Jf_cont.
Qed.

Lemma Rerf_sqr_lt_1 x : Rerf x * Rerf x < 1.
Proof.
  rewrite Rerf_gaussI.
  pose proof (gauss_square_identity x) as H. fold (gaussI x) in H. unfold Rsqr in H.
  pose proof (gaussJ_pos x). pose proof PI_RGT_0. pose proof sqrtPI_pos as Hp.
  assert (Hs : sqrt PI * sqrt PI = PI) by (apply sqrt_sqrt; lra).
  replace (2 / sqrt PI * gaussI x * (2 / sqrt PI * gaussI x))
    with (4 * (gaussI x * gaussI x) / (sqrt PI * sqrt PI)) by (field; lra).
  rewrite Hs, H. apply Rmult_lt_reg_r with PI; [lra|].
  unfold Rdiv. rewrite Rmult_assoc, Rinv_l by lra. lra.
Qed.

Theorem Rerf_lt_1 x : Rerf x < 1.
Proof. pose proof (Rerf_sqr_lt_1 x). nra. Qed.
Theorem Rerf_gt_m1 x : - 1 < Rerf x.
Proof. pose proof (Rerf_sqr_lt_1 x). nra. Qed.
Theorem Rerf_bounded x : - 1 < Rerf x < 1.
Proof. split; [apply Rerf_gt_m1|apply Rerf_lt_1]. Qed.

(** ** consequences for the CDF ranges *)
(** normal CDF 0.5 (1 + erf z): strictly between 0 and 1 at every x *)
Lemma gauss_cdf_range mu s x : 0 < cdf_gauss ROps x mu s < 1.
Proof.
  unfold cdf_gauss; cbn. pose proof (Rerf_bounded ((x - mu) / (sqrt 2 * s))). lra.
Qed.

(** Maxwell-Boltzmann CDF erf(z) - sqrt(2/pi) x/a exp(-x^2/2a^2): the subtracted term is >= 0 for x >= 0 *)
Lemma mb_cdf_lt_1 a : 0 < a -> forall x, val (cdf_maxwell_boltzmann ROps PI x a) < 1.
Proof.
  intros Ha x. destruct (Rle_dec x 0) as [Hx|Hx].
  - rewrite cdf_mb_neg by auto. lra.
  - rewrite cdf_mb_pos by lra.
    pose proof (Rerf_lt_1 (x / sqrt 2 / a)).
    assert (0 <= sqrt (2 / PI) * x / a * exp (- x * x / 2 / a / a)); [|lra].
    apply Rmult_le_pos; [|left; apply exp_pos].
    assert (0 < / a) by (apply Rinv_0_lt_compat; lra).
    unfold Rdiv at 1. apply Rmult_le_pos; [|lra].
    apply Rmult_le_pos; [apply sqrt_pos|lra].
Qed.
Lemma mb_cdf_range a : 0 < a -> forall x, 0 <= val (cdf_maxwell_boltzmann ROps PI x a) < 1.
Proof. intros Ha x. split; [apply mb_cdf_nonneg; auto|apply mb_cdf_lt_1; auto]. Qed.

(** ** the tail: 1 - exp(-x^2) <= erf(x)^2, hence erf -> 1 at +infinity (the Gaussian integral) *)
Lemma gaussJ_le x : gaussJ x <= exp (- (x * x)) * (PI / 4).
Proof.
  assert (E : is_RInt (fun t => exp (- (x * x)) * / (1 + t ^ 2)) 0 1 (exp (- (x * x)) * (PI / 4))).
  { apply (is_RInt_scal (fun t => / (1 + t ^ 2)) 0 1 (exp (- (x * x))) (PI / 4)). apply atan_is_RInt. }
  rewrite <- (is_RInt_unique _ _ _ _ E). unfold gaussJ.
  apply RInt_le; [lra| | |].
  - apply (ex_RInt_continuous (Jf x)). intros z _. apply Jf_cont.
  - eexists; apply E.
  - intros t _. unfold Jf. pose proof (one_plus_sq_pos t) as Ht.
    replace (1 + t ^ 2) with (1 + t * t) by ring. unfold Rdiv.
    apply Rmult_le_compat_r; [left; apply Rinv_0_lt_compat; lra|].
    destruct (Req_dec (x * x * (t * t)) 0) as [Z|Z].
    + right. f_equal. lra.
    + left. apply exp_increasing. assert (0 <= x * x * (t * t)) by (apply Rmult_le_pos; nra). lra.
Qed.

Lemma Rerf_sqr_tail x : 1 - exp (- (x * x)) <= Rerf x * Rerf x.
Proof.
  rewrite Rerf_gaussI.
  pose proof (gauss_square_identity x) as H. fold (gaussI x) in H. unfold Rsqr in H.
  pose proof (gaussJ_le x). pose proof PI_RGT_0. pose proof sqrtPI_pos as Hp.
  assert (Hs : sqrt PI * sqrt PI = PI) by (apply sqrt_sqrt; lra).
  replace (2 / sqrt PI * gaussI x * (2 / sqrt PI * gaussI x))
    with (4 * (gaussI x * gaussI x) / (sqrt PI * sqrt PI)) by (field; lra).
  rewrite Hs, H.
  replace (4 * (PI / 4 - gaussJ x) / PI) with (1 - gaussJ x * (4 / PI)) by (field; lra).
  assert (gaussJ x * (4 / PI) <= exp (- (x * x))); [|lra].
  apply Rmult_le_reg_r with (PI / 4); [lra|].
  replace (gaussJ x * (4 / PI) * (PI / 4)) with (gaussJ x) by (field; lra). lra.
Qed.

Lemma Rerf_nonneg x : 0 <= x -> 0 <= Rerf x.
Proof.
  intros Hx. rewrite <- Rerf_0. apply (incr_of_deriv Rerf (fun y => 2 / sqrt PI * exp (- (y * y)))); auto.
  - intros; apply Rerf_derive.
  - intros y _. pose proof sqrtPI_pos. pose proof (exp_pos (- (y * y))).
    apply Rmult_le_pos; [apply Rlt_le, Rdiv_lt_0_compat; lra|lra].
Qed.

Lemma Rerf_tail x : 0 <= x -> 1 - exp (- (x * x)) <= Rerf x.
Proof.
  intros Hx. pose proof (Rerf_sqr_tail x). pose proof (Rerf_nonneg x Hx). pose proof (Rerf_lt_1 x). nra.
Qed.

(** erf is within eps of 1 beyond an explicit abscissa *)
Lemma Rerf_close (eps : R) : 0 < eps -> forall z, Rmax 1 (- ln eps) < z -> 1 - eps < Rerf z.
Proof.
  intros He z Hz.
  assert (1 < z) by (pose proof (Rmax_l 1 (- ln eps)); lra).
  assert (- ln eps < z) by (pose proof (Rmax_r 1 (- ln eps)); lra).
  pose proof (Rerf_tail z ltac:(lra)).
  assert (exp (- (z * z)) < eps); [|lra].
  apply Rlt_le_trans with (exp (ln eps)); [|rewrite exp_ln; lra]. apply exp_increasing. nra.
Qed.

Theorem Rerf_lim_p : is_lim Rerf p_infty 1.
Proof.
  apply is_lim_spec. intros eps. cbn. exists (Rmax 1 (- ln eps)). intros x Hx.
  pose proof (Rerf_close eps (cond_pos eps) x Hx). pose proof (Rerf_lt_1 x).
  apply Rabs_def1; lra.
Qed.
Theorem Rerf_lim_m : is_lim Rerf m_infty (-1).
Proof.
  apply is_lim_spec. intros eps. cbn. exists (- Rmax 1 (- ln eps)). intros x Hx.
  pose proof (Rerf_close eps (cond_pos eps) (- x) ltac:(lra)) as H. rewrite Rerf_odd in H.
  pose proof (Rerf_gt_m1 x).
  apply Rabs_def1; lra.
Qed.

(** limits of the normal CDF *)
Lemma gauss_cdf_limits mu s : 0 < s ->
  is_lim (fun x => cdf_gauss ROps x mu s) p_infty 1 /\ is_lim (fun x => cdf_gauss ROps x mu s) m_infty 0.
Proof.
  intros Hs. pose proof sqrt2_pos as H2.
  assert (Hp : 0 < sqrt 2 * s) by (apply Rmult_lt_0_compat; lra).
  split; apply is_lim_spec; intros eps; cbn.
  - exists (mu + sqrt 2 * s * Rmax 1 (- ln eps)). intros x Hx.
    assert (Hz : Rmax 1 (- ln eps) < (x - mu) / (sqrt 2 * s)).
    { apply Rmult_lt_reg_r with (sqrt 2 * s); auto. unfold Rdiv. rewrite Rmult_assoc, Rinv_l by lra. lra. }
    pose proof (Rerf_close eps (cond_pos eps) _ Hz). pose proof (Rerf_lt_1 ((x - mu) / (sqrt 2 * s))).
    unfold cdf_gauss; cbn. apply Rabs_def1; lra.
  - exists (mu - sqrt 2 * s * Rmax 1 (- ln eps)). intros x Hx.
    assert (Hz : Rmax 1 (- ln eps) < - ((x - mu) / (sqrt 2 * s))).
    { apply Rmult_lt_reg_r with (sqrt 2 * s); auto.
      replace (- ((x - mu) / (sqrt 2 * s)) * (sqrt 2 * s)) with (mu - x) by (field; lra). lra. }
    pose proof (Rerf_close eps (cond_pos eps) _ Hz) as H. rewrite Rerf_odd in H.
    pose proof (Rerf_gt_m1 ((x - mu) / (sqrt 2 * s))).
    unfold cdf_gauss; cbn. apply Rabs_def1; lra.
Qed.

(** limit 1 of the Maxwell-Boltzmann CDF at +infinity: erf -> 1 and u exp(-u^2/2) < 2/u -> 0 *)
Lemma sqrt_2_PI_lt_1 : sqrt (2 / PI) < 1.
Proof.
  rewrite <- sqrt_1. apply sqrt_lt_1_alt. pose proof PI2_1. pose proof PI_RGT_0.
  split; [apply Rlt_le, Rdiv_lt_0_compat; lra|].
  apply Rmult_lt_reg_r with PI; [lra|]. unfold Rdiv; rewrite Rmult_assoc, Rinv_l by lra. lra.
Qed.

Lemma mb_cdf_limit a : 0 < a -> is_lim (fun x => val (cdf_maxwell_boltzmann ROps PI x a)) p_infty 1.
Proof.
  intros Ha. pose proof sqrt2_pos as H2.
  apply is_lim_spec; intros eps; cbn. destruct eps as [e He]; cbn.
  assert (He2 : 0 < e / 2) by lra.
  set (M1 := Rmax 1 (- ln (e / 2))).
  exists (Rmax (sqrt 2 * a * M1) (4 * a / e)). intros x Hx.
  assert (Hx1 : sqrt 2 * a * M1 < x) by (pose proof (Rmax_l (sqrt 2 * a * M1) (4 * a / e)); lra).
  assert (Hx2 : 4 * a / e < x) by (pose proof (Rmax_r (sqrt 2 * a * M1) (4 * a / e)); lra).
  assert (0 < 4 * a / e) by (apply Rdiv_lt_0_compat; lra).
  assert (Hxp : 0 < x) by lra.
  rewrite cdf_mb_pos by lra.
  assert (Hz : M1 < x / sqrt 2 / a).
  { apply Rmult_lt_reg_r with (sqrt 2 * a); [nra|].
    replace (x / sqrt 2 / a * (sqrt 2 * a)) with x by (field; lra). lra. }
  pose proof (Rerf_close (e / 2) He2 _ Hz). pose proof (Rerf_lt_1 (x / sqrt 2 / a)).
  set (w := x * x / 2 / a / a).
  assert (Hw : 0 < w) by (unfold w; repeat apply Rdiv_lt_0_compat; nra).
  replace (- x * x / 2 / a / a) with (- w) by (unfold w; field; lra).
  assert (Hexp : exp (- w) < / w).
  { rewrite exp_Ropp. apply Rinv_lt_contravar; [apply Rmult_lt_0_compat; [lra|apply exp_pos]|].
    pose proof (exp_ineq1 w ltac:(lra)). lra. }
  pose proof sqrt_2_PI_lt_1 as Hsq. pose proof (sqrt_pos (2 / PI)) as Hs0.
  set (q := x / a). assert (Hq : 0 < q) by (apply Rdiv_lt_0_compat; lra).
  replace (sqrt (2 / PI) * x / a) with (sqrt (2 / PI) * q) by (unfold q; field; lra).
  pose proof (exp_pos (- w)) as HE.
  assert (Hqw : q * / w = 2 * a / x) by (unfold q, w; field; lra).
  assert (Hax : 2 * a / x < e / 2).
  { apply Rmult_lt_reg_r with x; [lra|]. replace (2 * a / x * x) with (2 * a) by (field; lra).
    replace (2 * a) with (e / 2 * (4 * a / e)) by (field; lra). apply Rmult_lt_compat_l; lra. }
  set (E := exp (- w)) in *. set (s := sqrt (2 / PI)) in *.
  assert (0 <= s * q * E) by (apply Rmult_le_pos; [apply Rmult_le_pos|]; lra).
  assert (s * q * E < e / 2).
  { apply Rle_lt_trans with (q * E).
    - rewrite (Rmult_assoc s). rewrite <- (Rmult_1_l (q * E)) at 2.
      apply Rmult_le_compat_r; [apply Rmult_le_pos; lra|lra].
    - apply Rlt_trans with (q * / w); [apply Rmult_lt_compat_l; lra|lra]. }
  apply Rabs_def1; lra.
Qed.
