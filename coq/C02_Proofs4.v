(** * C02 proofs, fourth part: no answer without a Ridder pass, on every instance of the number interface.
    A request whose end values are no NaNs and have opposite signs is never answered from the bracket ends alone,
    however large the accuracy (the width of the bracket and beyond included): the first pass of the loop always
    runs, i.e. the function is evaluated at the midpoint and at Ridder's point of the original bracket, and when
    nothing else is evaluated the answer IS that Ridder point.  Together with [linear_exact] (over the reals the
    Ridder point of a linear function is its root) this is "linear functions are solved exactly" at the top of
    the accuracy range, where every point of the bracket satisfies the accuracy clause.  No law of arithmetic is
    used, so the statement holds for IEEE doubles, rounding, infinities and NaN abscissae included. *)
From Coq Require Import Reals ZArith Lra Lia List Bool.
From LP Require Import Num NumR C02_Model C02_Proofs.
Import ListNotations.

Section AnyInstance.
Context {T : Type} (Ops : NumOps T).

(** the two abscissae of a pass from the bracket (x1,x2) with end values (f1,f2): the code of [step] *)
Definition mid_any (x1 x2 : T) : T := nadd Ops (nmul Ops (ndec Ops 1 2) x1) (nmul Ops (ndec Ops 1 2) x2).
Definition ridder_any (f : T -> T) (x1 x2 f1 f2 : T) : T :=
  let x3 := mid_any x1 x2 in
  let f3 := f x3 in
  let sc := nmax Ops (nabs Ops f3) (nmax Ops (nabs Ops f1) (nabs Ops f2)) in
  let g1 := ndiv Ops f1 sc in let g2 := ndiv Ops f2 sc in let g3 := ndiv Ops f3 sc in
  let x4s := nadd Ops x3 (ndiv Ops (nmul Ops (nmul Ops (nsub Ops x3 x1) (nofZ Ops (sign1 Ops (nsub Ops g1 g2)))) g3)
                                   (nsqrt Ops (nsub Ops (nmul Ops g3 g3) (nmul Ops g1 g2)))) in
  let x4r := if nisnan Ops x4s then x3 else x4s in
  nmax Ops (nmin Ops x1 x2) (nmin Ops (nmax Ops x1 x2) x4r).

(** shape of one pass: two evaluations, at the midpoint and at Ridder's point; a number returned by the pass is
    Ridder's point, and so is the [result] variable of a pass that continues *)
Lemma step_shape (f : T -> T) (acc : T) (s : st) :
  let x3 := mid_any (sx1 s) (sx2 s) in
  let x4 := ridder_any f (sx1 s) (sx2 s) (sf1 s) (sf2 s) in
  snd (step Ops f acc s) = [x3; x4] /\
  match fst (step Ops f acc s) with
  | inl (Ok (x, h)) => x = x4 /\ (h = HF4Zero \/ h = HBracket)
  | inl Exit => True
  | inl _ => False
  | inr s' => sres s' = x4
  end.
Proof.
  cbv zeta. unfold step, ridder_any, mid_any. cbv zeta.
  repeat match goal with |- context [if ?c then _ else _] => destruct c end; cbn [fst snd sres];
    (split; [reflexivity|]); try exact I; try reflexivity; (split; [reflexivity|]); auto.
Qed.

(** the loop evaluates the function at least once, whatever its fuel *)
Lemma loop_trace_nonempty (f : T -> T) (acc : T) : forall n s, snd (loop Ops f acc n s) <> [].
Proof.
  intros [|n] s; cbn [loop]; [cbn; discriminate|].
  pose proof (step_shape f acc s) as [Tr _]. cbv zeta in Tr.
  destruct (step Ops f acc s) as [[o|s'] tr]; cbn [snd] in *; subst tr; [cbn; discriminate|].
  destruct (loop Ops f acc n s') as [o2 tr2]. cbn. discriminate.
Qed.

Theorem first_pass_always_runs (f : T -> T) (a b acc : T) :
  let xl := if ngtb Ops a b then b else a in
  let xr := if ngtb Ops a b then a else b in
  nisnan Ops (f xl) = false -> nisnan Ops (f xr) = false ->
  (sign1 Ops (f xl) * sign1 Ops (f xr) <? 0)%Z = true ->
  let x3 := mid_any xl xr in
  let x4 := ridder_any f xl xr (f xl) (f xr) in
  exists o tr', find_root_h Ops f a b acc = (o, xl :: xr :: x3 :: x4 :: tr') /\
                (tr' = [] -> o = Exit \/ exists h, o = Ok (x4, h) /\ (h = HF4Zero \/ h = HBracket)).
Proof.
  cbv zeta. intros N1 N2 Hs. unfold find_root_h.
  set (xl := if ngtb Ops a b then b else a) in *. set (xr := if ngtb Ops a b then a else b) in *.
  rewrite N1, N2. cbn [orb].
  assert (G : (sign1 Ops (f xl) * sign1 Ops (f xr) >=? 0)%Z = false).
  { apply Z.ltb_lt in Hs. rewrite Z.geb_leb. apply Z.leb_gt. exact Hs. }
  rewrite G. rewrite max_iterations_S. cbn [loop].
  set (s0 := mkst xl xr (f xl) (f xr) _).
  pose proof (step_shape f acc s0) as [Tr Sh]. cbv zeta in Tr, Sh. cbn [sx1 sx2 sf1 sf2 s0] in Tr, Sh.
  destruct (step Ops f acc s0) as [[o|s'] tr]; cbn [fst snd] in *; subst tr.
  - exists o, []. split; [reflexivity|]. intros _.
    destruct o as [[x h]| | |]; try contradiction; [|left; reflexivity].
    destruct Sh as [-> Hh]. right. exists h. split; [reflexivity|exact Hh].
  - pose proof (loop_trace_nonempty f acc (Nat.pred max_iterations) s') as NE.
    destruct (loop Ops f acc (Nat.pred max_iterations) s') as [o2 tr2]. cbn [snd] in NE.
    exists o2, tr2. split; [reflexivity|]. intros E. contradiction.
Qed.
End AnyInstance.

(** over the reals the abscissae of [first_pass_always_runs] for a linear function are the midpoint and the root:
    the request of the seeded demo, 3 (x - 1/3) on [0,2] with accuracy 2 (the width), is answered 1/3 (not the
    midpoint 1) after the four evaluations 0, 2, 1, 1/3 *)
Local Open Scope R_scope.
Example top_edge_linear_example :
  find_root ROps (fun x => 3 * x + -1) 0 2 2 = (Ok (- -1 / 3), [0; 2; (0 + 2) / 2; - -1 / 3]).
Proof.
  pose proof (linear_exact 3 (-1) 0 2 2) as L. rewrite Rmin_left, Rmax_right in L by lra. apply L. lra.
Qed.

(** non-vacuity of [first_pass_always_runs] on the instance of the reals: the same request *)
Example first_pass_example :
  exists o tr', find_root_h ROps (fun x => 3 * x + -1) 0 2 2 =
                (o, 0 :: 2 :: mid_any ROps 0 2 :: ridder_any ROps (fun x => 3 * x + -1) 0 2 (3 * 0 + -1) (3 * 2 + -1) :: tr').
Proof.
  pose proof (first_pass_always_runs ROps (fun x => 3 * x + -1) 0 2 2) as H. cbv zeta in H.
  assert (G : ngtb ROps 0 2 = false).
  { unfold ngtb. cbn. destruct (Rltb_spec 2 0); [lra|reflexivity]. }
  rewrite G in H.
  assert (S1 : sign1 ROps (3 * 0 + -1) = (-1)%Z).
  { destruct (sign1_cases (3 * 0 + -1)) as [[A _]|[[A _]|[_ A]]]; [lra|lra|exact A]. }
  assert (S2 : sign1 ROps (3 * 2 + -1) = 1%Z).
  { destruct (sign1_cases (3 * 2 + -1)) as [[_ A]|[[A _]|[A _]]]; [exact A|lra|lra]. }
  destruct (H eq_refl eq_refl) as (o & tr' & E & _).
  { rewrite S1, S2. reflexivity. }
  exists o, tr'. exact E.
Qed.
