(** * C16 model: Rotation_Matrix, both Spherical_Coordinates, Angle and the Vector / Matrix helpers they use
    (src/Linear_Algebra.cpp).  Hand-written, one Gallina expression per C++ expression (same operation
    order, same comparisons, same literals); tied to the code by the differential correspondence check
    (harness/C16.cpp vs the extraction of this file). *)
From Coq Require Import ZArith List Bool.
From LP Require Import Num.
Import ListNotations.

Section C16.
Context {T : Type} (Ops : NumOps T).
Declare Scope num_scope.
Local Notation "x + y" := (nadd Ops x y) : num_scope.
Local Notation "x - y" := (nsub Ops x y) : num_scope.
Local Notation "x * y" := (nmul Ops x y) : num_scope.
Local Notation "x / y" := (ndiv Ops x y) : num_scope.
Local Notation "- x" := (nneg Ops x) : num_scope.
Delimit Scope num_scope with num.
Local Open Scope num_scope.
Let zero := n0 Ops.
Let one := n1 Ops.

(** Vector::Dot: result = 0; result += components[i] * rhs[i]   (differing dimensions: exit) *)
Definition vdot (a b : list T) : T :=
  fold_left (fun acc p => acc + fst p * snd p) (combine a b) zero.
Definition dot (a b : list T) : res T :=
  if Nat.eqb (length a) (length b) then Ok (vdot a b) else Exit.
(** Vector::Norm = sqrt(Dot(this)) *)
Definition vnorm (a : list T) : T := nsqrt Ops (vdot a a).
(** Vector::Normalized / Normalize: components[i] / norm *)
Definition vnormalized (a : list T) : list T := let norm := vnorm a in map (fun c => c / norm) a.
(** Vector::Cross (only for two 3-vectors) *)
Definition cross (a b : list T) : res (list T) :=
  match a, b with
  | [a0; a1; a2], [b0; b1; b2] => Ok [a1 * b2 - a2 * b1; a2 * b0 - a0 * b2; a0 * b1 - a1 * b0]
  | _, _ => Exit
  end.
(** operator*(double s, const Vector& v): v[i] * s *)
Definition vscale_left (s : T) (v : list T) : list T := map (fun c => c * s) v.

(** Matrix::Product(const Matrix&): result(rows, M.Columns(), 0.0); result[i][j] += components[i][k] * M[k][j]
    (k ascending); conformable operands only (the harness multiplies 3x3 by 3x3). *)
Definition mcol (m : list (list T)) (j : nat) : list T := map (fun row => nth0 Ops row j) m.
Definition mmul (a b : list (list T)) : list (list T) :=
  let cols := match b with [] => 0%nat | r :: _ => length r end in
  map (fun row => map (fun j => vdot row (mcol b j)) (seq 0 cols)) a.
(** Matrix::Product(const Vector&): result_components[i] += components[i][j] * v_rhs[j] from 0.0 *)
Definition mvec (a : list (list T)) (v : list T) : list T := map (fun row => vdot row v) a.

(** Rotation_Matrix(alpha, dim, axis) *)
Definition rotation_matrix (alpha : T) (dim : Z) (axis : list T) : res (list (list T)) :=
  let cosa := ncos Ops alpha in
  let sina := nsin Ops alpha in
  if (dim =? 2)%Z then
    Ok [[cosa; - sina];
        [sina; cosa]]
  else if (dim =? 3)%Z then
    match axis with
    | [_; _; _] =>
        let ax := vnormalized axis in          (* axis.Normalize() *)
        let m1 := nth0 Ops ax 0 in
        let m2 := nth0 Ops ax 1 in
        let m3 := nth0 Ops ax 2 in
        Ok [[cosa + m1 * m1 * (one - cosa); m1 * m2 * (one - cosa) - m3 * sina; m1 * m3 * (one - cosa) + m2 * sina];
            [m1 * m2 * (one - cosa) + m3 * sina; cosa + m2 * m2 * (one - cosa); m2 * m3 * (one - cosa) - m1 * sina];
            [m1 * m3 * (one - cosa) - m2 * sina; m2 * m3 * (one - cosa) + m1 * sina; cosa + m3 * m3 * (one - cosa)]]
    | _ => Exit
    end
  else Exit.

(** Spherical_Coordinates(r, theta, phi) *)
Definition spherical (r theta phi : T) : list T :=
  [r * nsin Ops theta * ncos Ops phi; r * nsin Ops theta * nsin Ops phi; r * ncos Ops theta].

(** the two other branches of Spherical_Coordinates(r, theta, phi, axis), as functions of ev and aux *)
Definition spherical_antiparallel (r theta phi : T) : list T :=
  [r * nsin Ops theta * ncos Ops phi; - r * nsin Ops theta * nsin Ops phi; - r * ncos Ops theta].
Definition spherical_general (r theta phi ev0 ev1 ev2 aux : T) : list T :=
  let cos_theta := ncos Ops theta in
  let sin_theta := nsin Ops theta in
  let cos_phi := ncos Ops phi in
  let sin_phi := nsin Ops phi in
  let unit_vector :=
    [cos_theta * ev0 + sin_theta / aux * (ev0 * ev2 * cos_phi - ev1 * sin_phi);
     cos_theta * ev1 + sin_theta / aux * (ev1 * ev2 * cos_phi + ev0 * sin_phi);
     cos_theta * ev2 - aux * cos_phi * sin_theta] in
  vscale_left r unit_vector.

(** Spherical_Coordinates(r, theta, phi, axis); ev[0], ev[1], ev[2] go through Vector::operator[], which
    exits for an axis with fewer than three components.  [hypot] stands for std::hypot, which is not a
    NumOps primitive: the theorems instantiate it with its specification sqrt(x*x + y*y), the float
    instance with libm's hypot (Float.hypot in the driver). *)
Definition spherical_axis (hypot : T -> T -> T) (r theta phi : T) (axis : list T) : res (list T) :=
  match axis with
  | _ :: _ :: _ :: _ =>
      let ev := vnormalized axis in
      let ev0 := nth0 Ops ev 0 in
      let ev1 := nth0 Ops ev 1 in
      let ev2 := nth0 Ops ev 2 in
      let aux := hypot ev0 ev1 in
      if neqb Ops (vnorm axis) zero || (neqb Ops aux zero && ngtb Ops ev2 zero) then
        Ok (spherical r theta phi)
      else if neqb Ops aux zero then
        Ok (spherical_antiparallel r theta phi)
      else
        Ok (spherical_general r theta phi ev0 ev1 ev2 aux)
  | [_; _] =>
      (* ev[2] is only evaluated (and exits) when axis.Norm() == 0.0 is false *)
      if neqb Ops (vnorm axis) zero then Ok (spherical r theta phi) else Exit
  | _ => Exit
  end.

(** Angle(v1, v2) = acos(v1 * v2 / (v1.Norm() * v2.Norm()))   (operator*(Vector) is Dot: differing dimensions exit) *)
Definition angle (v1 v2 : list T) : res T :=
  (* acos(std::max(std::min(cosine, 1.0), -1.0)): the quotient of (anti)parallel vectors can round an ulp past +-1 *)
  rbind (dot v1 v2) (fun d => Ok (nacos Ops (nmax Ops (nmin Ops (d / (vnorm v1 * vnorm v2)) (n1 Ops)) (nneg Ops (n1 Ops))))).

(** ** Call histories of the argument objects.

    A Vector / Matrix handed to Rotation_Matrix, Spherical_Coordinates, Angle or to a product has a past: it was
    constructed, copied, assigned, changed in place (operator[] writes, +=, -=, Resize, Assign, Normalize) and asked
    questions (Norm, Dot, Angle, earlier Rotation_Matrix / Spherical_Coordinates calls with the same object).  The
    class has exactly two data members, [components] and [dimension] (= components.size(): the class invariant, a
    theorem of C04), so an object IS its list of components, every const member and every copy leaves it alone and
    every mutator is the function below.  [vstep] / [mstep] are one step of such a history, mirrored member by member;
    the harness applies the same steps to one live C++ object and then passes that object. *)
(** operator+ / operator+= (components[i] + v[i]) and operator- / operator-=: differing dimensions exit *)
Definition vzip (f : T -> T -> T) (a b : list T) : res (list T) :=
  if Nat.eqb (length a) (length b) then Ok (map (fun p => f (fst p) (snd p)) (combine a b)) else Exit.
Definition vadd (a b : list T) : res (list T) := vzip (nadd Ops) a b.
Definition vsub (a b : list T) : res (list T) := vzip (nsub Ops) a b.
(** operator*(double s) and operator*(double s, const Vector&): components[i] * s;  operator/(double s): components[i] / s *)
Definition vdivs (v : list T) (s : T) : list T := map (fun c => c / s) v.
(** std::vector::resize(n): keeps the first n, value-initialises the rest *)
Definition lresize {A} (d : A) (n : nat) (l : list A) : list A := firstn n l ++ repeat d (n - length l).
(** v[i] = x through double& operator[] (i >= dimension exits) *)
Definition vset (v : list T) (i : nat) (x : T) : res (list T) :=
  if Nat.leb (length v) i then Exit else Ok (firstn i v ++ x :: skipn (S i) v).
(** v[i] read through either operator[] *)
Definition vread (v : list T) (i : nat) : res T :=
  if Nat.leb (length v) i then Exit else Ok (nth0 Ops v i).

Inductive vstep : Type :=
| VSet (i : nat) (x : T)            (* v[i] = x *)
| VAddAssign (w : list T)           (* v += w *)
| VSubAssign (w : list T)           (* v -= w *)
| VAddSelf                          (* v += v *)
| VSubSelf                          (* v -= v *)
| VPlus (w : list T)                (* v = v + w *)
| VMinus (w : list T)               (* v = v - w *)
| VTimes (s : T)                    (* v = v * s   and   v = s * v *)
| VDivide (s : T)                   (* v = v / s *)
| VResize (n : nat)                 (* v.Resize(n) *)
| VAssign (n : nat) (x : T)         (* v.Assign(n, x) *)
| VNormalize                        (* v.Normalize() *)
| VNormalizedAssign                 (* v = v.Normalized() *)
| VCrossAssign (w : list T)         (* v = v.Cross(w) *)
| VDefault                          (* v = Vector() *)
| VCopy                             (* the object is replaced by Vector(v) / assigned through other objects / to itself *)
| VQNorm                            (* v.Norm(), v.Normalized(), v.Size(), operator<< : const, result dropped *)
| VQDot (w : list T)                (* v.Dot(w), v * w, w * v, v == w *)
| VQRead (i : nat)                  (* v[i] read, const or not *)
| VQCross (w : list T)              (* v.Cross(w) dropped *)
| VQAngle (w : list T)              (* Angle(v, w), Angle(w, v) dropped *)
| VCallSpherical (r theta phi : T)  (* Spherical_Coordinates(r, theta, phi, v) dropped *)
| VCallRotation (alpha : T) (dim : Z) (* Rotation_Matrix(alpha, dim, v) dropped *).

Definition keep {A B} (v : A) (x : res B) : res A := rbind x (fun _ => Ok v).

Definition vstep_apply (hypot : T -> T -> T) (v : list T) (s : vstep) : res (list T) :=
  match s with
  | VSet i x => vset v i x
  | VAddAssign w | VPlus w => vadd v w
  | VSubAssign w | VMinus w => vsub v w
  | VAddSelf => vadd v v
  | VSubSelf => vsub v v
  | VTimes s => Ok (vscale_left s v)
  | VDivide s => Ok (vdivs v s)
  | VResize n => Ok (lresize zero n v)
  | VAssign n x => Ok (repeat x n)
  | VNormalize | VNormalizedAssign => Ok (vnormalized v)
  | VCrossAssign w => cross v w
  | VDefault => Ok [zero; zero; zero]
  | VCopy | VQNorm => Ok v
  | VQDot w => keep v (dot v w)
  | VQRead i => keep v (vread v i)
  | VQCross w => keep v (cross v w)
  | VQAngle w => keep v (angle v w)
  | VCallSpherical r theta phi => keep v (spherical_axis hypot r theta phi v)
  | VCallRotation alpha dim => keep v (rotation_matrix alpha dim v)
  end.

(** the object after a whole history *)
Fixpoint vhistory (hypot : T -> T -> T) (v : list T) (h : list vstep) : res (list T) :=
  match h with
  | [] => Ok v
  | s :: h' => rbind (vstep_apply hypot v s) (fun v' => vhistory hypot v' h')
  end.

(** Rotation_Matrix(alpha, dim, obj) and Spherical_Coordinates(r, theta, phi, obj) for an object constructed from [start]
    that has lived through the history [h] (what the driver runs for `hist rot` / `hist spha`) *)
Definition rotation_of_object (hypot : T -> T -> T) (alpha : T) (dim : Z) (start : list T) (h : list vstep) : res (list (list T)) :=
  rbind (vhistory hypot start h) (fun axis => rotation_matrix alpha dim axis).
Definition spherical_of_object (hypot : T -> T -> T) (r theta phi : T) (start : list T) (h : list vstep) : res (list T) :=
  rbind (vhistory hypot start h) (fun axis => spherical_axis hypot r theta phi axis).

(** Matrix: components (rows of equal length), rows = components.size(), columns = components[0].size() for the
    shapes with at least one row that the histories produce. *)
Definition mrowsn (m : list (list T)) : nat := length m.
Definition mcolsn (m : list (list T)) : nat := match m with [] => 0%nat | r :: _ => length r end.
(** Plus / operator+ / operator+= (components[i][j] + M[i][j]), Minus / operator- / operator-=: other shapes exit *)
Definition mzip (f : T -> T -> T) (a b : list (list T)) : res (list (list T)) :=
  if Nat.eqb (mrowsn a) (mrowsn b) && Nat.eqb (mcolsn a) (mcolsn b)
  then Ok (map (fun p => map (fun q => f (fst q) (snd q)) (combine (fst p) (snd p))) (combine a b)) else Exit.
(** Transpose: result[j][i] = components[i][j] *)
Definition mtranspose (m : list (list T)) : list (list T) := map (fun j => mcol m j) (seq 0 (mcolsn m)).
(** Product(double s): s * components[i][j];  Division(double s): components[i][j] / s *)
Definition mscale (s : T) (m : list (list T)) : list (list T) := map (map (fun c => s * c)) m.
Definition mdivs (m : list (list T)) (s : T) : list (list T) := map (map (fun c => c / s)) m.
(** Resize(row, col): components.resize(row); each row .resize(col) *)
Definition mresize (row col : nat) (m : list (list T)) : list (list T) :=
  map (lresize zero col) (lresize [] row m).

Inductive mstep : Type :=
| MAddAssign (z : list (list T))    (* M += Z *)
| MSubAssign (z : list (list T))    (* M -= Z *)
| MPlus (z : list (list T))         (* M = M + Z  (Plus) *)
| MMinus (z : list (list T))        (* M = M - Z  (Minus) *)
| MTransposeAssign                  (* M = M.Transpose() *)
| MTimes (s : T)                    (* M = M * s  and  M = s * M *)
| MDivide (s : T)                   (* M = M / s *)
| MResize (row col : nat)           (* M.Resize(row, col) *)
| MKeep                             (* copies, assignments, M[i][j] = M[i][j], and the const members (Determinant, Inverse,
                                       Orthogonal, Trace, Norm, Transpose, Return_Row ...) with their result dropped, on the square
                                       non-singular matrices on which they return *).

Definition mstep_apply (m : list (list T)) (s : mstep) : res (list (list T)) :=
  match s with
  | MAddAssign z | MPlus z => mzip (nadd Ops) m z
  | MSubAssign z | MMinus z => mzip (nsub Ops) m z
  | MTransposeAssign => Ok (mtranspose m)
  | MTimes s => Ok (mscale s m)
  | MDivide s => Ok (mdivs m s)
  | MResize row col => Ok (mresize row col m)
  | MKeep => Ok m
  end.
Fixpoint mhistory (m : list (list T)) (h : list mstep) : res (list (list T)) :=
  match h with
  | [] => Ok m
  | s :: h' => rbind (mstep_apply m s) (fun m' => mhistory m' h')
  end.

(** operator*(const Vector& v_left, const Matrix& M): result[i] += v_left[j] * M[j][i] from 0.0 (v R = R^T v) *)
Definition vecm (v : list T) (m : list (list T)) : res (list T) :=
  if Nat.eqb (length v) (mrowsn m) then Ok (map (fun i => vdot v (mcol m i)) (seq 0 (mcolsn m))) else Exit.

(** ** Histories of CALLS in one process.

    Rotation_Matrix, both Spherical_Coordinates and Angle are free functions; as the source stands none of them (and none of the
    Vector / Matrix members they use) has a function-local static, a global or a cache: every local (cosa, sina, ev, aux, ...)
    is computed from the arguments of the call.  The state a history of calls leaves behind is therefore empty, and the
    model of `call_1; ...; call_m` in one process is the list of the answers of the calls, made one after the other (the
    first call that exits ends the process).  The harness makes the same calls in one process that has run nothing
    else, on temporaries or on live Vector objects that serve several calls. *)
Inductive call : Type :=
| CRot (alpha : T) (dim : Z) (axis : list T)        (* Rotation_Matrix(alpha, dim, axis) *)
| CRotDefault (alpha : T) (dim : Z)                 (* Rotation_Matrix(alpha, dim): the default axis Vector({0, 0, 1}) *)
| CSph (r theta phi : T)                            (* Spherical_Coordinates(r, theta, phi) *)
| CSphAxis (r theta phi : T) (axis : list T)        (* Spherical_Coordinates(r, theta, phi, axis) *)
| CAngle (a b : list T)                             (* Angle(a, b) *).
Inductive answer : Type :=
| AMat (m : list (list T))
| AVec (v : list T)
| ANum (x : T).

Definition call_answer (hypot : T -> T -> T) (c : call) : res answer :=
  match c with
  | CRot alpha dim axis => rbind (rotation_matrix alpha dim axis) (fun m => Ok (AMat m))
  | CRotDefault alpha dim => rbind (rotation_matrix alpha dim [zero; zero; one]) (fun m => Ok (AMat m))
  | CSph r theta phi => Ok (AVec (spherical r theta phi))
  | CSphAxis r theta phi axis => rbind (spherical_axis hypot r theta phi axis) (fun v => Ok (AVec v))
  | CAngle a b => rbind (angle a b) (fun x => Ok (ANum x))
  end.

(** the answers of a history of calls made in one process *)
Fixpoint calls_run (hypot : T -> T -> T) (cs : list call) : res (list answer) :=
  match cs with
  | [] => Ok []
  | c :: cs' => rbind (call_answer hypot c) (fun a => rbind (calls_run hypot cs') (fun l => Ok (a :: l)))
  end.

(** ** Chains of rotations: the product of any number of rotation matrices, built with the library's own Matrix product.

      Matrix P = Identity_Matrix(dim);  double sum = 0.0;
      for k = 1 .. n:  P = P * Rotation_Matrix(alpha_k, dim, axis_k);  sum += alpha_k;

    Identity_Matrix(dim) = Matrix(std::vector<double>(dim, 1.0)): zeros with 1.0 on the diagonal.  All factors have the same
    [dim], so the operands of Matrix::Product are conformable whenever the Rotation_Matrix calls return. *)
Definition midentity (n : nat) : list (list T) :=
  map (fun i => map (fun j => if Nat.eqb i j then one else zero) (seq 0 n)) (seq 0 n).
Definition angle_sum (angles : list T) : T := fold_left (fun acc a => acc + a) angles zero.
Definition rot_chain_step (dim : Z) (acc : res (list (list T))) (f : T * list T) : res (list (list T)) :=
  rbind acc (fun P => rbind (rotation_matrix (fst f) dim (snd f)) (fun Rm => Ok (mmul P Rm))).
Definition rot_chain (dim : Z) (fs : list (T * list T)) : res (list (list T)) :=
  fold_left (rot_chain_step dim) fs (Ok (midentity (Z.to_nat dim))).

(** ** The library's own observers of "determinant one" and of the angle: Matrix::Determinant() and Matrix::Trace().

    Trace(): rows != columns exits; tr = 0.0; tr += components[i][i].
    Sub_Matrix(0, j): a copy with Delete_Row(0) and Delete_Column(j) (components[i].erase(begin + j)).
    Determinant(): not Square() exits; rows == 1: components[0][0]; rows == 2: c00 * c11 - c01 * c10; otherwise
      factors[j] = ((j % 2 == 0) ? +1.0 : -1.0) * components[0][j];  det = 0.0;  det += factors[j] * Sub_Matrix(0, j).Determinant()
    (Laplace expansion along the first row; the recursion depth is the number of rows: [fuel]). *)
Definition mentry (m : list (list T)) (i j : nat) : T := nth0 Ops (nth i m []) j.
Definition mtrace (m : list (list T)) : res T :=
  if Nat.eqb (mrowsn m) (mcolsn m)
  then Ok (fold_left (fun tr i => tr + mentry m i i) (seq 0 (mrowsn m)) zero) else Exit.
Definition ldel {A} (j : nat) (l : list A) : list A := firstn j l ++ skipn (S j) l.
Definition msub0 (j : nat) (m : list (list T)) : list (list T) := map (ldel j) (tl m).
Definition lap_sign (j : nat) : T := if Nat.even j then one else - one.
Fixpoint mdet_fuel (fuel : nat) (m : list (list T)) : res T :=
  if negb (Nat.eqb (mrowsn m) (mcolsn m)) then Exit
  else if Nat.eqb (mrowsn m) 1 then Ok (mentry m 0 0)
  else if Nat.eqb (mrowsn m) 2 then Ok (mentry m 0 0 * mentry m 1 1 - mentry m 0 1 * mentry m 1 0)
  else
    match fuel with
    | O => Fuel
    | S f =>
        fold_left (fun acc j => rbind acc (fun det => rbind (mdet_fuel f (msub0 j m)) (fun d =>
                     Ok (det + (lap_sign j * mentry m 0 j) * d))))
                  (seq 0 (mcolsn m)) (Ok zero)
    end.
Definition mdet (m : list (list T)) : res T := mdet_fuel (S (mrowsn m)) m.
(** Determinant() and Trace() of the product of a chain of rotations (the harness asks the live product object both questions) *)
Definition rot_chain_det_trace (dim : Z) (fs : list (T * list T)) : res (T * T) :=
  rbind (rot_chain dim fs) (fun P => rbind (mdet P) (fun d => rbind (mtrace P) (fun t => Ok (d, t)))).
(** ... and of one Rotation_Matrix(alpha, dim, axis) *)
Definition rotation_det_trace (alpha : T) (dim : Z) (axis : list T) : res (T * T) :=
  rbind (rotation_matrix alpha dim axis) (fun Rm => rbind (mdet Rm) (fun d => rbind (mtrace Rm) (fun t => Ok (d, t)))).

End C16.
