(** * C16 model: Rotation_Matrix, both Spherical_Coordinates, Angle and the Vector / Matrix helpers they use
    (src/Linear_Algebra.cpp).  Hand-written, one Gallina expression per C++ expression (same operation
    order, same comparisons, same literals); tied to the code by the differential correspondence check
    (harness/C16.cpp vs the extraction of this file). *)
From Coq Require Import ZArith List Bool.
From LP Require Import Num.
Import ListNotations.

Section C16.
Context {T : Type} (Ops : NumOps T).
Declare Scope num_scope.
Local Notation "x + y" := (nadd Ops x y) : num_scope.
Local Notation "x - y" := (nsub Ops x y) : num_scope.
Local Notation "x * y" := (nmul Ops x y) : num_scope.
Local Notation "x / y" := (ndiv Ops x y) : num_scope.
Local Notation "- x" := (nneg Ops x) : num_scope.
Delimit Scope num_scope with num.
Local Open Scope num_scope.
Let zero := n0 Ops.
Let one := n1 Ops.

(** Vector::Dot: result = 0; result += components[i] * rhs[i]   (differing dimensions: exit) *)
Definition vdot (a b : list T) : T :=
  fold_left (fun acc p => acc + fst p * snd p) (combine a b) zero.
Definition dot (a b : list T) : res T :=
  if Nat.eqb (length a) (length b) then Ok (vdot a b) else Exit.
(** Vector::Norm = sqrt(Dot(this)) *)
Definition vnorm (a : list T) : T := nsqrt Ops (vdot a a).
(** Vector::Normalized / Normalize: components[i] / norm *)
Definition vnormalized (a : list T) : list T := let norm := vnorm a in map (fun c => c / norm) a.
(** Vector::Cross (only for two 3-vectors) *)
Definition cross (a b : list T) : res (list T) :=
  match a, b with
  | [a0; a1; a2], [b0; b1; b2] => Ok [a1 * b2 - a2 * b1; a2 * b0 - a0 * b2; a0 * b1 - a1 * b0]
  | _, _ => Exit
  end.
(** operator*(double s, const Vector& v): v[i] * s *)
Definition vscale_left (s : T) (v : list T) : list T := map (fun c => c * s) v.

(** Matrix::Product(const Matrix&): result(rows, M.Columns(), 0.0); result[i][j] += components[i][k] * M[k][j]
    (k ascending); conformable operands only (the harness multiplies 3x3 by 3x3). *)
Definition mcol (m : list (list T)) (j : nat) : list T := map (fun row => nth0 Ops row j) m.
Definition mmul (a b : list (list T)) : list (list T) :=
  let cols := match b with [] => 0%nat | r :: _ => length r end in
  map (fun row => map (fun j => vdot row (mcol b j)) (seq 0 cols)) a.
(** Matrix::Product(const Vector&): result_components[i] += components[i][j] * v_rhs[j] from 0.0 *)
Definition mvec (a : list (list T)) (v : list T) : list T := map (fun row => vdot row v) a.

(** Rotation_Matrix(alpha, dim, axis) *)
Definition rotation_matrix (alpha : T) (dim : Z) (axis : list T) : res (list (list T)) :=
  let cosa := ncos Ops alpha in
  let sina := nsin Ops alpha in
  if (dim =? 2)%Z then
    Ok [[cosa; - sina];
        [sina; cosa]]
  else if (dim =? 3)%Z then
    match axis with
    | [_; _; _] =>
        let ax := vnormalized axis in          (* axis.Normalize() *)
        let m1 := nth0 Ops ax 0 in
        let m2 := nth0 Ops ax 1 in
        let m3 := nth0 Ops ax 2 in
        Ok [[cosa + m1 * m1 * (one - cosa); m1 * m2 * (one - cosa) - m3 * sina; m1 * m3 * (one - cosa) + m2 * sina];
            [m1 * m2 * (one - cosa) + m3 * sina; cosa + m2 * m2 * (one - cosa); m2 * m3 * (one - cosa) - m1 * sina];
            [m1 * m3 * (one - cosa) - m2 * sina; m2 * m3 * (one - cosa) + m1 * sina; cosa + m3 * m3 * (one - cosa)]]
    | _ => Exit
    end
  else Exit.

(** Spherical_Coordinates(r, theta, phi) *)
Definition spherical (r theta phi : T) : list T :=
  [r * nsin Ops theta * ncos Ops phi; r * nsin Ops theta * nsin Ops phi; r * ncos Ops theta].

(** the two other branches of Spherical_Coordinates(r, theta, phi, axis), as functions of ev and aux *)
Definition spherical_antiparallel (r theta phi : T) : list T :=
  [r * nsin Ops theta * ncos Ops phi; - r * nsin Ops theta * nsin Ops phi; - r * ncos Ops theta].
Definition spherical_general (r theta phi ev0 ev1 ev2 aux : T) : list T :=
  let cos_theta := ncos Ops theta in
  let sin_theta := nsin Ops theta in
  let cos_phi := ncos Ops phi in
  let sin_phi := nsin Ops phi in
  let unit_vector :=
    [cos_theta * ev0 + sin_theta / aux * (ev0 * ev2 * cos_phi - ev1 * sin_phi);
     cos_theta * ev1 + sin_theta / aux * (ev1 * ev2 * cos_phi + ev0 * sin_phi);
     cos_theta * ev2 - aux * cos_phi * sin_theta] in
  vscale_left r unit_vector.

(** Spherical_Coordinates(r, theta, phi, axis); ev[0], ev[1], ev[2] go through Vector::operator[], which
    exits for an axis with fewer than three components.  [hypot] stands for std::hypot, which is not a
    NumOps primitive: the theorems instantiate it with its specification sqrt(x*x + y*y), the float
    instance with libm's hypot (Float.hypot in the driver). *)
Definition spherical_axis (hypot : T -> T -> T) (r theta phi : T) (axis : list T) : res (list T) :=
  match axis with
  | _ :: _ :: _ :: _ =>
      let ev := vnormalized axis in
      let ev0 := nth0 Ops ev 0 in
      let ev1 := nth0 Ops ev 1 in
      let ev2 := nth0 Ops ev 2 in
      let aux := hypot ev0 ev1 in
      if neqb Ops (vnorm axis) zero || (neqb Ops aux zero && ngtb Ops ev2 zero) then
        Ok (spherical r theta phi)
      else if neqb Ops aux zero then
        Ok (spherical_antiparallel r theta phi)
      else
        Ok (spherical_general r theta phi ev0 ev1 ev2 aux)
  | [_; _] =>
      (* ev[2] is only evaluated (and exits) when axis.Norm() == 0.0 is false *)
      if neqb Ops (vnorm axis) zero then Ok (spherical r theta phi) else Exit
  | _ => Exit
  end.

End C16.
