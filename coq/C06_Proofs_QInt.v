(** * C06 proofs, part 3: the reference identity behind the certified samples.
    For integer a = n+1:   e^-x sum_{k<=n} x^k/k!  =  1 - (1/n!) RInt_0^x t^n e^-t dt   ( = Q(x,n+1), Gamma(n+1) = n! ). *)
From Coq Require Import Reals Lra Lia.
From Coquelicot Require Import Coquelicot.
Local Open Scope R_scope.
Ltac eqR := match goal with |- @eq _ ?a ?b => change (@eq R a b) end.

Definition qpoly (n : nat) (t : R) : R := sum_f_R0 (fun k => t ^ k / INR (fact k)) n.
Definition Qint (n : nat) (t : R) : R := exp (- t) * qpoly n t.

Lemma qpoly_0 n : qpoly n 0 = 1.
Proof.
  unfold qpoly. induction n as [|n IH]; cbn [sum_f_R0].
  - cbn. field.
  - rewrite IH. rewrite pow_ne_zero by discriminate. unfold Rdiv. ring.
Qed.

Lemma fact_S_INR n : INR (fact (S n)) = INR (S n) * INR (fact n).
Proof. change (fact (S n)) with (S n * fact n)%nat. apply mult_INR. Qed.

Lemma Qint_derive n t : is_derive (Qint n) t (- (exp (- t) * t ^ n / INR (fact n))).
Proof.
  induction n as [|n IH].
  - unfold Qint, qpoly. cbn [sum_f_R0 pow fact INR]. auto_derive; [exact I|]. lra.
  - apply is_derive_ext with (f := fun u => Qint n u + exp (- u) * u ^ S n / INR (fact (S n))).
    { intros u. eqR. unfold Qint, qpoly. cbn [sum_f_R0]. unfold Rdiv. ring. }
    evar (d2 : R).
    replace (- (exp (- t) * t ^ S n / INR (fact (S n)))) with (plus (- (exp (- t) * t ^ n / INR (fact n))) d2).
    + apply (is_derive_plus (V := R_NormedModule)); [exact IH|].
      auto_derive; [exact I|]. eqR. unfold d2. reflexivity.
    + unfold d2, plus. cbn -[fact INR pow Nat.pred]. cbn [Nat.pred pow].
      change (match n with O => 1 | S _ => INR n + 1 end) with (INR (S n)).
      change (fact n + n * fact n)%nat with (fact (S n)).
      rewrite !fact_S_INR, !S_INR. field. split; [apply INR_fact_neq_0|].
      pose proof (pos_INR n). lra.
Qed.

Theorem q_integer_closed_form (n : nat) (x : R) :
  exp (- x) * sum_f_R0 (fun k => x ^ k / INR (fact k)) n
  = 1 - / INR (fact n) * RInt (fun t => t ^ n * exp (- t)) 0 x.
Proof.
  assert (H : is_RInt (fun t => t ^ n * exp (- t)) 0 x
                (minus (- INR (fact n) * Qint n x) (- INR (fact n) * Qint n 0))).
  { apply (is_RInt_derive (V := R_CompleteNormedModule) (fun t => - INR (fact n) * Qint n t)).
    - intros t _.
      replace (t ^ n * exp (- t)) with (- INR (fact n) * - (exp (- t) * t ^ n / INR (fact n)))
        by (field; apply INR_fact_neq_0).
      apply is_derive_scal. apply Qint_derive.
    - intros t _. apply (ex_derive_continuous (V := R_NormedModule)). auto_derive. exact I. }
  apply (is_RInt_unique (V := R_CompleteNormedModule)) in H. rewrite H. unfold minus, plus, opp; cbn.
  unfold Qint at 2. rewrite qpoly_0, Ropp_0, exp_0. fold (qpoly n x). fold (Qint n x).
  field. apply INR_fact_neq_0.
Qed.

(** the same with the library's naming: for an integer a = m >= 1,
    Q(x,m) := 1 - (1/(m-1)!) RInt_0^x t^(m-1) e^-t  equals  e^-x sum_{k<m} x^k/k! *)
Corollary q_integer_closed_form' (m : nat) (x : R) : (1 <= m)%nat ->
  1 - / INR (fact (m - 1)) * RInt (fun t => t ^ (m - 1) * exp (- t)) 0 x
  = exp (- x) * sum_f_R0 (fun k => x ^ k / INR (fact k)) (m - 1).
Proof. intros _. symmetry. apply q_integer_closed_form. Qed.


(** ** The closed form in Horner's shape, as the generated sample files state it:
    qhorner x 1 n = 1 + x/1 (1 + x/2 (1 + ... (1 + x/n))) = sum_{k<=n} x^k/k!  *)
Fixpoint qhorner (x : R) (k : Z) (m : nat) : R :=
  match m with O => 1 | S m' => 1 + x / IZR k * qhorner x (k + 1) m' end.

Definition sum_before (f : nat -> R) (s : nat) : R := match s with O => 0 | S s' => sum_f_R0 f s' end.
Lemma sum_before_step f s : sum_f_R0 f s = sum_before f s + f s.
Proof. destruct s; cbn [sum_before sum_f_R0]; ring. Qed.

Lemma qhorner_tail x m : forall s,
  sum_f_R0 (fun k => x ^ k / INR (fact k)) (s + m)
  = sum_before (fun k => x ^ k / INR (fact k)) s + x ^ s / INR (fact s) * qhorner x (Z.of_nat s + 1) m.
Proof.
  induction m as [|m IH]; intros s.
  - rewrite Nat.add_0_r. cbn [qhorner]. rewrite sum_before_step. ring.
  - replace (s + S m)%nat with (S s + m)%nat by lia. rewrite IH. cbn [sum_before qhorner].
    rewrite sum_before_step. replace (Z.of_nat (S s) + 1)%Z with (Z.of_nat s + 1 + 1)%Z by lia.
    rewrite fact_S_INR. rewrite plus_IZR, <- INR_IZR_INZ, S_INR. cbn [pow]. field.
    repeat split; try apply INR_fact_neq_0; pose proof (pos_INR s); lra.
Qed.

Lemma qhorner_sum x n : qhorner x 1 n = sum_f_R0 (fun k => x ^ k / INR (fact k)) n.
Proof.
  pose proof (qhorner_tail x n 0) as H. cbn [Nat.add sum_before pow fact INR Z.of_nat Z.add] in H.
  rewrite H. field.
Qed.

(** what a certified sample of GammaQ at integer a = n+1 establishes: closeness to Q(x,n+1) defined by the integral *)
Theorem q_sample_meaning (n : nat) (x y tol : R) :
  Rabs (exp (- x) * qhorner x 1 n - y) <= tol ->
  Rabs ((1 - / INR (fact n) * RInt (fun t => t ^ n * exp (- t)) 0 x) - y) <= tol.
Proof. intros H. rewrite <- q_integer_closed_form, <- qhorner_sum. exact H. Qed.
