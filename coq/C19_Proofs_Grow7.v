(** * C19, seventh pass: machine-integer range of Workload_Distribution, the DataPoint comparison operators *)
From Coq Require Import ZArith List Bool Lia Reals.
From LP Require Import Num NumR OrdLaws C19_Model C19_Proofs.
Import ListNotations.
Local Open Scope Z_scope.

(** ** Workload_Distribution computes in `int`; the model computes in Z.  Every value the index list holds in any state of
    the remainder loop (after n = 0 .. tasks mod workers iterations; n = 0 is the state the first loop leaves) lies in
    [0, tasks], the quotient lies in [0, tasks] and every increment `remainder - i` in [1, workers - 1]: no `int` operation
    of the C++ code leaves the range of the type when tasks <= INT_MAX, so Z arithmetic is `int` arithmetic there. *)
Theorem workload_every_state_in_range (w t n k : nat) : (1 <= w)%nat ->
  let q := Z.of_nat t / Z.of_nat w in
  let r := Z.of_nat t mod Z.of_nat w in
  Z.of_nat n <= r -> (k <= w)%nat ->
  0 <= nth k (wl_rem (wl_base q 0 w) w r 0 n) 0 <= Z.of_nat t.
Proof.
  intros Hw q r Hn Hk.
  assert (Hr : 0 <= r <= Z.of_nat w) by (unfold r; lia).
  assert (Hr' : 0 <= r < Z.of_nat w) by (unfold r; apply Z.mod_pos_bound; lia).
  assert (Hq : 0 <= q) by (apply Z.div_pos; lia).
  assert (Ht : Z.of_nat t = Z.of_nat w * q + r) by (unfold q, r; apply Z.div_mod; lia).
  destruct (wl_rem_inv w q r Hr n 0%nat (wl_base q 0 w)) as [_ Hnth].
  - lia.
  - split; [apply length_wl_base|]. intros j Hj. rewrite nth_wl_base by lia.
    assert (Nat.ltb (w - 0) j = false) as -> by (apply Nat.ltb_ge; lia). lia.
  - simpl in Hnth. rewrite (Hnth k Hk).
    assert (Hkq : 0 <= Z.of_nat k * q) by (apply Z.mul_nonneg_nonneg; lia).
    assert (Hwk : 0 <= (Z.of_nat w - Z.of_nat k) * q) by (apply Z.mul_nonneg_nonneg; lia).
    destruct (Nat.ltb_spec (w - n) k); lia.
Qed.

Theorem workload_scalars_in_range (w t : nat) : (1 <= w)%nat ->
  let q := Z.of_nat t / Z.of_nat w in
  let r := Z.of_nat t mod Z.of_nat w in
  0 <= q <= Z.of_nat t /\ 0 <= r < Z.of_nat w /\ forall i, 0 <= i < r -> 1 <= r - i <= Z.of_nat w - 1.
Proof.
  intros Hw q r.
  assert (Hr' : 0 <= r < Z.of_nat w) by (unfold r; apply Z.mod_pos_bound; lia).
  assert (Hq : 0 <= q) by (apply Z.div_pos; lia).
  assert (Ht : Z.of_nat t = Z.of_nat w * q + r) by (unfold q, r; apply Z.div_mod; lia).
  repeat split; try lia. nia.
Qed.

(** the returned list is the state after all tasks mod workers iterations *)
Lemma workload_list_is_last_state (w t : nat) :
  workload_list w t = wl_rem (wl_base (Z.of_nat t / Z.of_nat w) 0 w) w (Z.of_nat t mod Z.of_nat w) 0 (Z.to_nat (Z.of_nat t mod Z.of_nat w)).
Proof. reflexivity. Qed.

Example workload_range_nonvacuous : nth 3 (wl_rem (wl_base (10 / 3) 0 3) 3 (10 mod 3) 0 1) 0 = 10.
Proof. reflexivity. Qed.

(** ** DataPoint: operator<, operator>, operator== compare the values and ignore the weights *)
Section DP.
Context {T : Type} (Ops : NumOps T).

(** in every number type (doubles with NaN included): a > b is b < a, the weights play no role, the constructors store what they get *)
Lemma dp_gt_is_flipped_lt (a b : T * T) : dp_gt Ops a b = dp_lt Ops b a.
Proof. reflexivity. Qed.
Lemma dp_compare_ignores_weights (v1 w1 v2 w2 w1' w2' : T) :
  dp_lt Ops (datapoint v1 w1) (datapoint v2 w2) = dp_lt Ops (datapoint v1 w1') (datapoint v2 w2') /\
  dp_gt Ops (datapoint v1 w1) (datapoint v2 w2) = dp_gt Ops (datapoint v1 w1') (datapoint v2 w2') /\
  dp_eq Ops (datapoint v1 w1) (datapoint v2 w2) = dp_eq Ops (datapoint v1 w1') (datapoint v2 w2').
Proof. repeat split. Qed.
Lemma datapoint_fields (v w : T) :
  datapoint v w = (v, w) /\ datapoint1 Ops v = (v, n1 Ops) /\ datapoint0 Ops = (n0 Ops, n1 Ops).
Proof. repeat split. Qed.

(** from the laws of a strict total order (doubles without NaN): operator< is a strict weak order on data points whose
    incomparability relation is operator==, and exactly one of <, ==, > holds *)
Hypothesis OL : OrdLaws Ops.
Lemma dp_lt_irrefl a : dp_lt Ops a a = false.
Proof. apply (ol_irrefl Ops OL). Qed.
Lemma dp_lt_trans a b c : dp_lt Ops a b = true -> dp_lt Ops b c = true -> dp_lt Ops a c = true.
Proof. apply (ol_trans Ops OL). Qed.
Lemma dp_eq_iff_incomparable a b : dp_eq Ops a b = true <-> (dp_lt Ops a b = false /\ dp_gt Ops a b = false).
Proof. apply (ol_eq Ops OL). Qed.
Lemma dp_trichotomy a b :
  (dp_lt Ops a b = true /\ dp_eq Ops a b = false /\ dp_gt Ops a b = false) \/
  (dp_lt Ops a b = false /\ dp_eq Ops a b = true /\ dp_gt Ops a b = false) \/
  (dp_lt Ops a b = false /\ dp_eq Ops a b = false /\ dp_gt Ops a b = true).
Proof.
  unfold dp_lt, dp_gt, dp_eq. set (x := fst a); set (y := fst b).
  pose proof (ol_eq Ops OL x y) as He. pose proof (ol_irrefl Ops OL x) as Hi.
  pose proof (ol_trans Ops OL x y x) as Htr.
  destruct (nltb Ops x y) eqn:E1, (nltb Ops y x) eqn:E2, (neqb Ops x y) eqn:E3; intuition congruence.
Qed.
Lemma dp_eq_compatible a a' b : dp_eq Ops a a' = true -> dp_lt Ops a b = dp_lt Ops a' b /\ dp_lt Ops b a = dp_lt Ops b a'.
Proof. intros H. split; [apply (ol_eq_lt_l Ops OL _ _ _ H)|apply (ol_eq_lt_r Ops OL _ _ _ H)]. Qed.
End DP.

(** operator== is not equality of data points: two points with the same value and different weights are `==` *)
Example dp_eq_not_structural : dp_eq ROps (datapoint 1%R 2%R) (datapoint 1%R 3%R) = true /\ datapoint 1%R 2%R <> datapoint 1%R 3%R.
Proof.
  split.
  - unfold dp_eq, datapoint; cbn. apply Reqb_true. reflexivity.
  - unfold datapoint. intros H. injection H as H. apply eq_IZR in H. discriminate.
Qed.
