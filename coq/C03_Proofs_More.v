(** * C03 proofs: the error bound for the string overload and inside call sequences (over [ROps]). *)
From Coq Require Import Reals ZArith Lra Lia List Bool.
From Coquelicot Require Import Coquelicot.
From LP Require Import Num NumR C03_Model C03_Proofs C03_Proofs_Remainder C03_Proofs_Seq.
Import ListNotations.
Local Open Scope R_scope.

(** Integrate(f,a,b,"Adaptive-Simpson"): the tolerance is 1e-9 times the Simpson estimate on the ordered limits
    ([eps_of], Find_Epsilon), the depth 20; under the regularity premises of the error bound and without a warning the
    value is within 4 |that tolerance| of the integral, limits in either order or equal. *)
Theorem method_error_bound (f f1 f2 f3 f4 : R -> R) (lo' hi' a b m sg : R) :
  lo' < Rmin a b -> Rmax a b < hi' ->
  (forall x, lo' < x < hi' -> is_derive f x (f1 x)) ->
  (forall x, lo' < x < hi' -> is_derive f1 x (f2 x)) ->
  (forall x, lo' < x < hi' -> is_derive f2 x (f3 x)) ->
  (forall x, lo' < x < hi' -> is_derive f3 x (f4 x)) ->
  sg = 1 \/ sg = -1 -> 0 < m ->
  (forall x, Rmin a b <= x <= Rmax a b -> m <= sg * f4 x <= 4 * m) ->
  wrn (integrate_method ROps f a b) = false ->
  Rabs (val (integrate_method ROps f a b) - RInt f a b) <= 4 * Rabs (eps_of f (Rmin a b) (Rmax a b)).
Proof.
  intros Hlo Hhi D1 D2 D3 D4 Hsg Hm H4.
  destruct (Rtotal_order a b) as [H|[H|H]].
  - rewrite method_lt by exact H. rewrite wrn_t, val_t, Rmult_1_l. intros W.
    rewrite Rmin_left, Rmax_right by lra.
    exact (error_bound f f1 f2 f3 f4 lo' hi' a b (eps_of f a b) m sg 20 Hlo Hhi D1 D2 D3 D4 Hsg Hm H4 W).
  - subst b. rewrite method_eq. unfold val. cbn [fst]. intros _.
    rewrite RInt_point. unfold zero. cbn. rewrite Rminus_0_r, Rabs_R0.
    apply Rmult_le_pos; [lra|apply Rabs_pos].
  - rewrite method_gt by exact H. rewrite wrn_t, val_t. intros W.
    rewrite Rmin_right, Rmax_left by lra.
    destruct (swap_negates f a b (eps_of f b a) 20) as (SV & SW & _).
    replace (- (1) * val (integrate ROps f b a (eps_of f b a) 20)) with (val (integrate ROps f a b (eps_of f b a) 20))
      by (rewrite SV; ring).
    rewrite SW in W.
    exact (error_bound f f1 f2 f3 f4 lo' hi' a b (eps_of f b a) m sg 20 Hlo Hhi D1 D2 D3 D4 Hsg Hm H4 W).
Qed.

(** The error bound at any position of a sequence of calls made in one process. *)
Theorem error_bound_after_any_history (pre post : list (call (T := R))) (f f1 f2 f3 f4 : R -> R) (lo' hi' a b eps m sg : R) (depth : Z) :
  lo' < Rmin a b -> Rmax a b < hi' ->
  (forall x, lo' < x < hi' -> is_derive f x (f1 x)) ->
  (forall x, lo' < x < hi' -> is_derive f1 x (f2 x)) ->
  (forall x, lo' < x < hi' -> is_derive f2 x (f3 x)) ->
  (forall x, lo' < x < hi' -> is_derive f3 x (f4 x)) ->
  sg = 1 \/ sg = -1 -> 0 < m ->
  (forall x, Rmin a b <= x <= Rmax a b -> m <= sg * f4 x <= 4 * m) ->
  exists r, List.nth_error (run_seq ROps tt (pre ++ CInt f a b eps depth :: post)) (length pre) = Some r /\
            (wrn r = false -> Rabs (val r - RInt f a b) <= 4 * Rabs eps).
Proof.
  intros Hlo Hhi D1 D2 D3 D4 Hsg Hm H4. exists (integrate ROps f a b eps depth). split.
  - exact (history_free pre post (CInt f a b eps depth)).
  - exact (error_bound f f1 f2 f3 f4 lo' hi' a b eps m sg depth Hlo Hhi D1 D2 D3 D4 Hsg Hm H4).
Qed.

(** non-vacuity of [method_error_bound]: f = x^4 on [0,1] (fourth derivative 24; Simpson estimate 5/24, tolerance
    1e-9 * 5/24 is not met at the root, so the hypothesis "no warning" is the substantive one); the derivative premises hold. *)
Example method_error_bound_premises :
  let f := fun x : R => x ^ 4 in
  (forall x, -1 < x < 2 -> is_derive f x (4 * x ^ 3)) /\
  (forall x, -1 < x < 2 -> is_derive (fun x => 4 * x ^ 3) x (12 * x ^ 2)) /\
  (forall x, -1 < x < 2 -> is_derive (fun x => 12 * x ^ 2) x (24 * x)) /\
  (forall x, -1 < x < 2 -> is_derive (fun x => 24 * x) x 24) /\
  (forall x, Rmin 0 1 <= x <= Rmax 0 1 -> 24 <= 1 * 24 <= 4 * 24).
Proof.
  cbv zeta. split; [|split; [|split; [|split]]]; intros; try lra; auto_derive; auto; ring.
Qed.

(** ** Refinement to a simple specification: a composite rule on an adaptive dyadic partition.
    [panels f n a b eps] is the list of accepted (or depth-forced) panels of the recursion, left to right.  The value
    returned is the sum over the panels of the five-point value [leafval] (two Simpson halves plus the Richardson term,
    i.e. Boole's rule), the panels abut and tile [a,b], every panel is the interval halved k <= depth times, and the
    number of integrand evaluations is four per panel plus one. *)
Fixpoint panels (f : R -> R) (n : nat) (a b eps : R) : list (R * R) :=
  match n with
  | O => [(a, b)]
  | S n' => if Rleb (Rabs (S2of f a b - simp f a b)) (15 * eps) then [(a, b)]
            else panels f n' a ((a + b) / 2) (eps / 2) ++ panels f n' ((a + b) / 2) b (eps / 2)
  end.

Definition sumR (l : list R) : R := fold_right Rplus 0 l.
Definition panel_value (f : R -> R) (p : R * R) : R := leafval f (fst p) (snd p).

Lemma sumR_app l1 l2 : sumR (l1 ++ l2) = sumR l1 + sumR l2.
Proof. unfold sumR. induction l1 as [|x l IH]; cbn [app fold_right]; [ring|rewrite IH; ring]. Qed.

Lemma core_val_panels f n : forall a b eps,
  val (core f a b eps n) = sumR (map (panel_value f) (panels f n a b eps)).
Proof.
  induction n as [|n IH]; intros a b eps.
  - rewrite core_O, val_t. cbn [panels map sumR fold_right]. unfold panel_value. cbn [fst snd]. ring.
  - rewrite core_S. cbn [panels]. destruct (Rleb _ _).
    + rewrite val_t. cbn [panels map sumR fold_right]. unfold panel_value. cbn [fst snd]. ring.
    + cbv zeta. rewrite val_t, map_app, sumR_app, !IH. reflexivity.
Qed.

Lemma core_count_panels f n : forall a b eps,
  (length (trc (core f a b eps n)) + 2 = 4 * length (panels f n a b eps))%nat.
Proof.
  induction n as [|n IH]; intros a b eps.
  - rewrite core_O. reflexivity.
  - rewrite core_S. cbn [panels]. destruct (Rleb _ _).
    + reflexivity.
    + cbv zeta. rewrite trc_t. cbn [length]. rewrite !app_length.
      pose proof (IH a ((a + b) / 2) (eps / 2)). pose proof (IH ((a + b) / 2) b (eps / 2)). lia.
Qed.

Lemma abut_app (l1 l2 : list (R * R)) a c b :
  map fst l1 ++ [c] = a :: map snd l1 -> map fst l2 ++ [b] = c :: map snd l2 ->
  map fst (l1 ++ l2) ++ [b] = a :: map snd (l1 ++ l2).
Proof.
  intros H1 H2. rewrite !map_app, <- app_assoc, H2.
  change (map fst l1 ++ c :: map snd l2) with (map fst l1 ++ [c] ++ map snd l2).
  rewrite app_assoc, H1. reflexivity.
Qed.

Lemma panels_abut f n : forall a b eps,
  map fst (panels f n a b eps) ++ [b] = a :: map snd (panels f n a b eps).
Proof.
  induction n as [|n IH]; intros a b eps; cbn [panels]; [reflexivity|].
  destruct (Rleb _ _); [reflexivity|]. eapply abut_app; apply IH.
Qed.

Lemma panels_dyadic f n : forall a b eps, a < b ->
  List.Forall (fun p => a <= fst p /\ fst p < snd p /\ snd p <= b /\
                   exists k, (k <= n)%nat /\ snd p - fst p = (b - a) / 2 ^ k) (panels f n a b eps).
Proof.
  induction n as [|n IH]; intros a b eps H.
  - cbn. constructor; [|constructor]. cbn. repeat split; try lra. exists 0%nat. split; [lia|]. cbn. field.
  - cbn [panels]. destruct (Rleb _ _).
    + constructor; [|constructor]. cbn. repeat split; try lra. exists 0%nat. split; [lia|]. cbn. field.
    + apply Forall_app. split.
      * eapply Forall_impl; [|apply (IH a ((a + b) / 2) (eps / 2)); lra]. cbv beta.
        intros p (H1 & H2 & H3 & k & Hk & E). repeat split; try lra. exists (S k). split; [lia|].
        rewrite E. cbn [pow]. field. apply pow_nonzero. lra.
      * eapply Forall_impl; [|apply (IH ((a + b) / 2) b (eps / 2)); lra]. cbv beta.
        intros p (H1 & H2 & H3 & k & Hk & E). repeat split; try lra. exists (S k). split; [lia|].
        rewrite E. cbn [pow]. field. apply pow_nonzero. lra.
Qed.

Lemma panels_length f n : forall a b eps, (1 <= length (panels f n a b eps) <= 2 ^ n)%nat.
Proof.
  induction n as [|n IH]; intros a b eps; cbn [panels].
  - cbn. lia.
  - pose proof (pow2_pos n). cbn [Nat.pow]. destruct (Rleb _ _).
    + cbn. lia.
    + rewrite app_length. pose proof (IH a ((a + b) / 2) (eps / 2)). pose proof (IH ((a + b) / 2) b (eps / 2)). lia.
Qed.

(** the specification of Integrate for distinct limits: lo, hi the ordered limits, sgn = +1 / -1 *)
Theorem integrate_is_composite_rule (f : R -> R) (a b eps : R) (depth : Z) :
  a <> b ->
  let lo := Rmin a b in let hi := Rmax a b in
  let ps := panels f (Z.to_nat depth) lo hi (Rabs eps) in
  val (integrate ROps f a b eps depth) = (if Rltb b a then -1 else 1) * sumR (map (panel_value f) ps) /\
  length (trc (integrate ROps f a b eps depth)) = (4 * length ps + 1)%nat /\
  (1 <= length ps <= 2 ^ Z.to_nat depth)%nat /\
  map fst ps ++ [hi] = lo :: map snd ps /\
  List.Forall (fun p => lo <= fst p /\ fst p < snd p /\ snd p <= hi /\
                   exists k, (k <= Z.to_nat depth)%nat /\ snd p - fst p = (hi - lo) / 2 ^ k) ps.
Proof.
  intros Hne lo hi ps. subst lo hi ps.
  destruct (Rtotal_order a b) as [H|[H|H]]; [|contradiction|].
  - rewrite Rmin_left, Rmax_right by lra. rewrite integrate_lt by exact H. rewrite val_t, trc_t.
    destruct (Rltb_spec b a); [lra|].
    pose proof (core_count_panels f (Z.to_nat depth) a b (Rabs eps)) as C.
    repeat split.
    + rewrite core_val_panels. reflexivity.
    + cbn [length]. lia.
    + apply panels_length.
    + apply panels_length.
    + apply panels_abut.
    + apply panels_dyadic. exact H.
  - rewrite Rmin_right, Rmax_left by lra. rewrite integrate_gt by exact H. rewrite val_t, trc_t.
    destruct (Rltb_spec b a); [|lra].
    pose proof (core_count_panels f (Z.to_nat depth) b a (Rabs eps)) as C.
    repeat split.
    + rewrite core_val_panels. reflexivity.
    + cbn [length]. lia.
    + apply panels_length.
    + apply panels_length.
    + apply panels_abut.
    + apply panels_dyadic. exact H.
Qed.

Example composite_rule_nonvacuous :
  panels x4 1 0 1 (Rabs (1 / 10000)) = [(0, 1 / 2); (1 / 2, 1)].
Proof.
  cbn [panels]. replace ((0 + 1) / 2) with (1 / 2) by field.
  destruct (Rleb_spec (Rabs (S2of x4 0 1 - simp x4 0 1)) (15 * Rabs (1 / 10000))) as [A|_]; [exfalso|reflexivity].
  rewrite (Rabs_right (1 / 10000)) in A by lra.
  unfold S2of, simp, x4 in A.
  replace ((0 + 1) / 2) with (1 / 2) in A by field.
  assert (E : forall u, Rabs u <= 15 * (1 / 10000) -> - (3 / 2000) <= u) by (intros u Hu; apply Rabs_le_between in Hu; lra).
  apply E in A. lra.
Qed.
