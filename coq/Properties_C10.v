(** C10 — "Meaningless requests stop the program with a diagnostic; valid ones never do."
    Property theorems only; each is closed by [exact] of a lemma of C10_Proofs.v / C10_Proofs_Num.v.

    [decides g P] (C10_Proofs.v) reads: the guard model [g] of an entry point returns [Ok tt] for every
    request in the domain [P] — in particular none of the checked container accesses and none of the inner
    guards on its way fails — and returns [Exit] for every request outside [P].  The first three theorems
    spell out the two clauses of the property that follow from it. *)
From Coq Require Import ZArith String List Bool Reals Lia Lra.
From LP Require Import Num NumR OrdLaws C10_Model C10_Proofs C10_Proofs_Num C10_Proofs_Block C10_Proofs_Hist C10_Proofs_Nest C10_Proofs_More C10_Model2 C10_Proofs_Hunt C10_Proofs_Hunt2.
Import ListNotations.
Local Open Scope Z_scope.

(** "a request with no mathematical meaning ... terminates the process" / "every request that is meaningful returns normally" *)
Theorem C10_guard_iff_meaningful (g : res unit) (P : Prop) : decides g P -> (g = Exit <-> ~ P).
Proof. exact (decides_exit_iff g P). Qed.
Print Assumptions C10_guard_iff_meaningful.
Theorem C10_meaningful_returns (g : res unit) (P : Prop) : (P \/ ~ P) -> decides g P -> (g = Ok tt <-> P).
Proof. exact (decides_ok_iff g P). Qed.
Print Assumptions C10_meaningful_returns.
(** "... and never ... reads or writes memory out of bounds" *)
Theorem C10_accepted_is_memory_safe (g : res unit) (P : Prop) : (P \/ ~ P) -> decides g P -> g <> OOB /\ g <> Fuel.
Proof. exact (decides_safe g P). Qed.
Print Assumptions C10_accepted_is_memory_safe.

(** *** "a vector index or matrix row index outside the object" *)
(** Vector::operator[] (both overloads), for every unsigned index *)
Theorem C10_vector_index dim i : 0 <= i -> decides (guard_vec_index dim i) (i < dim).
Proof. exact (vec_index_spec dim i). Qed.
Print Assumptions C10_vector_index.
(** Matrix::operator[] (both overloads), Delete_Row, Return_Row *)
Theorem C10_matrix_row_index rows i : 0 <= i ->
  decides (guard_mat_index rows i) (i < rows) /\ decides (guard_row rows i) (i < rows).
Proof. exact (fun H => conj (mat_index_spec rows i H) (row_spec rows i H)). Qed.
Print Assumptions C10_matrix_row_index.
(** Delete_Column, Return_Column *)
Theorem C10_matrix_column_index rows cols c : 0 <= rows -> 0 <= cols -> 0 <= c ->
  decides (guard_delete_column rows cols c) (c < cols) /\ decides (guard_return_column rows cols c) (c < cols).
Proof. exact (fun Hr Hc H => conj (delete_column_spec rows cols c H) (return_column_spec rows cols c Hr Hc H)). Qed.
Print Assumptions C10_matrix_column_index.
(** Sub_Matrix(int row, int column): negative ints wrap to large unsigned indices and are rejected *)
Theorem C10_sub_matrix rows cols r c :
  0 <= rows < 2147483648 -> 0 <= cols < 2147483648 -> -2147483648 <= r < 2147483648 -> -2147483648 <= c < 2147483648 ->
  decides (guard_sub_matrix rows cols r c) (0 <= r < rows /\ 0 <= c < cols).
Proof. exact (sub_matrix_spec rows cols r c). Qed.
Print Assumptions C10_sub_matrix.

(** *** "non-conformable operands (binary or compound-assignment), Cross on non-3-vectors" *)
(** Dot, Vector + - += -= *)
Theorem C10_vector_binary d1 d2 : decides (guard_vec_binary d1 d2) (d1 = d2).
Proof. exact (vec_binary_spec d1 d2). Qed.
Print Assumptions C10_vector_binary.
Theorem C10_cross d1 d2 : decides (guard_cross d1 d2) (d1 = 3 /\ d2 = 3).
Proof. exact (cross_spec d1 d2). Qed.
Print Assumptions C10_cross.
(** double operator*(Vector) and Angle(v1, v2), which has no shape test of its own: its verdict is the one of
    the Dot inside v1 * v2, for BOTH orders of unequal sizes (the statement is symmetric in d1, d2), incl. empty operands *)
Theorem C10_vector_product_operator d1 d2 : decides (guard_vec_mul d1 d2) (d1 = d2).
Proof. exact (vec_mul_spec d1 d2). Qed.
Print Assumptions C10_vector_product_operator.
Theorem C10_angle d1 d2 : decides (guard_angle d1 d2) (d1 = d2).
Proof. exact (angle_spec d1 d2). Qed.
Print Assumptions C10_angle.
Example C10_angle_witness : guard_angle 3 3 = Ok tt /\ guard_angle 2 3 = Exit /\ guard_angle 3 2 = Exit /\ guard_angle 0 3 = Exit /\ guard_angle 0 0 = Ok tt.
Proof. repeat split; reflexivity. Qed.
(** "Every request that is meaningful returns normally": operator== of vectors of any two sizes, the outer product
    of vectors of any two sizes (no out-of-bounds access either: the result is Ok, not OOB) *)
Theorem C10_vector_equality_returns d1 d2 : guard_vec_eq d1 d2 = Ok tt.
Proof. exact (vec_eq_returns d1 d2). Qed.
Print Assumptions C10_vector_equality_returns.
Theorem C10_outer_product_returns d1 d2 : guard_outer d1 d2 = Ok tt.
Proof. exact (outer_returns d1 d2). Qed.
Print Assumptions C10_outer_product_returns.
(** Matrix Plus / Minus (rows compared with rows, columns with columns) and += / -= *)
Theorem C10_matrix_sum r1 c1 r2 c2 : 0 <= r1 ->
  decides (guard_mat_plus r1 c1 r2 c2) (r1 = r2 /\ c1 = c2) /\ decides (guard_mat_pluseq r1 c1 r2 c2) (r1 = r2 /\ c1 = c2).
Proof. exact (fun H => conj (mat_plus_spec r1 c1 r2 c2 H) (mat_pluseq_spec r1 c1 r2 c2)). Qed.
Print Assumptions C10_matrix_sum.
(** Product(Matrix), Product(Vector), Vector * Matrix *)
Theorem C10_products r1 c1 r2 c2 d :
  decides (guard_mat_product r1 c1 r2 c2) (c1 = r2) /\ decides (guard_mat_vec r1 c1 d) (d = c1) /\ decides (guard_vec_mat d r1 c1) (d = r1).
Proof. exact (conj (mat_product_spec r1 c1 r2 c2) (conj (mat_vec_spec r1 c1 d) (vec_mat_spec d r1 c1))). Qed.
Print Assumptions C10_products.
(** Matrix(vector<vector<double>>): irregular shapes exit, the empty list is the 0x0 matrix *)
Theorem C10_matrix_from_rows lens :
  decides (guard_mat_ctor lens) (forall i, 0 <= i < zlen lens -> nth (Z.to_nat i) lens 0 = nth 0 lens 0).
Proof. exact (mat_ctor_spec lens). Qed.
Print Assumptions C10_matrix_from_rows.
(** Rotation_Matrix(alpha, dim, axis) *)
Theorem C10_rotation dim n : decides (guard_rotation dim n) (dim = 2 \/ (dim = 3 /\ n = 3)).
Proof. exact (rotation_spec dim n). Qed.
Print Assumptions C10_rotation.

(** Matrix(vector<vector<Matrix>>), [b] holding (Rows, Columns) of every block, with [brow b r] the r-th row of blocks
    and [B b r c] the block in row r, column c (C10_Proofs_Block.v):
    [block_rect b]       : at least one row of blocks, at least one block in row 0, every row holds as many blocks as row 0;
    [block_consistent b] : a block has the Columns of the block above it and the Rows of the block to its left.
    Outside this domain the constructor exits; inside it every element is written inside the
    (sum of block rows) x (sum of block columns) result and no block is indexed out of range. *)
Theorem C10_block_constructor (b : list (list (Z * Z))) : block_nonneg b ->
  decides (guard_block b) (block_rect b /\ block_consistent b).
Proof. exact (block_spec b). Qed.
Print Assumptions C10_block_constructor.

(** *** "Trace/Determinant/Inverse of a non-square matrix" *)
Theorem C10_trace_determinant rows cols : 0 <= rows < 2147483648 ->
  decides (guard_trace rows cols) (rows = cols) /\ decides (guard_determinant rows cols) (rows = cols).
Proof. exact (fun H => conj (trace_spec rows cols) (determinant_spec rows cols H)). Qed.
Print Assumptions C10_trace_determinant.
(** Inverse(): non-square or singular (zero Laplace determinant) exits; otherwise every index of the
    elimination on the N x 2N augmented matrix is in range.  Over the reals. *)
Theorem C10_inverse rows cols (m : list (list R)) : 0 <= rows < 1073741824 ->
  decides (guard_inverse ROps rows cols m) (rows = cols /\ laplace_det ROps (length m) m <> 0%R).
Proof. exact (inverse_spec rows cols m). Qed.
Print Assumptions C10_inverse.

(** *** "abscissae that are not strictly increasing or tables that are ragged or too short" *)
(** Interpolation(x, f): for every number type whose comparison is a strict total order (doubles without NaN) *)
Theorem C10_interpolation_constructor {T} (Ops : NumOps T) (L : OrdLaws Ops) (xs : list T) nf : zlen xs < 4294967296 ->
  decides (guard_interpolation Ops xs nf) (zlen xs = nf /\ 2 <= zlen xs /\ increasing Ops xs).
Proof. exact (interpolation_spec Ops L xs nf). Qed.
Print Assumptions C10_interpolation_constructor.
(** Interpolation(table): additionally every row holds exactly two numbers *)
Theorem C10_interpolation_table_constructor {T} (Ops : NumOps T) (L : OrdLaws Ops) (data : list (list T)) : zlen data < 4294967296 ->
  decides (guard_interpolation_table Ops data)
    ((forall i, 0 <= i < zlen data -> zlen (nth (Z.to_nat i) data []) = 2) /\ 2 <= zlen data /\
     increasing Ops (map (fun row => nth 0 row (n0 Ops)) data)).
Proof. exact (interpolation_table_spec Ops L data). Qed.
Print Assumptions C10_interpolation_table_constructor.
(** Interpolation_2D(x, y, table): the table is (number of x) x (number of y), both grids are valid *)
Theorem C10_interpolation_2d_constructor {T} (Ops : NumOps T) (L : OrdLaws Ops) (xs ys : list T) lens :
  zlen xs < 4294967296 -> zlen ys < 4294967296 ->
  decides (guard_interpolation_2d Ops xs ys lens)
    ((zlen lens = zlen xs /\ forall i, 0 <= i < zlen lens -> nth (Z.to_nat i) lens 0 = zlen ys) /\
     (2 <= zlen xs /\ increasing Ops xs) /\ (2 <= zlen ys /\ increasing Ops ys)).
Proof. exact (interpolation_2d_spec Ops L xs ys lens). Qed.
Print Assumptions C10_interpolation_2d_constructor.
(** Interpolation_2D(table): the first row that does not hold three numbers exits.
    Full statement (not a theorem; covered by the correspondence run): exits unless the rows are the full sorted
    grid {x_i} x {y_j} in row-major order with at least two distinct x and two distinct y. *)
Theorem C10_interpolation_2d_table_rows_partial {T} (Ops : NumOps T) (data : list (list T)) k :
  0 <= k < zlen data -> zlen (nth (Z.to_nat k) data []) <> 3 ->
  (forall i, 0 <= i < k -> zlen (nth (Z.to_nat i) data []) = 3) ->
  guard_interpolation_2d_table Ops data = Exit.
Proof. exact (interpolation_2d_table_row_guard Ops data k). Qed.
Print Assumptions C10_interpolation_2d_table_rows_partial.

(** *** "an interpolation argument outside the tabulated domain by more than one percent of the edge interval" *)
(** Over the reals, for a strictly increasing table: Locate exits iff x is at or beyond 1 % of the edge interval
    outside the domain (the code accepts |x - d| < 0.01 h with a strict <, so the 1 % point itself is rejected). *)
Theorem C10_locate_tolerance (xs : list R) (x : R) : 2 <= zlen xs < 4294967296 -> increasingR xs ->
  let N := zlen xs in
  let d0 := xr xs 0 in let d1 := xr xs (N - 1) in
  let tol_left := (1 / 100 * (xr xs 1 - xr xs 0))%R in
  let tol_right := (1 / 100 * (xr xs (N - 1) - xr xs (N - 2)))%R in
  locate ROps xs x = Exit <-> (x <= d0 - tol_left \/ d1 + tol_right <= x)%R.
Proof. exact (locate_exit_iff_R xs x). Qed.
Print Assumptions C10_locate_tolerance.
(** For every number type (doubles included, rounding and NaN included): a NaN argument exits, and otherwise the
    test is the one the code evaluates. *)
Theorem C10_locate_guard {T} (Ops : NumOps T) (xs : list T) (x : T) : 2 <= zlen xs < 4294967296 ->
  (locate Ops xs x = Exit <->
   nisnan Ops x = true \/ (out_of_domain Ops xs x = true /\ within_left Ops xs x = false /\ within_right Ops xs x = false)).
Proof. exact (locate_exit_iff Ops xs x). Qed.
Print Assumptions C10_locate_guard.
Theorem C10_locate_nan {T} (Ops : NumOps T) (xs : list T) (x : T) : nisnan Ops x = true -> locate Ops xs x = Exit.
Proof. exact (locate_nan Ops xs x). Qed.
Print Assumptions C10_locate_nan.
(** An accepted argument yields a segment index j <= N-2: a[j] .. d[j] and x_values[j+1] exist. *)
Theorem C10_locate_result_in_range {T} (Ops : NumOps T) (xs : list T) (x : T) : 2 <= zlen xs < 4294967296 ->
  locate Ops xs x = Exit \/ exists j, locate Ops xs x = Ok j /\ 0 <= j <= zlen xs - 2.
Proof. exact (locate_range Ops xs x). Qed.
Print Assumptions C10_locate_result_in_range.
(** Interpolate, Integrate (segment loop), Local_Minimum / Local_Maximum (knot scan i_1 .. i_2+1 <= N-1): they exit
    exactly when Locate does (or x_2 < x_1), and otherwise every index is in range *)
Theorem C10_interpolation_queries {T} (Ops : NumOps T) (xs : list T) (x1 x2 : T) : 2 <= zlen xs < 4294967296 ->
  ((locate Ops xs x1 = Exit /\ guard_interpolate Ops xs x1 = Exit) \/ (locate Ops xs x1 <> Exit /\ guard_interpolate Ops xs x1 = Ok tt)) /\
  (let a := if nltb Ops x2 x1 then x2 else x1 in
   let b := if nltb Ops x2 x1 then x1 else x2 in
   ((locate Ops xs a = Exit \/ locate Ops xs b = Exit) /\ guard_interp_integrate Ops xs x1 x2 = Exit) \/
   (locate Ops xs a <> Exit /\ locate Ops xs b <> Exit /\ guard_interp_integrate Ops xs x1 x2 = Ok tt)) /\
  (((nltb Ops x2 x1 = true \/ locate Ops xs x1 = Exit \/ locate Ops xs x2 = Exit) /\ guard_local_extremum Ops xs x1 x2 = Exit) \/
   (nltb Ops x2 x1 = false /\ locate Ops xs x1 <> Exit /\ locate Ops xs x2 <> Exit /\ guard_local_extremum Ops xs x1 x2 = Ok tt)).
Proof. exact (fun H => conj (interpolate_spec Ops xs x1 H) (conj (interp_integrate_spec Ops xs x1 x2 H) (local_extremum_spec Ops xs x1 x2 H))). Qed.
Print Assumptions C10_interpolation_queries.
Theorem C10_interpolate_2d_memory_safe {T} (Ops : NumOps T) (xs ys : list T) (x y : T) :
  2 <= zlen xs < 4294967296 -> 2 <= zlen ys < 4294967296 ->
  guard_interpolate_2d Ops xs ys x y = Exit \/ guard_interpolate_2d Ops xs ys x y = Ok tt.
Proof. exact (interpolate_2d_safe Ops xs ys x y). Qed.
Print Assumptions C10_interpolate_2d_memory_safe.

(** *** "a root bracket without sign change" *)
Theorem C10_find_root_bracket (f : R -> R) (a b : R) :
  decides (guard_find_root ROps f a b) (f a * f b < 0 \/ f a = 0 \/ f b = 0)%R.
Proof. exact (find_root_spec f a b). Qed.
Print Assumptions C10_find_root_bracket.
Theorem C10_find_root_nan {T} (Ops : NumOps T) (f : T -> T) (a b : T) :
  nisnan Ops (f a) = true \/ nisnan Ops (f b) = true -> guard_find_root Ops f a b = Exit.
Proof. exact (find_root_nan Ops f a b). Qed.
Print Assumptions C10_find_root_nan.

(** *** "an unknown integration method" *)
Theorem C10_integration_methods (m : string) :
  decides (guard_integrate m) (In m methods_1d) /\
  decides (guard_integrate_nd m) (In m methods_1d \/ In m methods_mc) /\
  decides (guard_integrate_mc m) (In m methods_mc).
Proof. exact (conj (integrate_spec m) (conj (integrate_nd_spec m) (integrate_mc_spec m))). Qed.
Print Assumptions C10_integration_methods.
(** Integrate_Gauss_Legendre(values, rule): equal sizes and every rule entry is a (root, weight) pair *)
Theorem C10_gauss_legendre nf lens : 0 <= nf ->
  decides (guard_gauss_legendre nf lens) (nf = zlen lens /\ forall i, 0 <= i < zlen lens -> nth (Z.to_nat i) lens 0 = 2).
Proof. exact (gauss_legendre_spec nf lens). Qed.
Print Assumptions C10_gauss_legendre.

(** *** "distribution parameters outside their range" (over the reals) *)
Theorem C10_binomial memo trials (p : R) x : 0 <= trials < 2147483648 -> 0 <= x < 2147483647 ->
  decides (guard_pmf_binomial ROps memo trials p x) (0 <= p <= 1)%R /\ decides (guard_cdf_binomial ROps memo trials p x) (0 <= p <= 1)%R.
Proof. exact (fun Ht Hx => conj (pmf_binomial_spec memo trials p x Ht ltac:(lia)) (cdf_binomial_spec memo trials p x Ht Hx)). Qed.
Print Assumptions C10_binomial.
Theorem C10_poisson (mu c : R) k : 0 <= k < 4294967295 ->
  decides (guard_pmf_poisson ROps mu k) (0 <= mu)%R /\ decides (guard_cdf_poisson ROps mu k) (0 <= mu)%R /\
  decides (guard_inv_cdf_poisson ROps k c) (0 <= c <= 1)%R.
Proof. exact (fun H => conj (pmf_poisson_spec mu k ltac:(lia)) (conj (cdf_poisson_spec mu k H) (inv_cdf_poisson_spec k c H))). Qed.
Print Assumptions C10_poisson.
(** PDF_/CDF_Exponential (mean), PDF_/CDF_Maxwell_Boltzmann (a), GammaLn (x) *)
Theorem C10_positive_parameter (a : R) :
  decides (guard_positive_parameter ROps a) (0 < a)%R /\ decides (guard_gammaln ROps a) (0 < a)%R.
Proof. exact (conj (positive_parameter_spec a) (gammaln_spec a)). Qed.
Print Assumptions C10_positive_parameter.
Theorem C10_incomplete_gamma (x a p : R) :
  decides (guard_gammaq ROps x a) (0 <= x /\ 0 < a)%R /\ decides (guard_inv_gammap ROps p a) (0 < a)%R.
Proof. exact (conj (gammaq_spec x a) (inv_gammap_spec p a)). Qed.
Print Assumptions C10_incomplete_gamma.
Theorem C10_inv_erf (p : R) :
  (Rabs (p - 1) < 1 / 10000000000000000 \/ Rabs (p + 1) < 1 / 10000000000000000 -> guard_inv_erf ROps p = Ok tt)%R /\
  (1 / 10000000000000000 <= Rabs (p - 1) -> 1 / 10000000000000000 <= Rabs (p + 1) -> 1 <= Rabs p -> guard_inv_erf ROps p = Exit)%R /\
  (1 / 10000000000000000 <= Rabs (p - 1) -> 1 / 10000000000000000 <= Rabs (p + 1) -> Rabs p < 1 ->
     guard_inv_erf ROps p = guard_find_root ROps (fun x => Rerf x - p) (- 10) 10)%R.
Proof. exact (inv_erf_spec p). Qed.
Print Assumptions C10_inv_erf.
Theorem C10_sampler_domains n :
  decides (guard_metropolis n) (n = 0 \/ n = 2) /\ decides (guard_metropolis_2d n) (n = 0 \/ n = 4).
Proof. exact (conj (metropolis_spec n) (metropolis_2d_spec n)). Qed.
Print Assumptions C10_sampler_domains.

(** *** "Factorial beyond 170" and the other integer guards *)
Theorem C10_factorial memo n : 0 <= n -> decides (guard_factorial memo n) (n <= 170).
Proof. exact (factorial_spec memo n). Qed.
Print Assumptions C10_factorial.
(** Binomial_Coefficient(n,k): negative arguments exit; none of its GammaLn / Factorial calls exits otherwise *)
Theorem C10_binomial_coefficient memo n k : decides (guard_binomial_coefficient ROps memo n k) (0 <= n /\ 0 <= k).
Proof. exact (binomial_coefficient_spec memo n k). Qed.
Print Assumptions C10_binomial_coefficient.
Theorem C10_round_and_vsh {T} (Ops : NumOps T) (N : T) digits component :
  decides (guard_round Ops N digits) (digits <= 7) /\ decides (guard_vsh component) (0 <= component <= 2).
Proof. exact (conj (round_spec Ops N digits) (vsh_spec component)). Qed.
Print Assumptions C10_round_and_vsh.

(** *** "mismatched list lengths" *)
Theorem C10_list_lengths np no nb ns nd : 0 <= ns ->
  decides (guard_binned np no nb) (no = np /\ (nb = 0 \/ nb = np)) /\ decides (guard_minimize_deltas ns nd) (nd = ns).
Proof. exact (fun H => conj (binned_spec np no nb) (minimize_deltas_spec ns nd H)). Qed.
Print Assumptions C10_list_lengths.
Theorem C10_transpose_lists lens : (forall l, In l lens -> 0 <= l) ->
  decides (guard_transpose_lists lens) (forall i, 0 <= i < zlen lens -> nth (Z.to_nat i) lens 0 = nth 0 lens 0).
Proof. exact (transpose_lists_spec lens). Qed.
Print Assumptions C10_transpose_lists.
Theorem C10_unit_tables lens ndims : (forall l, In l lens -> 0 <= l) ->
  decides (guard_export_table lens ndims) (ndims = 0 \/ forall i, 0 <= i < zlen lens -> nth (Z.to_nat i) lens 0 = ndims) /\
  decides (guard_in_units_table lens ndims) (forall i, 0 <= i < zlen lens -> nth (Z.to_nat i) lens 0 = ndims).
Proof. exact (fun H => conj (export_table_spec lens ndims H) (in_units_table_spec lens ndims)). Qed.
Print Assumptions C10_unit_tables.
(** Import_List / Import_Table: the file exists, holds data after the ignored lines, every remaining line holds the
    same number of entries, and the unit list is empty or as long as a row *)
Theorem C10_import e per_line ignored ndims :
  let lines := zlen per_line in
  let ndata := zsum (skipn (Z.to_nat ignored) per_line) in
  0 <= ignored < 2147483648 -> lines < 2147483648 -> 0 <= ndata < 2147483648 -> 0 <= ndims ->
  decides (guard_import_list e) (e = true) /\
  decides (guard_import_table e per_line ignored ndims)
    (e = true /\ ignored < lines /\ 0 < ndata /\ ndata mod (lines - ignored) = 0 /\
     (forall i, ignored <= i < lines -> nth (Z.to_nat i) per_line 0 = ndata / (lines - ignored)) /\
     (ndims = 0 \/ ndims = ndata / (lines - ignored))).
Proof. exact (fun H1 H2 H3 H4 => conj (import_list_spec e) (import_table_spec e per_line ignored ndims H1 H2 H3 H4)). Qed.
Print Assumptions C10_import.
(** in particular a regular file (every remaining line holds c > 0 entries) is read *)
Theorem C10_import_table_regular_file per_line ignored ndims c :
  0 <= ignored < zlen per_line -> zlen per_line < 2147483648 -> 0 < c -> (zlen per_line - ignored) * c < 2147483648 ->
  (forall i, ignored <= i < zlen per_line -> nth (Z.to_nat i) per_line 0 = c) -> (ndims = 0 \/ ndims = c) ->
  guard_import_table true per_line ignored ndims = Ok tt.
Proof. exact (import_table_uniform_ok per_line ignored ndims c). Qed.
Print Assumptions C10_import_table_regular_file.
(** Locate_Closest_Location: empty or unsorted lists exit, otherwise the index is inside the list *)
Theorem C10_closest_location {T} (Ops : NumOps T) (l : list T) (t : T) : zlen l < 4294967296 ->
  (zlen l = 0 -> closest_location Ops l t = Exit) /\
  (is_sorted Ops l = false -> closest_location Ops l t = Exit) /\
  (0 < zlen l -> is_sorted Ops l = true -> exists j, closest_location Ops l t = Ok j /\ 0 <= j < zlen l).
Proof. exact (closest_spec Ops l t). Qed.
Print Assumptions C10_closest_location.
Theorem C10_sorted_means_adjacent_order {T} (Ops : NumOps T) (l : list T) :
  is_sorted Ops l = true <-> forall i, 0 <= i < zlen l - 1 -> nltb Ops (xv Ops l (i + 1)) (xv Ops l i) = false.
Proof. exact (is_sorted_iff Ops l). Qed.
Print Assumptions C10_sorted_means_adjacent_order.
Theorem C10_workload workers tasks : 0 <= workers < 4294967295 -> 0 <= tasks ->
  decides (guard_workload workers tasks) (1 <= workers).
Proof. exact (workload_spec workers tasks). Qed.
Print Assumptions C10_workload.

(** *** requests that never exit: every index they compute is in range *)
(** Sub_List(v, int i1, unsigned i2) for every pair of indices; Perform_KDE's pseudo-data indices 2i, 3i < N *)
Theorem C10_sub_list_and_kde size i1 i2 n :
  0 <= size < 2147483648 -> -2147483648 <= i1 < 2147483648 -> 0 <= i2 < 4294967296 -> 0 <= n ->
  guard_sub_list size i1 i2 = Ok tt /\ guard_kde n = Ok tt.
Proof. exact (fun H1 H2 H3 H4 => conj (sub_list_ok size i1 i2 H1 H2 H3) (kde_ok n H4)). Qed.
Print Assumptions C10_sub_list_and_kde.

(** *** the same clauses for a request that is not the first one made on an object / in the process *)
(** Matrix: Resize, Assign, Delete_Row, Delete_Column, copy, assignment, +=, M = M + B, M = M * B, M = M.Transpose() in any
    order keep the representation invariant "components holds Rows() rows of Columns() entries" on which every shape guard
    relies ([mat_wf]); each step exits exactly outside its domain and reads nothing out of bounds. *)
Theorem C10_matrix_history_keeps_invariant r c ops p m : 0 <= r -> 0 <= c -> Forall mat_op_sizes ops ->
  mat_session r c ops p = Ok m -> mat_wf m /\ mat_bad_rows m = 0.
Proof. exact (mat_session_wf r c ops p m). Qed.
Print Assumptions C10_matrix_history_keeps_invariant.
Theorem C10_matrix_history_step m o : mat_wf m -> mat_op_sizes o ->
  (mat_op_meaningful m o -> exists m', mat_step m o = Ok m' /\ mat_wf m') /\ (~ mat_op_meaningful m o -> mat_step m o = Exit).
Proof. exact (mat_step_spec_wf m o). Qed.
Print Assumptions C10_matrix_history_step.
Theorem C10_matrix_history_memory_safe r c ops : 0 <= r -> 0 <= c -> Forall mat_op_sizes ops ->
  mat_history (mat_new r c) ops <> OOB /\ mat_history (mat_new r c) ops <> Fuel.
Proof. exact (fun Hr Hc Hs => mat_history_safe ops (mat_new r c) (mat_new_wf r c Hr Hc) Hs). Qed.
Print Assumptions C10_matrix_history_memory_safe.
(** hence, after any history, a request is judged by the theorems above on (Rows(), Columns()); the row and the column handed out
    by Return_Row / Return_Column have Columns() resp. Rows() entries *)
Theorem C10_matrix_after_history m : mat_wf m ->
  (forall i, mat_probe_guard m (PAt i) = guard_mat_index (m_rows m) i) /\
  (forall r c, mat_probe_guard m (PPlus r c) = guard_mat_plus (m_rows m) (m_cols m) r c) /\
  (forall r c, mat_probe_guard m (PPlusEq r c) = guard_mat_pluseq (m_rows m) (m_cols m) r c) /\
  (forall r c, mat_probe_guard m (PMul r c) = guard_mat_product (m_rows m) (m_cols m) r c) /\
  (forall r c, mat_probe_guard m (PLMul r c) = guard_mat_product r c (m_rows m) (m_cols m)) /\
  (forall d, mat_probe_guard m (PMatVec d) = guard_mat_vec (m_rows m) (m_cols m) d) /\
  (forall d, mat_probe_guard m (PVecMat d) = guard_vec_mat d (m_rows m) (m_cols m)) /\
  mat_probe_guard m PTrace = guard_trace (m_rows m) (m_cols m) /\
  mat_probe_guard m PDet = guard_determinant (m_rows m) (m_cols m) /\
  mat_probe_guard m PTranspose = guard_transpose (m_rows m) (m_cols m) /\
  (forall i j, mat_probe_guard m (PSub i j) = guard_sub_matrix (m_rows m) (m_cols m) i j).
Proof. exact (mat_probe_wf m). Qed.
Print Assumptions C10_matrix_after_history.
Theorem C10_matrix_rows_and_columns_after_history m : mat_wf m ->
  (forall i, 0 <= i -> decides (mat_probe_guard m (PRow i)) (i < m_rows m)) /\
  (forall j, 0 <= j -> decides (mat_probe_guard m (PCol j)) (j < m_cols m)) /\
  mat_probe_guard m PEq = Ok tt.
Proof. exact (mat_probe_row_col m). Qed.
Print Assumptions C10_matrix_rows_and_columns_after_history.
(** Vector: Resize, Assign, copy, assignment, += *)
Theorem C10_vector_history d ops p v : vec_session d ops p = Ok v ->
  vec_wf v /\
  (forall i, vec_probe_guard v (VPAt i) = guard_vec_index (v_dim v) i) /\
  (forall d', vec_probe_guard v (VPBinary d') = guard_vec_binary (v_dim v) d') /\
  (forall d', vec_probe_guard v (VPCross d') = guard_cross (v_dim v) d').
Proof. exact (fun H => conj (vec_session_wf d ops p v H) (vec_probe_wf v (vec_session_wf d ops p v H))). Qed.
Print Assumptions C10_vector_history.
(** after any history of Resize / Assign / copy / assignment / += the binary requests (Dot, sum, difference, compound assignment, product operator), Angle and Cross
    decide conformability with the object as the left AND as the right operand; operator== always answers *)
Theorem C10_vector_binary_either_side_after_history d ops p v : vec_session d ops p = Ok v ->
  (forall d', decides (vec_probe_guard v (VPBinary d')) (v_dim v = d')) /\
  (forall d', decides (vec_probe_guard v (VPBinaryR d')) (v_dim v = d')) /\
  (forall d', decides (vec_probe_guard v (VPAngle d')) (v_dim v = d')) /\
  (forall d', decides (vec_probe_guard v (VPAngleR d')) (v_dim v = d')) /\
  (forall d', decides (vec_probe_guard v (VPCrossR d')) (v_dim v = 3 /\ d' = 3)) /\
  (forall d', vec_probe_guard v (VPEq d') = Ok tt /\ vec_probe_guard v (VPEqR d') = Ok tt).
Proof. exact (fun H => vec_probe_sides v (vec_session_wf d ops p v H)). Qed.
Print Assumptions C10_vector_binary_either_side_after_history.
Example C10_vector_binary_either_side_witness :
  vec_session 3 [VResize 2; VCopy] (VPAngleR 2) = Ok {| v_dim := 2; v_len := 2 |} /\ vec_session 3 [VResize 2; VCopy] (VPAngleR 3) = Exit /\
  vec_session 2 [VSet 0] (VPBinaryR 3) = Exit.
Proof. repeat split; reflexivity. Qed.
(** Every history of a Vector, of any length, refines the mathematical size [vec_dims d ops] (Resize / Assign / assignment set the
    size, a copy keeps it, += keeps it and is meaningless for another size): the process ends exactly when a += in the
    history is non-conformable, never reads out of bounds, and otherwise the object is the one a fresh Vector(d') would be -
    so the request that follows is decided as on a fresh object (no hypothesis on the sizes) *)
Theorem C10_vector_history_refines_size d ops :
  vec_history (vec_new d) ops = match vec_dims d ops with Some d' => Ok (vec_new d') | None => Exit end.
Proof. exact (vec_history_refines ops d). Qed.
Print Assumptions C10_vector_history_refines_size.
Theorem C10_vector_session_refines_size d ops p :
  vec_session d ops p = match vec_dims d ops with
                        | Some d' => rbind (vec_probe_guard (vec_new d') p) (fun _ => Ok (vec_new d'))
                        | None => Exit end.
Proof. exact (vec_session_refines d ops p). Qed.
Print Assumptions C10_vector_session_refines_size.
Example C10_vector_history_refines_size_witness :
  vec_dims 3 [VResize 2; VCopy; VAddEq 2; VSet 5] = Some 5 /\ vec_dims 3 [VResize 2; VAddEq 3; VSet 5] = None /\
  vec_session 3 [VResize 2; VCopy; VAddEq 2; VSet 5] (VPAngleR 5) = Ok (vec_new 5) /\
  vec_session 3 [VResize 2; VCopy; VAddEq 2; VSet 5] (VPAngleR 6) = Exit.
Proof. repeat split; reflexivity. Qed.
(** "Factorial beyond 170" whatever was requested before: a sequence of Factorial / Binomial_Coefficient requests in one
    process returns iff every single one is meaningful, for every content of the memo table *)
Theorem C10_factorial_history memo cs : Forall fcall_unsigned cs ->
  decides (factorial_session ROps memo cs) (Forall fcall_meaningful cs).
Proof. exact (factorial_session_spec cs memo). Qed.
Print Assumptions C10_factorial_history.
(** Interpolation(x, f, x_dim, f_dim) and Interpolation(table, x_dim, f_dim): the sizes are tested on the lists as given, the abscissae are converted
    (x_dim > 0) and "abscissae that are not strictly increasing" is judged on the CONVERTED abscissae - the ones the object stores and every later
    request is judged against (the conversion can round two neighbours onto one double or carry the last ones to infinity: such a table is refused
    by the constructor).  For every strictly ordered number type, rounding included. *)
Theorem C10_interpolation_units_constructor {T} (Ops : NumOps T) (L : OrdLaws Ops) (xs : list T) nf (x_dim : T) (data : list (list T)) :
  zlen xs < 4294967296 -> zlen data < 4294967296 ->
  decides (guard_interpolation_units Ops xs nf x_dim) (zlen xs = nf /\ 2 <= zlen xs /\ increasing Ops (scale_units Ops x_dim xs)) /\
  decides (guard_interpolation_table_units Ops data x_dim)
    ((forall i, 0 <= i < zlen data -> zlen (nth (Z.to_nat i) data []) = 2) /\ 2 <= zlen data /\
     increasing Ops (scale_units Ops x_dim (map (fun row => nth 0 row (n0 Ops)) data))).
Proof. exact (fun H1 H2 => conj (interpolation_units_spec Ops L xs nf x_dim H1) (interpolation_table_units_spec Ops L data x_dim H2)). Qed.
Print Assumptions C10_interpolation_units_constructor.
(** the default unit argument (any x_dim that is not > 0, NaN included) is the constructor without units; and in exact arithmetic a unit
    never changes the verdict: the converted table is strictly increasing iff the given one is (over R) *)
Theorem C10_interpolation_units_default_and_exact {T} (Ops : NumOps T) (xs : list T) nf (x_dim : T) (rs : list R) (d : R) :
  (ngtb Ops x_dim (n0 Ops) = false -> guard_interpolation_units Ops xs nf x_dim = guard_interpolation Ops xs nf) /\
  (zlen rs < 4294967296 -> guard_interpolation_units ROps rs nf d = guard_interpolation ROps rs nf) /\
  (increasing ROps (scale_units ROps d rs) <-> increasing ROps rs).
Proof. exact (conj (interpolation_units_default Ops xs nf x_dim) (conj (interpolation_units_R d rs nf) (scaled_increasing_iff d rs))). Qed.
Print Assumptions C10_interpolation_units_default_and_exact.
(** the default (any x_dim <= 0) leaves the table as it is; with a unit x_dim > 0 the
    converted table is again strictly increasing (over R), `domain` is its first and last abscissa, and "outside the tabulated domain by
    more than one percent of the edge interval" is judged on the converted table *)
Theorem C10_interpolation_unit_argument (x_dim : R) (xs : list R) (x : R) : 2 <= zlen xs < 4294967296 -> increasingR xs ->
  ((x_dim <= 0)%R -> scale_units ROps x_dim xs = xs) /\
  ((0 < x_dim)%R ->
     increasingR (scale_units ROps x_dim xs) /\
     interp_domain (scale_units ROps x_dim xs) = Ok (xr xs 0 * x_dim, xr xs (zlen xs - 1) * x_dim)%R /\
     let N := zlen xs in
     let d0 := (xr xs 0 * x_dim)%R in let d1 := (xr xs (N - 1) * x_dim)%R in
     let tol_left := (1 / 100 * (xr xs 1 * x_dim - xr xs 0 * x_dim))%R in
     let tol_right := (1 / 100 * (xr xs (N - 1) * x_dim - xr xs (N - 2) * x_dim))%R in
     (locate ROps (scale_units ROps x_dim xs) x = Exit <-> (x <= d0 - tol_left \/ d1 + tol_right <= x)%R)).
Proof.
  exact (fun HN Hi => conj (scale_units_default x_dim xs)
           (fun Hd => conj (scale_units_increasing x_dim xs Hd Hi) (conj (interp_domain_scaled x_dim xs HN Hd) (locate_units_exit_iff x_dim xs x HN Hi Hd)))).
Qed.
Print Assumptions C10_interpolation_unit_argument.
(** several requests on one Interpolation object (Locate, Interpolate, Derivative, Integrate, Local_Minimum/Maximum,
    Global_Minimum/Maximum): the sequence exits iff one of its requests does, and nothing is read out of bounds *)
Theorem C10_interpolation_request_sequence {T} (Ops : NumOps T) (xs : list T) (cs : list (icall (T := T))) : 2 <= zlen xs < 4294967296 ->
  ((forall c, In c cs -> guard_icall Ops xs c = Ok tt) /\ guard_icalls Ops xs cs = Ok tt) \/
  ((exists c, In c cs /\ guard_icall Ops xs c = Exit) /\ guard_icalls Ops xs cs = Exit).
Proof. exact (icalls_spec Ops xs cs). Qed.
Print Assumptions C10_interpolation_request_sequence.
(** "never ... reads memory out of bounds", for an object with or without unit argument and whatever it was asked before:
    the interval indices that the Locate requests of a sequence return exist exactly when the sequence returns, and each of
    them lies in 0 .. N-2 (the table has N-1 intervals and N-1 Steffen coefficients a[j], b[j], c[j], d[j]) - also for an
    argument inside the 1 % tolerance band beyond either end of a long table *)
Theorem C10_interpolation_session_indices {T} (Ops : NumOps T) (xs : list T) (x_dim : T) (cs : list (icall (T := T))) : 2 <= zlen xs < 4294967296 ->
  (guard_icalls Ops (scale_units Ops x_dim xs) cs = Ok tt /\
   exists l, session_locs Ops xs x_dim cs = Ok l /\ Forall (fun j => 0 <= j <= zlen xs - 2) l) \/
  (guard_icalls Ops (scale_units Ops x_dim xs) cs = Exit /\ session_locs Ops xs x_dim cs = Exit).
Proof. exact (session_locs_spec Ops xs x_dim cs). Qed.
Print Assumptions C10_interpolation_session_indices.
(** Save_Function(filename, points) evaluates the object at the points of Linear_Space(domain[0], domain[1], points).  For every
    number type, table and number of points it either returns or exits through Locate's domain test and reads nothing out of bounds;
    in exact arithmetic all sampling points lie in the domain, so "every request that is meaningful returns normally" holds for it
    for every strictly increasing table and every number of points.  (In doubles the last point min + (points-1) * step can exceed
    domain[1] by an ulp, which is more than 1 % of a last interval shorter than 100 ulp: known finding K-C10-2, found by the
    correspondence run.) *)
Theorem C10_save_function_is_safe {T} (Ops : NumOps T) (xs : list T) (points : Z) : 2 <= zlen xs < 4294967296 ->
  guard_save_function Ops xs points = Ok tt \/ guard_save_function Ops xs points = Exit.
Proof. exact (save_function_safe Ops xs points). Qed.
Print Assumptions C10_save_function_is_safe.
Theorem C10_save_function_returns (xs : list R) (points : Z) : 2 <= zlen xs < 4294967296 -> increasingR xs ->
  guard_save_function ROps xs points = Ok tt.
Proof. exact (save_function_returns_R xs points). Qed.
Print Assumptions C10_save_function_returns.

(** *** the same clauses when the request is made from inside a call-back, after an abandoned call, or after other requests
    in the same process *)
(** "terminates the process" / "returns normally" for a guarded request made by the integrand of Integrate_2D (e.g. an
    Interpolation object evaluated outside its table): the process ends iff the method is unknown or the integrand is reached -
    no pair of limits coincides for the nested methods, always for the Monte Carlo methods - and its request ends it *)
Theorem C10_request_inside_integrand m (x1 x2 y1 y2 : R) o :
  process_outcome (integrate_2d_outcome ROps m x1 x2 y1 y2 o) = Exit <->
  (~ In m methods_1d /\ ~ In m methods_mc) \/
  (In m methods_1d /\ x1 <> x2 /\ y1 <> y2 /\ o = CbExits) \/
  (~ In m methods_1d /\ In m methods_mc /\ o = CbExits).
Proof. exact (request_inside_integrand_2d m x1 x2 y1 y2 o). Qed.
Print Assumptions C10_request_inside_integrand.
Theorem C10_request_inside_integrand_1d_3d m (a b x1 x2 y1 y2 z1 z2 : R) o :
  (integrate_outcome ROps m a b o = CbExits <-> ~ In m methods_1d \/ (a <> b /\ o = CbExits)) /\
  (integrate_3d_outcome ROps m x1 x2 y1 y2 z1 z2 o = CbExits <->
   (~ In m methods_1d /\ ~ In m methods_mc) \/
   (In m methods_1d /\ x1 <> x2 /\ y1 <> y2 /\ z1 <> z2 /\ o = CbExits) \/
   (~ In m methods_1d /\ In m methods_mc /\ o = CbExits)).
Proof. exact (conj (integrate_outcome_exits m a b o) (integrate_3d_outcome_exits m x1 x2 y1 y2 z1 z2 o)). Qed.
Print Assumptions C10_request_inside_integrand_1d_3d.
(** limits in descending order (a legal request: the sign is swapped) are judged like the same limits in ascending order, and an
    exception thrown by the integrand reaches the caller: the library neither ends the process nor swallows it *)
Theorem C10_integration_limits_and_exceptions m (a b x1 x2 y1 y2 : R) o :
  integrate_outcome ROps m a b o = integrate_outcome ROps m b a o /\
  integrate_2d_outcome ROps m x1 x2 y1 y2 o = integrate_2d_outcome ROps m x2 x1 y2 y1 o /\
  (integrate_outcome ROps m a b o = CbThrows <-> In m methods_1d /\ a <> b /\ o = CbThrows).
Proof. exact (conj (integrate_outcome_sym m a b o) (conj (integrate_2d_outcome_sym m x1 x2 y1 y2 o) (integrate_outcome_throws m a b o))). Qed.
Print Assumptions C10_integration_limits_and_exceptions.
(** Find_Root evaluates its function at both ends before it tests the bracket *)
Theorem C10_request_inside_root_function {T} (Ops : NumOps T) (f : T -> T) xl xr o :
  find_root_outcome Ops f xl xr o = CbExits <-> o = CbExits \/ (o = CbReturns /\ guard_find_root Ops f xl xr <> Ok tt).
Proof. exact (find_root_outcome_exits Ops f xl xr o). Qed.
Print Assumptions C10_request_inside_root_function.
(** several requests in one process: it goes on iff each of them returns, and a request that follows requests which all
    returned (or were abandoned by an exception the caller caught) has its own outcome, whatever those requests were *)
Theorem C10_requests_in_one_process l1 g l2 :
  (process_session l1 = Ok tt <-> Forall (fun g => g = Ok tt) l1) /\
  (Forall (fun g => g = Ok tt) l1 -> process_session (l1 ++ g :: l2) = rbind g (fun _ => process_session l2)) /\
  (Forall (fun g => g = Ok tt) l1 -> process_session (l1 ++ Exit :: l2) = Exit).
Proof. exact (conj (process_session_ok l1) (conj (process_session_after l1 g l2) (process_session_exit l1 l2))). Qed.
Print Assumptions C10_requests_in_one_process.
(** "an interpolation argument outside the tabulated domain" with coinciding arguments: Integrate(x, x) and
    Local_Minimum/Maximum(x, x) are refused exactly when Interpolate(x) is - there is no short cut in front of the domain test *)
Theorem C10_coinciding_interpolation_arguments {T} (Ops : NumOps T) (xs : list T) (x : T) : 2 <= zlen xs < 4294967296 ->
  (guard_interp_integrate Ops xs x x = Exit <-> locate Ops xs x = Exit) /\
  (guard_interp_integrate Ops xs x x = Ok tt <-> locate Ops xs x <> Exit) /\
  (nltb Ops x x = false -> (guard_local_extremum Ops xs x x = Exit <-> locate Ops xs x = Exit)).
Proof.
  exact (fun H => conj (proj1 (interp_integrate_coinciding Ops xs x H)) (conj (proj2 (interp_integrate_coinciding Ops xs x H)) (local_extremum_coinciding Ops xs x H))).
Qed.
Print Assumptions C10_coinciding_interpolation_arguments.

(** *** every kind of request on an Interpolation object, judged by Locate's domain test alone *)
(** [icall_refused Ops xs c] (C10_Proofs_More.v): Locate / Interpolate / Derivative(x, n) of EVERY order n: Locate(x) exits; Integrate(a, b): Locate(a) or
    Locate(b) exits; Local_Minimum/Maximum(a, b): b < a or Locate(a) or Locate(b) exits; Global_Minimum/Maximum: never; Save_Function: one of its sampling
    points is refused.  A request exits iff it is refused in this sense and returns otherwise - there is no order of derivative, no pair of arguments and no
    short cut for which "an interpolation argument outside the tabulated domain" is answered with a number. *)
Theorem C10_interpolation_request_outcome {T} (Ops : NumOps T) (xs : list T) (c : icall (T := T)) : 2 <= zlen xs < 4294967296 ->
  (icall_refused Ops xs c /\ guard_icall Ops xs c = Exit) \/ (~ icall_refused Ops xs c /\ guard_icall Ops xs c = Ok tt).
Proof. exact (icall_outcome Ops xs c). Qed.
Print Assumptions C10_interpolation_request_outcome.
(** Derivative(x, n): the order n (0, 1, 2, 3 and the orders >= 4 whose answer is 0 inside the domain) plays no role in the outcome *)
Theorem C10_derivative_every_order {T} (Ops : NumOps T) (xs : list T) (x : T) (n : Z) : 2 <= zlen xs < 4294967296 ->
  (guard_icall Ops xs (IDeriv x n) = Exit <-> locate Ops xs x = Exit) /\
  (guard_icall Ops xs (IDeriv x n) = Ok tt <-> locate Ops xs x <> Exit) /\
  guard_icall Ops xs (IDeriv x n) = guard_icall Ops xs (IEval x).
Proof. exact (derivative_every_order Ops xs x n). Qed.
Print Assumptions C10_derivative_every_order.
(** a sequence of requests on one object exits iff one of them is refused (sharpens C10_interpolation_request_sequence: the refusal is stated by Locate alone) *)
Theorem C10_interpolation_sequence_refused_iff {T} (Ops : NumOps T) (xs : list T) (cs : list (icall (T := T))) : 2 <= zlen xs < 4294967296 ->
  ((exists c, In c cs /\ icall_refused Ops xs c) /\ guard_icalls Ops xs cs = Exit) \/
  ((forall c, In c cs -> ~ icall_refused Ops xs c) /\ guard_icalls Ops xs cs = Ok tt).
Proof. exact (icalls_outcome Ops xs cs). Qed.
Print Assumptions C10_interpolation_sequence_refused_iff.
(** Interpolation_2D::Interpolate(x, y) exits iff x or y is refused by the Locate of its axis, otherwise all four corner reads are in range
    (sharpens C10_interpolate_2d_memory_safe); a sequence of such requests on one object exits iff one of its points is refused *)
Theorem C10_interpolate_2d_outcome {T} (Ops : NumOps T) (xs ys : list T) (x y : T) : 2 <= zlen xs < 4294967296 -> 2 <= zlen ys < 4294967296 ->
  ((locate Ops xs x = Exit \/ locate Ops ys y = Exit) /\ guard_interpolate_2d Ops xs ys x y = Exit) \/
  (locate Ops xs x <> Exit /\ locate Ops ys y <> Exit /\ guard_interpolate_2d Ops xs ys x y = Ok tt).
Proof. exact (interpolate_2d_outcome Ops xs ys x y). Qed.
Print Assumptions C10_interpolate_2d_outcome.
Theorem C10_interpolation_2d_request_sequence {T} (Ops : NumOps T) (xs ys : list T) (pts : list (T * T)) : 2 <= zlen xs < 4294967296 -> 2 <= zlen ys < 4294967296 ->
  ((exists p, In p pts /\ (locate Ops xs (fst p) = Exit \/ locate Ops ys (snd p) = Exit)) /\ guard_icalls_2d Ops xs ys pts = Exit) \/
  ((forall p, In p pts -> locate Ops xs (fst p) <> Exit /\ locate Ops ys (snd p) <> Exit) /\ guard_icalls_2d Ops xs ys pts = Ok tt).
Proof. exact (icalls_2d_outcome Ops xs ys pts). Qed.
Print Assumptions C10_interpolation_2d_request_sequence.

(** *** "an unknown integration method": a name is accepted iff it IS one of the documented strings, character by character (no prefix, no other
    spelling, no name that merely shares a hash value or a length with a documented one); Integrate_2D / _3D accept exactly the union *)
Theorem C10_method_names_spelled_out (m : string) :
  (guard_integrate m = Ok tt <->
     m = "Trapezoidal"%string \/ m = "Gauss-Legendre"%string \/ m = "Gauss-Kronrod"%string \/ m = "Tanh-Sinh"%string \/
     m = "Gauss-Legendre_2"%string \/ m = "Adaptive-Simpson"%string) /\
  (guard_integrate_mc m = Ok tt <-> m = "Monte-Carlo"%string \/ m = "Vegas"%string \/ m = "Miser"%string) /\
  (guard_integrate m = Ok tt \/ guard_integrate m = Exit) /\ (guard_integrate_mc m = Ok tt \/ guard_integrate_mc m = Exit) /\
  (guard_integrate_nd m = Ok tt <-> guard_integrate m = Ok tt \/ guard_integrate_mc m = Ok tt) /\
  (guard_integrate_nd m = Exit <-> guard_integrate m = Exit /\ guard_integrate_mc m = Exit).
Proof. exact (methods_spelled_out m). Qed.
Print Assumptions C10_method_names_spelled_out.

(** *** "tables that are ragged or too short", Interpolation_2D(data_table) in full (replaces the _partial statement above):
    with x = the sorted distinct first entries and y = the sorted distinct second entries of the rows (the constructor's own std::sort / std::unique),
    the table is accepted iff every row holds three numbers, it has |x| * |y| rows, row ix * |y| + iy holds (x[ix], y[iy], .) for all ix, iy,
    and both x and y are strictly increasing lists of at least two numbers; otherwise the constructor exits, and no row, grid or coefficient index is
    out of range on the way.  For every number type with a strict total order (doubles without NaN). *)
Theorem C10_interpolation_2d_table_constructor {T} (Ops : NumOps T) (L : OrdLaws Ops) (data : list (list T)) : zlen data < 4294967296 ->
  decides (guard_interpolation_2d_table Ops data)
    (let x := sort_unique Ops (col0 Ops data) in
     let y := sort_unique Ops (col1 Ops data) in
     rows_of_three data /\ zlen x * zlen y = zlen data /\ row_major_grid Ops x y data /\
     (2 <= zlen x /\ increasing Ops x) /\ (2 <= zlen y /\ increasing Ops y)).
Proof. exact (interpolation_2d_table_spec Ops L data). Qed.
Print Assumptions C10_interpolation_2d_table_constructor.
(** "every request that is meaningful returns normally", stated without the constructor's own sorting: the full grid X x Y of two strictly increasing
    lists of at least two numbers, written row by row with arbitrary third entries v x y, is accepted *)
Theorem C10_interpolation_2d_table_grid_accepted {T} (Ops : NumOps T) (L : OrdLaws Ops) (v : T -> T -> T) (X Y : list T) :
  incr_list Ops X -> incr_list Ops Y -> 2 <= zlen X -> 2 <= zlen Y -> zlen X * zlen Y < 4294967296 ->
  guard_interpolation_2d_table Ops (grid v X Y) = Ok tt.
Proof. exact (grid_accepted Ops L v X Y). Qed.
Print Assumptions C10_interpolation_2d_table_grid_accepted.

(** *** the whole life of an object: construction with unit arguments, then any sequence of requests.
    Interpolation(x, f, x_dim, f_dim) followed by the requests cs ends the process iff the sizes are wrong, the CONVERTED table is not strictly increasing
    or one of the requests is refused on the converted table; otherwise it returns, and `domain` is the first and last converted abscissa.
    Interpolation_2D(x, y, f, x_dim, y_dim, f_dim) followed by evaluations: the same (both grids are validated after the conversion). *)
Theorem C10_interpolation_lifetime {T} (Ops : NumOps T) (L : OrdLaws Ops) (xs : list T) nf (x_dim f_dim : T) (cs : list (icall (T := T))) : zlen xs < 4294967296 ->
  let xs' := scale_units Ops x_dim xs in
  let valid := zlen xs = nf /\ 2 <= zlen xs /\ increasing Ops xs' in
  let refused := exists c, In c cs /\ icall_refused Ops xs' c in
  ((~ valid \/ refused) /\ interp_session Ops xs nf x_dim f_dim cs = Exit) \/
  (valid /\ ~ refused /\ interp_session Ops xs nf x_dim f_dim cs = Ok (xv Ops xs' 0, xv Ops xs' (zlen xs - 1))).
Proof. exact (interp_session_outcome Ops L xs nf x_dim f_dim cs). Qed.
Print Assumptions C10_interpolation_lifetime.
Theorem C10_interpolation_2d_lifetime {T} (Ops : NumOps T) (L : OrdLaws Ops) (xs ys : list T) lens (x_dim y_dim : T) (pts : list (T * T)) :
  zlen xs < 4294967296 -> zlen ys < 4294967296 ->
  let xs' := scale_units Ops x_dim xs in
  let ys' := scale_units Ops y_dim ys in
  let valid := (zlen lens = zlen xs /\ forall i, 0 <= i < zlen lens -> nth (Z.to_nat i) lens 0 = zlen ys) /\
               (2 <= zlen xs /\ increasing Ops xs') /\ (2 <= zlen ys /\ increasing Ops ys') in
  let refused := exists p, In p pts /\ (locate Ops xs' (fst p) = Exit \/ locate Ops ys' (snd p) = Exit) in
  ((~ valid \/ refused) /\ interp2d_session Ops xs ys lens x_dim y_dim pts = Exit) \/
  (valid /\ ~ refused /\
   interp2d_session Ops xs ys lens x_dim y_dim pts = Ok ((xv Ops xs' 0, xv Ops xs' (zlen xs - 1)), (xv Ops ys' 0, xv Ops ys' (zlen ys - 1)))).
Proof. exact (interp2d_session_outcome Ops L xs ys lens x_dim y_dim pts). Qed.
Print Assumptions C10_interpolation_2d_lifetime.

(** non-vacuity of the new statements: a 2 x 3 table over the reals is accepted; Derivative of order 4 far outside a table is refused;
    a name with the djb2 hash value of "Vegas" is refused *)
Example C10_examples_more :
  guard_interpolation_2d_table ROps (grid (fun x y => x * y)%R [0; 1]%R [0; 1; 3]%R) = Ok tt /\
  guard_icall ROps [0; 1; 2; 4]%R (IDeriv 5%R 4) = Exit /\ guard_icall ROps [0; 1; 2; 4]%R (IDeriv 3%R 7) = Ok tt /\
  guard_integrate_mc "Vegas" = Ok tt /\ guard_integrate_mc "WDgas" = Exit /\ guard_integrate_mc "Vegas " = Exit /\ guard_integrate "Vegas" = Exit.
Proof.
  split; [|split; [|split; [|repeat split; reflexivity]]].
  - apply (C10_interpolation_2d_table_grid_accepted ROps ROps_OrdLaws); cbn; repeat split; try (apply Rltb_true; lra); unfold zlen; cbn; lia.
  - apply (C10_derivative_every_order ROps); [unfold zlen; cbn; lia|].
    apply C10_locate_tolerance; [unfold zlen; cbn; lia| |right; unfold zlen, xr; simpl; lra].
    intros i Hi. unfold zlen in Hi; cbn in Hi. assert (Hc : i = 1 \/ i = 2 \/ i = 3) by lia. destruct Hc as [Hc|[Hc|Hc]]; subst i; unfold xr; simpl; lra.
  - apply (C10_derivative_every_order ROps); [unfold zlen; cbn; lia|]. intros E.
    apply C10_locate_tolerance in E; [unfold zlen, xr in E; simpl in E; lra|unfold zlen; cbn; lia|].
    intros i Hi. unfold zlen in Hi; cbn in Hi. assert (Hc : i = 1 \/ i = 2 \/ i = 3) by lia. destruct Hc as [Hc|[Hc|Hc]]; subst i; unfold xr; simpl; lra.
Qed.

(** *** non-vacuity: concrete requests on both sides of guards *)
Example C10_examples :
  guard_vec_index 3 2 = Ok tt /\ guard_vec_index 3 3 = Exit /\ guard_vec_index 3 4294967295 = Exit /\
  guard_mat_plus 2 3 2 3 = Ok tt /\ guard_mat_plus 2 3 3 2 = Exit /\ guard_cross 3 4 = Exit /\
  guard_sub_matrix 3 3 (-1) 0 = Exit /\ guard_determinant 4 4 = Ok tt /\ guard_factorial 1 170 = Ok tt /\ guard_factorial 1 171 = Exit /\
  guard_gauss_legendre 2 [2; 1] = Exit /\ guard_transpose_lists [] = Ok tt /\ guard_workload 0 5 = Exit /\
  guard_import_table true [3; 1] 0 0 = Exit /\ guard_import_table true [2; 2] 0 0 = Ok tt /\
  guard_block [[(2, 2); (2, 1)]; [(1, 2); (1, 1)]] = Ok tt /\ guard_block [[(2, 2); (2, 1)]; [(1, 2)]] = Exit /\ guard_block [] = Exit /\
  mat_session 3 3 [MResize 2 5] (PPlus 2 5) = Ok (mat_new 2 5) /\ mat_session 3 3 [MResize 3 2] (PRow 0) = Ok (mat_new 3 2) /\
  mat_session 3 3 [MResize 2 5; MDelCol 4] (PPlus 2 5) = Exit /\ mat_session 2 3 [MTranspose; MDelRow 3] PNone = Exit /\
  factorial_session ROps 1 [FFact 170; FFact 3] = Ok tt /\ factorial_session ROps 1 [FFact 170; FFact 171] = Exit.
Proof. repeat split; try reflexivity; apply C10_factorial_history; repeat constructor; cbn; lia. Qed.


(** ** Locate with its search state (C10_Model2.v: jLast, correlated_calls, Hunt() line by line) *)

(** "never ... reads or writes memory out of bounds", for Hunt(x): on an object whose jLast is an interval index and for an
    argument that passed Locate's domain test (the two comparisons are the ones Locate makes), both hunting loops and the
    final bisection read only x_values[0 .. N-1], end within their fuel, and the result is an interval index.  Every
    number type, no order law: IEEE doubles as they are, tables with NaN entries included. *)
Theorem C10_hunt_stays_in_table {T} (Ops : NumOps T) (xs : list T) (jl : Z) (x : T) :
  2 <= zlen xs < 2147483648 -> 0 <= jl <= zlen xs - 2 ->
  nltb Ops x (xv Ops xs 0) = false -> nltb Ops (xv Ops xs (zlen xs - 1)) x = false ->
  exists j, hunt Ops xs jl x = Ok j /\ 0 <= j <= zlen xs - 2.
Proof. exact (hunt_range Ops xs jl x). Qed.
Print Assumptions C10_hunt_stays_in_table.

(** "terminates the process" / "returns normally", for a request that is not the first one on the object: in every admissible
    search state Locate(x) exits exactly when the stateless Locate does (so C10_locate_guard / C10_locate_tolerance decide it),
    never reads out of bounds, and otherwise returns an interval index and stores it in jLast (the state stays admissible) *)
Theorem C10_locate_with_search_state {T} (Ops : NumOps T) (xs : list T) (st : lstate) (x : T) :
  2 <= zlen xs < 2147483648 -> state_ok xs st ->
  (locate_st Ops xs st x = Exit /\ locate Ops xs x = Exit) \/
  (exists j, locate_st Ops xs st x = Ok (j, {| jLast := j; corr := u32 (j - jLast st) <? 10 |}) /\
             0 <= j <= zlen xs - 2 /\ exists j', locate Ops xs x = Ok j').
Proof. exact (locate_st_cases Ops xs st x). Qed.
Print Assumptions C10_locate_with_search_state.

(** a sequence of Locate requests of any length on one object, starting in any admissible state (the constructors' state
    [lstate0] is one: C10_locate_state_hypotheses): the process ends iff one request is refused by the stateless Locate;
    otherwise every request returns an interval index and leaves it in jLast *)
Theorem C10_locate_sequence_with_search_state {T} (Ops : NumOps T) (xs : list T) (reqs : list T) :
  2 <= zlen xs < 2147483648 -> forall st, state_ok xs st ->
  (locate_trace_from Ops xs st reqs = Exit /\ exists x, In x reqs /\ locate Ops xs x = Exit) \/
  (exists l, locate_trace_from Ops xs st reqs = Ok l /\ length l = length reqs /\
             (forall x, In x reqs -> exists j, locate Ops xs x = Ok j) /\
             Forall (fun t => 0 <= fst t <= zlen xs - 2 /\ fst (snd t) = fst t) l).
Proof. exact (locate_trace_from_spec Ops xs reqs). Qed.
Print Assumptions C10_locate_sequence_with_search_state.

(** the search state never changes an answer: over every strictly ordered number type (doubles without NaN, rounding included)
    and every strictly increasing table, Locate(x) in any admissible state returns the index of the stateless Locate -
    Hunt() in both directions with every stride, its range cut and final bisection, followed by the step onto a tabulated
    abscissa, is the same function as Bisection(x, 0, N-1) followed by that step.  (Until this pass: quoted from C09 and
    observed by the run against an untouched copy of the object.) *)
Theorem C10_search_state_never_changes_an_answer {T} (Ops : NumOps T) (L : OrdLaws Ops) (xs : list T) (st : lstate) (x : T) :
  2 <= zlen xs < 2147483648 -> increasing Ops xs -> state_ok xs st ->
  locate_st Ops xs st x =
  match locate Ops xs x with
  | Ok j => Ok (j, {| jLast := j; corr := u32 (j - jLast st) <? 10 |})
  | Exit => Exit | OOB => OOB | Fuel => Fuel
  end.
Proof. exact (locate_st_same_index Ops L xs st x). Qed.
Print Assumptions C10_search_state_never_changes_an_answer.

Theorem C10_locate_sequence_same_indices {T} (Ops : NumOps T) (L : OrdLaws Ops) (xs : list T) (reqs : list T) :
  2 <= zlen xs < 2147483648 -> increasing Ops xs -> forall st l, state_ok xs st ->
  locate_trace_from Ops xs st reqs = Ok l -> map (fun t => Ok (fst t)) l = map (locate Ops xs) reqs.
Proof. exact (locate_trace_indices Ops L xs reqs). Qed.
Print Assumptions C10_locate_sequence_same_indices.

(** non-vacuity: a table, an order and two states (the constructors' one and a correlated one) that satisfy the hypotheses *)
Example C10_locate_state_hypotheses :
  OrdLaws ROps /\ 2 <= zlen [0; 1; 2]%R < 2147483648 /\ increasing ROps [0; 1; 2]%R /\
  state_ok [0; 1; 2]%R lstate0 /\ state_ok [0; 1; 2]%R {| jLast := 1; corr := true |} /\
  nltb ROps 1.5%R (xv ROps [0; 1; 2]%R 0) = false /\ nltb ROps (xv ROps [0; 1; 2]%R (zlen [0; 1; 2]%R - 1)) 1.5%R = false.
Proof.
  split; [exact ROps_OrdLaws|]. split; [unfold zlen; cbn; lia|]. split.
  - intros i Hi. unfold zlen in Hi; cbn in Hi. assert (Hc : i = 1 \/ i = 2) by lia.
    destruct Hc; subst i; unfold xv; simpl; apply Rltb_true; lra.
  - repeat split; try (unfold state_ok, zlen; cbn; lia); unfold xv, zlen; simpl; apply Rltb_false; lra.
Qed.
