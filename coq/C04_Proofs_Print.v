(** * C04 proofs: the stream insertion operators (model coq/C04_Print.v).
    For an object that satisfies the class invariant the printing never exits and never reads outside the
    storage; the numbers it inserts are exactly the stored entries in row-major order, each once; the vector
    printout is "(" e_0 " , " e_1 ... ")" item for item; the matrix printout has Rows()-1 line ends and
    Rows()*(2*Columns()+1) + Rows()-1 items.  Induction over the loops, every size (zero sizes included). *)
From Coq Require Import ZArith List Bool Arith Lia.
From LP Require Import Num C04_Model C04_State C04_Print.
Import ListNotations.

Section PrintProofs.
Context {T : Type} (Ops : NumOps T).

Lemma nums_app (a b : list (ptok T)) : nums (a ++ b) = nums a ++ nums b.
Proof. unfold nums. apply flat_map_app. Qed.
Lemma newlines_app (a b : list (ptok T)) : newlines (a ++ b) = newlines a + newlines b.
Proof. unfold newlines. rewrite filter_app, app_length. reflexivity. Qed.

(** the generic loop: if every round succeeds, the run succeeds and is the concatenation of the rounds *)
Lemma pr_seq_ok {A} (f : nat -> res (list A)) (g : nat -> list A) (l : list nat) :
  (forall i, In i l -> f i = Ok (g i)) -> pr_seq f l = Ok (flat_map g l).
Proof.
  induction l as [|i r IH]; intros H; simpl.
  - reflexivity.
  - rewrite (H i (or_introl eq_refl)). simpl. rewrite IH by (intros; apply H; right; assumption). reflexivity.
Qed.

Lemma get_nth_ok {A} (d : A) (l : list A) i : i < length l -> get l i = Ok (nth i l d).
Proof.
  intros H. unfold get. destruct (nth_error l i) eqn:E.
  - rewrite (nth_error_nth _ _ d E). reflexivity.
  - apply nth_error_None in E. lia.
Qed.

Lemma map_nth_seq {A} (d : A) (l : list A) : map (fun i => nth i l d) (seq 0 (length l)) = l.
Proof.
  apply nth_ext with (d := d) (d' := d).
  - rewrite map_length, seq_length. reflexivity.
  - intros n Hn. rewrite map_length, seq_length in Hn.
    rewrite (nth_indep _ d (nth (length l) l d)) by (rewrite map_length, seq_length; assumption).
    rewrite (map_nth (fun i => nth i l d)). rewrite seq_nth by assumption. reflexivity.
Qed.

Lemma flat_map_single {A B} (g : A -> B) (l : list A) : flat_map (fun i => [g i]) l = map g l.
Proof. induction l; simpl; congruence. Qed.

(** ** Vector *)
Definition v_round (v : vec T) (i : nat) : list (ptok T) :=
  PNum (nth i (vcomps v) (n0 Ops)) :: (if i <? vdim v - 1 then [PCM] else []).

Lemma v_print_rounds (v : vec T) : wf_vec v = true ->
  v_print v = Ok (PLP :: flat_map (v_round v) (seq 0 (vdim v)) ++ [PRP]).
Proof.
  unfold wf_vec. intros Hwf. apply Nat.eqb_eq in Hwf. unfold v_print.
  rewrite (pr_seq_ok _ (v_round v)).
  - reflexivity.
  - intros i Hi. apply in_seq in Hi. unfold v_at.
    destruct (vdim v <=? i) eqn:E; [apply Nat.leb_le in E; lia|].
    rewrite (get_nth_ok (n0 Ops)) by lia. reflexivity.
Qed.

Lemma nums_flat_map {A} (g : A -> list (ptok T)) (h : A -> list T) (l : list A) :
  (forall i, In i l -> nums (g i) = h i) -> nums (flat_map g l) = flat_map h l.
Proof.
  induction l as [|a r IH]; intros H; simpl; [reflexivity|].
  rewrite nums_app, H by (left; reflexivity). rewrite IH by (intros; apply H; right; assumption). reflexivity.
Qed.

(** the printout never exits on an object that satisfies the invariant, and the numbers inserted are the
    components, in order, each once *)
Lemma v_print_nums (v : vec T) : wf_vec v = true ->
  exists l, v_print v = Ok l /\ nums l = vcomps v /\ length l = 2 * vdim v + 1 + (if vdim v =? 0 then 1 else 0).
Proof.
  intros Hwf. rewrite (v_print_rounds v Hwf). eexists. split; [reflexivity|].
  unfold wf_vec in Hwf. apply Nat.eqb_eq in Hwf. split.
  - change (PLP :: ?x) with ([@PLP T] ++ x). rewrite !nums_app. simpl. rewrite app_nil_r.
    rewrite (nums_flat_map _ (fun i => [nth i (vcomps v) (n0 Ops)])).
    + rewrite flat_map_single, <- Hwf. apply map_nth_seq.
    + intros i _. unfold v_round. destruct (i <? vdim v - 1); reflexivity.
  - simpl. rewrite app_length. simpl.
    assert (G : forall n k, n + k = vdim v ->
              length (flat_map (v_round v) (seq k n)) = 2 * n - (if n =? 0 then 0 else 1)).
    { induction n as [|n IH]; intros k Hk; simpl; [reflexivity|].
      rewrite app_length, (IH (S k)) by lia. unfold v_round.
      destruct (k <? vdim v - 1) eqn:E.
      - apply Nat.ltb_lt in E. destruct n; [lia|]. simpl. lia.
      - apply Nat.ltb_ge in E. assert (n = 0) by lia. subst n. simpl. lia. }
    rewrite (G (vdim v) 0) by lia. destruct (vdim v); simpl; lia.
Qed.

(** item for item: "(" e_0 " , " e_1 " , " ... e_{n-1} ")" *)
Fixpoint commas (l : list T) : list (ptok T) :=
  match l with [] => [] | [x] => [PNum x] | x :: r => PNum x :: PCM :: commas r end.

Lemma v_print_items (v : vec T) : wf_vec v = true -> v_print v = Ok (PLP :: commas (vcomps v) ++ [PRP]).
Proof.
  intros Hwf. rewrite (v_print_rounds v Hwf). do 3 f_equal.
  unfold wf_vec in Hwf. apply Nat.eqb_eq in Hwf.
  assert (G : forall (l pre : list T), pre ++ l = vcomps v ->
            flat_map (v_round v) (seq (length pre) (length l)) = commas l).
  { induction l as [|x r IH]; intros pre Hp; [reflexivity|].
    cbn [length seq flat_map].
    assert (Hl : vdim v = length pre + S (length r)) by (rewrite <- Hwf, <- Hp, app_length; reflexivity).
    specialize (IH (pre ++ [x])). rewrite app_length in IH. cbn [length] in IH.
    replace (length pre + 1) with (S (length pre)) in IH by lia.
    rewrite IH by (rewrite <- app_assoc; exact Hp).
    unfold v_round at 1. rewrite <- Hp, nth_middle.
    destruct r as [|y r'].
    - cbn [length]. destruct (length pre <? vdim v - 1) eqn:E; [apply Nat.ltb_lt in E; cbn [length] in Hl; lia|reflexivity].
    - destruct (length pre <? vdim v - 1) eqn:E; [reflexivity|apply Nat.ltb_ge in E; cbn [length] in Hl; lia]. }
  rewrite <- Hwf. exact (G (vcomps v) [] eq_refl).
Qed.

Lemma nums_commas (l : list T) : nums (commas l) = l.
Proof.
  induction l as [|x r IH]; [reflexivity|]. destruct r as [|y r']; [reflexivity|].
  change (commas (x :: y :: r')) with (PNum x :: PCM :: commas (y :: r')).
  change (nums (PNum x :: PCM :: ?c)) with (x :: nums c). rewrite IH. reflexivity.
Qed.

(** the vector printout, item for item, for every dimension (0 included): never exits on an object that
    satisfies the invariant; the numbers are the components in order, each once *)
Lemma v_print_spec (v : vec T) : wf_vec v = true ->
  v_print v = Ok (PLP :: commas (vcomps v) ++ [PRP]) /\ nums (PLP :: commas (vcomps v) ++ [PRP]) = vcomps v.
Proof.
  intros H. split; [exact (v_print_items v H)|].
  change (PLP :: ?x) with ([@PLP T] ++ x). rewrite !nums_app, nums_commas. simpl. apply app_nil_r.
Qed.

(** ** Matrix *)
Definition m_lead (M : mat T) (i : nat) : ptok T := if i =? 0 then PLC else if i =? mrows M - 1 then PLF else PBAR.
Definition m_sep (M : mat T) (i j : nat) : ptok T :=
  if j <? mcols M - 1 then PTAB else if i =? 0 then PRC else if i =? mrows M - 1 then PRF else PBAR.
Definition m_round (M : mat T) (i : nat) : list (ptok T) :=
  m_lead M i :: flat_map (fun j => [PNum (nth j (nth i (mcomps M) []) (n0 Ops)); m_sep M i j]) (seq 0 (mcols M))
             ++ (if i <? mrows M - 1 then [PNL] else []).

Lemma wf_row_length (M : mat T) i : wf_mat M = true -> i < mrows M -> length (nth i (mcomps M) []) = mcols M.
Proof.
  unfold wf_mat. intros H Hi. apply andb_prop in H. destruct H as [Hr Ha].
  apply Nat.eqb_eq in Hr. rewrite forallb_forall in Ha.
  apply Nat.eqb_eq. apply Ha. apply nth_In. lia.
Qed.

Lemma m_print_rounds (M : mat T) : wf_mat M = true -> m_print M = Ok (flat_map (m_round M) (seq 0 (mrows M))).
Proof.
  intros Hwf. unfold m_print. apply pr_seq_ok. intros i Hi. apply in_seq in Hi.
  rewrite (pr_seq_ok _ (fun j => [PNum (nth j (nth i (mcomps M) []) (n0 Ops)); m_sep M i j])).
  - reflexivity.
  - intros j Hj. apply in_seq in Hj. unfold m_at.
    destruct (mrows M <=? i) eqn:E; [apply Nat.leb_le in E; lia|].
    unfold get2. pose proof (wf_row_length M i Hwf (proj2 Hi)) as Hl.
    assert (Hr : length (mcomps M) = mrows M).
    { unfold wf_mat in Hwf. apply andb_prop in Hwf. apply Nat.eqb_eq. exact (proj1 Hwf). }
    rewrite (get_nth_ok []) by lia. simpl. rewrite (get_nth_ok (n0 Ops)) by lia. reflexivity.
Qed.

Lemma newlines_flat_map0 {A} (g : A -> list (ptok T)) (l : list A) :
  (forall j, newlines (g j) = 0) -> newlines (flat_map g l) = 0.
Proof. intros H. induction l; simpl; [reflexivity|]. rewrite newlines_app, H, IHl. reflexivity. Qed.

Lemma m_round_nums (M : mat T) i : wf_mat M = true -> i < mrows M -> nums (m_round M i) = nth i (mcomps M) [].
Proof.
  intros Hwf Hi. unfold m_round. change (?a :: ?x ++ ?y) with ([a] ++ x ++ y). rewrite !nums_app.
  replace (nums [m_lead M i]) with (@nil T) by (unfold m_lead; destruct (i =? 0); [|destruct (i =? mrows M - 1)]; reflexivity).
  replace (nums (if i <? mrows M - 1 then [PNL] else [])) with (@nil T) by (destruct (i <? mrows M - 1); reflexivity).
  rewrite app_nil_r. simpl.
  rewrite (nums_flat_map _ (fun j => [nth j (nth i (mcomps M) []) (n0 Ops)])).
  - rewrite flat_map_single, <- (wf_row_length M i Hwf Hi). apply map_nth_seq.
  - intros j _. unfold m_sep.
    destruct (j <? mcols M - 1); [|destruct (i =? 0); [|destruct (i =? mrows M - 1)]]; reflexivity.
Qed.

Lemma m_round_newlines (M : mat T) i : newlines (m_round M i) = if i <? mrows M - 1 then 1 else 0.
Proof.
  unfold m_round. change (?a :: ?x ++ ?y) with ([a] ++ x ++ y). rewrite !newlines_app.
  rewrite newlines_flat_map0.
  - replace (newlines [m_lead M i]) with 0 by (unfold m_lead; destruct (i =? 0); [|destruct (i =? mrows M - 1)]; reflexivity).
    destruct (i <? mrows M - 1); reflexivity.
  - intros j. unfold m_sep.
    destruct (j <? mcols M - 1); [|destruct (i =? 0); [|destruct (i =? mrows M - 1)]]; reflexivity.
Qed.

(** printing a matrix that satisfies the invariant never exits, inserts exactly the stored entries in
    row-major order, each once, and Rows()-1 line ends *)
Lemma m_print_nums (M : mat T) : wf_mat M = true ->
  exists l, m_print M = Ok l /\ nums l = concat (mcomps M) /\ newlines l = mrows M - 1.
Proof.
  intros Hwf. rewrite (m_print_rounds M Hwf). eexists. split; [reflexivity|]. split.
  - rewrite (nums_flat_map _ (fun i => nth i (mcomps M) [])).
    + rewrite flat_map_concat_map. f_equal.
      assert (Hr : length (mcomps M) = mrows M).
      { unfold wf_mat in Hwf. apply andb_prop in Hwf. apply Nat.eqb_eq. exact (proj1 Hwf). }
      rewrite <- Hr. apply map_nth_seq.
    + intros i Hi. apply in_seq in Hi. apply m_round_nums; [assumption|lia].
  - assert (G : forall n k, k + n = mrows M -> newlines (flat_map (m_round M) (seq k n)) = n - 1).
    { induction n as [|n IH]; intros k Hk; [reflexivity|].
      cbn [seq flat_map]. rewrite newlines_app, m_round_newlines, (IH (S k)) by lia.
      destruct (k <? mrows M - 1) eqn:E; [apply Nat.ltb_lt in E|apply Nat.ltb_ge in E]; lia. }
    apply G. lia.
Qed.

End PrintProofs.

(** non-vacuity: a 2x2 matrix and a 3-vector over nat *)
Example print_instance :
  v_print (mkVec 3 [1; 2; 3]) = Ok [PLP; PNum 1; PCM; PNum 2; PCM; PNum 3; PRP] /\
  m_print (mkMat 2 2 [[1; 2]; [3; 4]]) = Ok [PLC; PNum 1; PTAB; PNum 2; PRC; PNL; PLF; PNum 3; PTAB; PNum 4; PRF] /\
  m_print (mkMat 3 1 [[1]; [2]; [3]]) = Ok [PLC; PNum 1; PRC; PNL; PBAR; PNum 2; PBAR; PNL; PLF; PNum 3; PRF] /\
  wf_mat (mkMat 2 2 [[1; 2]; [3; 4]]) = true /\ wf_vec (mkVec 3 [1; 2; 3]) = true /\
  v_print (mkVec 3 [1; 2]) = OOB /\ m_print (mkMat 2 2 [[1; 2]; [3]]) = OOB.
Proof. repeat split; reflexivity. Qed.
