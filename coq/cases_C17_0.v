From Coq Require Import Reals Lra.
From Coquelicot Require Import Coquelicot.
From Interval Require Import Tactic.
From LP Require Import NumR C17_Defs.
Open Scope R_scope.
Lemma s3_0 : Rabs (dawson_def (IZR (3602879701896397) * powerRZ 2 (-54)) - (IZR (1754160916702893) * powerRZ 2 (-53))) <= 2 / 10000000.
Proof. unfold dawson_def. integral with (i_prec 60). Qed.
Lemma s3_10 : Rabs (dawson_def (IZR (2315655259331147) * powerRZ 2 (-50)) - (IZR (1306237983581591) * powerRZ 2 (-52))) <= 2 / 10000000.
Proof. unfold dawson_def. integral with (i_prec 60). Qed.
Lemma s3_20 : Rabs (dawson_def (IZR (3602879395154517) * powerRZ 2 (-54)) - (IZR (7016644574689005) * powerRZ 2 (-55))) <= 2 / 10000000.
Proof. unfold dawson_def. integral with (i_prec 60). Qed.
Lemma s3_30 : Rabs (dawson_def (IZR (-1807833771690907) * powerRZ 2 (-53)) - (IZR (-3520110051394663) * powerRZ 2 (-54))) <= 2 / 10000000.
Proof. unfold dawson_def. integral with (i_prec 60). Qed.
Lemma s3_40 : Rabs ((IZR (4120275584808763) * powerRZ 2 (-54)) - erfi_def (IZR (3602879701896397) * powerRZ 2 (-54))) <= 1 / 1000000 * Rabs (erfi_def (IZR (3602879701896397) * powerRZ 2 (-54))).
Proof. apply rel_error_from_enclosure; [lra|interval|]. unfold erfi_def. split; integral with (i_prec 80). Qed.
Lemma s3_50 : Rerf ((IZR (1073965017896961) * powerRZ 2 (-51)) - 1 / 10000) < (IZR (1) * powerRZ 2 (-1)) < Rerf ((IZR (1073965017896961) * powerRZ 2 (-51)) + 1 / 10000).
Proof. unfold Rerf. split; integral with (i_prec 80). Qed.
