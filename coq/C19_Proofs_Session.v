(** * C19 proofs: sessions (several requests in one process, ambient process state)

    The answers of a session are the answers of its requests, one by one, whatever ambient state (errno,
    floating-point exception flags, stream state) the process started with and whatever each call or unrelated
    event left behind: every answer equals the answer of a one-request session in a pristine process. *)
From Coq Require Import List Arith Lia.
From LP Require Import C19_Model.
Import ListNotations.

Section SessionProofs.
Context {Amb Req Out : Type}.
Variable answer : Req -> Out.

Theorem session_is_map (leaves : Req -> Amb -> Amb) (a : Amb) (rs : list Req) : session answer leaves a rs = map answer rs.
Proof. revert a. induction rs as [|r t IH]; intros a; simpl; [reflexivity | now rewrite IH]. Qed.

Theorem session_length (leaves : Req -> Amb -> Amb) (a : Amb) (rs : list Req) : length (session answer leaves a rs) = length rs.
Proof. now rewrite session_is_map, map_length. Qed.

(** the k-th answer of a session that starts in state [a] is the answer to the same request alone in state [a0] *)
Theorem session_answer_fresh (leaves : Req -> Amb -> Amb) (a a0 : Amb) (rs : list Req) (k : nat) (r : Req) :
  nth_error rs k = Some r ->
  nth_error (session answer leaves a rs) k = nth_error (session answer leaves a0 [r]) 0.
Proof.
  intros H. rewrite session_is_map. simpl. now rewrite (map_nth_error answer k rs H).
Qed.

(** an answer does not depend on the history: any two sessions (different starting states, different earlier
    requests and events, different effects on the ambient state) that end with the same request end with the same answer *)
Theorem session_history_independent (leaves leaves' : Req -> Amb -> Amb) (a a' : Amb) (h h' : list Req) (r : Req) :
  last (session answer leaves a (h ++ [r])) (answer r) = last (session answer leaves' a' (h' ++ [r])) (answer r).
Proof.
  rewrite !session_is_map, !map_app. simpl. now rewrite !last_last.
Qed.

(** a request repeated anywhere in a session gets the same answer *)
Theorem session_repeat (leaves : Req -> Amb -> Amb) (a : Amb) (rs : list Req) (i j : nat) (r : Req) :
  nth_error rs i = Some r -> nth_error rs j = Some r ->
  nth_error (session answer leaves a rs) i = nth_error (session answer leaves a rs) j.
Proof.
  intros Hi Hj. rewrite session_is_map. now rewrite (map_nth_error answer i rs Hi), (map_nth_error answer j rs Hj).
Qed.
End SessionProofs.

(* non-vacuity: a three-request session over a one-bit ambient state that every call flips *)
Example session_example :
  session (fun n : nat => n * n) (fun _ (b : bool) => negb b) true [3; 4; 3] = [9; 16; 9].
Proof. reflexivity. Qed.
