(** * C19 proofs *)
From Coq Require Import ZArith List Bool Lia Arith.
From LP Require Import Num C19_Model.
Import ListNotations.
Local Open Scope Z_scope.
Ltac Zify.zify_post_hook ::= Z.div_mod_to_equations.

(** ** Workload_Distribution *)
Lemma length_upd {A} (l : list A) i f : length (upd l i f) = length l.
Proof. revert i; induction l as [|a l IH]; intros [|i]; simpl; auto. Qed.

Lemma nth_upd {A} (l : list A) i f k d :
  nth k (upd l i f) d = if Nat.eqb k i then (if Nat.ltb k (length l) then f (nth k l d) else d) else nth k l d.
Proof.
  revert i k; induction l as [|a l IH]; intros i k.
  - simpl. destruct (Nat.eqb k i); destruct k; reflexivity.
  - destruct i as [|i]; destruct k as [|k]; simpl; auto.
    rewrite IH. destruct (Nat.eqb k i); auto.
Qed.

Lemma length_wl_base q acc n : length (wl_base q acc n) = S n.
Proof. revert acc; induction n as [|n IH]; intros acc; simpl; auto. Qed.

Lemma nth_wl_base q acc n k : (k <= n)%nat -> nth k (wl_base q acc n) 0 = acc + Z.of_nat k * q.
Proof.
  revert acc k; induction n as [|n IH]; intros acc k Hk.
  - assert (k = 0%nat) by lia; subst; simpl; lia.
  - destruct k as [|k]; simpl wl_base; simpl nth; [lia|]. rewrite IH by lia. rewrite Nat2Z.inj_succ. ring.
Qed.

(** state of the remainder loop after the iterations 0..j-1 *)
Definition wl_inv (w : nat) (q r : Z) (j : nat) (l : list Z) : Prop :=
  length l = S w /\
  forall k, (k <= w)%nat ->
    nth k l 0 = Z.of_nat k * q + (if Nat.ltb (w - j) k then Z.of_nat k - (Z.of_nat w - r) else 0).

Lemma wl_rem_inv w q r : 0 <= r <= Z.of_nat w ->
  forall n i l, (Z.of_nat i + Z.of_nat n <= r) -> wl_inv w q r i l -> wl_inv w q r (i + n) (wl_rem l w r i n).
Proof.
  intros Hr n; induction n as [|n IH]; intros i l Hin Hinv.
  - simpl. now rewrite Nat.add_0_r.
  - simpl. replace (i + S n)%nat with (S i + n)%nat by lia. apply IH; [lia|].
    destruct Hinv as [Hlen Hnth]. split; [now rewrite length_upd|].
    intros k Hk. rewrite nth_upd, Hlen, (Hnth k Hk).
    destruct (Nat.eqb_spec k (w - i)) as [->|Hne].
    + assert (Nat.ltb (w - i) (S w) = true) as -> by (apply Nat.ltb_lt; lia).
      assert (Nat.ltb (w - i) (w - i) = false) as -> by (apply Nat.ltb_ge; lia).
      assert (Nat.ltb (w - S i) (w - i) = true) as -> by (apply Nat.ltb_lt; lia).
      lia.
    + destruct (Nat.ltb_spec (w - i) k), (Nat.ltb_spec (w - S i) k); lia.
Qed.

Theorem workload_nth (w t : nat) : (1 <= w)%nat ->
  let q := Z.of_nat t / Z.of_nat w in
  let r := Z.of_nat t mod Z.of_nat w in
  length (workload_list w t) = S w /\
  forall k, (k <= w)%nat ->
    nth k (workload_list w t) 0 = Z.of_nat k * q + Z.max 0 (Z.of_nat k - (Z.of_nat w - r)).
Proof.
  intros Hw q r. unfold workload_list. fold q r.
  assert (Hr : 0 <= r <= Z.of_nat w) by (unfold r; lia).
  pose proof (wl_rem_inv w q r Hr (Z.to_nat r) 0 (wl_base q 0 w)) as H.
  destruct H as [Hlen Hnth].
  - lia.
  - split; [apply length_wl_base|]. intros k Hk. rewrite nth_wl_base by lia.
    assert (Nat.ltb (w - 0) k = false) as -> by (apply Nat.ltb_ge; lia). lia.
  - split; [exact Hlen|]. intros k Hk. simpl in Hnth. rewrite (Hnth k Hk).
    destruct (Nat.ltb_spec (w - Z.to_nat r) k); lia.
Qed.

(** the clauses of the property, for every number of workers >= 1 and every number of tasks *)
Theorem workload_list_spec (w t : nat) : (1 <= w)%nat ->
  let l := workload_list w t in
  length l = S w /\ nth 0 l 0 = 0 /\ nth w l 0 = Z.of_nat t /\
  forall k, (k < w)%nat ->
    let d := nth (S k) l 0 - nth k l 0 in
    (d = Z.of_nat t / Z.of_nat w \/ d = Z.of_nat t / Z.of_nat w + 1) /\ 0 <= d.
Proof.
  intros Hw l. destruct (workload_nth w t Hw) as [Hlen Hnth]. fold l in Hlen, Hnth.
  split; [exact Hlen|]. split; [rewrite Hnth by lia; lia|]. split; [rewrite Hnth by lia; lia|].
  intros k Hk d. unfold d. rewrite !Hnth by lia.
  assert (0 <= Z.of_nat t / Z.of_nat w) by (apply Z.div_pos; lia). lia.
Qed.

(** Workload_Distribution returns (no exit) for every workers >= 1, with the full specification;
    the q+1 differences sit on the last [tasks mod workers] workers *)
Theorem workload_spec (w t : nat) : (1 <= w)%nat ->
  exists l, workload w t = Ok l /\
  length l = S w /\ nth 0 l 0 = 0 /\ nth w l 0 = Z.of_nat t /\
  (forall k, (k <= w)%nat ->
     nth k l 0 = Z.of_nat k * (Z.of_nat t / Z.of_nat w) + Z.max 0 (Z.of_nat k - (Z.of_nat w - Z.of_nat t mod Z.of_nat w))) /\
  forall k, (k < w)%nat ->
    let d := nth (S k) l 0 - nth k l 0 in
    (d = Z.of_nat t / Z.of_nat w \/ d = Z.of_nat t / Z.of_nat w + 1) /\ 0 <= d.
Proof.
  intros Hw. exists (workload_list w t). split.
  - unfold workload. destruct w; [lia|reflexivity].
  - destruct (workload_list_spec w t Hw) as (H1 & H2 & H3 & H4).
    destruct (workload_nth w t Hw) as [_ Hn].
    repeat split; auto; apply H4; auto.
Qed.

(** zero workers: diagnostic and exit *)
Theorem workload_zero (t : nat) : workload 0 t = Exit.
Proof. reflexivity. Qed.

Example workload_example : workload 3 10 = Ok [0; 3; 6; 10].
Proof. reflexivity. Qed.
