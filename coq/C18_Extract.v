From Coq Require Import Extraction ExtrOcamlBasic ZArith List.
From LP Require Import Num C18_Model C18_Model2.
Extraction Language OCaml.
Extraction "C18_m.ml" sample_uniform sample_gauss sample_poisson sample_poisson_list inverse_transform
  rejection_sampling rejection_sampling_2d sample_metropolis sample_metropolis_2d
  inverse_transform_st rejection_sampling_st rejection_sampling_2d_st sample_metropolis_st sample_metropolis_2d_st
  run_calls sample_metropolis_w sample_metropolis_2d_w mt_seed mt_next mt_canon mt_stream run_from canon metro_imax metro_kept metro_consumed metro2_consumed Z.of_nat Z.to_nat.
