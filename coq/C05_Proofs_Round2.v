(** * C05 proofs, part 8.
    (1) EVERY arithmetic (arbitrary [NumOps T], in particular the IEEE doubles with NaN / inf on which the extracted
        model runs): Determinant() returns a number on every square matrix of every size (the recursion never runs out of
        its fuel, Sub_Matrix never fails), Invertible() is the test of that number against 0.0, Inverse() either exits or
        returns an N x N matrix - no third outcome; non-square: Exit / false / Exit.
    (2) the determinant clauses "transpose-invariant", "changes sign under a row swap", "product of the diagonal for
        triangular matrices" in ROUNDED arithmetic (standard model, see C05_Proofs_Round.v): every size, by the forward
        error bound of Determinant() and three facts about the permanent of |M| proved here
        (perm|M^T| = perm|M|, perm|P M| = perm|M|, perm|M| = prod |m_ii| for triangular M). *)
From mathcomp Require Import all_ssreflect all_fingroup all_algebra.
From Coq Require List ZArith.
From LP Require Import Num C04_Model C05_Model C04_Proofs_Struct C04_Proofs_Laws C05_Proofs C05_Proofs_Round.
Set Implicit Arguments. Unset Strict Implicit. Unset Printing Implicit Defensive.
Arguments tab : simpl never.
Arguments tab2 : simpl never.
Import Order.TTheory GRing.Theory Num.Theory.
Local Open Scope ring_scope.

(** ** (1) every arithmetic *)
Section AnyOps.
Context {T : Type} (Ops : NumOps T).
Local Notation ment := (ment Ops).

Lemma Adet_fuelS fuel (M : mat T) :
  det_fuel Ops fuel.+1 M =
  if ~~ square M then Exit
  else if (mrows M == 1)%N then Ok (ment M 0 0)
  else if (mrows M == 2)%N then Ok (nsub Ops (nmul Ops (ment M 0 0) (ment M 1 1)) (nmul Ops (ment M 0 1) (ment M 1 0)))
  else foldl (fun acc j => rbind acc (fun a => rbind (sub_matrix M 0 j) (fun sm =>
                rbind (det_fuel Ops fuel sm) (fun d => Ok (nadd Ops a (nmul Ops (nmul Ops (lap_sign Ops j) (ment M 0 j)) d))))))
             (Ok (n0 Ops)) (iota 0 (mcols M)).
Proof. by rewrite /= !eqbE foldE seqE. Qed.

Lemma foldl_ok (A : Type) (step : res A -> nat -> res A) a0 m :
  (forall a j, (j < m)%N -> exists a', step (Ok a) j = Ok a') -> exists a, foldl step (Ok a0) (iota 0 m) = Ok a.
Proof.
  elim: m => [|m IH] H; first by exists a0.
  have [a Ea] := IH (fun a j Hj => H a j (ltnW Hj)).
  have [a' Ea'] := H a m (ltnSn m).
  by exists a'; rewrite -addn1 iotaD foldl_cat Ea /= add0n.
Qed.

Lemma det_fuel_returns n fuel (M : mat T) : wf_mat M -> mrows M = n.+1 -> mcols M = n.+1 -> (n < fuel)%N ->
  exists d, det_fuel Ops fuel M = Ok d.
Proof.
  elim: fuel n M => [|fuel IH] n M // HM Hr Hc Hf.
  rewrite Adet_fuelS squareE Hr Hc eqxx [~~ true]/=.
  case: n Hr Hc Hf => [|[|n]] Hr Hc Hf; [by eexists | by eexists |].
  rewrite (_ : (n.+3 == 1)%N = false) // (_ : (n.+3 == 2)%N = false) //.
  apply: foldl_ok => a j Hj.
  rewrite /= (sub_matrix_spec Ops) ?Hr ?Hc //= Hj /=.
  have [dj ->] := IH n.+1 (mk_mat n.+2 n.+2 (fun a b => ment M (skip 0 a) (skip j b))) (wf_mk _ _ _) erefl erefl Hf.
  by eexists.
Qed.

Lemma gj_fold_outcome N l (r : res (seq (seq T))) : (r = Exit \/ exists A, r = Ok A) ->
  let r' := foldl (fun acc i => rbind acc (fun A => gj_step Ops N A i)) r l in r' = Exit \/ exists A, r' = Ok A.
Proof.
  elim: l r => [|i l IH] r H //=; apply: IH.
  case: H => [->|[A ->]] /=; first by left.
  by rewrite /gj_step; case: (neqb Ops _ _); [left | right; eexists].
Qed.

(** square matrix of any size, any arithmetic *)
Theorem any_arith_square n (M : mat T) : wf_mat M -> mrows M = n.+1 -> mcols M = n.+1 ->
  exists d, [/\ determinant Ops M = Ok d,
                invertible Ops M = Ok (~~ neqb Ops d (n0 Ops)),
                neqb Ops d (n0 Ops) -> inverse Ops M = Exit &
                inverse Ops M = Exit \/
                exists X, [/\ inverse Ops M = Ok X, wf_mat X, mrows X = n.+1 & mcols X = n.+1]].
Proof.
  move=> HM Hr Hc.
  have [d Ed] : exists d, determinant Ops M = Ok d by apply: (@det_fuel_returns n) => //; rewrite Hr.
  have Ei : invertible Ops M = Ok (~~ neqb Ops d (n0 Ops)) by rewrite /invertible squareE Hr Hc eqxx /= Ed.
  exists d; split=> //.
  - by move=> H; rewrite /inverse squareE Hr Hc eqxx /= Ei /= H.
  - rewrite /inverse squareE Hr Hc eqxx /= Ei /=; case: (neqb Ops d _) => /=; first by left.
    rewrite /gauss_jordan foldE seqE.
    have := @gj_fold_outcome n.+1 (iota 0 n.+1) (Ok (augment Ops M)) (or_intror (ex_intro _ _ erefl)).
    case=> [->|[A ->]] /=; first by left.
    by right; eexists; split; first by []; rewrite ?wf_mk.
Qed.

(** non-square, any arithmetic *)
Theorem any_arith_nonsquare (M : mat T) : mrows M <> mcols M ->
  [/\ determinant Ops M = Exit, invertible Ops M = Ok false, inverse Ops M = Exit & orthogonal Ops M = Ok false].
Proof.
  move=> /eqP H; have S : square M = false by rewrite squareE; apply/negbTE.
  have Ei : invertible Ops M = Ok false by rewrite /invertible S.
  split=> //; rewrite ?/inverse ?/orthogonal ?Ei ?S //.
  by rewrite /determinant; case: (mrows M) => [|k] /=; rewrite S.
Qed.
End AnyOps.

(** ** (2a) the permanent of |A|: transpose, row permutation, triangular *)
Section Permanent2.
Variable R : realFieldType.

Lemma pm_tr n (A : 'M[R]_n) : pm A^T = pm A.
Proof.
  rewrite /pm (reindex_inj invg_inj) /=; apply: eq_bigr => s _; rewrite (reindex_perm s) /=.
  by apply: eq_bigr => i _; rewrite mxE permK.
Qed.

Lemma pm_row_perm n (t : 'S_n) (A : 'M[R]_n) : pm (row_perm t A) = pm A.
Proof.
  rewrite /pm (reindex_inj (mulgI t)) /=; apply: eq_bigr => s _; rewrite [RHS](reindex_perm t) /=.
  by apply: eq_bigr => i _; rewrite mxE permM.
Qed.

Lemma perm_exceed n (p : 'S_n) : p != 1%g -> exists i : 'I_n, (i < p i)%N.
Proof.
  move=> p1; apply/existsP; apply: contraR p1; rewrite negb_exists => /forallP H.
  apply/eqP/permP => i; rewrite perm1.
  have [m] := ubnP (i : nat); elim: m i => // m IH i; rewrite ltnS => Hi.
  have := H i; rewrite -leqNgt leq_eqVlt => /orP[/eqP/val_inj //|Hlt].
  have E : p (p i) = p i by apply: IH; apply: leq_trans Hlt Hi.
  by move: Hlt; rewrite (perm_inj E) ltnn.
Qed.

(** lower triangular (zero above the diagonal) *)
Lemma pm_trig n (A : 'M[R]_n) : (forall i j : 'I_n, (i < j)%N -> A i j = 0) -> pm A = \prod_i `|A i i|.
Proof.
  move=> H; rewrite /pm (bigD1 1%g) //= [X in _ + X]big1 => [|s Hs].
    by rewrite addr0; apply: eq_bigr => i _; rewrite perm1.
  by have [i Hi] := perm_exceed Hs; rewrite (bigD1 i) //= H // normr0 mul0r.
Qed.
End Permanent2.

(** ** (2b) the determinant clauses in rounded arithmetic *)
Section Rounded2.
Variable R : realFieldType.
Variables (fadd fsub fmul fdiv : R -> R -> R) (sqrtF : R -> R) (leF : R -> R -> bool).
Variable u : R.
Hypothesis u0 : 0 <= u.
Hypothesis SM : std_model fadd fsub fmul u.
Local Notation Ops := (XOps fadd fsub fmul fdiv sqrtF leF).
Local Notation ment := (ment Ops).
Local Notation mx := (@mxr R fadd fsub fmul fdiv sqrtF leF).
Local Notation E n := ((1 + u) ^+ det_err_exp n - 1).

Lemma E_ge0 n : 0 <= E n.
Proof. by rewrite subr_ge0 exprn_ege1 // ler_addl. Qed.

(** two computed determinants whose exact values agree up to sign and whose permanents agree *)
Lemma two_dets n (M M' : mat R) (sg : R) : `|sg| = 1 ->
  wf_mat M -> mrows M = n.+1 -> mcols M = n.+1 -> wf_mat M' -> mrows M' = n.+1 -> mcols M' = n.+1 ->
  \det (mx n.+1 M') = sg * \det (mx n.+1 M) -> pm (mx n.+1 M') = pm (mx n.+1 M) ->
  exists d d', [/\ determinant Ops M = Ok d, determinant Ops M' = Ok d' &
                   `|d' - sg * d| <= 2%:R * E n.+1 * pm (mx n.+1 M)].
Proof.
  move=> Hsg HM Hr Hc HM' Hr' Hc' Ed Ep.
  have [d Dd Hd] := @det_rounding_error R fadd fsub fmul fdiv sqrtF leF u u0 SM n M HM Hr Hc.
  have [d' Dd' Hd'] := @det_rounding_error R fadd fsub fmul fdiv sqrtF leF u u0 SM n M' HM' Hr' Hc'.
  exists d, d'; split=> //.
  have -> : d' - sg * d = (d' - \det (mx n.+1 M')) - sg * (d - \det (mx n.+1 M)).
    by rewrite Ed mulrBr opprB addrA subrK.
  apply: le_trans (ler_norm_sub _ _) _; rewrite normrM Hsg mul1r -mulrA mulr_natl mulr2n.
  by apply: ler_add => //; rewrite -Ep.
Qed.

(** "transpose-invariant", to rounding *)
Theorem det_round_transpose n (M Mt : mat R) : wf_mat M -> mrows M = n.+1 -> mcols M = n.+1 ->
  transpose Ops M = Ok Mt ->
  exists d dt, [/\ determinant Ops M = Ok d, determinant Ops Mt = Ok dt &
                   `|dt - d| <= 2%:R * E n.+1 * pm (mx n.+1 M)].
Proof.
  move=> HM Hr Hc; rewrite transpose_spec ?Hc // => -[EMt].
  have Emx : mx n.+1 Mt = (mx n.+1 M)^T.
    by rewrite -EMt; apply/matrixP => i j; rewrite !mxE ment_mk ?Hr ?Hc.
  have W : wf_mat Mt by rewrite -EMt; apply: wf_mk.
  have Wr : mrows Mt = n.+1 by rewrite -EMt /= Hc.
  have Wc : mcols Mt = n.+1 by rewrite -EMt /= Hr.
  have S1 : `|1 : R| = 1 by rewrite normr1.
  have D1 : \det (mx n.+1 Mt) = 1 * \det (mx n.+1 M) by rewrite Emx det_tr mul1r.
  have P1 : pm (mx n.+1 Mt) = pm (mx n.+1 M) by rewrite Emx pm_tr.
  have [d [dt [H1 H2 H3]]] := two_dets S1 HM Hr Hc W Wr Wc D1 P1.
  by exists d, dt; split=> //; move: H3; rewrite mul1r.
Qed.

(** "changes sign under a row swap", to rounding, for ANY row permutation t (a product of k row exchanges: sign (-1)^k):
    M' = the rows of M in the order t *)
Theorem det_round_row_perm n (M M' : mat R) (t : 'S_n.+1) :
  wf_mat M -> mrows M = n.+1 -> mcols M = n.+1 -> wf_mat M' -> mrows M' = n.+1 -> mcols M' = n.+1 ->
  (forall (a b : 'I_n.+1), ment M' a b = ment M (t a) b) ->
  exists d d', [/\ determinant Ops M = Ok d, determinant Ops M' = Ok d' &
                   `|d' - (-1) ^+ t * d| <= 2%:R * E n.+1 * pm (mx n.+1 M)].
Proof.
  move=> HM Hr Hc HM' Hr' Hc' Hsw.
  have Emx : mx n.+1 M' = row_perm t (mx n.+1 M) by apply/matrixP => a b; rewrite !mxE Hsw.
  have S1 : `|(-1) ^+ t : R| = 1 by rewrite normrX normrN1 expr1n.
  have D1 : \det (mx n.+1 M') = (-1) ^+ t * \det (mx n.+1 M).
    by rewrite Emx row_permE det_mulmx det_perm.
  have P1 : pm (mx n.+1 M') = pm (mx n.+1 M) by rewrite Emx pm_row_perm.
  exact: (two_dets S1 HM Hr Hc HM' Hr' Hc' D1 P1).
Qed.
(** one exchange of rows i <> j *)
Theorem det_round_row_swap n (M M' : mat R) (i j : 'I_n.+1) :
  wf_mat M -> mrows M = n.+1 -> mcols M = n.+1 -> wf_mat M' -> mrows M' = n.+1 -> mcols M' = n.+1 ->
  i != j -> (forall (a b : 'I_n.+1), ment M' a b = ment M (tperm i j a) b) ->
  exists d d', [/\ determinant Ops M = Ok d, determinant Ops M' = Ok d' &
                   `|d' + d| <= 2%:R * E n.+1 * pm (mx n.+1 M)].
Proof.
  move=> HM Hr Hc HM' Hr' Hc' Hij Hsw.
  have [d [d' [H1 H2 H3]]] := det_round_row_perm HM Hr Hc HM' Hr' Hc' Hsw.
  by exists d, d'; split=> //; move: H3; rewrite odd_tperm Hij expr1 mulN1r opprK.
Qed.

(** "equals the product of the diagonal for triangular matrices" (lower or upper), to rounding - a RELATIVE bound *)
Theorem det_round_triangular n (M : mat R) : wf_mat M -> mrows M = n.+1 -> mcols M = n.+1 ->
  (forall i j, (i < j < n.+1)%N -> ment M i j = 0) \/ (forall i j, (j < i < n.+1)%N -> ment M i j = 0) ->
  exists2 d, determinant Ops M = Ok d &
             `|d - \prod_(0 <= i < n.+1) ment M i i| <= E n.+1 * `|\prod_(0 <= i < n.+1) ment M i i|.
Proof.
  move=> HM Hr Hc H; have [d Dd Hd] := @det_rounding_error R fadd fsub fmul fdiv sqrtF leF u u0 SM n M HM Hr Hc; exists d => //.
  have [Edet Epm] : \det (mx n.+1 M) = \prod_(0 <= i < n.+1) ment M i i /\
                    pm (mx n.+1 M) = `|\prod_(0 <= i < n.+1) ment M i i|.
    rewrite normr_prod !big_mkord; case: H => H.
    - split.
      + rewrite det_trig; first by apply: eq_bigr => i _; rewrite mxE.
        by apply/is_trig_mxP => i k Hik; rewrite mxE H // Hik ltn_ord.
      + rewrite pm_trig; first by apply: eq_bigr => i _; rewrite mxE.
        by move=> i k Hik; rewrite mxE H // Hik ltn_ord.
    - split.
      + rewrite -det_tr det_trig; first by apply: eq_bigr => i _; rewrite !mxE.
        by apply/is_trig_mxP => i k Hik; rewrite !mxE H // Hik ltn_ord.
      + rewrite -pm_tr pm_trig; first by apply: eq_bigr => i _; rewrite !mxE.
        by move=> i k Hik; rewrite !mxE H // Hik ltn_ord.
  by rewrite -Epm -Edet.
Qed.
End Rounded2.

(** ** (3) exact arithmetic: what Inverse() returns, expressed by Determinant(); the identities behind the S4 accuracy clauses *)
Section Field2.
Variable F : fieldType.
Variables (absF sqrtF : F -> F) (ltF leF : F -> F -> bool).
Local Notation Ops := (FOps absF sqrtF ltF leF).
Local Notation mx := (@mx_of F (fun x y => x / y) absF sqrtF ltF leF).

(** Inverse() = adjugate / Determinant() (Cramer), det of the result = 1 / det, and the result is MathComp's invmx *)
Theorem inverse_adjugate (M X : mat F) : inverse Ops M = Ok X ->
  let n := mrows M in
  [/\ \det (mx n n M) != 0, mx n n X = invmx (mx n n M),
      mx n n X = (\det (mx n n M))^-1 *: \adj (mx n n M) & \det (mx n n X) = (\det (mx n n M))^-1].
Proof.
  move=> H n; have [_ [HL HR]] := inverse_sound H; rewrite -/n in HL HR.
  have [_ U] := mulmx1_unit HL.
  have EX : mx n n X = invmx (mx n n M) by rewrite -[LHS]mulmx1 -(mulmxV U) mulmxA HL mul1mx.
  split=> //; first by move: U; rewrite unitmxE unitfE.
  - by rewrite EX /invmx U.
  - by rewrite EX det_inv.
Qed.

(** for an invertible M and ANY X (e.g. the doubles Inverse() returned, at their exact values):
    forward error = left residual * M^-1;  right residual = M * left residual * M^-1  (one further factor cond(M)) *)
Theorem inverse_error_identities n (A X : 'M[F]_n) : A \in unitmx ->
  X - invmx A = (X *m A - 1%:M) *m invmx A /\ A *m X - 1%:M = A *m (X *m A - 1%:M) *m invmx A.
Proof.
  move=> U; split.
  - by rewrite mulmxBl mul1mx -mulmxA (mulmxV U) mulmx1.
  - by rewrite mulmxBr mulmx1 mulmxBl (mulmxV U) -!mulmxA (mulmxV U) mulmx1.
Qed.
End Field2.

(** ** non-vacuity of the premises used above *)
Section Examples2.
Context {T : Type} (Ops : NumOps T).
(** every arithmetic: a 3 x 3 matrix of ones satisfies the shape premises, a 2 x 3 one the non-square premise *)
Lemma any_arith_premises_example : let M := mk_mat 3 3 (fun _ _ => n1 Ops) in
  [/\ wf_mat M, mrows M = 3%N & mcols M = 3%N] /\ mrows (mk_mat 2 3 (fun _ _ => n1 Ops)) <> mcols (mk_mat 2 3 (fun _ _ => n1 Ops)).
Proof. by split; [split; rewrite ?wf_mk|]. Qed.
(** the transpose of a matrix with columns is defined *)
Lemma transpose_premise_example : let M := mk_mat 3 3 (fun i j => if (i == j)%N then n1 Ops else n0 Ops) in
  exists Mt, transpose Ops M = Ok Mt.
Proof. by eexists; rewrite transpose_spec. Qed.
End Examples2.
Section Examples3.
Variable R : realFieldType.
Variables (fadd fsub fmul fdiv : R -> R -> R) (sqrtF : R -> R) (leF : R -> R -> bool).
Local Notation Ops := (XOps fadd fsub fmul fdiv sqrtF leF).
(** a lower triangular 3 x 3 matrix with non-zero diagonal: ((1,0,0),(2,2,0),(3,3,3)) *)
Lemma triangular_premises_example : let M := mk_mat 3 3 (fun i j => if (j <= i)%N then i.+1%:R else 0 : R) in
  [/\ wf_mat M, mrows M = 3%N, mcols M = 3%N, (forall i j, (i < j < 3)%N -> ment Ops M i j = 0) & ment Ops M 2 2 = 3%:R].
Proof.
  split; rewrite ?wf_mk // => i j /andP [Hij Hj]; rewrite ment_mk //; last by apply: ltn_trans Hij Hj.
  by rewrite leqNgt Hij.
Qed.
End Examples3.
