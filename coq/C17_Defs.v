(** * C17 definitions that depend on nothing but the real numbers: the mathematical functions the library's
    Dawson_Integral and Erfi are compared with (theorems in C17_Proofs.v, certified samples in the generated
    cases_C17_*.v files, which import only this file). *)
From Coq Require Import Reals.
From Coquelicot Require Import Coquelicot.
Local Open Scope R_scope.

(** Dawson's integral D(x) = exp(-x^2) int_0^x exp(t^2) dt, in the bounded form int_0^x exp(t^2 - x^2) dt *)
Definition dawson_def (x : R) : R := RInt (fun t => exp (t * t - x * x)) 0 x.
(** erfi(x) = 2/sqrt(pi) int_0^x exp(t^2) dt *)
Definition erfi_def (x : R) : R := 2 / sqrt PI * RInt (fun t => exp (t * t)) 0 x.

(** a relative error bound from a two-sided enclosure (the form Coq-Interval proves) *)
From Coq Require Import Lra Psatz.
Lemma rel_error_from_enclosure (Y I e : R) : 0 < e < 1 -> 0 < Y ->
  Y / (1 + e) <= I <= Y / (1 - e) -> Rabs (Y - I) <= e * Rabs I.
Proof.
  intros He HY [H1 H2].
  assert (P: 0 < I).
  { eapply Rlt_le_trans; [|exact H1]. apply Rdiv_lt_0_compat; lra. }
  assert (A: Y <= I * (1 + e)).
  { apply Rmult_le_reg_r with (/ (1 + e)); [apply Rinv_0_lt_compat; lra|].
    rewrite Rmult_assoc, Rinv_r by lra. unfold Rdiv in H1. lra. }
  assert (B: I * (1 - e) <= Y).
  { apply Rmult_le_reg_r with (/ (1 - e)); [apply Rinv_0_lt_compat; lra|].
    rewrite Rmult_assoc, Rinv_r by lra. unfold Rdiv in H2. lra. }
  rewrite (Rabs_right I) by lra. apply Rabs_le. split; nra.
Qed.
