(** * C20 — (1) Import_Table on arbitrary files, the guards of the readers and writers, Export_Function over a range;
    (2) sessions of calls in one process over a file system (history independence of the round trip).
    Everything here holds for an ARBITRARY number type (no arithmetic law is used). *)
From Coq Require Import String.
From Coq Require Import ZArith Bool Reals Lia Lra List.
From LP Require Import Num NumR C20_Model C20_Proofs_IO.
Import ListNotations.
Local Open Scope list_scope.

Section Extra.
Context {T : Type} (Ops : NumOps T) (fmt6 : T -> T).

(** *** chunks: cutting rows*cols numbers into rows *)
Lemma chunks_spec cols rows : forall l : list T, length l = (rows * cols)%nat ->
  length (chunks rows cols l) = rows /\ rect cols (chunks rows cols l) /\ concat (chunks rows cols l) = l.
Proof.
  induction rows as [|r IH]; cbn; intros l Hl.
  - destruct l; [|discriminate]. repeat split. constructor.
  - destruct (IH (skipn cols l)) as (L & R & C).
    { rewrite skipn_length. lia. }
    repeat split.
    + rewrite L; reflexivity.
    + constructor; [|exact R]. rewrite firstn_length. lia.
    + rewrite C. apply firstn_skipn.
Qed.

(** *** Import_Table on ANY file (not only one written by Export_Table): whenever it returns, the answer is the
    numbers of the file after the ignored lines, in reading order, cut into one row per line, every line holding exactly
    the same number >= 1 of leading numbers, each multiplied by its column's unit. *)
Theorem import_table_sound (fl : @file T) (dims : list T) (ign : nat) (t : list (list T)) :
  (Z.of_nat (length fl) < 4294967296)%Z ->
  (Z.of_nat (length (read_nums (after_header fl ign))) < 4294967296)%Z ->
  import_table Ops (Some fl) dims ign = Ok t ->
  let nums := read_nums (after_header fl ign) in
  let rows := (length fl - ign)%nat in
  exists cols : nat,
    (1 <= rows)%nat /\ (1 <= cols)%nat /\ length nums = (rows * cols)%nat /\
    Forall (fun l => length (read_nums l) = cols) (skipn ign fl) /\
    (dims = [] \/ length dims = cols) /\
    t = map (mapi_from 0 (fun j x => nmul Ops x (dim_at Ops dims j))) (chunks rows cols nums) /\
    length t = rows /\ rect cols t /\ concat (chunks rows cols nums) = nums.
Proof.
  intros Bl Bn H nums rows. unfold import_table in H. fold nums in H.
  unfold count_lines, u32 in H. rewrite (Z.mod_small (Z.of_nat (length fl))) in H by lia.
  destruct (Z.of_nat (length fl) <=? Z.of_nat ign)%Z eqn:E1; [discriminate|]. apply Z.leb_gt in E1.
  destruct (is_nil nums) eqn:E2; [discriminate|]. cbn [orb] in H.
  assert (Hrows : ((Z.of_nat (length fl) - Z.of_nat ign) mod 4294967296 = Z.of_nat rows)%Z).
  { rewrite Z.mod_small by lia. unfold rows. lia. }
  rewrite Hrows in H.
  assert (Hr1 : (1 <= rows)%nat) by (unfold rows; lia).
  set (q := (Z.of_nat (length nums) / Z.of_nat rows)%Z) in *.
  assert (Hq : (0 <= q <= Z.of_nat (length nums))%Z).
  { unfold q. split; [apply Z.div_pos; lia|]. apply Z.div_le_upper_bound; nia. }
  rewrite (Z.mod_small q) in H by (fold nums in Bn; lia).
  assert (Hprod : (0 <= Z.of_nat rows * q <= Z.of_nat (length nums))%Z).
  { split; [nia|]. unfold q. apply Z.mul_div_le. lia. }
  rewrite (Z.mod_small (Z.of_nat rows * q)) in H by (fold nums in Bn; lia).
  destruct (Z.of_nat rows * q =? Z.of_nat (length nums))%Z eqn:E3; [|discriminate]. apply Z.eqb_eq in E3. cbn [negb] in H.
  match type of H with context [forallb ?f (skipn ign fl)] => destruct (forallb f (skipn ign fl)) eqn:E4 end; [|discriminate]. cbn [negb] in H.
  destruct (negb (is_nil dims) && negb (Z.of_nat (length dims) =? q)%Z) eqn:E5; [discriminate|].
  inversion H; subst t; clear H.
  exists (Z.to_nat q).
  assert (Hlen : length nums = (rows * Z.to_nat q)%nat) by nia.
  assert (Hq1 : (1 <= Z.to_nat q)%nat).
  { destruct nums; [discriminate|]. cbn [length] in *. destruct (Z.to_nat q) eqn:Eq; [nia|lia]. }
  destruct (chunks_spec (Z.to_nat q) rows nums Hlen) as (L & R & C).
  rewrite Nat2Z.id.
  repeat split; auto.
  - rewrite forallb_forall in E4. apply Forall_forall. intros l Hin. specialize (E4 l Hin). apply Z.eqb_eq in E4. lia.
  - destruct dims; [left; reflexivity|right]. cbn [is_nil negb andb] in E5. apply negb_false_iff, Z.eqb_eq in E5. lia.
  - rewrite map_length. exact L.
  - unfold rect in *. rewrite Forall_map. eapply Forall_impl; [|exact R]. cbn. intros row Er. rewrite mapi_from_length. exact Er.
Qed.

(** the guards of Import_Table and Import_List *)
Theorem import_guards (dims : list T) (dim : T) (ign : nat) :
  import_table Ops None dims ign = Exit /\ import_list Ops None dim ign = Exit /\ count_lines (@None (@file T)) = 0%Z /\
  (forall fl, (length fl <= ign)%nat -> (Z.of_nat (length fl) < 4294967296)%Z -> import_table Ops (Some fl) dims ign = Exit) /\
  (forall fl, read_nums (after_header fl ign) = [] -> import_table Ops (Some fl) dims ign = Exit).
Proof.
  repeat split; intros.
  - unfold import_table, count_lines, u32. rewrite Z.mod_small by lia.
    replace (Z.of_nat (length fl) <=? Z.of_nat ign)%Z with true by (symmetry; apply Z.leb_le; lia). reflexivity.
  - unfold import_table. rewrite H. cbn [is_nil]. rewrite orb_true_r. reflexivity.
Qed.

(** Export_Table: a row whose length differs from the number of unit factors (when any are given) terminates the process *)
Lemma export_rows_ok_or_exit dims data : ok_or_exit (export_rows Ops fmt6 dims data).
Proof.
  induction data as [|row tl IH]; cbn; [exact I|].
  destruct (is_nil dims || Nat.eqb (length dims) (length row)); [|exact I].
  destruct (export_rows Ops fmt6 dims tl); cbn; tauto.
Qed.

Theorem export_table_mismatch header data dims row :
  dims <> [] -> In row data -> length row <> length dims -> export_table Ops fmt6 header data dims = Exit.
Proof.
  intros Hd Hin Hne. unfold export_table.
  assert (E : export_rows Ops fmt6 dims data = Exit); [|rewrite E; reflexivity].
  induction data as [|r tl IH]; [destruct Hin|]. cbn.
  destruct dims as [|d0 dt]; [congruence|]. cbn [is_nil orb].
  destruct Hin as [->|Hin].
  - replace (Nat.eqb (length (d0 :: dt)) (length row)) with false; [reflexivity|].
    symmetry. apply Nat.eqb_neq. congruence.
  - rewrite (IH Hin). destruct (Nat.eqb (length (d0 :: dt)) (length r)); reflexivity.
Qed.

(** *** Export_Function(filepath, func, xMin, xMax, steps, dimensions, logarithmic, header) *)
Lemma linear_space_length mn mx steps :
  length (linear_space Ops mn mx steps) = if (Nat.ltb steps 2) || neqb Ops mn mx then 1%nat else steps.
Proof. unfold linear_space. destruct (Nat.ltb steps 2 || neqb Ops mn mx); [reflexivity|]. rewrite map_length, seq_length. reflexivity. Qed.
Lemma log_space_length mn mx steps :
  length (log_space Ops mn mx steps) = if (Nat.ltb steps 2) || neqb Ops mn mx then 1%nat else steps.
Proof. unfold log_space. destruct (Nat.ltb steps 2 || neqb Ops mn mx); [reflexivity|]. rewrite map_length, seq_length. reflexivity. Qed.

Definition grid (mn mx : T) (steps : nat) (lg : bool) : list T :=
  if lg then log_space Ops mn mx steps else linear_space Ops mn mx steps.

Lemma grid_length mn mx steps lg :
  length (grid mn mx steps lg) = if (Nat.ltb steps 2) || neqb Ops mn mx then 1%nat else steps.
Proof. unfold grid. destruct lg; [apply log_space_length|apply linear_space_length]. Qed.

Theorem roundtrip_function_range_eq (header : list (@line T)) (func : T -> T) (mn mx : T) (steps : nat) (dims : list T) (lg : bool) :
  dims = [] \/ length dims = 2%nat ->
  (Z.of_nat (length header + Nat.max 1 steps) < 4294967296)%Z -> (Z.of_nat (Nat.max 1 steps * 2) < 4294967296)%Z ->
  let xs := grid mn mx steps lg in
  (length xs = if (Nat.ltb steps 2) || neqb Ops mn mx then 1%nat else steps) /\
  roundtrip_function_range Ops fmt6 header func mn mx steps dims lg =
  Ok (Z.of_nat (length header + length xs), map (fun x => [back Ops fmt6 dims 0 x; back Ops fmt6 dims 1 (func x)]) xs).
Proof.
  intros Hd Hl Hs xs. pose proof (grid_length mn mx steps lg) as L. fold xs in L. split; [exact L|].
  assert (Hle : (1 <= length xs <= Nat.max 1 steps)%nat).
  { rewrite L. destruct (Nat.ltb steps 2 || neqb Ops mn mx) eqn:E; [lia|].
    apply orb_false_iff in E as [E _]. apply Nat.ltb_ge in E. lia. }
  pose proof (roundtrip_function_eq Ops fmt6 header func xs dims) as H.
  unfold roundtrip_function_range, export_function_range. unfold roundtrip_function_list in H.
  unfold xs, grid in *. destruct lg; apply H; auto; try lia; intros E0; rewrite E0 in Hle; cbn in Hle; lia.
Qed.

(** lists, for every number type: the values read back and the line count *)
Theorem roundtrip_list_shape (header : list (@line T)) (data : list T) (dim : T) :
  (Z.of_nat (length header + length data) < 4294967296)%Z ->
  roundtrip_list Ops fmt6 header data dim = Ok (map (fun x => nmul Ops (fmt6 (ndiv Ops x dim)) dim) data) /\
  count_lines (Some (export_list Ops fmt6 header data dim)) = Z.of_nat (length header + length data).
Proof. intros H. split; [apply roundtrip_list_eq|apply count_lines_export_list; exact H]. Qed.
End Extra.

Section SessionProofs.
Context {T : Type} (Ops : NumOps T) (fmt6 : T -> T).
Local Notation step := (io_step Ops fmt6).
Local Notation run := (io_run Ops fmt6).

Lemma fs_get_put_same (fs : @fsys T) p f : fs_get (fs_put fs p f) p = Some f.
Proof. cbn. rewrite Nat.eqb_refl. reflexivity. Qed.

Lemma fs_get_put_other (fs : @fsys T) p q f : p <> q -> fs_get (fs_put fs q f) p = fs_get fs p.
Proof. intros H. cbn. apply Nat.eqb_neq in H. rewrite H. reflexivity. Qed.

(** a call that does not export to [p] leaves the file at [p] as it is *)
Lemma step_preserves fs o fs' r p :
  step fs o = Ok (fs', r) -> writes o <> Some p -> fs_get fs' p = fs_get fs p.
Proof.
  destruct o; cbn; intros H W.
  - inversion H; subst. apply fs_get_put_other. congruence.
  - destruct (export_table Ops fmt6 header data dims); cbn in H; try discriminate.
    inversion H; subst. apply fs_get_put_other. congruence.
  - destruct (export_function_list Ops fmt6 header func xs dims); cbn in H; try discriminate.
    inversion H; subst. apply fs_get_put_other. congruence.
  - destruct (export_function_range Ops fmt6 header func xmin xmax steps dims logarithmic); cbn in H; try discriminate.
    inversion H; subst. apply fs_get_put_other. congruence.
  - destruct (import_list Ops (fs_get fs p0) dim ignored); cbn in H; try discriminate. inversion H; subst; reflexivity.
  - destruct (import_table Ops (fs_get fs p0) dims ignored); cbn in H; try discriminate. inversion H; subst; reflexivity.
  - inversion H; subst; reflexivity.
  - inversion H; subst; reflexivity.
Qed.

Lemma run_preserves ops : forall fs fs' outs p,
  run fs ops = Ok (fs', outs) -> Forall (fun o => writes o <> Some p) ops -> fs_get fs' p = fs_get fs p.
Proof.
  induction ops as [|o tl IH]; cbn; intros fs fs' outs p H W.
  - inversion H; subst; reflexivity.
  - inversion W; subst.
    destruct (step fs o) as [[fs1 r]| | |] eqn:E; cbn in H; try discriminate.
    destruct (run fs1 tl) as [[fs2 outs2]| | |] eqn:E2; cbn in H; try discriminate.
    inversion H; subst. rewrite (IH _ _ _ p E2 H3). eapply step_preserves; eauto.
Qed.

Lemma run_app ops1 : forall ops2 fs fs1 outs1,
  run fs ops1 = Ok (fs1, outs1) ->
  run fs (ops1 ++ ops2) = rbind (run fs1 ops2) (fun s => Ok (fst s, outs1 ++ snd s)).
Proof.
  induction ops1 as [|o tl IH]; cbn; intros ops2 fs fs1 outs1 H.
  - inversion H; subst. destruct (run fs1 ops2) as [[a b]| | |]; reflexivity.
  - destruct (step fs o) as [[fsa r]| | |] eqn:E; cbn in H; try discriminate. cbn.
    destruct (run fsa tl) as [[fsb outsb]| | |] eqn:E2; cbn in H; try discriminate.
    inversion H; subst. rewrite (IH ops2 _ _ _ E2).
    destruct (run fs1 ops2) as [[a b]| | |]; reflexivity.
Qed.

(** the number of answers is the number of calls; a session that is not terminated answers every call *)
Lemma run_length ops : forall fs fs' outs, run fs ops = Ok (fs', outs) -> length outs = length ops.
Proof.
  induction ops as [|o tl IH]; cbn; intros fs fs' outs H.
  - inversion H; reflexivity.
  - destruct (step fs o) as [[fsa r]| | |]; cbn in H; try discriminate.
    destruct (run fsa tl) as [[fsb outsb]| | |] eqn:E2; cbn in H; try discriminate.
    inversion H; subst. cbn. f_equal. eapply IH; eauto.
Qed.

(** what the readers return depends on the file system only through the file at the path read *)
Lemma step_reads_only_its_file fs1 fs2 o :
  writes o = None ->
  (forall p, (match o with OImportList q _ _ | OImportTable q _ _ | OCountLines q | OFileExists q => q | _ => p end) = p -> fs_get fs1 p = fs_get fs2 p) ->
  rmap snd (step fs1 o) = rmap snd (step fs2 o).
Proof.
  destruct o; cbn; intros W H; try discriminate.
  - rewrite (H p eq_refl). destruct (import_list Ops (fs_get fs2 p) dim ignored); reflexivity.
  - rewrite (H p eq_refl). destruct (import_table Ops (fs_get fs2 p) dims ignored); reflexivity.
  - rewrite (H p eq_refl). reflexivity.
  - rewrite (H p eq_refl). reflexivity.
Qed.

(** THE SESSION THEOREM (tables).  In one process: any calls [before] (exports to any path — the path [p] itself
    included, with longer or shorter content —, imports, line counts) that do not terminate it, then Export_Table to [p],
    then any calls [between] that do not export to [p] and do not terminate the process, then Import_Table from [p]
    with the same units and the number of header lines written, and Count_Lines: the answers are those of the single
    round trip, whatever came before. *)
Theorem session_table_roundtrip fs before fs1 outs1 p header tbl dims c between fs2 outs2 :
  run fs before = Ok (fs1, outs1) ->
  tbl <> [] -> (1 <= c)%nat -> rect c tbl -> dims = [] \/ length dims = c ->
  (Z.of_nat (length header + length tbl) < 4294967296)%Z -> (Z.of_nat (length tbl * c) < 4294967296)%Z ->
  forall fexp, export_table Ops fmt6 header tbl dims = Ok fexp ->
  run (fs_put fs1 p fexp) between = Ok (fs2, outs2) ->
  Forall (fun o => writes o <> Some p) between ->
  run fs (before ++ OExportTable p header tbl dims :: between ++ [OImportTable p dims (length header); OCountLines p]) =
  Ok (fs2, outs1 ++ RUnit :: outs2 ++ [RTable (map (mapi_from 0 (back Ops fmt6 dims)) tbl);
                                        RCount (Z.of_nat (length header + length tbl))]).
Proof.
  intros Hb Hne Hc Hr Hd Hl Hs fexp Hexp Hbt Hw.
  rewrite (run_app before _ fs fs1 outs1 Hb).
  cbn [io_run io_step]. rewrite Hexp. cbn [rbind fst snd].
  rewrite (run_app between _ _ fs2 outs2 Hbt).
  pose proof (run_preserves between _ _ _ p Hbt Hw) as Hget. rewrite fs_get_put_same in Hget.
  pose proof (roundtrip_table_eq Ops fmt6 header tbl dims c Hne Hc Hr Hd Hl Hs) as RT.
  unfold roundtrip_table in RT. rewrite Hexp in RT. cbn [rbind] in RT.
  cbn [io_run io_step]. rewrite Hget.
  destruct (import_table Ops (Some fexp) dims (length header)) as [t| | |] eqn:Ei; cbn [rbind] in RT; try discriminate.
  inversion RT; subst. cbn [rbind fst snd]. rewrite ?Hget. unfold count_lines. rewrite H0. reflexivity.
Qed.

(** ... and lists *)
Theorem session_list_roundtrip fs before fs1 outs1 p header data dim between fs2 outs2 :
  run fs before = Ok (fs1, outs1) ->
  (Z.of_nat (length header + length data) < 4294967296)%Z ->
  run (fs_put fs1 p (export_list Ops fmt6 header data dim)) between = Ok (fs2, outs2) ->
  Forall (fun o => writes o <> Some p) between ->
  run fs (before ++ OExportList p header data dim :: between ++ [OImportList p dim (length header); OCountLines p]) =
  Ok (fs2, outs1 ++ RUnit :: outs2 ++ [RList (map (fun x => nmul Ops (fmt6 (ndiv Ops x dim)) dim) data);
                                        RCount (Z.of_nat (length header + length data))]).
Proof.
  intros Hb Hl Hbt Hw.
  rewrite (run_app before _ fs fs1 outs1 Hb).
  cbn [io_run io_step rbind fst snd].
  rewrite (run_app between _ _ fs2 outs2 Hbt).
  pose proof (run_preserves between _ _ _ p Hbt Hw) as Hget. rewrite fs_get_put_same in Hget.
  pose proof (roundtrip_list_eq Ops fmt6 header data dim) as RT. unfold roundtrip_list in RT.
  cbn [io_run io_step]. rewrite Hget, RT. cbn [rbind fst snd]. rewrite ?Hget.
  rewrite (count_lines_export_list Ops fmt6 header data dim Hl). reflexivity.
Qed.
(** *** Export_Function inside a session.
    Any calls [before], then Export_Function(file p, f, x_list, units, header), then any calls [between] that do not export
    to [p], then Import_Table from [p] and Count_Lines: ONE ROW PER ARGUMENT of x_list, in the order of the list — there is
    no premise on the arguments (sorted or not, repeated, equal neighbours, signed zeros, NaN): the number of rows is
    [length xs] and row i is (x_i, f(x_i)) through format and units. *)
Theorem session_function_roundtrip fs before fs1 outs1 p header (func : T -> T) xs dims between fs2 outs2 :
  run fs before = Ok (fs1, outs1) ->
  xs <> [] -> dims = [] \/ length dims = 2%nat ->
  (Z.of_nat (length header + length xs) < 4294967296)%Z -> (Z.of_nat (length xs * 2) < 4294967296)%Z ->
  forall fexp, export_function_list Ops fmt6 header func xs dims = Ok fexp ->
  run (fs_put fs1 p fexp) between = Ok (fs2, outs2) ->
  Forall (fun o => writes o <> Some p) between ->
  run fs (before ++ OExportFunction p header func xs dims :: between ++ [OImportTable p dims (length header); OCountLines p]) =
  Ok (fs2, outs1 ++ RUnit :: outs2 ++ [RTable (map (fun x => [back Ops fmt6 dims 0 x; back Ops fmt6 dims 1 (func x)]) xs);
                                        RCount (Z.of_nat (length header + length xs))]).
Proof.
  intros Hb Hne Hd Hl Hs fexp Hexp Hbt Hw.
  rewrite (run_app before _ fs fs1 outs1 Hb).
  cbn [io_run io_step]. rewrite Hexp. cbn [rbind fst snd].
  rewrite (run_app between _ _ fs2 outs2 Hbt).
  pose proof (run_preserves between _ _ _ p Hbt Hw) as Hget. rewrite fs_get_put_same in Hget.
  pose proof (roundtrip_function_eq Ops fmt6 header func xs dims Hne Hd Hl Hs) as RT.
  unfold roundtrip_function_list in RT. rewrite Hexp in RT. cbn [rbind] in RT.
  cbn [io_run io_step]. rewrite Hget.
  destruct (import_table Ops (Some fexp) dims (length header)) as [t| | |] eqn:Ei; cbn [rbind] in RT; try discriminate.
  inversion RT; subst. cbn [rbind fst snd]. rewrite ?Hget. unfold count_lines. rewrite H0. reflexivity.
Qed.

(** the number of rows read back is the number of arguments, and equal arguments give equal rows *)
Corollary function_rows_one_per_argument (header : list (@line T)) (func : T -> T) xs dims c t :
  xs <> [] -> dims = [] \/ length dims = 2%nat ->
  (Z.of_nat (length header + length xs) < 4294967296)%Z -> (Z.of_nat (length xs * 2) < 4294967296)%Z ->
  roundtrip_function_list Ops fmt6 header func xs dims = Ok (c, t) ->
  length t = length xs /\ c = Z.of_nat (length header + length xs) /\
  forall i j, (i < length xs)%nat -> (j < length xs)%nat -> nth i xs (n0 Ops) = nth j xs (n0 Ops) -> nth i t [] = nth j t [].
Proof.
  intros Hne Hd Hl Hs H. rewrite (roundtrip_function_eq Ops fmt6 header func xs dims Hne Hd Hl Hs) in H.
  inversion H; subst. rewrite map_length. repeat split; auto.
  intros i j Hi Hj E.
  set (g := fun x => [back Ops fmt6 dims 0 x; back Ops fmt6 dims 1 (func x)]).
  rewrite (nth_indep (map g xs) [] (g (n0 Ops))) by (rewrite map_length; exact Hi).
  rewrite (nth_indep (map g xs) [] (g (n0 Ops))) by (rewrite map_length; exact Hj).
  rewrite !map_nth, E. reflexivity.
Qed.

(** the range overload is the list overload on the grid, as a call of a session too *)
Lemma step_function_range fs p header (func : T -> T) a b steps dims lg :
  step fs (OExportFunctionRange p header func a b steps dims lg) =
  step fs (OExportFunction p header func (grid Ops a b steps lg) dims).
Proof. unfold grid. destruct lg; reflexivity. Qed.

Lemma run_step_congr o o' (E : forall fs, step fs o = step fs o') before : forall fs rest,
  run fs (before ++ o :: rest) = run fs (before ++ o' :: rest).
Proof.
  induction before as [|x tl IH]; intros fs rest; cbn [app io_run].
  - rewrite E. reflexivity.
  - destruct (step fs x) as [[fsa r]| | |]; cbn [rbind]; try reflexivity. rewrite IH. reflexivity.
Qed.

Theorem session_function_range_roundtrip fs before fs1 outs1 p header (func : T -> T) a b steps lg dims between fs2 outs2 :
  let xs := grid Ops a b steps lg in
  run fs before = Ok (fs1, outs1) ->
  dims = [] \/ length dims = 2%nat ->
  (Z.of_nat (length header + Nat.max 1 steps) < 4294967296)%Z -> (Z.of_nat (Nat.max 1 steps * 2) < 4294967296)%Z ->
  forall fexp, export_function_list Ops fmt6 header func xs dims = Ok fexp ->
  run (fs_put fs1 p fexp) between = Ok (fs2, outs2) ->
  Forall (fun o => writes o <> Some p) between ->
  (length xs = if (Nat.ltb steps 2) || neqb Ops a b then 1%nat else steps) /\
  run fs (before ++ OExportFunctionRange p header func a b steps dims lg :: between ++ [OImportTable p dims (length header); OCountLines p]) =
  Ok (fs2, outs1 ++ RUnit :: outs2 ++ [RTable (map (fun x => [back Ops fmt6 dims 0 x; back Ops fmt6 dims 1 (func x)]) xs);
                                        RCount (Z.of_nat (length header + length xs))]).
Proof.
  intros xs Hb Hd Hl Hs fexp Hexp Hbt Hw.
  pose proof (grid_length Ops a b steps lg) as L. fold xs in L. split; [exact L|].
  assert (Hle : (1 <= length xs <= Nat.max 1 steps)%nat).
  { rewrite L. destruct (Nat.ltb steps 2 || neqb Ops a b) eqn:E; [lia|].
    apply orb_false_iff in E as [E _]. apply Nat.ltb_ge in E. lia. }
  rewrite (run_step_congr _ _ (fun fs0 => step_function_range fs0 p header func a b steps dims lg)).
  apply (session_function_roundtrip fs before fs1 outs1 p header func xs dims between fs2 outs2) with (fexp := fexp); auto; try lia.
  intros E0. rewrite E0 in Hle. cbn in Hle. lia.
Qed.
End SessionProofs.

(** non-vacuity: a 3 x 3 table is written to path 0 and read; then the (shorter) 1 x 2 table with a two-line header and two
    units goes to the same path, a list goes to path 1 and is read, and the table read back from path 0 is the short one *)
Definition session_example_stmt : Prop :=
  io_run ROps (fun y => y) []
    ([OExportTable 0 [] [[1; 2; 3]; [4; 5; 6]; [7; 8; 9]] []; OCountLines 0] ++
     OExportTable 0 [[Word]; [Word; Num 7]] [[1; 2]] [2; 4] ::
     [OExportList 1 [] [5; 6] 2; OCountLines 1] ++ [OImportTable 0 [2; 4] 2; OCountLines 0])%R =
  Ok ([(1%nat, export_list ROps (fun y => y) [] [5; 6] 2); (0%nat, [[Word]; [Word; Num 7]; [Num (1 / 2); Num (2 / 4)]]);
       (0%nat, [[Num (1 / 1); Num (2 / 1); Num (3 / 1)]; [Num (4 / 1); Num (5 / 1); Num (6 / 1)]; [Num (7 / 1); Num (8 / 1); Num (9 / 1)]])],
      [RUnit; RCount 3] ++ RUnit :: [RUnit; RCount 2] ++ [RTable [[1 / 2 * 2; 2 / 4 * 4]]; RCount 3])%R.
Example session_example : session_example_stmt.
Proof.
  unfold session_example_stmt.
  refine (session_table_roundtrip ROps (fun y => y) []
            [OExportTable 0 [] [[1; 2; 3]; [4; 5; 6]; [7; 8; 9]] []; OCountLines 0]%R _ _ 0%nat
            [[Word]; [Word; Num 7%R]] [[1; 2]]%R [2; 4]%R 2%nat
            [OExportList 1 [] [5; 6] 2; OCountLines 1]%R _ _ _ _ _ _ _ _ _ _ _ _ _).
  - reflexivity.
  - discriminate.
  - lia.
  - repeat constructor.
  - right; reflexivity.
  - cbn; lia.
  - cbn; lia.
  - reflexivity.
  - reflexivity.
  - repeat constructor; discriminate.
Qed.

(** non-vacuity of the function session theorem, with a REPEATED argument: a table is at path 0; the function x -> x*x is
    tabulated at the arguments 1, 2, 2, 3 (two grids joined at 2) under a one-line header to the same path; after a call
    on another path, four rows are read back and five lines counted *)
Definition session_function_example_stmt : Prop :=
  exists fs',
  io_run ROps (fun y => y) []
    ([OExportTable 0 [] [[1; 2; 3]] []] ++ OExportFunction 0 [[Word]] (fun x => x * x) [1; 2; 2; 3] [] ::
     [OCountLines 1] ++ [OImportTable 0 [] 1; OCountLines 0])%R =
  Ok (fs', [RUnit] ++ RUnit :: [RCount 0] ++
           [RTable (map (fun x => [back ROps (fun y => y) [] 0 x; back ROps (fun y => y) [] 1 (x * x)]) [1; 2; 2; 3]); RCount 5])%R.
Example session_function_example : session_function_example_stmt.
Proof.
  unfold session_function_example_stmt. eexists.
  refine (session_function_roundtrip ROps (fun y => y) [] [OExportTable 0 [] [[1; 2; 3]] []]%R _ _ 0%nat
            [[Word]] (fun x => x * x)%R [1; 2; 2; 3]%R [] [OCountLines 1] _ _ _ _ _ _ _ _ _ _ _).
  - reflexivity.
  - discriminate.
  - left; reflexivity.
  - cbn; lia.
  - cbn; lia.
  - reflexivity.
  - reflexivity.
  - repeat constructor; discriminate.
Qed.
