(** * C10 proofs: Locate with its search state (C10_Model2.v) - Hunt() never reads outside the table, ends within its
    fuel, returns an interval index, and the object exits on exactly the requests that the stateless Locate refuses.
    No order law is used: the statements hold for every [NumOps], IEEE doubles with NaN entries included. *)
From Coq Require Import ZArith List Bool Lia.
From LP Require Import Num C10_Model C10_Model2 C10_Proofs C10_Proofs_Num.
Import ListNotations.
Local Open Scope Z_scope.

Lemma i32_small z : -2147483648 <= z < 2147483648 -> i32 z = z.
Proof.
  intros H. unfold i32. destruct (Z_lt_le_dec z 0) as [Hn|Hp].
  - replace (z mod 4294967296) with (z + 4294967296) by (apply Z.mod_unique with (-1); lia).
    destruct (Z.ltb_spec (z + 4294967296) 2147483648); lia.
  - rewrite Z.mod_small by lia. destruct (Z.ltb_spec z 2147483648); lia.
Qed.

Section HuntSafe.
Context {T : Type} (Ops : NumOps T).
Local Notation xv := (xv Ops).

(** the hunt upwards keeps 0 <= jd < ju <= N-1 and ends before its fuel does; x <= x_values[N-1] (as tested by Locate
    with the very same comparison) is what stops it at the last abscissa *)
Lemma hunt_up_range fuel xs x jd ju dj :
  zlen xs < 2147483648 -> nltb Ops (xv xs (zlen xs - 1)) x = false ->
  0 <= jd < ju -> ju <= zlen xs - 1 -> 1 <= dj <= ju -> zlen xs - 1 - ju < Z.of_nat fuel ->
  exists jd' ju', hunt_up Ops fuel xs x (zlen xs) jd ju dj = Ok (jd', ju') /\ 0 <= jd' < ju' /\ ju' <= zlen xs - 1.
Proof.
  intros HN Hdom. revert jd ju dj. induction fuel as [|f IH]; intros jd ju dj Hj Hu Hd Hf.
  - cbn [hunt_up]. rewrite (getZ_xv Ops) by lia. cbn [rbind]. destruct (ngtb Ops x (xv xs ju)) eqn:E.
    + unfold ngtb in E. replace ju with (zlen xs - 1) in E by lia. congruence.
    + exists jd, ju. split; [reflexivity|lia].
  - cbn [hunt_up]. rewrite (getZ_xv Ops) by lia. cbn [rbind]. destruct (ngtb Ops x (xv xs ju)) eqn:E.
    + assert (ju < zlen xs - 1).
      { destruct (Z.eq_dec ju (zlen xs - 1)) as [->|]; [unfold ngtb in E; congruence|lia]. }
      rewrite (i32_small ju), (u32_id (ju + dj)), (u32_id (zlen xs - 1)) by lia.
      destruct (Z.gtb_spec (ju + dj) (zlen xs - 1)).
      * exists ju, (zlen xs - 1). split; [reflexivity|lia].
      * rewrite (i32_small (dj + dj)) by lia. apply IH; lia.
    + exists jd, ju. split; [reflexivity|lia].
Qed.

(** the hunt downwards: x >= x_values[0] stops it at the first abscissa, jd is never negative when it is used as an index *)
Lemma hunt_down_range fuel xs x jd ju dj :
  zlen xs < 2147483648 -> nltb Ops x (xv xs 0) = false ->
  0 <= jd < ju -> ju <= zlen xs - 1 -> 1 <= dj -> jd + dj <= zlen xs - 1 -> jd < Z.of_nat fuel ->
  exists jd' ju', hunt_down Ops fuel xs x jd ju dj = Ok (jd', ju') /\ 0 <= jd' < ju' /\ ju' <= zlen xs - 1.
Proof.
  intros HN Hdom. revert jd ju dj. induction fuel as [|f IH]; intros jd ju dj Hj Hu Hd Hs Hf.
  - lia.
  - cbn [hunt_down]. rewrite (getZ_xv Ops) by lia. cbn [rbind]. destruct (nltb Ops x (xv xs jd)) eqn:E.
    + assert (0 < jd).
      { destruct (Z.eq_dec jd 0) as [->|]; [congruence|lia]. }
      rewrite (u32_id jd), (i32_small (jd - dj)) by lia.
      destruct (Z.ltb_spec (jd - dj) 0).
      * exists 0, jd. split; [reflexivity|lia].
      * rewrite (i32_small (dj + dj)) by lia. apply IH; lia.
    + exists jd, ju. split; [reflexivity|lia].
Qed.

(** Hunt(x) on an object whose jLast is an interval index, for an argument inside [x_values[0], x_values[N-1]] *)
Lemma hunt_range xs jl x :
  2 <= zlen xs < 2147483648 -> 0 <= jl <= zlen xs - 2 ->
  nltb Ops x (xv xs 0) = false -> nltb Ops (xv xs (zlen xs - 1)) x = false ->
  exists j, hunt Ops xs jl x = Ok j /\ 0 <= j <= zlen xs - 2.
Proof.
  intros HN Hjl H0 H1. unfold hunt. rewrite !(getZ_xv Ops) by lia. cbn [rbind].
  assert (Hbis : forall jd ju, 0 <= jd < ju -> ju <= zlen xs - 1 ->
     exists j, (if u32 (ju - jd) >? 1 then rbind (bisection Ops (Z.to_nat (zlen xs)) xs x jd (i32 ju)) (fun j => Ok (u32 (i32 j))) else Ok (u32 jd)) = Ok j
               /\ 0 <= j <= zlen xs - 2).
  { intros jd ju Hj Hu. rewrite (u32_id (ju - jd)), (i32_small ju), (u32_id jd) by lia.
    destruct (Z.gtb_spec (ju - jd) 1).
    - destruct (bisection_range Ops (Z.to_nat (zlen xs)) xs x jd ju) as (j & E & Hr); try lia.
      rewrite E. cbn [rbind]. rewrite (i32_small j), (u32_id j) by lia. exists j. split; [reflexivity|lia].
    - exists jd. split; [reflexivity|lia]. }
  destruct (ngtb Ops x (xv xs jl)) eqn:Eu.
  - rewrite (i32_small jl), (u32_id (jl + 1)) by lia.
    destruct (hunt_up_range (Z.to_nat (zlen xs)) xs x jl (jl + 1) 1) as (jd & ju & E & Hj & Hu); try lia; try assumption.
    rewrite E. cbn [rbind]. apply Hbis; assumption.
  - destruct (nltb Ops x (xv xs jl)) eqn:Ed.
    + assert (0 < jl) by (destruct (Z.eq_dec jl 0) as [->|]; [congruence|lia]).
      rewrite (u32_id (jl - 1)), (i32_small (jl - 1)) by lia.
      destruct (hunt_down_range (Z.to_nat (zlen xs)) xs x (jl - 1) jl 1) as (jd & ju & E & Hj & Hu); try lia; try assumption.
      rewrite E. cbn [rbind]. apply Hbis; assumption.
    + cbn [rbind]. exists jl. split; [reflexivity|lia].
Qed.

Definition state_ok (xs : list T) (st : lstate) : Prop := 0 <= jLast st <= zlen xs - 2.

(** Locate(x) on an object in any admissible search state: it exits exactly when the stateless Locate of C10_Model.v
    does (to which every guard theorem of C10 refers), never reads outside the table, and otherwise returns an
    interval index and stores it in jLast - so the state stays admissible *)
Lemma locate_st_cases xs st x : 2 <= zlen xs < 2147483648 -> state_ok xs st ->
  (locate_st Ops xs st x = Exit /\ locate Ops xs x = Exit) \/
  (exists j, locate_st Ops xs st x = Ok (j, {| jLast := j; corr := u32 (j - jLast st) <? 10 |}) /\
             0 <= j <= zlen xs - 2 /\ exists j', locate Ops xs x = Ok j').
Proof.
  intros HN Hst. unfold state_ok in Hst. unfold locate_st, locate. set (N := zlen xs) in *.
  destruct (nisnan Ops x); [left; split; reflexivity|].
  rewrite !(u32_id (N - 1)), !(u32_id (N - 2)) by lia.
  rewrite !(getZ_xv Ops) by (fold N; lia). cbn [rbind].
  destruct (nltb Ops x (xv xs 0) || nltb Ops (xv xs (N - 1)) x) eqn:Eo.
  - destruct (nltb Ops (nabs Ops (nsub Ops x (xv xs 0))) _).
    + right. exists 0. cbn [rbind]. split; [reflexivity|]. split; [lia|]. eexists; reflexivity.
    + destruct (nltb Ops (nabs Ops (nsub Ops x (xv xs (N - 1)))) _).
      * right. exists (N - 2). cbn [rbind]. split; [reflexivity|]. split; [lia|]. eexists; reflexivity.
      * left. split; reflexivity.
  - right. apply orb_false_iff in Eo. destruct Eo as [E0 E1].
    assert (Hsearch : exists j, (if corr st then hunt Ops xs (jLast st) x else bisection Ops (Z.to_nat N) xs x 0 (N - 1)) = Ok j /\ 0 <= j <= N - 2).
    { destruct (corr st).
      - apply hunt_range; fold N; try lia; assumption.
      - destruct (bisection_range Ops (Z.to_nat N) xs x 0 (N - 1)) as (j & E & Hj); try (fold N; lia). exists j. split; [exact E|lia]. }
    destruct Hsearch as (j & E & Hj). rewrite E. cbn [rbind].
    assert (Hless : exists j', rbind (bisection Ops (Z.to_nat N) xs x 0 (N - 1))
                      (fun j => if j <? N - 2 then rbind (getZ xs (j + 1)) (fun xn => if neqb Ops x xn then Ok (j + 1) else Ok j) else Ok j) = Ok j').
    { destruct (bisection_range Ops (Z.to_nat N) xs x 0 (N - 1)) as (k & Ek & Hk); try (fold N; lia). rewrite Ek. cbn [rbind].
      destruct (Z.ltb_spec k (N - 2)); [|eexists; reflexivity].
      rewrite (getZ_xv Ops) by (fold N; lia). cbn [rbind]. destruct (neqb Ops x (xv xs (k + 1))); eexists; reflexivity. }
    destruct (Z.ltb_spec j (N - 2)).
    + rewrite (getZ_xv Ops) by (fold N; lia). cbn [rbind].
      destruct (neqb Ops x (xv xs (j + 1))); cbn [rbind]; [exists (j + 1)|exists j]; (split; [reflexivity|]; split; [lia|exact Hless]).
    + cbn [rbind]. exists j. split; [reflexivity|]. split; [lia|exact Hless].
Qed.

(** any sequence of Locate requests on one object, by induction on its length: the process ends iff one request is
    refused by the stateless Locate; otherwise every request returns an interval index, which is then the object's jLast *)
Lemma locate_trace_from_spec xs reqs : 2 <= zlen xs < 2147483648 -> forall st, state_ok xs st ->
  (locate_trace_from Ops xs st reqs = Exit /\ exists x, In x reqs /\ locate Ops xs x = Exit) \/
  (exists l, locate_trace_from Ops xs st reqs = Ok l /\ length l = length reqs /\
             (forall x, In x reqs -> exists j, locate Ops xs x = Ok j) /\
             Forall (fun t => 0 <= fst t <= zlen xs - 2 /\ fst (snd t) = fst t) l).
Proof.
  intros HN. induction reqs as [|x r IH]; intros st Hst.
  - right. exists []. cbn. repeat split; [intros ? []|constructor].
  - cbn [locate_trace_from]. destruct (locate_st_cases xs st x HN Hst) as [(E & Ex)|(j & E & Hj & j' & Ex)].
    + left. rewrite E. split; [reflexivity|]. exists x. split; [left; reflexivity|exact Ex].
    + rewrite E. cbn [rbind snd fst].
      destruct (IH {| jLast := j; corr := u32 (j - jLast st) <? 10 |}) as [(E2 & y & Hy & Ey)|(l & E2 & Hl & Hall & Hf)].
      * unfold state_ok; cbn; lia.
      * left. rewrite E2. split; [reflexivity|]. exists y. split; [right; exact Hy|exact Ey].
      * right. rewrite E2. cbn [rbind]. eexists. split; [reflexivity|]. split; [cbn; now rewrite Hl|]. split.
        -- intros y [<-|Hy]; [exists j'; exact Ex|apply Hall, Hy].
        -- constructor; [cbn; split; [lia|reflexivity]|exact Hf].
Qed.

Lemma state_ok_0 xs : 2 <= zlen xs -> state_ok xs lstate0.
Proof. unfold state_ok; cbn; lia. Qed.
End HuntSafe.
