(** C01 — property theorems only.  Each is closed by [exact] of a lemma proved in C01_Proofs.v.
    Objects: [tab xs ys] = the object built by the constructor from the (unit-scaled) table, i.e.
    [build ROps xs ys] of C01_Model.v; [interpolate], [derivative], [locate], [interpolate2] are the
    model functions instantiated at the reals; [valid_table xs ys] = equal lengths, N >= 3, strictly
    increasing abscissae.  [curve xs ys] / [deriv1 xs ys] are the total functions x |-> Interpolate(x),
    x |-> Derivative(x,1). *)
From Coq Require Import Reals ZArith List.
From Coquelicot Require Import Coquelicot.
From LP Require Import Num NumR C01_Model C01_Model2 C01_Proofs C01_Proofs_Table C01_Proofs_Global C01_Proofs_Accept C01_Proofs_Session C01_Proofs_Bounds C01_Proofs_Safe Gen_C01_Formulas C01_GenTie.
Import ListNotations.
Local Open Scope R_scope.

(** The constructor accepts every valid table, with any unit factors x_dim, f_dim (applied when > 0),
    and the scaled table is again valid: every theorem below applies to the constructed object. *)
Theorem C01_constructor_accepts_valid_tables xs ys xd fd : valid_table xs ys ->
  construct ROps xs ys xd fd = Ok (tab (scale ROps xd xs) (scale ROps fd ys)) /\
  valid_table (scale ROps xd xs) (scale ROps fd ys).
Proof. exact (construct_ok xs ys xd fd). Qed.
Print Assumptions C01_constructor_accepts_valid_tables.

(** Locate on a fresh object returns a segment that contains x (the right one at an interior knot). *)
Theorem C01_locate_segment xs ys : (2 <= length xs)%nat -> forall x,
  nth 0 xs 0 <= x <= nth (length xs - 1) xs 0 ->
  exists j, locate ROps (tab xs ys) x = Ok j /\ (S j < length xs)%nat /\ nth j xs 0 <= x /\
            (x < nth (S j) xs 0 \/ (S j = length xs - 1)%nat /\ x <= nth (S j) xs 0).
Proof. exact (locate_in_domain xs ys). Qed.
Print Assumptions C01_locate_segment.

(** "the 1 % extrapolation zone at both ends": outside the table Locate accepts x (first resp. last segment, whose cubic is
    then extrapolated) exactly when it is strictly within 1 % of the end interval's length, and terminates otherwise *)
Theorem C01_locate_edge_zone xs ys x : valid_table xs ys ->
  let N := length xs in
  (x < nth 0 xs 0 ->
     (nth 0 xs 0 - x < 1 / 100 * (nth 1 xs 0 - nth 0 xs 0) -> locate ROps (tab xs ys) x = Ok 0%nat) /\
     (1 / 100 * (nth 1 xs 0 - nth 0 xs 0) <= nth 0 xs 0 - x -> locate ROps (tab xs ys) x = Exit)) /\
  (nth (N - 1) xs 0 < x ->
     (x - nth (N - 1) xs 0 < 1 / 100 * (nth (N - 1) xs 0 - nth (N - 2) xs 0) -> locate ROps (tab xs ys) x = Ok (N - 2)%nat) /\
     (1 / 100 * (nth (N - 1) xs 0 - nth (N - 2) xs 0) <= x - nth (N - 1) xs 0 -> locate ROps (tab xs ys) x = Exit)).
Proof. exact (locate_edge_zone xs ys x). Qed.
Print Assumptions C01_locate_edge_zone.

(** "returns each tabulated value at its abscissa" *)
Theorem C01_knot_reproduction xs ys : valid_table xs ys ->
  forall i, (i < length xs)%nat -> interpolate ROps (tab xs ys) (nth i xs 0) = Ok (nth i ys 0).
Proof. exact (knot_reproduction xs ys). Qed.
Print Assumptions C01_knot_reproduction.

(** "Value and first derivative are continuous across abscissae": at the interior knot x_{j+1} the cubics of
    the segments j and j+1 take the same value y_{j+1} and the same slope ... *)
Theorem C01_c1_at_knots xs ys : valid_table xs ys -> forall j, (S (S j) < length xs)%nat ->
  SEGf xs ys j (nth (S j) xs 0) = nth (S j) ys 0 /\ SEGf xs ys (S j) (nth (S j) xs 0) = nth (S j) ys 0 /\
  SD1f xs ys j (nth (S j) xs 0) = SD1f xs ys (S j) (nth (S j) xs 0).
Proof. exact (c1_at_knots xs ys). Qed.
Print Assumptions C01_c1_at_knots.

(** ... hence the returned curve is differentiable at every point of the open domain, knots included, its
    derivative is what Derivative(x,1) returns, and both the curve and that derivative are continuous there. *)
Theorem C01_curve_differentiable xs ys : valid_table xs ys ->
  forall x, nth 0 xs 0 < x < nth (length xs - 1) xs 0 ->
  exists d, derivative ROps (tab xs ys) x 1 = Ok d /\ is_derive (curve xs ys) x d.
Proof. exact (curve_differentiable xs ys). Qed.
Print Assumptions C01_curve_differentiable.

Theorem C01_curve_continuous xs ys : valid_table xs ys ->
  forall x, nth 0 xs 0 < x < nth (length xs - 1) xs 0 -> continuity_pt (curve xs ys) x.
Proof. exact (curve_continuous xs ys). Qed.
Print Assumptions C01_curve_continuous.

Theorem C01_derivative_continuous xs ys : valid_table xs ys ->
  forall x, nth 0 xs 0 < x < nth (length xs - 1) xs 0 -> continuity_pt (deriv1 xs ys) x.
Proof. exact (derivative_continuous xs ys). Qed.
Print Assumptions C01_derivative_continuous.

(** Slope limiter (first, last and interior knots): the slope dy_i = Derivative(x_i,1) has the sign of, and at most
    twice the size of, each adjacent secant slope; on a plateau it is 0. *)
Theorem C01_limiter_bounds xs ys : valid_table xs ys -> forall i, (i < length xs)%nat ->
  exists d, derivative ROps (tab xs ys) (nth i xs 0) 1 = Ok d /\
    (forall s, (S i < length xs)%nat -> s = (nth (S i) ys 0 - nth i ys 0) / (nth (S i) xs 0 - nth i xs 0) ->
               0 <= d * s /\ Rabs d <= 2 * Rabs s) /\
    (forall s, (0 < i)%nat -> s = (nth i ys 0 - nth (i - 1) ys 0) / (nth i xs 0 - nth (i - 1) xs 0) ->
               0 <= d * s /\ Rabs d <= 2 * Rabs s).
Proof. exact (limiter_bounds xs ys). Qed.
Print Assumptions C01_limiter_bounds.

(** "between two adjacent abscissae ... stays between the two tabulated values" *)
Theorem C01_no_overshoot xs ys : valid_table xs ys -> forall j x, (S j < length xs)%nat ->
  nth j xs 0 <= x <= nth (S j) xs 0 ->
  exists v, interpolate ROps (tab xs ys) x = Ok v /\
            Rmin (nth j ys 0) (nth (S j) ys 0) <= v <= Rmax (nth j ys 0) (nth (S j) ys 0).
Proof. exact (no_overshoot xs ys). Qed.
Print Assumptions C01_no_overshoot.

(** "between two adjacent abscissae is monotone ... introduces no extremum that is not in the data" *)
Theorem C01_monotone_on_segment xs ys : valid_table xs ys -> forall j p q, (S j < length xs)%nat ->
  nth j xs 0 <= p -> p <= q -> q <= nth (S j) xs 0 ->
  exists fp fq, interpolate ROps (tab xs ys) p = Ok fp /\ interpolate ROps (tab xs ys) q = Ok fq /\
    (nth j ys 0 <= nth (S j) ys 0 -> fp <= fq) /\ (nth (S j) ys 0 <= nth j ys 0 -> fq <= fp).
Proof. exact (monotone_on_segment xs ys). Qed.
Print Assumptions C01_monotone_on_segment.

(** "the reported derivatives of order 1-3 are the derivatives of the returned curve": inside a segment, for every
    order k >= 1 (the values of order >= 4 are 0, next theorem), Derivative(x,k) is the k-th derivative of the curve *)
Theorem C01_derivatives_inside xs ys : valid_table xs ys -> forall j x k, (S j < length xs)%nat ->
  nth j xs 0 < x < nth (S j) xs 0 ->
  exists v, derivative ROps (tab xs ys) x (Z.of_nat (S k)) = Ok v /\ is_derive_n (curve xs ys) (S k) x v.
Proof. exact (derivatives_inside xs ys). Qed.
Print Assumptions C01_derivatives_inside.

(** at a knot the second and third derivative of the curve do not exist in general; what Derivative reports on the
    half-open segment [x_j, x_{j+1}) are the derivatives of the polynomial that Interpolate evaluates on [x_j, x_{j+1}] *)
Theorem C01_derivatives_segment_polynomial xs ys : valid_table xs ys -> forall j, (S j < length xs)%nat ->
  exists poly : R -> R,
    (forall t, nth j xs 0 <= t <= nth (S j) xs 0 -> interpolate ROps (tab xs ys) t = Ok (poly t)) /\
    (forall x k, nth j xs 0 <= x < nth (S j) xs 0 ->
       exists v, derivative ROps (tab xs ys) x (Z.of_nat (S k)) = Ok v /\ is_derive_n poly (S k) x v).
Proof. exact (derivatives_segment_polynomial xs ys). Qed.
Print Assumptions C01_derivatives_segment_polynomial.

Theorem C01_derivative_order_ge_4 xs ys : valid_table xs ys -> forall x k,
  nth 0 xs 0 <= x <= nth (length xs - 1) xs 0 -> (4 <= k)%Z -> derivative ROps (tab xs ys) x k = Ok 0.
Proof. exact (derivative_order_ge_4 xs ys). Qed.
Print Assumptions C01_derivative_order_ge_4.

(** "straight-line data ... are reproduced exactly" *)
Theorem C01_linear_exact xs ys : valid_table xs ys -> forall m q,
  (forall i, (i < length xs)%nat -> nth i ys 0 = m * nth i xs 0 + q) ->
  forall x, nth 0 xs 0 <= x <= nth (length xs - 1) xs 0 -> interpolate ROps (tab xs ys) x = Ok (m * x + q).
Proof. exact (linear_exact xs ys). Qed.
Print Assumptions C01_linear_exact.

(** "(and parabola data where the slope limiter is inactive)": [DYf xs ys i] is the slope dy_i the constructor stores
    (= Derivative(x_i,1)), [Pf xs ys i] the three-point estimate p_i of the code; limiter inactive = they coincide.
    This pins the weights h[i]/(h[i-1]+h[i]) and the one-sided end formulas.  Non-vacuity: [parabola_example]. *)
Theorem C01_parabola_exact xs ys : valid_table xs ys -> forall al be ga,
  (forall i, (i < length xs)%nat -> nth i ys 0 = al * nth i xs 0 ^ 2 + be * nth i xs 0 + ga) ->
  (forall i, (i < length xs)%nat -> DYf xs ys i = Pf xs ys i) ->
  forall x, nth 0 xs 0 <= x <= nth (length xs - 1) xs 0 -> interpolate ROps (tab xs ys) x = Ok (al * x ^ 2 + be * x + ga).
Proof. exact (parabola_exact xs ys). Qed.
Print Assumptions C01_parabola_exact.

(** 2-D.  [valid_grid xs ys f]: >= 2 strictly increasing abscissae on each axis, f has length xs rows of length ys;
    [grid xs ys f] is the object the constructor builds; [BIL xs ys f i j] the bilinear form of the cell (i,j). *)
Theorem C01_constructor2_accepts_valid_grids xs ys f xd yd fd : valid_grid xs ys f ->
  construct2 ROps xs ys f xd yd fd = Ok (grid (scale ROps xd xs) (scale ROps yd ys) (scale2 ROps fd f)) /\
  valid_grid (scale ROps xd xs) (scale ROps yd ys) (scale2 ROps fd f).
Proof. exact (construct2_ok xs ys f xd yd fd). Qed.
Print Assumptions C01_constructor2_accepts_valid_grids.

(** "returns grid values at grid nodes" *)
Theorem C01_bilinear_nodes xs ys f : valid_grid xs ys f -> forall i j, (i < length xs)%nat -> (j < length ys)%nat ->
  interpolate2 ROps (grid xs ys f) (nth i xs 0) (nth j ys 0) = Ok (nth j (nth i f []) 0).
Proof. exact (bilinear_nodes xs ys f). Qed.
Print Assumptions C01_bilinear_nodes.

(** "stays within the minimum and maximum of the four surrounding grid values inside every cell" *)
Theorem C01_bilinear_within_corners xs ys f : valid_grid xs ys f -> forall i j x y,
  (S i < length xs)%nat -> (S j < length ys)%nat ->
  nth i xs 0 <= x <= nth (S i) xs 0 -> nth j ys 0 <= y <= nth (S j) ys 0 ->
  exists v, interpolate2 ROps (grid xs ys f) x y = Ok v /\
    Rmin (Rmin (nth j (nth i f []) 0) (nth j (nth (S i) f []) 0)) (Rmin (nth (S j) (nth (S i) f []) 0) (nth (S j) (nth i f []) 0)) <= v <=
    Rmax (Rmax (nth j (nth i f []) 0) (nth j (nth (S i) f []) 0)) (Rmax (nth (S j) (nth (S i) f []) 0) (nth (S j) (nth i f []) 0)).
Proof. exact (bilinear_within_corners xs ys f). Qed.
Print Assumptions C01_bilinear_within_corners.

(** "is continuous across cell edges": on every *closed* cell the returned value is that cell's bilinear form — so on a
    shared edge the forms of both adjacent cells give the returned value (they agree there, next theorem) *)
Theorem C01_bilinear_cell_form xs ys f : valid_grid xs ys f -> forall i j x y,
  (S i < length xs)%nat -> (S j < length ys)%nat ->
  nth i xs 0 <= x <= nth (S i) xs 0 -> nth j ys 0 <= y <= nth (S j) ys 0 ->
  interpolate2 ROps (grid xs ys f) x y = Ok (BIL xs ys f i j x y).
Proof. exact (interpolate2_on_cell xs ys f). Qed.
Print Assumptions C01_bilinear_cell_form.

Theorem C01_bilinear_edge_agreement xs ys f : valid_grid xs ys f ->
  (forall i j y, (S (S i) < length xs)%nat -> BIL xs ys f (S i) j (nth (S i) xs 0) y = BIL xs ys f i j (nth (S i) xs 0) y) /\
  (forall i j x, (S (S j) < length ys)%nat -> BIL xs ys f i (S j) x (nth (S j) ys 0) = BIL xs ys f i j x (nth (S j) ys 0)).
Proof. exact (fun H => conj (BIL_x_edge xs ys f H) (BIL_y_edge xs ys f H)). Qed.
Print Assumptions C01_bilinear_edge_agreement.

(** "reproduces bilinear functions" *)
Theorem C01_bilinear_reproduces_bilinear xs ys f : valid_grid xs ys f -> forall A B C D,
  (forall i j, (i < length xs)%nat -> (j < length ys)%nat ->
     nth j (nth i f []) 0 = A + B * nth i xs 0 + C * nth j ys 0 + D * nth i xs 0 * nth j ys 0) ->
  forall i j x y, (S i < length xs)%nat -> (S j < length ys)%nat ->
  nth i xs 0 <= x <= nth (S i) xs 0 -> nth j ys 0 <= y <= nth (S j) ys 0 ->
  interpolate2 ROps (grid xs ys f) x y = Ok (A + B * x + C * y + D * x * y).
Proof. exact (bilinear_reproduces_bilinear xs ys f). Qed.
Print Assumptions C01_bilinear_reproduces_bilinear.

(** "all rectangular grids for the 2D case", second entry point: the constructor from a data table (rows x, y, f; the code sorts
    the x and y columns, removes duplicates and requires x-major order).  For the table of a valid grid -- row i N_y + j carries
    (x_i, y_j, f_ij) -- it builds exactly the object of the grid constructor, with any unit factors, so every 2D theorem above
    applies to it. *)
Theorem C01_table_constructor_is_grid_constructor xs ys f xd yd fd : valid_grid xs ys f ->
  construct2_table ROps (table_of_grid xs ys f) xd yd fd = construct2 ROps xs ys f xd yd fd.
Proof. exact (table_constructor_grid xs ys f xd yd fd). Qed.
Print Assumptions C01_table_constructor_is_grid_constructor.

(** ------------------------------------------------------------------------------------------------------------------
    Statements over whole tables, every admissible query point, and every accepted constructor input.
    [tolL xs] = 1/100 (x_1 - x_0), [tolR xs] = 1/100 (x_{N-1} - x_{N-2}): the widths of the extrapolation zone. *)

(** "between two adjacent abscissae, is monotone ... so it introduces no extremum that is not in the data", over a whole run of
    knots a..b on which the data are monotone (induction over the segments; a = b and points in different segments included):
    the returned curve is monotone on [x_a, x_b].  Non-vacuity: [run_example]. *)
Theorem C01_monotone_on_run xs ys : valid_table xs ys -> forall a b, (a <= b)%nat -> (b < length xs)%nat ->
  forall p q, nth a xs 0 <= p -> p <= q -> q <= nth b xs 0 ->
  exists fp fq, interpolate ROps (tab xs ys) p = Ok fp /\ interpolate ROps (tab xs ys) q = Ok fq /\
    ((forall i, (a <= i < b)%nat -> nth i ys 0 <= nth (S i) ys 0) -> fp <= fq) /\
    ((forall i, (a <= i < b)%nat -> nth (S i) ys 0 <= nth i ys 0) -> fq <= fp).
Proof. exact (monotone_on_run xs ys). Qed.
Print Assumptions C01_monotone_on_run.

(** ... no strict local maximum or minimum of the returned curve lies strictly between two adjacent abscissae *)
Theorem C01_no_interior_strict_extremum xs ys : valid_table xs ys -> forall j x, (S j < length xs)%nat ->
  nth j xs 0 < x < nth (S j) xs 0 ->
  ~ strict_local_max (curve xs ys) x /\ ~ strict_local_min (curve xs ys) x.
Proof. exact (no_interior_strict_extremum xs ys). Qed.
Print Assumptions C01_no_interior_strict_extremum.

(** "never overshoot", whole table: every value returned on the domain lies between two tabulated values, hence inside any
    bounds of the data *)
Theorem C01_global_range xs ys : valid_table xs ys -> forall x, nth 0 xs 0 <= x <= nth (length xs - 1) xs 0 ->
  exists v, interpolate ROps (tab xs ys) x = Ok v /\
    (forall lo hi, (forall i, (i < length xs)%nat -> lo <= nth i ys 0 <= hi) -> lo <= v <= hi) /\
    exists i k, (i < length xs)%nat /\ (k < length xs)%nat /\ nth i ys 0 <= v <= nth k ys 0.
Proof. exact (global_range xs ys). Qed.
Print Assumptions C01_global_range.

(** "all query points: ... the 1 % extrapolation zone at both ends": Locate is total -- it answers exactly on the open interval
    (x_0 - tolL, x_{N-1} + tolR), always with a segment of the table (0 left of the table, N-2 right of it, a segment
    containing x inside), and terminates the process everywhere else.  Non-vacuity: [zone_example]. *)
Theorem C01_locate_total xs ys : valid_table xs ys -> forall x,
  let N := length xs in
  (nth 0 xs 0 - tolL xs < x < nth (N - 1) xs 0 + tolR xs ->
     exists j, locate ROps (tab xs ys) x = Ok j /\ (S j < N)%nat /\
       (x < nth 0 xs 0 -> j = 0%nat) /\ (nth (N - 1) xs 0 < x -> j = (N - 2)%nat) /\
       (nth 0 xs 0 <= x <= nth (N - 1) xs 0 -> nth j xs 0 <= x <= nth (S j) xs 0)) /\
  (~ (nth 0 xs 0 - tolL xs < x < nth (N - 1) xs 0 + tolR xs) -> locate ROps (tab xs ys) x = Exit).
Proof. exact (locate_total xs ys). Qed.
Print Assumptions C01_locate_total.

(** "Value and first derivative are continuous across abscissae", at EVERY point where the library answers -- the two end knots
    x_0, x_{N-1} and the extrapolation zone included (C01_curve_differentiable covers the open domain only) *)
Theorem C01_curve_differentiable_everywhere xs ys : valid_table xs ys -> forall x,
  nth 0 xs 0 - tolL xs < x < nth (length xs - 1) xs 0 + tolR xs ->
  (exists d, derivative ROps (tab xs ys) x 1 = Ok d /\ is_derive (curve xs ys) x d) /\ continuity_pt (curve xs ys) x.
Proof. exact (fun HV x Hx => conj (curve_differentiable_everywhere xs ys HV x Hx) (curve_continuous_everywhere xs ys HV x Hx)). Qed.
Print Assumptions C01_curve_differentiable_everywhere.

(** "the reported derivatives of order 1-3 are the derivatives of the returned curve", at the end knots and in the zone: there the
    curve is one polynomial on a neighbourhood, so Derivative(x,k) is the k-th derivative of the curve for every k >= 1 *)
Theorem C01_derivatives_at_ends xs ys : valid_table xs ys -> forall x k,
  (nth 0 xs 0 - tolL xs < x < nth 1 xs 0 \/ nth (length xs - 2) xs 0 < x < nth (length xs - 1) xs 0 + tolR xs) ->
  exists v, derivative ROps (tab xs ys) x (Z.of_nat (S k)) = Ok v /\ is_derive_n (curve xs ys) (S k) x v.
Proof. exact (derivatives_at_ends xs ys). Qed.
Print Assumptions C01_derivatives_at_ends.

(** Derivative(x, 0) is Interpolate(x) -- for every object, argument and arithmetic (any NumOps instance, the doubles included) *)
Theorem C01_derivative_order_0 : forall (T : Type) (Ops : NumOps T) (ob : itab) (x : T),
  derivative Ops ob x 0 = interpolate Ops ob x.
Proof. exact (@derivative_order_0). Qed.
Print Assumptions C01_derivative_order_0.

(** "straight-line data ... are reproduced exactly", at every query point: value, slope, and vanishing second and third
    derivative wherever the library answers; Exit elsewhere.  Non-vacuity: [line_example]. *)
Theorem C01_linear_exact_everywhere xs ys : valid_table xs ys -> forall m q,
  (forall i, (i < length xs)%nat -> nth i ys 0 = m * nth i xs 0 + q) -> forall x,
  (nth 0 xs 0 - tolL xs < x < nth (length xs - 1) xs 0 + tolR xs ->
     interpolate ROps (tab xs ys) x = Ok (m * x + q) /\ derivative ROps (tab xs ys) x 1 = Ok m /\
     derivative ROps (tab xs ys) x 2 = Ok 0 /\ derivative ROps (tab xs ys) x 3 = Ok 0) /\
  (~ (nth 0 xs 0 - tolL xs < x < nth (length xs - 1) xs 0 + tolR xs) -> interpolate ROps (tab xs ys) x = Exit).
Proof. exact (linear_exact_everywhere xs ys). Qed.
Print Assumptions C01_linear_exact_everywhere.

(** "(and parabola data where the slope limiter is inactive)", at every query point, with all three derivatives.
    Non-vacuity: [parabola_example]. *)
Theorem C01_parabola_exact_everywhere xs ys : valid_table xs ys -> forall al be ga,
  (forall i, (i < length xs)%nat -> nth i ys 0 = al * nth i xs 0 ^ 2 + be * nth i xs 0 + ga) ->
  (forall i, (i < length xs)%nat -> DYf xs ys i = Pf xs ys i) ->
  forall x, nth 0 xs 0 - tolL xs < x < nth (length xs - 1) xs 0 + tolR xs ->
  interpolate ROps (tab xs ys) x = Ok (al * x ^ 2 + be * x + ga) /\ derivative ROps (tab xs ys) x 1 = Ok (2 * al * x + be) /\
  derivative ROps (tab xs ys) x 2 = Ok (2 * al) /\ derivative ROps (tab xs ys) x 3 = Ok 0.
Proof. exact (parabola_exact_everywhere xs ys). Qed.
Print Assumptions C01_parabola_exact_everywhere.

(** The 1D constructors' guards, completely, in the order of the repaired code (/repo 94355d7, finding F45): the two length checks,
    the unit conversion of both tables, and only then the strict-increase loop -- on the CONVERTED abscissae.
    [ctor_guard Ops xs ys xd] = equal lengths, N >= 2, and [strictly_increasing Ops (scale Ops xd xs) = true];
    [stored_increasing Ops l] = no step of l compares x[i+1] <= x[i].

    For EVERY arithmetic (any NumOps instance, the doubles included, no premise on the multiplication):
    Interpolation(xs, ys, x_dim, f_dim) returns an object exactly when the guard holds on the converted abscissae and terminates the
    process exactly when it does not; the object is the one built from the two converted tables, and the table it stores has N >= 2
    points, as many ordinates, and is strictly increasing -- a conversion that rounds two abscissae onto one double (or onto inf, inf)
    cannot leave a repeated abscissa in an object.  When x_dim is not > 0 there is no conversion and the guard is on the abscissae as
    given.  Non-vacuity: [ctor_guard_examples]; [rounding_multiplication_example] is an arithmetic with a rounding multiplication in
    which abscissae that are strictly increasing as given are rejected because their conversion collapses. *)
Theorem C01_constructor_tests_converted_abscissae : forall (T : Type) (Ops : NumOps T) (xs ys : list T) (xd fd : T),
  ((exists o, construct Ops xs ys xd fd = Ok o) <-> ctor_guard Ops xs ys xd) /\
  (construct Ops xs ys xd fd = Exit <-> ~ ctor_guard Ops xs ys xd) /\
  (forall o, construct Ops xs ys xd fd = Ok o ->
     o = build Ops (scale Ops xd xs) (scale Ops fd ys) /\
     iN o = length xs /\ length (ixs o) = iN o /\ length (iys o) = iN o /\ (2 <= iN o)%nat /\
     stored_increasing Ops (ixs o)).
Proof. exact (@construct_any_iff). Qed.
Print Assumptions C01_constructor_tests_converted_abscissae.

Theorem C01_no_conversion_without_positive_unit : forall (T : Type) (Ops : NumOps T) (d : T) (l : list T),
  ngtb Ops d (n0 Ops) = false -> scale Ops d l = l.
Proof. exact (@scale_off). Qed.
Print Assumptions C01_no_conversion_without_positive_unit.

(** Over the reals the conversion neither merges nor separates abscissae, so the guard on the converted abscissae is the guard on the
    given ones: [acceptable_table xs ys] = equal lengths, N >= 2, strictly increasing abscissae (for any x_dim); and the stored-table
    predicate is strict increase. *)
Theorem C01_constructor_guard_over_reals xs ys xd :
  (ctor_guard ROps xs ys xd <-> acceptable_table xs ys) /\
  (forall l, stored_increasing ROps l <-> increasing l).
Proof. exact (conj (ctor_guard_R xs ys xd) stored_increasing_R). Qed.
Print Assumptions C01_constructor_guard_over_reals.

(** Hence, over the reals: Interpolation(xs, ys, x_dim, f_dim) builds the object exactly for the acceptable tables (the converted
    table is again acceptable), terminates the process for every other input, and whatever it returns comes from an acceptable table.
    The row constructor Interpolation(data, x_dim, f_dim) is, for rows of length 2 and in every arithmetic, the list constructor
    applied to the two columns (so every theorem applies), and a row of any other length terminates the process.
    Non-vacuity of all sides: [acceptable_examples], [construct_rows_example]. *)
Theorem C01_constructors_complete :
  (forall xs ys xd fd,
     (acceptable_table xs ys ->
        construct ROps xs ys xd fd = Ok (tab (scale ROps xd xs) (scale ROps fd ys)) /\
        acceptable_table (scale ROps xd xs) (scale ROps fd ys)) /\
     (~ acceptable_table xs ys -> construct ROps xs ys xd fd = Exit) /\
     (forall o, construct ROps xs ys xd fd = Ok o ->
        acceptable_table xs ys /\ o = tab (scale ROps xd xs) (scale ROps fd ys))) /\
  (forall (data : list (list R)) xd fd,
     ((forall r, In r data -> length r = 2%nat) ->
        construct_rows ROps data xd fd
        = construct ROps (map (fun r => nth 0 r 0) data) (map (fun r => nth 1 r 0) data) xd fd) /\
     ((exists r, In r data /\ length r <> 2%nat) -> construct_rows ROps data xd fd = Exit)).
Proof. exact (conj construct_complete_inv construct_rows_complete). Qed.
Print Assumptions C01_constructors_complete.

(** Two-point tables (accepted by the constructor; the property's quantifier starts at three points): the chord and its slope *)
Theorem C01_two_point_chord x0 x1 y0 y1 : x0 < x1 -> forall x, x0 <= x <= x1 ->
  interpolate ROps (tab [x0; x1] [y0; y1]) x = Ok (y0 + (y1 - y0) / (x1 - x0) * (x - x0)) /\
  derivative ROps (tab [x0; x1] [y0; y1]) x 1 = Ok ((y1 - y0) / (x1 - x0)).
Proof. exact (two_point_chord x0 x1 y0 y1). Qed.
Print Assumptions C01_two_point_chord.

(** 2D, whole grid: Interpolate(x, y) answers at every point of the domain rectangle with the bilinear form of a cell containing
    the point, and never leaves the range of the tabulated values *)
Theorem C01_bilinear_global_range xs ys f : valid_grid xs ys f -> forall x y,
  nth 0 xs 0 <= x <= nth (length xs - 1) xs 0 -> nth 0 ys 0 <= y <= nth (length ys - 1) ys 0 ->
  exists i j, (S i < length xs)%nat /\ (S j < length ys)%nat /\
    nth i xs 0 <= x <= nth (S i) xs 0 /\ nth j ys 0 <= y <= nth (S j) ys 0 /\
    interpolate2 ROps (grid xs ys f) x y = Ok (BIL xs ys f i j x y) /\
    forall lo hi, (forall a b, (a < length xs)%nat -> (b < length ys)%nat -> lo <= nth b (nth a f []) 0 <= hi) ->
      lo <= BIL xs ys f i j x y <= hi.
Proof. exact (bilinear_global_range xs ys f). Qed.
Print Assumptions C01_bilinear_global_range.

(** 2D constructors, every ACCEPTED input.  Whatever the grid constructor accepts is a valid grid (after the unit factors); and
    whatever table (rows x, y, f) the data-table constructor accepts -- not only the tables of valid grids -- yields a valid grid with
    N_x N_y = number of rows that returns every row's f at that row's (x, y) ([sc d v] = v d if d > 0, else v: the unit factors).
    So all 2D theorems apply to every object these constructors can build.  Non-vacuity: [table_accept_example]. *)
Theorem C01_constructors2_sound :
  (forall xs ys f xd yd fd o, construct2 ROps xs ys f xd yd fd = Ok o ->
     valid_grid (scale ROps xd xs) (scale ROps yd ys) (scale2 ROps fd f) /\
     o = grid (scale ROps xd xs) (scale ROps yd ys) (scale2 ROps fd f)) /\
  (forall (data : list (list R)) xd yd fd o, construct2_table ROps data xd yd fd = Ok o ->
     exists gx gy gf, valid_grid gx gy gf /\ o = grid gx gy gf /\ (length gx * length gy = length data)%nat /\
       forall k, (k < length data)%nat -> exists x y f, nth k data [] = [x; y; f] /\
         sc xd x = nth (k / length gy) gx 0 /\ sc yd y = nth (k mod length gy) gy 0 /\
         interpolate2 ROps o (sc xd x) (sc yd y) = Ok (sc fd f)).
Proof. exact (conj construct2_inv table_constructor_sound). Qed.
Print Assumptions C01_constructors2_sound.

(** Sessions (several objects alive, tables assigned to objects that already answered requests, objects constructed in the storage
    of destroyed ones, copies): "the reported derivatives are the derivatives of the returned curve" and every other clause speak
    about the table the object holds NOW.  In the model of a session (slots holding objects; [CPut k r]: slot k = constructor call,
    [CCopy d s]: slot d = slot s, [CAsk k q]: request q to slot k) the last answer of a session that runs to its end is the answer
    of the object put into that slot, computed on its own -- whatever [pre] was requested or stored before (in the same slot too)
    and whatever [mid] is requested from any slot or stored into OTHER slots in between.  For every object / request / answer
    type and answer function: both classes, every arithmetic, the doubles included.  [writes k c]: c stores into slot k.
    Non-vacuity: [session_example]. *)
Theorem C01_session_answer_depends_on_current_table :
  forall (Obj Q Out : Type) (answer : Obj -> Q -> res Out) (st : list (option Obj)) pre k o mid q outs,
  (forall c, In c mid -> ~ writes k c) ->
  session_run answer st (pre ++ CPut k (Ok o) :: mid ++ [CAsk k q]) = Ok outs ->
  exists front v, outs = front ++ [v] /\ answer o q = Ok v.
Proof. exact (@session_last_answer). Qed.
Print Assumptions C01_session_answer_depends_on_current_table.

(** the same after a copy assignment: slot dst answers as the object that slot src held when it was copied *)
Theorem C01_session_copy_answers_as_source :
  forall (Obj Q Out : Type) (answer : Obj -> Q -> res Out) (st st0 : list (option Obj)) pre outs0 dst src o mid q outs,
  exec answer st pre = Ok (st0, outs0) -> get_slot st0 src = Ok o ->
  (forall c, In c mid -> ~ writes dst c) ->
  session_run answer st (pre ++ CCopy dst src :: mid ++ [CAsk dst q]) = Ok outs ->
  exists front v, outs = front ++ [v] /\ answer o q = Ok v.
Proof. exact (@session_copy_answer). Qed.
Print Assumptions C01_session_copy_answers_as_source.

(** 1-D instance, every arithmetic: after F = Interpolation(xs, ys, x_dim, f_dim) the answers to Interpolate / Derivative / Locate
    are those of the constructed object, whatever F and the other objects were asked before *)
Theorem C01_session_1d_answers_of_assigned_table :
  forall {T} (Ops : NumOps T) st pre k xs ys xd fd o mid q outs,
  construct Ops xs ys xd fd = Ok o ->
  (forall c, In c mid -> ~ writes k c) ->
  session_run (answer_1d Ops) st (pre ++ CPut k (construct Ops xs ys xd fd) :: mid ++ [CAsk k q]) = Ok outs ->
  exists front v, outs = front ++ [v] /\
    match q with
    | QI x => rbind (interpolate Ops o x) (fun v => Ok (AV v))
    | QD kk x => rbind (derivative Ops o x kk) (fun v => Ok (AV v))
    | QL x => rbind (locate Ops o x) (fun j => Ok (AJ j))
    end = Ok v.
Proof. exact (@session_1d_last_answer). Qed.
Print Assumptions C01_session_1d_answers_of_assigned_table.

(** ** Quantitative bounds behind the implementation-side predicates

    "between two adjacent abscissae, is monotone", as a statement about the reported first derivative: on the closed segment j
    (at the interior knot x_{j+1}, where Locate answers with the next segment, the value reported is the common slope)
    Derivative(x,1) has the sign of the secant slope s_j of that segment and |Derivative(x,1)| <= 2 |s_j|.  The S4 clause
    1d:deriv-sign tests the weaker bound 3 |s_j|.  Non-vacuity: [bounds_example]. *)
Theorem C01_derivative_sign_and_bound xs ys : valid_table xs ys -> forall j x, (S j < length xs)%nat ->
  nth j xs 0 <= x <= nth (S j) xs 0 ->
  exists d, derivative ROps (tab xs ys) x 1 = Ok d /\
    let s := (nth (S j) ys 0 - nth j ys 0) / (nth (S j) xs 0 - nth j xs 0) in 0 <= s * d /\ Rabs d <= 2 * Rabs s.
Proof. exact (derivative_sign_and_bound xs ys). Qed.
Print Assumptions C01_derivative_sign_and_bound.

(** "all query points: ... the 1 % extrapolation zone at both ends": there the end cubic is extrapolated, so "stays between the two
    tabulated values" cannot hold; what holds is that the returned value differs from the end value by at most 3 % of the end
    segment's increment |y_1 - y_0| resp. |y_{N-1} - y_{N-2}| (the bound tested by the S4 clause 1d:edge-zone).
    Non-vacuity: [zone_example]. *)
Theorem C01_edge_zone_bound xs ys : valid_table xs ys -> forall x,
  (nth 0 xs 0 - tolL xs < x < nth 0 xs 0 ->
     exists v, interpolate ROps (tab xs ys) x = Ok v /\ Rabs (v - nth 0 ys 0) <= 3 / 100 * Rabs (nth 1 ys 0 - nth 0 ys 0)) /\
  (nth (length xs - 1) xs 0 < x < nth (length xs - 1) xs 0 + tolR xs ->
     exists v, interpolate ROps (tab xs ys) x = Ok v /\
               Rabs (v - nth (length xs - 1) ys 0) <= 3 / 100 * Rabs (nth (length xs - 1) ys 0 - nth (length xs - 2) ys 0)).
Proof. exact (edge_zone_bound xs ys). Qed.
Print Assumptions C01_edge_zone_bound.

(** ------------------------------------------------------------------------------------------------------------------
    Seventh pass.

    Memory safety of every request, for EVERY arithmetic (any NumOps instance; no law about the comparisons or the
    operations is used, so this holds for the doubles as they are -- NaN ordinates, infinite query points, comparisons that all
    answer false included): on whatever object Interpolation(xs, ys, x_dim, f_dim) returns, Locate either terminates the process
    (its documented exits) or returns an index j with j + 1 < N; Bisection ends within N iterations (the model never reports Fuel)
    and reads x_values only inside the table; Interpolate and Derivative(., k), every k, read x_values[j], a[j], b[j], c[j], d[j]
    in bounds (the model never reports OOB) and return a number, and Interpolate exits exactly when Locate does.
    Non-vacuity: [in_bounds_example]. *)
Theorem C01_queries_in_bounds_every_arithmetic : forall (T : Type) (Ops : NumOps T) (xs ys : list T) (xd fd : T) (o : itab) (x : T),
  construct Ops xs ys xd fd = Ok o ->
  (locate Ops o x = Exit \/ exists j, locate Ops o x = Ok j /\ (S j < iN o)%nat) /\
  (interpolate Ops o x = Exit <-> locate Ops o x = Exit) /\
  (interpolate Ops o x = Exit \/ exists v, interpolate Ops o x = Ok v) /\
  (forall k, derivative Ops o x k = Exit \/ exists v, derivative Ops o x k = Ok v).
Proof. exact (@queries_in_bounds). Qed.
Print Assumptions C01_queries_in_bounds_every_arithmetic.

(** Bisection(x, jLeft, jRight) by itself, every arithmetic: for 0 <= jLeft < jRight < N it returns an index in [jLeft, jRight) within
    jRight - jLeft iterations, whatever the comparisons answer (induction over the fuel) *)
Theorem C01_bisection_range : forall (T : Type) (Ops : NumOps T) fuel (xs : list T) x jl jr,
  (0 <= jl)%Z -> (jl < jr)%Z -> (jr < Z.of_nat (length xs))%Z -> (jr - jl <= Z.of_nat fuel)%Z ->
  exists j, bisection Ops fuel xs x jl jr = Ok j /\ (jl <= j < jr)%Z.
Proof. exact (@bisection_range). Qed.
Print Assumptions C01_bisection_range.

(** operator() of both classes is Interpolate (Numerics.hpp), every arithmetic *)
Theorem C01_call_operator_is_interpolate : forall (T : Type) (Ops : NumOps T),
  (forall o x, call1 Ops o x = interpolate Ops o x) /\ (forall o x y, call2 Ops o x y = interpolate2 Ops o x y).
Proof. exact (@call_is_interpolate). Qed.
Print Assumptions C01_call_operator_is_interpolate.

(** 2D, "all query points: ... the 1 % extrapolation zone at both ends" (until now correspondence only): for a grid with at least
    three abscissae on each axis, Interpolate(x, y) answers exactly when x and y each lie in the open zone of their axis
    ([in_zone l x] = l_0 - 1% (l_1 - l_0) < x < l_{N-1} + 1% (l_{N-1} - l_{N-2})), with the bilinear form of the cell Locate selects
    on each axis -- the first / last cell outside the table (whose form is then extrapolated), a cell containing the point inside --
    and terminates the process everywhere else.  Non-vacuity: C01_default_objects below (a point in the zone of both axes). *)
Theorem C01_interpolate2_total xs ys f : valid_grid xs ys f -> (3 <= length xs)%nat -> (3 <= length ys)%nat -> forall x y,
  (in_zone xs x /\ in_zone ys y ->
     exists i j, (S i < length xs)%nat /\ (S j < length ys)%nat /\ interpolate2 ROps (grid xs ys f) x y = Ok (BIL xs ys f i j x y) /\
       (x < nth 0 xs 0 -> i = 0%nat) /\ (nth (length xs - 1) xs 0 < x -> i = (length xs - 2)%nat) /\
       (nth 0 xs 0 <= x <= nth (length xs - 1) xs 0 -> nth i xs 0 <= x <= nth (S i) xs 0) /\
       (y < nth 0 ys 0 -> j = 0%nat) /\ (nth (length ys - 1) ys 0 < y -> j = (length ys - 2)%nat) /\
       (nth 0 ys 0 <= y <= nth (length ys - 1) ys 0 -> nth j ys 0 <= y <= nth (S j) ys 0)) /\
  (~ (in_zone xs x /\ in_zone ys y) -> interpolate2 ROps (grid xs ys f) x y = Exit).
Proof. exact (interpolate2_total xs ys f). Qed.
Print Assumptions C01_interpolate2_total.

(** The default constructors: Interpolation() is the table (-1, 0, 1) -> (0, 0, 0) and Interpolation_2D() the 3 x 3 grid of zeros on
    (-1, 0, 1)^2, both accepted by their constructors; they answer 0 (value and all derivatives) exactly on the open zone
    (-1.01, 1.01) resp. its square, and terminate the process elsewhere. *)
Theorem C01_default_objects :
  (exists o, default1 ROps = Ok o /\ forall x,
     (- (101 / 100) < x < 101 / 100 ->
        interpolate ROps o x = Ok 0 /\ derivative ROps o x 1 = Ok 0 /\ derivative ROps o x 2 = Ok 0 /\ derivative ROps o x 3 = Ok 0) /\
     (~ (- (101 / 100) < x < 101 / 100) -> interpolate ROps o x = Exit)) /\
  (exists o, default2 ROps = Ok o /\ forall x y,
     (- (101 / 100) < x < 101 / 100 /\ - (101 / 100) < y < 101 / 100 -> interpolate2 ROps o x y = Ok 0) /\
     (~ (- (101 / 100) < x < 101 / 100 /\ - (101 / 100) < y < 101 / 100) -> interpolate2 ROps o x y = Exit)).
Proof. exact (conj default1_zero default2_zero). Qed.
Print Assumptions C01_default_objects.

(** T-tie: libphysica::Sign(double), regenerated from src/Special_Functions.cpp by tools/cxx2gallina.py on every run of the check
    ([g_Sign], Gen_C01_Formulas.v), is the sign function [sign1] with which the model's slope limiter [dyy] is written -- in every
    arithmetic in which the source literal 0.0 is the constant 0 ([Lit0]; it is over the reals: [ROps_Lit0]). *)
Theorem C01_generated_Sign_is_model : forall (T : Type) (Ops : NumOps T), Lit0 Ops -> forall x, g_Sign Ops x = sign1 Ops x.
Proof. exact (@gen_Sign_is_model). Qed.
Print Assumptions C01_generated_Sign_is_model.
