(** C01 — property theorems only.  Each is closed by [exact] of a lemma proved in C01_Proofs.v.
    Objects: [tab xs ys] = the object built by the constructor from the (unit-scaled) table, i.e.
    [build ROps xs ys] of C01_Model.v; [interpolate], [derivative], [locate], [interpolate2] are the
    model functions instantiated at the reals; [valid_table xs ys] = equal lengths, N >= 3, strictly
    increasing abscissae.  [curve xs ys] / [deriv1 xs ys] are the total functions x |-> Interpolate(x),
    x |-> Derivative(x,1). *)
From Coq Require Import Reals ZArith List.
From Coquelicot Require Import Coquelicot.
From LP Require Import Num NumR C01_Model C01_Proofs C01_Proofs_Table.
Import ListNotations.
Local Open Scope R_scope.

(** The constructor accepts every valid table, with any unit factors x_dim, f_dim (applied when > 0),
    and the scaled table is again valid: every theorem below applies to the constructed object. *)
Theorem C01_constructor_accepts_valid_tables xs ys xd fd : valid_table xs ys ->
  construct ROps xs ys xd fd = Ok (tab (scale ROps xd xs) (scale ROps fd ys)) /\
  valid_table (scale ROps xd xs) (scale ROps fd ys).
Proof. exact (construct_ok xs ys xd fd). Qed.
Print Assumptions C01_constructor_accepts_valid_tables.

(** Locate on a fresh object returns a segment that contains x (the right one at an interior knot). *)
Theorem C01_locate_segment xs ys : (2 <= length xs)%nat -> forall x,
  nth 0 xs 0 <= x <= nth (length xs - 1) xs 0 ->
  exists j, locate ROps (tab xs ys) x = Ok j /\ (S j < length xs)%nat /\ nth j xs 0 <= x /\
            (x < nth (S j) xs 0 \/ (S j = length xs - 1)%nat /\ x <= nth (S j) xs 0).
Proof. exact (locate_in_domain xs ys). Qed.
Print Assumptions C01_locate_segment.

(** "the 1 % extrapolation zone at both ends": outside the table Locate accepts x (first resp. last segment, whose cubic is
    then extrapolated) exactly when it is strictly within 1 % of the end interval's length, and terminates otherwise *)
Theorem C01_locate_edge_zone xs ys x : valid_table xs ys ->
  let N := length xs in
  (x < nth 0 xs 0 ->
     (nth 0 xs 0 - x < 1 / 100 * (nth 1 xs 0 - nth 0 xs 0) -> locate ROps (tab xs ys) x = Ok 0%nat) /\
     (1 / 100 * (nth 1 xs 0 - nth 0 xs 0) <= nth 0 xs 0 - x -> locate ROps (tab xs ys) x = Exit)) /\
  (nth (N - 1) xs 0 < x ->
     (x - nth (N - 1) xs 0 < 1 / 100 * (nth (N - 1) xs 0 - nth (N - 2) xs 0) -> locate ROps (tab xs ys) x = Ok (N - 2)%nat) /\
     (1 / 100 * (nth (N - 1) xs 0 - nth (N - 2) xs 0) <= x - nth (N - 1) xs 0 -> locate ROps (tab xs ys) x = Exit)).
Proof. exact (locate_edge_zone xs ys x). Qed.
Print Assumptions C01_locate_edge_zone.

(** "returns each tabulated value at its abscissa" *)
Theorem C01_knot_reproduction xs ys : valid_table xs ys ->
  forall i, (i < length xs)%nat -> interpolate ROps (tab xs ys) (nth i xs 0) = Ok (nth i ys 0).
Proof. exact (knot_reproduction xs ys). Qed.
Print Assumptions C01_knot_reproduction.

(** "Value and first derivative are continuous across abscissae": at the interior knot x_{j+1} the cubics of
    the segments j and j+1 take the same value y_{j+1} and the same slope ... *)
Theorem C01_c1_at_knots xs ys : valid_table xs ys -> forall j, (S (S j) < length xs)%nat ->
  SEGf xs ys j (nth (S j) xs 0) = nth (S j) ys 0 /\ SEGf xs ys (S j) (nth (S j) xs 0) = nth (S j) ys 0 /\
  SD1f xs ys j (nth (S j) xs 0) = SD1f xs ys (S j) (nth (S j) xs 0).
Proof. exact (c1_at_knots xs ys). Qed.
Print Assumptions C01_c1_at_knots.

(** ... hence the returned curve is differentiable at every point of the open domain, knots included, its
    derivative is what Derivative(x,1) returns, and both the curve and that derivative are continuous there. *)
Theorem C01_curve_differentiable xs ys : valid_table xs ys ->
  forall x, nth 0 xs 0 < x < nth (length xs - 1) xs 0 ->
  exists d, derivative ROps (tab xs ys) x 1 = Ok d /\ is_derive (curve xs ys) x d.
Proof. exact (curve_differentiable xs ys). Qed.
Print Assumptions C01_curve_differentiable.

Theorem C01_curve_continuous xs ys : valid_table xs ys ->
  forall x, nth 0 xs 0 < x < nth (length xs - 1) xs 0 -> continuity_pt (curve xs ys) x.
Proof. exact (curve_continuous xs ys). Qed.
Print Assumptions C01_curve_continuous.

Theorem C01_derivative_continuous xs ys : valid_table xs ys ->
  forall x, nth 0 xs 0 < x < nth (length xs - 1) xs 0 -> continuity_pt (deriv1 xs ys) x.
Proof. exact (derivative_continuous xs ys). Qed.
Print Assumptions C01_derivative_continuous.

(** Slope limiter (first, last and interior knots): the slope dy_i = Derivative(x_i,1) has the sign of, and at most
    twice the size of, each adjacent secant slope; on a plateau it is 0. *)
Theorem C01_limiter_bounds xs ys : valid_table xs ys -> forall i, (i < length xs)%nat ->
  exists d, derivative ROps (tab xs ys) (nth i xs 0) 1 = Ok d /\
    (forall s, (S i < length xs)%nat -> s = (nth (S i) ys 0 - nth i ys 0) / (nth (S i) xs 0 - nth i xs 0) ->
               0 <= d * s /\ Rabs d <= 2 * Rabs s) /\
    (forall s, (0 < i)%nat -> s = (nth i ys 0 - nth (i - 1) ys 0) / (nth i xs 0 - nth (i - 1) xs 0) ->
               0 <= d * s /\ Rabs d <= 2 * Rabs s).
Proof. exact (limiter_bounds xs ys). Qed.
Print Assumptions C01_limiter_bounds.

(** "between two adjacent abscissae ... stays between the two tabulated values" *)
Theorem C01_no_overshoot xs ys : valid_table xs ys -> forall j x, (S j < length xs)%nat ->
  nth j xs 0 <= x <= nth (S j) xs 0 ->
  exists v, interpolate ROps (tab xs ys) x = Ok v /\
            Rmin (nth j ys 0) (nth (S j) ys 0) <= v <= Rmax (nth j ys 0) (nth (S j) ys 0).
Proof. exact (no_overshoot xs ys). Qed.
Print Assumptions C01_no_overshoot.

(** "between two adjacent abscissae is monotone ... introduces no extremum that is not in the data" *)
Theorem C01_monotone_on_segment xs ys : valid_table xs ys -> forall j p q, (S j < length xs)%nat ->
  nth j xs 0 <= p -> p <= q -> q <= nth (S j) xs 0 ->
  exists fp fq, interpolate ROps (tab xs ys) p = Ok fp /\ interpolate ROps (tab xs ys) q = Ok fq /\
    (nth j ys 0 <= nth (S j) ys 0 -> fp <= fq) /\ (nth (S j) ys 0 <= nth j ys 0 -> fq <= fp).
Proof. exact (monotone_on_segment xs ys). Qed.
Print Assumptions C01_monotone_on_segment.

(** "the reported derivatives of order 1-3 are the derivatives of the returned curve": inside a segment, for every
    order k >= 1 (the values of order >= 4 are 0, next theorem), Derivative(x,k) is the k-th derivative of the curve *)
Theorem C01_derivatives_inside xs ys : valid_table xs ys -> forall j x k, (S j < length xs)%nat ->
  nth j xs 0 < x < nth (S j) xs 0 ->
  exists v, derivative ROps (tab xs ys) x (Z.of_nat (S k)) = Ok v /\ is_derive_n (curve xs ys) (S k) x v.
Proof. exact (derivatives_inside xs ys). Qed.
Print Assumptions C01_derivatives_inside.

(** at a knot the second and third derivative of the curve do not exist in general; what Derivative reports on the
    half-open segment [x_j, x_{j+1}) are the derivatives of the polynomial that Interpolate evaluates on [x_j, x_{j+1}] *)
Theorem C01_derivatives_segment_polynomial xs ys : valid_table xs ys -> forall j, (S j < length xs)%nat ->
  exists poly : R -> R,
    (forall t, nth j xs 0 <= t <= nth (S j) xs 0 -> interpolate ROps (tab xs ys) t = Ok (poly t)) /\
    (forall x k, nth j xs 0 <= x < nth (S j) xs 0 ->
       exists v, derivative ROps (tab xs ys) x (Z.of_nat (S k)) = Ok v /\ is_derive_n poly (S k) x v).
Proof. exact (derivatives_segment_polynomial xs ys). Qed.
Print Assumptions C01_derivatives_segment_polynomial.

Theorem C01_derivative_order_ge_4 xs ys : valid_table xs ys -> forall x k,
  nth 0 xs 0 <= x <= nth (length xs - 1) xs 0 -> (4 <= k)%Z -> derivative ROps (tab xs ys) x k = Ok 0.
Proof. exact (derivative_order_ge_4 xs ys). Qed.
Print Assumptions C01_derivative_order_ge_4.

(** "straight-line data ... are reproduced exactly" *)
Theorem C01_linear_exact xs ys : valid_table xs ys -> forall m q,
  (forall i, (i < length xs)%nat -> nth i ys 0 = m * nth i xs 0 + q) ->
  forall x, nth 0 xs 0 <= x <= nth (length xs - 1) xs 0 -> interpolate ROps (tab xs ys) x = Ok (m * x + q).
Proof. exact (linear_exact xs ys). Qed.
Print Assumptions C01_linear_exact.

(** "(and parabola data where the slope limiter is inactive)": [DYf xs ys i] is the slope dy_i the constructor stores
    (= Derivative(x_i,1)), [Pf xs ys i] the three-point estimate p_i of the code; limiter inactive = they coincide.
    This pins the weights h[i]/(h[i-1]+h[i]) and the one-sided end formulas.  Non-vacuity: [parabola_example]. *)
Theorem C01_parabola_exact xs ys : valid_table xs ys -> forall al be ga,
  (forall i, (i < length xs)%nat -> nth i ys 0 = al * nth i xs 0 ^ 2 + be * nth i xs 0 + ga) ->
  (forall i, (i < length xs)%nat -> DYf xs ys i = Pf xs ys i) ->
  forall x, nth 0 xs 0 <= x <= nth (length xs - 1) xs 0 -> interpolate ROps (tab xs ys) x = Ok (al * x ^ 2 + be * x + ga).
Proof. exact (parabola_exact xs ys). Qed.
Print Assumptions C01_parabola_exact.

(** 2-D.  [valid_grid xs ys f]: >= 2 strictly increasing abscissae on each axis, f has length xs rows of length ys;
    [grid xs ys f] is the object the constructor builds; [BIL xs ys f i j] the bilinear form of the cell (i,j). *)
Theorem C01_constructor2_accepts_valid_grids xs ys f xd yd fd : valid_grid xs ys f ->
  construct2 ROps xs ys f xd yd fd = Ok (grid (scale ROps xd xs) (scale ROps yd ys) (scale2 ROps fd f)) /\
  valid_grid (scale ROps xd xs) (scale ROps yd ys) (scale2 ROps fd f).
Proof. exact (construct2_ok xs ys f xd yd fd). Qed.
Print Assumptions C01_constructor2_accepts_valid_grids.

(** "returns grid values at grid nodes" *)
Theorem C01_bilinear_nodes xs ys f : valid_grid xs ys f -> forall i j, (i < length xs)%nat -> (j < length ys)%nat ->
  interpolate2 ROps (grid xs ys f) (nth i xs 0) (nth j ys 0) = Ok (nth j (nth i f []) 0).
Proof. exact (bilinear_nodes xs ys f). Qed.
Print Assumptions C01_bilinear_nodes.

(** "stays within the minimum and maximum of the four surrounding grid values inside every cell" *)
Theorem C01_bilinear_within_corners xs ys f : valid_grid xs ys f -> forall i j x y,
  (S i < length xs)%nat -> (S j < length ys)%nat ->
  nth i xs 0 <= x <= nth (S i) xs 0 -> nth j ys 0 <= y <= nth (S j) ys 0 ->
  exists v, interpolate2 ROps (grid xs ys f) x y = Ok v /\
    Rmin (Rmin (nth j (nth i f []) 0) (nth j (nth (S i) f []) 0)) (Rmin (nth (S j) (nth (S i) f []) 0) (nth (S j) (nth i f []) 0)) <= v <=
    Rmax (Rmax (nth j (nth i f []) 0) (nth j (nth (S i) f []) 0)) (Rmax (nth (S j) (nth (S i) f []) 0) (nth (S j) (nth i f []) 0)).
Proof. exact (bilinear_within_corners xs ys f). Qed.
Print Assumptions C01_bilinear_within_corners.

(** "is continuous across cell edges": on every *closed* cell the returned value is that cell's bilinear form — so on a
    shared edge the forms of both adjacent cells give the returned value (they agree there, next theorem) *)
Theorem C01_bilinear_cell_form xs ys f : valid_grid xs ys f -> forall i j x y,
  (S i < length xs)%nat -> (S j < length ys)%nat ->
  nth i xs 0 <= x <= nth (S i) xs 0 -> nth j ys 0 <= y <= nth (S j) ys 0 ->
  interpolate2 ROps (grid xs ys f) x y = Ok (BIL xs ys f i j x y).
Proof. exact (interpolate2_on_cell xs ys f). Qed.
Print Assumptions C01_bilinear_cell_form.

Theorem C01_bilinear_edge_agreement xs ys f : valid_grid xs ys f ->
  (forall i j y, (S (S i) < length xs)%nat -> BIL xs ys f (S i) j (nth (S i) xs 0) y = BIL xs ys f i j (nth (S i) xs 0) y) /\
  (forall i j x, (S (S j) < length ys)%nat -> BIL xs ys f i (S j) x (nth (S j) ys 0) = BIL xs ys f i j x (nth (S j) ys 0)).
Proof. exact (fun H => conj (BIL_x_edge xs ys f H) (BIL_y_edge xs ys f H)). Qed.
Print Assumptions C01_bilinear_edge_agreement.

(** "reproduces bilinear functions" *)
Theorem C01_bilinear_reproduces_bilinear xs ys f : valid_grid xs ys f -> forall A B C D,
  (forall i j, (i < length xs)%nat -> (j < length ys)%nat ->
     nth j (nth i f []) 0 = A + B * nth i xs 0 + C * nth j ys 0 + D * nth i xs 0 * nth j ys 0) ->
  forall i j x y, (S i < length xs)%nat -> (S j < length ys)%nat ->
  nth i xs 0 <= x <= nth (S i) xs 0 -> nth j ys 0 <= y <= nth (S j) ys 0 ->
  interpolate2 ROps (grid xs ys f) x y = Ok (A + B * x + C * y + D * x * y).
Proof. exact (bilinear_reproduces_bilinear xs ys f). Qed.
Print Assumptions C01_bilinear_reproduces_bilinear.

(** "all rectangular grids for the 2D case", second entry point: the constructor from a data table (rows x, y, f; the code sorts
    the x and y columns, removes duplicates and requires x-major order).  For the table of a valid grid -- row i N_y + j carries
    (x_i, y_j, f_ij) -- it builds exactly the object of the grid constructor, with any unit factors, so every 2D theorem above
    applies to it. *)
Theorem C01_table_constructor_is_grid_constructor xs ys f xd yd fd : valid_grid xs ys f ->
  construct2_table ROps (table_of_grid xs ys f) xd yd fd = construct2 ROps xs ys f xd yd fd.
Proof. exact (table_constructor_grid xs ys f xd yd fd). Qed.
Print Assumptions C01_table_constructor_is_grid_constructor.
