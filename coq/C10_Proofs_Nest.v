(** * C10 proofs, part 5: requests made from inside a call-back, abandoned calls, several requests in one process,
      coinciding arguments *)
From Coq Require Import ZArith String List Bool Lia Reals Lra.
From LP Require Import Num NumR C10_Model C10_Proofs C10_Proofs_Num.
Import ListNotations.
Local Open Scope Z_scope.

(** ** Integrate / Integrate_2D / Integrate_3D around a call-back *)
Lemma integrate_outcome_cases m (a b : R) o :
  (~ In m methods_1d -> integrate_outcome ROps m a b o = CbExits) /\
  (In m methods_1d -> a = b -> integrate_outcome ROps m a b o = CbReturns) /\
  (In m methods_1d -> a <> b -> integrate_outcome ROps m a b o = o).
Proof.
  unfold integrate_outcome. pose proof (str_in_In m methods_1d) as A.
  destruct (str_in m methods_1d); cbn [negb].
  - assert (In m methods_1d) by (now apply A). cbn [neqb ROps].
    destruct (Reqb_spec a b); repeat split; intros; try reflexivity; try contradiction.
  - assert (~ In m methods_1d) by (intros Hi; apply A in Hi; discriminate). repeat split; intros; try reflexivity; contradiction.
Qed.
Lemma integrate_outcome_exits m (a b : R) o :
  integrate_outcome ROps m a b o = CbExits <-> ~ In m methods_1d \/ (a <> b /\ o = CbExits).
Proof.
  destruct (integrate_outcome_cases m a b o) as (H1 & H2 & H3).
  destruct (in_dec string_dec m methods_1d) as [Hi|Hi].
  - destruct (Req_dec a b) as [E|E].
    + rewrite (H2 Hi E). split; [discriminate|]. intros [?|[? _]]; contradiction.
    + rewrite (H3 Hi E). split; [intros ->; right; split; [assumption|reflexivity]|]. intros [?|[_ ?]]; [contradiction|assumption].
  - rewrite (H1 Hi). split; [intros _; left; assumption|reflexivity].
Qed.
(** limits in descending order are judged like the same limits in ascending order *)
Lemma integrate_outcome_sym m (a b : R) o : integrate_outcome ROps m a b o = integrate_outcome ROps m b a o.
Proof.
  unfold integrate_outcome. destruct (str_in m methods_1d); cbn [negb]; [|reflexivity].
  cbn [neqb ROps]. destruct (Reqb_spec a b), (Reqb_spec b a); try reflexivity; congruence.
Qed.
(** an exception thrown by the integrand reaches the caller: the library neither ends the process nor swallows it *)
Lemma integrate_outcome_throws m (a b : R) o :
  integrate_outcome ROps m a b o = CbThrows <-> In m methods_1d /\ a <> b /\ o = CbThrows.
Proof.
  destruct (integrate_outcome_cases m a b o) as (H1 & H2 & H3).
  destruct (in_dec string_dec m methods_1d) as [Hi|Hi].
  - destruct (Req_dec a b) as [E|E].
    + rewrite (H2 Hi E). split; [discriminate|]. intros (_ & ? & _); contradiction.
    + rewrite (H3 Hi E). split; [intros ->; auto|]. intros (_ & _ & ?); assumption.
  - rewrite (H1 Hi). split; [discriminate|]. intros (? & _); contradiction.
Qed.
Lemma integrate_2d_outcome_exits m (x1 x2 y1 y2 : R) o :
  integrate_2d_outcome ROps m x1 x2 y1 y2 o = CbExits <->
  (~ In m methods_1d /\ ~ In m methods_mc) \/
  (In m methods_1d /\ x1 <> x2 /\ y1 <> y2 /\ o = CbExits) \/
  (~ In m methods_1d /\ In m methods_mc /\ o = CbExits).
Proof.
  unfold integrate_2d_outcome. pose proof (str_in_In m methods_1d) as A. pose proof (str_in_In m methods_mc) as B.
  destruct (str_in m methods_1d) eqn:E1.
  - assert (Hi : In m methods_1d) by (now apply A). rewrite !integrate_outcome_exits. split.
    + intros [?|(Hx & [?|(Hy & Ho)])]; try contradiction. right; left; auto.
    + intros [(? & _)|[(_ & Hx & Hy & Ho)|(? & _)]]; try contradiction. right; split; [assumption|]. right; auto.
  - assert (Hn : ~ In m methods_1d) by (intros Hi; apply A in Hi; discriminate).
    destruct (str_in m methods_mc) eqn:E2.
    + assert (Hm : In m methods_mc) by (now apply B). split.
      * intros ->. right; right; auto.
      * intros [(_ & ?)|[(? & _)|(_ & _ & ?)]]; try contradiction. assumption.
    + assert (Hm : ~ In m methods_mc) by (intros Hi; apply B in Hi; discriminate). split; [intros _; left; auto|reflexivity].
Qed.
Lemma integrate_2d_outcome_sym m (x1 x2 y1 y2 : R) o :
  integrate_2d_outcome ROps m x1 x2 y1 y2 o = integrate_2d_outcome ROps m x2 x1 y2 y1 o.
Proof.
  unfold integrate_2d_outcome. destruct (str_in m methods_1d); [|reflexivity].
  now rewrite (integrate_outcome_sym m y1 y2), (integrate_outcome_sym m x1 x2).
Qed.
Lemma integrate_3d_outcome_exits m (x1 x2 y1 y2 z1 z2 : R) o :
  integrate_3d_outcome ROps m x1 x2 y1 y2 z1 z2 o = CbExits <->
  (~ In m methods_1d /\ ~ In m methods_mc) \/
  (In m methods_1d /\ x1 <> x2 /\ y1 <> y2 /\ z1 <> z2 /\ o = CbExits) \/
  (~ In m methods_1d /\ In m methods_mc /\ o = CbExits).
Proof.
  unfold integrate_3d_outcome. pose proof (str_in_In m methods_1d) as A. pose proof (str_in_In m methods_mc) as B.
  destruct (str_in m methods_1d) eqn:E1.
  - assert (Hi : In m methods_1d) by (now apply A). rewrite !integrate_outcome_exits. split.
    + intros [?|(Hx & [?|(Hy & [?|(Hz & Ho)])])]; try contradiction. right; left; auto.
    + intros [(? & _)|[(_ & Hx & Hy & Hz & Ho)|(? & _)]]; try contradiction.
      right; split; [assumption|]. right; split; [assumption|]. right; auto.
  - assert (Hn : ~ In m methods_1d) by (intros Hi; apply A in Hi; discriminate).
    destruct (str_in m methods_mc) eqn:E2.
    + assert (Hm : In m methods_mc) by (now apply B). split.
      * intros ->. right; right; auto.
      * intros [(_ & ?)|[(? & _)|(_ & _ & ?)]]; try contradiction. assumption.
    + assert (Hm : ~ In m methods_mc) by (intros Hi; apply B in Hi; discriminate). split; [intros _; left; auto|reflexivity].
Qed.
Lemma process_outcome_exit c : process_outcome c = Exit <-> c = CbExits.
Proof. destruct c; cbn; split; intros H; try discriminate; reflexivity. Qed.
Lemma request_inside_integrand_2d m (x1 x2 y1 y2 : R) o :
  process_outcome (integrate_2d_outcome ROps m x1 x2 y1 y2 o) = Exit <->
  (~ In m methods_1d /\ ~ In m methods_mc) \/
  (In m methods_1d /\ x1 <> x2 /\ y1 <> y2 /\ o = CbExits) \/
  (~ In m methods_1d /\ In m methods_mc /\ o = CbExits).
Proof. rewrite process_outcome_exit. apply integrate_2d_outcome_exits. Qed.
(** Find_Root around a call-back: the process ends iff the call-back's request ends it, or the call-back returns and
    the bracket is refused *)
Lemma find_root_outcome_exits {T} (Ops : NumOps T) (f : T -> T) xl xr o :
  find_root_outcome Ops f xl xr o = CbExits <-> o = CbExits \/ (o = CbReturns /\ guard_find_root Ops f xl xr <> Ok tt).
Proof.
  unfold find_root_outcome, outcome_of. destruct o.
  - destruct (guard_find_root Ops f xl xr) as [[]| | |]; split; try discriminate; try (intros _; right; split; [reflexivity|discriminate]); try reflexivity.
    intros [?|(_ & H)]; [discriminate|]. now contradiction H.
  - split; [intros _; left; reflexivity|reflexivity].
  - split; [discriminate|]. intros [?|(? & _)]; discriminate.
Qed.

(** ** several requests in one process *)
Lemma process_session_ok l : process_session l = Ok tt <-> Forall (fun g => g = Ok tt) l.
Proof.
  induction l as [|g r IH]; cbn [process_session].
  - split; [constructor|reflexivity].
  - destruct g as [[]| | |]; cbn [rbind].
    + rewrite IH. split; [intros H; constructor; [reflexivity|assumption]|intros H; now inversion H].
    + split; [discriminate|]. intros H; inversion H; discriminate.
    + split; [discriminate|]. intros H; inversion H; discriminate.
    + split; [discriminate|]. intros H; inversion H; discriminate.
Qed.
(** a request that follows requests which all returned has its own outcome, whatever those requests were *)
Lemma process_session_after l1 g l2 : Forall (fun g => g = Ok tt) l1 ->
  process_session (l1 ++ g :: l2) = rbind g (fun _ => process_session l2).
Proof.
  induction l1 as [|a r IH]; intros H; [reflexivity|]. inversion H as [|? ? Ha Hr]; subst. cbn [app process_session rbind]. now apply IH.
Qed.
Lemma process_session_exit l1 l2 : Forall (fun g => g = Ok tt) l1 -> process_session (l1 ++ Exit :: l2) = Exit.
Proof. intros H. now rewrite process_session_after. Qed.

(** ** coinciding arguments: Integrate(x, x) is judged like Interpolate(x) *)
Lemma interp_integrate_coinciding {T} (Ops : NumOps T) xs x : 2 <= zlen xs < 4294967296 ->
  (guard_interp_integrate Ops xs x x = Exit <-> locate Ops xs x = Exit) /\
  (guard_interp_integrate Ops xs x x = Ok tt <-> locate Ops xs x <> Exit).
Proof.
  intros H. pose proof (interp_integrate_spec Ops xs x x H) as S. cbv zeta in S.
  assert (E : (if nltb Ops x x then x else x) = x) by (destruct (nltb Ops x x); reflexivity). rewrite E in S.
  destruct S as [([A|A] & G)|(A & _ & G)]; rewrite G; split; split; intros; try assumption; try reflexivity; try discriminate; try contradiction.
Qed.
Lemma local_extremum_coinciding {T} (Ops : NumOps T) xs x : 2 <= zlen xs < 4294967296 -> nltb Ops x x = false ->
  (guard_local_extremum Ops xs x x = Exit <-> locate Ops xs x = Exit).
Proof.
  intros H Hx. destruct (local_extremum_spec Ops xs x x H) as [([A|[A|A]] & G)|(_ & A & _ & G)]; rewrite G.
  - congruence.
  - split; intros; [assumption|reflexivity].
  - split; intros; [assumption|reflexivity].
  - split; intros; [discriminate|contradiction].
Qed.
