(** * C06 T-tie: the definitions regenerated from src/Special_Functions.cpp on every run (Gen_C06_Formulas.v,
    tools/cxx2gallina.py) are the hand model of C06_Model.v.

    Regenerated: Gamma, GammaQ (guards and choice of the method), GammaP, Upper_Incomplete_Gamma, Lower_Incomplete_Gamma,
    Inv_GammaQ.  The looping functions they call (GammaLn, GammaQint, GammaPser, GammaQcf, Inv_GammaP) are parameters of the
    generated terms and are instantiated here with the hand model's gammaln, gammaq_int, gammap_ser, gammaq_cf, inv_gammap.

    The generated terms spell every literal as [nlit Ops num den m e] and every integer constant as [nofZ Ops k]; the hand
    model writes [n0], [n1], [nofZ Ops 100].  The two agree in every arithmetic satisfying [LitLaws] (an integer literal is
    the integer, 0 and 1 are the ring constants); the laws hold in the reals ([ROps_LitLaws]), the instance the analytic
    theorems are about; in doubles they hold because 0, 1, 100 are exactly representable.
    A changed comparison, guard, literal, operand order or callee in one of these C++ functions changes the generated term
    and breaks the corresponding lemma below before any case is run. *)
From Coq Require Import ZArith Bool Reals Lra.
From LP Require Import Num NumR C06_Model Gen_C06_Formulas.
Local Open Scope Z_scope.

Section Tie.
Context {T : Type} (Ops : NumOps T).

Record LitLaws : Prop := {
  lit_integer : forall k m e, nlit Ops k 1 m e = nofZ Ops k;
  ofZ_0 : nofZ Ops 0 = n0 Ops;
  ofZ_1 : nofZ Ops 1 = n1 Ops }.

Hypothesis LL : LitLaws.

Lemma rbind_ok_id (A : Type) (r : res A) : rbind r (fun h => Ok h) = r.
Proof. destruct r; reflexivity. Qed.

Lemma lit0 m e : nlit Ops 0 1 m e = n0 Ops.
Proof. rewrite (lit_integer LL). apply (ofZ_0 LL). Qed.
Lemma lit1 m e : nlit Ops 1 1 m e = n1 Ops.
Proof. rewrite (lit_integer LL). apply (ofZ_1 LL). Qed.

Ltac norm := rewrite ?lit0, ?lit1, ?(lit_integer LL), ?(ofZ_0 LL), ?rbind_ok_id.

Local Notation G f := (f T Ops (gammaln Ops) (gammaq_int Ops) (gammap_ser Ops) (gammaq_cf Ops) (inv_gammap Ops)).

Lemma tie_Gamma x : G (@g_Gamma) x = gamma Ops x.
Proof. reflexivity. Qed.

Lemma tie_GammaQ x a : G (@g_GammaQ) x a = gammaq Ops x a.
Proof. unfold g_GammaQ, gammaq, ngtb, rmap. norm. reflexivity. Qed.

Lemma tie_GammaP x a : G (@g_GammaP) x a = gammap Ops x a.
Proof. unfold g_GammaP, gammap, rmap. rewrite tie_GammaQ. norm. reflexivity. Qed.

Lemma tie_Upper_Incomplete_Gamma x s : G (@g_Upper_Incomplete_Gamma) x s = upper_incomplete_gamma Ops x s.
Proof. unfold g_Upper_Incomplete_Gamma, upper_incomplete_gamma. rewrite tie_GammaQ, tie_Gamma. reflexivity. Qed.

Lemma tie_Lower_Incomplete_Gamma x s : G (@g_Lower_Incomplete_Gamma) x s = lower_incomplete_gamma Ops x s.
Proof. unfold g_Lower_Incomplete_Gamma, lower_incomplete_gamma. rewrite tie_GammaP, tie_Gamma. reflexivity. Qed.

Lemma tie_Inv_GammaQ q a : G (@g_Inv_GammaQ) q a = inv_gammaq Ops q a.
Proof. unfold g_Inv_GammaQ, inv_gammaq. norm. reflexivity. Qed.

End Tie.

Lemma ROps_LitLaws : LitLaws ROps.
Proof.
  constructor; cbn; intros.
  - unfold Rdiv. change (IZR 1) with 1%R. rewrite Rinv_1, Rmult_1_r. reflexivity.
  - reflexivity.
  - reflexivity.
Qed.

(** all six at once, as stated in Properties_C06.v *)
Definition generated_is_model {T} (Ops : NumOps T) : Prop :=
  (forall x, g_Gamma Ops (gammaln Ops) (gammaq_int Ops) (gammap_ser Ops) (gammaq_cf Ops) (inv_gammap Ops) x = gamma Ops x) /\
  (forall x a, g_GammaQ Ops (gammaln Ops) (gammaq_int Ops) (gammap_ser Ops) (gammaq_cf Ops) (inv_gammap Ops) x a = gammaq Ops x a) /\
  (forall x a, g_GammaP Ops (gammaln Ops) (gammaq_int Ops) (gammap_ser Ops) (gammaq_cf Ops) (inv_gammap Ops) x a = gammap Ops x a) /\
  (forall x s, g_Upper_Incomplete_Gamma Ops (gammaln Ops) (gammaq_int Ops) (gammap_ser Ops) (gammaq_cf Ops) (inv_gammap Ops) x s = upper_incomplete_gamma Ops x s) /\
  (forall x s, g_Lower_Incomplete_Gamma Ops (gammaln Ops) (gammaq_int Ops) (gammap_ser Ops) (gammaq_cf Ops) (inv_gammap Ops) x s = lower_incomplete_gamma Ops x s) /\
  (forall q a, g_Inv_GammaQ Ops (gammaln Ops) (gammaq_int Ops) (gammap_ser Ops) (gammaq_cf Ops) (inv_gammap Ops) q a = inv_gammaq Ops q a).

Lemma generated_is_model_of_laws {T} (Ops : NumOps T) : LitLaws Ops -> generated_is_model Ops.
Proof.
  intros LL. unfold generated_is_model.
  split; [intros; apply tie_Gamma|].
  split; [intros; apply (tie_GammaQ Ops LL)|].
  split; [intros; apply (tie_GammaP Ops LL)|].
  split; [intros; apply (tie_Upper_Incomplete_Gamma Ops LL)|].
  split; [intros; apply (tie_Lower_Incomplete_Gamma Ops LL)|].
  intros; apply (tie_Inv_GammaQ Ops LL).
Qed.

Lemma generated_is_model_R : generated_is_model ROps.
Proof. exact (generated_is_model_of_laws ROps ROps_LitLaws). Qed.
