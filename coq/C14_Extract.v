From Coq Require Import Extraction ExtrOcamlBasic ZArith List String.
From LP Require Import Num C13_Model C14_Model.
Extraction Language OCaml.
Extraction "C14_m.ml" parse_method random_point mc_volume brute_force integrate_miser vstate0 vegas_init vegas integrate_mc integrate_mc_throwing sample_uniforms run_event
  integrate_2d integrate_3d integrate_3d_spherical Z.of_nat Z.to_nat.
