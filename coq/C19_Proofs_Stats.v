(** * C19 proofs over the reals: grids (Linear_Space, Log_Space) and summary statistics
    (Arithmetic_Mean, Variance, Standard_Deviation, Median, Weighted_Average).

    All theorems are about the model functions of C19_Model.v instantiated at [ROps]. *)
From Coq Require Import ZArith List Bool Lia Arith Reals Lra Psatz Sorting.Permutation Sorting.Sorted.
From LP Require Import Num NumR OrdLaws C19_Model.
Import ListNotations.
Local Open Scope R_scope.

(** ** Generic list helpers *)

Lemma nth_map_seq (f : nat -> R) (n k : nat) : (k < n)%nat -> nth k (map f (seq 0 n)) 0 = f k.
Proof.
  intros Hk. rewrite (nth_indep _ 0 (f 0%nat)) by (now rewrite map_length, seq_length).
  rewrite map_nth, seq_nth by assumption. reflexivity.
Qed.

Lemma nth_map_default {A B} (f : A -> B) (l : list A) (d : A) (d' : B) (i : nat) :
  (i < length l)%nat -> nth i (map f l) d' = f (nth i l d).
Proof.
  intros Hi. rewrite (nth_indep _ d' (f d)) by (now rewrite map_length). apply map_nth.
Qed.

Lemma INR_steps_m1_pos (steps : nat) : (2 <= steps)%nat -> 0 < INR steps - 1.
Proof. intros H. apply le_INR in H. simpl in H. lra. Qed.

(** ** 1. Linear_Space *)

Lemma linear_space_eq (mn mx : R) (steps : nat) :
  (2 <= steps)%nat -> mn <> mx ->
  linear_space ROps mn mx steps =
  map (fun i => mn + INR i * ((mx - mn) / (INR steps - 1))) (seq 0 steps).
Proof.
  intros Hs Hne. unfold linear_space.
  assert (Nat.ltb steps 2 = false) as -> by (apply Nat.ltb_ge; lia).
  change (neqb ROps mn mx) with (Reqb mn mx).
  assert (Reqb mn mx = false) as -> by (now apply Reqb_false).
  cbn. apply map_ext. intros i. now rewrite !INR_IZR_INZ.
Qed.

Theorem linear_space_degenerate (mn mx : R) (steps : nat) :
  (steps < 2)%nat \/ mn = mx -> linear_space ROps mn mx steps = [mn].
Proof.
  intros [H|H]; unfold linear_space; change (neqb ROps mn mx) with (Reqb mn mx).
  - assert (Nat.ltb steps 2 = true) as -> by (apply Nat.ltb_lt; lia). reflexivity.
  - assert (Reqb mn mx = true) as -> by (now apply Reqb_true). now rewrite orb_true_r.
Qed.

Example linear_space_degenerate_ex1 : linear_space ROps 3 7 1 = [3].
Proof. apply linear_space_degenerate. left. lia. Qed.
Example linear_space_degenerate_ex2 : linear_space ROps 3 3 10 = [3].
Proof. apply linear_space_degenerate. right. reflexivity. Qed.

Theorem linear_space_spec (mn mx : R) (steps : nat) :
  (2 <= steps)%nat -> mn <> mx ->
  let l := linear_space ROps mn mx steps in
  let h := (mx - mn) / (INR steps - 1) in
  length l = steps /\
  nth 0 l 0 = mn /\
  nth (steps - 1) l 0 = mx /\
  (forall k, (k < steps)%nat -> nth k l 0 = mn + INR k * h) /\
  (forall k, (S k < steps)%nat -> nth (S k) l 0 - nth k l 0 = h) /\
  (mn < mx -> forall i j, (i < j < steps)%nat -> nth i l 0 < nth j l 0) /\
  (mx < mn -> forall i j, (i < j < steps)%nat -> nth j l 0 < nth i l 0).
Proof.
  intros Hs Hne l h.
  pose proof (INR_steps_m1_pos steps Hs) as Hpos.
  assert (Hnth : forall k, (k < steps)%nat -> nth k l 0 = mn + INR k * h).
  { intros k Hk. unfold l. rewrite linear_space_eq by assumption.
    rewrite (nth_map_seq (fun i => mn + INR i * ((mx - mn) / (INR steps - 1)))) by assumption.
    reflexivity. }
  assert (Hmono : forall i j, (i < j)%nat -> INR i < INR j) by (intros; now apply lt_INR).
  split; [|split; [|split; [|split; [|split; [|split]]]]].
  - unfold l. rewrite linear_space_eq by assumption. now rewrite map_length, seq_length.
  - rewrite Hnth by lia. simpl. ring.
  - rewrite Hnth by lia. rewrite minus_INR by lia. simpl. unfold h. field. lra.
  - exact Hnth.
  - intros k Hk. rewrite !Hnth by lia. rewrite S_INR. ring.
  - intros Hlt i j [Hij Hj]. rewrite !Hnth by lia.
    assert (0 < h) by (unfold h; apply Rdiv_lt_0_compat; lra).
    specialize (Hmono i j Hij). nra.
  - intros Hlt i j [Hij Hj]. rewrite !Hnth by lia.
    assert (0 < - h).
    { unfold h. replace (- ((mx - mn) / (INR steps - 1))) with ((mn - mx) / (INR steps - 1))
        by (field; lra). apply Rdiv_lt_0_compat; lra. }
    specialize (Hmono i j Hij). nra.
Qed.

Example linear_space_spec_ex : (2 <= 5)%nat /\ (0:R) <> 1.
Proof. split; [lia|lra]. Qed.

(** ** 2. Log_Space *)

Lemma log_space_eq (mn mx : R) (steps : nat) :
  (2 <= steps)%nat -> mn <> mx ->
  log_space ROps mn mx steps =
  map (fun i => exp (ln mn + INR i * ((ln mx - ln mn) / (INR steps - 1)))) (seq 0 steps).
Proof.
  intros Hs Hne. unfold log_space.
  assert (Nat.ltb steps 2 = false) as -> by (apply Nat.ltb_ge; lia).
  change (neqb ROps mn mx) with (Reqb mn mx).
  assert (Reqb mn mx = false) as -> by (now apply Reqb_false).
  cbn. apply map_ext. intros i. now rewrite !INR_IZR_INZ.
Qed.

Theorem log_space_degenerate (mn mx : R) (steps : nat) :
  (steps < 2)%nat \/ mn = mx -> log_space ROps mn mx steps = [mn].
Proof.
  intros [H|H]; unfold log_space; change (neqb ROps mn mx) with (Reqb mn mx).
  - assert (Nat.ltb steps 2 = true) as -> by (apply Nat.ltb_lt; lia). reflexivity.
  - assert (Reqb mn mx = true) as -> by (now apply Reqb_true). now rewrite orb_true_r.
Qed.

Example log_space_degenerate_ex1 : log_space ROps 3 7 0 = [3].
Proof. apply log_space_degenerate. left. lia. Qed.
Example log_space_degenerate_ex2 : log_space ROps 3 3 10 = [3].
Proof. apply log_space_degenerate. right. reflexivity. Qed.

Theorem log_space_spec (mn mx : R) (steps : nat) :
  0 < mn -> 0 < mx -> mn <> mx -> (2 <= steps)%nat ->
  let l := log_space ROps mn mx steps in
  let h := (ln mx - ln mn) / (INR steps - 1) in
  length l = steps /\
  nth 0 l 0 = mn /\
  nth (steps - 1) l 0 = mx /\
  (forall k, (k < steps)%nat -> 0 < nth k l 0) /\
  (forall k, (k < steps)%nat -> nth k l 0 = exp (ln mn + INR k * h)) /\
  (forall k, (k < steps)%nat -> ln (nth k l 0) = ln mn + INR k * h) /\
  (forall k, (S k < steps)%nat -> ln (nth (S k) l 0) - ln (nth k l 0) = h) /\
  (forall k, (S k < steps)%nat -> nth (S k) l 0 / nth k l 0 = exp h) /\
  (mn < mx -> forall i j, (i < j < steps)%nat -> nth i l 0 < nth j l 0) /\
  (mx < mn -> forall i j, (i < j < steps)%nat -> nth j l 0 < nth i l 0).
Proof.
  intros Hmn Hmx Hne Hs l h.
  pose proof (INR_steps_m1_pos steps Hs) as Hpos.
  assert (Hnth : forall k, (k < steps)%nat -> nth k l 0 = exp (ln mn + INR k * h)).
  { intros k Hk. unfold l. rewrite log_space_eq by assumption.
    rewrite (nth_map_seq (fun i => exp (ln mn + INR i * ((ln mx - ln mn) / (INR steps - 1)))))
      by assumption.
    reflexivity. }
  assert (Hmono : forall i j, (i < j)%nat -> INR i < INR j) by (intros; now apply lt_INR).
  split; [|split; [|split; [|split; [|split; [|split; [|split; [|split; [|split]]]]]]]].
  - unfold l. rewrite log_space_eq by assumption. now rewrite map_length, seq_length.
  - rewrite Hnth by lia. simpl. replace (ln mn + 0 * h) with (ln mn) by ring. now apply exp_ln.
  - rewrite Hnth by lia. rewrite minus_INR by lia. simpl.
    replace (ln mn + (INR steps - 1) * h) with (ln mx) by (unfold h; field; lra).
    now apply exp_ln.
  - intros k Hk. rewrite Hnth by lia. apply exp_pos.
  - exact Hnth.
  - intros k Hk. rewrite Hnth by lia. apply ln_exp.
  - intros k Hk. rewrite !Hnth by lia. rewrite !ln_exp, S_INR. ring.
  - intros k Hk. rewrite !Hnth by lia. unfold Rdiv. rewrite <- exp_Ropp, <- exp_plus.
    f_equal. rewrite S_INR. ring.
  - intros Hlt i j [Hij Hj]. rewrite !Hnth by lia. apply exp_increasing.
    assert (ln mn < ln mx) by (now apply ln_increasing).
    assert (0 < h) by (unfold h; apply Rdiv_lt_0_compat; lra).
    specialize (Hmono i j Hij). nra.
  - intros Hlt i j [Hij Hj]. rewrite !Hnth by lia. apply exp_increasing.
    assert (ln mx < ln mn) by (now apply ln_increasing).
    assert (0 < - h).
    { unfold h. replace (- ((ln mx - ln mn) / (INR steps - 1))) with ((ln mn - ln mx) / (INR steps - 1))
        by (field; lra). apply Rdiv_lt_0_compat; lra. }
    specialize (Hmono i j Hij). nra.
Qed.

Example log_space_spec_ex : 0 < 1 /\ 0 < 10 /\ (1:R) <> 10 /\ (2 <= 5)%nat.
Proof. repeat split; try lra; lia. Qed.

(** ** 3. Summary statistics *)

(** *** Bridges from the accumulator loops to plain sums *)
Definition Rsum (l : list R) : R := fold_right Rplus 0 l.

Lemma fold_left_acc_sum {A} (g : A -> R) (l : list A) (a : R) :
  fold_left (fun acc x => acc + g x) l a = a + Rsum (map g l).
Proof.
  revert a; induction l as [|x l IH]; intros a; simpl.
  - ring.
  - rewrite IH. ring.
Qed.

Lemma nsum_R (l : list R) : nsum ROps l = Rsum l.
Proof.
  unfold nsum. cbn.
  change (fold_left Rplus l 0) with (fold_left (fun acc x => acc + (fun y => y) x) l 0).
  rewrite fold_left_acc_sum, map_id. ring.
Qed.

Lemma nlen_R (l : list R) : nlen ROps l = INR (length l).
Proof. unfold nlen. cbn. now rewrite INR_IZR_INZ. Qed.

Lemma mean_R (l : list R) : arithmetic_mean ROps l = Rsum l / INR (length l).
Proof.
  unfold arithmetic_mean. rewrite nsum_R, nlen_R. cbn. unfold Rdiv. ring.
Qed.

Definition sqdev (m : R) (l : list R) : R := Rsum (map (fun x => (x - m) * (x - m)) l).

Lemma variance_R (l : list R) :
  variance ROps l = sqdev (arithmetic_mean ROps l) l / (INR (length l) - 1).
Proof.
  unfold variance. cbv zeta. rewrite nlen_R. generalize (arithmetic_mean ROps l). intros m. cbn.
  rewrite (fold_left_acc_sum (fun x => (x - m) * (x - m))).
  unfold sqdev, Rdiv. ring.
Qed.

Lemma stddev_R (l : list R) : standard_deviation ROps l = sqrt (variance ROps l).
Proof. reflexivity. Qed.

Lemma Rsum_map_translate (c : R) (l : list R) :
  Rsum (map (fun x => x + c) l) = Rsum l + INR (length l) * c.
Proof.
  induction l as [|x l IH].
  - simpl. ring.
  - cbn [map Rsum fold_right length]. fold (Rsum (map (fun x => x + c) l)). fold (Rsum l).
    rewrite IH, S_INR. ring.
Qed.

Lemma Rsum_map_scale {A} (a : R) (g : A -> R) (l : list A) :
  Rsum (map (fun x => a * g x) l) = a * Rsum (map g l).
Proof.
  induction l as [|x l IH]; simpl.
  - ring.
  - fold (Rsum (map (fun x => a * g x) l)). fold (Rsum (map g l)). rewrite IH. ring.
Qed.

Lemma INR_length_pos {A} (l : list A) : l <> [] -> 0 < INR (length l).
Proof. intros H. destruct l; [congruence|]. apply lt_0_INR. simpl. lia. Qed.

(** *** Mean *)
Theorem mean_translate (c : R) (l : list R) :
  l <> [] -> arithmetic_mean ROps (map (fun x => x + c) l) = arithmetic_mean ROps l + c.
Proof.
  intros Hl. rewrite !mean_R, map_length, Rsum_map_translate.
  pose proof (INR_length_pos l Hl). field. lra.
Qed.

Example mean_translate_ex : [1; 2] <> ([] : list R).
Proof. discriminate. Qed.

(** the hypothesis is necessary: the mean of the empty list is 0 in the model (0/0 with /0 = 0 ... ),
    more precisely 0 * / 0 = 0 *)
Lemma mean_nil : arithmetic_mean ROps [] = 0.
Proof. rewrite mean_R. simpl. unfold Rdiv. ring. Qed.

Theorem mean_scale (a : R) (l : list R) :
  arithmetic_mean ROps (map (fun x => a * x) l) = a * arithmetic_mean ROps l.
Proof.
  rewrite !mean_R, map_length.
  rewrite (Rsum_map_scale a (fun x => x)), map_id. unfold Rdiv. ring.
Qed.

(** *** Variance and standard deviation *)
Theorem variance_translate (c : R) (l : list R) :
  variance ROps (map (fun x => x + c) l) = variance ROps l.
Proof.
  destruct l as [|x0 l0] eqn:El; [reflexivity|]. rewrite <- El.
  assert (Hl : l <> []) by (rewrite El; discriminate).
  rewrite !variance_R, map_length, mean_translate by assumption.
  f_equal. unfold sqdev. rewrite map_map. f_equal. apply map_ext. intros x. ring.
Qed.

Theorem variance_scale (a : R) (l : list R) :
  variance ROps (map (fun x => a * x) l) = a * a * variance ROps l.
Proof.
  rewrite !variance_R, map_length, mean_scale. unfold sqdev. rewrite map_map.
  set (m := arithmetic_mean ROps l).
  rewrite (map_ext (fun x => (a * x - a * m) * (a * x - a * m))
                   (fun x => (a * a) * ((x - m) * (x - m)))) by (intros; ring).
  rewrite (Rsum_map_scale (a * a) (fun x => (x - m) * (x - m))). unfold Rdiv. ring.
Qed.

Theorem stddev_translate (c : R) (l : list R) :
  standard_deviation ROps (map (fun x => x + c) l) = standard_deviation ROps l.
Proof. rewrite !stddev_R, variance_translate. reflexivity. Qed.

Lemma sqrt_sq_mult (a v : R) : sqrt (a * a * v) = Rabs a * sqrt v.
Proof.
  destruct (Rle_dec 0 v) as [Hv|Hv].
  - rewrite sqrt_mult_alt by nra. fold (Rsqr a). now rewrite sqrt_Rsqr_abs.
  - rewrite (sqrt_neg_0 v) by lra. rewrite sqrt_neg_0 by nra. ring.
Qed.

Theorem stddev_scale (a : R) (l : list R) :
  standard_deviation ROps (map (fun x => a * x) l) = Rabs a * standard_deviation ROps l.
Proof. rewrite !stddev_R, variance_scale. apply sqrt_sq_mult. Qed.

(** the variance is non-negative for at least two samples (so the standard deviation is its
    genuine square root there) *)
Lemma sqdev_nonneg m l : 0 <= sqdev m l.
Proof.
  unfold sqdev. induction l as [|x l IH].
  - unfold Rsum; simpl; lra.
  - unfold Rsum in *; simpl. pose proof (Rle_0_sqr (x - m)) as H; unfold Rsqr in H. lra.
Qed.

Theorem variance_nonneg (l : list R) : (2 <= length l)%nat -> 0 <= variance ROps l.
Proof.
  intros H. rewrite variance_R. pose proof (INR_steps_m1_pos _ H). pose proof (sqdev_nonneg (arithmetic_mean ROps l) l).
  apply Rmult_le_pos; [assumption|]. left. now apply Rinv_0_lt_compat.
Qed.

Example variance_nonneg_ex : (2 <= length [1; 2])%nat.
Proof. simpl. lia. Qed.

(** *** Sorting (the specification of std::nth_element / std::sort the median relies on) *)
Lemma insert_sorted_cons (x a : R) (r : list R) :
  insert_sorted ROps x (a :: r) = if Rltb x a then x :: a :: r else a :: insert_sorted ROps x r.
Proof. reflexivity. Qed.

Lemma insert_sorted_perm (x : R) (l : list R) : Permutation (insert_sorted ROps x l) (x :: l).
Proof.
  induction l as [|a r IH]; [reflexivity|].
  rewrite insert_sorted_cons. destruct (Rltb x a); [reflexivity|].
  rewrite IH. apply perm_swap.
Qed.

Lemma insert_sorted_length (x : R) (l : list R) : length (insert_sorted ROps x l) = S (length l).
Proof. apply (Permutation_length (insert_sorted_perm x l)). Qed.

Theorem sort_list_perm (l : list R) : Permutation (sort_list ROps l) l.
Proof.
  induction l as [|x l IH]; [reflexivity|].
  change (sort_list ROps (x :: l)) with (insert_sorted ROps x (sort_list ROps l)).
  rewrite insert_sorted_perm. now apply perm_skip.
Qed.

Lemma sort_list_length (l : list R) : length (sort_list ROps l) = length l.
Proof. apply (Permutation_length (sort_list_perm l)). Qed.

Lemma insert_sorted_sorted (x : R) (l : list R) :
  StronglySorted Rle l -> StronglySorted Rle (insert_sorted ROps x l).
Proof.
  induction l as [|a r IH]; intros Hs.
  - simpl. constructor; constructor.
  - rewrite insert_sorted_cons. destruct (Rltb_spec x a) as [Hlt|Hge].
    + constructor; [assumption|]. apply StronglySorted_inv in Hs. destruct Hs as [_ Hall].
      constructor; [lra|]. rewrite Forall_forall in *. intros y Hy. specialize (Hall y Hy). lra.
    + apply StronglySorted_inv in Hs. destruct Hs as [Hr Hall].
      constructor; [now apply IH|]. rewrite Forall_forall in *. intros y Hy.
      apply (Permutation_in _ (insert_sorted_perm x r)) in Hy. destruct Hy as [<-|Hy]; [lra|now apply Hall].
Qed.

Theorem sort_list_strongly_sorted (l : list R) : StronglySorted Rle (sort_list ROps l).
Proof.
  induction l as [|x l IH]; [constructor|].
  change (sort_list ROps (x :: l)) with (insert_sorted ROps x (sort_list ROps l)).
  now apply insert_sorted_sorted.
Qed.

Theorem sort_list_sorted (l : list R) : Sorted Rle (sort_list ROps l).
Proof. apply StronglySorted_Sorted, sort_list_strongly_sorted. Qed.

(** in index form: the sorted list is non-decreasing *)
Lemma StronglySorted_nth (s : list R) : StronglySorted Rle s ->
  forall i j, (i <= j < length s)%nat -> nth i s 0 <= nth j s 0.
Proof.
  induction 1 as [|a r Hs IH Hall]; intros i j Hij; [simpl in Hij; lia|].
  destruct i as [|i], j as [|j]; simpl in *; try lia; try lra.
  - rewrite Forall_forall in Hall. apply Hall, nth_In. lia.
  - apply IH. lia.
Qed.

Theorem sort_list_nth_mono (l : list R) (i j : nat) :
  (i <= j < length l)%nat -> nth i (sort_list ROps l) 0 <= nth j (sort_list ROps l) 0.
Proof.
  intros H. apply StronglySorted_nth; [apply sort_list_strongly_sorted|].
  now rewrite sort_list_length.
Qed.

Example sort_list_nth_mono_ex : (0 <= 1 < length [3; 1])%nat.
Proof. simpl. lia. Qed.

(** two sorted lists that are permutations of each other are equal (the order on R is total and
    antisymmetric) *)
Lemma sorted_perm_eq (l1 l2 : list R) :
  StronglySorted Rle l1 -> StronglySorted Rle l2 -> Permutation l1 l2 -> l1 = l2.
Proof.
  revert l2; induction l1 as [|a1 r1 IH]; intros l2 H1 H2 HP.
  - now apply Permutation_nil in HP.
  - destruct l2 as [|a2 r2]; [apply Permutation_sym, Permutation_nil in HP; discriminate|].
    apply StronglySorted_inv in H1. destruct H1 as [Hr1 Hall1].
    apply StronglySorted_inv in H2. destruct H2 as [Hr2 Hall2].
    rewrite Forall_forall in Hall1, Hall2.
    assert (a1 = a2) as ->.
    { assert (In a1 (a2 :: r2)) as Hin1 by (apply (Permutation_in _ HP); now left).
      assert (In a2 (a1 :: r1)) as Hin2 by (apply (Permutation_in _ (Permutation_sym HP)); now left).
      destruct Hin1 as [->|Hin1]; [reflexivity|]. destruct Hin2 as [->|Hin2]; [reflexivity|].
      apply Hall2 in Hin1. apply Hall1 in Hin2. lra. }
    f_equal. apply IH; try assumption. now apply Permutation_cons_inv in HP.
Qed.

Theorem sort_list_perm_invariant (l l' : list R) :
  Permutation l l' -> sort_list ROps l = sort_list ROps l'.
Proof.
  intros HP. apply sorted_perm_eq; try apply sort_list_strongly_sorted.
  rewrite (sort_list_perm l), (sort_list_perm l'). exact HP.
Qed.

Example sort_list_perm_invariant_ex : Permutation [3; 1; 2] [2; 3; 1].
Proof. apply Permutation_sym. apply (Permutation_cons_app [3; 1] [] 2). reflexivity. Qed.

(** the sort is characterised by the two properties: any sorted permutation of l is sort_list l *)
Theorem sort_list_unique (l s : list R) :
  StronglySorted Rle s -> Permutation s l -> s = sort_list ROps l.
Proof.
  intros Hs HP. apply sorted_perm_eq; [assumption|apply sort_list_strongly_sorted|].
  rewrite HP. apply Permutation_sym, sort_list_perm.
Qed.

Example sort_list_unique_ex : StronglySorted Rle [1; 2] /\ Permutation [1; 2] [2; 1].
Proof. split; [repeat constructor; lra|apply perm_swap]. Qed.

(** sorting commutes with strictly increasing maps *)
Lemma insert_sorted_map (f : R -> R) (x : R) (l : list R) :
  (forall u v, u < v <-> f u < f v) ->
  insert_sorted ROps (f x) (map f l) = map f (insert_sorted ROps x l).
Proof.
  intros Hf. induction l as [|a r IH]; [reflexivity|].
  cbn [map]. rewrite !insert_sorted_cons.
  assert (Rltb (f x) (f a) = Rltb x a) as ->.
  { destruct (Rltb_spec x a) as [H|H].
    - apply Rltb_true. now apply (proj1 (Hf x a)).
    - apply Rltb_false. destruct (Rle_dec (f a) (f x)); [assumption|].
      exfalso. apply H. apply (proj2 (Hf x a)). lra. }
  destruct (Rltb x a); cbn [map]; [reflexivity|]. now rewrite IH.
Qed.

Theorem sort_list_map_increasing (f : R -> R) (l : list R) :
  (forall u v, u < v <-> f u < f v) ->
  sort_list ROps (map f l) = map f (sort_list ROps l).
Proof.
  intros Hf. induction l as [|x l IH]; [reflexivity|].
  cbn [map].
  change (sort_list ROps (f x :: map f l)) with (insert_sorted ROps (f x) (sort_list ROps (map f l))).
  change (sort_list ROps (x :: l)) with (insert_sorted ROps x (sort_list ROps l)).
  rewrite IH. now apply insert_sorted_map.
Qed.

Example sort_list_map_increasing_ex : forall u v : R, u < v <-> 2 * u + 1 < 2 * v + 1.
Proof. intros; lra. Qed.

(** *** Median *)
Lemma median_R (l : list R) :
  median ROps l =
  if Nat.even (length l)
  then (nth (length l / 2 - 1) (sort_list ROps l) 0 + nth (length l / 2) (sort_list ROps l) 0) / 2
  else nth (length l / 2) (sort_list ROps l) 0.
Proof. reflexivity. Qed.

Lemma even_half_bounds (n : nat) : (1 <= n)%nat ->
  (n / 2 < n)%nat /\ (Nat.even n = true -> (n / 2 - 1 < n)%nat).
Proof.
  intros Hn. split; [apply Nat.div_lt; lia|]. intros _. pose proof (Nat.div_lt n 2). lia.
Qed.

Lemma median_map_increasing (f : R -> R) (l : list R) :
  (forall u v, u < v <-> f u < f v) -> l <> [] ->
  median ROps (map f l) =
  if Nat.even (length l)
  then (f (nth (length l / 2 - 1) (sort_list ROps l) 0) + f (nth (length l / 2) (sort_list ROps l) 0)) / 2
  else f (nth (length l / 2) (sort_list ROps l) 0).
Proof.
  intros Hf Hl. rewrite median_R, map_length, sort_list_map_increasing by assumption.
  assert (Hn : (1 <= length l)%nat) by (destruct l; [congruence|simpl; lia]).
  destruct (even_half_bounds _ Hn) as [H1 H2].
  destruct (Nat.even (length l)) eqn:Ev.
  - rewrite !(nth_map_default f _ 0 0) by (rewrite sort_list_length; auto). reflexivity.
  - rewrite !(nth_map_default f _ 0 0) by (rewrite sort_list_length; auto). reflexivity.
Qed.

Theorem median_translate (c : R) (l : list R) :
  l <> [] -> median ROps (map (fun x => x + c) l) = median ROps l + c.
Proof.
  intros Hl. rewrite (median_map_increasing (fun x => x + c)) by (assumption || (intros; lra)).
  rewrite median_R. destruct (Nat.even (length l)); [field|reflexivity].
Qed.

Example median_translate_ex : [4; 1; 3] <> ([] : list R).
Proof. discriminate. Qed.

Lemma median_nil : median ROps [] = 0.
Proof. rewrite median_R. simpl. unfold Rdiv. ring. Qed.

Theorem median_scale (a : R) (l : list R) :
  0 < a -> median ROps (map (fun x => a * x) l) = a * median ROps l.
Proof.
  intros Ha. destruct l as [|x0 l0] eqn:El.
  - cbn [map]. rewrite median_nil. ring.
  - rewrite <- El. assert (Hl : l <> []) by (rewrite El; discriminate).
    rewrite (median_map_increasing (fun x => a * x)); [|intros; split; intros; nra|assumption].
    rewrite median_R. destruct (Nat.even (length l)); [field|reflexivity].
Qed.

Example median_scale_ex : 0 < 2.
Proof. lra. Qed.

(** *** Invariance under permutations *)
Lemma Rsum_perm (l l' : list R) : Permutation l l' -> Rsum l = Rsum l'.
Proof.
  induction 1; unfold Rsum in *; simpl; lra.
Qed.

Theorem mean_perm (l l' : list R) :
  Permutation l l' -> arithmetic_mean ROps l = arithmetic_mean ROps l'.
Proof.
  intros HP. rewrite !mean_R, (Rsum_perm _ _ HP), (Permutation_length HP). reflexivity.
Qed.

Theorem variance_perm (l l' : list R) :
  Permutation l l' -> variance ROps l = variance ROps l'.
Proof.
  intros HP. rewrite !variance_R, (mean_perm _ _ HP), (Permutation_length HP). unfold sqdev.
  f_equal. apply Rsum_perm. now apply Permutation_map.
Qed.

Theorem stddev_perm (l l' : list R) :
  Permutation l l' -> standard_deviation ROps l = standard_deviation ROps l'.
Proof. intros HP. rewrite !stddev_R, (variance_perm _ _ HP). reflexivity. Qed.

Theorem median_perm (l l' : list R) :
  Permutation l l' -> median ROps l = median ROps l'.
Proof.
  intros HP. rewrite !median_R, (sort_list_perm_invariant _ _ HP), (Permutation_length HP). reflexivity.
Qed.

Example stats_perm_ex : Permutation [1; 2; 3] [2; 1; 3].
Proof. apply perm_swap. Qed.

(** ** 4. Weighted_Average with equal weights *)
Lemma fold_left_acc_sum0 {A} (g : A -> R) (l : list A) :
  fold_left (fun acc x => acc + g x) l 0 = Rsum (map g l).
Proof. rewrite fold_left_acc_sum. ring. Qed.

Lemma Rsum_map_const {A} (c : R) (l : list A) : Rsum (map (fun _ => c) l) = INR (length l) * c.
Proof.
  induction l as [|x l IH].
  - simpl. ring.
  - cbn [map length]. rewrite S_INR. unfold Rsum in *. simpl. rewrite IH. ring.
Qed.

Lemma powerRZ_2 (x : R) : powerRZ x 2 = x * x.
Proof. simpl. ring. Qed.

(** all weights equal to w <> 0: values xs, data = [(x, w) | x <- xs]; no restriction on the length *)
Lemma weighted_average_const (w : R) (xs : list R) :
  w <> 0 ->
  weighted_average ROps (map (fun x => (x, w)) xs) =
  (arithmetic_mean ROps xs, standard_deviation ROps xs / sqrt (INR (length xs))).
Proof.
  intros Hw. unfold weighted_average. cbv zeta.
  cbn [nadd nsub nmul ndiv nofZ n0 n1 npowi nsqrt ROps].
  rewrite map_length, <- INR_IZR_INZ.
  rewrite !fold_left_acc_sum0, !map_map. cbn [fst snd].
  rewrite (Rsum_map_scale w (fun x => x)), map_id, !Rsum_map_const.
  rewrite stddev_R, variance_R, mean_R.
  destruct xs as [|x0 r] eqn:El.
  - cbn [length INR map Rsum fold_right sqdev]. f_equal; [unfold Rdiv; ring|].
    match goal with |- sqrt ?X = _ => replace X with 0 by (unfold Rdiv; ring) end.
    replace (0 / (0 - 1)) with 0 by (unfold Rdiv; ring).
    rewrite sqrt_0. unfold Rdiv. ring.
  - rewrite <- El. assert (Hl : xs <> []) by (rewrite El; discriminate). clear El.
    pose proof (INR_length_pos xs Hl) as HN.
    set (N := INR (length xs)) in *. set (S0 := Rsum xs).
    assert (E1 : w * S0 / (N * w) = S0 / N) by (field; split; lra).
    assert (E2 : N * w / N = w) by (field; lra).
    rewrite E1, E2. set (m := S0 / N).
    rewrite (Rsum_map_scale (w - w) (fun x => w * x - m * w)).
    rewrite (map_ext (fun x => powerRZ (w * x - m * w) 2) (fun x => (w * w) * ((x - m) * (x - m))))
      by (intros; rewrite powerRZ_2; ring).
    rewrite (Rsum_map_scale (w * w) (fun x => (x - m) * (x - m))). fold (sqdev m xs).
    f_equal. rewrite <- sqrt_div_alt by lra. f_equal.
    rewrite !powerRZ_2. unfold Rdiv.
    generalize (/ (N - 1)). intros I. generalize (sqdev m xs). intros Q.
    field. split; lra.
Qed.

Lemma equal_weights_shape (w : R) (d : list (R * R)) :
  (forall p, In p d -> snd p = w) -> d = map (fun x => (x, w)) (map fst d).
Proof.
  intros H. rewrite map_map. rewrite <- (map_id d) at 1. apply map_ext_in.
  intros [x y] Hin. apply H in Hin. simpl in *. now subst.
Qed.

Theorem weighted_equal_weights_gen (w : R) (d : list (R * R)) :
  w <> 0 -> (forall p, In p d -> snd p = w) ->
  weighted_average ROps d =
  (arithmetic_mean ROps (map fst d), standard_deviation ROps (map fst d) / sqrt (INR (length d))).
Proof.
  intros Hw H. rewrite (equal_weights_shape w d H) at 1.
  rewrite weighted_average_const by assumption. now rewrite map_length.
Qed.

Theorem weighted_equal_weights (w : R) (d : list (R * R)) :
  0 < w -> (2 <= length d)%nat -> (forall p, In p d -> snd p = w) ->
  weighted_average ROps d =
  (arithmetic_mean ROps (map fst d), standard_deviation ROps (map fst d) / sqrt (INR (length d))).
Proof. intros Hw _ H. apply (weighted_equal_weights_gen w); [lra|assumption]. Qed.

Example weighted_equal_weights_ex :
  0 < 2 /\ (2 <= length [(1, 2); (5, 2); (3, 2)])%nat /\
  (forall p, In p [(1, 2); (5, 2); (3, 2)] -> snd p = 2).
Proof.
  split; [lra|]. split; [simpl; lia|]. intros p [<-|[<-|[<-|[]]]]; reflexivity.
Qed.

(** ** Strengthening: the median commutes with every monotone map, and with every antitone map
    (the sorted list is reversed); hence Median(a * l) = a * Median(l) for every real a. *)
Lemma StronglySorted_map_mono (f : R -> R) (s : list R) :
  (forall u v, u <= v -> f u <= f v) -> StronglySorted Rle s -> StronglySorted Rle (map f s).
Proof.
  intros Hf. induction 1 as [|a r Hs IH Hall]; simpl; constructor; [assumption|].
  rewrite Forall_forall in *. intros y Hy. apply in_map_iff in Hy. destruct Hy as [z [<- Hz]]. auto.
Qed.

Theorem sort_list_map_monotone (f : R -> R) (l : list R) :
  (forall u v, u <= v -> f u <= f v) ->
  sort_list ROps (map f l) = map f (sort_list ROps l).
Proof.
  intros Hf. symmetry. apply sort_list_unique.
  - apply StronglySorted_map_mono; [assumption|apply sort_list_strongly_sorted].
  - apply Permutation_map, sort_list_perm.
Qed.

Example sort_list_map_monotone_ex : forall u v : R, u <= v -> 0 * u <= 0 * v.
Proof. intros; lra. Qed.

Lemma StronglySorted_snoc (s : list R) (a : R) :
  StronglySorted Rle s -> Forall (fun y => y <= a) s -> StronglySorted Rle (s ++ [a]).
Proof.
  induction 1 as [|b r Hs IH Hall]; intros HF; simpl.
  - repeat constructor.
  - inversion HF; subst. constructor; [now apply IH|].
    apply Forall_app. split; [assumption|]. constructor; [assumption|constructor].
Qed.

Lemma StronglySorted_rev_map_anti (f : R -> R) (s : list R) :
  (forall u v, u <= v -> f v <= f u) -> StronglySorted Rle s -> StronglySorted Rle (rev (map f s)).
Proof.
  intros Hf. induction 1 as [|a r Hs IH Hall]; simpl; [constructor|].
  apply StronglySorted_snoc; [assumption|].
  rewrite Forall_forall in *. intros y Hy. apply in_rev in Hy. apply in_map_iff in Hy.
  destruct Hy as [z [<- Hz]]. auto.
Qed.

Theorem sort_list_map_antitone (f : R -> R) (l : list R) :
  (forall u v, u <= v -> f v <= f u) ->
  sort_list ROps (map f l) = rev (map f (sort_list ROps l)).
Proof.
  intros Hf. symmetry. apply sort_list_unique.
  - apply StronglySorted_rev_map_anti; [assumption|apply sort_list_strongly_sorted].
  - rewrite <- Permutation_rev. apply Permutation_map, sort_list_perm.
Qed.

Example sort_list_map_antitone_ex : forall u v : R, u <= v -> (-2) * v <= (-2) * u.
Proof. intros; lra. Qed.

Lemma median_map_monotone (f : R -> R) (l : list R) :
  (forall u v, u <= v -> f u <= f v) -> l <> [] ->
  median ROps (map f l) =
  if Nat.even (length l)
  then (f (nth (length l / 2 - 1) (sort_list ROps l) 0) + f (nth (length l / 2) (sort_list ROps l) 0)) / 2
  else f (nth (length l / 2) (sort_list ROps l) 0).
Proof.
  intros Hf Hl. rewrite median_R, map_length, sort_list_map_monotone by assumption.
  assert (Hn : (1 <= length l)%nat) by (destruct l; [congruence|simpl; lia]).
  destruct (even_half_bounds _ Hn) as [H1 H2].
  destruct (Nat.even (length l)) eqn:Ev.
  - rewrite !(nth_map_default f _ 0 0) by (rewrite sort_list_length; auto). reflexivity.
  - rewrite !(nth_map_default f _ 0 0) by (rewrite sort_list_length; auto). reflexivity.
Qed.

Lemma median_map_antitone (f : R -> R) (l : list R) :
  (forall u v, u <= v -> f v <= f u) -> l <> [] ->
  median ROps (map f l) =
  if Nat.even (length l)
  then (f (nth (length l / 2 - 1) (sort_list ROps l) 0) + f (nth (length l / 2) (sort_list ROps l) 0)) / 2
  else f (nth (length l / 2) (sort_list ROps l) 0).
Proof.
  intros Hf Hl. rewrite median_R, map_length, sort_list_map_antitone by assumption.
  assert (Hn : (1 <= length l)%nat) by (destruct l; [congruence|simpl; lia]).
  destruct (even_half_bounds _ Hn) as [H1 H2].
  assert (Hlen : length (map f (sort_list ROps l)) = length l) by (now rewrite map_length, sort_list_length).
  destruct (Nat.even (length l)) eqn:Ev.
  - specialize (H2 eq_refl). apply Nat.even_spec in Ev. destruct Ev as [k Hk].
    rewrite !rev_nth by (rewrite Hlen; assumption). rewrite Hlen.
    assert (Hk2 : (length l / 2 = k)%nat) by (rewrite Hk, Nat.mul_comm; apply Nat.div_mul; lia).
    rewrite Hk2 in *.
    replace (length l - S (k - 1))%nat with k by lia.
    replace (length l - S k)%nat with (k - 1)%nat by lia.
    rewrite !(nth_map_default f _ 0 0) by (rewrite sort_list_length; lia). lra.
  - assert (Od : Nat.odd (length l) = true) by (now rewrite <- Nat.negb_even, Ev).
    apply Nat.odd_spec in Od. destruct Od as [k Hk].
    rewrite !rev_nth by (rewrite Hlen; assumption). rewrite Hlen.
    assert (Hk2 : (length l / 2 = k)%nat).
    { rewrite Hk, Nat.mul_comm, Nat.div_add_l by lia. simpl. lia. }
    rewrite Hk2 in *.
    replace (length l - S k)%nat with k by lia.
    rewrite !(nth_map_default f _ 0 0) by (rewrite sort_list_length; lia). reflexivity.
Qed.

(** Median(a * l) = a * Median(l) for every real a and every list (the empty list included) *)
Theorem median_scale_all (a : R) (l : list R) :
  median ROps (map (fun x => a * x) l) = a * median ROps l.
Proof.
  destruct l as [|x0 l0] eqn:El.
  - cbn [map]. rewrite median_nil. ring.
  - rewrite <- El. assert (Hl : l <> []) by (rewrite El; discriminate).
    destruct (Rle_dec 0 a) as [Ha|Ha].
    + rewrite (median_map_monotone (fun x => a * x)); [|intros; nra|assumption].
      rewrite median_R. destruct (Nat.even (length l)); [field|reflexivity].
    + rewrite (median_map_antitone (fun x => a * x)); [|intros; nra|assumption].
      rewrite median_R. destruct (Nat.even (length l)); [field|reflexivity].
Qed.

(** Median(-l) = - Median(l) *)
Corollary median_opp (l : list R) : median ROps (map Ropp l) = - median ROps l.
Proof.
  rewrite (map_ext Ropp (fun x => (-1) * x)) by (intros; ring).
  rewrite median_scale_all. ring.
Qed.

(** for at least two samples the standard deviation is the genuine square root of the variance *)
Theorem stddev_sqr (l : list R) :
  (2 <= length l)%nat -> standard_deviation ROps l * standard_deviation ROps l = variance ROps l.
Proof. intros H. rewrite stddev_R. apply sqrt_sqrt. now apply variance_nonneg. Qed.

Example stddev_sqr_ex : (2 <= length [1; 4; 2])%nat.
Proof. simpl. lia. Qed.
