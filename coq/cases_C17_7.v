From Coq Require Import Reals Lra.
From Coquelicot Require Import Coquelicot.
From Interval Require Import Tactic.
From LP Require Import NumR C17_Defs.
Open Scope R_scope.
Lemma s3_7 : Rabs (dawson_def (IZR (-15) * powerRZ 2 (1)) - (IZR (-4806514759169403) * powerRZ 2 (-58))) <= 2 / 10000000.
Proof. unfold dawson_def. integral with (i_prec 60). Qed.
Lemma s3_17 : Rabs (dawson_def (IZR (1801439819855661) * powerRZ 2 (-53)) - (IZR (7016645025700277) * powerRZ 2 (-55))) <= 2 / 10000000.
Proof. unfold dawson_def. integral with (i_prec 60). Qed.
Lemma s3_27 : Rabs (dawson_def (IZR (-3678825567609489) * powerRZ 2 (-51)) - (IZR (-1758935854122199) * powerRZ 2 (-52))) <= 2 / 10000000.
Proof. unfold dawson_def. integral with (i_prec 60). Qed.
Lemma s3_37 : Rabs (dawson_def (IZR (1803855034996879) * powerRZ 2 (-53)) - (IZR (7025550845253143) * powerRZ 2 (-55))) <= 2 / 10000000.
Proof. unfold dawson_def. integral with (i_prec 60). Qed.
Lemma s3_47 : Rabs ((IZR (2492788027965985) * powerRZ 2 (79)) - erfi_def (IZR (1357546112100933) * powerRZ 2 (-47))) <= 1 / 1000000 * Rabs (erfi_def (IZR (1357546112100933) * powerRZ 2 (-47))).
Proof. apply rel_error_from_enclosure; [lra|interval|]. unfold erfi_def. split; integral with (i_prec 80). Qed.
Lemma s3_57 : Rerf ((IZR (-8515477945311073) * powerRZ 2 (-53)) - 1 / 10000) < (IZR (-1843729160278951) * powerRZ 2 (-51)) < Rerf ((IZR (-8515477945311073) * powerRZ 2 (-53)) + 1 / 10000).
Proof. unfold Rerf. split; integral with (i_prec 80). Qed.
