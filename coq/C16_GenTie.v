(** * C16 T-tie: the entry formulas that tools/cxx2gallina_C16.py regenerates from clang's AST of src/Linear_Algebra.cpp on every run
    (coq/Gen_C16_Formulas.v) ARE the hand model, for every number type.  A change of a sign, an index, an operand or the operation
    order in one of these initialiser lists breaks these lemmas before any case is run. *)
From Coq Require Import ZArith List Bool.
From LP Require Import Num C16_Model Gen_C16_Formulas.
Import ListNotations.

Section Tie.
Context {T : Type} (Ops : NumOps T).
(** Rotation_Matrix, dim == 2: {{cosa, -sina}, {sina, cosa}} with cosa = cos(alpha), sina = sin(alpha) *)
Lemma gen_rot2_is_model alpha axis : rotation_matrix Ops alpha 2 axis = Ok (g_rot2 Ops alpha).
Proof. reflexivity. Qed.
(** Rotation_Matrix, dim == 3: the nine Rodrigues entries over n1 = axis[0], n2 = axis[1], n3 = axis[2] of the normalised axis *)
Lemma gen_rot3_is_model alpha a0 a1 a2 :
  rotation_matrix Ops alpha 3 [a0; a1; a2] =
    Ok (let ax := vnormalized Ops [a0; a1; a2] in g_rot3 Ops alpha (nth0 Ops ax 0) (nth0 Ops ax 1) (nth0 Ops ax 2)).
Proof. reflexivity. Qed.
(** Spherical_Coordinates(r, theta, phi) *)
Lemma gen_sph_is_model r theta phi : spherical Ops r theta phi = g_sph Ops r theta phi.
Proof. reflexivity. Qed.
(** Spherical_Coordinates(r, theta, phi, axis): the antiparallel branch and the unit vector of the general branch (scaled by r with operator* ) *)
Lemma gen_sph_antiparallel_is_model r theta phi : spherical_antiparallel Ops r theta phi = g_sph_antiparallel Ops r theta phi.
Proof. reflexivity. Qed.
Lemma gen_sph_unit_is_model r theta phi ev0 ev1 ev2 aux :
  spherical_general Ops r theta phi ev0 ev1 ev2 aux = vscale_left Ops r (g_sph_unit Ops theta phi ev0 ev1 ev2 aux).
Proof. reflexivity. Qed.
End Tie.
