(** * C17 T-tie, second part: Round, Dawson_Integral, Erfi and Inv_Erf regenerated from src/Special_Functions.cpp on every run
    (Gen_C17_More.v, tools/cxx2gallina_C17.py) are the hand model of C17_Model.v.

    The generated terms spell every literal as [nlit Ops num den m e] (exact value num/den, double m*2^e); the hand model writes
    [nofZ Ops k] and [ndec Ops num den].  The two agree in every arithmetic that satisfies the literal laws [LitLaws]: a literal is
    the quotient of its numerator and denominator, an integer literal is the integer.  The laws hold in the reals ([ROps_LitLaws]:
    the instance all analytic theorems of C17 are about); in the double instance they hold because an IEEE division of two exactly
    representable integers is the correctly rounded quotient, which is what the compiler makes of the literal - that instance exists
    only in OCaml, where the correspondence run compares the hand model with the library.
    Dawson_Integral: the translator turns [static std::vector<double> c(NMAX)] into explicit state (table at entry -> table at exit,
    result) and unrolls the two counted loops (bound = the [static const int NMAX = 6] of the source); the generated term is the
    stateful hand model [dawson_st], whose Fixpoints run with fuel 6.
    A changed formula, comparison, guard, literal, loop bound, increment or operand order in one of these C++ functions changes the
    generated term and breaks the corresponding lemma below before any case is run. *)
From Coq Require Import ZArith Bool List Reals.
From LP Require Import Num NumR Gen_C17_Formulas Gen_C17_More C17_Model.
Import ListNotations.
Local Open Scope Z_scope.

Section Tie.
Context {T : Type} (Ops : NumOps T).

Record LitLaws : Prop := {
  lit_is_quotient : forall num den m e, nlit Ops num den m e = ndec Ops num den;
  lit_integer : forall k m e, nlit Ops k 1 m e = nofZ Ops k;
  ofZ_0 : nofZ Ops 0 = n0 Ops;
  ofZ_1 : nofZ Ops 1 = n1 Ops }.

Hypothesis LL : LitLaws.
Variable pi_c : T.
Variables (sign_f : T -> Z) (sign2_f : T -> T -> T) (dawson_f : T -> T) (find_root_f : (T -> T) -> T -> T -> T -> res T).

Lemma rbind_ok_id (A : Type) (r : res A) : rbind r (fun h => Ok h) = r.
Proof. destruct r; reflexivity. Qed.

Lemma gupd_upd (l : list T) (i : nat) (v : T) : gupd l i v = upd l i v.
Proof. revert i. induction l as [|h t IH]; intros [|i]; cbn; try reflexivity. now rewrite IH. Qed.

Ltac norm := rewrite ?(lit_integer LL), ?rbind_ok_id, ?(lit_is_quotient LL), ?gupd_upd.

(** the two Sign overloads of Gen_C17_Formulas.v are [sign1] / [sign2] of Num.v (used by the hand models of Find_Root and Dawson_Integral) *)
Lemma tie_Sign x : g_Sign Ops x = sign1 Ops x.
Proof. unfold g_Sign, sign1, ngtb. rewrite !(lit_integer LL), (ofZ_0 LL). reflexivity. Qed.

Lemma tie_Sign2 x y : g_Sign2 Ops x y = sign2 Ops x y.
Proof. unfold g_Sign2, sign2. rewrite !tie_Sign, (lit_integer LL), (ofZ_1 LL). reflexivity. Qed.

Lemma tie_Round N digits :
  g_Round Ops pi_c (g_Sign Ops) sign2_f dawson_f find_root_f N digits = round Ops N digits.
Proof. unfold g_Round, round, gu32. norm. reflexivity. Qed.

Lemma tie_Erfi x :
  g_Erfi Ops pi_c sign_f sign2_f (dawson Ops) find_root_f x = erfi Ops pi_c x.
Proof. unfold g_Erfi, erfi. norm. reflexivity. Qed.

Lemma tie_Inv_Erf p :
  g_Inv_Erf Ops pi_c sign_f sign2_f dawson_f find_root_f p = inv_erf Ops find_root_f p.
Proof. unfold g_Inv_Erf, inv_erf. norm. reflexivity. Qed.

Lemma tie_Dawson_Integral c x :
  g_Dawson_Integral Ops pi_c sign_f (g_Sign2 Ops) dawson_f find_root_f c x = dawson_st Ops c x.
Proof.
  unfold g_Dawson_Integral, dawson_st, daw_fill, daw_loop_st, daw_c, daw_H.
  rewrite tie_Sign2. norm. unfold ndec. reflexivity.
Qed.

(** Erfi over the stateful Dawson_Integral: the generated Erfi applied to the generated Dawson_Integral (value component) *)
Lemma tie_Erfi_st c x :
  (let cy := g_Dawson_Integral Ops pi_c sign_f (g_Sign2 Ops) dawson_f find_root_f c x in
   (fst cy, g_Erfi Ops pi_c sign_f sign2_f (fun _ => snd cy) find_root_f x)) = erfi_st Ops pi_c c x.
Proof. cbv zeta. rewrite tie_Dawson_Integral. unfold g_Erfi, erfi_st. norm. reflexivity. Qed.

End Tie.

(** The literal laws hold in the reals: non-vacuity of [LitLaws], and the instance the analytic theorems use. *)
Lemma ROps_LitLaws : LitLaws ROps.
Proof.
  split; cbn; intros; try reflexivity.
  unfold Rdiv. rewrite Rinv_1. ring.
Qed.

Theorem generated_more_are_model :
  LitLaws ROps /\
  forall (T : Type) (Ops : NumOps T), LitLaws Ops ->
  forall (pi_c : T) (sign_f : T -> Z) (sign2_f : T -> T -> T) (dawson_f : T -> T) (FR : (T -> T) -> T -> T -> T -> res T),
  (forall x, g_Sign Ops x = sign1 Ops x) /\
  (forall x y, g_Sign2 Ops x y = sign2 Ops x y) /\
  (forall N digits, g_Round Ops pi_c (g_Sign Ops) sign2_f dawson_f FR N digits = round Ops N digits) /\
  (forall c x, g_Dawson_Integral Ops pi_c sign_f (g_Sign2 Ops) dawson_f FR c x = dawson_st Ops c x) /\
  (forall x, g_Erfi Ops pi_c sign_f sign2_f (dawson Ops) FR x = erfi Ops pi_c x) /\
  (forall c x, (let cy := g_Dawson_Integral Ops pi_c sign_f (g_Sign2 Ops) dawson_f FR c x in
                (fst cy, g_Erfi Ops pi_c sign_f sign2_f (fun _ => snd cy) FR x)) = erfi_st Ops pi_c c x) /\
  (forall p, g_Inv_Erf Ops pi_c sign_f sign2_f dawson_f FR p = inv_erf Ops FR p).
Proof.
  split; [exact ROps_LitLaws|]. intros T Ops LL pi_c sf s2f df FR.
  repeat split; intros.
  - apply tie_Sign, LL.
  - apply tie_Sign2, LL.
  - apply tie_Round, LL.
  - apply tie_Dawson_Integral, LL.
  - apply tie_Erfi, LL.
  - apply (tie_Erfi_st Ops LL).
  - apply tie_Inv_Erf, LL.
Qed.

(** the generated Dawson_Integral, called with ANY table of six entries (whatever earlier calls left in it), returns the value of the
    pure model [dawson] the accuracy / oddness theorems are about *)
Lemma generated_dawson_value {T} (Ops : NumOps T) (LL : LitLaws Ops) pi_c sign_f dawson_f FR (c : list T) (x : T) :
  snd (g_Dawson_Integral Ops pi_c sign_f (g_Sign2 Ops) dawson_f FR c x) = snd (dawson_st Ops c x).
Proof. now rewrite (tie_Dawson_Integral Ops LL). Qed.
