(** C16 — property theorems only.  Each is closed by [exact] of a lemma proved in C16_Proofs.v.
    The model functions ([rotation_matrix], [spherical], [spherical_axis], [mmul], [mvec], [vnorm]) are the terms of
    C16_Model.v that are extracted and run against the library; [ROps] is the real-number instance; [Rhypot x y] is
    sqrt(x*x+y*y), the specification of std::hypot.  Vocabulary (C16_Proofs.v): [nhat a] = a/|a|, [dot3], [cross3],
    [vscal], [vplus], [mtr] (transpose), [I2], [I3], [det2], [det3], [nonzero3 a0 a1 a2] = some component is non-zero,
    [right_handed_frame e1 e2 e3] = orthonormal with e1 x e2 = e3,
    [in_frame r s c phi e1 e2 ev] = r (s cos(phi) e1 + s sin(phi) e2 + c ev). *)
From Coq Require Import Reals ZArith List.
From Coquelicot Require Import Coquelicot.
From LP Require Import Num NumR C16_Model C16_Proofs.
Import ListNotations.
Local Open Scope R_scope.

(** "Rotation_Matrix(alpha,2) is a proper orthogonal matrix (transpose equals inverse, determinant one) for every angle":
    the call returns [[cos,-sin],[sin,cos]], R^T R = R R^T = 1, det R = 1. *)
Theorem C16_rotation2_proper_orthogonal (alpha : R) (axis : list R) :
  exists Rm, rotation_matrix ROps alpha 2 axis = Ok Rm /\
    Rm = [[cos alpha; - sin alpha]; [sin alpha; cos alpha]] /\
    mmul ROps (mtr Rm) Rm = I2 /\ mmul ROps Rm (mtr Rm) = I2 /\ det2 Rm = 1.
Proof. exact (rot2_spec alpha axis). Qed.
Print Assumptions C16_rotation2_proper_orthogonal.

(** 2-D: turns every vector counter-clockwise (right-handed) by alpha, and rotations compose by adding angles. *)
Theorem C16_rotation2_apply (alpha : R) (axis : list R) (Rm : list (list R)) (v0 v1 : R) :
  rotation_matrix ROps alpha 2 axis = Ok Rm ->
  mvec ROps Rm [v0; v1] = [cos alpha * v0 - sin alpha * v1; sin alpha * v0 + cos alpha * v1].
Proof. exact (rot2_apply alpha axis Rm v0 v1). Qed.
Print Assumptions C16_rotation2_apply.
Theorem C16_rotation2_composes (alpha beta : R) (ax1 ax2 ax3 : list R) (Ra Rb Rab : list (list R)) :
  rotation_matrix ROps alpha 2 ax1 = Ok Ra -> rotation_matrix ROps beta 2 ax2 = Ok Rb ->
  rotation_matrix ROps (alpha + beta) 2 ax3 = Ok Rab -> mmul ROps Ra Rb = Rab.
Proof. exact (rot2_compose alpha beta ax1 ax2 ax3 Ra Rb Rab). Qed.
Print Assumptions C16_rotation2_composes.

(** "Rotation_Matrix(alpha,3,axis) is a proper orthogonal matrix for every angle and every non-zero axis of any length" *)
Theorem C16_rotation3_returns (alpha a0 a1 a2 : R) :
  exists Rm, rotation_matrix ROps alpha 3 [a0; a1; a2] = Ok Rm.
Proof. exact (rot3_returns alpha a0 a1 a2). Qed.
Print Assumptions C16_rotation3_returns.
Theorem C16_rotation3_orthogonal (alpha a0 a1 a2 : R) (Rm : list (list R)) :
  nonzero3 a0 a1 a2 -> rotation_matrix ROps alpha 3 [a0; a1; a2] = Ok Rm ->
  mmul ROps (mtr Rm) Rm = I3 /\ mmul ROps Rm (mtr Rm) = I3.
Proof. exact (fun H => rot3_orthogonal alpha a0 a1 a2 H Rm). Qed.
Print Assumptions C16_rotation3_orthogonal.
Theorem C16_rotation3_det_one (alpha a0 a1 a2 : R) (Rm : list (list R)) :
  nonzero3 a0 a1 a2 -> rotation_matrix ROps alpha 3 [a0; a1; a2] = Ok Rm -> det3 Rm = 1.
Proof. exact (fun H => rot3_det alpha a0 a1 a2 H Rm). Qed.
Print Assumptions C16_rotation3_det_one.

(** "the 3D rotation leaves the axis fixed": both the unit vector along the axis and the axis itself *)
Theorem C16_rotation3_axis_fixed (alpha a0 a1 a2 : R) (Rm : list (list R)) :
  nonzero3 a0 a1 a2 -> rotation_matrix ROps alpha 3 [a0; a1; a2] = Ok Rm ->
  mvec ROps Rm (nhat [a0; a1; a2]) = nhat [a0; a1; a2] /\ mvec ROps Rm [a0; a1; a2] = [a0; a1; a2].
Proof. exact (fun H E => conj (rot3_axis_fixed alpha a0 a1 a2 H Rm E) (rot3_axis_itself_fixed alpha a0 a1 a2 H Rm E)). Qed.
Print Assumptions C16_rotation3_axis_fixed.

(** "turns vectors perpendicular to it by alpha in the right-handed sense": R v = cos(alpha) v + sin(alpha) (n x v) *)
Theorem C16_rotation3_perpendicular_turned (alpha a0 a1 a2 : R) (Rm : list (list R)) (v0 v1 v2 : R) :
  nonzero3 a0 a1 a2 -> rotation_matrix ROps alpha 3 [a0; a1; a2] = Ok Rm ->
  dot3 [a0; a1; a2] [v0; v1; v2] = 0 ->
  mvec ROps Rm [v0; v1; v2] =
  vplus (vscal (cos alpha) [v0; v1; v2]) (vscal (sin alpha) (cross3 (nhat [a0; a1; a2]) [v0; v1; v2])).
Proof. exact (fun H E => rot3_perpendicular alpha a0 a1 a2 H Rm v0 v1 v2 E). Qed.
Print Assumptions C16_rotation3_perpendicular_turned.
(** and every vector by Rodrigues' formula *)
Theorem C16_rotation3_rodrigues (alpha a0 a1 a2 : R) (Rm : list (list R)) (v0 v1 v2 : R) :
  rotation_matrix ROps alpha 3 [a0; a1; a2] = Ok Rm ->
  let n := nhat [a0; a1; a2] in let v := [v0; v1; v2] in
  mvec ROps Rm v = vplus (vplus (vscal (cos alpha) v) (vscal (sin alpha) (cross3 n v))) (vscal ((1 - cos alpha) * dot3 n v) n).
Proof. exact (rot3_rodrigues alpha a0 a1 a2 Rm v0 v1 v2). Qed.
Print Assumptions C16_rotation3_rodrigues.

(** "rotations about the same axis compose by adding angles" *)
Theorem C16_rotation3_same_axis_composes (alpha beta a0 a1 a2 : R) (Ra Rb Rab : list (list R)) :
  nonzero3 a0 a1 a2 ->
  rotation_matrix ROps alpha 3 [a0; a1; a2] = Ok Ra -> rotation_matrix ROps beta 3 [a0; a1; a2] = Ok Rb ->
  rotation_matrix ROps (alpha + beta) 3 [a0; a1; a2] = Ok Rab -> mmul ROps Ra Rb = Rab.
Proof. exact (rot3_compose alpha beta a0 a1 a2 Ra Rb Rab). Qed.
Print Assumptions C16_rotation3_same_axis_composes.

(** "without axis it is (r sin(theta) cos(phi), r sin(theta) sin(phi), r cos(theta))" *)
Theorem C16_spherical_plain_formula (r theta phi : R) :
  spherical ROps r theta phi = [r * sin theta * cos phi; r * sin theta * sin phi; r * cos theta].
Proof. exact (spherical_plain r theta phi). Qed.
Print Assumptions C16_spherical_plain_formula.

(** The guard theorem: "for every non-zero axis, including axes parallel and antiparallel to z" the call reaches a branch
    whose formula is well defined: the normalised axis is +z (plain formula), or -z (mirrored formula), or aux <> 0
    (general formula, which divides by aux). *)
Theorem C16_spherical_axis_guard (r theta phi a0 a1 a2 : R) : nonzero3 a0 a1 a2 ->
  let ev := nhat [a0; a1; a2] in
  let aux := sqrt (cx ev * cx ev + cy ev * cy ev) in
  (ev = [0; 0; 1] /\ spherical_axis ROps Rhypot r theta phi [a0; a1; a2] = Ok (spherical ROps r theta phi)) \/
  (ev = [0; 0; -1] /\ spherical_axis ROps Rhypot r theta phi [a0; a1; a2] = Ok (spherical_antiparallel ROps r theta phi)) \/
  (aux <> 0 /\ aux * aux = cx ev * cx ev + cy ev * cy ev /\
   spherical_axis ROps Rhypot r theta phi [a0; a1; a2] = Ok (spherical_general ROps r theta phi (cx ev) (cy ev) (cz ev) aux)).
Proof. exact (spherical_axis_guard r theta phi a0 a1 a2). Qed.
Print Assumptions C16_spherical_axis_guard.

(** The frame theorem: for every non-zero axis there is a right-handed orthonormal frame (e1, e2, ev), ev the normalised
    axis, depending on the axis only, in which the result has the plain spherical coordinates (r, theta, phi) — for all
    r, theta, phi.  It implies the three clauses below. *)
Theorem C16_spherical_axis_frame (a0 a1 a2 : R) : nonzero3 a0 a1 a2 ->
  let ev := nhat [a0; a1; a2] in
  exists e1 e2, right_handed_frame e1 e2 ev /\
    forall r theta phi, exists u, spherical_axis ROps Rhypot r theta phi [a0; a1; a2] = Ok u /\
      u = in_frame r (sin theta) (cos theta) phi e1 e2 ev.
Proof. exact (spherical_axis_frame a0 a1 a2). Qed.
Print Assumptions C16_spherical_axis_frame.

(** "returns a vector of norm r": |u|^2 = r^2, and the library's own Norm() gives r for r >= 0 *)
Theorem C16_spherical_axis_norm_is_r (r theta phi a0 a1 a2 : R) (u : list R) : nonzero3 a0 a1 a2 ->
  spherical_axis ROps Rhypot r theta phi [a0; a1; a2] = Ok u ->
  dot3 u u = r * r /\ (0 <= r -> vnorm ROps u = r).
Proof. exact (fun H => spherical_axis_norm a0 a1 a2 H r theta phi u). Qed.
Print Assumptions C16_spherical_axis_norm_is_r.

(** "at polar angle theta from the axis": the component along the normalised axis is r cos(theta)
    (with the norm r, the angle between u and the axis is theta for theta in [0,pi]) *)
Theorem C16_spherical_axis_polar_angle (r theta phi a0 a1 a2 : R) (u : list R) : nonzero3 a0 a1 a2 ->
  spherical_axis ROps Rhypot r theta phi [a0; a1; a2] = Ok u ->
  dot3 u (nhat [a0; a1; a2]) = r * cos theta.
Proof. exact (fun H => spherical_axis_polar a0 a1 a2 H r theta phi u). Qed.
Print Assumptions C16_spherical_axis_polar_angle.

(** "increasing phi moves it around the axis in the right-handed sense": with d = du/dphi (component-wise derivative of the
    model's result as a function of phi), (ev x u) . d = r^2 sin^2(theta) >= 0 *)
Theorem C16_spherical_axis_right_handed_in_phi (r theta phi a0 a1 a2 : R) (u : list R) : nonzero3 a0 a1 a2 ->
  spherical_axis ROps Rhypot r theta phi [a0; a1; a2] = Ok u ->
  exists d0 d1 d2,
    is_derive (sph_comp a0 a1 a2 r theta 0) phi d0 /\ is_derive (sph_comp a0 a1 a2 r theta 1) phi d1 /\
    is_derive (sph_comp a0 a1 a2 r theta 2) phi d2 /\
    dot3 (cross3 (nhat [a0; a1; a2]) u) [d0; d1; d2] = r * r * (sin theta * sin theta).
Proof. exact (fun H => spherical_axis_right_handed a0 a1 a2 H r theta phi u). Qed.
Print Assumptions C16_spherical_axis_right_handed_in_phi.

(** Non-vacuity of the hypotheses: a non-zero axis, a perpendicular pair, and one axis in each branch of the guard theorem. *)
Theorem C16_nonvacuous :
  nonzero3 1 2 2 /\ (nonzero3 0 0 1 /\ dot3 [0; 0; 1] [1; 0; 0] = 0) /\
  (nonzero3 0 0 2 /\ nhat [0; 0; 2] = [0; 0; 1]) /\ (nonzero3 0 0 (-3) /\ nhat [0; 0; -3] = [0; 0; -1]) /\
  (nonzero3 3 0 4 /\ Rhypot (cx (nhat [3; 0; 4])) (cy (nhat [3; 0; 4])) <> 0).
Proof. exact (conj ex_nonzero (conj ex_perpendicular (conj ex_branch_plain (conj ex_branch_antiparallel ex_branch_general)))). Qed.
Print Assumptions C16_nonvacuous.
