(** C16 — property theorems only.  Each is closed by [exact] of a lemma proved in C16_Proofs.v.
    The model functions ([rotation_matrix], [spherical], [spherical_axis], [mmul], [mvec], [vnorm]) are the terms of
    C16_Model.v that are extracted and run against the library; [ROps] is the real-number instance; [Rhypot x y] is
    sqrt(x*x+y*y), the specification of std::hypot.  Vocabulary (C16_Proofs.v): [nhat a] = a/|a|, [dot3], [cross3],
    [vscal], [vplus], [mtr] (transpose), [I2], [I3], [det2], [det3], [nonzero3 a0 a1 a2] = some component is non-zero,
    [right_handed_frame e1 e2 e3] = orthonormal with e1 x e2 = e3,
    [in_frame r s c phi e1 e2 ev] = r (s cos(phi) e1 + s sin(phi) e2 + c ev).
    Second part (C16_Proofs_Hist.v): argument objects with a call history.  [vstep] is one step in the life of a Vector object
    (a write, +=, -=, an assignment, Resize, Normalize, ..., or a question: Norm, Dot, Angle, an earlier Rotation_Matrix /
    Spherical_Coordinates call with the object), [vhistory start h] the object after the history h, [rotation_of_object] /
    [spherical_of_object] the call with that object; [angle] is Angle, [vecm w M] the library's w * M.
    Third part (C16_Proofs_Seq.v): histories of calls in one process.  [call] is one call of Rotation_Matrix (with an axis or with
    the default axis), of either Spherical_Coordinates or of Angle, [call_answer c] its answer, [calls_run cs] the answers of the
    calls cs made one after the other in one process (the source keeps nothing between two calls, so neither does the model).
    Fourth part (C16_Proofs_Chain.v, C16_Proofs_Angle.v): [rot_chain dim fs] is the model of P = Identity_Matrix(dim); P = P * Rotation_Matrix(alpha_k, dim, axis_k)
    for the list fs of (alpha_k, axis_k), [angle_sum] of sum = 0.0; sum += alpha_k; [proper3 m] = m is 3x3, m^T m = m m^T = 1, det m = 1;
    [axis3_nonzero ax] = ax is a 3-vector with a non-zero component; [along a0 a1 a2 ax] = ax is a positive multiple of (a0, a1, a2);
    [nonzero_vec a] = some component of the list a is non-zero.
    Fifth part (C16_Proofs_Det.v): [mdet] / [mtrace] are the models of the library's own Matrix::Determinant() (recursive Laplace expansion along
    the first row) and Matrix::Trace(); [rotation_det_trace alpha dim axis] / [rot_chain_det_trace dim fs] = (Determinant(), Trace()) of
    Rotation_Matrix(alpha, dim, axis) / of the product of the chain fs; [wf_square n m] = m has n rows of n entries. *)
From Coq Require Import Reals ZArith List.
From Coquelicot Require Import Coquelicot.
From LP Require Import Num NumR C16_Model C16_Proofs C16_Proofs_Hist C16_Proofs_Seq C16_Proofs_Chain C16_Proofs_Angle C16_Proofs_HistDir C16_Proofs_Det.
Import ListNotations.
Local Open Scope R_scope.

(** "Rotation_Matrix(alpha,2) is a proper orthogonal matrix (transpose equals inverse, determinant one) for every angle":
    the call returns [[cos,-sin],[sin,cos]], R^T R = R R^T = 1, det R = 1. *)
Theorem C16_rotation2_proper_orthogonal (alpha : R) (axis : list R) :
  exists Rm, rotation_matrix ROps alpha 2 axis = Ok Rm /\
    Rm = [[cos alpha; - sin alpha]; [sin alpha; cos alpha]] /\
    mmul ROps (mtr Rm) Rm = I2 /\ mmul ROps Rm (mtr Rm) = I2 /\ det2 Rm = 1.
Proof. exact (rot2_spec alpha axis). Qed.
Print Assumptions C16_rotation2_proper_orthogonal.

(** 2-D: turns every vector counter-clockwise (right-handed) by alpha, and rotations compose by adding angles. *)
Theorem C16_rotation2_apply (alpha : R) (axis : list R) (Rm : list (list R)) (v0 v1 : R) :
  rotation_matrix ROps alpha 2 axis = Ok Rm ->
  mvec ROps Rm [v0; v1] = [cos alpha * v0 - sin alpha * v1; sin alpha * v0 + cos alpha * v1].
Proof. exact (rot2_apply alpha axis Rm v0 v1). Qed.
Print Assumptions C16_rotation2_apply.
Theorem C16_rotation2_composes (alpha beta : R) (ax1 ax2 ax3 : list R) (Ra Rb Rab : list (list R)) :
  rotation_matrix ROps alpha 2 ax1 = Ok Ra -> rotation_matrix ROps beta 2 ax2 = Ok Rb ->
  rotation_matrix ROps (alpha + beta) 2 ax3 = Ok Rab -> mmul ROps Ra Rb = Rab.
Proof. exact (rot2_compose alpha beta ax1 ax2 ax3 Ra Rb Rab). Qed.
Print Assumptions C16_rotation2_composes.

(** "Rotation_Matrix(alpha,3,axis) is a proper orthogonal matrix for every angle and every non-zero axis of any length" *)
Theorem C16_rotation3_returns (alpha a0 a1 a2 : R) :
  exists Rm, rotation_matrix ROps alpha 3 [a0; a1; a2] = Ok Rm.
Proof. exact (rot3_returns alpha a0 a1 a2). Qed.
Print Assumptions C16_rotation3_returns.
Theorem C16_rotation3_orthogonal (alpha a0 a1 a2 : R) (Rm : list (list R)) :
  nonzero3 a0 a1 a2 -> rotation_matrix ROps alpha 3 [a0; a1; a2] = Ok Rm ->
  mmul ROps (mtr Rm) Rm = I3 /\ mmul ROps Rm (mtr Rm) = I3.
Proof. exact (fun H => rot3_orthogonal alpha a0 a1 a2 H Rm). Qed.
Print Assumptions C16_rotation3_orthogonal.
Theorem C16_rotation3_det_one (alpha a0 a1 a2 : R) (Rm : list (list R)) :
  nonzero3 a0 a1 a2 -> rotation_matrix ROps alpha 3 [a0; a1; a2] = Ok Rm -> det3 Rm = 1.
Proof. exact (fun H => rot3_det alpha a0 a1 a2 H Rm). Qed.
Print Assumptions C16_rotation3_det_one.

(** "the 3D rotation leaves the axis fixed": both the unit vector along the axis and the axis itself *)
Theorem C16_rotation3_axis_fixed (alpha a0 a1 a2 : R) (Rm : list (list R)) :
  nonzero3 a0 a1 a2 -> rotation_matrix ROps alpha 3 [a0; a1; a2] = Ok Rm ->
  mvec ROps Rm (nhat [a0; a1; a2]) = nhat [a0; a1; a2] /\ mvec ROps Rm [a0; a1; a2] = [a0; a1; a2].
Proof. exact (fun H E => conj (rot3_axis_fixed alpha a0 a1 a2 H Rm E) (rot3_axis_itself_fixed alpha a0 a1 a2 H Rm E)). Qed.
Print Assumptions C16_rotation3_axis_fixed.

(** "turns vectors perpendicular to it by alpha in the right-handed sense": R v = cos(alpha) v + sin(alpha) (n x v) *)
Theorem C16_rotation3_perpendicular_turned (alpha a0 a1 a2 : R) (Rm : list (list R)) (v0 v1 v2 : R) :
  nonzero3 a0 a1 a2 -> rotation_matrix ROps alpha 3 [a0; a1; a2] = Ok Rm ->
  dot3 [a0; a1; a2] [v0; v1; v2] = 0 ->
  mvec ROps Rm [v0; v1; v2] =
  vplus (vscal (cos alpha) [v0; v1; v2]) (vscal (sin alpha) (cross3 (nhat [a0; a1; a2]) [v0; v1; v2])).
Proof. exact (fun H E => rot3_perpendicular alpha a0 a1 a2 H Rm v0 v1 v2 E). Qed.
Print Assumptions C16_rotation3_perpendicular_turned.
(** and every vector by Rodrigues' formula *)
Theorem C16_rotation3_rodrigues (alpha a0 a1 a2 : R) (Rm : list (list R)) (v0 v1 v2 : R) :
  rotation_matrix ROps alpha 3 [a0; a1; a2] = Ok Rm ->
  let n := nhat [a0; a1; a2] in let v := [v0; v1; v2] in
  mvec ROps Rm v = vplus (vplus (vscal (cos alpha) v) (vscal (sin alpha) (cross3 n v))) (vscal ((1 - cos alpha) * dot3 n v) n).
Proof. exact (rot3_rodrigues alpha a0 a1 a2 Rm v0 v1 v2). Qed.
Print Assumptions C16_rotation3_rodrigues.

(** "rotations about the same axis compose by adding angles" *)
Theorem C16_rotation3_same_axis_composes (alpha beta a0 a1 a2 : R) (Ra Rb Rab : list (list R)) :
  nonzero3 a0 a1 a2 ->
  rotation_matrix ROps alpha 3 [a0; a1; a2] = Ok Ra -> rotation_matrix ROps beta 3 [a0; a1; a2] = Ok Rb ->
  rotation_matrix ROps (alpha + beta) 3 [a0; a1; a2] = Ok Rab -> mmul ROps Ra Rb = Rab.
Proof. exact (rot3_compose alpha beta a0 a1 a2 Ra Rb Rab). Qed.
Print Assumptions C16_rotation3_same_axis_composes.

(** "without axis it is (r sin(theta) cos(phi), r sin(theta) sin(phi), r cos(theta))" *)
Theorem C16_spherical_plain_formula (r theta phi : R) :
  spherical ROps r theta phi = [r * sin theta * cos phi; r * sin theta * sin phi; r * cos theta].
Proof. exact (spherical_plain r theta phi). Qed.
Print Assumptions C16_spherical_plain_formula.

(** The guard theorem: "for every non-zero axis, including axes parallel and antiparallel to z" the call reaches a branch
    whose formula is well defined: the normalised axis is +z (plain formula), or -z (mirrored formula), or aux <> 0
    (general formula, which divides by aux). *)
Theorem C16_spherical_axis_guard (r theta phi a0 a1 a2 : R) : nonzero3 a0 a1 a2 ->
  let ev := nhat [a0; a1; a2] in
  let aux := sqrt (cx ev * cx ev + cy ev * cy ev) in
  (ev = [0; 0; 1] /\ spherical_axis ROps Rhypot r theta phi [a0; a1; a2] = Ok (spherical ROps r theta phi)) \/
  (ev = [0; 0; -1] /\ spherical_axis ROps Rhypot r theta phi [a0; a1; a2] = Ok (spherical_antiparallel ROps r theta phi)) \/
  (aux <> 0 /\ aux * aux = cx ev * cx ev + cy ev * cy ev /\
   spherical_axis ROps Rhypot r theta phi [a0; a1; a2] = Ok (spherical_general ROps r theta phi (cx ev) (cy ev) (cz ev) aux)).
Proof. exact (spherical_axis_guard r theta phi a0 a1 a2). Qed.
Print Assumptions C16_spherical_axis_guard.

(** The frame theorem: for every non-zero axis there is a right-handed orthonormal frame (e1, e2, ev), ev the normalised
    axis, depending on the axis only, in which the result has the plain spherical coordinates (r, theta, phi) — for all
    r, theta, phi.  It implies the three clauses below. *)
Theorem C16_spherical_axis_frame (a0 a1 a2 : R) : nonzero3 a0 a1 a2 ->
  let ev := nhat [a0; a1; a2] in
  exists e1 e2, right_handed_frame e1 e2 ev /\
    forall r theta phi, exists u, spherical_axis ROps Rhypot r theta phi [a0; a1; a2] = Ok u /\
      u = in_frame r (sin theta) (cos theta) phi e1 e2 ev.
Proof. exact (spherical_axis_frame a0 a1 a2). Qed.
Print Assumptions C16_spherical_axis_frame.

(** "returns a vector of norm r": |u|^2 = r^2, and the library's own Norm() gives r for r >= 0 *)
Theorem C16_spherical_axis_norm_is_r (r theta phi a0 a1 a2 : R) (u : list R) : nonzero3 a0 a1 a2 ->
  spherical_axis ROps Rhypot r theta phi [a0; a1; a2] = Ok u ->
  dot3 u u = r * r /\ (0 <= r -> vnorm ROps u = r).
Proof. exact (fun H => spherical_axis_norm a0 a1 a2 H r theta phi u). Qed.
Print Assumptions C16_spherical_axis_norm_is_r.

(** "at polar angle theta from the axis": the component along the normalised axis is r cos(theta)
    (with the norm r, the angle between u and the axis is theta for theta in [0,pi]) *)
Theorem C16_spherical_axis_polar_angle (r theta phi a0 a1 a2 : R) (u : list R) : nonzero3 a0 a1 a2 ->
  spherical_axis ROps Rhypot r theta phi [a0; a1; a2] = Ok u ->
  dot3 u (nhat [a0; a1; a2]) = r * cos theta.
Proof. exact (fun H => spherical_axis_polar a0 a1 a2 H r theta phi u). Qed.
Print Assumptions C16_spherical_axis_polar_angle.

(** "increasing phi moves it around the axis in the right-handed sense": with d = du/dphi (component-wise derivative of the
    model's result as a function of phi), (ev x u) . d = r^2 sin^2(theta) >= 0 *)
Theorem C16_spherical_axis_right_handed_in_phi (r theta phi a0 a1 a2 : R) (u : list R) : nonzero3 a0 a1 a2 ->
  spherical_axis ROps Rhypot r theta phi [a0; a1; a2] = Ok u ->
  exists d0 d1 d2,
    is_derive (sph_comp a0 a1 a2 r theta 0) phi d0 /\ is_derive (sph_comp a0 a1 a2 r theta 1) phi d1 /\
    is_derive (sph_comp a0 a1 a2 r theta 2) phi d2 /\
    dot3 (cross3 (nhat [a0; a1; a2]) u) [d0; d1; d2] = r * r * (sin theta * sin theta).
Proof. exact (fun H => spherical_axis_right_handed a0 a1 a2 H r theta phi u). Qed.
Print Assumptions C16_spherical_axis_right_handed_in_phi.

(** Non-vacuity of the hypotheses: a non-zero axis, a perpendicular pair, and one axis in each branch of the guard theorem. *)
Theorem C16_nonvacuous :
  nonzero3 1 2 2 /\ (nonzero3 0 0 1 /\ dot3 [0; 0; 1] [1; 0; 0] = 0) /\
  (nonzero3 0 0 2 /\ nhat [0; 0; 2] = [0; 0; 1]) /\ (nonzero3 0 0 (-3) /\ nhat [0; 0; -3] = [0; 0; -1]) /\
  (nonzero3 3 0 4 /\ Rhypot (cx (nhat [3; 0; 4])) (cy (nhat [3; 0; 4])) <> 0).
Proof. exact (conj ex_nonzero (conj ex_perpendicular (conj ex_branch_plain (conj ex_branch_antiparallel ex_branch_general)))). Qed.
Print Assumptions C16_nonvacuous.

(** ** Argument objects with a past.  The axis handed to Rotation_Matrix / Spherical_Coordinates is an object that was constructed,
    asked questions, copied and changed in place before; "for every non-zero axis" speaks about the value it has at the call. *)

(** questions (const members, reads, copies, earlier calls of the property's own functions) leave the object alone - every number type *)
Theorem C16_history_questions_keep_the_object {T} (Ops : NumOps T) (hyp : T -> T -> T) (h : list (@vstep T)) (v v' : list T) :
  forallb vstep_is_question h = true -> vhistory Ops hyp v h = Ok v' -> v' = v.
Proof. exact (vhistory_questions_keep Ops hyp h v v'). Qed.
Print Assumptions C16_history_questions_keep_the_object.

(** v += w and v -= w give the object the value of v + w and v - w *)
Theorem C16_compound_assignment_value (hyp : R -> R -> R) (a0 a1 a2 w0 w1 w2 : R) :
  (vstep_apply ROps hyp [a0; a1; a2] (VAddAssign [w0; w1; w2]) = Ok [a0 + w0; a1 + w1; a2 + w2] /\
   vstep_apply ROps hyp [a0; a1; a2] (VPlus [w0; w1; w2]) = Ok [a0 + w0; a1 + w1; a2 + w2]) /\
  (vstep_apply ROps hyp [a0; a1; a2] (VSubAssign [w0; w1; w2]) = Ok [a0 - w0; a1 - w1; a2 - w2] /\
   vstep_apply ROps hyp [a0; a1; a2] (VMinus [w0; w1; w2]) = Ok [a0 - w0; a1 - w1; a2 - w2]).
Proof. exact (conj (add_assign_value hyp a0 a1 a2 w0 w1 w2) (sub_assign_value hyp a0 a1 a2 w0 w1 w2)). Qed.
Print Assumptions C16_compound_assignment_value.

(** two objects with the same value give the same rotation and the same spherical coordinates, whatever their histories - every number type *)
Theorem C16_results_depend_on_value_not_history {T} (Ops : NumOps T) (hyp : T -> T -> T) (s1 s2 : list T) (h1 h2 : list (@vstep T)) (a : list T) :
  vhistory Ops hyp s1 h1 = Ok a -> vhistory Ops hyp s2 h2 = Ok a ->
  (forall alpha dim, rotation_of_object Ops hyp alpha dim s1 h1 = rotation_of_object Ops hyp alpha dim s2 h2) /\
  (forall r theta phi, spherical_of_object Ops hyp r theta phi s1 h1 = spherical_of_object Ops hyp r theta phi s2 h2).
Proof. exact (history_independent Ops hyp s1 s2 h1 h2 a). Qed.
Print Assumptions C16_results_depend_on_value_not_history.

(** a 3-D rotation about an object with any history: the matrix is proper orthogonal and fixes the value the object has at the call *)
Theorem C16_rotation3_about_object (s : list R) (h : list (@vstep R)) (alpha : R) (Rm : list (list R)) :
  rotation_of_object ROps Rhypot alpha 3 s h = Ok Rm ->
  exists a0 a1 a2, vhistory ROps Rhypot s h = Ok [a0; a1; a2] /\
    (nonzero3 a0 a1 a2 ->
       mmul ROps (mtr Rm) Rm = I3 /\ mmul ROps Rm (mtr Rm) = I3 /\ det3 Rm = 1 /\
       mvec ROps Rm [a0; a1; a2] = [a0; a1; a2]).
Proof. exact (rotation_of_object_proper s h alpha Rm). Qed.
Print Assumptions C16_rotation3_about_object.

(** spherical coordinates about an object with any history: norm r, component r cos(theta) along the value the object has at the call *)
Theorem C16_spherical_about_object (s : list R) (h : list (@vstep R)) (a0 a1 a2 r theta phi : R) :
  vhistory ROps Rhypot s h = Ok [a0; a1; a2] -> nonzero3 a0 a1 a2 ->
  exists u, spherical_of_object ROps Rhypot r theta phi s h = Ok u /\
    dot3 u u = r * r /\ dot3 u (nhat [a0; a1; a2]) = r * cos theta.
Proof. exact (spherical_of_object_spec s h a0 a1 a2 r theta phi). Qed.
Print Assumptions C16_spherical_about_object.

(** "at polar angle theta from the axis", observed with the library's own Angle: Angle(u, axis) = Angle(axis, u) = theta
    for r > 0 and theta in [0, pi] *)
Theorem C16_angle_of_result_is_theta (r theta phi a0 a1 a2 : R) (u : list R) : nonzero3 a0 a1 a2 -> 0 < r -> 0 <= theta <= PI ->
  spherical_axis ROps Rhypot r theta phi [a0; a1; a2] = Ok u ->
  angle ROps u [a0; a1; a2] = Ok theta /\ angle ROps [a0; a1; a2] u = Ok theta.
Proof. exact (angle_spherical_axis r theta phi a0 a1 a2 u). Qed.
Print Assumptions C16_angle_of_result_is_theta.

(** "transpose equals inverse", with the library's own products: (R v) R = v *)
Theorem C16_rotation3_transpose_undoes (alpha a0 a1 a2 : R) (Rm : list (list R)) (v0 v1 v2 : R) : nonzero3 a0 a1 a2 ->
  rotation_matrix ROps alpha 3 [a0; a1; a2] = Ok Rm ->
  vecm ROps (mvec ROps Rm [v0; v1; v2]) Rm = Ok [v0; v1; v2].
Proof. exact (rotation_back alpha a0 a1 a2 Rm v0 v1 v2). Qed.
Print Assumptions C16_rotation3_transpose_undoes.

(** the two halves of the property are right-handed about the same axis: turning the vector returned for (r, theta, phi) by alpha
    about the axis gives the vector returned for (r, theta, phi + alpha) *)
Theorem C16_rotation3_turns_spherical_vector (alpha r theta phi a0 a1 a2 : R) (Rm : list (list R)) (u u' : list R) : nonzero3 a0 a1 a2 ->
  rotation_matrix ROps alpha 3 [a0; a1; a2] = Ok Rm ->
  spherical_axis ROps Rhypot r theta phi [a0; a1; a2] = Ok u ->
  spherical_axis ROps Rhypot r theta (phi + alpha) [a0; a1; a2] = Ok u' ->
  mvec ROps Rm u = u'.
Proof. exact (rotation_turns_spherical alpha r theta phi a0 a1 a2 Rm u u'). Qed.
Print Assumptions C16_rotation3_turns_spherical_vector.

(** Non-vacuity: an object that was asked for its norm, changed by += and copied is the non-zero axis (3, 0, 1); hypotheses of the Angle theorem *)
Theorem C16_history_nonvacuous :
  (vhistory ROps Rhypot [0; 0; 1] [VQNorm; VAddAssign [3; 0; 0]; VCopy] = Ok [3; 0; 1] /\ nonzero3 3 0 1) /\
  (nonzero3 3 0 1 /\ 0 < 2 /\ 0 <= 0 <= PI).
Proof. exact (conj ex_history ex_angle_hypotheses). Qed.
Print Assumptions C16_history_nonvacuous.

(** ** Histories of calls in one process.  "for every angle": also for an angle that was used a moment ago with the other sign, for the
    same angle asked again, after a call in the other dimension, about another axis ... *)

(** each call of a history gets the answer that a process making this one call gets (and the history has one answer per call) - every number type *)
Theorem C16_calls_answered_as_alone {T} (Ops : NumOps T) (hyp : T -> T -> T) (cs : list (@call T)) (answers : list (@answer T)) :
  calls_run Ops hyp cs = Ok answers ->
  length answers = length cs /\
  forall i c, nth_error cs i = Some c ->
    exists a, nth_error answers i = Some a /\ call_answer Ops hyp c = Ok a /\ calls_run Ops hyp [c] = Ok [a].
Proof. exact (calls_run_answered_as_alone Ops hyp cs answers). Qed.
Print Assumptions C16_calls_answered_as_alone.

(** the same call made twice in a history, with anything in between, gets the same answer - every number type *)
Theorem C16_calls_repeatable {T} (Ops : NumOps T) (hyp : T -> T -> T) (cs : list (@call T)) (answers : list (@answer T)) (i j : nat) (c : @call T) :
  calls_run Ops hyp cs = Ok answers -> nth_error cs i = Some c -> nth_error cs j = Some c ->
  exists a, nth_error answers i = Some a /\ nth_error answers j = Some a.
Proof. exact (calls_run_repeatable Ops hyp cs answers i j c). Qed.
Print Assumptions C16_calls_repeatable.

(** a 3-D rotation at any position of any history is proper orthogonal, fixes its axis and turns perpendicular vectors by ITS OWN
    angle in the right-handed sense *)
Theorem C16_calls_rotation3_proper (cs : list (@call R)) (answers : list (@answer R)) (i : nat) (alpha a0 a1 a2 : R) :
  calls_run ROps Rhypot cs = Ok answers -> nth_error cs i = Some (CRot alpha 3 [a0; a1; a2]) -> nonzero3 a0 a1 a2 ->
  exists Rm, nth_error answers i = Some (AMat Rm) /\
    mmul ROps (mtr Rm) Rm = I3 /\ mmul ROps Rm (mtr Rm) = I3 /\ det3 Rm = 1 /\
    mvec ROps Rm [a0; a1; a2] = [a0; a1; a2] /\
    forall v0 v1 v2, dot3 [a0; a1; a2] [v0; v1; v2] = 0 ->
      mvec ROps Rm [v0; v1; v2] =
      vplus (vscal (cos alpha) [v0; v1; v2]) (vscal (sin alpha) (cross3 (nhat [a0; a1; a2]) [v0; v1; v2])).
Proof. exact (calls_rotation3_proper cs answers i alpha a0 a1 a2). Qed.
Print Assumptions C16_calls_rotation3_proper.

(** a 2-D rotation at any position of any history is [[cos, -sin], [sin, cos]] of its own angle *)
Theorem C16_calls_rotation2_entries (cs : list (@call R)) (answers : list (@answer R)) (i : nat) (alpha : R) (axis : list R) :
  calls_run ROps Rhypot cs = Ok answers -> nth_error cs i = Some (CRot alpha 2 axis) ->
  nth_error answers i = Some (AMat [[cos alpha; - sin alpha]; [sin alpha; cos alpha]]).
Proof. exact (calls_rotation2_entries cs answers i alpha axis). Qed.
Print Assumptions C16_calls_rotation2_entries.

(** "rotations about the same axis compose by adding angles", back and forth: alpha, -alpha and alpha again anywhere in a history -
    the second matrix is the transpose and the inverse of the first, the third is the first *)
Theorem C16_calls_back_and_forth (cs : list (@call R)) (answers : list (@answer R)) (i j k : nat) (alpha a0 a1 a2 : R) :
  calls_run ROps Rhypot cs = Ok answers -> nonzero3 a0 a1 a2 ->
  nth_error cs i = Some (CRot alpha 3 [a0; a1; a2]) -> nth_error cs j = Some (CRot (- alpha) 3 [a0; a1; a2]) ->
  nth_error cs k = Some (CRot alpha 3 [a0; a1; a2]) ->
  exists Ra Rb, nth_error answers i = Some (AMat Ra) /\ nth_error answers j = Some (AMat Rb) /\ nth_error answers k = Some (AMat Ra) /\
    Rb = mtr Ra /\ mmul ROps Ra Rb = I3 /\ mmul ROps Rb Ra = I3.
Proof. exact (calls_back_and_forth cs answers i j k alpha a0 a1 a2). Qed.
Print Assumptions C16_calls_back_and_forth.
Theorem C16_calls_back_and_forth_2d (cs : list (@call R)) (answers : list (@answer R)) (i j k : nat) (alpha : R) (ax1 ax2 ax3 : list R) :
  calls_run ROps Rhypot cs = Ok answers ->
  nth_error cs i = Some (CRot alpha 2 ax1) -> nth_error cs j = Some (CRot (- alpha) 2 ax2) -> nth_error cs k = Some (CRot alpha 2 ax3) ->
  exists Ra Rb, nth_error answers i = Some (AMat Ra) /\ nth_error answers j = Some (AMat Rb) /\ nth_error answers k = Some (AMat Ra) /\
    Rb = mtr Ra /\ mmul ROps Ra Rb = I2.
Proof. exact (calls_back_and_forth_2d cs answers i j k alpha ax1 ax2 ax3). Qed.
Print Assumptions C16_calls_back_and_forth_2d.

(** spherical coordinates about a non-zero axis at any position of any history: norm r, component r cos(theta) along the axis *)
Theorem C16_calls_spherical_axis (cs : list (@call R)) (answers : list (@answer R)) (i : nat) (r theta phi a0 a1 a2 : R) :
  calls_run ROps Rhypot cs = Ok answers -> nth_error cs i = Some (CSphAxis r theta phi [a0; a1; a2]) -> nonzero3 a0 a1 a2 ->
  exists u, nth_error answers i = Some (AVec u) /\ dot3 u u = r * r /\ dot3 u (nhat [a0; a1; a2]) = r * cos theta.
Proof. exact (calls_spherical_axis cs answers i r theta phi a0 a1 a2). Qed.
Print Assumptions C16_calls_spherical_axis.

(** Non-vacuity: a history with a sign change of the angle between two equal calls, a 2-D call and a Spherical_Coordinates call in between, answers *)
Theorem C16_calls_nonvacuous :
  exists answers, calls_run ROps Rhypot
    [CRot 1 3 [1; 2; 2]; CRot (- 1) 3 [1; 2; 2]; CRot 1 2 []; CSph 2 1 1; CRot 1 3 [1; 2; 2]] = Ok answers.
Proof. exact ex_calls_history. Qed.
Print Assumptions C16_calls_nonvacuous.

(** ** Products of any number of rotations, axes of any length, whole turns, guards, Angle in every dimension. *)

(** "proper orthogonal ... for every angle and every non-zero axis", for products: the product of ANY number of 3-D rotations about ANY
    non-zero axes, built with the library's Identity_Matrix and Matrix product, is returned, is proper orthogonal and keeps scalar
    products (lengths and angles of the vectors it turns)  (induction over the factors) *)
Theorem C16_rotation_chain_proper (fs : list (R * list R)) :
  List.Forall (fun f => axis3_nonzero (snd f)) fs ->
  exists P, rot_chain ROps 3 fs = Ok P /\ proper3 P /\
    forall v0 v1 v2 w0 w1 w2, dot3 (mvec ROps P [v0; v1; v2]) (mvec ROps P [w0; w1; w2]) = dot3 [v0; v1; v2] [w0; w1; w2].
Proof. exact (rot_chain_proper_isometry fs). Qed.
Print Assumptions C16_rotation_chain_proper.

(** "rotations about the same axis compose by adding angles", for any number of factors: (1) 3-D factors whose axes point along one
    direction with any (different) lengths give the rotation by the sum of the angles; (2) 2-D factors always do, whatever is passed as
    axis; (3) n equal factors: R(alpha)^n = R(n alpha) for every n *)
Theorem C16_rotation_chain_adds_angles :
  (forall (a0 a1 a2 : R) (fs : list (R * list R)), nonzero3 a0 a1 a2 -> List.Forall (fun f => along a0 a1 a2 (snd f)) fs ->
     rot_chain ROps 3 fs = rotation_matrix ROps (angle_sum ROps (map fst fs)) 3 [a0; a1; a2]) /\
  (forall (fs : list (R * list R)) (axis : list R),
     rot_chain ROps 2 fs = rotation_matrix ROps (angle_sum ROps (map fst fs)) 2 axis) /\
  (forall (alpha a0 a1 a2 : R) (n : nat), nonzero3 a0 a1 a2 ->
     rot_chain ROps 3 (repeat (alpha, [a0; a1; a2]) n) = rotation_matrix ROps (INR n * alpha) 3 [a0; a1; a2]).
Proof. exact (conj rot_chain_same_axis (conj rot_chain_2d rot_chain_power)). Qed.
Print Assumptions C16_rotation_chain_adds_angles.

(** a chain applied to a vector is its factors applied one after the other (the last factor first) *)
Theorem C16_rotation_chain_applies_factors (fs : list (R * list R)) (alpha : R) (ax : list R) (P Rm P' : list (list R)) (v0 v1 v2 : R) :
  List.Forall (fun f => axis3_nonzero (snd f)) fs -> axis3_nonzero ax ->
  rot_chain ROps 3 fs = Ok P -> rotation_matrix ROps alpha 3 ax = Ok Rm -> rot_chain ROps 3 (fs ++ [(alpha, ax)]) = Ok P' ->
  mvec ROps P' [v0; v1; v2] = mvec ROps P (mvec ROps Rm [v0; v1; v2]).
Proof. exact (rot_chain_apply_last fs alpha ax P Rm P' v0 v1 v2). Qed.
Print Assumptions C16_rotation_chain_applies_factors.

(** "every non-zero axis of any length": the matrix and the spherical coordinates depend on the direction of the axis only (k > 0);
    the opposite direction (k < 0) gives the transposed matrix, which is the rotation by -alpha *)
Theorem C16_axis_direction_decides (alpha r theta phi k a0 a1 a2 : R) : nonzero3 a0 a1 a2 ->
  (0 < k ->
     rotation_matrix ROps alpha 3 [k * a0; k * a1; k * a2] = rotation_matrix ROps alpha 3 [a0; a1; a2] /\
     spherical_axis ROps Rhypot r theta phi [k * a0; k * a1; k * a2] = spherical_axis ROps Rhypot r theta phi [a0; a1; a2]) /\
  (k < 0 -> forall Rm, rotation_matrix ROps alpha 3 [a0; a1; a2] = Ok Rm ->
     rotation_matrix ROps alpha 3 [k * a0; k * a1; k * a2] = Ok (mtr Rm) /\ rotation_matrix ROps (- alpha) 3 [a0; a1; a2] = Ok (mtr Rm)).
Proof. exact (axis_direction_decides alpha r theta phi k a0 a1 a2). Qed.
Print Assumptions C16_axis_direction_decides.

(** "for every angle": whole turns do not matter, for every integer number of turns, every dim and every axis argument; the same for
    theta and phi of both Spherical_Coordinates *)
Theorem C16_whole_turns (hyp : R -> R -> R) (alpha r theta phi : R) (k m : Z) (dim : Z) (axis : list R) :
  rotation_matrix ROps (alpha + 2 * IZR k * PI) dim axis = rotation_matrix ROps alpha dim axis /\
  spherical_axis ROps hyp r (theta + 2 * IZR k * PI) (phi + 2 * IZR m * PI) axis = spherical_axis ROps hyp r theta phi axis /\
  spherical ROps r (theta + 2 * IZR k * PI) (phi + 2 * IZR m * PI) = spherical ROps r theta phi.
Proof. exact (conj (rotation_matrix_period alpha k dim axis) (spherical_period hyp r theta phi k m axis)). Qed.
Print Assumptions C16_whole_turns.

(** the default axis Vector({0, 0, 1}) of Rotation_Matrix(alpha, 3) gives the 2-D rotation in the x-y plane; the angle of every 3-D
    rotation can be read off the matrix: trace R = 1 + 2 cos(alpha) *)
Theorem C16_rotation3_default_axis_and_trace (alpha : R) :
  rotation_matrix ROps alpha 3 [0; 0; 1] = Ok [[cos alpha; - sin alpha; 0]; [sin alpha; cos alpha; 0]; [0; 0; 1]] /\
  forall a0 a1 a2 Rm, nonzero3 a0 a1 a2 -> rotation_matrix ROps alpha 3 [a0; a1; a2] = Ok Rm ->
    ent Rm 0 0 + ent Rm 1 1 + ent Rm 2 2 = 1 + 2 * cos alpha.
Proof. exact (conj (rot3_default alpha) (rot3_trace alpha)). Qed.
Print Assumptions C16_rotation3_default_axis_and_trace.

(** the guards, for every number type (also the doubles of the extracted model): Rotation_Matrix returns exactly for dim = 2 and for
    dim = 3 with a 3-component axis, a dim x dim matrix, and ends the process otherwise; Angle returns exactly for equal dimensions;
    Spherical_Coordinates with an axis returns a 3-vector for every axis with >= 3 components, ends the process for < 2 components and for
    2 components unless their norm compares equal to zero (then the plain formula is returned before ev[2] is read) *)
Theorem C16_guards {T} (Ops : NumOps T) (hyp : T -> T -> T) (alpha r theta phi : T) (dim : Z) (axis a b : list T) :
  ((dim = 2%Z \/ (dim = 3%Z /\ length axis = 3%nat) ->
      exists Rm, rotation_matrix Ops alpha dim axis = Ok Rm /\ length Rm = Z.to_nat dim /\
                 List.Forall (fun row => length row = Z.to_nat dim) Rm) /\
   (~ (dim = 2%Z \/ (dim = 3%Z /\ length axis = 3%nat)) -> rotation_matrix Ops alpha dim axis = Exit)) /\
  ((length a = length b -> exists x, angle Ops a b = Ok x) /\ (length a <> length b -> angle Ops a b = Exit)) /\
  (((3 <= length axis)%nat -> exists u, spherical_axis Ops hyp r theta phi axis = Ok u /\ length u = 3%nat) /\
   (length axis = 2%nat -> spherical_axis Ops hyp r theta phi axis =
                           if neqb Ops (vnorm Ops axis) (n0 Ops) then Ok (spherical Ops r theta phi) else Exit) /\
   ((length axis < 2)%nat -> spherical_axis Ops hyp r theta phi axis = Exit)).
Proof. exact (conj (rotation_matrix_guards Ops alpha dim axis) (conj (angle_guards Ops a b) (spherical_axis_guards Ops hyp r theta phi axis))). Qed.
Print Assumptions C16_guards.

(** Angle (observe_at), for two non-zero vectors of one dimension, WHATEVER the dimension (induction over the components: Cauchy-Schwarz
    for the library's Dot): the call returns the angle in [0, pi] whose cosine is v1.v2 / (|v1| |v2|) - over the reals the clamp of the
    quotient to [-1, 1] never acts -, symmetrically in its arguments; Angle(v, v) = 0 and Angle(v, -v) = pi *)
Theorem C16_angle_any_dimension (a b : list R) : nonzero_vec a ->
  (length a = length b -> nonzero_vec b ->
     exists th, angle ROps a b = Ok th /\ angle ROps b a = Ok th /\ 0 <= th <= PI /\
       vdot ROps a b = vnorm ROps a * vnorm ROps b * cos th /\
       th = acos (vdot ROps a b / (vnorm ROps a * vnorm ROps b))) /\
  angle ROps a a = Ok 0 /\ angle ROps a (map Ropp a) = Ok PI.
Proof. exact (fun Ha => conj (fun HL Hb => angle_general a b HL Ha Hb) (angle_self a Ha)). Qed.
Print Assumptions C16_angle_any_dimension.

(** "turns vectors perpendicular to it by alpha", measured with the library's own Angle: Angle(v, R v) = Angle(R v, v) = |alpha|
    for every alpha in [-pi, pi] (with the handedness theorem C16_rotation3_perpendicular_turned this fixes the turn completely) *)
Theorem C16_rotation3_turns_by_alpha (alpha a0 a1 a2 : R) (Rm : list (list R)) (v0 v1 v2 : R) : nonzero3 a0 a1 a2 ->
  rotation_matrix ROps alpha 3 [a0; a1; a2] = Ok Rm -> dot3 [a0; a1; a2] [v0; v1; v2] = 0 -> nonzero3 v0 v1 v2 -> - PI <= alpha <= PI ->
  angle ROps [v0; v1; v2] (mvec ROps Rm [v0; v1; v2]) = Ok (Rabs alpha) /\
  angle ROps (mvec ROps Rm [v0; v1; v2]) [v0; v1; v2] = Ok (Rabs alpha).
Proof. exact (rot3_turn_angle alpha a0 a1 a2 Rm v0 v1 v2). Qed.
Print Assumptions C16_rotation3_turns_by_alpha.

(** "every non-zero axis of any length", for an axis OBJECT with a past (induction over the history): an object that was only asked questions,
    copied, rescaled by positive factors (v = v * s, v = s * v, v = v / s), doubled (v += v) and normalised (Normalize(), v = v.Normalized()),
    any number of times in any order, is a positive multiple of the vector it was constructed from, and Rotation_Matrix and
    Spherical_Coordinates called with it answer as for that vector *)
Theorem C16_history_keeping_direction (a0 a1 a2 : R) (h : list (@vstep R)) (v' : list R) : nonzero3 a0 a1 a2 ->
  List.Forall vstep_keeps_direction h -> vhistory ROps Rhypot [a0; a1; a2] h = Ok v' ->
  (exists k, 0 < k /\ v' = [k * a0; k * a1; k * a2]) /\
  (forall alpha, rotation_of_object ROps Rhypot alpha 3 [a0; a1; a2] h = rotation_matrix ROps alpha 3 [a0; a1; a2]) /\
  (forall r theta phi, spherical_of_object ROps Rhypot r theta phi [a0; a1; a2] h = spherical_axis ROps Rhypot r theta phi [a0; a1; a2]).
Proof. exact (history_keeps_direction a0 a1 a2 h v'). Qed.
Print Assumptions C16_history_keeping_direction.

(** Non-vacuity: three factors about three different non-zero axes; three factors along (1, 2, 2) with lengths 3, 9, 3/2; two non-zero
    5-vectors; an axis, a perpendicular vector and an angle in [-pi, pi]; a direction-keeping history of seven steps that the model accepts *)
Theorem C16_chain_nonvacuous :
  List.Forall (fun f => axis3_nonzero (snd f)) [(1, [1; 2; 2]); (-2, [0; 0; -3]); (1 / 2, [3; 0; 4])] /\
  (nonzero3 1 2 2 /\ List.Forall (fun f => along 1 2 2 (snd f)) [(1, [1; 2; 2]); (-2, [3; 6; 6]); (1 / 2, [1 / 2; 1; 1])]) /\
  (length [1; 2; 3; 4; 5] = length [0; 0; 0; 0; -2] /\ nonzero_vec [1; 2; 3; 4; 5] /\ nonzero_vec [0; 0; 0; 0; -2]) /\
  (nonzero3 0 0 2 /\ dot3 [0; 0; 2] [1; 1; 0] = 0 /\ nonzero3 1 1 0 /\ - PI <= -3 <= PI) /\
  (nonzero3 3 0 4 /\
   List.Forall vstep_keeps_direction [VQNorm; VTimes 2; VNormalize; VAddSelf; VDivide 4; VCallRotation 1 3; VCopy] /\
   exists v', vhistory ROps Rhypot [3; 0; 4] [VQNorm; VTimes 2; VNormalize; VAddSelf; VDivide 4; VCallRotation 1 3; VCopy] = Ok v').
Proof. exact (conj ex_chain_axes (conj ex_chain_along (conj ex_angle_general (conj ex_turn ex_direction_history)))). Qed.
Print Assumptions C16_chain_nonvacuous.

(** ** "determinant one", observed with the library's own Determinant(), and the angle read off with the library's own Trace(). *)

(** Determinant() of Rotation_Matrix is 1 and Trace() is 1 + 2 cos(alpha) (3-D, every non-zero axis) / 2 cos(alpha) (2-D); the same for products of
    ANY number of rotations (induction over the factors): Determinant() of a product of 3-D rotations about any non-zero axes is 1; for factors along
    one direction (any lengths) Trace() is 1 + 2 cos(sum of the angles); for 2-D factors Determinant() is 1 and Trace() is 2 cos(sum of the angles) *)
Theorem C16_determinant_and_trace_by_the_library :
  (forall alpha a0 a1 a2 : R, nonzero3 a0 a1 a2 -> rotation_det_trace ROps alpha 3 [a0; a1; a2] = Ok (1, 1 + 2 * cos alpha)) /\
  (forall (alpha : R) (axis : list R), rotation_det_trace ROps alpha 2 axis = Ok (1, 2 * cos alpha)) /\
  (forall fs : list (R * list R), List.Forall (fun f => axis3_nonzero (snd f)) fs ->
     exists P t, rot_chain ROps 3 fs = Ok P /\ mdet ROps P = Ok 1 /\ mtrace ROps P = Ok t /\ rot_chain_det_trace ROps 3 fs = Ok (1, t)) /\
  (forall (a0 a1 a2 : R) (fs : list (R * list R)), nonzero3 a0 a1 a2 -> List.Forall (fun f => along a0 a1 a2 (snd f)) fs ->
     rot_chain_det_trace ROps 3 fs = Ok (1, 1 + 2 * cos (angle_sum ROps (map fst fs)))) /\
  (forall fs : list (R * list R), rot_chain_det_trace ROps 2 fs = Ok (1, 2 * cos (angle_sum ROps (map fst fs)))).
Proof. exact (conj rotation3_det_trace (conj rotation2_det_trace (conj chain3_det_one (conj chain3_same_axis_det_trace chain2_det_trace)))). Qed.
Print Assumptions C16_determinant_and_trace_by_the_library.

(** for EVERY number type (the doubles of the extracted model included) and EVERY size: Determinant() returns - it never ends the process and the
    recursion never runs out of fuel - for every well-formed n x n matrix (induction over the recursion depth); Trace() returns for rows = columns;
    both end the process exactly when rows <> columns *)
Theorem C16_determinant_trace_guards {T} (Ops : NumOps T) (m : list (list T)) :
  (forall n, wf_square n m -> exists d, mdet Ops m = Ok d) /\
  (mrowsn m = mcolsn m -> exists t, mtrace Ops m = Ok t) /\
  (mrowsn m <> mcolsn m -> mdet Ops m = Exit /\ mtrace Ops m = Exit).
Proof. exact (mdet_mtrace_guards Ops m). Qed.
Print Assumptions C16_determinant_trace_guards.

(** "increasing phi moves it around the axis in the right-handed sense" and "compose by adding angles" together, for any number of factors: the product
    of rotations about one direction (any axis lengths) turns the vector returned for (r, theta, phi) into the one returned for (r, theta, phi + sum) *)
Theorem C16_rotation_chain_turns_spherical_vector (a0 a1 a2 : R) (fs : list (R * list R)) (r theta phi : R) (P : list (list R)) (u u' : list R) :
  nonzero3 a0 a1 a2 -> List.Forall (fun f => along a0 a1 a2 (snd f)) fs -> rot_chain ROps 3 fs = Ok P ->
  spherical_axis ROps Rhypot r theta phi [a0; a1; a2] = Ok u ->
  spherical_axis ROps Rhypot r theta (phi + angle_sum ROps (map fst fs)) [a0; a1; a2] = Ok u' ->
  mvec ROps P u = u'.
Proof. exact (chain_turns_spherical a0 a1 a2 fs r theta phi P u u'). Qed.
Print Assumptions C16_rotation_chain_turns_spherical_vector.

(** 2-D: the rotation turns EVERY non-zero vector by alpha, measured with the library's own Angle: Angle(v, R v) = Angle(R v, v) = |alpha| for alpha in [-pi, pi] *)
Theorem C16_rotation2_turns_by_alpha (alpha : R) (axis : list R) (Rm : list (list R)) (v0 v1 : R) :
  rotation_matrix ROps alpha 2 axis = Ok Rm -> nonzero_vec [v0; v1] -> - PI <= alpha <= PI ->
  angle ROps [v0; v1] (mvec ROps Rm [v0; v1]) = Ok (Rabs alpha) /\ angle ROps (mvec ROps Rm [v0; v1]) [v0; v1] = Ok (Rabs alpha).
Proof. exact (rot2_turn_angle alpha axis Rm v0 v1). Qed.
Print Assumptions C16_rotation2_turns_by_alpha.

(** Non-vacuity: a well-formed 4 x 4 matrix whose Determinant() the model evaluates (to -14) through two levels of the recursion, a non-square shape;
    a non-zero 2-vector and an angle in [-pi, pi]  (the chain hypotheses are those of C16_chain_nonvacuous) *)
Theorem C16_determinant_nonvacuous :
  (wf_square 4 [[1; 2; 3; 4]; [0; 1; 0; 2]; [5; 0; 1; 0]; [0; 0; 0; 1]] /\
   mdet ROps [[1; 2; 3; 4]; [0; 1; 0; 2]; [5; 0; 1; 0]; [0; 0; 0; 1]] = Ok (-14) /\
   mrowsn [[1; 2; 3]; [4; 5; 6]] <> mcolsn [[1; 2; 3]; [4; 5; 6]]) /\
  (nonzero_vec [0; -2] /\ - PI <= 3 <= PI).
Proof. exact (conj ex_det_square ex_turn2). Qed.
Print Assumptions C16_determinant_nonvacuous.
