(** * C12: non-vacuity examples over the reals that need the numerical value of the Chebyshev-like guess (Interval).
    Built by bin/setup; NOT imported by Properties_C12.v (Interval would dominate the independent re-check of the property file). *)
From Coq Require Import Reals ZArith List Bool Lia Lra Arith.
From Coquelicot Require Import Coquelicot.
From Interval Require Import Tactic.
From LP Require Import Num NumR C12_Model C12_Proofs C12_Proofs_B.
Import ListNotations.
Local Open Scope R_scope.
Local Opaque newton.

(** *** non-vacuity: n = 1 over the reals.  The guess is cos(M_PI/2) with the decimal M_PI of math.h, not 0; the first Newton
    step lands on 0 exactly and is accepted *)
Lemma guess_1_small : Rabs (guess 1 0) <= eps14 /\ guess 1 0 * guess 1 0 <> 1.
Proof.
  unfold guess, gl_guess, m_pi, half, ndec, eps14. cbn.
  split; [interval with (i_prec 120)|].
  assert (Rabs (cos (314159265358979323846 / 100000000000000000000 * (0 + 3 / 4) / (1 + 1 / 2))) <= 1 / 2) as H by (interval with (i_prec 120)).
  intros E. apply Rabs_le_between in H. nra.
Qed.

Example ex_newton_1 : newton ROps newton_fuel 1 (INR 1) (guess 1 0) = Ok (newton_next 1 (guess 1 0), dLeg 1 (guess 1 0)) /\
  newton_next 1 (guess 1 0) = 0 /\ dLeg 1 (guess 1 0) = 1.
Proof.
  destruct guess_1_small as [Hs Hn].
  assert (N : newton_next 1 (guess 1 0) = 0) by (unfold newton_next, Leg, dLeg; cbn; field).
  assert (D : dLeg 1 (guess 1 0) = 1) by (unfold dLeg; cbn; field).
  repeat split; auto.
  change newton_fuel with (S 99). rewrite newton_step_R by exact Hn.
  rewrite N. replace (0 - guess 1 0) with (- guess 1 0) by ring. rewrite Rabs_Ropp.
  destruct (Rleb_spec (Rabs (guess 1 0)) eps14); [reflexivity|lra].
Qed.

Example ex_rule_one a b : exists rw, gl_rule ROps 1 a b = Ok rw /\ rw <> [].
Proof.
  destruct ex_newton_1 as (E & _). unfold gl_rule, gl_roots. change (gl_m 1) with 1%nat. cbn [gl_roots_from].
  rewrite nofZ_INR. change (gl_guess ROps (INR 1) 0%Z) with (guess 1 0). rewrite E. cbn [rbind]. eexists. split; [reflexivity|].
  unfold rows_of, gl_assemble. cbn. discriminate.
Qed.

(** the Newton results of n = 1 satisfy the hypotheses of [valid_rule_of_roots] *)
Example ex_roots_1 : gl_roots ROps 1 = Ok [(0, 1)] /\ roots_ok 1 [(0, 1)] /\ pp_ok 1 [(0, 1)].
Proof.
  destruct ex_newton_1 as (E & N & D). split.
  - unfold gl_roots. change (gl_m 1) with 1%nat. cbn [gl_roots_from]. rewrite nofZ_INR. change (gl_guess ROps (INR 1) 0%Z) with (guess 1 0).
    rewrite E, N, D. reflexivity.
  - exact ex_roots_ok_1.
Qed.

(** the hypotheses of C12_newton_stage hold for n = 1 (its only iterate that is used is the guess itself) *)
Example ex_newton_stage_hyp_1 : gl_roots ROps 1 = Ok [(0, 1)] /\ guess 1 0 * guess 1 0 <> 1.
Proof. exact (conj (proj1 ex_roots_1) (proj2 guess_1_small)). Qed.

(** the level hypotheses of C12_handled_failure / C12_nest_exit_propagates hold for every interval with n = 1 *)
Example ex_handled_failure_hyp (a b : R) :
  lev_ok ROps ((KFun, 1%nat), (a, b)) /\
  List.Forall (fun l : @gl_levX R => lev_ok ROps (fst l) /\ snd l = None) [(((KInt, 1%nat), (a, b)), None)].
Proof.
  split; [exact (ex_rule_one a b)|]. constructor; [|constructor]. split; [exact (ex_rule_one a b)|reflexivity].
Qed.
