(** * C05 proofs: the statement-by-statement model of Inverse() (C05_Model2.v: work array changed in place) leaves the tables
    of C05_Model.v - for EVERY arithmetic (no law of + - * / is used: pure data movement) and every size. *)
From mathcomp Require Import all_ssreflect.
From mathcomp Require Import zify.
From Coq Require List ZArith.
From LP Require Import Num C04_Model C05_Model C05_Model2 C04_Proofs_Struct.
Set Implicit Arguments. Unset Strict Implicit. Unset Printing Implicit Defensive.
Arguments tab : simpl never.
Arguments tab2 : simpl never.

Lemma size_upd A (l : seq A) k x : size (upd l k x) = size l.
Proof. by elim: l k => [|a l IH] [|k] //=; rewrite IH. Qed.
Lemma nth_upd A d (l : seq A) k x i : nth d (upd l k x) i = if (i == k) && (k < size l) then x else nth d l i.
Proof. by elim: l k i => [|a l IH] [|k] [|i] //=; rewrite ?andbF // IH. Qed.

Lemma foldl_iota_ind (S : Type) (P : nat -> S -> Prop) (f : S -> nat -> S) a n s0 :
  P a s0 -> (forall k s, a <= k < a + n -> P k s -> P k.+1 (f s k)) -> P (a + n) (foldl f s0 (iota a n)).
Proof.
  elim: n a s0 => [|n IH] a s0 H0 Hs /=; first by rewrite addn0.
  rewrite addnS -addSn; apply: IH; first by apply: Hs => //; lia.
  by move=> k s Hk; apply: Hs; lia.
Qed.

Section Lbl.
Context {T : Type} (Ops : NumOps T).
Local Notation zero := (n0 Ops).
Local Notation one := (n1 Ops).
Local Notation tent := (tent Ops).
Local Notation ment := (ment Ops).

Definition shp (r c : nat) (A : seq (seq T)) := size A = r /\ forall i, i < r -> size (nth [::] A i) = c.
Lemma tentE A i j : tent A i j = nth zero (nth [::] A i) j.
Proof. by rewrite /C04_Model.tent !nthE. Qed.
Lemma shp_tab2 r c f : shp r c (tab2 r c f).
Proof. by split; rewrite /tab2 ?size_tab // => i Hi; rewrite nth_tab // size_tab. Qed.
Lemma tent_tab2 r c (f : nat -> nat -> T) i j : i < r -> j < c -> tent (tab2 r c f) i j = f i j.
Proof. by move=> Hi Hj; rewrite tentE /tab2 nth_tab // nth_tab. Qed.
Lemma shp_ext r c A B : shp r c A -> shp r c B -> (forall a b, a < r -> b < c -> tent A a b = tent B a b) -> A = B.
Proof.
  move=> [sA rA] [sB rB] H; apply: (@eq_from_nth _ [::]); first by rewrite sA sB.
  move=> a; rewrite sA => Ha; apply: (@eq_from_nth _ zero); first by rewrite rA ?rB.
  by move=> b; rewrite rA // => Hb; rewrite -!tentE H.
Qed.
Lemma shp_is_tab2 r c A f : shp r c A -> (forall a b, a < r -> b < c -> tent A a b = f a b) -> A = tab2 r c f.
Proof. by move=> HA H; apply: (shp_ext HA (shp_tab2 r c f)) => a b Ha Hb; rewrite H // tent_tab2. Qed.

Lemma wr_spec r c A i j x : shp r c A -> i < r -> j < c ->
  shp r c (wr A i j x) /\ forall a b, tent (wr A i j x) a b = if (a == i) && (b == j) then x else tent A a b.
Proof.
  move=> [sA rA] Hi Hj; rewrite /wr nthE; split.
  - split; first by rewrite size_upd.
    by move=> a Ha; rewrite nth_upd sA Hi andbT; case: eqP => _; rewrite ?size_upd rA.
  - move=> a b; rewrite !tentE nth_upd sA Hi andbT; case: eqP => [->|_] //=.
    by rewrite nth_upd rA // Hj andbT.
Qed.

(** std::swap(A[i], A[p]) *)
Lemma swap_lblE N A i p : shp N (2 * N) A -> i < N -> p < N -> swap_lbl A i p = swap_rows Ops N A i p.
Proof.
  move=> [sA rA] Hi Hp; rewrite /swap_rows multE.
  have E a : nth [::] (swap_lbl A i p) a = nth [::] A (if a == i then p else if a == p then i else a).
    rewrite /swap_lbl !nthE !nth_upd size_upd sA Hi Hp !andbT.
    by case: (a =P p) => [->|_]; case: (_ =P i) => [E|_] //; rewrite ?E ?eqxx.
  apply: shp_is_tab2.
  - split; first by rewrite /swap_lbl !size_upd.
    by move=> a Ha; rewrite E rA //; case: ifP => // _; case: ifP.
  - by move=> a b Ha Hb; rewrite tentE E -tentE ?natE.
Qed.

(** the loop nest that fills the work array (M | 1) *)
Lemma augment_lblE M : augment_lbl Ops M = augment Ops M.
Proof.
  rewrite /augment_lbl /augment -[mcomps (mat_fill _ _ _)]/(tab2 _ _ _); set N := mrows M; rewrite !multE.
  set A0 := tab2 N (2 * N) _.
  pose g a b := if b < N then ment M a b else if a == b - N then one else zero.
  pose Q i A := shp N (2 * N) A /\ forall a b, tent A a b = if (a < i) && (b < 2 * N) then g a b else tent A0 a b.
  rewrite foldE seqE.
  match goal with |- foldl ?f _ _ = _ => set F := f end.
  have [HA H] : Q (0 + N) (foldl F A0 (iota 0 N)).
    apply: (@foldl_iota_ind _ Q); first by split; [exact: shp_tab2 | move=> a b; rewrite ltn0].
    move=> i A1 /andP [_]; rewrite add0n => Hi [sA1 HA1].
    rewrite /F foldE ?seqE.
    match goal with |- Q _ (foldl ?f _ _) => set G := f end.
    pose P j A := shp N (2 * N) A /\
      forall a b, tent A a b = if (a == i) && ((b < j) || ((N <= b) && (b < N + j))) then g a b else tent A1 a b.
    have [sA HA] : P (0 + N) (foldl G A1 (iota 0 N)).
      apply: (@foldl_iota_ind _ P).
        by split=> // a b; rewrite (_ : _ || _ = false) ?andbF //; lia.
      move=> j A /andP [_]; rewrite add0n => Hj [sAj HAj].
      have E : G A j = wr (wr A i j (ment M i j)) i (j + N) (if i == j then one else zero).
        by rewrite /G ?natE; case: ifP.
      have Hj1 : j < 2 * N by lia.
      have Hj2 : j + N < 2 * N by lia.
      have [s1 H1] := wr_spec (ment M i j) sAj Hi Hj1.
      have [s2 H2] := wr_spec (if i == j then one else zero) s1 Hi Hj2.
      rewrite E; split=> // a b; rewrite H2 H1 HAj.
      case: (a =P i) => [->|_] //=; rewrite ?eqxx /=.
      case: (b =P j + N) => [->|Hb1].
        rewrite (_ : _ || _ = true); last by lia.
        by rewrite /g (_ : j + N < N = false) ?addnK //; lia.
      case: (b =P j) => [->|Hb2]; first by rewrite /g ltnSn /= Hj.
      by congr (if _ then _ else _); lia.
    split=> // a b; rewrite HA HA1 add0n [a < i.+1]ltnS [a <= i]leq_eqVlt.
    case: (a =P i) => [->|_] /=; last by [].
    rewrite ltnn /= (_ : _ || _ = (b < 2 * N)); last by lia.
    by case: ifP.
  apply: shp_is_tab2 => // a b Ha Hb; rewrite H add0n Ha Hb /= /g ?natE //.
Qed.

(** the scaling loop nest  A[i][j] = A[i][j] / A[i][i], j = N .. 2N-1  (the divisor is in the left block and is not written) *)
Lemma scale_lbl_spec N A : shp N (2 * N) A ->
  shp N (2 * N) (scale_lbl Ops N A) /\
  forall a b, a < N -> b < N -> tent (scale_lbl Ops N A) a (N + b) = ndiv Ops (tent A a (N + b)) (tent A a a).
Proof.
  move=> sA0; rewrite /scale_lbl foldE seqE.
  pose v a b := ndiv Ops (tent A a b) (tent A a a).
  pose Q i A' := shp N (2 * N) A' /\ forall a b, tent A' a b = if [&& a < i, N <= b & b < 2 * N] then v a b else tent A a b.
  match goal with |- context [foldl ?f _ _] => set F := f end.
  have [HA H] : Q (0 + N) (foldl F A (iota 0 N)).
    apply: (@foldl_iota_ind _ Q); first by split.
    move=> i A1 /andP [_]; rewrite add0n => Hi [sA1 HA1].
    rewrite /F foldE ?seqE.
    match goal with |- Q _ (foldl ?f _ _) => set G := f end.
    pose P j A' := shp N (2 * N) A' /\
      forall a b, tent A' a b = if [&& a == i, N <= b & b < j] then v a b else tent A1 a b.
    have [sA HA] : P (N + N) (foldl G A1 (iota N N)).
      apply: (@foldl_iota_ind _ P).
        by split=> // a b; rewrite (_ : (N <= b) && _ = false) ?andbF //; lia.
      move=> j A' /andP [Hj0 Hj] [sAj HAj].
      have Hj1 : j < 2 * N by lia.
      have [s1 H1] := wr_spec (ndiv Ops (tent A' i j) (tent A' i i)) sAj Hi Hj1.
      rewrite /G; split=> // a b; rewrite H1.
      case: (a =P i) => [->|/eqP/negbTE Ha] /=; last by rewrite HAj Ha.
      case: (b =P j) => [->|Hb].
        rewrite Hj0 ltnSn /= !HAj !HA1 !ltnn /=.
        have X : (N <= i) && (i < j) = false by lia.
        by rewrite X ?andbF /v.
      by rewrite HAj eqxx /=; congr (if _ then _ else _); lia.
    split=> // a b; rewrite HA HA1 [a < i.+1]ltnS [a <= i]leq_eqVlt.
    case: (a =P i) => [->|_] /=; last by [].
    rewrite ltnn /= (_ : (N <= b) && (b < N + N) = (N <= b) && (b < 2 * N)); last by lia.
    by case: ifP.
  split=> // a b Ha Hb; rewrite H add0n Ha /= (_ : _ && _ = true) //; lia.
Qed.

(** N calls of Delete_Column(0) *)
Lemma strip_spec c (l : seq nat) (B : mat T) : wf_mat B -> mcols B = size l + c ->
  foldl (fun acc _ => rbind acc (fun A => delete_column A 0)) (Ok B) l =
  Ok (mk_mat (mrows B) c (fun i j => ment B i (size l + j))).
Proof.
  elim: l B => [|x l IH] B HB Hc /=.
    by rewrite -[in LHS](mk_mat_eta Ops HB) Hc.
  rewrite (delete_column_spec Ops) // Hc /= IH ?wf_mk //=; congr Ok.
  apply: mk_mat_ext => i j Hi Hj; rewrite (ment_mk Ops) /skip ?addSn //=; lia.
Qed.

Lemma finish_lblE N A : shp N (2 * N) A ->
  strip_lbl N (mkMat N (2 * N) (scale_lbl Ops N A)) = Ok (finish Ops N A).
Proof.
  move=> sA; have [[s1 s2] H] := scale_lbl_spec sA.
  set B := mkMat _ _ _.
  have HB : wf_mat B by apply/wfP; rewrite /B /= ?multE.
  rewrite /strip_lbl foldE seqE (@strip_spec N) ?size_iota //=; last by rewrite ?natE; lia.
  rewrite /finish; congr Ok; apply: mk_mat_ext => i j Hi Hj.
  by rewrite /ment /= -/(C04_Model.tent Ops _ i (N + j)) H ?natE.
Qed.

(** the elimination loop nest for pivot i:  ratio = A[j][i] / A[i][i];  A[j][k] = A[j][k] - ratio * A[i][k]  (row i is not written,
    ratio is formed before row j is written) *)
Lemma eliminate_lblE N A i : shp N (2 * N) A -> i < N -> eliminate_lbl Ops N A i = eliminate Ops N A i.
Proof.
  move=> sA0 Hi; rewrite /eliminate_lbl /eliminate foldE seqE !multE.
  pose v a b := nsub Ops (tent A a b) (nmul Ops (ndiv Ops (tent A a i) (tent A i i)) (tent A i b)).
  pose Q j A' := shp N (2 * N) A' /\ forall a b, tent A' a b = if [&& a < j, a != i & b < 2 * N] then v a b else tent A a b.
  match goal with |- foldl ?f _ _ = _ => set F := f end.
  have [HA H] : Q (0 + N) (foldl F A (iota 0 N)).
    apply: (@foldl_iota_ind _ Q); first by split.
    move=> j A1 /andP [_]; rewrite add0n => Hj [sA1 HA1].
    rewrite /F ?natE; case: (i =P j) => [Hij|/eqP Hij] /=.
      split=> // a b; rewrite HA1 [a < j.+1]ltnS [a <= j]leq_eqVlt.
      by case: (a =P j) => [->|_] //=; rewrite -Hij ltnn eqxx.
    rewrite foldE ?seqE ?multE.
    set r := ndiv Ops _ _.
    have Er : r = ndiv Ops (tent A j i) (tent A i i) by rewrite /r !HA1 !ltnn eqxx /= ?andbF.
    match goal with |- Q _ (foldl ?f _ _) => set G := f end.
    pose P k A' := shp N (2 * N) A' /\ forall a b, tent A' a b = if (a == j) && (b < k) then v a b else tent A1 a b.
    have [sA HA] : P (0 + 2 * N) (foldl G A1 (iota 0 (2 * N))).
      apply: (@foldl_iota_ind _ P); first by split=> // a b; rewrite ltn0 andbF.
      move=> k A' /andP [_]; rewrite add0n => Hk [sAk HAk].
      have [s1 H1] := wr_spec (nsub Ops (tent A' j k) (nmul Ops r (tent A' i k))) sAk Hj Hk.
      rewrite /G; split=> // a b; rewrite H1.
      case: (a =P j) => [->|/eqP/negbTE Ha] /=; last by rewrite HAk Ha.
      case: (b =P k) => [->|Hb].
        by rewrite ltnSn /= !HAk !ltnn ?andbF /= !HA1 !ltnn /= ?eqxx /= ?andbF Er /v.
      by rewrite HAk eqxx /=; congr (if _ then _ else _); lia.
    split=> // a b; rewrite HA HA1 add0n [a < j.+1]ltnS [a <= j]leq_eqVlt.
    case: (a =P j) => [->|_] /=; last by [].
    by rewrite ltnn /= eq_sym Hij /=; case: ifP.
  apply: shp_is_tab2 => // a b Ha Hb; rewrite H add0n Ha Hb /= ?natE andbT.
  by case: eqP => [->|_].
Qed.

Lemma foldl_choice' (b : nat -> nat -> bool) p0 l : foldl (fun p j => if b p j then j else p) p0 l \in p0 :: l.
Proof.
  elim: l p0 => [|j l IH] p0 /=; first by rewrite inE.
  by have := IH (if b p0 j then j else p0); rewrite !inE; case: (b p0 j) => /orP [->|->]; rewrite ?orbT.
Qed.
(** the pivot search stays inside the array in every arithmetic (NaN entries included: a comparison is a boolean) *)
Lemma pivot_lt N A i : i < N -> pivot_row Ops N A i < N.
Proof.
  move=> Hi; rewrite /pivot_row foldE seqE ?natE.
  have := foldl_choice' (fun p j => nltb Ops (nabs Ops (tent A p i)) (nabs Ops (tent A j i))) i (iota i.+1 (N - i.+1)).
  rewrite inE mem_iota => /orP [/eqP ->|/andP [H1 H2]] //.
  by move: H2; rewrite subnKC.
Qed.

Lemma gj_step_lblE N A i : shp N (2 * N) A -> i < N -> gj_step_lbl Ops N A i = gj_step Ops N A i.
Proof.
  move=> sA Hi; rewrite /gj_step_lbl /gj_step; cbv zeta.
  have Hp := pivot_lt A Hi.
  set p := pivot_row Ops N A i in Hp *.
  have -> : (if ~~ Nat.eqb p i then swap_lbl A i p else A) = (if ~~ Nat.eqb p i then swap_rows Ops N A i p else A).
    by case: ifP => // _; apply: swap_lblE.
  set A1 := (if ~~ _ then _ else _).
  have sA1 : shp N (2 * N) A1 by rewrite /A1; case: ifP => // _; rewrite /swap_rows; exact: shp_tab2.
  by case: (neqb _ _ _) => //; rewrite eliminate_lblE.
Qed.

Lemma gj_fold N l acc : all (fun i => i < N) l -> (forall A', acc = Ok A' -> shp N (2 * N) A') ->
  foldl (fun acc i => rbind acc (fun A => gj_step_lbl Ops N A i)) acc l =
  foldl (fun acc i => rbind acc (fun A => gj_step Ops N A i)) acc l /\
  forall A', foldl (fun acc i => rbind acc (fun A => gj_step Ops N A i)) acc l = Ok A' -> shp N (2 * N) A'.
Proof.
  elim: l acc => [|i l IH] acc /=; first by move=> _ H; split.
  move=> /andP [Hi Hl] Hacc.
  have E : rbind acc (fun A => gj_step_lbl Ops N A i) = rbind acc (fun A => gj_step Ops N A i).
    by case: acc Hacc => //= A' HA'; apply: gj_step_lblE => //; apply: HA'.
  rewrite E; apply: IH => // A'.
  case: acc Hacc {E} => //= A'' HA''; rewrite /gj_step; cbv zeta.
  by case: (neqb _ _ _) => // [[<-]]; rewrite /eliminate; exact: shp_tab2.
Qed.

(** Inverse() written statement by statement (work array changed in place, std::swap of rows, N calls of Delete_Column(0))
    IS the table model [inverse] of the theorems: every arithmetic, every size, every matrix (well-formed or not) *)
Theorem inverse_lblE M : inverse_lbl Ops M = inverse Ops M.
Proof.
  have X : rbind (gauss_jordan_lbl Ops (mrows M) (augment_lbl Ops M))
                 (fun A => strip_lbl (mrows M) (mkMat (mrows M) (2 * mrows M) (scale_lbl Ops (mrows M) A))) =
           rbind (gauss_jordan Ops (mrows M) (augment Ops M)) (fun A => Ok (finish Ops (mrows M) A)).
    rewrite augment_lblE /gauss_jordan_lbl /gauss_jordan !foldE !seqE.
    have Hall : all (fun i => i < mrows M) (iota 0 (mrows M)) by apply/allP => i; rewrite mem_iota.
    have H0 : forall A', Ok (augment Ops M) = Ok A' -> shp (mrows M) (2 * mrows M) A'.
      by move=> A' [<-]; rewrite /augment; exact: shp_tab2.
    have [-> Hs] := gj_fold Hall H0.
    case E: (foldl _ _ _) => [A| | |] //=.
    by apply: finish_lblE; apply: Hs.
  by rewrite /inverse_lbl /inverse X.
Qed.
Lemma shp_example : shp 2 (2 * 2) (augment Ops (mk_mat 2 2 (fun _ _ => one))).
Proof. by rewrite /augment; exact: shp_tab2. Qed.
End Lbl.
