(** * C05 proofs about the pivot search of Inverse() alone (real field: fabs = `|x|, > = the order).
    (1) the row it selects lies in i..n-1 and carries an entry of maximal absolute value of column i among these rows
        (whatever the magnitudes: nothing is squared or multiplied in the search);
    (2) it does not depend on the unit of the column: multiplying column i by any d != 0 selects the same row.
    (2) is the exact-arithmetic half of the argument behind the S4 clause "columns in very different units". *)
From mathcomp Require Import all_ssreflect all_fingroup all_algebra.
From Coq Require List ZArith.
From LP Require Import Num C04_Model C05_Model C04_Proofs_Struct C04_Proofs_Laws C05_Proofs C05_Proofs_Complete.
Set Implicit Arguments. Unset Strict Implicit. Unset Printing Implicit Defensive.
Arguments tab : simpl never.
Arguments tab2 : simpl never.
Import Order.TTheory GRing.Theory Num.Theory.
Local Open Scope ring_scope.

Section Pivot.
Variable R : realFieldType.
Variables (sqrtF : R -> R) (leF : R -> R -> bool).
Local Notation POps := (POps sqrtF leF).
Local Notation tent := (tent POps).

Lemma foldl_pick_mem (f : nat -> R) p0 l :
  foldl (fun p j => if f p < f j then j else p) p0 l \in p0 :: l.
Proof.
  elim: l p0 => [|j l IH] p0 /=; first by rewrite mem_head.
  move: (IH (if f p0 < f j then j else p0)); rewrite !inE.
  by case: (f p0 < f j) => /orP [->|->] //; rewrite !orbT.
Qed.

Lemma foldl_pick_ext (f g : nat -> R) p0 l :
  (forall a b, (f a < f b) = (g a < g b)) ->
  foldl (fun p j => if f p < f j then j else p) p0 l = foldl (fun p j => if g p < g j then j else p) p0 l.
Proof. by move=> H; elim: l p0 => [|j l IH] p0 //=; rewrite H IH. Qed.

Lemma pivot_row_range n A i : (i < n)%N -> (i <= pivot_row POps n A i < n)%N.
Proof.
  move=> Hi; rewrite /pivot_row foldE seqE ?natE.
  have := foldl_pick_mem (fun j => `|tent A j i|) i (iota i.+1 (n - i.+1)).
  rewrite inE mem_iota => /orP [/eqP ->|/andP [H1 H2]]; first by rewrite leqnn Hi.
  by rewrite (ltnW H1) /=; move: H2; rewrite subnKC.
Qed.

Lemma pivot_row_maximal n A i j : (i <= j < n)%N ->
  `|tent A j i| <= `|tent A (pivot_row POps n A i) i|.
Proof. exact: pivot_max. Qed.

Lemma pivot_row_unit n A A' i d : d != 0 -> (forall j, tent A' j i = tent A j i * d) ->
  pivot_row POps n A' i = pivot_row POps n A i.
Proof.
  move=> Hd HA; rewrite /pivot_row !foldE !seqE ?natE.
  apply: (@foldl_pick_ext (fun j => `|tent A' j i|) (fun j => `|tent A j i|)) => a b.
  by rewrite !HA !normrM ltr_pmul2r // normr_gt0.
Qed.

(** non-vacuity / the situation of the pivot search at the ends of the range: a column (r, 1) with 0 < r < 1 selects row 1,
    in every unit d != 0 *)
Lemma pivot_row_example (r d : R) : 0 < r < 1 -> d != 0 ->
  pivot_row POps 2 [:: [:: r * d; 0; 1; 0]; [:: 1 * d; 0; 0; 1]] 0 = 1%N.
Proof.
  move=> /andP [H0 H1] Hd.
  rewrite (@pivot_row_unit 2 [:: [:: r; 0; 1; 0]; [:: 1; 0; 0; 1]] _ 0%N d Hd); last by case=> [|[|[|j]]]; rewrite /tent /= ?mul0r.
  by rewrite /pivot_row /= /tent /= /nltb /nabs /= normr1 (gtr0_norm H0) H1.
Qed.
End Pivot.
