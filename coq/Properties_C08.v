(** C08 — property theorems only.  Each is closed by [exact] of a lemma proved in C08_Proofs.v.
    Objects (see Properties_C01.v): [tab xs ys] = the freshly constructed object; [ptab c xs ys] = the same object
    with prefactor c; [pcurve c xs ys x] = c * curve xs ys x is the curve Interpolate returns under the prefactor c;
    [integral_value c xs ys a b] is the value Integrate(a,b) returns (total function).
    Limits are taken inside the tabulated domain [x_0, x_{N-1}]; in the 1 % extrapolation zone outside it the clauses
    about extrema FAIL on the library (known finding K-C08-1), so no theorem is stated there. *)
From Coq Require Import Reals ZArith List.
From Coquelicot Require Import Coquelicot.
From LP Require Import Num NumR OrdLaws C01_Model C01_Proofs C01_Proofs_Global C08_Model C08_Proofs C08_Proofs_Ctor C08_Proofs_Life C08_Proofs_More C08_Proofs_Sel C08_Proofs_Ref C08_Proofs_P7.
From Coq Require Import Sorted Bool.
Import ListNotations.
Local Open Scope R_scope.

(** "all prefactors ... applied by any sequence of Set_Prefactor and Multiply calls": every history of the two operations
    on a fresh object yields the object [ptab c] with c the product/assignment history; so the theorems below, stated for
    an arbitrary real c (positive, negative, zero), cover every history. *)
Theorem C08_prefactor_history xs ys ops :
  fold_left apply_pop ops (tab xs ys) = ptab (fold_left pref_step ops 1) xs ys.
Proof. exact (history_is_ptab xs ys ops 1). Qed.
Print Assumptions C08_prefactor_history.

(** Interpolate under the prefactor c returns c times the curve ("scale with the prefactor ... exactly as Interpolate does") *)
Theorem C08_interpolate_prefactor xs ys : valid_table xs ys -> forall c x,
  nth 0 xs 0 <= x <= nth (length xs - 1) xs 0 -> interpolate ROps (ptab c xs ys) x = Ok (pcurve c xs ys x).
Proof. exact (interpolate_ptab xs ys). Qed.
Print Assumptions C08_interpolate_prefactor.

(** "Integrate(x1,x2) is the exact integral of the curve returned by Interpolate" — limits in either order *)
Theorem C08_integrate_is_RInt xs ys : valid_table xs ys -> forall c x1 x2,
  nth 0 xs 0 <= x1 <= nth (length xs - 1) xs 0 -> nth 0 xs 0 <= x2 <= nth (length xs - 1) xs 0 ->
  exists I, integrate ROps (ptab c xs ys) x1 x2 = Ok I /\ is_RInt (pcurve c xs ys) x1 x2 I.
Proof. exact (integrate_is_RInt xs ys). Qed.
Print Assumptions C08_integrate_is_RInt.

Theorem C08_integrate_RInt xs ys : valid_table xs ys -> forall c a b,
  nth 0 xs 0 <= a <= nth (length xs - 1) xs 0 -> nth 0 xs 0 <= b <= nth (length xs - 1) xs 0 ->
  integrate ROps (ptab c xs ys) a b = Ok (RInt (pcurve c xs ys) a b).
Proof. exact (integrate_RInt xs ys). Qed.
Print Assumptions C08_integrate_RInt.

(** "additive over adjacent intervals" (for any three points of the domain, in any order) *)
Theorem C08_integrate_additive xs ys : valid_table xs ys -> forall c a b d,
  nth 0 xs 0 <= a <= nth (length xs - 1) xs 0 -> nth 0 xs 0 <= b <= nth (length xs - 1) xs 0 ->
  nth 0 xs 0 <= d <= nth (length xs - 1) xs 0 ->
  integral_value c xs ys a b + integral_value c xs ys b d = integral_value c xs ys a d.
Proof. exact (integrate_additive xs ys). Qed.
Print Assumptions C08_integrate_additive.

(** "antisymmetric under exchange of its limits" *)
Theorem C08_integrate_antisymmetric xs ys : valid_table xs ys -> forall c a b,
  nth 0 xs 0 <= a <= nth (length xs - 1) xs 0 -> nth 0 xs 0 <= b <= nth (length xs - 1) xs 0 ->
  integral_value c xs ys b a = - integral_value c xs ys a b.
Proof. exact (integrate_antisymmetric xs ys). Qed.
Print Assumptions C08_integrate_antisymmetric.

(** "bounded by curve minimum and maximum times the interval length" (with the values Local_Minimum/Maximum return) *)
Theorem C08_integrate_bounded_by_extrema xs ys : valid_table xs ys -> forall c x1 x2,
  nth 0 xs 0 <= x1 <= nth (length xs - 1) xs 0 -> nth 0 xs 0 <= x2 <= nth (length xs - 1) xs 0 -> x1 <= x2 ->
  exists I mn mx, integrate ROps (ptab c xs ys) x1 x2 = Ok I /\
    local_minimum ROps (ptab c xs ys) x1 x2 = Ok mn /\ local_maximum ROps (ptab c xs ys) x1 x2 = Ok mx /\
    mn * (x2 - x1) <= I <= mx * (x2 - x1).
Proof. exact (integrate_bounded_by_extrema xs ys). Qed.
Print Assumptions C08_integrate_bounded_by_extrema.

(** "its derivative with respect to the upper limit is Interpolate" *)
Theorem C08_integrate_derivative_upper xs ys : valid_table xs ys -> forall c a x,
  nth 0 xs 0 <= a <= nth (length xs - 1) xs 0 -> nth 0 xs 0 < x < nth (length xs - 1) xs 0 ->
  is_derive (fun t => integral_value c xs ys a t) x (pcurve c xs ys x).
Proof. exact (integrate_derivative_upper xs ys). Qed.
Print Assumptions C08_integrate_derivative_upper.

(** "Local_Minimum/Local_Maximum(x1,x2) equal the smallest and largest value the curve takes on [x1,x2]", for a prefactor
    of either sign: a bound for every x of [x1,x2], attained at some point of [x1,x2] *)
Theorem C08_local_minimum xs ys : valid_table xs ys -> forall c x1 x2,
  nth 0 xs 0 <= x1 <= nth (length xs - 1) xs 0 -> nth 0 xs 0 <= x2 <= nth (length xs - 1) xs 0 -> x1 <= x2 ->
  exists r, local_minimum ROps (ptab c xs ys) x1 x2 = Ok r /\
    (forall x, x1 <= x <= x2 -> r <= pcurve c xs ys x) /\ (exists x, x1 <= x <= x2 /\ r = pcurve c xs ys x).
Proof. exact (local_minimum_spec xs ys). Qed.
Print Assumptions C08_local_minimum.

Theorem C08_local_maximum xs ys : valid_table xs ys -> forall c x1 x2,
  nth 0 xs 0 <= x1 <= nth (length xs - 1) xs 0 -> nth 0 xs 0 <= x2 <= nth (length xs - 1) xs 0 -> x1 <= x2 ->
  exists r, local_maximum ROps (ptab c xs ys) x1 x2 = Ok r /\
    (forall x, x1 <= x <= x2 -> pcurve c xs ys x <= r) /\ (exists x, x1 <= x <= x2 /\ r = pcurve c xs ys x).
Proof. exact (local_maximum_spec xs ys). Qed.
Print Assumptions C08_local_maximum.

(** "Global_Minimum/Global_Maximum ... the smallest and largest over the whole domain, so no evaluation ever falls
    outside them" (evaluations inside the tabulated domain), attained at a tabulated abscissa *)
Theorem C08_global_minimum xs ys : valid_table xs ys -> forall c,
  exists r, global_minimum ROps (ptab c xs ys) = Ok r /\
    (forall x, nth 0 xs 0 <= x <= nth (length xs - 1) xs 0 -> r <= pcurve c xs ys x) /\
    (exists i, (i < length xs)%nat /\ r = pcurve c xs ys (nth i xs 0)).
Proof. exact (global_minimum_spec xs ys). Qed.
Print Assumptions C08_global_minimum.

Theorem C08_global_maximum xs ys : valid_table xs ys -> forall c,
  exists r, global_maximum ROps (ptab c xs ys) = Ok r /\
    (forall x, nth 0 xs 0 <= x <= nth (length xs - 1) xs 0 -> pcurve c xs ys x <= r) /\
    (exists i, (i < length xs)%nat /\ r = pcurve c xs ys (nth i xs 0)).
Proof. exact (global_maximum_spec xs ys). Qed.
Print Assumptions C08_global_maximum.

(** "all of these scale with the prefactor ..., of either sign": the extrema under c are c times the extrema under 1,
    minimum and maximum exchanged for c <= 0 *)
Theorem C08_local_extrema_scale xs ys : valid_table xs ys -> forall c x1 x2,
  nth 0 xs 0 <= x1 <= nth (length xs - 1) xs 0 -> nth 0 xs 0 <= x2 <= nth (length xs - 1) xs 0 -> x1 <= x2 ->
  exists mn mx mn1 mx1,
    local_minimum ROps (ptab c xs ys) x1 x2 = Ok mn /\ local_maximum ROps (ptab c xs ys) x1 x2 = Ok mx /\
    local_minimum ROps (tab xs ys) x1 x2 = Ok mn1 /\ local_maximum ROps (tab xs ys) x1 x2 = Ok mx1 /\
    (0 <= c -> mn = c * mn1 /\ mx = c * mx1) /\ (c <= 0 -> mn = c * mx1 /\ mx = c * mn1).
Proof. exact (local_extrema_scale xs ys). Qed.
Print Assumptions C08_local_extrema_scale.

(** 2-D: [pgrid c xs ys f] = the grid object with prefactor c (any history of Set_Prefactor / Multiply, next theorem).
    Global_Minimum/Maximum bound every evaluation on the grid and are attained at a node. *)
Theorem C08_prefactor_history_2d xs ys f ops :
  fold_left (fun o p => match p with SetP v => set_prefactor2 o v | Mul v => multiply2 ROps o v end) ops (pgrid 1 xs ys f)
  = pgrid (fold_left pref_step ops 1) xs ys f.
Proof. exact (history2_is_pgrid xs ys f ops 1). Qed.
Print Assumptions C08_prefactor_history_2d.

Theorem C08_global_extrema_2d xs ys f : valid_grid xs ys f -> forall c,
  exists mn mx, global_minimum2 ROps (pgrid c xs ys f) = Ok mn /\ global_maximum2 ROps (pgrid c xs ys f) = Ok mx /\
    (forall i j x y, (S i < length xs)%nat -> (S j < length ys)%nat ->
       nth i xs 0 <= x <= nth (S i) xs 0 -> nth j ys 0 <= y <= nth (S j) ys 0 ->
       exists v, interpolate2 ROps (pgrid c xs ys f) x y = Ok v /\ mn <= v <= mx) /\
    (exists i j, (i < length xs)%nat /\ (j < length ys)%nat /\ interpolate2 ROps (pgrid c xs ys f) (nth i xs 0) (nth j ys 0) = Ok mn) /\
    (exists i j, (i < length xs)%nat /\ (j < length ys)%nat /\ interpolate2 ROps (pgrid c xs ys f) (nth i xs 0) (nth j ys 0) = Ok mx).
Proof. exact (global_extrema2_spec xs ys f). Qed.
Print Assumptions C08_global_extrema_2d.

(** "all tables as in C01": the objects made by the default constructors Interpolation() and Interpolation_2D() are the
    [tab] / [grid] objects of a valid (all-zero) table, so every theorem above holds for them as well (the constructor from
    lists is C01_construct_ok / C01 construct2_ok; the 2-D constructor from a data table is tied by correspondence only). *)
Theorem C08_default_object :
  construct_default ROps = Ok (tab [-1; 0; 1] [0; 0; 0]) /\ valid_table [-1; 0; 1] [0; 0; 0].
Proof. exact construct_default_ok. Qed.
Print Assumptions C08_default_object.

Theorem C08_default_object_2d :
  construct2_default ROps = Ok (grid [-1; 0; 1] [-1; 0; 1] [[0; 0; 0]; [0; 0; 0]; [0; 0; 0]])
  /\ valid_grid [-1; 0; 1] [-1; 0; 1] [[0; 0; 0]; [0; 0; 0]; [0; 0; 0]].
Proof. exact construct2_default_ok. Qed.
Print Assumptions C08_default_object_2d.

(** "histories" with several objects: a program may copy an object (copy construction, copy assignment, a by-value parameter, a
    std::vector element), move it, swap it, destroy it.  [store]/[lstep] (C08_Model.v) is the value semantics of the class; in it
    a copy holds what its source held when the copy was made and keeps it through every later operation that does not write the
    copy itself -- re-assignment, move-out or destruction of the source included -- so every theorem above keeps holding for
    the copy with the table and prefactor it was copied with.  (That the C++ objects behave like this store is tied by the
    correspondence check: sessions s1/r1/s2/r2 of checks/C08.py.) *)
Theorem C08_copy_keeps_value (A : Type) (s : store A) k j (ops : list (lop A)) :
  (k < length s)%nat ->
  forallb (fun op => negb (writes op k)) ops = true ->
  st_get (fold_left lstep ops (lstep s (LCopy k j))) k = st_get s j.
Proof. exact (copy_keeps_value s k j ops). Qed.
Print Assumptions C08_copy_keeps_value.

Theorem C08_move_keeps_value (A : Type) (s : store A) k j (ops : list (lop A)) :
  (k < length s)%nat -> k <> j ->
  forallb (fun op => negb (writes op k)) ops = true ->
  st_get (fold_left lstep ops (lstep s (LMove k j))) k = st_get s j.
Proof. exact (move_keeps_value s k j ops). Qed.
Print Assumptions C08_move_keeps_value.

(** an operation changes only the slots it writes (the other objects of the program are not affected) *)
Theorem C08_objects_independent (A : Type) (ops : list (lop A)) (s : store A) i :
  forallb (fun op => negb (writes op i)) ops = true -> st_get (fold_left lstep ops s) i = st_get s i.
Proof. exact (lsteps_frame ops s i). Qed.
Print Assumptions C08_objects_independent.

(** long tables (any floating-point or real instance [Ops]): the summation loop of Integrate and the knot scan of
    Local_Minimum/Maximum may be cut after any number of steps and resumed with the running value -- no request size is special *)
Theorem C08_integrate_loop_split (T : Type) (Ops : NumOps T) (o : itab) x1 x2 i1 i2 c1 c2 i acc :
  integrate_loop Ops o x1 x2 i1 i2 (c1 + c2) i acc =
  rbind (integrate_loop Ops o x1 x2 i1 i2 c1 i acc) (fun acc' => integrate_loop Ops o x1 x2 i1 i2 c2 (i + c1) acc').
Proof. exact (integrate_loop_split Ops o x1 x2 i1 i2 c1 c2 i acc). Qed.
Print Assumptions C08_integrate_loop_split.

Theorem C08_knot_scan_split (T : Type) (Ops : NumOps T) pick (o : itab) x1 x2 c1 c2 i m :
  knot_scan Ops pick o x1 x2 (c1 + c2) i m =
  rbind (knot_scan Ops pick o x1 x2 c1 i m) (fun m' => knot_scan Ops pick o x1 x2 c2 (i + c1) m').
Proof. exact (knot_scan_split Ops pick o x1 x2 c1 c2 i m). Qed.
Print Assumptions C08_knot_scan_split.

(** "all of these scale with the prefactor ..., of either sign, exactly as Interpolate does" -- the clauses not covered by
    C08_local_extrema_scale: Integrate under c is c times Integrate under 1; Global_Minimum / Global_Maximum under c are c times
    those under 1, exchanged for c <= 0 (1-D, then 2-D).  (non-vacuity: C08_example, C08_more_example) *)
Theorem C08_prefactor_scaling xs ys : valid_table xs ys -> forall c,
  (forall a b, nth 0 xs 0 <= a <= nth (length xs - 1) xs 0 -> nth 0 xs 0 <= b <= nth (length xs - 1) xs 0 ->
     integral_value c xs ys a b = c * integral_value 1 xs ys a b) /\
  (exists mn mx mn1 mx1,
    global_minimum ROps (ptab c xs ys) = Ok mn /\ global_maximum ROps (ptab c xs ys) = Ok mx /\
    global_minimum ROps (tab xs ys) = Ok mn1 /\ global_maximum ROps (tab xs ys) = Ok mx1 /\
    (0 <= c -> mn = c * mn1 /\ mx = c * mx1) /\ (c <= 0 -> mn = c * mx1 /\ mx = c * mn1)).
Proof. exact (prefactor_scaling_1d xs ys). Qed.
Print Assumptions C08_prefactor_scaling.

Theorem C08_prefactor_scaling_2d xs ys f c : valid_grid xs ys f ->
  exists mn mx mn1 mx1,
    global_minimum2 ROps (pgrid c xs ys f) = Ok mn /\ global_maximum2 ROps (pgrid c xs ys f) = Ok mx /\
    global_minimum2 ROps (pgrid 1 xs ys f) = Ok mn1 /\ global_maximum2 ROps (pgrid 1 xs ys f) = Ok mx1 /\
    (0 <= c -> mn = c * mn1 /\ mx = c * mx1) /\ (c <= 0 -> mn = c * mx1 /\ mx = c * mn1).
Proof. exact (global_extrema2_scale xs ys f c). Qed.
Print Assumptions C08_prefactor_scaling_2d.

(** "Local_Minimum/Local_Maximum(x1,x2) equal the smallest and largest value the curve takes on [x1,x2] and Global_... over the
    whole domain": hence a window encloses each of its sub-windows and the global extrema enclose every window -- however many
    intervals either of them spans *)
Theorem C08_extrema_nested xs ys : valid_table xs ys -> forall c x1 x2 u1 u2,
  nth 0 xs 0 <= x1 <= nth (length xs - 1) xs 0 -> nth 0 xs 0 <= x2 <= nth (length xs - 1) xs 0 ->
  x1 <= u1 -> u1 <= u2 -> u2 <= x2 ->
  exists gmn mn mn' mx' mx gmx,
    global_minimum ROps (ptab c xs ys) = Ok gmn /\ global_maximum ROps (ptab c xs ys) = Ok gmx /\
    local_minimum ROps (ptab c xs ys) x1 x2 = Ok mn /\ local_maximum ROps (ptab c xs ys) x1 x2 = Ok mx /\
    local_minimum ROps (ptab c xs ys) u1 u2 = Ok mn' /\ local_maximum ROps (ptab c xs ys) u1 u2 = Ok mx' /\
    gmn <= mn /\ mn <= mn' /\ mn' <= mx' /\ mx' <= mx /\ mx <= gmx.
Proof. exact (local_extrema_nested xs ys). Qed.
Print Assumptions C08_extrema_nested.

(** "all limit pairs (... in the extrapolation zone)": Locate accepts exactly the points of (x_0 - tolL, x_{N-1} + tolR), tolL / tolR =
    1 % of the first / last interval (C01).  For EVERY accepted point Interpolate returns the curve, and for EVERY pair of accepted
    limits, in either order, Integrate is the Riemann integral of that curve (outside the table: the continued first / last cubic) *)
Theorem C08_accepted_limits xs ys : valid_table xs ys -> forall c,
  (forall x, nth 0 xs 0 - tolL xs < x < nth (length xs - 1) xs 0 + tolR xs ->
     interpolate ROps (ptab c xs ys) x = Ok (pcurve c xs ys x)) /\
  (forall x1 x2, nth 0 xs 0 - tolL xs < x1 < nth (length xs - 1) xs 0 + tolR xs ->
     nth 0 xs 0 - tolL xs < x2 < nth (length xs - 1) xs 0 + tolR xs ->
     exists I, integrate ROps (ptab c xs ys) x1 x2 = Ok I /\ is_RInt (pcurve c xs ys) x1 x2 I).
Proof. exact (accepted_limits xs ys). Qed.
Print Assumptions C08_accepted_limits.

(** ... so on the whole accepted range Integrate stays additive and antisymmetric, and its derivative in the upper limit is
    Interpolate at every accepted point, the two end abscissae included.  (The clauses about the EXTREMA do fail in the zone: K-C08-1.) *)
Theorem C08_integrate_laws_accepted_limits xs ys : valid_table xs ys -> forall c,
  (forall a b d, nth 0 xs 0 - tolL xs < a < nth (length xs - 1) xs 0 + tolR xs ->
     nth 0 xs 0 - tolL xs < b < nth (length xs - 1) xs 0 + tolR xs -> nth 0 xs 0 - tolL xs < d < nth (length xs - 1) xs 0 + tolR xs ->
     integral_value c xs ys a b + integral_value c xs ys b d = integral_value c xs ys a d) /\
  (forall a b, nth 0 xs 0 - tolL xs < a < nth (length xs - 1) xs 0 + tolR xs ->
     nth 0 xs 0 - tolL xs < b < nth (length xs - 1) xs 0 + tolR xs ->
     integral_value c xs ys b a = - integral_value c xs ys a b) /\
  (forall a x, nth 0 xs 0 - tolL xs < a < nth (length xs - 1) xs 0 + tolR xs ->
     nth 0 xs 0 - tolL xs < x < nth (length xs - 1) xs 0 + tolR xs ->
     is_derive (fun t => integral_value c xs ys a t) x (pcurve c xs ys x)).
Proof. exact (integrate_laws_accepted_limits xs ys). Qed.
Print Assumptions C08_integrate_laws_accepted_limits.

(** the error branches: with a limit that Locate does not accept Integrate and Local_Minimum / Local_Maximum terminate the
    process; reversed limits of Local_Minimum / Local_Maximum do so for every object and every number type *)
Theorem C08_rejected_limits xs ys : valid_table xs ys -> forall c x1 x2,
  ~ (nth 0 xs 0 - tolL xs < x1 < nth (length xs - 1) xs 0 + tolR xs) \/
  ~ (nth 0 xs 0 - tolL xs < x2 < nth (length xs - 1) xs 0 + tolR xs) ->
  integrate ROps (ptab c xs ys) x1 x2 = Exit /\ forall pick, local_extremum ROps pick (ptab c xs ys) x1 x2 = Exit.
Proof. exact (rejected_limits xs ys). Qed.
Print Assumptions C08_rejected_limits.

Theorem C08_local_extremum_reversed_limits (T : Type) (Ops : NumOps T) pick (o : itab) x1 x2 :
  nltb Ops x2 x1 = true -> local_extremum Ops pick o x1 x2 = Exit.
Proof. exact (local_extremum_reversed Ops pick o x1 x2). Qed.
Print Assumptions C08_local_extremum_reversed_limits.

(** Local_Minimum / Local_Maximum in floating point: for ANY number type whose comparisons form a total order (OrdLaws: IEEE
    doubles without NaN, rounding included), any object [o] (any table length, any prefactor) and any limits, a returned value is
    exactly the least / greatest of the candidates -- Interpolate at the two limits and prefactor * f_k for EVERY tabulated
    abscissa k = i_1 .. i_2 + 1 that lies inside the limits: it is not above / below any of them and it is one of them.
    [nle a b] is "not b < a"; [inside Ops o x1 x2 k v] says v = prefactor * f_k with x1 <= x_k <= x2.
    (non-vacuity: C08_select_example) *)
Theorem C08_local_minimum_select (T : Type) (Ops : NumOps T) : OrdLaws Ops -> forall (o : itab) x1 x2 r,
  local_minimum Ops o x1 x2 = Ok r ->
  exists fl fr i1 i2,
    interpolate Ops o x1 = Ok fl /\ interpolate Ops o x2 = Ok fr /\ locate Ops o x1 = Ok i1 /\ locate Ops o x2 = Ok i2 /\
    nle Ops r fl /\ nle Ops r fr /\
    (forall k v, (i1 <= k <= S i2)%nat -> inside Ops o x1 x2 k v -> nle Ops r v) /\
    (r = fl \/ r = fr \/ exists k, (i1 <= k <= S i2)%nat /\ inside Ops o x1 x2 k r).
Proof. exact (local_minimum_select Ops). Qed.
Print Assumptions C08_local_minimum_select.

Theorem C08_local_maximum_select (T : Type) (Ops : NumOps T) : OrdLaws Ops -> forall (o : itab) x1 x2 r,
  local_maximum Ops o x1 x2 = Ok r ->
  exists fl fr i1 i2,
    interpolate Ops o x1 = Ok fl /\ interpolate Ops o x2 = Ok fr /\ locate Ops o x1 = Ok i1 /\ locate Ops o x2 = Ok i2 /\
    nle Ops fl r /\ nle Ops fr r /\
    (forall k v, (i1 <= k <= S i2)%nat -> inside Ops o x1 x2 k v -> nle Ops v r) /\
    (r = fl \/ r = fr \/ exists k, (i1 <= k <= S i2)%nat /\ inside Ops o x1 x2 k r).
Proof. exact (local_maximum_select Ops). Qed.
Print Assumptions C08_local_maximum_select.

(** Global_Minimum / Global_Maximum in floating point (1-D, then 2-D): for ANY number type whose comparisons form a total order
    (OrdLaws: IEEE doubles without NaN, rounding included), any object (any table size, any prefactor), a returned value is exactly
    min resp. max of prefactor * f_min and prefactor * f_max, where f_min / f_max is an entry of the table not above / not below
    ANY entry of the table (in 2-D: of any row of it).  [least l m] = In m l and nle m v for every v in l; [least2 f m] the same over
    the entries of all rows.  No arithmetic law is used.  (non-vacuity: C08_global_select_example) *)
Theorem C08_global_extrema_select (T : Type) (Ops : NumOps T) : OrdLaws Ops ->
  (forall o : itab,
    (forall r, global_minimum Ops o = Ok r -> exists fmin fmax, least Ops (iys o) fmin /\ greatest Ops (iys o) fmax /\
       r = nmin Ops (nmul Ops (ipre o) fmin) (nmul Ops (ipre o) fmax)) /\
    (forall r, global_maximum Ops o = Ok r -> exists fmin fmax, least Ops (iys o) fmin /\ greatest Ops (iys o) fmax /\
       r = nmax Ops (nmul Ops (ipre o) fmin) (nmul Ops (ipre o) fmax))) /\
  (forall o : itab2,
    (forall r, global_minimum2 Ops o = Ok r -> exists fmin fmax, least2 Ops (jf o) fmin /\ greatest2 Ops (jf o) fmax /\
       r = nmin Ops (nmul Ops (jpre o) fmin) (nmul Ops (jpre o) fmax)) /\
    (forall r, global_maximum2 Ops o = Ok r -> exists fmin fmax, least2 Ops (jf o) fmin /\ greatest2 Ops (jf o) fmax /\
       r = nmax Ops (nmul Ops (jpre o) fmin) (nmul Ops (jpre o) fmax))).
Proof. exact (fun OL => conj (global_extrema_select Ops OL) (global_extrema2_select Ops OL)). Qed.
Print Assumptions C08_global_extrema_select.

(** "all tables as in C01" -- the constructor Interpolation_2D(data_table, x_dim, y_dim, f_dim): applied to the x-major listing
    [grid_rows xs ys f] (for every x_i in turn the rows (x_i, y_j, f_ij)) of ANY valid grid -- any numbers of abscissae -- it makes the
    object the constructor from lists makes, i.e. the [grid] object of the valid grid scaled by the units, so every 2-D theorem above
    holds for it (sort / unique recover the axes, the fill loop recovers f).  (non-vacuity: C08_table_example) *)
Theorem C08_table_constructor_grid xs ys f xd yd fd : valid_grid xs ys f ->
  C08_Model.construct2_table ROps (grid_rows xs ys f) xd yd fd
    = Ok (grid (scale ROps xd xs) (scale ROps yd ys) (scale2 ROps fd f)) /\
  valid_grid (scale ROps xd xs) (scale ROps yd ys) (scale2 ROps fd f).
Proof. exact (table_constructor8_object xs ys f xd yd fd). Qed.
Print Assumptions C08_table_constructor_grid.

(** ... and a data table with a row that does not have three entries terminates the process (any number type, any table size) *)
Theorem C08_table_constructor_bad_row (T : Type) (Ops : NumOps T) (data : list (list T)) xd yd fd :
  (exists r, In r data /\ length r <> 3%nat) -> C08_Model.construct2_table Ops data xd yd fd = Exit.
Proof. exact (table_constructor8_bad_row Ops data xd yd fd). Qed.
Print Assumptions C08_table_constructor_bad_row.

(** "antisymmetric under exchange of its limits", in floating point: for ANY number type (no law assumed) and any object,
    Integrate(a,b) and Integrate(b,a) with a < b form the SAME sum [integrate_sum o a b] (same Locate calls, same loop) and differ
    only in the final factor 1 / -1 -- so on doubles, where multiplication by +-1 is exact, Integrate(b,a) = -Integrate(a,b) bit for bit.
    Any history of Set_Prefactor / Multiply, in any number type, leaves every member but the prefactor untouched, and the prefactor
    is the left fold of the history (Multiply: prefactor * factor, in this order). *)
Theorem C08_any_number_type (T : Type) (Ops : NumOps T) :
  (forall (o : itab) a b, nltb Ops a b = true -> nltb Ops b a = false ->
     integrate Ops o a b = rbind (integrate_sum Ops o a b) (fun s => Ok (nmul Ops (nofZ Ops 1) s)) /\
     integrate Ops o b a = rbind (integrate_sum Ops o a b) (fun s => Ok (nmul Ops (nofZ Ops (-1)) s))) /\
  (forall (ops : list (popT (T := T))) (o : itab),
     fold_left (apply_popT Ops) ops o = set_prefactor o (fold_left (pref_stepT Ops) ops (ipre o))).
Proof. exact (conj (integrate_exchange Ops) (history_any_ops Ops)). Qed.
Print Assumptions C08_any_number_type.

(** "Global_Minimum/Global_Maximum ... so no evaluation ever falls outside them", at full strength for EVERY evaluation point the
    library accepts: FALSE of the faithful model (known finding K-C08-1).  Witness: the straight-line table x = 0,1,2, y = 0,1,2,
    prefactor 1, x = -1/200 (inside the 1 % tolerance): Interpolate returns -1/200 < 0 <= Global_Minimum.  The witness is
    replayed on the library on every run (corpus/C08/known.case). *)
Theorem C08_global_bound_accepted_points_refuted :
  exists xs ys c x v r, valid_table xs ys /\
    nth 0 xs 0 - tolL xs < x < nth (length xs - 1) xs 0 + tolR xs /\
    interpolate ROps (ptab c xs ys) x = Ok v /\ global_minimum ROps (ptab c xs ys) = Ok r /\ v < r.
Proof. exact global_bound_accepted_points_refuted. Qed.
Print Assumptions C08_global_bound_accepted_points_refuted.

(** ---- seventh pass ---- *)

(** "Global_Minimum/Global_Maximum ... the smallest and largest over the whole domain": the domain is the public member [domain] the
    object carries.  After ANY history of Set_Prefactor / Multiply it is {x_0, x_{N-1}} (1-D) resp. {{x_0, x_last}, {y_0, y_last}} (2-D) *)
Theorem C08_domain_member xs ys f ops :
  domain1 (fold_left apply_pop ops (tab xs ys)) = [nth 0 xs 0; nth (length xs - 1) xs 0] /\
  domain2 (fold_left (fun o p => match p with SetP v => set_prefactor2 o v | Mul v => multiply2 ROps o v end) ops (pgrid 1 xs ys f))
  = [[nth 0 xs 0; nth (length xs - 1) xs 0]; [nth 0 ys 0; nth (length ys - 1) ys 0]].
Proof. exact (conj (domain_history xs ys ops) (domain_history_2d xs ys f ops)). Qed.
Print Assumptions C08_domain_member.

(** "... so no evaluation ever falls outside them": EVERY call of operator() / Interpolate with an argument between domain[0] and
    domain[1] (2-D: in the rectangle domain[0] x domain[1], whichever cell it falls into) returns a value between Global_Minimum and
    Global_Maximum, for a prefactor of either sign.  (non-vacuity: C08_p7_example) *)
Theorem C08_global_bounds_whole_domain xs ys : valid_table xs ys -> forall c,
  exists mn mx, global_minimum ROps (ptab c xs ys) = Ok mn /\ global_maximum ROps (ptab c xs ys) = Ok mx /\
    forall x, nth 0 (domain1 (ptab c xs ys)) 0 <= x <= nth 1 (domain1 (ptab c xs ys)) 0 ->
      exists v, call1 ROps (ptab c xs ys) x = Ok v /\ interpolate ROps (ptab c xs ys) x = Ok v /\ mn <= v <= mx.
Proof. exact (global_bounds_whole_domain xs ys). Qed.
Print Assumptions C08_global_bounds_whole_domain.

Theorem C08_global_bounds_whole_domain_2d xs ys f : valid_grid xs ys f -> forall c,
  exists mn mx, global_minimum2 ROps (pgrid c xs ys f) = Ok mn /\ global_maximum2 ROps (pgrid c xs ys f) = Ok mx /\
    forall x y,
      nth 0 (nth 0 (domain2 (pgrid c xs ys f)) []) 0 <= x <= nth 1 (nth 0 (domain2 (pgrid c xs ys f)) []) 0 ->
      nth 0 (nth 1 (domain2 (pgrid c xs ys f)) []) 0 <= y <= nth 1 (nth 1 (domain2 (pgrid c xs ys f)) []) 0 ->
      exists v, call2 ROps (pgrid c xs ys f) x y = Ok v /\ mn <= v <= mx.
Proof. exact (global_bounds_whole_domain_2d xs ys f). Qed.
Print Assumptions C08_global_bounds_whole_domain_2d.

(** "all tables as in C01" -- the constructor Interpolation_2D(data_table, ...), converse of C08_table_constructor_grid: whenever it
    returns an object, the data table IS the x-major listing of a rectangular table f over strictly increasing axes xs, ys, and the
    object is the one the constructor from lists makes of (xs, ys, f).  So a table with rows out of order, a repeated or a missing
    node never yields an object.  (non-vacuity: C08_p7_example) *)
Theorem C08_table_constructor_accepts_only_listings data xd yd fd o :
  C08_Model.construct2_table ROps data xd yd fd = Ok o ->
  exists xs ys f, StronglySorted Rlt xs /\ StronglySorted Rlt ys /\
    length f = length xs /\ List.Forall (fun row => length row = length ys) f /\
    data = grid_rows xs ys f /\ construct2 ROps xs ys f xd yd fd = Ok o.
Proof. exact (table_constructor8_only_listings data xd yd fd o). Qed.
Print Assumptions C08_table_constructor_accepts_only_listings.

(** the two remaining error branches of that constructor, for ANY number type: (#distinct x) * (#distinct y) <> #rows terminates the
    process ("List lenghts do not fit"), and so does a row that is not the node the fill loop expects ("not in right format") *)
Theorem C08_table_constructor_error_branches (T : Type) (Ops : NumOps T) :
  (forall (data : list (list T)) xd yd fd xy, C08_Model.split_rows3 data = Ok xy ->
     (length (C08_Model.unique_list Ops (C08_Model.sort_list Ops (fst xy))) *
      length (C08_Model.unique_list Ops (C08_Model.sort_list Ops (snd xy))) <> length data)%nat ->
     C08_Model.construct2_table Ops data xd yd fd = Exit) /\
  (forall xv yv ys' dx dy dz rest, nneb Ops xv dx || nneb Ops yv dy = true ->
     fill_row Ops xv (yv :: ys') ([dx; dy; dz] :: rest) = Exit).
Proof. exact (conj (@table_constructor8_size_mismatch T Ops) (@fill_row_wrong_node T Ops)). Qed.
Print Assumptions C08_table_constructor_error_branches.

(** "no evaluation ever falls outside them", in floating point, at the tabulated points: for ANY number type whose comparisons form a
    total order and whose multiplication by a fixed factor is monotone (premise; true of correctly rounded IEEE multiplication
    without NaN: non-decreasing for a factor >= 0, non-increasing for a factor <= 0), any object, any table size and any prefactor,
    prefactor * f lies between Global_Minimum and Global_Maximum for EVERY entry f of the table (1-D; 2-D: every entry of every row).
    (non-vacuity: ROps_mul_monotone, C08_p7_example) *)
Theorem C08_global_bounds_every_entry_fp (T : Type) (Ops : NumOps T) : OrdLaws Ops ->
  (forall c a v b, nle Ops a v -> nle Ops v b ->
     (nle Ops (nmul Ops c a) (nmul Ops c v) /\ nle Ops (nmul Ops c v) (nmul Ops c b)) \/
     (nle Ops (nmul Ops c b) (nmul Ops c v) /\ nle Ops (nmul Ops c v) (nmul Ops c a))) ->
  (forall (o : itab) mn mx, global_minimum Ops o = Ok mn -> global_maximum Ops o = Ok mx ->
     forall v, In v (iys o) -> nle Ops mn (nmul Ops (ipre o) v) /\ nle Ops (nmul Ops (ipre o) v) mx) /\
  (forall (o : itab2) mn mx, global_minimum2 Ops o = Ok mn -> global_maximum2 Ops o = Ok mx ->
     forall row v, In row (jf o) -> In v row -> nle Ops mn (nmul Ops (jpre o) v) /\ nle Ops (nmul Ops (jpre o) v) mx).
Proof. exact (fun OL M => conj (global_bounds_every_entry Ops OL M) (global_bounds_every_entry_2d Ops OL M)). Qed.
Print Assumptions C08_global_bounds_every_entry_fp.

(** "prefactor: multiplicative factor applied by Interpolate/Derivative/Integrate" -- "scale with the prefactor ... exactly as Interpolate
    does": Derivative(x, k) under the prefactor c is c times Derivative(x, k) under 1, for every order k (0: the value, 1..3, and the
    constant 0 beyond) and EVERY point the library accepts (the 1 % zone included).  (non-vacuity: C08_p7_example, w_accepted) *)
Theorem C08_derivative_prefactor xs ys : valid_table xs ys -> forall c x k,
  nth 0 xs 0 - tolL xs < x < nth (length xs - 1) xs 0 + tolR xs ->
  exists d1, derivative ROps (tab xs ys) x k = Ok d1 /\ derivative ROps (ptab c xs ys) x k = Ok (c * d1).
Proof. exact (derivative_prefactor xs ys). Qed.
Print Assumptions C08_derivative_prefactor.
