(** * C19 proofs: the helpers against each other ("reduce to each other"), over R, for data sets and grids of any size.
    (1) Arithmetic_Mean and Median of a Linear_Space grid are the mid-point (min+max)/2, either orientation;
    (2) Arithmetic_Mean of Combine_Lists is the size-weighted mean of the means;
    (3) Variance in its Koenig-Huygens form, and Variance = 0 exactly for constant data;
    (4) Locate_Closest_Location finds a member exactly; on strictly increasing lists - in particular on
        Linear_Space / Log_Space grids - looking up the k-th element returns k. *)
From Coq Require Import ZArith List Bool Lia Arith Reals Lra Sorting.Permutation Sorting.Sorted.
From LP Require Import Num NumR C19_Model C19_Proofs_Lists C19_Proofs_Stats C19_Proofs_Histories.
Import ListNotations.
Local Open Scope R_scope.

Lemma Rsum_app (l1 l2 : list R) : Rsum (l1 ++ l2) = Rsum l1 + Rsum l2.
Proof. induction l1 as [|a l1 IH]; simpl; [ring|]. rewrite IH. ring. Qed.

(** ** 1. statistics of a grid *)
Lemma Rsum_affine_seq (a h : R) (n : nat) :
  Rsum (map (fun i => a + INR i * h) (seq 0 n)) = INR n * a + h * (INR n * (INR n - 1) / 2).
Proof.
  induction n as [|n IH]; [simpl; field|].
  rewrite seq_S, map_app, Rsum_app, IH. simpl (0 + n)%nat. rewrite S_INR. simpl. field.
Qed.

Theorem mean_linear_space (mn mx : R) (steps : nat) : (2 <= steps)%nat ->
  arithmetic_mean ROps (linear_space ROps mn mx steps) = (mn + mx) / 2.
Proof.
  intros Hs. destruct (Req_dec mn mx) as [->|Hne].
  - rewrite linear_space_degenerate by now right. rewrite mean_R. simpl. field.
  - rewrite linear_space_eq by assumption. rewrite mean_R, Rsum_affine_seq, map_length, seq_length.
    pose proof (INR_steps_m1_pos steps Hs). field. lra.
Qed.

Lemma StronglySorted_map_seq (f : nat -> R) : (forall i j, (i <= j)%nat -> f i <= f j) ->
  forall n s, StronglySorted Rle (map f (seq s n)).
Proof.
  intros Hf. induction n as [|n IH]; intros s; simpl; constructor; [apply IH|].
  rewrite Forall_forall. intros y Hy. apply in_map_iff in Hy. destruct Hy as [j [<- Hj]].
  apply in_seq in Hj. apply Hf. lia.
Qed.

Lemma median_affine_seq (a h : R) (n : nat) : (1 <= n)%nat -> 0 <= h ->
  median ROps (map (fun i => a + INR i * h) (seq 0 n)) = a + (INR n - 1) / 2 * h.
Proof.
  intros Hn Hh. set (g := map (fun i => a + INR i * h) (seq 0 n)).
  assert (Hsort : sort_list ROps g = g).
  { symmetry. apply sort_list_unique; [|reflexivity]. apply StronglySorted_map_seq.
    intros i j Hij. apply le_INR in Hij. nra. }
  assert (Hlen : length g = n) by (unfold g; now rewrite map_length, seq_length).
  rewrite median_R, Hsort, Hlen. clear Hsort Hlen. unfold g. clear g.
  destruct (Nat.Even_or_Odd n) as [[m Hm]|[m Hm]]; subst n.
  - assert (Nat.even (2 * m) = true) as -> by (rewrite Nat.even_mul; reflexivity).
    replace (2 * m / 2)%nat with m by (rewrite Nat.mul_comm, Nat.div_mul; lia).
    rewrite !(nth_map_seq (fun i => a + INR i * h)) by lia.
    rewrite minus_INR by lia. rewrite mult_INR. simpl. field.
  - assert (Nat.even (2 * m + 1) = false) as ->.
    { rewrite Nat.even_add, Nat.even_mul. reflexivity. }
    replace ((2 * m + 1) / 2)%nat with m.
    2:{ rewrite Nat.mul_comm, Nat.div_add_l by lia. simpl. lia. }
    rewrite (nth_map_seq (fun i => a + INR i * h)) by lia.
    rewrite plus_INR, mult_INR. simpl. field.
Qed.

Lemma median_linear_space_up (mn mx : R) (steps : nat) : (2 <= steps)%nat -> mn < mx ->
  median ROps (linear_space ROps mn mx steps) = (mn + mx) / 2.
Proof.
  intros Hs Hlt. rewrite linear_space_eq by (assumption || lra).
  pose proof (INR_steps_m1_pos steps Hs) as Hpos.
  rewrite median_affine_seq; [field; lra|lia|].
  apply Rmult_le_pos; [lra|]. left. now apply Rinv_0_lt_compat.
Qed.

Theorem median_linear_space (mn mx : R) (steps : nat) : (2 <= steps)%nat ->
  median ROps (linear_space ROps mn mx steps) = (mn + mx) / 2.
Proof.
  intros Hs. destruct (Rtotal_order mn mx) as [H|[->|H]].
  - now apply median_linear_space_up.
  - rewrite linear_space_degenerate by now right. rewrite median_R. simpl. field.
  - rewrite (linear_space_reverse mx mn steps Hs).
    rewrite (median_perm _ (linear_space ROps mx mn steps)) by (apply Permutation_sym, Permutation_rev).
    rewrite median_linear_space_up by assumption. field.
Qed.

Example grid_stats_ex : arithmetic_mean ROps (linear_space ROps 1 4 4) = (1 + 4) / 2 /\ (2 <= 4)%nat.
Proof. split; [apply mean_linear_space|]; lia. Qed.

(** ** 2. the mean of combined lists *)
Lemma len_times_mean (l : list R) : INR (length l) * arithmetic_mean ROps l = Rsum l.
Proof.
  rewrite mean_R. destruct l as [|a l]; [simpl; unfold Rdiv; ring|].
  field. apply not_0_INR. discriminate.
Qed.

Theorem mean_combine (l1 l2 : list R) :
  arithmetic_mean ROps (combine_lists l1 l2)
  = (INR (length l1) * arithmetic_mean ROps l1 + INR (length l2) * arithmetic_mean ROps l2)
    / (INR (length l1) + INR (length l2)).
Proof.
  rewrite !len_times_mean. unfold combine_lists. rewrite mean_R, Rsum_app, app_length, plus_INR. reflexivity.
Qed.

(** ** 3. Variance: Koenig-Huygens form; zero exactly for constant data *)
Lemma sqdev_expand (m : R) (l : list R) :
  sqdev m l = Rsum (map (fun x => x * x) l) - 2 * m * Rsum l + INR (length l) * (m * m).
Proof.
  unfold sqdev. induction l as [|x l IH]; [simpl; ring|].
  change (length (x :: l)) with (S (length l)). rewrite S_INR. simpl map. simpl Rsum.
  simpl in IH. rewrite IH. ring.
Qed.

Theorem variance_koenig (l : list R) :
  variance ROps l
  = (Rsum (map (fun x => x * x) l) - INR (length l) * (arithmetic_mean ROps l * arithmetic_mean ROps l))
    / (INR (length l) - 1).
Proof.
  rewrite variance_R, sqdev_expand. rewrite <- (len_times_mean l). f_equal. ring.
Qed.

Lemma sqdev_zero_iff (m : R) (l : list R) : sqdev m l = 0 <-> forall x, In x l -> x = m.
Proof.
  induction l as [|a l IH].
  - split; [intros _ x []|reflexivity].
  - assert (E : sqdev m (a :: l) = (a - m) * (a - m) + sqdev m l) by reflexivity.
    rewrite E. pose proof (sqdev_nonneg m l) as Hn.
    pose proof (Rle_0_sqr (a - m)) as Hq. unfold Rsqr in Hq.
    split.
    + intros H x [<-|Hx].
      * assert ((a - m) * (a - m) = 0) as H0 by lra. apply Rmult_integral in H0. lra.
      * apply (proj1 IH); [lra|assumption].
    + intros H. rewrite (proj2 IH) by (intros x Hx; apply H; now right).
      rewrite (H a) by now left. ring.
Qed.

Theorem variance_zero_iff (l : list R) : (2 <= length l)%nat ->
  (variance ROps l = 0 <-> forall x, In x l -> x = arithmetic_mean ROps l).
Proof.
  intros H2. rewrite variance_R, <- sqdev_zero_iff. pose proof (INR_steps_m1_pos _ H2) as Hpos.
  split.
  - intros H. unfold Rdiv in H. apply Rmult_integral in H. destruct H as [H|H]; [assumption|].
    pose proof (Rinv_0_lt_compat _ Hpos). lra.
  - intros ->. unfold Rdiv. ring.
Qed.

Example variance_zero_ex : (2 <= length [3; 3; 3])%nat /\ variance ROps [3; 3; 3] = 0.
Proof.
  split; [simpl; lia|]. apply variance_zero_iff; [simpl; lia|].
  rewrite mean_R. simpl. intros x [<-|[<-|[<-|[]]]]; field.
Qed.

(** ** 4. Locate_Closest_Location finds members *)
Theorem closest_location_member (l : list R) (t : R) :
  is_sorted ROps l = true -> In t l ->
  exists i, closest_location ROps l t = Ok i /\ (0 <= i < Z.of_nat (length l))%Z /\ nth (Z.to_nat i) l 0 = t.
Proof.
  intros Hs Hin. assert (Hne : l <> []) by (intros ->; destruct Hin).
  destruct (closest_location_spec l t Hne Hs) as [i [H1 [H2 H3]]].
  exists i. split; [assumption|]. split; [assumption|].
  destruct (In_nth _ _ 0 Hin) as [j [Hj Hjt]]. specialize (H3 j Hj). rewrite Hjt in H3.
  replace (t - t) with 0 in H3 by ring. rewrite Rabs_R0 in H3.
  pose proof (Rabs_pos (nth (Z.to_nat i) l 0 - t)) as Hp.
  assert (Hz : Rabs (nth (Z.to_nat i) l 0 - t) = 0) by lra.
  destruct (Req_dec (nth (Z.to_nat i) l 0 - t) 0) as [E|E]; [lra|].
  apply Rabs_no_R0 in E. contradiction.
Qed.

Theorem closest_location_strict (l : list R) (k : nat) :
  (forall i j, (i < j < length l)%nat -> nth i l 0 < nth j l 0) -> (k < length l)%nat ->
  closest_location ROps l (nth k l 0) = Ok (Z.of_nat k).
Proof.
  intros Hinc Hk.
  assert (Hs : is_sorted ROps l = true).
  { apply is_sorted_spec. intros i j Hij. destruct (Nat.eq_dec i j) as [->|Hne]; [lra|].
    left. apply Hinc. lia. }
  destruct (closest_location_member l (nth k l 0) Hs (nth_In _ _ Hk)) as [i [H1 [H2 H3]]].
  rewrite H1. f_equal.
  destruct (lt_eq_lt_dec (Z.to_nat i) k) as [[Hlt|Heq]|Hgt].
  - pose proof (Hinc (Z.to_nat i) k ltac:(lia)). lra.
  - lia.
  - pose proof (Hinc k (Z.to_nat i) ltac:(lia)). lra.
Qed.

(** looking a grid point up in its own grid gives its index (ascending grids; a descending grid is not sorted and exits) *)
Theorem closest_on_linear_space (mn mx : R) (steps k : nat) : (2 <= steps)%nat -> mn < mx -> (k < steps)%nat ->
  closest_location ROps (linear_space ROps mn mx steps) (nth k (linear_space ROps mn mx steps) 0) = Ok (Z.of_nat k).
Proof.
  intros Hs Hlt Hk. assert (Hne : mn <> mx) by lra.
  destruct (linear_space_spec mn mx steps Hs Hne) as [Hlen [_ [_ [_ [_ [Hup _]]]]]].
  apply closest_location_strict; rewrite Hlen; [|assumption]. now apply Hup.
Qed.

Theorem closest_on_log_space (mn mx : R) (steps k : nat) : (2 <= steps)%nat -> 0 < mn -> mn < mx -> (k < steps)%nat ->
  closest_location ROps (log_space ROps mn mx steps) (nth k (log_space ROps mn mx steps) 0) = Ok (Z.of_nat k).
Proof.
  intros Hs Hpos Hlt Hk. assert (Hne : mn <> mx) by lra. assert (Hmx : 0 < mx) by lra.
  destruct (log_space_spec mn mx steps Hpos Hmx Hne Hs) as [Hlen [_ [_ [_ [_ [_ [_ [_ [Hup _]]]]]]]]].
  apply closest_location_strict; rewrite Hlen; [|assumption]. now apply Hup.
Qed.

Theorem descending_grid_rejected (mn mx : R) (steps : nat) (t : R) : (2 <= steps)%nat -> mx < mn ->
  closest_location ROps (linear_space ROps mn mx steps) t = Exit.
Proof.
  intros Hs Hlt. assert (Hne : mn <> mx) by lra.
  destruct (linear_space_spec mn mx steps Hs Hne) as [Hlen [_ [_ [_ [_ [_ Hdown]]]]]].
  apply closest_location_exit_iff. right. apply is_sorted_false_spec. exists 0%nat.
  rewrite Hlen. split; [lia|]. apply Hdown; [assumption|lia].
Qed.

Example closest_grid_ex : closest_location ROps (linear_space ROps 0 1 3) (nth 1 (linear_space ROps 0 1 3) 0) = Ok 1%Z.
Proof. apply (closest_on_linear_space 0 1 3 1); try lia; lra. Qed.
