From Coq Require Import Reals Lra.
From Coquelicot Require Import Coquelicot.
From Interval Require Import Tactic.
From LP Require Import NumR C17_Defs.
Open Scope R_scope.
Lemma s3_2 : Rabs (dawson_def (IZR (7205759403792793) * powerRZ 2 (-55)) - (IZR (7016645140381891) * powerRZ 2 (-55))) <= 2 / 10000000.
Proof. unfold dawson_def. integral with (i_prec 60). Qed.
Lemma s3_12 : Rabs (dawson_def (IZR (-1495566426443963) * powerRZ 2 (-49)) - (IZR (-3719795537793509) * powerRZ 2 (-54))) <= 2 / 10000000.
Proof. unfold dawson_def. integral with (i_prec 60). Qed.
Lemma s3_22 : Rabs (dawson_def (IZR (3343347380123833) * powerRZ 2 (-47)) - (IZR (3035944087978553) * powerRZ 2 (-57))) <= 2 / 10000000.
Proof. unfold dawson_def. integral with (i_prec 60). Qed.
Lemma s3_32 : Rabs (dawson_def (IZR (2851329349056671) * powerRZ 2 (-50)) - (IZR (7904783876877119) * powerRZ 2 (-55))) <= 2 / 10000000.
Proof. unfold dawson_def. integral with (i_prec 60). Qed.
Lemma s3_42 : Rabs ((IZR (666077494832749) * powerRZ 2 (-69)) - erfi_def (IZR (4722366482869645) * powerRZ 2 (-72))) <= 1 / 1000000 * Rabs (erfi_def (IZR (4722366482869645) * powerRZ 2 (-72))).
Proof. apply rel_error_from_enclosure; [lra|interval|]. unfold erfi_def. split; integral with (i_prec 80). Qed.
Lemma s3_52 : Rerf ((IZR (3022314549036573) * powerRZ 2 (-78)) - 1 / 10000) < (IZR (4835703278458517) * powerRZ 2 (-82)) < Rerf ((IZR (3022314549036573) * powerRZ 2 (-78)) + 1 / 10000).
Proof. unfold Rerf. split; integral with (i_prec 80). Qed.
