From Coq Require Import Extraction ExtrOcamlBasic ZArith List.
From LP Require Import Num Gen_C17_Formulas Gen_C17_More C17_Model.
Extraction Language OCaml.
Extraction "C17_m.ml" g_Sign g_Sign2 g_StepFunction g_Relative_Difference g_Floats_Equal
  g_VSH_Y_Component g_VSH_Psi_Component g_Round g_Dawson_Integral g_Erfi g_Inv_Erf find_root round round_list round_table round_run dawson erfi inv_erf_lib
  vector_spherical_harmonics_Y vector_spherical_harmonics_Psi vsh_run_x special_run daw_table0 Z.of_nat Z.to_nat.
