From Coq Require Import Extraction ExtrOcamlBasic ZArith List.
From LP Require Import Num C15_Model C15_Model2.
Extraction Language OCaml.
Extraction "C15_m.ml" householder qr_decomposition eigenvalues determinant inverse find_eigenvector_rayleigh eigensystem session
  sign_int sign_xy relative_difference msquare mtrace determinant_g invertible inverse_g eigenvectors householder_steps
  nrows Z.of_nat Z.to_nat.
