From Coq Require Import Extraction ExtrOcamlBasic ZArith List.
From LP Require Import Num C15_Model.
Extraction Language OCaml.
Extraction "C15_m.ml" householder qr_decomposition eigenvalues determinant inverse find_eigenvector_rayleigh eigensystem session
  nrows Z.of_nat Z.to_nat.
