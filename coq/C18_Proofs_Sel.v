(** * C18 proofs, part 10: burn-in / thinning bookkeeping as a SELECTION from one chain, and the random-walk proposal.
    For an arbitrary number type (control flow only; verbatim for doubles).

    Sample_Metropolis(_2D)(sample, thinning, burn_in) runs the SAME chain as the call (i_max, 1, 0) with
    i_max = (burn_in + thinning * sample) mod 2^32 -- same states, same generator state left behind, same failure --
    and returns of that chain exactly the states after the steps i with i >= burn_in and i mod thinning = 0
    ([select]); for thinning >= 1 these are the steps thinning * (ceil(burn_in / thinning) + j), j = 0, 1, ... *)
From Coq Require Import ZArith List Bool Lia Arith.
From LP Require Import Num C18_Model C18_Proofs.
Import ListNotations.
Local Open Scope Z_scope.

(** the elements of [l] whose loop index (the first element has index [i]) passes `i >= burn_in && i % thinning == 0` *)
Fixpoint select {X : Type} (burn thin i : Z) (l : list X) : list X :=
  match l with
  | [] => []
  | x :: t => if metro_keep burn thin i then x :: select burn thin (i + 1) t else select burn thin (i + 1) t
  end.

Definition on_fst {A B S : Type} (g : A -> B) (p : A * S) : B * S := (g (fst p), snd p).

Lemma keep_all i : 0 <= i -> metro_keep 0 1 i = true.
Proof.
  intros H. unfold metro_keep. rewrite Z.mod_1_r. simpl. rewrite andb_true_r. apply Z.geb_le. lia.
Qed.

Lemma select_all {X : Type} (l : list X) : forall i, 0 <= i -> select 0 1 i l = l.
Proof.
  induction l as [|x t IH]; intros i Hi; simpl; [reflexivity|].
  rewrite keep_all by assumption. rewrite IH by lia. reflexivity.
Qed.

Lemma metro_imax_full burn thin sample : metro_imax 0 1 (metro_imax burn thin sample) = metro_imax burn thin sample.
Proof.
  rewrite (metro_imax_mod 0 1). rewrite Z.mul_1_l, Z.add_0_l. apply Z.mod_small.
  rewrite metro_imax_mod. apply Z.mod_pos_bound. lia.
Qed.

(** closed form of the selection for thinning >= 1: element j is the chain state of loop index
    thinning * (ceil(max(i, burn_in) / thinning) + j) *)
Definition first_kept (burn thin i : Z) : Z := (Z.max i burn + thin - 1) / thin.

Lemma ceil_facts a thin : 1 <= thin -> a <= thin * ((a + thin - 1) / thin) < a + thin.
Proof.
  intros H. pose proof (Z.div_mod (a + thin - 1) thin). pose proof (Z.mod_pos_bound (a + thin - 1) thin). lia.
Qed.
Lemma ceil_unique a thin c : 1 <= thin -> a <= thin * c < a + thin -> (a + thin - 1) / thin = c.
Proof.
  intros H Hc. symmetry. apply (Z.div_unique_pos _ _ c (a + thin - 1 - thin * c)); lia.
Qed.
Lemma idx_shift thin c j i : 1 <= thin -> i < thin * c ->
  Z.to_nat (thin * (c + Z.of_nat j) - i) = S (Z.to_nat (thin * (c + Z.of_nat j) - (i + 1))).
Proof.
  intros H1 H2. assert (0 <= thin * Z.of_nat j) by (apply Z.mul_nonneg_nonneg; lia).
  rewrite Z.mul_add_distr_l. lia.
Qed.

Lemma select_nth {X : Type} burn thin (l : list X) : 1 <= thin -> forall i j, 0 <= i ->
  nth_error (select burn thin i l) j =
  nth_error l (Z.to_nat (thin * (first_kept burn thin i + Z.of_nat j) - i)).
Proof.
  intros Ht. induction l as [|x t IH]; intros i j Hi.
  - simpl. destruct j; destruct (Z.to_nat _); reflexivity.
  - simpl select. unfold metro_keep.
    destruct (i >=? burn) eqn:Eb; cbn [andb].
    + apply Z.geb_le in Eb. destruct (i mod thin =? 0) eqn:Em.
      * apply Z.eqb_eq in Em.
        assert (Hi0 : thin * (i / thin) = i) by (pose proof (Z.div_mod i thin); lia).
        assert (Hq : first_kept burn thin i = i / thin).
        { unfold first_kept. rewrite Z.max_l by lia. apply ceil_unique; lia. }
        assert (Hq1 : first_kept burn thin (i + 1) = i / thin + 1).
        { unfold first_kept. rewrite Z.max_l by lia. apply ceil_unique; lia. }
        destruct j as [|j].
        -- rewrite Hq. replace (thin * (i / thin + Z.of_nat 0) - i) with 0 by lia. reflexivity.
        -- simpl nth_error at 1. rewrite IH by lia. rewrite Hq, Hq1.
           replace (i / thin + Z.of_nat (S j)) with (i / thin + 1 + Z.of_nat j) by lia.
           rewrite (idx_shift thin (i / thin + 1) j i) by lia.
           reflexivity.
      * apply Z.eqb_neq in Em. rewrite IH by lia.
        pose proof (ceil_facts i thin Ht) as Hc.
        assert (Hne : thin * ((i + thin - 1) / thin) <> i).
        { intros E. apply Em. rewrite <- E. rewrite Z.mul_comm. apply Z.mod_mul. lia. }
        assert (Hq : first_kept burn thin (i + 1) = first_kept burn thin i).
        { unfold first_kept. rewrite !Z.max_l by lia. apply ceil_unique; lia. }
        rewrite Hq.
        assert (i < thin * first_kept burn thin i).
        { unfold first_kept. rewrite Z.max_l by lia. lia. }
        rewrite (idx_shift thin _ j i) by lia.
        reflexivity.
    + rewrite Z.geb_leb in Eb. apply Z.leb_gt in Eb. rewrite IH by lia.
      assert (Hq : first_kept burn thin (i + 1) = first_kept burn thin i).
      { unfold first_kept. rewrite Z.max_r by lia. rewrite Z.max_r by lia. reflexivity. }
      rewrite Hq.
      pose proof (ceil_facts burn thin Ht) as Hc.
      assert (i < thin * first_kept burn thin i).
      { unfold first_kept. rewrite Z.max_r by lia. lia. }
      rewrite (idx_shift thin _ j i) by lia.
      reflexivity.
Qed.

Section Sel.
Context {T : Type} (Ops : NumOps T).

Section M1.
Variables (PDF : T -> T) (sigma : T) (dom : option (T * T)) (imax : Z).

Lemma metro_loop_select n : forall burn thin us i x acc, 0 <= i -> Z.to_nat (imax - i) = n ->
  metro_loop Ops PDF sigma dom burn thin imax us i x acc =
  rmap (on_fst (fun full => rev acc ++ select burn thin i full))
       (metro_loop Ops PDF sigma dom 0 1 imax us i x []).
Proof.
  induction n as [|n IH]; intros burn thin us i x acc Hi Hn.
  - destruct us as [|u1 [|u2 us']]; simpl metro_loop;
      replace (i <? imax) with false by (symmetry; apply Z.ltb_ge; lia);
      unfold rmap, on_fst; cbn; rewrite app_nil_r; reflexivity.
  - destruct us as [|u1 [|u2 us']]; simpl metro_loop;
      replace (i <? imax) with true by (symmetry; apply Z.ltb_lt; lia); try reflexivity.
    destruct (gauss_of Ops u1 x sigma) as [cand| | |]; try reflexivity.
    rewrite (keep_all i Hi).
    match goal with |- context [if nltb Ops ?a ?b then cand else x] =>
      set (x' := if nltb Ops a b then cand else x) end.
    rewrite (IH burn thin us' (i + 1) x' _) by lia.
    rewrite (IH 0 1 us' (i + 1) x' [x']) by lia.
    destruct (metro_loop Ops PDF sigma dom 0 1 imax us' (i + 1) x' []) as [[full r]| | |]; try reflexivity.
    unfold rmap, on_fst; cbn. rewrite select_all by lia.
    destruct (metro_keep burn thin i); cbn; rewrite <- ?app_assoc; reflexivity.
Qed.
End M1.

Theorem metropolis_thinning_is_selection PDF sigma sample thin burn domain us :
  sample_metropolis Ops PDF sigma sample thin burn domain us =
  rmap (on_fst (select burn thin 0))
       (sample_metropolis Ops PDF sigma (metro_imax burn thin sample) 1 0 domain us).
Proof.
  unfold sample_metropolis. rewrite metro_imax_full.
  set (imax := metro_imax burn thin sample).
  assert (Him : 0 <= imax) by (unfold imax, metro_imax, wrap32; lia).
  destruct domain as [|lo [|hi [|? ?]]]; try reflexivity.
  - destruct us as [|u us']; [reflexivity|].
    destruct (gauss_of Ops u (n0 Ops) sigma) as [x0| | |]; try reflexivity. simpl rbind.
    rewrite (metro_loop_select PDF sigma None imax (Z.to_nat imax) burn thin) by lia. reflexivity.
  - destruct us as [|u us']; [reflexivity|].
    rewrite (metro_loop_select PDF sigma (Some (lo, hi)) imax (Z.to_nat imax) burn thin) by lia. reflexivity.
Qed.

Section M2.
Variables (PDF : T -> T -> T) (s1 s2 : T) (dom : option (T * T * T * T)) (imax : Z).

Lemma metro2_loop_select n : forall burn thin us i x acc, 0 <= i -> Z.to_nat (imax - i) = n ->
  metro2_loop Ops PDF s1 s2 dom burn thin imax us i x acc =
  rmap (on_fst (fun full => rev acc ++ select burn thin i full))
       (metro2_loop Ops PDF s1 s2 dom 0 1 imax us i x []).
Proof.
  induction n as [|n IH]; intros burn thin us i x acc Hi Hn.
  - destruct us as [|u1 [|u2 [|u3 us']]]; simpl metro2_loop;
      replace (i <? imax) with false by (symmetry; apply Z.ltb_ge; lia);
      unfold rmap, on_fst; cbn; rewrite app_nil_r; reflexivity.
  - destruct us as [|u1 [|u2 [|u3 us']]]; simpl metro2_loop;
      replace (i <? imax) with true by (symmetry; apply Z.ltb_lt; lia); try reflexivity.
    destruct (gauss_of Ops u1 (fst x) s1) as [ca| | |]; try reflexivity.
    destruct (gauss_of Ops u2 (snd x) s2) as [cb| | |]; try reflexivity.
    rewrite (keep_all i Hi).
    match goal with |- context [if nltb Ops ?a ?b then (ca, cb) else x] =>
      set (x' := if nltb Ops a b then (ca, cb) else x) end.
    rewrite (IH burn thin us' (i + 1) x' _) by lia.
    rewrite (IH 0 1 us' (i + 1) x' [x']) by lia.
    destruct (metro2_loop Ops PDF s1 s2 dom 0 1 imax us' (i + 1) x' []) as [[full r]| | |]; try reflexivity.
    unfold rmap, on_fst; cbn. rewrite select_all by lia.
    destruct (metro_keep burn thin i); cbn; rewrite <- ?app_assoc; reflexivity.
Qed.
End M2.

Theorem metropolis_2d_thinning_is_selection PDF s1 s2 sample thin burn domain us :
  sample_metropolis_2d Ops PDF s1 s2 sample thin burn domain us =
  rmap (on_fst (select burn thin 0))
       (sample_metropolis_2d Ops PDF s1 s2 (metro_imax burn thin sample) 1 0 domain us).
Proof.
  unfold sample_metropolis_2d. rewrite metro_imax_full.
  set (imax := metro_imax burn thin sample).
  assert (Him : 0 <= imax) by (unfold imax, metro_imax, wrap32; lia).
  destruct domain as [|x0 [|x1 [|y0 [|y1 [|? ?]]]]]; try reflexivity.
  - destruct us as [|u1 [|u2 us']]; try reflexivity.
    destruct (gauss_of Ops u1 (n0 Ops) s1) as [a| | |]; try reflexivity. simpl rbind.
    destruct (gauss_of Ops u2 (n0 Ops) s2) as [b| | |]; try reflexivity. simpl rbind.
    rewrite (metro2_loop_select PDF s1 s2 None imax (Z.to_nat imax) burn thin) by lia. reflexivity.
  - destruct us as [|u1 [|u2 us']]; try reflexivity.
    rewrite (metro2_loop_select PDF s1 s2 (Some (x0, x1, y0, y1)) imax (Z.to_nat imax) burn thin) by lia. reflexivity.
Qed.

(** readable corollary: which chain states are returned (thinning >= 1, no 32-bit overflow) *)
Theorem metropolis_sample_j PDF sigma sample thin burn domain us l r :
  1 <= thin -> 0 <= burn -> 0 <= sample -> burn + thin * sample < 4294967296 ->
  sample_metropolis Ops PDF sigma sample thin burn domain us = Ok (l, r) ->
  exists full, sample_metropolis Ops PDF sigma (burn + thin * sample) 1 0 domain us = Ok (full, r) /\
    Z.of_nat (length full) = burn + thin * sample /\
    forall j, (j < length l)%nat ->
      nth_error l j = nth_error full (Z.to_nat (thin * ((burn + thin - 1) / thin + Z.of_nat j))).
Proof.
  intros Ht Hb Hs Hov H. rewrite metropolis_thinning_is_selection in H.
  rewrite metro_imax_small in H by lia.
  destruct (sample_metropolis Ops PDF sigma (burn + thin * sample) 1 0 domain us) as [[full r']| | |] eqn:E;
    try discriminate.
  cbn in H. inversion H; subst. exists full. split; [reflexivity|]. split.
  - apply metropolis_count in E; nia.
  - intros j _. rewrite (select_nth burn thin full Ht 0 j) by lia.
    unfold first_kept. rewrite Z.max_r by lia. rewrite Z.sub_0_r. reflexivity.
Qed.

Theorem metropolis_2d_sample_j PDF s1 s2 sample thin burn domain us l r :
  1 <= thin -> 0 <= burn -> 0 <= sample -> burn + thin * sample < 4294967296 ->
  sample_metropolis_2d Ops PDF s1 s2 sample thin burn domain us = Ok (l, r) ->
  exists full, sample_metropolis_2d Ops PDF s1 s2 (burn + thin * sample) 1 0 domain us = Ok (full, r) /\
    Z.of_nat (length full) = burn + thin * sample /\
    forall j, (j < length l)%nat ->
      nth_error l j = nth_error full (Z.to_nat (thin * ((burn + thin - 1) / thin + Z.of_nat j))).
Proof.
  intros Ht Hb Hs Hov H. rewrite metropolis_2d_thinning_is_selection in H.
  rewrite metro_imax_small in H by lia.
  destruct (sample_metropolis_2d Ops PDF s1 s2 (burn + thin * sample) 1 0 domain us) as [[full r']| | |] eqn:E;
    try discriminate.
  cbn in H. inversion H; subst. exists full. split; [reflexivity|]. split.
  - apply metropolis_2d_count in E; nia.
  - intros j _. rewrite (select_nth burn thin full Ht 0 j) by lia.
    unfold first_kept. rewrite Z.max_r by lia. rewrite Z.sub_0_r. reflexivity.
Qed.

(** ** the proposal is a random walk: the increment candidate - x does not depend on the current point.
    Sample_Gauss(x, sigma) = x + sqrt(2) sigma Inv_Erf(2 xi - 1): the same deviate proposes the same displacement
    from every current point (for every number type: this is the expression the code evaluates). *)
Theorem proposal_is_random_walk u x sigma c :
  gauss_of Ops u x sigma = Ok c <->
  exists e, inv_erf Ops (nsub Ops (nmul Ops (nofZ Ops 2) (unif Ops u (n0 Ops) (n1 Ops))) (n1 Ops)) = Ok e /\
            c = nadd Ops x (nmul Ops (nmul Ops (nsqrt Ops (nofZ Ops 2)) sigma) e).
Proof.
  unfold gauss_of, quantile_gauss.
  destruct (inv_erf Ops _) as [e| | |]; simpl rbind; split.
  - intros H. inversion H. exists e. split; reflexivity.
  - intros (e' & He & ->). inversion He. reflexivity.
  - discriminate.
  - intros (e' & He & _). discriminate.
  - discriminate.
  - intros (e' & He & _). discriminate.
  - discriminate.
  - intros (e' & He & _). discriminate.
Qed.
End Sel.

(** non-vacuity: burn-in 3, thinning 2, 2 samples keep the loop indices 4 and 6 of a chain of 7 *)
Example select_ex : select 3 2 0 [10; 11; 12; 13; 14; 15; 16] = [14; 16] /\
  Z.to_nat (2 * ((3 + 2 - 1) / 2 + Z.of_nat 0)) = 4%nat /\ Z.to_nat (2 * ((3 + 2 - 1) / 2 + Z.of_nat 1)) = 6%nat.
Proof. vm_compute. repeat split; reflexivity. Qed.

(** ** Rejection_Sampling(_2D) terminates: a generator that can deliver 2 * 9999 (3 * 9999) uniforms is never exhausted --
    the call returns a point or terminates the process ("Too inefficient sampling" at the 10000th trial, or a guard) *)
Section RejTotal.
Context {T : Type} (Ops : NumOps T).

Lemma rejection_loop_total (PDF : T -> T) xMin xMax yMax n : forall us count, (length us <= n)%nat ->
  0 <= count <= 9999 -> 2 * (9999 - count) <= Z.of_nat (length us) ->
  rejection_loop Ops PDF xMin xMax yMax us count <> Fuel.
Proof.
  induction n as [|n IH]; intros us count Hlen Hc Hl.
  - destruct us; [|simpl length in Hlen; lia]. simpl length in Hl. assert (count = 9999) by lia. subst.
    simpl. discriminate.
  - destruct us as [|u1 [|u2 us']]; simpl rejection_loop; rewrite exit_test;
      destruct (Z.eqb_spec ((count + 1) mod 10000) 0) as [E0|E0]; try discriminate.
    + simpl length in Hl. assert (count = 9999) by lia. subst. exfalso. apply E0. reflexivity.
    + simpl length in Hl. assert (count = 9999) by lia. subst. exfalso. apply E0. reflexivity.
    + set (xx := unif Ops u1 xMin xMax). set (pdf := PDF xx).
      destruct (nltb Ops pdf (n0 Ops) || nisnan Ops pdf || nisnan Ops (nsub Ops pdf pdf)); [discriminate|].
      destruct (ngtb Ops pdf yMax && ngtb Ops (relative_difference Ops pdf yMax) (ndec Ops 1 100)); [discriminate|].
      destruct (nleb Ops (unif Ops u2 (n0 Ops) yMax) pdf); [discriminate|].
      assert (count + 1 <> 10000) by (intros E; apply E0; rewrite E; reflexivity).
      apply IH; simpl length in Hlen, Hl; simpl length; lia.
Qed.

Theorem rejection_sampling_terminates (PDF : T -> T) xMin xMax yMax us : 19998 <= Z.of_nat (length us) ->
  rejection_sampling Ops PDF xMin xMax yMax us <> Fuel.
Proof.
  intros H. unfold rejection_sampling. apply (rejection_loop_total PDF xMin xMax yMax (length us)); lia.
Qed.

Lemma rejection2_loop_total (PDF : T -> T -> T) xMin xMax yMin yMax zMax n : forall us count, (length us <= n)%nat ->
  0 <= count <= 9999 -> 3 * (9999 - count) <= Z.of_nat (length us) ->
  rejection2_loop Ops PDF xMin xMax yMin yMax zMax us count <> Fuel.
Proof.
  induction n as [|n IH]; intros us count Hlen Hc Hl.
  - destruct us; [|simpl length in Hlen; lia]. simpl length in Hl. assert (count = 9999) by lia. subst.
    simpl. discriminate.
  - destruct us as [|u1 [|u2 [|u3 us']]]; simpl rejection2_loop; rewrite exit_test;
      destruct (Z.eqb_spec ((count + 1) mod 10000) 0) as [E0|E0]; try discriminate.
    + simpl length in Hl. assert (count = 9999) by lia. subst. exfalso. apply E0. reflexivity.
    + simpl length in Hl. assert (count = 9999) by lia. subst. exfalso. apply E0. reflexivity.
    + simpl length in Hl. assert (count = 9999) by lia. subst. exfalso. apply E0. reflexivity.
    + match goal with |- context [ngtb Ops ?p zMax && ?q] => destruct (ngtb Ops p zMax && q); [discriminate|] end.
      match goal with |- context [nleb Ops ?z ?p] => destruct (nleb Ops z p); [discriminate|] end.
      assert (count + 1 <> 10000) by (intros E; apply E0; rewrite E; reflexivity).
      apply IH; simpl length in Hlen, Hl; simpl length; lia.
Qed.

Theorem rejection_sampling_2d_terminates (PDF : T -> T -> T) xMin xMax yMin yMax zMax us : 29997 <= Z.of_nat (length us) ->
  rejection_sampling_2d Ops PDF xMin xMax yMin yMax zMax us <> Fuel.
Proof.
  intros H. unfold rejection_sampling_2d. apply (rejection2_loop_total PDF xMin xMax yMin yMax zMax (length us)); lia.
Qed.
End RejTotal.

(* non-vacuity: streams that long exist *)
Example long_stream_ex {X : Type} (x : X) : 29997 <= Z.of_nat (length (repeat x (Z.to_nat 29997))).
Proof. rewrite repeat_length, Z2Nat.id; lia. Qed.
