(** * C07 proofs, part 5: empty bins of the binned likelihood; the rule-of-thumb bandwidth of Perform_KDE
      (two-pass weighted variance: non-negative, and unchanged when all samples are shifted by a common offset) *)
From Coq Require Import Reals ZArith List Bool Lra Lia.
From LP Require Import Num NumR C07_Model.
Import ListNotations.
Local Open Scope R_scope.

(** ** a bin in which nothing was observed: log L = -(s + b), L = e^-(s+b), whatever the split into signal and background
       (in particular a bin without predicted signal, s = 0, still contributes -b) *)
Lemma log_likelihood_no_events s b : log_likelihood_poisson ROps s 0 b = - (s + b).
Proof. unfold log_likelihood_poisson. cbn. ring. Qed.

Lemma likelihood_no_events s b : likelihood_poisson ROps s 0 b = exp (- (s + b)).
Proof. unfold likelihood_poisson. rewrite log_likelihood_no_events. reflexivity. Qed.

Lemma binned_no_signal_no_events_bin b : 0 <= b ->
  log_likelihood_poisson ROps 0 0 b = - b /\ likelihood_poisson ROps 0 0 b = exp (- b) /\
  (0 < b -> likelihood_poisson ROps 0 0 b < 1).
Proof.
  intros Hb. rewrite log_likelihood_no_events, likelihood_no_events. replace (- (0 + b)) with (- b) by ring.
  repeat split; auto. intros H. rewrite <- exp_0. apply exp_increasing. lra.
Qed.

(** ** the automatic bandwidth *)
Definition wmean_sum (data : list (R * R)) (acc : R) : R := fold_left (fun acc d => acc + snd d * fst d) data acc.
Definition wsum_of (data : list (R * R)) (acc : R) : R := fold_left (fun acc d => acc + snd d) data acc.
Definition wvar (data : list (R * R)) (wsum av acc : R) : R :=
  fold_left (fun acc d => acc + snd d * powerRZ (fst d - av) 2 / wsum) data acc.
Definition shift (c : R) (data : list (R * R)) : list (R * R) := map (fun d => (fst d + c, snd d)) data.

Lemma kde_bandwidth_auto data wsum :
  kde_bandwidth ROps data wsum 0 =
  sqrt (wvar data wsum (wmean_sum data 0 / wsum) 0) * Rpower (4 / 3 / IZR (Z.of_nat (length data))) (2 / 10).
Proof.
  unfold kde_bandwidth. cbn [neqb ROps]. destruct (Reqb_spec 0 (n0 ROps)) as [_|H]; [|exfalso; apply H; reflexivity].
  reflexivity.
Qed.

Lemma kde_bandwidth_manual data wsum bw : bw <> 0 -> kde_bandwidth ROps data wsum bw = bw.
Proof.
  intros H. unfold kde_bandwidth. cbn [neqb ROps]. destruct (Reqb_spec bw (n0 ROps)) as [E|_]; [exfalso; apply H; exact E|reflexivity].
Qed.

Lemma powerRZ_2_sqr x : powerRZ x 2 = Rsqr x.
Proof. change (powerRZ x 2) with (x ^ 2)%R. unfold Rsqr. ring. Qed.
Lemma powerRZ_2_nonneg x : 0 <= powerRZ x 2.
Proof. rewrite powerRZ_2_sqr. apply Rle_0_sqr. Qed.
Lemma powerRZ_2_pos x : x <> 0 -> 0 < powerRZ x 2.
Proof. intros H. rewrite powerRZ_2_sqr. apply Rlt_0_sqr. exact H. Qed.

Lemma wvar_nonneg data wsum av : 0 < wsum -> Forall (fun d => 0 <= snd d) data ->
  forall acc, 0 <= acc -> 0 <= wvar data wsum av acc.
Proof.
  intros Hw. induction data as [|d r IH]; intros Hd acc Ha; cbn [wvar fold_left]; [exact Ha|].
  inversion Hd as [|? ? H1 H2]; subst. apply (IH H2).
  assert (0 <= powerRZ (fst d - av) 2) by apply powerRZ_2_nonneg.
  assert (0 <= snd d * powerRZ (fst d - av) 2 / wsum).
  { unfold Rdiv. apply Rmult_le_pos; [apply Rmult_le_pos; auto|]. left. apply Rinv_0_lt_compat. exact Hw. }
  lra.
Qed.

(* the variance is strictly positive as soon as one sample with positive weight differs from the mean *)
Lemma wvar_mono data wsum av : 0 < wsum -> Forall (fun d => 0 <= snd d) data ->
  forall acc, acc <= wvar data wsum av acc.
Proof.
  intros Hw. induction data as [|d r IH]; intros Hd acc; cbn [wvar fold_left]; [lra|].
  inversion Hd as [|? ? H1 H2]; subst.
  assert (0 <= powerRZ (fst d - av) 2) by apply powerRZ_2_nonneg.
  assert (0 <= snd d * powerRZ (fst d - av) 2 / wsum).
  { unfold Rdiv. apply Rmult_le_pos; [apply Rmult_le_pos; auto|]. left. apply Rinv_0_lt_compat. exact Hw. }
  eapply Rle_trans; [|apply (IH H2)]. lra.
Qed.

Lemma wvar_pos data wsum av : 0 < wsum -> Forall (fun d => 0 <= snd d) data ->
  Exists (fun d => 0 < snd d /\ fst d <> av) data -> forall acc, 0 <= acc -> 0 < wvar data wsum av acc.
Proof.
  intros Hw. induction data as [|d r IH]; intros Hd He acc Ha; [inversion He|].
  inversion Hd as [|? ? H1 H2]; subst. cbn [wvar fold_left].
  assert (P : 0 <= powerRZ (fst d - av) 2) by apply powerRZ_2_nonneg.
  assert (Q : 0 <= snd d * powerRZ (fst d - av) 2 / wsum).
  { unfold Rdiv. apply Rmult_le_pos; [apply Rmult_le_pos; auto|]. left. apply Rinv_0_lt_compat. exact Hw. }
  inversion He as [? ? [Hp Hn]|? ? Hr]; subst.
  - eapply Rlt_le_trans; [|apply (wvar_mono r wsum av Hw H2)].
    assert (0 < powerRZ (fst d - av) 2).
    { apply powerRZ_2_pos. lra. }
    assert (0 < snd d * powerRZ (fst d - av) 2 / wsum).
    { unfold Rdiv. apply Rmult_lt_0_compat; [apply Rmult_lt_0_compat; auto|]. apply Rinv_0_lt_compat. exact Hw. }
    lra.
  - apply (IH H2 Hr). lra.
Qed.

Lemma wmean_sum_shift c data : forall a b, wmean_sum (shift c data) (a + c * b) = wmean_sum data a + c * wsum_of data b.
Proof.
  induction data as [|d r IH]; intros a b; cbn [shift map wmean_sum wsum_of fold_left]; [reflexivity|].
  cbn [fst snd]. fold (shift c r).
  replace (a + c * b + snd d * (fst d + c)) with ((a + snd d * fst d) + c * (b + snd d)) by ring.
  apply (IH (a + snd d * fst d) (b + snd d)).
Qed.

Lemma wvar_shift c data wsum av : forall acc, wvar (shift c data) wsum (av + c) acc = wvar data wsum av acc.
Proof.
  induction data as [|d r IH]; intros acc; cbn [shift map wvar fold_left]; [reflexivity|].
  cbn [fst snd]. fold (shift c r). replace (fst d + c - (av + c)) with (fst d - av) by ring. apply IH.
Qed.

Lemma shift_length c data : length (shift c data) = length data.
Proof. apply map_length. Qed.

(** the automatic bandwidth does not depend on a common offset of the samples (the weight sum is the one Perform_KDE computes) *)
Lemma kde_bandwidth_shift c data : wsum_of data 0 <> 0 ->
  kde_bandwidth ROps (shift c data) (wsum_of data 0) 0 = kde_bandwidth ROps data (wsum_of data 0) 0.
Proof.
  intros Hw. rewrite !kde_bandwidth_auto, shift_length.
  replace (wmean_sum (shift c data) 0) with (wmean_sum (shift c data) (0 + c * 0)) by (f_equal; ring).
  rewrite wmean_sum_shift.
  replace ((wmean_sum data 0 + c * wsum_of data 0) / wsum_of data 0) with (wmean_sum data 0 / wsum_of data 0 + c) by (field; exact Hw).
  rewrite wvar_shift. reflexivity.
Qed.

Lemma wsum_of_shift c data : forall a, wsum_of (shift c data) a = wsum_of data a.
Proof. induction data as [|d r IH]; intros a; cbn [shift map wsum_of fold_left]; [reflexivity|]. cbn [snd]. apply IH. Qed.

Lemma Rpower_pos x y : 0 < Rpower x y.
Proof. unfold Rpower. apply exp_pos. Qed.

(** non-negative weights with a positive sum: the variance under the square root is >= 0, so the bandwidth is a real number >= 0;
    it is > 0 as soon as one positively weighted sample differs from the weighted mean *)
Lemma kde_bandwidth_auto_nonneg data : Forall (fun d => 0 <= snd d) data -> 0 < wsum_of data 0 ->
  let wsum := wsum_of data 0 in
  0 <= wvar data wsum (wmean_sum data 0 / wsum) 0 /\
  0 <= kde_bandwidth ROps data wsum 0 /\
  (Exists (fun d => 0 < snd d /\ fst d <> wmean_sum data 0 / wsum) data -> 0 < kde_bandwidth ROps data wsum 0).
Proof.
  intros Hd Hw wsum. assert (V := wvar_nonneg data wsum (wmean_sum data 0 / wsum) Hw Hd 0 (Rle_refl 0)).
  split; [exact V|]. rewrite kde_bandwidth_auto. split.
  - apply Rmult_le_pos; [apply sqrt_pos|left; apply Rpower_pos].
  - intros He. apply Rmult_lt_0_compat; [|apply Rpower_pos]. apply sqrt_lt_R0.
    apply (wvar_pos data wsum _ Hw Hd He 0 (Rle_refl 0)).
Qed.

(* non-vacuity: two unit-weight samples at 1.7e9 + 12 and 1.7e9 + 15 *)
Example ex_kde_bandwidth_offset :
  kde_bandwidth ROps (shift 1700000000 [(12, 1); (15, 1)]) (wsum_of [(12, 1); (15, 1)] 0) 0 =
  kde_bandwidth ROps [(12, 1); (15, 1)] (wsum_of [(12, 1); (15, 1)] 0) 0.
Proof. apply kde_bandwidth_shift. cbn. lra. Qed.
