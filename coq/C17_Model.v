(** * C17 model: scalar special functions and vector spherical harmonics (src/Special_Functions.cpp).

    Two ties (DESIGN.md 2.3).  Sign (both overloads), StepFunction, Relative_Difference, Floats_Equal and the
    two coefficient tables VSH_Y_Component / VSH_Psi_Component are NOT written here: they are translated from
    the C++ source on every run by tools/cxx2gallina.py into Gen_C17_Formulas.v (T-tie).  This file holds the
    hand-written models of the functions with loops (C-tie: differential correspondence with harness/C17.cpp):
    Round (3 overloads), Dawson_Integral, Erfi, Inv_Erf (with a copy of the current Find_Root loop of
    src/Numerics.cpp) and the summation loops of Vector_Spherical_Harmonics_Y / _Psi, which take the scalar
    harmonics Y_{l,m}(theta,phi) (boost::math::spherical_harmonic in the library) as a function argument. *)
From Coq Require Import ZArith List Bool.
From LP Require Import Num Gen_C17_Formulas.
Import ListNotations.
Local Open Scope Z_scope.

Section Model.
Context {T : Type} (Ops : NumOps T).
Declare Scope num_scope.
Local Notation "x + y" := (nadd Ops x y) : num_scope.
Local Notation "x - y" := (nsub Ops x y) : num_scope.
Local Notation "x * y" := (nmul Ops x y) : num_scope.
Local Notation "x / y" := (ndiv Ops x y) : num_scope.
Local Notation "- x" := (nneg Ops x) : num_scope.
Delimit Scope num_scope with num.
Local Notation "'#' k" := (nofZ Ops k) (at level 1, format "'#' k").
Local Notation dec := (ndec Ops).
Local Open Scope res_scope.

(** ** double Round(double N, unsigned int digits)
<<
  if(digits > 7) exit;
  if(N == 0) return 0;
  double sign = Sign(N);  N *= sign;
  double DecimalPower = floor(log10(N));
  double prefactor = N * pow(10, -DecimalPower);
  prefactor = std::floor(prefactor * pow(10.0, digits - 1) + 0.5);     // digits - 1 in unsigned arithmetic
  prefactor = prefactor * pow(10.0, -1.0 * digits + 1);
  return sign * prefactor * pow(10, DecimalPower);
>>  [digits] is the value of the unsigned int, 0 <= digits < 2^32. *)
Definition round (N : T) (digits : Z) : res T :=
  if digits >? 7 then Exit
  else if neqb Ops N #0 then Ok #0
  else
    let sign := #(g_Sign Ops N) in
    let N1 := (N * sign)%num in
    let dp := nfloor Ops (nlog10 Ops N1) in
    let pre := (N1 * npow Ops #10 (- dp))%num in
    let pre2 := nfloor Ops (pre * npow Ops #10 #((digits - 1) mod 4294967296) + dec 1 2)%num in
    let pre3 := (pre2 * npow Ops #10 (- #1 * #digits + #1))%num in
    Ok (sign * pre3 * npow Ops #10 dp)%num.

(** Vector Round(const Vector&, digits) and Matrix Round(const Matrix&, digits): element by element, in order *)
Fixpoint round_list (l : list T) (digits : Z) : res (list T) :=
  match l with
  | [] => Ok []
  | x :: t => let* r := round x digits in let* rt := round_list t digits in Ok (r :: rt)
  end.
Fixpoint round_table (m : list (list T)) (digits : Z) : res (list (list T)) :=
  match m with
  | [] => Ok []
  | r :: t => let* rr := round_list r digits in let* rt := round_table t digits in Ok (rr :: rt)
  end.

(** ** double Dawson_Integral(double x)   (Rybicki's sampling-theorem sum; series for |x| < 0.2)
<<
  static const double H = 0.4, A1 = 2.0 / 3.0, A2 = 0.4, A3 = 2.0 / 7.0;
  if(std::fabs(x) < 0.2) { double x2 = x * x; ans = x * (1.0 - A1 * x2 * (1.0 - A2 * x2 * (1.0 - A3 * x2))); }
  else {
    for(i < NMAX = 6) c[i] = exp(-(2.0 * i + 1.0) * (2.0 * i + 1.0) * H * H);   // static table, rebuilt on every call
    double xx = std::fabs(x);  int n0 = 2 * int(0.5 * xx / H + 0.5);  double xp = xx - n0 * H;
    double e1 = std::exp(2.0 * xp * H), e2 = e1 * e1, d1 = n0 + 1, d2 = d1 - 2.0, sum = 0.0;
    for(i < NMAX; i++, d1 += 2.0, d2 -= 2.0, e1 *= e2) sum += c[i] * (e1 / d1 + 1.0 / (d2 * e1));
    ans = 0.5641895835 * libphysica::Sign(std::exp(-xp * xp), x) * sum;
  }
>>  The literal 0.5641895835 is written as its reduced fraction 1128379167/2000000000 (the form the translator emits, C17_GenTie.v). *)
Definition daw_H : T := dec 2 5.
Definition daw_c (i : Z) : T :=
  nexp Ops (- (#2 * #i + #1) * (#2 * #i + #1) * daw_H * daw_H)%num.

Fixpoint daw_loop (n : nat) (i : Z) (d1 d2 e1 e2 sum : T) : T :=
  match n with
  | O => sum
  | S n' => daw_loop n' (i + 1)%Z (d1 + #2)%num (d2 - #2)%num (e1 * e2)%num e2
              (sum + daw_c i * (e1 / d1 + #1 / (d2 * e1)))%num
  end.

(* the part of the large-argument branch that depends on xx = |x| only: (exp(-xp*xp), sum) *)
Definition daw_big (xx : T) : T * T :=
  let nn := (2 * ntrunc Ops (dec 1 2 * xx / daw_H + dec 1 2)%num)%Z in
  let xp := (xx - #nn * daw_H)%num in
  let e1 := nexp Ops (#2 * xp * daw_H)%num in
  let e2 := (e1 * e1)%num in
  let d1 := #(nn + 1) in
  let d2 := (d1 - #2)%num in
  (nexp Ops (- xp * xp)%num, daw_loop 6 0 d1 d2 e1 e2 #0).

Definition dawson (x : T) : T :=
  if nltb Ops (nabs Ops x) (dec 1 5) then
    let x2 := (x * x)%num in
    (x * (#1 - dec 2 3 * x2 * (#1 - dec 2 5 * x2 * (#1 - dec 2 7 * x2))))%num
  else
    let es := daw_big (nabs Ops x) in
    (dec 1128379167 2000000000 * sign2 Ops (fst es) x * snd es)%num.

(** ** double Erfi(double x) = 2.0 / std::sqrt(M_PI) * std::exp(x * x) * Dawson_Integral(x);
    [pi] is the value of M_PI (the real number PI in the R instance, the double M_PI in the float instance). *)
Definition erfi (pi : T) (x : T) : T :=
  let h := nexp Ops (dec 1 2 * x * x)%num in (#2 / nsqrt Ops pi * h * dawson x * h)%num.

(** ** Find_Root (src/Numerics.cpp, Ridder's method), as it is now: Ridder's point is clamped into the bracket,
    the loop stops when the bracket |x2 - x1| is below the accuracy, at most 2200 iterations.  A copy local to this property (C02 owns the theorems about it). *)
(* const int Max_Iterations = 2200 *)
Definition ridder_fuel : nat := Z.to_nat 2200.

Fixpoint ridder (fuel : nat) (f : T -> T) (acc x1 x2 f1 f2 result : T) : res T :=
  match fuel with
  | O => Ok result        (* "Warning ... Iterations exceed the maximum": the last iterate is returned *)
  | S fuel' =>
      let x3 := (dec 1 2 * x1 + dec 1 2 * x2)%num in
      let f3 := f x3 in
      (* scale = max(|f3|, max(|f1|, |f2|)); g_i = f_i / scale; Ridder's point from the g_i; NaN -> midpoint *)
      let sc := nmax Ops (nabs Ops f3) (nmax Ops (nabs Ops f1) (nabs Ops f2)) in
      let g1 := (f1 / sc)%num in let g2 := (f2 / sc)%num in let g3 := (f3 / sc)%num in
      let x4 := (x3 + (x3 - x1) * #(sign1 Ops (g1 - g2)%num) * g3 / nsqrt Ops (g3 * g3 - g1 * g2))%num in
      let x4 := if nisnan Ops x4 then x3 else x4 in
      (* x4 = std::max(std::min(x1, x2), std::min(std::max(x1, x2), x4)): rounding may push x4 past an end *)
      let x4 := nmax Ops (nmin Ops x1 x2) (nmin Ops (nmax Ops x1 x2) x4) in
      let f4 := f x4 in
      if neqb Ops f4 #0 then Ok x4
      else
        let next x1 x2 f1 f2 :=
          if nltb Ops (nabs Ops (x2 - x1)%num) acc then Ok x4 else ridder fuel' f acc x1 x2 f1 f2 x4 in
        if nneb Ops (sign2 Ops f3 f4) f3 then next x3 x4 f3 f4
        else if nneb Ops (sign2 Ops f1 f4) f1 then next x1 x4 f1 f4
        else if nneb Ops (sign2 Ops f2 f4) f2 then next x4 x2 f4 f2
        else Exit
  end.

Definition find_root (f : T -> T) (xLeft xRight acc : T) : res T :=
  let (xl, xr) := if nltb Ops xRight xLeft then (xRight, xLeft) else (xLeft, xRight) in
  let fl := f xl in
  let fr := f xr in
  if nisnan Ops fl || nisnan Ops fr then Exit
  else if (sign1 Ops fl * sign1 Ops fr >=? 0)%Z then
    if neqb Ops fl #0 then Ok xl else if neqb Ops fr #0 then Ok xr else Exit
  else ridder ridder_fuel f acc xl xr fl fr xl.

(** ** double Inv_Erf(double p): |p - 1| < 1e-16 returns 10, |p + 1| < 1e-16 returns -10 (each with a warning), any other |p| >= 1 exits, otherwise
    Find_Root(x -> erf(x) - p, -10, 10, 1e-4).  The root finder is a parameter [FR]; the extracted program
    passes [find_root] above, the accuracy theorem takes C02's guarantee about it as a hypothesis. *)
Definition inv_erf (FR : (T -> T) -> T -> T -> T -> res T) (p : T) : res T :=
  if nltb Ops (nabs Ops (p - #1)%num) (nlit Ops 1 10000000000000000 2028240960365167 (-104)) then Ok #10
  else if nltb Ops (nabs Ops (p + #1)%num) (nlit Ops 1 10000000000000000 2028240960365167 (-104)) then Ok (- #10)%num
  else if nleb Ops #1 (nabs Ops p) then Exit
  else FR (fun x => (nerf Ops x - p)%num) (- #10)%num #10 (dec 1 10000).

Definition inv_erf_lib (p : T) : res T := inv_erf find_root p.

(** ** Vector_Spherical_Harmonics_Y / _Psi: for each component i,
<<
  for(l_hat = l - 1; l_hat < l + 2; l_hat += 2) for(m_hat = m - 1; m_hat < m + 2; m_hat++)
    if(std::abs(m_hat) <= l_hat) Y[i] += VSH_?_Component(i, l, m, l_hat, m_hat) * Spherical_Harmonics(l_hat, m_hat, theta, phi);
>>  [comp] is the (translated) coefficient table, [Y lh mh] the scalar harmonic at the direction in question. *)
Definition vsh_term (comp : Z -> Z -> Z -> Z -> Z -> res (T * T)) (Y : Z -> Z -> T * T)
    (i l m lh mh : Z) (acc : res (T * T)) : res (T * T) :=
  let* a := acc in
  if Z.abs mh <=? lh then let* c := comp i l m lh mh in Ok (cadd Ops a (cmul Ops c (Y lh mh))) else Ok a.

Definition vsh_sum comp (Y : Z -> Z -> T * T) (i l m : Z) : res (T * T) :=
  let t := vsh_term comp Y i l m in
  t (l + 1) (m + 1) (t (l + 1) m (t (l + 1) (m - 1) (t (l - 1) (m + 1) (t (l - 1) m (t (l - 1) (m - 1) (Ok (#0, #0))))))).

Definition vsh_vector comp (Y : Z -> Z -> T * T) (l m : Z) : res (list (T * T)) :=
  let* a := vsh_sum comp Y 0 l m in let* b := vsh_sum comp Y 1 l m in let* c := vsh_sum comp Y 2 l m in Ok [a; b; c].

Definition vector_spherical_harmonics_Y := vsh_vector (g_VSH_Y_Component Ops).
Definition vector_spherical_harmonics_Psi := vsh_vector (g_VSH_Psi_Component Ops).
(** ** Dawson_Integral with its static table as explicit state.
    [static std::vector<double> c(NMAX)] lives across calls (six zeros before the first large-argument call); the large-argument
    branch overwrites all NMAX entries ([for(i < NMAX) c[i] = exp(...)]) and then reads them in the summation loop; the series branch
    does not touch it.  [dawson_st c x] = (table after the call, value returned). *)
Fixpoint upd (l : list T) (i : nat) (v : T) : list T :=
  match l, i with
  | [], _ => []
  | _ :: t, O => v :: t
  | h :: t, S i' => h :: upd t i' v
  end.

Fixpoint daw_fill (n : nat) (i : Z) (c : list T) : list T :=
  match n with
  | O => c
  | S n' => daw_fill n' (i + 1)%Z (upd c (Z.to_nat i) (daw_c i))
  end.

Fixpoint daw_loop_st (c : list T) (n : nat) (i : Z) (d1 d2 e1 e2 sum : T) : T :=
  match n with
  | O => sum
  | S n' => daw_loop_st c n' (i + 1)%Z (d1 + #2)%num (d2 - #2)%num (e1 * e2)%num e2
              (sum + nth (Z.to_nat i) c #0 * (e1 / d1 + #1 / (d2 * e1)))%num
  end.

Definition dawson_st (c : list T) (x : T) : list T * T :=
  if nltb Ops (nabs Ops x) (dec 1 5) then
    let x2 := (x * x)%num in
    (c, (x * (#1 - dec 2 3 * x2 * (#1 - dec 2 5 * x2 * (#1 - dec 2 7 * x2))))%num)
  else
    let c' := daw_fill 6 0 c in
    let xx := nabs Ops x in
    let nn := (2 * ntrunc Ops (dec 1 2 * xx / daw_H + dec 1 2)%num)%Z in
    let xp := (xx - #nn * daw_H)%num in
    let e1 := nexp Ops (#2 * xp * daw_H)%num in
    let e2 := (e1 * e1)%num in
    let d1 := #(nn + 1) in
    let d2 := (d1 - #2)%num in
    let sum := daw_loop_st c' 6 0 d1 d2 e1 e2 #0 in
    (c', (dec 1128379167 2000000000 * sign2 Ops (nexp Ops (- xp * xp)%num) x * sum)%num).

(** a history of calls in one process: the table is threaded through, the answers are collected in order *)
Definition dawson_run (c : list T) (xs : list T) : list T * list T :=
  fold_left (fun st x => let cy := dawson_st (fst st) x in (fst cy, snd st ++ [snd cy])) xs (c, []).

(** Erfi calls Dawson_Integral (after computing h = exp(x^2/2)): it passes the table through *)
Definition erfi_st (pi : T) (c : list T) (x : T) : list T * T :=
  let h := nexp Ops (dec 1 2 * x * x)%num in
  let cy := dawson_st c x in
  (fst cy, (#2 / nsqrt Ops pi * h * snd cy * h)%num).

(** mixed histories of Dawson_Integral (false) and Erfi (true) requests *)
Definition special_st (pi : T) (c : list T) (q : bool * T) : list T * T :=
  if fst q then erfi_st pi c (snd q) else dawson_st c (snd q).
Definition special_run (pi : T) (c : list T) (qs : list (bool * T)) : list T * list T :=
  fold_left (fun st q => let cy := special_st pi (fst st) q in (fst cy, snd st ++ [snd cy])) qs (c, []).

(** ** a history of Round requests in one process.  A request is (digits, table): Round(double, d) is the table of one entry, Round(Vector, d) the
    table of one row, Round(Matrix, d) any table.  The library's Round keeps nothing between calls (no static, no cache): the history is answered
    request by request, in order; the first request that exits ends the process. *)
Fixpoint round_run (qs : list (Z * list (list T))) : res (list (list (list T))) :=
  match qs with
  | [] => Ok []
  | q :: r => let* a := round_table (snd q) (fst q) in let* b := round_run r in Ok (a :: b)
  end.

(** ** the vector harmonics when the scalar-harmonic back end may abandon an evaluation by throwing (boost reports an overflow that way at
    very high orders): [Y lh mh = None] stands for "Spherical_Harmonics(lh, mh, theta, phi) throws".  The sums are locals of the call
    ([std::vector<std::complex<double>> Psi(3, 0.0)]): the exception propagates out of the call, the partial sums are discarded with the frame,
    nothing is kept for the next call.  [Ok None] = the call was abandoned by the exception (the caller may catch it and go on).
    A history [vsh_run_x] is a list of requests (kind 0 = Vector_Spherical_Harmonics_Y, 1 = _Psi, other = Spherical_Harmonics itself, l, m, the back
    end at the request's direction); a thrown request does not end the process. *)
Definition vsh_term_x (comp : Z -> Z -> Z -> Z -> Z -> res (T * T)) (Y : Z -> Z -> option (T * T))
    (i l m lh mh : Z) (acc : res (option (T * T))) : res (option (T * T)) :=
  let* a := acc in
  match a with
  | None => Ok None
  | Some s =>
      if Z.abs mh <=? lh then
        let* c := comp i l m lh mh in
        match Y lh mh with
        | None => Ok None
        | Some y => Ok (Some (cadd Ops s (cmul Ops c y)))
        end
      else Ok (Some s)
  end.

Definition vsh_sum_x comp (Y : Z -> Z -> option (T * T)) (i l m : Z) : res (option (T * T)) :=
  let t := vsh_term_x comp Y i l m in
  t (l + 1) (m + 1) (t (l + 1) m (t (l + 1) (m - 1) (t (l - 1) (m + 1) (t (l - 1) m (t (l - 1) (m - 1) (Ok (Some (#0, #0)))))))).

Definition vsh_vector_x comp (Y : Z -> Z -> option (T * T)) (l m : Z) : res (option (list (T * T))) :=
  let* a := vsh_sum_x comp Y 0 l m in
  match a with None => Ok None | Some a =>
  let* b := vsh_sum_x comp Y 1 l m in
  match b with None => Ok None | Some b =>
  let* c := vsh_sum_x comp Y 2 l m in
  match c with None => Ok None | Some c => Ok (Some [a; b; c]) end end end.

Definition vsh_call_x (q : Z * Z * Z * (Z -> Z -> option (T * T))) : res (option (list (T * T))) :=
  let '(kind, l, m, Y) := q in
  if kind =? 0 then vsh_vector_x (g_VSH_Y_Component Ops) Y l m
  else if kind =? 1 then vsh_vector_x (g_VSH_Psi_Component Ops) Y l m
  else Ok (match Y l m with None => None | Some y => Some [y] end).

Fixpoint vsh_run_x (qs : list (Z * Z * Z * (Z -> Z -> option (T * T)))) : res (list (option (list (T * T)))) :=
  match qs with
  | [] => Ok []
  | q :: r => let* a := vsh_call_x q in let* b := vsh_run_x r in Ok (a :: b)
  end.
(** the table of a fresh process *)
Definition daw_table0 : list T := [#0; #0; #0; #0; #0; #0].
End Model.
