(** * C09: Integrate after a history, and the order of its limits.
    double Integrate(double x_1, double x_2) orders its limits (swap and sign = -1.0 when x_1 > x_2), locates both and
    returns sign * (the summation loop over the located segments with the current prefactor).  Here: after ANY history
    the two located indices are THE segments of the ordered limits, the value is the sign times the loop's value for
    those segments and the prefactor of the history (Set_Prefactor / Multiply calls alone), and asking the same range with
    the limits exchanged — on the same object later, or on any other object with the same prefactor calls — returns the
    same indices and the same loop value under the opposite sign.  No value computed for one order of the limits can be
    handed out for the other order. *)
From Coq Require Import ZArith List Bool Lia.
From LP Require Import Num OrdLaws C09_Model C09_Proofs.
Import ListNotations.
Local Open Scope Z_scope.

Section LocateOk.
Context {T : Type} (Ops : NumOps T) (OL : OrdLaws Ops).
Variable N : Z.
Variable xv : Z -> T.
Hypothesis Hinc : increasing Ops N xv.
Hypothesis HN : size_ok N.
Lemma locate_ok_in_domain st x : inv N st -> nisnan Ops x = false -> in_domain Ops N xv x ->
  exists s j, locate Ops N xv st x = Ok (s, j) /\ inv N s /\ prefactor s = prefactor st /\ canon Ops N xv x j.
Proof.
  intros Hi Hnn Hd.
  destruct (locate_index_spec Ops OL N xv Hinc HN st x Hi) as [(j & Hl & Hj & Hc & _)|[_ [Hn|Hn]]]; [|congruence|tauto].
  assert (E : locate Ops N xv st x = Ok (mkState j (still_correlated j (jLast st)) (prefactor st), j)).
  { unfold locate. rewrite Hl. reflexivity. }
  destruct (locate_result Ops OL N xv Hinc HN st x _ _ Hi E) as (A & B & C & _).
  eexists; eexists. split; [exact E|]. split; [unfold inv; cbn; lia|]. split; [reflexivity|auto].
Qed.

End LocateOk.

Section Integ.
Context {T : Type} (Ops : NumOps T) (OL : OrdLaws Ops).
Variable N : Z.
Variable xv : Z -> T.
Hypothesis Hinc : increasing Ops N xv.
Hypothesis HN : size_ok N.
Variable seg_eval : Z -> T -> T.
Variable seg_deriv : Z -> T -> Z -> T.
Variable integ_eval : Z -> Z -> T -> T -> T -> T.
Variable ext_eval : bool -> T -> T -> Z -> Z -> T -> T -> T -> T.
Variable glob_eval : bool -> T -> T.
Notation step := (step Ops N xv seg_eval seg_deriv integ_eval ext_eval glob_eval).
Notation run := (run Ops N xv seg_eval seg_deriv integ_eval ext_eval glob_eval).

(** the ordered limits and the sign, as Integrate computes them *)
Definition int_lo (x1 x2 : T) : T := if ngtb Ops x1 x2 then x2 else x1.
Definition int_hi (x1 x2 : T) : T := if ngtb Ops x1 x2 then x1 else x2.
Definition int_sign (x1 x2 : T) : T := if ngtb Ops x1 x2 then nneg Ops (n1 Ops) else n1 Ops.

Lemma step_integrate_fresh p x1 x2 :
  nisnan Ops x1 = false -> nisnan Ops x2 = false -> in_domain Ops N xv x1 -> in_domain Ops N xv x2 ->
  exists i1 i2, snd (step (fresh p) (OpIntegrate x1 x2)) =
                  OValue [i1; i2] (nmul Ops (int_sign x1 x2) (integ_eval i1 i2 (int_lo x1 x2) (int_hi x1 x2) p)) /\
                canon Ops N xv (int_lo x1 x2) i1 /\ canon Ops N xv (int_hi x1 x2) i2.
Proof.
  intros Hn1 Hn2 Hd1 Hd2. destruct HN as [HN2 HNmax].
  assert (Ha : nisnan Ops (int_lo x1 x2) = false /\ in_domain Ops N xv (int_lo x1 x2))
    by (unfold int_lo; destruct (ngtb Ops x1 x2); auto).
  assert (Hb : nisnan Ops (int_hi x1 x2) = false /\ in_domain Ops N xv (int_hi x1 x2))
    by (unfold int_hi; destruct (ngtb Ops x1 x2); auto).
  destruct Ha as [Hna Hda]. destruct Hb as [Hnb Hdb].
  destruct (locate_ok_in_domain Ops OL N xv Hinc HN (fresh p) _ (inv_fresh N HN p) Hna Hda) as (s1 & i1 & E1 & I1 & P1 & C1).
  destruct (locate_ok_in_domain Ops OL N xv Hinc HN s1 _ I1 Hnb Hdb) as (s2 & i2 & E2 & I2 & P2 & C2).
  exists i1, i2. split; [|auto].
  cbn [C09_Model.step]. unfold integrate. fold (int_lo x1 x2) (int_hi x1 x2) (int_sign x1 x2).
  rewrite E1. cbn [rbind]. rewrite E2. cbn.
  destruct C1 as (R1 & _). destruct C2 as (R2 & _).
  rewrite !i32_id by lia. rewrite P2, P1. reflexivity.
Qed.

Theorem integrate_after_history h x1 x2 :
  nisnan Ops x1 = false -> nisnan Ops x2 = false -> in_domain Ops N xv x1 -> in_domain Ops N xv x2 ->
  exists i1 i2, snd (step (run h (init Ops)) (OpIntegrate x1 x2)) =
                  OValue [i1; i2] (nmul Ops (int_sign x1 x2)
                     (integ_eval i1 i2 (int_lo x1 x2) (int_hi x1 x2) (prefactor_after Ops h (n1 Ops)))) /\
                canon Ops N xv (int_lo x1 x2) i1 /\ canon Ops N xv (int_hi x1 x2) i2.
Proof.
  intros. rewrite (history_free Ops OL N xv Hinc HN). apply step_integrate_fresh; auto.
Qed.

(** exchanged limits: the same located segments, the same loop value, the opposite sign — whatever was asked before *)
Theorem integrate_reversed_after_history h h' a b :
  nisnan Ops a = false -> nisnan Ops b = false -> in_domain Ops N xv a -> in_domain Ops N xv b ->
  nltb Ops a b = true -> prefactor_after Ops h (n1 Ops) = prefactor_after Ops h' (n1 Ops) ->
  exists i1 i2 v,
    snd (step (run h (init Ops)) (OpIntegrate a b)) = OValue [i1; i2] (nmul Ops (n1 Ops) v) /\
    snd (step (run h' (init Ops)) (OpIntegrate b a)) = OValue [i1; i2] (nmul Ops (nneg Ops (n1 Ops)) v) /\
    v = integ_eval i1 i2 a b (prefactor_after Ops h (n1 Ops)) /\ canon Ops N xv a i1 /\ canon Ops N xv b i2.
Proof.
  intros Hna Hnb Hda Hdb Hlt Hp.
  assert (G1 : ngtb Ops a b = false).
  { unfold ngtb. destruct (nltb Ops b a) eqn:E; [|reflexivity].
    pose proof (ol_trans Ops OL a b a Hlt E) as F. rewrite (ol_irrefl Ops OL a) in F. discriminate. }
  assert (G2 : ngtb Ops b a = true) by exact Hlt.
  destruct (integrate_after_history h a b Hna Hnb Hda Hdb) as (i1 & i2 & E1 & C1 & C2).
  destruct (integrate_after_history h' b a Hnb Hna Hdb Hda) as (k1 & k2 & E2 & D1 & D2).
  unfold int_sign, int_lo, int_hi in *. rewrite G1 in *. rewrite G2 in *.
  assert (k1 = i1) by (eapply (canon_unique Ops OL N xv Hinc); eauto).
  assert (k2 = i2) by (eapply (canon_unique Ops OL N xv Hinc); eauto).
  subst k1 k2. rewrite <- Hp in E2.
  exists i1, i2, (integ_eval i1 i2 a b (prefactor_after Ops h (n1 Ops))). auto.
Qed.
End Integ.

(** ** Interpolation_2D::Interpolate after a history, made explicit: the bilinear formula on THE cell of (x, y) *)
Section TwoDValue.
Context {T : Type} (Ops : NumOps T) (OL : OrdLaws Ops).
Variable Nx : Z. Variable xv : Z -> T.
Variable Ny : Z. Variable yv : Z -> T.
Variable fv : Z -> Z -> T.
Hypothesis Hincx : increasing Ops Nx xv.
Hypothesis Hincy : increasing Ops Ny yv.
Hypothesis HNx : size_ok Nx.
Hypothesis HNy : size_ok Ny.

(** the expression after "prefactor *" in Interpolation_2D::Interpolate, for the cell (i, j) *)
Definition bilinear_cell (i j : Z) (x y : T) : T :=
  let t := ndiv Ops (nsub Ops x (xv i)) (nsub Ops (xv (i + 1)) (xv i)) in
  let u := ndiv Ops (nsub Ops y (yv j)) (nsub Ops (yv (j + 1)) (yv j)) in
  let one := n1 Ops in let m := nmul Ops in let s := nsub Ops in
  nadd Ops (nadd Ops (nadd Ops (m (m (s one t) (s one u)) (fv i j)) (m (m t (s one u)) (fv (i + 1) j)))
                     (m (m t u) (fv (i + 1) (j + 1))))
           (m (m (s one t) u) (fv i (j + 1))).

Theorem interpolate2_after_history h x y :
  nisnan Ops x = false -> nisnan Ops y = false -> in_domain Ops Nx xv x -> in_domain Ops Ny yv y ->
  exists i j, snd (step2 Ops Nx xv Ny yv fv (run2 Ops Nx xv Ny yv fv h (init2 Ops)) (Op2Interpolate x y)) =
                O2Value i j (nmul Ops (prefactor2_after Ops h (n1 Ops)) (bilinear_cell i j x y)) /\
              canon Ops Nx xv x i /\ canon Ops Ny yv y j.
Proof.
  intros Hnx Hny Hdx Hdy.
  rewrite (history_free2 Ops OL Nx xv Ny yv fv Hincx Hincy HNx HNy).
  destruct (locate_ok_in_domain Ops OL Nx xv Hincx HNx (init Ops) x (inv_fresh Nx HNx _) Hnx Hdx) as (s1 & i & E1 & _ & _ & C1).
  destruct (locate_ok_in_domain Ops OL Ny yv Hincy HNy (init Ops) y (inv_fresh Ny HNy _) Hny Hdy) as (s2 & j & E2 & _ & _ & C2).
  exists i, j. split; [|auto].
  destruct C1 as (R1 & _). destruct C2 as (R2 & _).
  cbn [C09_Model.step2]. unfold interpolate2. cbn [sx sy pf2]. rewrite E1. cbn [rbind]. rewrite E2. cbn [rbind].
  unfold getx, getf.
  assert (A1 : (0 <=? i) = true) by (apply Z.leb_le; lia). assert (A2 : (i <? Nx) = true) by (apply Z.ltb_lt; lia).
  assert (A3 : (0 <=? i + 1) = true) by (apply Z.leb_le; lia). assert (A4 : (i + 1 <? Nx) = true) by (apply Z.ltb_lt; lia).
  assert (B1 : (0 <=? j) = true) by (apply Z.leb_le; lia). assert (B2 : (j <? Ny) = true) by (apply Z.ltb_lt; lia).
  assert (B3 : (0 <=? j + 1) = true) by (apply Z.leb_le; lia). assert (B4 : (j + 1 <? Ny) = true) by (apply Z.ltb_lt; lia).
  rewrite A1, A2, A3, A4, B1, B2, B3, B4.
  cbn [rbind andb]. reflexivity.
Qed.
End TwoDValue.

(** non-vacuity on the integer instance of C09_Proofs.v: a history with hunts, prefactor calls and a whole-domain
    integral, then the whole domain again in both orders *)
Definition exi_evals : evals Z :=
  mkEvals Z (fun j x => 100 * j + x) (fun j x k => j + k) (fun i1 i2 a b p => p * (1000 * (i2 - i1) + (b - a)))
            (fun _ _ _ _ _ _ _ _ => 0) (fun _ p => p).
Definition exi_history : list (op Z) :=
  [OpLocate 55; OpLocate 72; OpIntegrate 0 390; OpSetPrefactor 3; OpLocate 385; OpIntegrate 390 0; OpMultiply (-2); OpInterpolate 77].
Example exi_reversed :
  nltb ZOps 0 390 = true /\ in_domain ZOps 40 ex_xv 0 /\ in_domain ZOps 40 ex_xv 390 /\
  snd (stepE ZOps 40 ex_xv exi_evals (runE ZOps 40 ex_xv exi_evals exi_history (init ZOps)) (OpIntegrate 0 390))
    = OValue [0; 38] (1 * (-6 * 38390)) /\
  snd (stepE ZOps 40 ex_xv exi_evals (runE ZOps 40 ex_xv exi_evals exi_history (init ZOps)) (OpIntegrate 390 0))
    = OValue [0; 38] (-1 * (-6 * 38390)).
Proof. vm_compute. repeat split; discriminate. Qed.

Definition exi_fv (i j : Z) : Z := 100 * i + j.
Definition exi_history2 : list (op2 Z) :=
  [Op2Interpolate 10 10; Op2Interpolate 12 380; Op2SetPrefactor 3; Op2Copy; Op2Interpolate 385 20; Op2Multiply (-2)].
Example exi_interpolate2 :
  in_domain ZOps 40 ex_xv 55 /\ in_domain ZOps 40 ex_xv 72 /\
  exists v, snd (step2 ZOps 40 ex_xv 40 ex_xv exi_fv (run2 ZOps 40 ex_xv 40 ex_xv exi_fv exi_history2 (init2 ZOps)) (Op2Interpolate 55 72))
            = O2Value 5 7 v /\ v = nmul ZOps (-6) (bilinear_cell ZOps ex_xv ex_xv exi_fv 5 7 55 72).
Proof. split; [vm_compute; repeat split; discriminate|]. split; [vm_compute; repeat split; discriminate|]. eexists. split; vm_compute; reflexivity. Qed.
