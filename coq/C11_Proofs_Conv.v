(** * C11 proofs over the reals: Find_Minimum / Find_Maximum reach the minimiser of a strictly unimodal objective
    within the distance implied by the tolerance (geometry of Bracket and of Brent's bracket [a,b]) *)
From Coq Require Import ZArith List Bool Reals Lra Lia Psatz.
From LP Require Import Num NumR OrdLaws C11_Model C11_Proofs.
Import ListNotations.
Local Open Scope R_scope.

Lemma golden_R : golden ROps = 1618034 / 1000000.
Proof. reflexivity. Qed.
Lemma cgold_R : cgold ROps = 381966 / 1000000.
Proof. reflexivity. Qed.
Lemma half_R : half ROps = 1 / 2.
Proof. reflexivity. Qed.
Lemma zeps_R : zeps ROps = 1 / 4503599627370496.
Proof. reflexivity. Qed.
Lemma two_R : two ROps = 2.
Proof. reflexivity. Qed.
Lemma glimit_R : glimit ROps = 100.
Proof. reflexivity. Qed.

(** f falls strictly up to xs and rises strictly from xs on *)
Definition SUnimodal (f : R -> R) (xs : R) : Prop :=
  (forall x y, x < y -> y <= xs -> f y < f x) /\ (forall x y, xs <= x -> x < y -> f x < f y).

Section Geometry.
Variable f : R -> R.

(** bx lies strictly between ax and cx *)
Definition Btw (s : @brk R) : Prop := (b_ax s < b_bx s < b_cx s) \/ (b_cx s < b_bx s < b_ax s).

Lemma bracket_body_btw s : Btw s ->
  match bracket_body ROps f s with BrkRet s' _ => Btw s' | BrkCont s' _ => Btw s' end.
Proof.
  unfold bracket_body, bracket_ulim. generalize (bracket_u ROps s). intros u.
  destruct s as [ax bx cx fa fb fc]. unfold Btw. cbn [b_ax b_bx b_cx b_fa b_fb b_fc].
  rewrite golden_R, glimit_R. unfold ngtb, ngeb, zero. cbn [nltb nleb nadd nsub nmul n0 ROps].
  intros HB.
  destruct (Rltb_spec 0 ((bx - u) * (u - cx))) as [H1|H1].
  - assert ((bx < u < cx) \/ (cx < u < bx)) as Hu by nra.
    destruct (Rltb (f u) fc); [cbn; nra|]. destruct (Rltb fb (f u)); cbn; nra.
  - destruct (Rltb_spec 0 ((cx - u) * (u - (bx + 100 * (cx - bx))))) as [H2|H2].
    + assert ((cx < u < bx + 100 * (cx - bx)) \/ (bx + 100 * (cx - bx) < u < cx)) as Hu by nra.
      destruct (Rltb (f u) fc); cbn; nra.
    + destruct (Rleb _ _); cbn; nra.
Qed.

Lemma bracket_loop_btw : forall fuel s tr s' tr', Btw s -> bracket_loop ROps f fuel s tr = Ok (s', tr') -> Btw s'.
Proof.
  induction fuel as [|k IH]; intros s tr s' tr' HB H; cbn [bracket_loop] in H; [discriminate|].
  destruct (ngtb ROps (b_fb s) (b_fc s)).
  - pose proof (bracket_body_btw s HB) as HS. destruct (bracket_body ROps f s) as [s1 ev|s1 ev].
    + inversion H; subst; exact HS.
    + eapply IH; eauto.
  - inversion H; subst; exact HB.
Qed.

Lemma bracket_btw a b s tr : a <> b -> bracket ROps f a b = Ok (s, tr) -> Btw s.
Proof.
  intros Hab. unfold bracket. rewrite golden_R. cbn [nadd nsub nmul ROps].
  destruct (ngtb ROps (f b) (f a)); intros H; apply bracket_loop_btw in H; auto; unfold Btw; cbn;
    destruct (Rtotal_order a b) as [?|[?|?]]; try contradiction; nra.
Qed.
End Geometry.

(** ** Sign(x, y) over the reals for x > 0 *)
Lemma sign2_pos t y : 0 < t -> (0 < y -> sign2 ROps t y = t) /\ (y <= 0 -> sign2 ROps t y = - t).
Proof.
  intros Ht. unfold sign2, sign1, ngtb. cbn [nltb neqb n0 n1 nmul nneg ROps].
  destruct (Rltb_spec 0 t) as [_|C]; [|lra].
  split; intros Hy.
  - destruct (Rltb_spec 0 y) as [_|C]; [reflexivity|lra].
  - destruct (Rltb_spec 0 y) as [C|_]; [lra|]. destruct (Reqb y 0); cbn; lra.
Qed.

Section Brent.
Variable f : R -> R.
Variable xs : R.
Hypothesis HU : SUnimodal f xs.

(** Brent's bracket [a,b] contains the current point x and the minimiser *)
Definition BI (s : @bst R) : Prop :=
  s_a s <= s_x s <= s_b s /\ s_a s <= xs <= s_b s /\ s_fx s = f (s_x s).

Lemma final_u a b x t d :
  0 < t -> (t <= Rabs d -> a <= x + d <= b) -> (0 < d -> Rabs d < t -> x + t <= b /\ a <= x) -> (d <= 0 -> Rabs d < t -> a <= x - t /\ x <= b) ->
  let u := if ngeb ROps (Rabs d) t then x + d else x + sign2 ROps t d in a <= u <= b /\ u <> x.
Proof.
  intros Ht H1 H2 H3. unfold ngeb. cbn [nleb ROps]. destruct (Rleb_spec t (Rabs d)) as [E|E]; cbv zeta.
  - split; [auto|]. intros C. assert (d = 0) by lra. subst d. rewrite Rabs_R0 in E. lra.
  - destruct (sign2_pos t d Ht) as [P N]. destruct (Rlt_le_dec 0 d) as [Hd|Hd].
    + rewrite (P Hd). specialize (H2 Hd ltac:(lra)). lra.
    + rewrite (N Hd). specialize (H3 Hd ltac:(lra)). lra.
Qed.

Lemma brent_trial_in tol s : 0 <= tol -> s_a s <= s_x s <= s_b s -> brent_done ROps tol s = false ->
  let u := snd (brent_trial ROps tol s) in s_a s <= u <= s_b s /\ u <> s_x s.
Proof.
  intros Htol Hax Hnd. unfold brent_trial. unfold brent_done in Hnd.
  destruct s as [a b d0 e0 v w x fv fw fx]. cbn [s_a s_b s_x] in *.
  rewrite half_R, two_R, zeps_R in *. rewrite cgold_R. unfold ngtb, ngeb, zero in *. cbn [nltb nleb nadd nsub nmul ndiv nabs nneg n0 ROps] in *.
  apply Rleb_false in Hnd.
  set (t := tol * Rabs x + 1 / 4503599627370496) in *.
  assert (Ht : 0 < t) by (unfold t; pose proof (Rabs_pos x); nra).
  set (xm := 1 / 2 * (a + b)) in *.
  (* the far end is more than 2t away *)
  assert (Hfar : (xm <= x -> 2 * t < x - a) /\ (x < xm -> 2 * t < b - x)).
  { unfold xm in *. split; intros Hc; [rewrite Rabs_right in Hnd by lra|rewrite Rabs_left in Hnd by lra]; lra. }
  destruct Hfar as [Hf1 Hf2].
  (* the golden-section step *)
  assert (HG : forall (dd ee : R), dd = 381966 / 1000000 * (if Rleb xm x then a - x else b - x) ->
     let u := if Rleb t (Rabs dd) then x + dd else x + sign2 ROps t dd in a <= u <= b /\ u <> x).
  { intros dd _ ->. destruct (Rleb_spec xm x) as [Hc|Hc].
    - specialize (Hf1 Hc). apply (final_u a b x t _ Ht); intros; nra.
    - apply Rnot_le_lt in Hc. specialize (Hf2 Hc). apply (final_u a b x t _ Ht); intros; nra. }
  cbv zeta.
  destruct (Rltb t (Rabs e0)); [|cbn [fst snd]; apply (HG _ (if Rleb xm x then a - x else b - x)); reflexivity].
  set (r := (x - w) * (fx - fv)). set (q := (x - v) * (fx - fw)).
  set (q2 := 2 * (q - r)). set (p := if Rltb 0 q2 then - ((x - v) * q - (x - w) * r) else (x - v) * q - (x - w) * r).
  destruct (Rleb_spec (Rabs (1 / 2 * Rabs q2 * e0)) (Rabs p)) as [C1|C1];
    [cbn [orb fst snd]; apply (HG _ (if Rleb xm x then a - x else b - x)); reflexivity|].
  destruct (Rleb_spec p (Rabs q2 * (a - x))) as [C2|C2];
    [cbn [orb fst snd]; apply (HG _ (if Rleb xm x then a - x else b - x)); reflexivity|].
  destruct (Rleb_spec (Rabs q2 * (b - x)) p) as [C3|C3];
    [cbn [orb fst snd]; apply (HG _ (if Rleb xm x then a - x else b - x)); reflexivity|].
  cbn [orb fst snd].
  assert (Hq : 0 < Rabs q2).
  { destruct (Req_dec q2 0) as [Z|Z]; [|apply Rabs_pos_lt; exact Z]. rewrite Z, Rabs_R0 in C1. rewrite Rmult_0_r, Rmult_0_l, Rabs_R0 in C1. pose proof (Rabs_pos p). lra. }
  set (dd := p / Rabs q2).
  assert (Hp : p = dd * Rabs q2) by (unfold dd; field; lra).
  assert (Hdd : a - x < dd < b - x) by (rewrite Hp in C2, C3; nra).
  assert (Hsg : forall y, Rabs (sign2 ROps t y) = t).
  { intros y. destruct (sign2_pos t y Ht) as [P N]. destruct (Rlt_le_dec 0 y); [rewrite P by lra; apply Rabs_right; lra|rewrite N by lra; rewrite Rabs_left; lra]. }
  destruct (Rltb (x + dd - a) (2 * t) || Rltb (b - (x + dd)) (2 * t)) eqn:EE.
  - apply (final_u a b x t _ Ht).
    + intros _. destruct (sign2_pos t (xm - x) Ht) as [P N].
      destruct (Rlt_le_dec 0 (xm - x)); [rewrite P by lra; specialize (Hf2 ltac:(lra)); lra|rewrite N by lra; specialize (Hf1 ltac:(lra)); lra].
    + intros _ Hc. rewrite Hsg in Hc. lra.
    + intros _ Hc. rewrite Hsg in Hc. lra.
  - apply orb_false_elim in EE. destruct EE as [E1 E2]. apply Rltb_false in E1, E2.
    apply (final_u a b x t _ Ht).
    + intros _. lra.
    + intros Hd Hc. rewrite Rabs_right in Hc by lra. lra.
    + intros Hd Hc. rewrite Rabs_left1 in Hc by lra. lra.
Qed.

Lemma brent_step_bi tol s : 0 <= tol -> BI s ->
  match brent_step ROps f tol s with
  | BDone xm fm => xm = s_x s /\ Rabs (xm - xs) <= 2 * (tol * Rabs xm + 1 / 4503599627370496)
  | BNext s' u => BI s'
  end.
Proof.
  intros Htol (Hx & Hs & Hfx). unfold brent_step. destruct (brent_done ROps tol s) eqn:ED.
  - split; [reflexivity|]. unfold brent_done in ED. destruct s as [a b d0 e0 v w x fv fw fx]. cbn [s_a s_b s_x] in *.
    rewrite half_R, two_R, zeps_R in ED. cbn [nleb nadd nsub nmul nabs ROps] in ED. apply Rleb_true in ED.
    assert (Hxa : x - a <= 2 * (tol * Rabs x + 1 / 4503599627370496) /\ b - x <= 2 * (tol * Rabs x + 1 / 4503599627370496)).
    { destruct (Rle_dec 0 (x - 1 / 2 * (a + b))) as [Hc|Hc]; [rewrite Rabs_right in ED by lra|rewrite Rabs_left in ED by lra]; lra. }
    apply Rabs_le. lra.
  - pose proof (brent_trial_in tol s Htol Hx ED) as HT. cbv zeta in HT.
    destruct (brent_trial ROps tol s) as [[d e] u]. cbn [snd] in HT. destruct HT as [Hu Hne].
    destruct HU as [UL UR].
    destruct s as [a b d0 e0 v w x fv fw fx]. cbn [s_a s_b s_x s_fx] in *. subst fx.
    unfold ngeb. cbn [nleb nltb ROps].
    destruct (Rleb_spec (f u) (f x)) as [E1|E1].
    + destruct (Rleb_spec x u) as [E2|E2]; unfold BI; cbn; (split; [lra|]); (split; [|reflexivity]).
      * split; [|lra]. destruct (Rle_dec x xs); [assumption|]. exfalso. pose proof (UR x u ltac:(lra) ltac:(lra)). lra.
      * split; [lra|]. destruct (Rle_dec xs x); [assumption|]. exfalso. pose proof (UL u x ltac:(lra) ltac:(lra)). lra.
    + assert (HAB : let ab := if Rltb u x then (u, b) else (a, u) in fst ab <= x <= snd ab /\ fst ab <= xs <= snd ab).
      { destruct (Rltb_spec u x) as [E2|E2]; cbn.
        - split; [lra|]. split; [|lra]. destruct (Rle_dec u xs); [assumption|]. exfalso. pose proof (UR u x ltac:(lra) ltac:(lra)). lra.
        - split; [lra|]. split; [lra|]. destruct (Rle_dec xs u); [assumption|]. exfalso. pose proof (UL x u ltac:(lra) ltac:(lra)). lra. }
      cbv zeta in HAB. destruct HAB as [A1 A2].
      destruct (Rleb (f u) fw || neqb ROps w x); [|destruct (Rleb (f u) fv || neqb ROps v x || neqb ROps v w)]; unfold BI; cbn [s_a s_b s_x s_fx]; auto.
Qed.

Lemma brent_loop_conv tol : 0 <= tol -> forall fuel s tr xm fm tr',
  BI s -> brent_loop ROps f fuel tol s tr = Ok (xm, fm, tr') -> Rabs (xm - xs) <= 2 * (tol * Rabs xm + 1 / 4503599627370496).
Proof.
  intros Htol. induction fuel as [|k IH]; intros s tr xm fm tr' HI H; cbn [brent_loop] in H; [discriminate|].
  pose proof (brent_step_bi tol s Htol HI) as HS.
  destruct (brent_step ROps f tol s) as [x1 f1|s1 u].
  - inversion H; subst. apply HS.
  - eapply IH; eauto.
Qed.

(** the minimiser lies in a bracket with fb <= fa, fb <= fc and bx strictly between ax and cx *)
Lemma bracket_contains (bk : @brk R) : Btw bk -> f (b_bx bk) <= f (b_ax bk) -> f (b_bx bk) <= f (b_cx bk) ->
  Rmin (b_ax bk) (b_cx bk) <= xs <= Rmax (b_ax bk) (b_cx bk).
Proof.
  destruct HU as [UL UR]. destruct bk as [ax bx cx fa fb fc]. unfold Btw. cbn. intros HB Ha Hc.
  destruct HB as [HB|HB]; [rewrite Rmin_left, Rmax_right by lra|rewrite Rmin_right, Rmax_left by lra]; split.
  - destruct (Rle_dec ax xs); [assumption|]. exfalso. pose proof (UR ax bx ltac:(lra) ltac:(lra)). lra.
  - destruct (Rle_dec xs cx); [assumption|]. exfalso. pose proof (UL bx cx ltac:(lra) ltac:(lra)). lra.
  - destruct (Rle_dec cx xs); [assumption|]. exfalso. pose proof (UR cx bx ltac:(lra) ltac:(lra)). lra.
  - destruct (Rle_dec xs ax); [assumption|]. exfalso. pose proof (UL bx ax ltac:(lra) ltac:(lra)). lra.
Qed.

(** Bracket encloses the minimiser *)
Theorem bracket_encloses a b s tr : a <> b -> bracket ROps f a b = Ok (s, tr) ->
  Btw s /\ Rmin (b_ax s) (b_cx s) <= xs <= Rmax (b_ax s) (b_cx s).
Proof.
  intros Hne EB. pose proof (bracket_btw f _ _ _ _ Hne EB) as HB. split; [exact HB|].
  destruct (bracket_post ROps ROps_OrdLaws f _ _ _ _ EB) as (Ea & Eb & Ec & Hba & Hbc & _).
  unfold le in Hba, Hbc. cbn [nltb ROps] in Hba, Hbc. apply Rltb_false in Hba, Hbc. rewrite Ea, Eb in Hba. rewrite Eb, Ec in Hbc.
  exact (bracket_contains s HB Hba Hbc).
Qed.

Theorem find_minimum_converges xl xr tol xm tr : xl <> xr -> 0 <= tol ->
  find_minimum ROps f xl xr tol = Ok (xm, tr) -> Rabs (xm - xs) <= 2 * (tol * Rabs xm + 1 / 4503599627370496).
Proof.
  intros Hne Htol. unfold find_minimum, rmap, find_minimum_full.
  destruct (bracket ROps f xl xr) as [[bk tr0]| | |] eqn:EB; cbn [rbind]; try discriminate. cbn [fst snd].
  destruct (brent ROps f tol bk tr0) as [[[x1 f1] tr1]| | |] eqn:EM; cbn [rbind]; try discriminate. cbn [fst snd].
  intros H; inversion H; subst.
  pose proof (bracket_btw f _ _ _ _ Hne EB) as HB.
  destruct (bracket_post ROps ROps_OrdLaws f _ _ _ _ EB) as (Ea & Eb & Ec & Hba & Hbc & _).
  unfold le in Hba, Hbc. cbn [nltb ROps] in Hba, Hbc. apply Rltb_false in Hba, Hbc. rewrite Ea, Eb in Hba. rewrite Eb, Ec in Hbc.
  pose proof (bracket_contains bk HB Hba Hbc) as HC.
  unfold brent in EM. destruct bk as [ax bx cx fa fb fc]. cbn [b_ax b_bx b_cx] in *.
  apply (brent_loop_conv tol Htol) in EM; [exact EM|].
  unfold BI; cbn [s_a s_b s_x s_fx nltb ROps]. unfold ngtb. cbn [nltb ROps]. unfold Btw in HB; cbn in HB.
  split; [|split; [|reflexivity]].
  - destruct (Rltb_spec ax cx), (Rltb_spec cx ax); lra.
  - destruct (Rltb_spec ax cx), (Rltb_spec cx ax); try lra; unfold Rmin, Rmax in HC; destruct (Rle_dec ax cx); lra.
Qed.
End Brent.

(** Find_Maximum: f rises strictly up to xs and falls strictly from xs on *)
Definition SUnimodalMax (f : R -> R) (xs : R) : Prop :=
  (forall x y, x < y -> y <= xs -> f x < f y) /\ (forall x y, xs <= x -> x < y -> f y < f x).

Theorem find_maximum_converges f xs xl xr tol xm tr : SUnimodalMax f xs -> xl <> xr -> 0 <= tol ->
  find_maximum ROps f xl xr tol = Ok (xm, tr) -> Rabs (xm - xs) <= 2 * (tol * Rabs xm + 1 / 4503599627370496).
Proof.
  intros [UL UR] Hne Htol H. rewrite find_maximum_is_minimum_of_neg in H.
  eapply find_minimum_converges; [|exact Hne|exact Htol|exact H].
  split; intros x y Hxy Hs; cbn [nmul nneg n1 ROps]; [specialize (UL x y Hxy Hs)|specialize (UR x y Hxy Hs)]; lra.
Qed.
Definition fq (x : R) : R := (x - 3) * (x - 3).
Lemma fq_unimodal : SUnimodal fq 3.
Proof. unfold fq. split; intros x y H1 H2; nra. Qed.
Lemma fq_unimodal_max : SUnimodalMax (fun x => - fq x) 3.
Proof. unfold fq. split; intros x y H1 H2; nra. Qed.

Ltac decide_cmp :=
  match goal with
  | |- context [Rltb ?a ?b] => let H := fresh in destruct (Rltb_spec a b) as [H|H]; [try (exfalso; clear -H; lra)|try (exfalso; clear -H; lra)]
  | |- context [Rleb ?a ?b] => let H := fresh in destruct (Rleb_spec a b) as [H|H]; [try (exfalso; clear -H; lra)|try (exfalso; clear -H; lra)]
  end.

Definition exc : R := 3 + 1618034 / 1000000 * (3 - 1).
Lemma ex_bracket : bracket ROps fq 1 3 = Ok (mkBrk 1 3 exc (fq 1) (fq 3) (fq exc), [exc; 3; 1]).
Proof.
  unfold bracket. change bracket_fuel with (S 999). set (k999 := 999%nat). unfold ngtb. cbn [nltb ROps]. unfold fq.
  decide_cmp. cbn [bracket_loop]. unfold ngtb. cbn [nltb ROps b_fb b_fc]. rewrite golden_R. cbn [nadd nsub nmul ROps].
  decide_cmp. reflexivity.
Qed.

Example ex_find_minimum_R : find_minimum ROps fq 1 3 1 = Ok (3, [1; 3; exc; 3]).
Proof.
  unfold find_minimum, find_minimum_full. rewrite ex_bracket. cbn [rbind fst snd]. unfold brent. unfold ngtb. cbn [nltb ROps].
  unfold exc at 1 2 3 4. decide_cmp. decide_cmp. change brent_ITMAX with (S 99). set (k := 99%nat). cbn [brent_loop].
  unfold brent_step, brent_done. rewrite half_R, two_R, zeps_R. cbn [nleb nadd nsub nmul nabs ROps s_x s_fx].
  rewrite (Rabs_left (3 - _)) by lra. rewrite (Rabs_right 3) by lra. decide_cmp. reflexivity.
Qed.

(** a pass of Brent's loop whose previous step e is not above tol1 takes the golden-section step *)
Lemma brent_trial_golden tol a b d0 e0 v w x fv fw fx :
  Rabs e0 <= tol * Rabs x + 1 / 4503599627370496 ->
  brent_trial ROps tol (mkB a b d0 e0 v w x fv fw fx) =
  let e := if Rleb (1 / 2 * (a + b)) x then a - x else b - x in
  let d := 381966 / 1000000 * e in
  (d, e, if Rleb (tol * Rabs x + 1 / 4503599627370496) (Rabs d) then x + d else x + sign2 ROps (tol * Rabs x + 1 / 4503599627370496) d).
Proof.
  intros He. unfold brent_trial. rewrite half_R, two_R, zeps_R, cgold_R. unfold ngtb, ngeb. cbn [nltb nleb nadd nsub nmul nabs ROps].
  destruct (Rltb_spec (tol * Rabs x + 1 / 4503599627370496) (Rabs e0)) as [C|_]; [lra|]. reflexivity.
Qed.

Example ex_find_minimum_R2 : exists xm tr, find_minimum ROps fq 1 3 (1/2) = Ok (xm, tr) /\ length tr = 5%nat.
Proof.
  do 2 eexists.
  pose proof ex_bracket as EXB. unfold find_minimum, find_minimum_full. rewrite EXB. clear EXB. cbn [rbind fst snd]. unfold brent. unfold ngtb. cbn [nltb ROps].
  unfold exc. decide_cmp. decide_cmp. change brent_ITMAX with (S (S 98)). set (k := 98%nat). cbn [brent_loop].
  unfold brent_step at 1. unfold brent_done at 1. rewrite half_R, two_R, zeps_R. unfold zero. cbn [nleb nadd nsub nmul nabs n0 ROps s_x s_fx].
  rewrite (Rabs_left (3 - _)) by lra. rewrite (Rabs_right 3) by lra.
  destruct (Rleb_spec (- (3 - 1 / 2 * (1 + (3 + 1618034 / 1000000 * (3 - 1))))) (2 * (1 / 2 * 3 + 1 / 4503599627370496) - 1 / 2 * ((3 + 1618034 / 1000000 * (3 - 1)) - 1))) as [C|_]; [lra|].
  rewrite brent_trial_golden by (rewrite Rabs_R0; rewrite (Rabs_right 3) by lra; lra). cbv zeta.
  destruct (Rleb_spec (1 / 2 * (1 + (3 + 1618034 / 1000000 * (3 - 1)))) 3) as [C|_]; [lra|].
  rewrite (Rabs_right 3) by lra. rewrite (Rabs_right (381966 / 1000000 * ((3 + 1618034 / 1000000 * (3 - 1)) - 3))) by lra.
  destruct (Rleb_spec (1 / 2 * 3 + 1 / 4503599627370496) (381966 / 1000000 * ((3 + 1618034 / 1000000 * (3 - 1)) - 3))) as [C|_]; [lra|].
  destruct (sign2_pos (1 / 2 * 3 + 1 / 4503599627370496) (381966 / 1000000 * ((3 + 1618034 / 1000000 * (3 - 1)) - 3)) ltac:(lra)) as [P _]. rewrite P by lra. clear P.
  set (u := 3 + (1 / 2 * 3 + 1 / 4503599627370496)).
  unfold ngeb. cbn [nleb nltb neqb ROps].
  destruct (Rleb_spec (fq u) (fq 3)) as [C|_]; [unfold fq, u in C; nra|].
  destruct (Rltb_spec u 3) as [C|_]; [unfold u in C; lra|]. cbn [fst snd].
  cbn [orb]. destruct (Reqb_spec 3 3) as [_|C]; [|contradiction C; reflexivity]. cbv beta iota.
  unfold brent_step, brent_done. rewrite half_R, two_R, zeps_R. cbn [nleb nadd nsub nmul nabs ROps s_x s_fx]. cbv beta iota.
  rewrite (Rabs_right (3 - _)) by (unfold u; lra). rewrite (Rabs_right 3) by lra.
  destruct (Rleb_spec (3 - 1 / 2 * (1 + u)) (2 * (1 / 2 * 3 + 1 / 4503599627370496) - 1 / 2 * (u - 1))) as [_|C]; [|unfold u in C; lra].
  cbn. split; reflexivity.
Qed.
